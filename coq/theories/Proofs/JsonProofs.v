(* Proofs/JsonProofs.v — lemmas about the JSON model (C09). *)
From Ferret Require Import Json Proofs.ValueInd Proofs.SortProofs Proofs.CompareProofs Proofs.HashProofs.
From Ferret Require Import Codec.Base64.
From Coq Require Import Permutation Lia.
Open Scope Z_scope.

Lemma mleb_kleb {V} : @mleb V = @kleb V. Proof. reflexivity. Qed.

(* ---------------------------------------------------------------- canonical *)
Section Canonical.
  Variable ff : N -> bytes.
  Definition enc (kv : bytes * value) : bytes * bytes := (esc_string (fst kv), to_json ff (snd kv)).

  Lemma to_json_obj m :
    to_json ff (VObj m) = 123%N :: jjoin (map member_text (isort mleb (map enc m))) ++ [125%N].
  Proof. reflexivity. Qed.

  Lemma to_json_norm : forall v, esc_keys_unique v = true -> to_json ff (norm v) = to_json ff v.
  Proof.
    induction v as [| | | | | |l IH|m IH|] using value_ind'; intro U; try reflexivity.
    - cbn [norm to_json]. do 3 f_equal. rewrite map_map. cbn [esc_keys_unique] in U. rewrite forallb_forall in U.
      apply map_ext_in. intros x Hx. rewrite Forall_forall in IH. apply IH; [exact Hx|apply U; exact Hx].
    - rewrite norm_obj, !to_json_obj. do 4 f_equal.
      cbn [esc_keys_unique] in U. apply andb_prop in U as [U1 U2]. rewrite forallb_forall in U2.
      assert (E : map enc (map nmember m) = map enc m).
      { rewrite map_map. apply map_ext_in. intros kv Hin. unfold enc, nmember; cbn [fst snd]. f_equal.
        rewrite Forall_forall in IH. apply IH; [exact Hin|apply U2; exact Hin]. }
      rewrite <- E. rewrite mleb_kleb. symmetry. apply isort_perm_unique.
      + apply Permutation_map. rewrite key_leb_kleb. apply isort_perm.
      + rewrite E, map_map. cbn [fst enc]. apply nodup_keys_NoDup. exact U1.
  Qed.

  (* equal values serialize to identical bytes *)
  Lemma json_canonical a b :
    struct_eq a b -> esc_keys_unique a = true -> esc_keys_unique b = true -> to_json ff a = to_json ff b.
  Proof.
    intros E Ua Ub. rewrite <- (to_json_norm a Ua), <- (to_json_norm b Ub). unfold struct_eq in E. rewrite E. reflexivity.
  Qed.
End Canonical.

(* with invalid UTF-8 keys the order of members can depend on the iteration order *)
Lemma json_noncanonical_invalid_keys :
  exists a b, wfb a = true /\ wfb b = true /\ struct_eq a b /\ forall ff, to_json ff a <> to_json ff b.
Proof.
  exists (VObj [([255%N], VInt 1); ([254%N], VInt 2)]), (VObj [([254%N], VInt 2); ([255%N], VInt 1)]).
  split; [reflexivity|]. split; [reflexivity|]. split; [vm_compute; reflexivity|].
  intros ff H. vm_compute in H. discriminate H.
Qed.

(* ------------------------------------------------------------ UTF-8 units *)
Lemma utf8_seq_stable b r k : utf8_seq (b :: r) = S k ->
  length (firstn k r) = k /\ forall rest, utf8_seq (b :: firstn k r ++ rest) = S k.
Proof.
  unfold utf8_seq. destruct (b <? 128)%N eqn:E1.
  - intro H. injection H as H. subst k. split; [reflexivity|]. intro rest. cbn [firstn app]. reflexivity.
  - destruct (in_rng 194 223 b) eqn:E2.
    + destruct r as [|b1 r]; [discriminate|]. destruct (cont b1) eqn:C1; [|discriminate].
      intro H. injection H as H. subst k. split; [reflexivity|]. intro rest. cbn [firstn app]. rewrite C1. reflexivity.
    + destruct (in_rng 224 239 b) eqn:E3.
      * destruct r as [|b1 [|b2 r]]; try discriminate.
        match goal with |- (if ?c then _ else _) = _ -> _ => destruct c eqn:C1; [|discriminate] end.
        intro H. injection H as H. subst k. split; [reflexivity|]. intro rest. cbn [firstn app]. rewrite C1. reflexivity.
      * destruct (in_rng 240 244 b) eqn:E4; [|discriminate].
        destruct r as [|b1 [|b2 [|b3 r]]]; try discriminate.
        match goal with |- (if ?c then _ else _) = _ -> _ => destruct c eqn:C1; [|discriminate] end.
        intro H. injection H as H. subst k. split; [reflexivity|]. intro rest. cbn [firstn app]. rewrite C1. reflexivity.
Qed.

Lemma utf8_seq_ascii b r : (b <? 128)%N = true -> utf8_seq (b :: r) = 1%nat.
Proof. intro H. unfold utf8_seq. rewrite H. reflexivity. Qed.

Lemma utf8_seq_multi_head b r k : utf8_seq (b :: r) = S (S k) -> (194 <= b)%N.
Proof.
  unfold utf8_seq. destruct (b <? 128)%N; [discriminate|].
  unfold in_rng. intro H.
  destruct ((194 <=? b)%N) eqn:E; [apply N.leb_le; exact E|].
  exfalso. apply N.leb_gt in E.
  assert (A : (224 <=? b)%N = false) by (apply N.leb_gt; lia).
  assert (B : (240 <=? b)%N = false) by (apply N.leb_gt; lia).
  rewrite A, B in H. cbn in H. discriminate H.
Qed.

(* a unit as [units] produces it *)
Definition unit_wf (u : unit8) : Prop :=
  match u with
  | UBad _ => True
  | UOk w =>
      match w with
      | [] => False
      | c :: w' =>
          ((c <? 128)%N = true /\ w' = []) \/
          ((194 <= c)%N /\ w' <> [] /\ forall rest, utf8_seq (c :: w' ++ rest) = S (length w'))
      end
  end.

Lemma units_wf fuel : forall s, Forall unit_wf (units fuel s).
Proof.
  induction fuel as [|f IH]; intro s; [constructor|]. cbn [units].
  destruct s as [|b r]; [constructor|].
  destruct (utf8_seq (b :: r)) as [|k] eqn:E; constructor; try apply IH; [exact I|].
  cbn [unit_wf]. destruct (utf8_seq_stable b r k E) as [L S].
  destruct k as [|k].
  - left. split; [|reflexivity]. unfold utf8_seq in E. destruct (b <? 128)%N; [reflexivity|].
    exfalso. destruct (in_rng 194 223 b); [destruct r as [|b1 r]; [discriminate|destruct (cont b1); discriminate]|].
    destruct (in_rng 224 239 b).
    { destruct r as [|b1 [|b2 r]]; try discriminate.
      match type of E with (if ?c then _ else _) = _ => destruct c; discriminate end. }
    destruct (in_rng 240 244 b); [|discriminate].
    destruct r as [|b1 [|b2 [|b3 r]]]; try discriminate.
    match type of E with (if ?c then _ else _) = _ => destruct c; discriminate end.
  - right. split; [eapply utf8_seq_multi_head; exact E|]. split.
    + intro H. rewrite H in L. discriminate L.
    + intro rest. rewrite L. apply S.
Qed.

Lemma units_concat fuel : forall s, (length s <= fuel)%nat -> concat (map unit_bytes (units fuel s)) = s.
Proof.
  induction fuel as [|f IH]; intros s L.
  - destruct s; [reflexivity|cbn in L; lia].
  - cbn [units]. destruct s as [|b r]; [reflexivity|]. cbn [length] in L.
    destruct (utf8_seq (b :: r)) as [|k] eqn:E; cbn [map concat unit_bytes].
    + cbn [app]. f_equal. apply IH. lia.
    + cbn [app]. f_equal. rewrite IH; [apply firstn_skipn|]. rewrite skipn_length. lia.
Qed.

Lemma coerce_valid s : valid_utf8 s = true -> coerce s = s.
Proof.
  unfold valid_utf8, coerce, segs. intro V. rewrite <- (units_concat (length s) s) at 3 by lia.
  f_equal. apply map_ext_in. intros u Hu. rewrite forallb_forall in V. specialize (V u Hu).
  destruct u; [reflexivity|discriminate V].
Qed.

(* --------------------------------------------- strings: parse (escape s) *)
Definition pcont (f : nat) (u rest : bytes) : option (bytes * bytes) :=
  match parse_str f rest with
  | Some (t, r') => Some (u ++ t, r')
  | None => None
  end.

Lemma ps_quote f r : parse_str (S f) (34%N :: r) = Some ([], r).
Proof. reflexivity. Qed.

Lemma ps_esc f e b r : (e =? 117)%N = false -> simple_escape e = Some b ->
  parse_str (S f) (92%N :: e :: r) = pcont f [b] r.
Proof. intros E S. cbn [parse_str]. cbn [N.eqb Pos.eqb]. rewrite E, S. reflexivity. Qed.

Lemma ps_u f a b c d r cp : parse_hex4 (a :: b :: c :: d :: r) = Some (cp, r) ->
  in_rng 55296 56319 cp = false -> in_rng 56320 57343 cp = false ->
  parse_str (S f) (92%N :: 117%N :: a :: b :: c :: d :: r) = pcont f (utf8_encode cp) r.
Proof.
  intros H S1 S2. cbn [parse_str]. cbn [N.eqb Pos.eqb]. rewrite H, S1, S2. reflexivity.
Qed.

Lemma ps_raw f c r k : (c =? 34)%N = false -> (c =? 92)%N = false -> (c <? 32)%N = false ->
  utf8_seq (c :: r) = S k -> parse_str (S f) (c :: r) = pcont f (c :: firstn k r) (skipn k r).
Proof. intros E1 E2 E3 U. cbn [parse_str]. rewrite E1, E2, E3, U. reflexivity. Qed.

Lemma N_lt_cases n (P : N -> Prop) :
  (forall k, (k < n)%nat -> P (N.of_nat k)) -> forall c, (c < N.of_nat n)%N -> P c.
Proof. intros H c L. rewrite <- (N2Nat.id c). apply H. lia. Qed.

Lemma hexv_hexdig x : (x < 16)%N -> hexv (hexdig x) = Some x.
Proof.
  revert x. apply (N_lt_cases 16). intros k L.
  do 16 (destruct k as [|k]; [vm_compute; reflexivity|]). lia.
Qed.

Lemma parse_hex4_00 c r : (c < 32)%N ->
  parse_hex4 (48%N :: 48%N :: hexdig (c / 16) :: hexdig (c mod 16) :: r) = Some (c, r).
Proof.
  intro L. unfold parse_hex4.
  rewrite (hexv_hexdig (c / 16)) by (apply N.div_lt_upper_bound; lia).
  rewrite (hexv_hexdig (c mod 16)) by (apply N.mod_lt; lia).
  change (hexv 48) with (Some 0%N). cbv iota beta. f_equal. f_equal.
  rewrite (N.div_mod c 16) at 3 by lia. lia.
Qed.

Lemma esc_ascii_parse f c r : (c <? 128)%N = true ->
  parse_str (S f) (esc_ascii c ++ r) = pcont f [c] r.
Proof.
  intro A. apply N.ltb_lt in A. unfold esc_ascii.
  destruct (c =? 34)%N eqn:E1; [apply N.eqb_eq in E1; subst; apply ps_esc; reflexivity|].
  destruct (c =? 92)%N eqn:E2; [apply N.eqb_eq in E2; subst; apply ps_esc; reflexivity|].
  destruct (c =? 10)%N eqn:E3; [apply N.eqb_eq in E3; subst; apply ps_esc; reflexivity|].
  destruct (c =? 13)%N eqn:E4; [apply N.eqb_eq in E4; subst; apply ps_esc; reflexivity|].
  destruct (c =? 9)%N eqn:E5; [apply N.eqb_eq in E5; subst; apply ps_esc; reflexivity|].
  destruct (c <? 32)%N eqn:E6.
  - apply N.ltb_lt in E6. cbn [app].
    rewrite (ps_u f 48%N 48%N (hexdig (c / 16)) (hexdig (c mod 16)) r c).
    + unfold utf8_encode. assert (T : (c <? 128)%N = true) by (apply N.ltb_lt; lia). rewrite T. reflexivity.
    + apply parse_hex4_00; exact E6.
    + unfold in_rng. assert (T : (55296 <=? c)%N = false) by (apply N.leb_gt; lia). rewrite T. reflexivity.
    + unfold in_rng. assert (T : (56320 <=? c)%N = false) by (apply N.leb_gt; lia). rewrite T. reflexivity.
  - cbn [app]. rewrite (ps_raw f c r 0); try assumption; [reflexivity|].
    apply utf8_seq_ascii. apply N.ltb_lt; exact A.
Qed.

Lemma esc_unit_parse f u r : unit_wf u ->
  parse_str (S f) (esc_unit u ++ r) = pcont f (coerce_unit u) r.
Proof.
  intro W. destruct u as [w|b].
  - cbn [esc_unit coerce_unit]. destruct w as [|c w']; [destruct W|]. cbn [unit_wf] in W.
    destruct W as [[A E]|(A & NE & S)].
    + subst w'. apply esc_ascii_parse; exact A.
    + destruct w' as [|c1 w'']; [congruence|].
      destruct (is_ls (c :: c1 :: w'')) eqn:L1.
      { apply bytes_eqb_eq in L1. rewrite L1. apply (ps_u f 50%N 48%N 50%N 56%N r 8232%N); reflexivity. }
      destruct (is_ps (c :: c1 :: w'')) eqn:L2.
      { apply bytes_eqb_eq in L2. rewrite L2. apply (ps_u f 50%N 48%N 50%N 57%N r 8233%N); reflexivity. }
      specialize (S r). rewrite <- app_comm_cons.
      assert (E1 : (c =? 34)%N = false) by (apply N.eqb_neq; lia).
      assert (E2 : (c =? 92)%N = false) by (apply N.eqb_neq; lia).
      assert (E3 : (c <? 32)%N = false) by (apply N.ltb_ge; lia).
      rewrite (ps_raw f c ((c1 :: w'') ++ r) (length (c1 :: w'')) E1 E2 E3 S).
      rewrite firstn_app, Nat.sub_diag, firstn_all, firstn_O, app_nil_r.
      rewrite skipn_app, Nat.sub_diag, skipn_all, skipn_O. reflexivity.
  - cbn [esc_unit coerce_unit]. apply (ps_u f 102%N 102%N 102%N 100%N r 65533%N); reflexivity.
Qed.

Lemma parse_str_units us : forall fuel rest, Forall unit_wf us -> (length us < fuel)%nat ->
  parse_str fuel (concat (map esc_unit us) ++ quote :: rest) = Some (concat (map coerce_unit us), rest).
Proof.
  induction us as [|u us IH]; intros fuel rest W L.
  - destruct fuel as [|f]; [cbn in L; lia|]. reflexivity.
  - destruct fuel as [|f]; [cbn in L; lia|]. inversion W as [|? ? Wu Wus]; subst.
    cbn [map concat]. rewrite <- app_assoc. rewrite esc_unit_parse by exact Wu.
    unfold pcont. rewrite IH; [reflexivity|exact Wus|cbn in L; lia].
Qed.

Lemma units_length fuel : forall s, (length (units fuel s) <= length s)%nat.
Proof.
  induction fuel as [|f IH]; intro s; [cbn; lia|]. cbn [units].
  destruct s as [|b r]; [cbn; lia|]. destruct (utf8_seq (b :: r)) as [|k]; cbn [length].
  - specialize (IH r). lia.
  - specialize (IH (skipn k r)). rewrite skipn_length in IH. lia.
Qed.

Lemma esc_unit_nonempty u : unit_wf u -> (1 <= length (esc_unit u))%nat.
Proof.
  destruct u as [w|b]; [|cbn; lia]. cbn [unit_wf esc_unit]. destruct w as [|c w']; [intros []|]. intros _.
  destruct w' as [|c1 w''].
  - unfold esc_ascii. repeat match goal with |- context [if ?c then _ else _] => destruct c end; cbn; lia.
  - destruct (is_ls _); [cbn; lia|]. destruct (is_ps _); cbn; lia.
Qed.

Lemma esc_units_length us : Forall unit_wf us -> (length us <= length (concat (map esc_unit us)))%nat.
Proof.
  induction 1 as [|u us Wu _ IH]; [cbn; lia|]. cbn [map concat length]. rewrite app_length.
  pose proof (esc_unit_nonempty u Wu). lia.
Qed.

(* the string body as the parser is called on it: fuel = 1 + length of the input *)
Lemma parse_str_esc s rest :
  parse_str (S (length (esc_string s ++ quote :: rest))) (esc_string s ++ quote :: rest) = Some (coerce s, rest).
Proof.
  unfold esc_string, coerce. apply parse_str_units; [apply units_wf|].
  rewrite app_length. pose proof (esc_units_length (segs s) (units_wf _ _)). lia.
Qed.

(* ---------------------------------------------- plain text inside quotes *)
Definition plain (c : N) : Prop := (32 <= c < 128)%N /\ c <> 34%N /\ c <> 92%N.

Lemma parse_str_plain t : forall fuel rest, Forall plain t -> (length t < fuel)%nat ->
  parse_str fuel (t ++ quote :: rest) = Some (t, rest).
Proof.
  induction t as [|c t IH]; intros fuel rest P L.
  - destruct fuel as [|f]; [cbn in L; lia|]. reflexivity.
  - destruct fuel as [|f]; [cbn in L; lia|]. inversion P as [|? ? (R & N1 & N2) Pt]; subst.
    cbn [app]. rewrite (ps_raw f c (t ++ quote :: rest) 0).
    + unfold pcont. cbn [firstn skipn]. rewrite IH; [reflexivity|exact Pt|cbn in L; lia].
    + apply N.eqb_neq; exact N1.
    + apply N.eqb_neq; exact N2.
    + apply N.ltb_ge; lia.
    + apply utf8_seq_ascii. apply N.ltb_lt; lia.
Qed.

Lemma plain_dig z : plain (dig z).
Proof.
  unfold plain, dig. pose proof (Z.mod_pos_bound z 10 ltac:(lia)) as B.
  assert (Z.to_N (z mod 10) < 10)%N by lia. lia.
Qed.

Ltac plain_tac :=
  repeat first
    [ apply Forall_nil
    | apply Forall_cons; [first [apply plain_dig | (unfold plain; lia)]|]
    | apply Forall_app; split ].

Lemma plain_dig2 z : Forall plain (dig2 z). Proof. unfold dig2. plain_tac. Qed.
Lemma plain_dig4 z : Forall plain (dig4 z). Proof. unfold dig4. plain_tac. Qed.

Lemma plain_strip r : Forall plain r -> Forall plain (strip_zeros_rev r).
Proof.
  induction r as [|c t IH]; intro P; [constructor|]. cbn [strip_zeros_rev].
  destruct (c =? 48)%N; [apply IH; inversion P; assumption|exact P].
Qed.
Lemma plain_rev r : Forall plain r -> Forall plain (rev r).
Proof. intro P. apply Forall_forall. intros x Hx. apply in_rev in Hx. rewrite Forall_forall in P. apply P; exact Hx. Qed.

Lemma plain_frac n : Forall plain (frac_text n).
Proof.
  unfold frac_text. destruct (n =? 0); [constructor|].
  apply Forall_cons; [unfold plain; lia|]. apply plain_rev, plain_strip, plain_rev. plain_tac.
Qed.

Lemma plain_zone o : Forall plain (zone_text o).
Proof.
  unfold zone_text. destruct (o =? 0); [plain_tac|].
  destruct (Z.quot o 60 <? 0); (apply Forall_cons; [unfold plain; lia|]);
  (apply Forall_app; split; [apply plain_dig2|apply Forall_cons; [unfold plain; lia|apply plain_dig2]]).
Qed.

Lemma plain_date s n o : Forall plain (date_text s n o).
Proof.
  unfold date_text. destruct (rdn_to_ymd _) as [[y m] d].
  repeat first [ apply Forall_app; split | apply plain_dig4 | apply plain_dig2 | apply plain_frac | apply plain_zone
               | apply Forall_cons; [unfold plain; lia|] ].
Qed.

Lemma plain_b64_char i : plain (b64_char i).
Proof.
  unfold plain, b64_char.
  destruct (i <? 26)%N eqn:E1; [apply N.ltb_lt in E1; lia|apply N.ltb_ge in E1].
  destruct (i <? 52)%N eqn:E2; [apply N.ltb_lt in E2; lia|apply N.ltb_ge in E2].
  destruct (i <? 62)%N eqn:E3; [apply N.ltb_lt in E3; lia|apply N.ltb_ge in E3].
  destruct (i =? 62)%N; lia.
Qed.

From Ferret Require Import Proofs.CodecBase64Proofs.
Open Scope Z_scope.

Lemma plain_b64 s : Forall plain (b64_encode s).
Proof.
  induction s as [|a|a b|a b c r IH] using list_ind3; cbn [b64_encode].
  - constructor.
  - repeat (apply Forall_cons; [first [apply plain_b64_char | (unfold plain, b64_pad; lia)]|]). constructor.
  - repeat (apply Forall_cons; [first [apply plain_b64_char | (unfold plain, b64_pad; lia)]|]). constructor.
  - repeat (apply Forall_cons; [apply plain_b64_char|]). exact IH.
Qed.

(* ----------------------------------------------------------------- numbers *)
Definition digitP (c : N) : Prop := (48 <= c <= 57)%N.
Definition dstep (a : Z) (d : N) : Z := a * 10 + Z.of_N (d - 48).

Lemma is_digit_true c : digitP c -> is_digit c = true.
Proof. unfold digitP, is_digit, in_rng. intro H. apply andb_true_intro. split; apply N.leb_le; lia. Qed.

Lemma dec_go_S f n acc : dec_go (S f) n acc =
  if (n <? 10)%N then (48 + n)%N :: acc else dec_go f (n / 10)%N ((48 + n mod 10)%N :: acc).
Proof. reflexivity. Qed.

Lemma dec_go_spec f : forall n acc, (n < 10 ^ N.of_nat (S f))%N ->
  exists ds, dec_go (S f) n acc = ds ++ acc /\ Forall digitP ds /\ ds <> [] /\
    (forall a, fold_left dstep ds a = a * 10 ^ Z.of_nat (length ds) + Z.of_N n) /\
    (hd 0%N ds = 48%N -> ds = [48%N]).
Proof.
  induction f as [|f IH]; intros n acc L.
  - change (10 ^ N.of_nat 1)%N with 10%N in L. cbn [dec_go].
    assert (E : (n <? 10)%N = true) by (apply N.ltb_lt; exact L). rewrite E.
    exists [(48 + n)%N]. split; [reflexivity|]. split; [constructor; [unfold digitP; lia|constructor]|].
    split; [discriminate|]. split.
    + intro a. cbn [fold_left length]. unfold dstep. change (10 ^ Z.of_nat 1) with 10. lia.
    + cbn [hd]. intro H. f_equal. exact H.
  - rewrite dec_go_S. destruct (n <? 10)%N eqn:E.
    + apply N.ltb_lt in E. exists [(48 + n)%N]. split; [reflexivity|].
      split; [constructor; [unfold digitP; lia|constructor]|]. split; [discriminate|]. split.
      * intro a. cbn [fold_left length]. unfold dstep. change (10 ^ Z.of_nat 1) with 10. lia.
      * cbn [hd]. intro H. f_equal. exact H.
    + apply N.ltb_ge in E.
      assert (Lq : (n / 10 < 10 ^ N.of_nat (S f))%N).
      { apply N.div_lt_upper_bound; [lia|]. rewrite <- N.pow_succ_r'. rewrite <- Nat2N.inj_succ. exact L. }
      destruct (IH (n / 10)%N ((48 + n mod 10)%N :: acc) Lq) as (ds & Eds & Fd & Ne & Val & Hd).
      exists (ds ++ [(48 + n mod 10)%N]). split; [rewrite Eds, <- app_assoc; reflexivity|].
      pose proof (N.mod_lt n 10 ltac:(lia)) as Bm.
      split; [apply Forall_app; split; [exact Fd|constructor; [unfold digitP; lia|constructor]]|].
      split; [destruct ds; discriminate|]. split.
      * intro a. rewrite fold_left_app, Val. cbn [fold_left]. unfold dstep.
        rewrite app_length. cbn [length]. rewrite Nat.add_1_r, Nat2Z.inj_succ, Z.pow_succ_r by lia.
        pose proof (N.div_mod n 10 ltac:(lia)) as D.
        assert (Z.of_N n = 10 * Z.of_N (n / 10) + Z.of_N (n mod 10)) by lia.
        replace (Z.of_N (48 + n mod 10 - 48)) with (Z.of_N (n mod 10)) by lia. lia.
      * destruct ds as [|d0 ds']; [congruence|]. cbn [hd app]. intro H0.
        exfalso. cbn [hd] in Hd. specialize (Hd H0). injection Hd as Hd. subst ds'.
        specialize (Val 0). cbn [fold_left length] in Val. unfold dstep in Val. subst d0.
        change (10 ^ Z.of_nat 1) with 10 in Val.
        assert (n / 10 = 0)%N by lia. assert (n < 10)%N; [|lia].
        apply N.div_small_iff in H; lia.
Qed.

Lemma dec_N_spec n : exists ds, dec_N n = ds /\ Forall digitP ds /\ ds <> [] /\
  digits_val ds = Z.of_N n /\ (hd 0%N ds = 48%N -> ds = [48%N]).
Proof.
  unfold dec_N.
  assert (L : (n < 10 ^ N.of_nat (S (N.to_nat (N.log2 n))))%N).
  { rewrite Nat2N.inj_succ, N2Nat.id. destruct (N.eq_dec n 0) as [->|NZ]; [vm_compute; reflexivity|].
    pose proof (N.log2_spec n ltac:(lia)) as [_ U].
    eapply N.lt_le_trans; [exact U|]. apply N.pow_le_mono_l. lia. }
  destruct (dec_go_spec _ n [] L) as (ds & E & Fd & Ne & Val & Hd).
  exists ds. rewrite app_nil_r in E. split; [exact E|]. split; [exact Fd|]. split; [exact Ne|]. split; [|exact Hd].
  unfold digits_val. change (fun a d => a * 10 + Z.of_N (d - 48)) with dstep. rewrite Val. lia.
Qed.

Definition num_end (rest : bytes) : Prop :=
  match rest with
  | [] => True
  | c :: _ => is_digit c = false /\ (c =? 46)%N = false /\ (c =? 101)%N = false /\ (c =? 69)%N = false
  end.

Lemma take_digits_app ds rest : Forall digitP ds -> num_end rest -> take_digits (ds ++ rest) = (ds, rest).
Proof.
  intros Fd Ne. induction Fd as [|d ds Hd _ IH].
  - cbn [app]. destruct rest as [|c r]; [reflexivity|]. cbn [take_digits]. destruct Ne as (E & _). rewrite E. reflexivity.
  - cbn [app take_digits]. rewrite (is_digit_true d Hd), IH. reflexivity.
Qed.

Lemma parse_unsigned_digits (neg : bool) ds rest : Forall digitP ds -> ds <> [] ->
  (hd 0%N ds = 48%N -> ds = [48%N]) -> num_end rest ->
  parse_unsigned neg (ds ++ rest) = Some ((if neg then - digits_val ds else digits_val ds), 0, rest).
Proof.
  intros Fd Ne Hd En. unfold parse_unsigned. rewrite (take_digits_app ds rest Fd En).
  destruct ds as [|d0 ds']; [congruence|].
  assert (LZ : (d0 =? 48)%N && negb (Json.is_nil ds') = false).
  { destruct (d0 =? 48)%N eqn:E; [|reflexivity]. apply N.eqb_eq in E. cbn [hd] in Hd. specialize (Hd E).
    injection Hd as Hd. subst ds'. reflexivity. }
  cbv beta iota. rewrite LZ. destruct rest as [|c r].
  - cbn [negb]. rewrite app_nil_r. reflexivity.
  - destruct En as (E0 & E1 & E2 & E3). rewrite E1. cbn [negb]. rewrite E2, E3. cbn [orb negb].
    rewrite app_nil_r. reflexivity.
Qed.

Lemma parse_number_digits (neg : bool) ds rest : Forall digitP ds -> ds <> [] ->
  (hd 0%N ds = 48%N -> ds = [48%N]) -> num_end rest ->
  parse_number ((if neg then [45%N] else []) ++ ds ++ rest)
  = Some ((if neg then - digits_val ds else digits_val ds), 0, rest).
Proof.
  intros Fd Ne Hd En. destruct neg; cbn [app].
  - unfold parse_number. cbn [N.eqb Pos.eqb]. apply parse_unsigned_digits; assumption.
  - destruct ds as [|d0 ds']; [congruence|]. unfold parse_number. cbn [app].
    assert (D0 : digitP d0) by (inversion Fd; assumption).
    assert (N45 : (d0 =? 45)%N = false) by (apply N.eqb_neq; unfold digitP in D0; lia).
    rewrite N45. apply (parse_unsigned_digits false (d0 :: ds') rest); assumption.
Qed.

Lemma parse_number_dec_Z z rest : num_end rest -> parse_number (dec_Z z ++ rest) = Some (z, 0, rest).
Proof.
  intro En. unfold dec_Z. destruct (z <? 0) eqn:E.
  - apply Z.ltb_lt in E. destruct (dec_N_spec (Z.to_N (- z))) as (ds & Eds & Fd & Ne & Val & Hd).
    rewrite Eds. change (45%N :: ds) with ([45%N] ++ ds). rewrite <- app_assoc.
    rewrite (parse_number_digits true ds rest Fd Ne Hd En). rewrite Val. f_equal. f_equal. f_equal. lia.
  - apply Z.ltb_ge in E. destruct (dec_N_spec (Z.to_N z)) as (ds & Eds & Fd & Ne & Val & Hd).
    rewrite Eds. change (ds ++ rest) with ([] ++ ds ++ rest). rewrite (parse_number_digits false ds rest Fd Ne Hd En). rewrite Val. f_equal. f_equal. f_equal. lia.
Qed.

(* ------------------------------------------------ values: parse (to_json v) *)
Definition sep (rest : bytes) : Prop :=
  match rest with
  | [] => True
  | c :: _ => c = 44%N \/ c = 93%N \/ c = 125%N
  end.

Lemma sep_num_end rest : sep rest -> num_end rest.
Proof. destruct rest as [|c r]; [trivial|]. intros [H|[H|H]]; subst; repeat split; reflexivity. Qed.
Lemma sep_skip_ws rest : sep rest -> skip_ws rest = rest.
Proof. destruct rest as [|c r]; [reflexivity|]. intros [H|[H|H]]; subst; reflexivity. Qed.

(* first character of a value's text *)
Definition startP (c : N) : Prop :=
  c = 110%N \/ c = 116%N \/ c = 102%N \/ c = 34%N \/ c = 91%N \/ c = 123%N \/ c = 45%N \/ digitP c.

Lemma start_skip_ws c t : startP c -> skip_ws (c :: t) = c :: t.
Proof.
  intro H. cbn [skip_ws]. assert (E : is_ws c = false).
  { unfold is_ws. unfold startP, digitP in H.
    repeat rewrite orb_false_iff. repeat split; apply N.eqb_neq; lia. }
  rewrite E. reflexivity.
Qed.
Lemma start_not_close c t d : startP c -> d = 93%N \/ d = 125%N -> head_is d (c :: t) = None.
Proof.
  intros H D. cbn [head_is]. assert (E : (c =? d)%N = false) by (apply N.eqb_neq; unfold startP, digitP in H; lia).
  rewrite E. reflexivity.
Qed.

Lemma parse_number_head s x : parse_number s = Some x -> exists c r, s = c :: r /\ (c = 45%N \/ digitP c).
Proof.
  destruct s as [|c r]; [discriminate|]. intro H. exists c, r. split; [reflexivity|].
  unfold parse_number in H. destruct (c =? 45)%N eqn:E; [left; apply N.eqb_eq; exact E|right].
  unfold parse_unsigned in H. cbn [take_digits] in H. destruct (is_digit c) eqn:D.
  - unfold is_digit, in_rng in D. apply andb_prop in D as [D1 D2]. apply N.leb_le in D1, D2. unfold digitP. lia.
  - discriminate H.
Qed.

Lemma parse_value_number f c t m e rest' : c = 45%N \/ digitP c ->
  parse_number (c :: t) = Some (m, e, rest') -> parse_value (S f) (c :: t) = Some (JNum m e, rest').
Proof.
  intros H P. cbn [parse_value]. rewrite start_skip_ws by (unfold startP; tauto).
  assert (E1 : (c =? 110)%N = false) by (apply N.eqb_neq; unfold digitP in H; lia).
  assert (E2 : (c =? 116)%N = false) by (apply N.eqb_neq; unfold digitP in H; lia).
  assert (E3 : (c =? 102)%N = false) by (apply N.eqb_neq; unfold digitP in H; lia).
  assert (E4 : (c =? 34)%N = false) by (apply N.eqb_neq; unfold digitP in H; lia).
  assert (E5 : (c =? 91)%N = false) by (apply N.eqb_neq; unfold digitP in H; lia).
  assert (E6 : (c =? 123)%N = false) by (apply N.eqb_neq; unfold digitP in H; lia).
  assert (E7 : (c =? 45)%N || is_digit c = true).
  { destruct H as [H|H]; [subst; reflexivity|]. rewrite (is_digit_true c H). apply orb_true_r. }
  rewrite E1, E2, E3, E4, E5, E6, E7, P. reflexivity.
Qed.

Lemma pv_quote f r : parse_value (S f) (34%N :: r) =
  match parse_str (S (length r)) r with Some (t, r') => Some (JStr t, r') | None => None end.
Proof. reflexivity. Qed.
Lemma pv_arr f r : parse_value (S f) (91%N :: r) =
  match head_is 93 (skip_ws r) with
  | Some r' => Some (JArr [], r')
  | None => match parse_elems f r with Some (l, r') => Some (JArr l, r') | None => None end
  end.
Proof. reflexivity. Qed.
Lemma pv_obj f r : parse_value (S f) (123%N :: r) =
  match head_is 125 (skip_ws r) with
  | Some r' => Some (JObj [], r')
  | None => match parse_members f r with Some (l, r') => Some (JObj l, r') | None => None end
  end.
Proof. reflexivity. Qed.
Lemma pe_step f s : parse_elems (S f) s =
  match parse_value f s with
  | None => None
  | Some (j, r) =>
      match skip_ws r with
      | [] => None
      | c :: r' =>
          if (c =? 44)%N then
            match parse_elems f r' with Some (l, r'') => Some (j :: l, r'') | None => None end
          else if (c =? 93)%N then Some ([j], r')
          else None
      end
  end.
Proof. reflexivity. Qed.
Lemma pm_step f s : parse_members (S f) s =
  match head_is 34 (skip_ws s) with
  | None => None
  | Some r =>
      match parse_str (S (length r)) r with
      | None => None
      | Some (k, r1) =>
          match head_is 58 (skip_ws r1) with
          | None => None
          | Some r2 =>
              match parse_value f r2 with
              | None => None
              | Some (j, r3) =>
                  match skip_ws r3 with
                  | [] => None
                  | c :: r4 =>
                      if (c =? 44)%N then
                        match parse_members f r4 with
                        | Some (l, r5) => Some ((k, j) :: l, r5)
                        | None => None
                        end
                      else if (c =? 125)%N then Some ([(k, j)], r4)
                      else None
                  end
              end
          end
      end
  end.
Proof. reflexivity. Qed.

Lemma parse_value_string f body t rest :
  parse_str (S (length (body ++ quote :: rest))) (body ++ quote :: rest) = Some (t, rest) ->
  parse_value (S f) ((quote :: body ++ [quote]) ++ rest) = Some (JStr t, rest).
Proof.
  intro P. unfold quote in *. cbn [app]. rewrite <- app_assoc. cbn [app]. rewrite pv_quote, P. reflexivity.
Qed.

Lemma parse_value_plain f body rest : Forall plain body ->
  parse_value (S f) ((quote :: body ++ [quote]) ++ rest) = Some (JStr body, rest).
Proof. intro P. apply parse_value_string. apply parse_str_plain; [exact P|rewrite app_length; lia]. Qed.

Fixpoint need (v : value) : nat :=
  match v with
  | VArr l => S (length l + fold_right (fun x n => Nat.max (need x) n) O l)
  | VObj m => S (length m + fold_right (fun kv n => Nat.max (need (snd kv)) n) O m)
  | _ => 1
  end.

Lemma need_pos v : (1 <= need v)%nat. Proof. destruct v; cbn; lia. Qed.

Lemma need_arr_bound l x : In x l -> (need x <= fold_right (fun x n => Nat.max (need x) n) O l)%nat.
Proof. induction l as [|y r IH]; [intros []|]. cbn [fold_right]. intros [H|H]; [subst; lia|specialize (IH H); lia]. Qed.
Lemma need_obj_bound (m : list (bytes * value)) kv : In kv m ->
  (need (snd kv) <= fold_right (fun kv n => Nat.max (need (snd kv)) n) O m)%nat.
Proof. induction m as [|y r IH]; [intros []|]. cbn [fold_right]. intros [H|H]; [subst; lia|specialize (IH H); lia]. Qed.

Section Main.
  Variable ff : N -> bytes.
  (* the oracle hypothesis on float text: a JSON number literal *)
  Hypothesis ff_ok : forall b, f_finite b = true ->
    exists m e, forall rest, num_end rest -> parse_number (ff b ++ rest) = Some (m, e, rest).

  Definition good (v : value) : Prop :=
    forall fuel rest, (need v <= fuel)%nat -> sep rest ->
      parse_value fuel (to_json ff v ++ rest) = Some (jsonify ff v, rest).

  Lemma to_json_start v : wfb v = true -> marshal_ok v = true -> exists c t, to_json ff v = c :: t /\ startP c.
  Proof.
    intros W Mk. destruct v; cbn [to_json].
    - eexists; eexists; split; [reflexivity|unfold startP; tauto].
    - destruct b; eexists; eexists; (split; [reflexivity|unfold startP; tauto]).
    - unfold dec_Z. destruct (z <? 0); [eexists; eexists; split; [reflexivity|unfold startP; tauto]|].
      destruct (dec_N_spec (Z.to_N z)) as (ds & E & Fd & Ne & _). rewrite E.
      destruct ds as [|d ds']; [congruence|]. exists d, ds'. split; [reflexivity|].
      inversion Fd; subst. unfold startP; tauto.
    - cbn [marshal_ok] in Mk. destruct (ff_ok bits Mk) as (m & e & P). specialize (P [] I).
      apply parse_number_head in P as (c & r & E & H). rewrite app_nil_r in E. exists c, r. split; [exact E|].
      unfold startP; tauto.
    - eexists; eexists; split; [reflexivity|unfold startP; tauto].
    - eexists; eexists; split; [reflexivity|unfold startP; tauto].
    - eexists; eexists; split; [reflexivity|unfold startP; tauto].
    - eexists; eexists; split; [reflexivity|unfold startP; tauto].
    - eexists; eexists; split; [reflexivity|unfold startP; tauto].
  Qed.

  Lemma parse_elems_list l : forall M f rest, l <> [] ->
    Forall (fun x => (need x <= M)%nat /\ good x /\ wfb x = true /\ marshal_ok x = true) l ->
    (length l + M <= f)%nat -> sep rest ->
    parse_elems f (jjoin (map (to_json ff) l) ++ 93%N :: rest) = Some (map (jsonify ff) l, rest).
  Proof.
    induction l as [|x r IH]; intros M f rest NE F L Sp; [congruence|].
    inversion F as [|? ? (Nx & Gx & Wx & Mx) Fr]; subst.
    destruct f as [|f']; [cbn in L; lia|]. rewrite pe_step.
    destruct r as [|y r'].
    - cbn [map jjoin]. rewrite (Gx f' (93%N :: rest)); [|cbn in L; lia|cbn; tauto]. reflexivity.
    - change (jjoin (map (to_json ff) (x :: y :: r'))) with (to_json ff x ++ 44%N :: jjoin (map (to_json ff) (y :: r'))).
      rewrite <- app_assoc. cbn [app]. rewrite (Gx f' _); [|cbn in L; lia|cbn; tauto].
      change (skip_ws (44%N :: jjoin (map (to_json ff) (y :: r')) ++ 93%N :: rest))
        with (44%N :: jjoin (map (to_json ff) (y :: r')) ++ 93%N :: rest).
      change (44 =? 44)%N with true. cbv iota.
      rewrite (IH M f' rest); [reflexivity|discriminate|exact Fr|cbn in L |- *; lia|exact Sp].
  Qed.

  (* object members, sorted: t = (escaped key, (key, value)) *)
  Definition tri (kv : bytes * value) : bytes * (bytes * value) := (esc_string (fst kv), kv).
  Definition tenc (t : bytes * (bytes * value)) : bytes * bytes := (fst t, to_json ff (snd (snd t))).
  Definition tjs (t : bytes * (bytes * value)) : bytes * (bytes * json) :=
    (fst t, (coerce (fst (snd t)), jsonify ff (snd (snd t)))).

  Lemma parse_members_list T : forall M f rest, T <> [] ->
    Forall (fun t => fst t = esc_string (fst (snd t)) /\ (need (snd (snd t)) <= M)%nat /\ good (snd (snd t))
                     /\ wfb (snd (snd t)) = true /\ marshal_ok (snd (snd t)) = true) T ->
    (length T + M <= f)%nat -> sep rest ->
    parse_members f (jjoin (map member_text (map tenc T)) ++ 125%N :: rest)
    = Some (map (fun t => snd (tjs t)) T, rest).
  Proof.
    induction T as [|t r IH]; intros M f rest NE F L Sp; [congruence|].
    inversion F as [|? ? (Ek & Nx & Gx & Wx & Mx) Fr]; subst.
    destruct f as [|f']; [cbn in L; lia|].
    destruct t as [ek [k v]]. cbn [fst snd] in *. subst ek.
    assert (Step : forall tail, sep tail ->
      parse_members (S f') (member_text (tenc (esc_string k, (k, v))) ++ tail)
      = match skip_ws tail with
        | [] => None
        | c :: r4 =>
            if (c =? 44)%N then
              match parse_members f' r4 with
              | Some (l, r5) => Some ((coerce k, jsonify ff v) :: l, r5)
              | None => None
              end
            else if (c =? 125)%N then Some ([(coerce k, jsonify ff v)], r4) else None
        end).
    { intros tail St. rewrite pm_step. unfold member_text, tenc. cbn [fst snd].
      change (skip_ws ((quote :: esc_string k ++ quote :: 58%N :: to_json ff v) ++ tail))
        with ((quote :: esc_string k ++ quote :: 58%N :: to_json ff v) ++ tail).
      change (head_is 34 ((quote :: esc_string k ++ quote :: 58%N :: to_json ff v) ++ tail))
        with (Some ((esc_string k ++ quote :: 58%N :: to_json ff v) ++ tail)).
      cbv iota. rewrite <- app_assoc. cbn [app]. rewrite parse_str_esc.
      change (head_is 58 (skip_ws (58%N :: to_json ff v ++ tail))) with (Some (to_json ff v ++ tail)).
      cbv iota. rewrite (Gx f' tail); [|cbn in L; lia|exact St]. reflexivity. }
    destruct r as [|t2 r'].
    - cbn [map jjoin]. rewrite Step by (cbn; tauto). reflexivity.
    - change (jjoin (map member_text (map tenc ((esc_string k, (k, v)) :: t2 :: r'))))
        with (member_text (tenc (esc_string k, (k, v))) ++ 44%N :: jjoin (map member_text (map tenc (t2 :: r')))).
      rewrite <- app_assoc. cbn [app]. rewrite Step by (cbn; tauto).
      change (skip_ws (44%N :: jjoin (map member_text (map tenc (t2 :: r'))) ++ 125%N :: rest))
        with (44%N :: jjoin (map member_text (map tenc (t2 :: r'))) ++ 125%N :: rest).
      change (44 =? 44)%N with true. cbv iota.
      rewrite (IH M f' rest); [reflexivity|discriminate|exact Fr|cbn in L |- *; lia|exact Sp].
  Qed.

  Lemma jjoin_cons p r : jjoin (p :: r) = p ++ match r with [] => [] | _ => 44%N :: jjoin r end.
  Proof. destruct r; cbn [jjoin]; [rewrite app_nil_r|]; reflexivity. Qed.

  Lemma wfb_arr_elems l : wfb (VArr l) = true -> Forall (fun x => wfb x = true) l.
  Proof. cbn [wfb]. intro H. apply Forall_forall. rewrite forallb_forall in H. exact H. Qed.
  Lemma mok_arr_elems l : marshal_ok (VArr l) = true -> Forall (fun x => marshal_ok x = true) l.
  Proof. cbn [marshal_ok]. intro H. apply Forall_forall. rewrite forallb_forall in H. exact H. Qed.
  Lemma mok_obj_members m : marshal_ok (VObj m) = true -> Forall (fun kv => marshal_ok (snd kv) = true) m.
  Proof. cbn [marshal_ok]. intro H. apply Forall_forall. rewrite forallb_forall in H. exact H. Qed.

  Lemma sorted_enc m : isort mleb (map (fun kv => (esc_string (fst kv), to_json ff (snd kv))) m)
                       = map tenc (isort mleb (map tri m)).
  Proof.
    rewrite (map_isort (@mleb (bytes * value)) (@mleb bytes) tenc) by reflexivity.
    rewrite map_map. reflexivity.
  Qed.
  Lemma sorted_js m :
    isort mleb (map (fun kv => (esc_string (fst kv), (coerce (fst kv), jsonify ff (snd kv)))) m)
    = map tjs (isort mleb (map tri m)).
  Proof.
    rewrite (map_isort (@mleb (bytes * value)) (@mleb (bytes * json)) tjs) by reflexivity.
    rewrite map_map. reflexivity.
  Qed.

  Lemma all_good : forall v, wfb v = true -> marshal_ok v = true -> good v.
  Proof.
    induction v as [|b|z|b|s|sec n o|l IH|m IH|b] using value_ind'; intros W Mk fuel rest Lf Sp;
      (destruct fuel as [|f]; [pose proof (need_pos (VArr [])); cbn in Lf; lia|]).
    - reflexivity.
    - destruct b; reflexivity.
    - pose proof (parse_number_dec_Z z rest (sep_num_end rest Sp)) as P.
      destruct (parse_number_head _ _ P) as (c & r & E & H). cbn [to_json jsonify]. rewrite E in *.
      apply parse_value_number; assumption.
    - cbn [marshal_ok] in Mk. destruct (ff_ok b Mk) as (mm & e & P).
      pose proof (P rest (sep_num_end rest Sp)) as P1. pose proof (P [] I) as P0. rewrite app_nil_r in P0.
      cbn [to_json jsonify]. rewrite P0.
      destruct (parse_number_head _ _ P1) as (c & r & E & H). rewrite E in *.
      apply parse_value_number; assumption.
    - cbn [to_json jsonify]. unfold json_string. apply parse_value_string. apply parse_str_esc.
    - cbn [to_json jsonify]. apply parse_value_plain, plain_date.
    - (* arrays *)
      cbn [to_json jsonify]. cbn [app]. rewrite <- app_assoc. cbn [app]. rewrite pv_arr.
      destruct l as [|x r].
      + reflexivity.
      + pose proof (wfb_arr_elems _ W) as Wl. pose proof (mok_arr_elems _ Mk) as Ml.
        inversion Wl as [|? ? Wx _]; inversion Ml as [|? ? Mx _]; subst.
        destruct (to_json_start x Wx Mx) as (c & t & E & St).
        assert (Hd : exists t', jjoin (map (to_json ff) (x :: r)) ++ 93%N :: rest = c :: t').
        { cbn [map]. rewrite jjoin_cons, E. eexists. cbn [app]. reflexivity. }
        destruct Hd as (t' & Hd). rewrite Hd, (start_skip_ws c t' St), (start_not_close c t' 93%N St) by tauto.
        rewrite <- Hd.
        rewrite (parse_elems_list (x :: r) (fold_right (fun x n => Nat.max (need x) n) O (x :: r)) f rest).
        * reflexivity.
        * discriminate.
        * apply Forall_forall. intros y Hy. rewrite Forall_forall in IH, Wl, Ml.
          split; [apply need_arr_bound; exact Hy|]. split; [apply IH; [exact Hy|apply Wl; exact Hy|apply Ml; exact Hy]|].
          split; [apply Wl; exact Hy|apply Ml; exact Hy].
        * cbn [need] in Lf. lia.
        * exact Sp.
    - (* objects *)
      cbn [to_json jsonify]. rewrite sorted_enc, sorted_js. cbn [app]. rewrite <- app_assoc. cbn [app]. rewrite pv_obj.
      pose proof (isort_perm (@mleb (bytes * value)) (map tri m)) as Pm.
      destruct (isort mleb (map tri m)) as [|t0 T'] eqn:ET.
      + reflexivity.
      + assert (Hd : exists t', jjoin (map member_text (map tenc (t0 :: T'))) ++ 125%N :: rest = quote :: t').
        { cbn [map]. rewrite jjoin_cons. unfold member_text at 1. eexists. cbn [app]. reflexivity. }
        destruct Hd as (t' & Hd). rewrite Hd.
        change (skip_ws (quote :: t')) with (quote :: t'). change (head_is 125 (quote :: t')) with (@None bytes).
        cbv iota. rewrite <- Hd.
        rewrite (parse_members_list (t0 :: T') (fold_right (fun kv n => Nat.max (need (snd kv)) n) O m) f rest).
        * rewrite map_map. reflexivity.
        * discriminate.
        * eapply Permutation_Forall; [exact Pm|]. apply Forall_forall. intros t Ht.
          apply in_map_iff in Ht as (kv & Ekv & Hin). subst t. unfold tri; cbn [fst snd].
          pose proof (wfb_obj_members m W) as Wm. pose proof (mok_obj_members m Mk) as Mm.
          rewrite Forall_forall in IH, Wm, Mm.
          split; [reflexivity|]. split; [apply need_obj_bound; exact Hin|].
          split; [apply IH; [exact Hin|apply Wm; exact Hin|apply Mm; exact Hin]|].
          split; [apply Wm; exact Hin|apply Mm; exact Hin].
        * cbn [need] in Lf. apply Permutation_length in Pm. rewrite map_length in Pm. rewrite <- Pm. lia.
        * exact Sp.
    - cbn [to_json jsonify]. apply parse_value_plain, plain_b64.
  Qed.
End Main.

(* ---------------------------------------- enough fuel: need v <= |to_json v| *)
Lemma jjoin_length parts : length (jjoin parts) = (list_sum (map (@length N) parts) + pred (length parts))%nat.
Proof.
  induction parts as [|p r IH]; [reflexivity|]. destruct r as [|q r'].
  - cbn. lia.
  - change (jjoin (p :: q :: r')) with (p ++ 44%N :: jjoin (q :: r')). rewrite app_length. cbn [length] in *.
    rewrite IH. unfold list_sum. cbn [map fold_right length Nat.pred]. lia.
Qed.

Lemma list_sum_perm l l' : Permutation l l' -> list_sum l = list_sum l'.
Proof. induction 1; unfold list_sum in *; cbn [fold_right] in *; lia. Qed.

Section Fuel.
  Variable ff : N -> bytes.
  Hypothesis ff_ok : forall b, f_finite b = true ->
    exists m e, forall rest, num_end rest -> parse_number (ff b ++ rest) = Some (m, e, rest).

  Lemma need_le_length : forall v, wfb v = true -> marshal_ok v = true -> (need v <= length (to_json ff v))%nat.
  Proof.
    induction v as [|b|z|b|s|sec n o|l IH|m IH|b] using value_ind'; intros W Mk;
      try (destruct (to_json_start ff ff_ok _ W Mk) as (c & t & E & _); rewrite E; cbn; lia).
    - cbn [need to_json length]. rewrite app_length, jjoin_length, !map_length. cbn [length].
      pose proof (wfb_arr_elems l W) as Wl. pose proof (mok_arr_elems l Mk) as Ml.
      assert (B : (fold_right (fun x n => Nat.max (need x) n) O l <= list_sum (map (@length N) (map (to_json ff) l)))%nat).
      { clear W Mk. induction l as [|x r IHr]; [cbn; lia|].
        inversion IH as [|? ? Hx Hr]; inversion Wl; inversion Ml; subst.
        unfold list_sum in *. cbn [fold_right map]. specialize (IHr Hr ltac:(assumption) ltac:(assumption)).
        specialize (Hx ltac:(assumption) ltac:(assumption)). lia. }
      destruct l; cbn [length pred] in *; lia.
    - cbn [need to_json length]. rewrite app_length, jjoin_length, !map_length. cbn [length].
      rewrite isort_length, map_length.
      rewrite (list_sum_perm _ (map (@length N) (map member_text (map (fun kv => (esc_string (fst kv), to_json ff (snd kv))) m))))
        by (apply Permutation_map, Permutation_map, Permutation_sym, isort_perm).
      pose proof (wfb_obj_members m W) as Wm. pose proof (mok_obj_members m Mk) as Mm.
      assert (B : (fold_right (fun kv n => Nat.max (need (snd kv)) n) O m
                   <= list_sum (map (@length N) (map member_text (map (fun kv => (esc_string (fst kv), to_json ff (snd kv))) m))))%nat).
      { clear W Mk. induction m as [|x r IHr]; [cbn; lia|].
        inversion IH as [|? ? Hx Hr]; inversion Wm; inversion Mm; subst.
        unfold list_sum in *. cbn [fold_right map]. specialize (IHr Hr ltac:(assumption) ltac:(assumption)).
        specialize (Hx ltac:(assumption) ltac:(assumption)).
        unfold member_text at 1. cbn [fst snd length]. rewrite app_length. cbn [length]. lia. }
      destruct m; cbn [length pred] in *; lia.
  Qed.

  (* the bytes the serializer writes are a complete JSON text (RFC 8259 grammar,
     valid UTF-8), and a reader gets [jsonify v] back *)
  Lemma json_parse_back v : wfb v = true -> marshal_ok v = true ->
    parse_json (to_json ff v) = Some (jsonify ff v).
  Proof.
    intros W Mk. unfold parse_json.
    pose proof (all_good ff ff_ok v W Mk (S (length (to_json ff v))) [] ltac:(pose proof (need_le_length v W Mk); lia) I) as G.
    rewrite app_nil_r in G. rewrite G. reflexivity.
  Qed.

  Lemma json_valid_all v : wfb v = true -> marshal_ok v = true -> json_valid (to_json ff v) = true.
  Proof. intros W Mk. unfold json_valid. rewrite json_parse_back by assumption. reflexivity. Qed.
End Fuel.

(* ------------------------------ valid UTF-8 keys never collide after escaping *)
Lemma esc_inj s1 s2 : valid_utf8 s1 = true -> valid_utf8 s2 = true ->
  esc_string s1 = esc_string s2 -> s1 = s2.
Proof.
  intros V1 V2 E. pose proof (parse_str_esc s1 []) as P1. pose proof (parse_str_esc s2 []) as P2.
  rewrite E in P1. rewrite P1 in P2. injection P2 as P2. rewrite !coerce_valid in P2 by assumption. exact P2.
Qed.

Lemma NoDup_nodup_keys l : NoDup l -> nodup_keys l = true.
Proof.
  induction 1 as [|k r Hn _ IH]; [reflexivity|]. cbn [nodup_keys]. rewrite IH, andb_true_r.
  apply negb_true_iff. destruct (existsb (bytes_eqb k) r) eqn:E; [|reflexivity].
  apply existsb_exists in E as (y & Hy & Ey). apply bytes_eqb_eq in Ey. subst y. contradiction.
Qed.

Lemma valid_keys_unique : forall v, wfb v = true -> strings_valid v = true -> esc_keys_unique v = true.
Proof.
  induction v as [| | | | | |l IH|m IH|] using value_ind'; intros W V; try reflexivity.
  - cbn [esc_keys_unique]. apply forallb_forall. intros x Hx. rewrite Forall_forall in IH.
    cbn [wfb strings_valid] in W, V. rewrite forallb_forall in W, V. apply IH; [exact Hx|apply W; exact Hx|apply V; exact Hx].
  - cbn [esc_keys_unique]. cbn [strings_valid] in V. rewrite forallb_forall in V.
    apply andb_true_intro. split.
    + apply NoDup_nodup_keys. pose proof (wfb_obj_NoDup m W) as ND.
      clear W IH. induction m as [|[k x] r IHr]; [constructor|]. cbn [map fst] in *.
      inversion ND as [|? ? Hn NDr]; subst. constructor.
      * intro Hin. apply in_map_iff in Hin as ([k' x'] & Ek & Hin). cbn [fst] in Ek.
        assert (Vk : valid_utf8 k = true).
        { specialize (V (k, x) (or_introl eq_refl)). apply andb_prop in V as [V _]. exact V. }
        assert (Vk' : valid_utf8 k' = true).
        { specialize (V (k', x') (or_intror Hin)). apply andb_prop in V as [V _]. exact V. }
        apply esc_inj in Ek; [|assumption|assumption]. subst k'. apply Hn. apply (in_map fst) in Hin. exact Hin.
      * apply IHr; [|exact NDr]. intros kv Hkv. apply V. right; exact Hkv.
    + apply forallb_forall. intros kv Hkv. rewrite Forall_forall in IH.
      pose proof (wfb_obj_members m W) as Wm. rewrite Forall_forall in Wm.
      apply IH; [exact Hkv|apply Wm; exact Hkv|]. specialize (V kv Hkv). apply andb_prop in V as [_ V]. exact V.
Qed.

Lemma json_canonical_valid ff a b : struct_eq a b -> wfb a = true -> wfb b = true ->
  strings_valid a = true -> strings_valid b = true -> to_json ff a = to_json ff b.
Proof. intros E Wa Wb Va Vb. apply json_canonical; [exact E|apply valid_keys_unique; assumption|apply valid_keys_unique; assumption]. Qed.

(* the members of every object are written in strictly increasing order of the
   escaped key text *)
Lemma to_json_keys_sorted ff m : NoDup (map (fun kv => esc_string (fst kv)) m) ->
  strictly_sorted (map fst (isort mleb (map (fun kv => (esc_string (fst kv), to_json ff (snd kv))) m))) = true.
Proof.
  intro ND. set (L := isort mleb _).
  assert (Sd : adj_sorted mleb L = true) by (unfold L; rewrite mleb_kleb; apply isort_kleb_sorted).
  assert (NDL : NoDup (map fst L)).
  { eapply Permutation_NoDup; [apply Permutation_map, isort_perm|]. rewrite map_map. exact ND. }
  clearbody L. induction L as [|a r IH]; [reflexivity|]. destruct r as [|b r']; [reflexivity|].
  change (strictly_sorted (map fst (a :: b :: r')))
    with ((match lexcmp (fst a) (fst b) with Lt => true | _ => false end) && strictly_sorted (map fst (b :: r'))).
  cbn [adj_sorted] in Sd. apply andb_prop in Sd as [Sab Sr].
  cbn [map] in NDL. inversion NDL as [|? ? Hn NDr]; subst.
  rewrite (IH Sr NDr). rewrite andb_true_r. unfold mleb in Sab.
  destruct (lexcmp (fst a) (fst b)) eqn:E; [|reflexivity|discriminate].
  exfalso. apply lexcmp_eq in E. apply Hn. left. symmetry; exact E.
Qed.

(* markup characters are written as themselves *)
Lemma esc_ascii_markup c : is_markup c = true -> esc_ascii c = [c].
Proof.
  unfold is_markup. intro H. apply orb_prop in H as [H|H]; [apply orb_prop in H as [H|H]|];
  apply N.eqb_eq in H; subst; reflexivity.
Qed.

(* ------------------------------------ the parsed text denotes the value *)
Lemma assoc_in_nodup {V} (m : list (bytes * V)) k v : NoDup (map fst m) -> In (k, v) m -> assoc k m = Some v.
Proof.
  induction m as [|[k' v'] r IH]; intros ND Hin; [destruct Hin|]. cbn [assoc].
  cbn [map fst] in ND. inversion ND as [|? ? Hn NDr]; subst.
  destruct Hin as [H|H].
  - injection H as -> ->. rewrite bytes_eqb_refl. reflexivity.
  - destruct (bytes_eqb k k') eqn:E.
    + apply bytes_eqb_eq in E. subst k'. exfalso. apply Hn. apply (in_map fst) in H. exact H.
    + apply IH; assumption.
Qed.

Section Faithful.
  Variable ff : N -> bytes.
  Hypothesis ff_ok : forall b, f_finite b = true ->
    exists m e, forall rest, num_end rest -> parse_number (ff b ++ rest) = Some (m, e, rest).
  (* the oracle hypothesis on float text: it rounds back to the same double *)
  Hypothesis ff_round : forall b m e r, f_finite b = true ->
    parse_number (ff b) = Some (m, e, r) -> rounds_to m e b = true.

  Lemma jsonify_denotes : forall v, wfb v = true -> marshal_ok v = true ->
    strings_valid v = true -> dates_read_back v = true -> denotesb (jsonify ff v) v = true.
  Proof.
    induction v as [|b|z|b|s|sec n o|l IH|m IH|b] using value_ind'; intros W Mk V D.
    - reflexivity.
    - cbn. apply eqb_reflx.
    - cbn [jsonify denotesb]. unfold dec_is_int. cbn. apply Z.eqb_eq. lia.
    - cbn [marshal_ok] in Mk. cbn [jsonify]. destruct (ff_ok b Mk) as (mm & e & P).
      specialize (P [] I). rewrite app_nil_r in P. rewrite P. cbn [denotesb]. eapply ff_round; eassumption.
    - cbn [jsonify denotesb]. cbn [strings_valid] in V. rewrite coerce_valid by exact V. apply bytes_eqb_refl.
    - cbn [jsonify denotesb]. cbn [dates_read_back] in D. unfold date_reads_back in D.
      destruct (parse_rfc3339 (date_text sec n o)) as [[[s' n'] off]|]; [exact D|discriminate D].
    - cbn [jsonify denotesb].
      cbn [wfb marshal_ok strings_valid dates_read_back] in W, Mk, V, D. rewrite forallb_forall in W, Mk, V, D.
      induction IH as [|x r Hx _ IHr]; [reflexivity|]. cbn [map].
      rewrite Hx; [|apply W; left; reflexivity|apply Mk; left; reflexivity|apply V; left; reflexivity|apply D; left; reflexivity].
      cbn [andb]. apply IHr; intros y Hy; [apply W|apply Mk|apply V|apply D]; right; exact Hy.
    - cbn [jsonify].
      set (ms0 := map (fun kv : bytes * value => (coerce (fst kv), jsonify ff (snd kv))) m).
      set (ms := map snd (isort mleb (map (fun kv : bytes * value => (esc_string (fst kv), (coerce (fst kv), jsonify ff (snd kv)))) m))).
      assert (Pm : Permutation ms ms0).
      { unfold ms, ms0. rewrite <- (map_map (fun kv : bytes * value => (esc_string (fst kv), (coerce (fst kv), jsonify ff (snd kv)))) snd).
        apply Permutation_map, Permutation_sym, isort_perm. }
      pose proof (wfb_obj_NoDup m W) as ND. pose proof (wfb_obj_members m W) as Wm. pose proof (mok_obj_members m Mk) as Mm.
      cbn [strings_valid dates_read_back] in V, D. rewrite forallb_forall in V, D. rewrite Forall_forall in IH, Wm, Mm.
      assert (K0 : map fst ms0 = map fst m).
      { unfold ms0. rewrite map_map. apply map_ext_in. intros kv Hkv. cbn [fst].
        specialize (V kv Hkv). apply andb_prop in V as [V _]. apply coerce_valid; exact V. }
      cbn [denotesb]. apply andb_true_intro. split; [apply andb_true_intro; split|].
      + apply Nat.eqb_eq. rewrite (Permutation_length Pm). unfold ms0. apply map_length.
      + apply NoDup_nodup_keys. eapply Permutation_NoDup; [apply Permutation_map, Permutation_sym, Pm|]. rewrite K0. exact ND.
      + assert (G : forall l, (forall kj, In kj l -> In kj ms) ->
          (fix go (ms : list (bytes * json)) : bool :=
             match ms with
             | [] => true
             | (k, j) :: r => match assoc k m with Some v => denotesb j v | None => false end && go r
             end) l = true).
        { induction l as [|[k j] r IHr]; intro Sub; [reflexivity|].
          assert (Hin : In (k, j) ms0) by (eapply Permutation_in; [exact Pm|apply Sub; left; reflexivity]).
          unfold ms0 in Hin. apply in_map_iff in Hin as ([k0 v0] & E & Hin). cbn [fst snd] in E. injection E as <- <-.
          assert (Vk : valid_utf8 k0 = true) by (specialize (V _ Hin); apply andb_prop in V as [V _]; exact V).
          rewrite (coerce_valid k0 Vk). rewrite (assoc_in_nodup m k0 v0 ND Hin).
          pose proof (IH _ Hin) as IHv. cbn [snd] in IHv.
          rewrite IHv; [|apply (Wm _ Hin)|apply (Mm _ Hin)| |apply (D _ Hin)].
          - cbn [andb]. apply IHr. intros kj Hkj. apply Sub. right; exact Hkj.
          - specialize (V _ Hin). apply andb_prop in V as [_ V]. exact V. }
        apply G. intros kj H; exact H.
    - cbn [jsonify denotesb]. rewrite b64_roundtrip; [apply bytes_eqb_refl|].
      cbn [wfb] in W. unfold wf_bytes, wf_bytesb in *. apply Forall_forall. rewrite forallb_forall in W.
      intros x Hx. apply N.ltb_lt. apply W; exact Hx.
  Qed.
End Faithful.

(* bounded, by evaluation: RFC 3339 text reads back on a grid of 12 000 instants
   spread over the years 1..9999 (step 26 294 825 s), with varying nanoseconds and
   eight zone offsets (instants whose local year leaves 1..9999 are skipped, as
   the encoder refuses them) *)
Definition grid_offsets : list Z := [-1; 0; 60; -120; 330; 345; 840; -720].
Definition date_grid : list (Z * Z * Z) :=
  filter (fun t => let '(s, _, o) := t in date_ok s o)
    (map (fun i => (-62135596800 + i * 26294825, (i * 123456789) mod 1000000000,
                    nth (Z.to_nat (i mod 8)) grid_offsets 0))
         (nat_seq_Z (N.to_nat 12000) 0)).
Definition date_grid_ok : bool :=
  forallb (fun t => let '(s, n, o) := t in date_reads_back s n o) date_grid
  && (11900 <? N.of_nat (length date_grid))%N.
Lemma dates_read_back_on_grid : date_grid_ok = true.
Proof. vm_cast_no_check (eq_refl true). Qed.

(* ---------------------------------------------- the oracle hypotheses, named *)
Definition float_text_ok (ff : N -> bytes) : Prop :=
  forall b, f_finite b = true ->
    exists m e, forall rest, num_end rest -> parse_number (ff b ++ rest) = Some (m, e, rest).
Definition float_text_rounds (ff : N -> bytes) : Prop :=
  forall b m e r, f_finite b = true -> parse_number (ff b) = Some (m, e, r) -> rounds_to m e b = true.

Lemma float_text_ok_const0 : float_text_ok (fun _ => [48%N]).
Proof.
  intros b _. exists 0, 0. intros rest En.
  apply (parse_number_digits false [48%N] rest); [repeat constructor; unfold digitP; lia|discriminate|reflexivity|exact En].
Qed.

Lemma json_string_roundtrip ff s : wf_bytesb s = true ->
  parse_json (to_json ff (VStr s)) = Some (JStr (coerce s)).
Proof.
  intro W. change (to_json ff (VStr s)) with (to_json (fun _ => [48%N]) (VStr s)).
  rewrite (json_parse_back _ float_text_ok_const0 (VStr s)); [reflexivity|exact W|reflexivity].
Qed.

Lemma json_roundtrip ff v : float_text_ok ff -> float_text_rounds ff ->
  wfb v = true -> marshal_ok v = true -> strings_valid v = true -> dates_read_back v = true ->
  exists j, parse_json (to_json ff v) = Some j /\ denotesb j v = true.
Proof.
  intros Ok Rd W Mk V D. exists (jsonify ff v). split.
  - apply json_parse_back; assumption.
  - apply jsonify_denotes; assumption.
Qed.

Lemma json_string_roundtrip_valid ff s : wf_bytesb s = true -> valid_utf8 s = true ->
  parse_json (to_json ff (VStr s)) = Some (JStr s).
Proof. intros W V. rewrite <- (coerce_valid s V) at 2. apply json_string_roundtrip; exact W. Qed.

Lemma json_int_roundtrip ff z : wfb (VInt z) = true -> parse_json (to_json ff (VInt z)) = Some (JNum z 0).
Proof.
  intro W. change (to_json ff (VInt z)) with (to_json (fun _ => [48%N]) (VInt z)).
  exact (json_parse_back _ float_text_ok_const0 (VInt z) W eq_refl).
Qed.
