(* Proofs/DomProofs.v — lemmas about the DOM model (C18).  All statements are
   for arbitrary trees, contexts and selectors; no size bound. *)
From Ferret Require Import Base Dom.
From Coq Require Import Lia.

(* ---------- byte strings *)
Lemma d_lexcmp_refl a : lexcmp a a = Eq.
Proof. induction a as [|x a IH]; cbn; [reflexivity|]. rewrite N.compare_refl. exact IH. Qed.

Lemma d_lexcmp_eq a : forall b, lexcmp a b = Eq -> a = b.
Proof.
  induction a as [|x a IH]; intros [|y b] H; cbn in H; try discriminate; [reflexivity|].
  destruct (N.compare x y) eqn:C; try discriminate.
  apply N.compare_eq in C. subst y. f_equal. apply IH. exact H.
Qed.

Lemma bytes_eqb_refl a : bytes_eqb a a = true.
Proof. unfold bytes_eqb. rewrite d_lexcmp_refl. reflexivity. Qed.

Lemma bytes_eqb_true a b : bytes_eqb a b = true -> a = b.
Proof. unfold bytes_eqb. destruct (lexcmp a b) eqn:C; try discriminate. intros _. apply d_lexcmp_eq. exact C. Qed.

Lemma bytes_eqb_neq a b : a <> b -> bytes_eqb a b = false.
Proof. intros N. destruct (bytes_eqb a b) eqn:C; [|reflexivity]. apply bytes_eqb_true in C. contradiction. Qed.

(* ---------- association lists *)
Lemma assoc_set_same k v l : assoc k (assoc_set k v l) = Some v.
Proof.
  induction l as [|[k' v'] l IH]; cbn.
  - rewrite bytes_eqb_refl. reflexivity.
  - destruct (bytes_eqb k k') eqn:C; cbn.
    + rewrite bytes_eqb_refl. reflexivity.
    + rewrite C. exact IH.
Qed.

Lemma assoc_set_other k k' v l : k' <> k -> assoc k' (assoc_set k v l) = assoc k' l.
Proof.
  intros N. induction l as [|[k2 v2] l IH]; cbn.
  - rewrite (bytes_eqb_neq k' k N). reflexivity.
  - destruct (bytes_eqb k k2) eqn:C; cbn.
    + apply bytes_eqb_true in C. subst k2. rewrite (bytes_eqb_neq k' k N). reflexivity.
    + destruct (bytes_eqb k' k2); [reflexivity|exact IH].
Qed.

Lemma assoc_app k l1 l2 :
  assoc k (l1 ++ l2) = match assoc k l1 with Some v => Some v | None => assoc k l2 end.
Proof.
  induction l1 as [|[k' v'] l1 IH]; cbn; [reflexivity|].
  destruct (bytes_eqb k k'); [reflexivity|exact IH].
Qed.

(* ---------- write then read: attributes *)
Lemma attr_write_read h n v : n <> style_name -> get_attr (set_attr h n v) n = Some v.
Proof.
  intros N. unfold get_attr, set_attr, all_attrs. rewrite (bytes_eqb_neq _ _ N). cbn [h_attrs h_style].
  rewrite assoc_app, assoc_set_same. reflexivity.
Qed.

Lemma attr_write_other h n n' v : n' <> n -> get_attr (set_attr h n v) n' = get_attr h n'.
Proof.
  intros N. unfold get_attr, set_attr, all_attrs.
  destruct (bytes_eqb n style_name); [reflexivity|]. cbn [h_attrs h_style].
  rewrite !assoc_app, (assoc_set_other n n' v _ N). reflexivity.
Qed.

Lemma attr_write_keeps_style h n v k : get_style (set_attr h n v) k = get_style h k.
Proof. unfold get_style, set_attr. destruct (bytes_eqb n style_name); reflexivity. Qed.

(* ---------- write then read: styles *)
Lemma style_write_read h k v : get_style (set_style h k v) k = Some v.
Proof. unfold get_style, set_style. cbn [h_style]. apply assoc_set_same. Qed.

Lemma style_write_other h k k' v : k' <> k -> get_style (set_style h k v) k' = get_style h k'.
Proof. intros N. unfold get_style, set_style. cbn [h_style]. apply assoc_set_other. exact N. Qed.

Lemma assoc_set_nonempty k v l : assoc_set k v l <> [].
Proof. destruct l as [|[k' v'] l]; cbn; [discriminate|]. destruct (bytes_eqb k k'); discriminate. Qed.

Lemma style_write_keeps_attrs h k v n : n <> style_name -> get_attr (set_style h k v) n = get_attr h n.
Proof.
  intros N. unfold get_attr, set_style, all_attrs. cbn [h_attrs h_style]. rewrite !assoc_app.
  destruct (assoc n (h_attrs h)); [reflexivity|].
  assert (Hs : forall st, assoc n (style_entry st) = None).
  { intros [|x st]; cbn [style_entry assoc]; [reflexivity|]. rewrite (bytes_eqb_neq _ _ N). reflexivity. }
  rewrite !Hs. reflexivity.
Qed.

(* ---------- write then read: text and markup *)
Lemma text_write_read d t : inner_text (set_text d t) = t.
Proof. unfold inner_text, set_text, set_kids. cbn. apply app_nil_r. Qed.

Lemma html_write_read d f : inner_html (set_html d f) = f.
Proof. reflexivity. Qed.

Lemma text_write_keeps_hdr d t : l_h (set_text d t) = l_h d.
Proof. reflexivity. Qed.

(* ---------- the accessor family *)
Lemma count_is_length c s : count c s = Z.of_nat (List.length (select_all c s)).
Proof. reflexivity. Qed.

Lemma exists_iff_count c s : exists_ c s = true <-> 0 < count c s.
Proof. unfold exists_, exists_of, count. apply Z.ltb_lt. Qed.

Lemma exists_false_iff_zero c s : exists_ c s = false <-> count c s = 0.
Proof.
  unfold exists_, exists_of, count, count_of. rewrite Z.ltb_ge. lia.
Qed.

Lemma first_of_all c s :
  match select_all c s with
  | m :: _ => first c s = Ok m
  | [] => first c s = NotFound
  end.
Proof. unfold first, first_of. destruct (select_all c s); reflexivity. Qed.

Lemma first_found_iff c s : (exists m, first c s = Ok m) <-> 0 < count c s.
Proof.
  unfold first, first_of, count, count_of. destruct (select_all c s) as [|m r]; cbn [List.length]; split.
  - intros [m H]. discriminate.
  - lia.
  - lia.
  - intros _. exists m. reflexivity.
Qed.

Lemma first_never_crashes c s : first c s <> Crash.
Proof. unfold first, first_of. destruct (select_all c s); discriminate. Qed.

Lemma all_is_map c s :
  inner_text_all c s = map inner_text (select_all c s) /\
  inner_html_all c s = map inner_html (select_all c s) /\
  List.length (inner_text_all c s) = List.length (select_all c s) /\
  List.length (inner_html_all c s) = List.length (select_all c s).
Proof. unfold inner_text_all, inner_html_all. rewrite !map_length. repeat split. Qed.

(* the single-element functions are the heads of the _ALL functions *)
Lemma single_is_head_of_all c s :
  inner_text_sel c s = match inner_text_all c s with t :: _ => Ok t | [] => NotFound end /\
  inner_html_sel c s = match inner_html_all c s with t :: _ => Ok t | [] => NotFound end.
Proof.
  unfold inner_text_sel, inner_html_sel, inner_text_all, inner_html_all, first, first_of.
  destruct (select_all c s); split; reflexivity.
Qed.

(* ---------- structure of the zipper *)
Section NodeInd.
  Variable P : node -> Prop.
  Hypothesis HT : forall s, P (T s).
  Hypothesis HE : forall h kids, Forall P kids -> P (E h kids).
  Fixpoint node_ind2 (n : node) : P n :=
    match n with
    | T s => HT s
    | E h kids =>
        HE h kids ((fix go (l : list node) : Forall P l :=
                      match l with
                      | [] => Forall_nil P
                      | k :: r => Forall_cons k (node_ind2 k) (go r)
                      end) kids)
    end.
End NodeInd.

Lemma locs_of_E h kids fs : locs_of (E h kids) fs = mkL h kids fs :: kids_locs h fs [] kids.
Proof.
  cbn [locs_of]. f_equal. generalize (@nil node) as l.
  induction kids as [|k r IH]; intros l; cbn [kids_locs]; [reflexivity|].
  rewrite <- IH. reflexivity.
Qed.

Lemma locs_of_ctx : forall n fs d, In d (locs_of n fs) -> exists inner, l_ctx d = inner ++ fs.
Proof.
  induction n as [s|h kids IH] using node_ind2; intros fs d Hd.
  - destruct Hd.
  - rewrite locs_of_E in Hd. destruct Hd as [<-|Hd]; [exists []; reflexivity|].
    revert Hd. generalize (@nil node) as l. induction IH as [|k r Hk _ IHr]; intros l Hd; cbn [kids_locs] in Hd.
    + destruct Hd.
    + apply in_app_or in Hd. destruct Hd as [Hd|Hd].
      * destruct (Hk _ _ Hd) as [inner E1]. exists (inner ++ [mkF h l r]). rewrite <- app_assoc. exact E1.
      * apply (IHr _ Hd).
Qed.

Lemma kids_locs_ctx h fs : forall rest l d, In d (kids_locs h fs l rest) ->
  exists inner f, l_ctx d = inner ++ f :: fs /\ f_h f = h.
Proof.
  induction rest as [|k r IH]; intros l d Hd; cbn [kids_locs] in Hd; [destruct Hd|].
  apply in_app_or in Hd. destruct Hd as [Hd|Hd].
  - destruct (locs_of_ctx _ _ _ Hd) as [inner E1]. exists inner, (mkF h l r). split; [exact E1|reflexivity].
  - apply (IH _ _ Hd).
Qed.

(* a descendant's ancestor chain is: ancestors below the context, the context, the context's ancestors *)
Lemma descendant_anc c d : In d (descendants c) ->
  anc d = rel_anc c d ++ l_h c :: anc c.
Proof.
  intros Hd. destruct (kids_locs_ctx _ _ _ _ _ Hd) as [inner [f [E1 E2]]].
  unfold rel_anc, anc. rewrite E1, map_app, app_length. cbn [map List.length].
  replace (List.length inner + S (List.length (l_ctx c)) - List.length (l_ctx c) - 1)%nat
    with (List.length (map f_h inner) + 0)%nat by (rewrite map_length; lia).
  rewrite firstn_app_2. cbn [firstn]. rewrite app_nil_r, E2. reflexivity.
Qed.

(* plugging a located descendant back gives the tree it was taken from *)
Lemma plug_locs : forall n fs d, In d (locs_of n fs) -> plug (node_of d) (l_ctx d) = plug n fs.
Proof.
  induction n as [s|h kids IH] using node_ind2; intros fs d Hd.
  - destruct Hd.
  - rewrite locs_of_E in Hd. destruct Hd as [<-|Hd]; [reflexivity|].
    change (E h kids) with (E h (rev [] ++ kids)).
    revert Hd. generalize (@nil node) as l. induction IH as [|k r Hk _ IHr]; intros l Hd; cbn [kids_locs] in Hd.
    + destruct Hd.
    + apply in_app_or in Hd. destruct Hd as [Hd|Hd].
      * rewrite (Hk _ _ Hd). reflexivity.
      * rewrite (IHr _ Hd). cbn [rev]. rewrite <- app_assoc. reflexivity.
Qed.

Lemma zipper_consistent root d : In d (locs_of root []) -> plug (node_of d) (l_ctx d) = root.
Proof. intros Hd. rewrite (plug_locs _ _ _ Hd). reflexivity. Qed.

(* ---------- CSS selector and its XPath translation *)
Fixpoint simples (s : sel) : list simple :=
  match s with S1 b => [b] | SDesc a b => b :: simples a | SChild a b => b :: simples a end.

(* no simple selector of s matches any of the headers hs *)
Definition clean (s : sel) (hs : list hdr) : Prop :=
  forall p, In p hs -> forall b, In b (simples s) -> smatch b p = false.

Lemma matches_clean_false s p up : (forall b, In b (simples s) -> smatch b p = false) -> matches s p up = false.
Proof.
  intros H. destruct s as [b|a b|a b]; cbn [matches]; rewrite (H b) by (cbn; auto); reflexivity.
Qed.

Lemma exists_suffix_false f l : (forall p up, In p l -> f p up = false) -> exists_suffix f l = false.
Proof.
  induction l as [|p up IH]; intros H; cbn; [reflexivity|].
  rewrite (H p up) by (cbn; auto). cbn. apply IH. intros q u Hq. apply H. cbn; auto.
Qed.

Lemma exists_suffix_split f g inner outer :
  (forall p up, f p (up ++ outer) = g p up) ->
  exists_suffix f outer = false ->
  exists_suffix f (inner ++ outer) = exists_suffix g inner.
Proof.
  intros Hfg Hout. induction inner as [|p up IH]; cbn; [exact Hout|].
  rewrite Hfg, IH. reflexivity.
Qed.

Lemma rev_to_xpath_nonempty s : exists x r, rev (to_xpath s) = x :: r.
Proof.
  destruct s as [b|a b|a b]; cbn [to_xpath]; [exists (ADesc, b), []; reflexivity| |];
    rewrite rev_app_distr; cbn; eauto.
Qed.

Lemma xmatch_rev_cons ax b x r h a :
  xmatch_rev ((ax, b) :: x :: r) h a =
  smatch b h && match ax with
                | AChild => match a with p :: up => xmatch_rev (x :: r) p up | [] => false end
                | ADesc => exists_suffix (xmatch_rev (x :: r)) a
                end.
Proof. reflexivity. Qed.

Lemma matches_xmatch : forall s h inner outer, clean s outer ->
  matches s h (inner ++ outer) = xmatch_rev (rev (to_xpath s)) h inner.
Proof.
  induction s as [b|a IH b|a IH b]; intros h inner outer Hc.
  - cbn. rewrite andb_true_r. reflexivity.
  - cbn [to_xpath matches]. rewrite rev_app_distr. cbn [rev app].
    destruct (rev_to_xpath_nonempty a) as [x [r Er]]. rewrite Er, xmatch_rev_cons, <- Er. f_equal.
    assert (Hca : clean a outer) by (intros p Hp b' Hb'; apply (Hc p Hp); cbn; auto).
    apply exists_suffix_split.
    + intros p up. apply IH. exact Hca.
    + apply exists_suffix_false. intros p up Hp. apply matches_clean_false. intros b' Hb'. apply (Hca p Hp b' Hb').
  - cbn [to_xpath matches]. rewrite rev_app_distr. cbn [rev app].
    destruct (rev_to_xpath_nonempty a) as [x [r Er]]. rewrite Er, xmatch_rev_cons, <- Er. f_equal.
    assert (Hca : clean a outer) by (intros p Hp b' Hb'; apply (Hc p Hp); cbn; auto).
    destruct inner as [|p up]; cbn [app].
    + destruct outer as [|p up]; [reflexivity|].
      apply matches_clean_false. intros b' Hb'. apply (Hca p); cbn; auto.
    + apply IH. exact Hca.
Qed.

(* on any context none of whose ancestors-or-self is matched by a component of
   the selector, the XPath translation selects exactly what the CSS selector does *)
Lemma xpath_css_agree c s : clean s (l_h c :: anc c) ->
  xselect c (to_xpath s) = select_all c s.
Proof.
  intros Hc. unfold xselect, select_all. apply filter_ext_in. intros d Hd.
  rewrite (descendant_anc c d Hd). symmetry. apply matches_xmatch. exact Hc.
Qed.

(* simple selectors need no side condition, on any context *)
Lemma xpath_css_agree_simple c b : xselect c (to_xpath (S1 b)) = select_all c (S1 b).
Proof.
  unfold xselect, select_all. apply filter_ext_in. intros d _. cbn. apply andb_true_r.
Qed.

(* the engine's list evaluation is the specified node set on one-step paths ... *)
Lemma xselect_dups_one_step c b : xselect_dups c (to_xpath (S1 b)) = xselect c (to_xpath (S1 b)).
Proof.
  unfold xselect_dups, xselect. cbn [to_xpath xeval flat_map rev app]. rewrite app_nil_r.
  apply filter_ext. intros d. cbn. rewrite andb_true_r. reflexivity.
Qed.

(* ... and delivers duplicates below nested matches of an earlier step *)
Definition dv (k : list node) : node := E (mkH (bs "div") [] []) k.
Definition nested_divs : loc := mkL (mkH (bs "body") [] []) [dv [dv [dv []]]] [].
Lemma xselect_dups_refuted :
  exists c s, List.length (xselect_dups c (to_xpath s)) <> List.length (select_all c s) /\
              xselect c (to_xpath s) = select_all c s.
Proof.
  exists nested_divs, (SDesc (S1 (STag (bs "div"))) (STag (bs "div"))). split; [vm_compute; discriminate|reflexivity].
Qed.

(* ---------- child and descendant combinators *)
Lemma exists_suffix_head f p up : f p up = true -> exists_suffix f (p :: up) = true.
Proof. intros H. cbn. rewrite H. reflexivity. Qed.

Lemma child_implies_desc a b h an : matches (SChild a b) h an = true -> matches (SDesc a b) h an = true.
Proof.
  cbn [matches]. intros H. apply andb_prop in H. destruct H as [H1 H2]. rewrite H1. cbn.
  destruct an as [|p up]; [discriminate|]. apply exists_suffix_head. exact H2.
Qed.

Lemma child_subset_desc c a b : incl (select_all c (SChild a b)) (select_all c (SDesc a b)).
Proof.
  intros d Hd. unfold select_all in *. apply filter_In in Hd. destruct Hd as [H1 H2].
  apply filter_In. split; [exact H1|]. apply child_implies_desc. exact H2.
Qed.

Lemma compound_subset_last c a b :
  incl (select_all c (SDesc a b)) (select_all c (S1 b)) /\ incl (select_all c (SChild a b)) (select_all c (S1 b)).
Proof.
  split; intros d Hd; unfold select_all in *; apply filter_In in Hd; destruct Hd as [H1 H2];
    apply filter_In; (split; [exact H1|]); cbn [matches] in *; apply andb_prop in H2; tauto.
Qed.

(* every selected element is a strict descendant of the context *)
Lemma select_in_descendants c s : incl (select_all c s) (descendants c).
Proof. intros d Hd. unfold select_all in Hd. apply filter_In in Hd. tauto. Qed.

(* ---------- no accessor of the repaired code has a failing path *)
Lemma accessors_total d n :
  (exists v, a_text d = Ok v) /\ (exists v, a_html d = Ok v) /\ (exists v, a_attrs d = Ok v) /\
  (exists v, a_attr d n = Ok v) /\ (exists v, a_styles d = Ok v) /\ (exists v, a_style d n = Ok v) /\
  (exists v, a_children d = Ok v) /\ (exists v, a_parent d = Ok v) /\
  (exists v, a_next d = Ok v) /\ (exists v, a_prev d = Ok v).
Proof. repeat split; eexists; reflexivity. Qed.

(* ---------- the pinned tree *)
Lemma get_style_pinned_crashes : forall fuel h n, get_style_pinned fuel h n = Crash.
Proof. induction fuel as [|f IH]; intros h n; cbn; [reflexivity|apply IH]. Qed.

Definition li (t : string) : node := E (mkH (bs "li") [] []) [T (bs t)].
Definition two_li : loc := mkL (mkH (bs "ul") [] []) [li "one"; li "two"] [].

Lemma first_pinned_refuted :
  exists c s, inner_text_first_pinned c s <> inner_text_sel c s.
Proof. exists two_li, (S1 (STag (bs "li"))). vm_compute. discriminate. Qed.

(* the pinned single-element text agrees with the specification exactly when
   the rest of the selection carries no text *)
Lemma first_pinned_agrees_on_single c s m :
  select_all c s = [m] -> inner_text_first_pinned c s = inner_text_sel c s.
Proof.
  intros H. unfold inner_text_first_pinned, first_pinned, inner_text_sel, first, first_of, sel_text.
  rewrite H. cbn. rewrite app_nil_r. reflexivity.
Qed.

(* ---------- written text is one text node, whatever it contains *)
Lemma text_write_is_leaf d t :
  inner_html (set_text d t) = [T t] /\ children (set_text d t) = [] /\ inner_text (set_text d t) = t.
Proof. repeat split. cbn. apply app_nil_r. Qed.

(* ---------- the element wrapper's caches never show: every history of reads
   and writes through one wrapper reads what the cache-free meaning reads *)
Definition coherent (w : wrap) : Prop :=
  (w_attrs w = None \/ w_attrs w = Some (w_node w)) /\
  (w_styles w = None \/ w_styles w = Some (sp_styles (w_node w))).

Lemma fresh_coherent n : coherent (fresh n).
Proof. split; left; reflexivity. Qed.

Lemma ensure_attrs_spec w : coherent w ->
  coherent (ensure_attrs w) /\ w_node (ensure_attrs w) = w_node w /\
  w_attrs (ensure_attrs w) = Some (w_node w) /\ w_styles (ensure_attrs w) = w_styles w.
Proof.
  destruct w as [n a s]. intros [[Ha|Ha] Hs]; cbn in *; subst a; unfold ensure_attrs; cbn;
    (split; [split; [right; reflexivity|exact Hs]|repeat split]).
Qed.

Lemma ensure_styles_spec w : coherent w ->
  coherent (ensure_styles w) /\ w_node (ensure_styles w) = w_node w /\
  w_styles (ensure_styles w) = Some (sp_styles (w_node w)) /\ w_attrs (ensure_styles w) = w_attrs w.
Proof.
  destruct w as [n a s]. intros [Ha [Hs|Hs]]; cbn in *; subst s; unfold ensure_styles; cbn;
    (split; [split; [exact Ha|right; reflexivity]|repeat split]).
Qed.

Lemma sp_set_keeps_styles a s : is_style a = false -> sp_styles (sp_set a s) = sp_styles s.
Proof.
  destruct a as [k v|d]; cbn; [|discriminate]. intros H. rewrite H. reflexivity.
Qed.

Lemma w_set_attribute_spec a w : coherent w ->
  coherent (w_set_attribute a w) /\ w_node (w_set_attribute a w) = sp_set a (w_node w).
Proof.
  intros C. destruct (ensure_attrs_spec w C) as [C1 [N1 [A1 S1]]].
  unfold w_set_attribute, the_attrs. rewrite A1, N1, S1. cbn [w_node w_attrs w_styles].
  split; [|reflexivity]. split; [right; reflexivity|].
  destruct (is_style a) eqn:I; [left; reflexivity|]. cbn [w_styles w_node].
  rewrite (sp_set_keeps_styles a _ I). exact (proj2 C).
Qed.

Lemma w_set_attributes_spec l : forall w, coherent w ->
  coherent (fold_left (fun w a => w_set_attribute a w) l w) /\
  w_node (fold_left (fun w a => w_set_attribute a w) l w) = fold_left (fun s a => sp_set a s) l (w_node w).
Proof.
  induction l as [|a l IH]; intros w C; cbn [fold_left]; [split; [exact C|reflexivity]|].
  destruct (w_set_attribute_spec a w C) as [C1 N1].
  destruct (IH _ C1) as [C2 N2]. split; [exact C2|]. rewrite N2, N1. reflexivity.
Qed.

Lemma sp_rm_keeps_styles n s : bytes_eqb n style_name = false -> sp_styles (sp_rm n s) = sp_styles s.
Proof. intros H. unfold sp_rm. rewrite H. reflexivity. Qed.

Lemma w_remove_fold_spec names : forall w, coherent w -> w_attrs w = Some (w_node w) ->
  let w' := fold_left (fun w n => mkW (sp_rm n (w_node w)) (Some (sp_rm n (the_attrs w)))
                                      (if true && bytes_eqb n style_name then None else w_styles w)) names w in
  coherent w' /\ w_node w' = fold_left (fun s n => sp_rm n s) names (w_node w).
Proof.
  induction names as [|n names IH]; intros w C A; cbn [fold_left]; [split; [exact C|reflexivity]|].
  apply IH; [|unfold the_attrs; rewrite A; reflexivity].
  unfold the_attrs. rewrite A. split; cbn [w_node w_attrs w_styles]; [right; reflexivity|].
  cbn [andb]. destruct (bytes_eqb n style_name) eqn:E; [left; reflexivity|].
  rewrite (sp_rm_keeps_styles n _ E). exact (proj2 C).
Qed.

Lemma w_remove_attribute_spec names w : coherent w ->
  coherent (w_remove_attribute true names w) /\
  w_node (w_remove_attribute true names w) = fold_left (fun s n => sp_rm n s) names (w_node w).
Proof.
  intros C. destruct (ensure_attrs_spec w C) as [C1 [N1 [A1 S1]]].
  unfold w_remove_attribute.
  destruct (w_remove_fold_spec names (ensure_attrs w) C1) as [C2 N2]; [rewrite A1, N1; reflexivity|].
  split; [exact C2|]. rewrite N2, N1. reflexivity.
Qed.

Lemma w_write_styles_spec f w : coherent w ->
  coherent (w_write_styles f w) /\
  w_node (w_write_styles f w) = sp_set (SetS (f (sp_styles (w_node w)))) (w_node w).
Proof.
  intros C. destruct (ensure_styles_spec w C) as [C1 [N1 [S1 A1]]].
  unfold w_write_styles, the_styles. rewrite S1, N1, A1.
  unfold w_set_attribute, ensure_attrs, the_attrs. cbn [w_node w_attrs w_styles is_style].
  destruct C as [[Ha|Ha] _]; rewrite Ha; cbn [w_node w_attrs w_styles];
    (split; [split; [right; reflexivity|left; reflexivity]|reflexivity]).
Qed.

Lemma w_read_spec r w : coherent w ->
  coherent (fst (w_read r w)) /\ w_node (fst (w_read r w)) = w_node w /\ snd (w_read r w) = sp_read r (w_node w).
Proof.
  intros C.
  destruct (ensure_styles_spec w C) as [Cs [Ns [Ss As]]].
  destruct (ensure_attrs_spec w C) as [Ca [Na [Aa Sa]]].
  destruct r as [names| |names| |n]; cbn [w_read sp_read fst snd].
  - unfold the_styles. rewrite Ss. split; [exact Cs|split; [exact Ns|reflexivity]].
  - unfold the_styles. rewrite Ss. split; [exact Cs|split; [exact Ns|reflexivity]].
  - unfold the_attrs. rewrite Aa. split; [exact Ca|split; [exact Na|reflexivity]].
  - unfold the_attrs. rewrite Aa. split; [exact Ca|split; [exact Na|reflexivity]].
  - destruct (bytes_eqb n style_name) eqn:E; cbn [fst snd].
    + destruct (ensure_styles_spec _ Ca) as [C2 [N2 [S2 A2]]].
      unfold the_styles. rewrite S2, N2, Na. split; [exact C2|split; reflexivity].
    + unfold the_attrs. rewrite Aa. split; [exact Ca|split; [exact Na|reflexivity]].
Qed.

Lemma w_write_spec o w : coherent w ->
  coherent (w_write true o w) /\ w_node (w_write true o w) = sp_write o (w_node w).
Proof.
  intros C. destruct o as [r|r|a|l|k v|kvs|names|names]; cbn [w_write sp_write].
  - split; [exact C|reflexivity].
  - split; [exact C|reflexivity].
  - apply w_set_attribute_spec. exact C.
  - destruct (ensure_attrs_spec w C) as [C1 [N1 _]].
    destruct (w_set_attributes_spec l _ C1) as [C2 N2]. split; [exact C2|]. rewrite N2, N1. reflexivity.
  - apply w_write_styles_spec. exact C.
  - apply w_write_styles_spec. exact C.
  - apply w_remove_attribute_spec. exact C.
  - destruct names as [|n names]; [split; [exact C|reflexivity]|]. apply w_write_styles_spec. exact C.
Qed.

Lemma w_run_refines ops : forall w, coherent w -> w_run true ops w = sp_run ops (w_node w).
Proof.
  induction ops as [|o ops IH]; intros w C; [reflexivity|].
  destruct o as [r|r|a|l|k v|kvs|names|names]; cbn [w_run sp_run].
  - destruct (w_read_spec r w C) as [C1 [N1 R1]]. rewrite R1, (IH _ C1), N1. reflexivity.
  - destruct (w_read_spec r (fresh (w_node w)) (fresh_coherent _)) as [_ [_ R1]].
    rewrite R1, (IH _ C). reflexivity.
  - destruct (w_write_spec (WAttr a) w C) as [C1 N1]. rewrite (IH _ C1), N1. reflexivity.
  - destruct (w_write_spec (WAttrs l) w C) as [C1 N1]. rewrite (IH _ C1), N1. reflexivity.
  - destruct (w_write_spec (WStyle k v) w C) as [C1 N1]. rewrite (IH _ C1), N1. reflexivity.
  - destruct (w_write_spec (WStyles kvs) w C) as [C1 N1]. rewrite (IH _ C1), N1. reflexivity.
  - destruct (w_write_spec (RmAttr names) w C) as [C1 N1]. rewrite (IH _ C1), N1. reflexivity.
  - destruct (w_write_spec (RmStyle names) w C) as [C1 N1]. rewrite (IH _ C1), N1. reflexivity.
Qed.

Lemma wrapper_caches_invisible ops n : w_run true ops (fresh n) = sp_run ops n.
Proof. apply (w_run_refines ops (fresh n)). apply fresh_coherent. Qed.

(* reads after a history see the state the writes of the history produced *)
Lemma sp_run_app ops : forall l s, sp_run (ops ++ l) s = sp_run ops s ++ sp_run l (sp_state ops s).
Proof.
  induction ops as [|o ops IH]; intros l s; [reflexivity|].
  destruct o; cbn [app sp_run]; unfold sp_state; cbn [fold_left sp_write]; try (rewrite IH; reflexivity).
Qed.

(* the style attribute a bulk attribute write leaves behind: its last assignment of "style" *)
Definition style_after (l : list aset) (cur : option decls) : option decls :=
  fold_left (fun acc a => match a with
                          | SetS d => Some d
                          | SetA k v => if bytes_eqb k style_name then Some (parse_style v) else acc
                          end) l cur.

Lemma sp_set_many_style l : forall s, s_style (fold_left (fun s a => sp_set a s) l s) = style_after l (s_style s).
Proof.
  induction l as [|a l IH]; intros s; [reflexivity|]. unfold style_after in *. cbn [fold_left]. rewrite IH. f_equal.
  destruct a as [k v|d]; cbn [sp_set]; [|reflexivity]. destruct (bytes_eqb k style_name); reflexivity.
Qed.

Lemma style_after_any l : forall d, style_after l None = Some d -> forall cur, style_after l cur = Some d.
Proof.
  unfold style_after. induction l as [|a l IH]; intros d H cur; cbn [fold_left] in *; [discriminate|].
  destruct a as [k v|d']; [destruct (bytes_eqb k style_name)|]; try exact H. apply IH. exact H.
Qed.

(* whatever was read or written before (reads that filled the caches included):
   after a bulk attribute write that assigns "style", a style read returns the
   declarations of its last such assignment *)
Lemma style_read_after_bulk_write ops n l d names : style_after l None = Some d ->
  w_run true (ops ++ [WAttrs l; Rd (RStyle names)]) (fresh n) =
  w_run true ops (fresh n) ++ [RdOpt (map (fun x => assoc x d) names)].
Proof.
  intros H. rewrite !wrapper_caches_invisible, sp_run_app. f_equal.
  cbn [sp_run sp_write sp_read]. unfold sp_styles. rewrite sp_set_many_style.
  rewrite (style_after_any l d H). reflexivity.
Qed.

(* the same for every other way of writing a style: STYLE_SET then STYLE_GET *)
Lemma style_read_after_style_set ops n k v :
  w_run true (ops ++ [WStyle k v; Rd (RStyle [k])]) (fresh n) = w_run true ops (fresh n) ++ [RdOpt [Some v]].
Proof.
  rewrite !wrapper_caches_invisible, sp_run_app. f_equal.
  cbn [sp_run sp_write sp_read sp_set sp_styles s_style map]. rewrite assoc_set_same. reflexivity.
Qed.

(* removing the style attribute leaves no style to read *)
Lemma style_read_after_attr_remove ops n names :
  w_run true (ops ++ [RmAttr [style_name]; Rd (RStyle names)]) (fresh n) =
  w_run true ops (fresh n) ++ [RdOpt (map (fun _ => None) names)].
Proof.
  rewrite !wrapper_caches_invisible, sp_run_app. reflexivity.
Qed.

(* ... which the tree before the repair of RemoveAttribute did not do *)
Lemma remove_style_pinned_refuted :
  exists ops n, w_run false ops (fresh n) <> sp_run ops n.
Proof.
  exists [Rd (RStyle [bs "color"]); RmAttr [style_name]; Rd (RStyle [bs "color"])],
         (mkS [] (Some [(bs "color", bs "red")])).
  vm_compute. discriminate.
Qed.
