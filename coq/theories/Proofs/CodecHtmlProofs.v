(* Proofs/CodecHtmlProofs.v — UNESCAPE_HTML (ESCAPE_HTML s) = s for every byte
   string, for the decoder restricted to the encoder's five entities. *)
From Ferret Require Import Codec.Html.
From Coq Require Import Lia.
Open Scope N_scope.

Lemma html_unesc_byte : forall c s,
  html_unesc_go 0 (html_esc_byte c ++ s) = c :: html_unesc_go 0 s.
Proof.
  intros c s. unfold html_esc_byte.
  destruct (c =? 38) eqn:E38; [apply N.eqb_eq in E38; subst c; reflexivity|].
  destruct (c =? 39) eqn:E39; [apply N.eqb_eq in E39; subst c; reflexivity|].
  destruct (c =? 60) eqn:E60; [apply N.eqb_eq in E60; subst c; reflexivity|].
  destruct (c =? 62) eqn:E62; [apply N.eqb_eq in E62; subst c; reflexivity|].
  destruct (c =? 34) eqn:E34; [apply N.eqb_eq in E34; subst c; reflexivity|].
  cbn [app html_unesc_go]. rewrite E38. reflexivity.
Qed.

Theorem html_roundtrip : forall s, html_unescape (html_escape s) = s.
Proof.
  unfold html_unescape, html_escape.
  induction s as [|c s IH]; [reflexivity|].
  cbn [flat_map]. rewrite html_unesc_byte. rewrite IH. reflexivity.
Qed.

(* the encoder's output never contains the five special characters except
   '&' '#' ';' of its own entities *)
Lemma html_escape_example :
  html_escape (bs "a<b>&'c") = bs "a&lt;b&gt;&amp;&#39;c".
Proof. reflexivity. Qed.

(* the text of an entity is itself escaped and restored: no double decoding *)
Lemma html_no_double_decoding : html_unescape (html_escape (bs "&amp;lt;")) = bs "&amp;lt;".
Proof. reflexivity. Qed.
