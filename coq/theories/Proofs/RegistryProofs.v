(* Proofs/RegistryProofs.v — lemmas about Registry.v (C11). *)
From Ferret Require Import Registry.
From Coq Require Import Lia.

(* ---------- byte strings *)
Lemma lexcmp_Eq_iff a : forall b, lexcmp a b = Eq <-> a = b.
Proof.
  induction a as [|x xs IH]; intros [|y ys]; cbn; try (split; congruence).
  destruct (N.compare x y) eqn:E; try (split; [discriminate|]).
  - apply N.compare_eq_iff in E; subst y. rewrite IH. split; congruence.
  - intros H; inversion H; subst. rewrite N.compare_refl in E; discriminate.
  - intros H; inversion H; subst. rewrite N.compare_refl in E; discriminate.
Qed.
Lemma bytes_eqb_true a b : bytes_eqb a b = true <-> a = b.
Proof.
  unfold bytes_eqb. rewrite <- lexcmp_Eq_iff. destruct (lexcmp a b); split; congruence.
Qed.
Lemma bytes_eqb_refl a : bytes_eqb a a = true.
Proof. now apply bytes_eqb_true. Qed.
Lemma bytes_eqb_false a b : bytes_eqb a b = false <-> a <> b.
Proof.
  destruct (bytes_eqb a b) eqn:E.
  - apply bytes_eqb_true in E. split; congruence.
  - split; [|reflexivity]. intros _ H. apply bytes_eqb_true in H. congruence.
Qed.

Lemma is_prefix_split p : forall n, is_prefix p n = true -> n = p ++ skipn (List.length p) n.
Proof.
  induction p as [|x p IH]; intros n H; [reflexivity|].
  destruct n as [|y n]; [discriminate|]. cbn in H.
  apply andb_prop in H as [H1 H2]. apply N.eqb_eq in H1; subst y.
  cbn. f_equal. now apply IH.
Qed.
Lemma is_prefix_app p m : is_prefix p (p ++ m) = true.
Proof. induction p as [|x p IH]; [reflexivity|]. cbn. now rewrite N.eqb_refl. Qed.
Lemma skipn_app_exact {A} (p m : list A) : skipn (List.length p) (p ++ m) = m.
Proof. induction p; [reflexivity|]. cbn. assumption. Qed.

(* ---------- the raw map *)
Lemma get_set_same t n f : get (set t n f) n = Some f.
Proof.
  induction t as [|[k g] r IH]; cbn.
  - now rewrite bytes_eqb_refl.
  - destruct (bytes_eqb k n) eqn:E; cbn; rewrite E; [reflexivity|assumption].
Qed.
Lemma get_set_other t n f m : n <> m -> get (set t n f) m = get t m.
Proof.
  intros Hne. induction t as [|[k g] r IH]; cbn.
  - apply bytes_eqb_false in Hne. now rewrite Hne.
  - destruct (bytes_eqb k n) eqn:E; cbn.
    + apply bytes_eqb_true in E; subst k. apply bytes_eqb_false in Hne. now rewrite Hne.
    + destruct (bytes_eqb k m); [reflexivity|assumption].
Qed.
Lemma has_true t n : has t n = true <-> exists f, get t n = Some f.
Proof.
  unfold has. destruct (get t n) as [f|]; split; intros H; try eauto; try discriminate.
  destruct H as [f H]; discriminate.
Qed.
Lemma has_false t n : has t n = false <-> get t n = None.
Proof. unfold has. destruct (get t n); split; congruence. Qed.

Definition wf_table (t : table) : Prop := NoDup (names t).

Lemma get_None_notin t n : get t n = None -> ~ In n (names t).
Proof.
  induction t as [|[k g] r IH]; cbn; [tauto|].
  destruct (bytes_eqb k n) eqn:E; [discriminate|].
  intros H [H1|H1].
  - subst k. rewrite bytes_eqb_refl in E. discriminate.
  - now apply IH.
Qed.
Lemma In_get t n f : wf_table t -> In (n, f) t -> get t n = Some f.
Proof.
  unfold wf_table. induction t as [|[k g] r IH]; cbn; [tauto|].
  intros Hnd [H|H].
  - inversion H; subst. now rewrite bytes_eqb_refl.
  - inversion Hnd as [|? ? Hnotin Hnd']; subst.
    destruct (bytes_eqb k n) eqn:E.
    + apply bytes_eqb_true in E; subst k. exfalso. apply Hnotin.
      change n with (fst (n, f)). now apply in_map.
    + now apply IH.
Qed.
Lemma get_In t n f : get t n = Some f -> In (n, f) t.
Proof.
  induction t as [|[k g] r IH]; cbn; [discriminate|].
  destruct (bytes_eqb k n) eqn:E.
  - apply bytes_eqb_true in E; subst k. intros H; inversion H; subst. now left.
  - intros H. right. now apply IH.
Qed.
Lemma names_set_absent t n f : get t n = None -> names (set t n f) = names t ++ [n].
Proof.
  induction t as [|[k g] r IH]; cbn; [reflexivity|].
  destruct (bytes_eqb k n) eqn:E; [discriminate|]. intros H. cbn. f_equal. now apply IH.
Qed.
Lemma names_set_present t n f g : get t n = Some g -> names (set t n f) = names t.
Proof.
  induction t as [|[k h] r IH]; cbn; [discriminate|].
  destruct (bytes_eqb k n) eqn:E; [reflexivity|]. intros H. cbn. f_equal. now apply IH.
Qed.
Lemma wf_set t n f : wf_table t -> wf_table (set t n f).
Proof.
  unfold wf_table. intros Hnd. destruct (get t n) as [g|] eqn:E.
  - now rewrite (names_set_present _ _ _ _ E).
  - rewrite (names_set_absent _ _ _ E).
    apply NoDup_rev in Hnd. rewrite <- (rev_involutive (names t ++ [n])).
    apply NoDup_rev. rewrite rev_app_distr. cbn. constructor; [|assumption].
    rewrite <- in_rev. now apply get_None_notin.
Qed.
Lemma wf_unset t n : wf_table t -> wf_table (unset t n).
Proof.
  unfold wf_table. induction t as [|[k g] r IH]; cbn; [trivial|].
  intros Hnd. inversion Hnd as [|? ? Hnotin Hnd']; subst.
  destruct (bytes_eqb k n); [assumption|]. cbn. constructor; [|now apply IH].
  intros Hin. apply Hnotin. clear -Hin.
  induction r as [|[k' g'] r IH]; cbn in *; [tauto|].
  destruct (bytes_eqb k' n); cbn in *; tauto.
Qed.
Lemma wf_empty : wf_table [].
Proof. constructor. Qed.
Lemma wf_register t ns nm f t' : wf_table t -> register t ns nm f = Some t' -> wf_table t'.
Proof.
  unfold register. intros Hwf.
  destruct (has t (upper (make_full ns nm))); [discriminate|].
  destruct (contains_sep nm); [discriminate|].
  destruct (negb (valid_name (make_full ns nm))); [discriminate|].
  intros H; inversion H; subst. now apply wf_set.
Qed.
Lemma wf_remove t ns nm : wf_table t -> wf_table (remove t ns nm).
Proof. apply wf_unset. Qed.

(* keys are upper-cased: ToUpper inside Get/Set is the identity on them *)
Lemma up_byte_idem b : up_byte (up_byte b) = up_byte b.
Proof.
  unfold up_byte.
  destruct ((97 <=? b) && (b <=? 122))%N eqn:E; [|now rewrite E].
  apply andb_prop in E as [E1 E2]. apply N.leb_le in E1. apply N.leb_le in E2.
  destruct ((97 <=? b - 32) && (b - 32 <=? 122))%N eqn:E'; [|reflexivity].
  apply andb_prop in E' as [E3 _]. apply N.leb_le in E3. lia.
Qed.
Lemma upper_idem s : upper (upper s) = upper s.
Proof. unfold upper. rewrite map_map. apply map_ext. apply up_byte_idem. Qed.
Lemma upper_app a b : upper (a ++ b) = upper a ++ upper b.
Proof. apply map_app. Qed.
Lemma upper_skipn k : forall s, upper (skipn k s) = skipn k (upper s).
Proof. induction k; intros [|x s]; cbn; try reflexivity. apply IHk. Qed.

Definition keys_upper (t : table) : Prop := Forall (fun n => upper n = n) (names t).
Lemma keys_upper_set t n f : keys_upper t -> upper n = n -> keys_upper (set t n f).
Proof.
  unfold keys_upper. intros H Hn. destruct (get t n) as [g|] eqn:E.
  - now rewrite (names_set_present _ _ _ _ E).
  - rewrite (names_set_absent _ _ _ E). apply Forall_app. split; [assumption|]. now constructor.
Qed.
Lemma keys_upper_register t ns nm f t' : keys_upper t -> register t ns nm f = Some t' -> keys_upper t'.
Proof.
  unfold register, fset. intros Hk.
  destruct (has t (upper (make_full ns nm))); [discriminate|].
  destruct (contains_sep nm); [discriminate|].
  destruct (negb (valid_name (make_full ns nm))); [discriminate|].
  intros H; inversion H; subst. apply keys_upper_set; [assumption|apply upper_idem].
Qed.
Lemma keys_upper_copy_loop pfx : forall snap cur ok cur',
  keys_upper snap -> keys_upper cur -> copy_loop pfx snap cur = (ok, cur') -> keys_upper cur'.
Proof.
  induction snap as [|[n f] r IH]; cbn; intros cur ok cur' Hs Hc H.
  - inversion H; now subst.
  - unfold keys_upper in Hs. cbn in Hs. inversion Hs as [|? ? Hn Hr]; subst.
    destruct (is_prefix pfx n).
    + destruct (has cur (skipn (List.length pfx) n)).
      * inversion H; now subst.
      * eapply IH; [exact Hr| |exact H]. apply keys_upper_set; [assumption|].
        rewrite upper_skipn. now rewrite Hn.
    + eapply IH; [exact Hr|exact Hc|exact H].
Qed.

(* ---------- copyFromNamespace *)
(* P1: nothing that is in the table is lost or changed *)
Lemma copy_loop_keeps pfx : forall snap cur ok cur' m f,
  copy_loop pfx snap cur = (ok, cur') -> get cur m = Some f -> get cur' m = Some f.
Proof.
  induction snap as [|[n g] r IH]; cbn; intros cur ok cur' m f H Hm.
  - inversion H; now subst.
  - destruct (is_prefix pfx n).
    + destruct (has cur (skipn (List.length pfx) n)) eqn:Eh.
      * inversion H; now subst.
      * eapply IH; [exact H|]. rewrite get_set_other; [assumption|].
        intros Heq. rewrite Heq in Eh. apply has_false in Eh. congruence.
    + eapply IH; eauto.
Qed.
Lemma copy_loop_keeps_has pfx snap cur ok cur' m :
  copy_loop pfx snap cur = (ok, cur') -> has cur m = true -> has cur' m = true.
Proof.
  intros H Hm. apply has_true in Hm as [f Hf]. apply has_true. exists f.
  eapply copy_loop_keeps; eauto.
Qed.
Lemma copy_loop_wf pfx : forall snap cur ok cur',
  copy_loop pfx snap cur = (ok, cur') -> wf_table cur -> wf_table cur'.
Proof.
  induction snap as [|[n g] r IH]; cbn; intros cur ok cur' H Hwf.
  - inversion H; now subst.
  - destruct (is_prefix pfx n).
    + destruct (has cur (skipn (List.length pfx) n)).
      * inversion H; now subst.
      * eapply IH; [exact H|]. now apply wf_set.
    + eapply IH; eauto.
Qed.
(* P2: every new entry is the copy of a snapshot entry whose name is pfx ++ new name *)
Lemma copy_loop_new pfx : forall snap cur ok cur' m f,
  copy_loop pfx snap cur = (ok, cur') -> get cur' m = Some f ->
  get cur m = Some f \/ In (pfx ++ m, f) snap.
Proof.
  induction snap as [|[n g] r IH]; cbn; intros cur ok cur' m f H Hm.
  - inversion H; subst. now left.
  - destruct (is_prefix pfx n) eqn:Ep.
    + destruct (has cur (skipn (List.length pfx) n)) eqn:Eh.
      * inversion H; subst. now left.
      * destruct (IH _ _ _ _ _ H Hm) as [H1|H1]; [|now right; right].
        destruct (bytes_eqb (skipn (List.length pfx) n) m) eqn:Em.
        -- apply bytes_eqb_true in Em. subst m. rewrite get_set_same in H1.
           inversion H1; subst. right. left. f_equal. now apply is_prefix_split.
        -- apply bytes_eqb_false in Em. rewrite get_set_other in H1 by assumption. now left.
    + destruct (IH _ _ _ _ _ H Hm) as [H1|H1]; [now left|now right; right].
Qed.
(* P3: on success every snapshot entry under the prefix was copied, and its
   short name was free *)
Lemma copy_loop_done pfx : forall snap cur cur' n f,
  copy_loop pfx snap cur = (true, cur') -> In (n, f) snap -> is_prefix pfx n = true ->
  has cur (skipn (List.length pfx) n) = false /\ has cur' (skipn (List.length pfx) n) = true.
Proof.
  induction snap as [|[k g] r IH]; cbn; intros cur cur' n f H Hin Hp; [tauto|].
  destruct Hin as [Hin|Hin].
  - inversion Hin; subst. rewrite Hp in H.
    destruct (has cur (skipn (List.length pfx) n)) eqn:Eh; [discriminate|].
    split; [reflexivity|]. eapply copy_loop_keeps_has; [exact H|].
    apply has_true. eexists. apply get_set_same.
  - destruct (is_prefix pfx k) eqn:Ek.
    + destruct (has cur (skipn (List.length pfx) k)) eqn:Eh; [discriminate|].
      destruct (IH _ _ _ _ H Hin Hp) as [H1 H2]. split; [|assumption].
      destruct (has cur (skipn (List.length pfx) n)) eqn:E; [|reflexivity].
      apply has_true in E as [x Hx].
      assert (get (set cur (skipn (List.length pfx) k) g) (skipn (List.length pfx) n) = Some x) as Hc.
      { rewrite get_set_other; [assumption|]. intros Heq. rewrite Heq in Eh.
        apply has_false in Eh. congruence. }
      apply has_false in H1. congruence.
    + eapply IH; eauto.
Qed.

Definition import_prefix (ns : name) : bytes := upper (ns ++ sep).

Lemma copy_keeps t ns ok t' m f :
  copy_from_namespace t ns = (ok, t') -> get t m = Some f -> get t' m = Some f.
Proof. apply copy_loop_keeps. Qed.
Lemma copy_new t ns ok t' m f : wf_table t ->
  copy_from_namespace t ns = (ok, t') -> get t' m = Some f ->
  get t m = Some f \/ get t (import_prefix ns ++ m) = Some f.
Proof.
  intros Hwf H Hm. destruct (copy_loop_new _ _ _ _ _ _ _ H Hm) as [H1|H1]; [now left|].
  right. now apply In_get.
Qed.
Lemma copy_done t ns t' m : copy_from_namespace t ns = (true, t') ->
  has t (import_prefix ns ++ m) = true -> has t m = false /\ has t' m = true.
Proof.
  intros H Hm. apply has_true in Hm as [f Hf]. apply get_In in Hf.
  pose proof (copy_loop_done _ _ _ _ _ f H Hf (is_prefix_app _ _)) as Hd.
  fold (import_prefix ns) in Hd. now rewrite skipn_app_exact in Hd.
Qed.

(* ---------- visitHeads *)
Definition path (sub : list name) : bytes := concat (map import_prefix sub).

Section Uses.
  Variable s : table.           (* the compiler's table *)
  Variable A : list name.       (* the namespaces this query imports *)
  Definition Inv (cur : table) : Prop :=
    wf_table cur /\
    (forall m f, get s m = Some f -> get cur m = Some f) /\
    (forall m f, get cur m = Some f ->
       get s m = Some f \/
       exists sub, sub <> [] /\ incl sub A /\ get s (path sub ++ m) = Some f).

  Lemma do_uses_inv : forall uses used cur ok cur',
    incl uses A -> Inv cur -> do_uses used uses cur = (ok, cur') -> Inv cur'.
  Proof.
    induction uses as [|ns r IH]; cbn; intros used cur ok cur' Hincl HI H.
    - inversion H; now subst.
    - destruct (existsb (bytes_eqb ns) used); [inversion H; now subst|].
      destruct (copy_from_namespace cur ns) as [ok1 cur1] eqn:Ec.
      assert (Inv cur1) as HI1.
      { destruct HI as (Hwf & Hk & Hn). split; [|split].
        - eapply copy_loop_wf; [exact Ec|assumption].
        - intros m f Hm. eapply copy_keeps; [exact Ec|]. now apply Hk.
        - intros m f Hm. destruct (copy_new _ _ _ _ _ _ Hwf Ec Hm) as [H1|H1]; [now apply Hn|].
          destruct (Hn _ _ H1) as [H2|(sub & Hne & Hsub & H2)].
          + right. exists [ns]. split; [discriminate|]. split.
            * intros x [<-|[]]. apply Hincl. now left.
            * unfold path. cbn. now rewrite app_nil_r.
          + right. exists (sub ++ [ns]). split; [now destruct sub|]. split.
            * intros x Hx. apply in_app_or in Hx as [Hx|[<-|[]]]; [now apply Hsub|].
              apply Hincl. now left.
            * unfold path in *. rewrite map_app, concat_app. cbn. rewrite app_nil_r.
              now rewrite <- app_assoc. }
      destruct ok1.
      + eapply IH; [|exact HI1|exact H]. intros x Hx. apply Hincl. now right.
      + inversion H; now subst.
  Qed.
End Uses.

Lemma do_uses_keeps_has : forall uses used cur ok cur' m,
  do_uses used uses cur = (ok, cur') -> has cur m = true -> has cur' m = true.
Proof.
  induction uses as [|ns r IH]; cbn; intros used cur ok cur' m H Hm.
  - inversion H; now subst.
  - destruct (existsb (bytes_eqb ns) used); [inversion H; now subst|].
    destruct (copy_from_namespace cur ns) as [[|] cur1] eqn:Ec.
    + eapply IH; [exact H|]. eapply copy_loop_keeps_has; eauto.
    + inversion H; subst. eapply copy_loop_keeps_has; eauto.
Qed.

(* an imported namespace never shadows a name that is already there *)
Lemma do_uses_no_shadow : forall uses used cur cur' ns m,
  do_uses used uses cur = (true, cur') -> In ns uses ->
  has cur (import_prefix ns ++ m) = true -> has cur m = false.
Proof.
  induction uses as [|u r IH]; cbn; intros used cur cur' ns m H Hin Hm; [tauto|].
  destruct (existsb (bytes_eqb u) used); [discriminate|].
  destruct (copy_from_namespace cur u) as [[|] cur1] eqn:Ec; [|discriminate].
  destruct Hin as [<-|Hin].
  - now destruct (copy_done _ _ _ _ Ec Hm).
  - assert (has cur1 m = false) as H1.
    { eapply IH; [exact H|exact Hin|]. eapply copy_loop_keeps_has; eauto. }
    destruct (has cur m) eqn:E; [|reflexivity].
    rewrite (copy_loop_keeps_has _ _ _ _ _ _ Ec E) in H1. discriminate.
Qed.

Lemma do_uses_ambiguous : forall l1 used cur cur' a l2 b l3 m,
  do_uses used (l1 ++ a :: l2 ++ b :: l3) cur = (true, cur') ->
  has cur (import_prefix a ++ m) = true -> has cur (import_prefix b ++ m) = true -> False.
Proof.
  induction l1 as [|x l1 IH]; cbn; intros used cur cur' a l2 b l3 m H Ha Hb.
  - destruct (existsb (bytes_eqb a) used); [discriminate|].
    destruct (copy_from_namespace cur a) as [[|] cur1] eqn:Ec; [|discriminate].
    destruct (copy_done _ _ _ _ Ec Ha) as [_ H1].
    assert (has cur1 m = false) as H2.
    { eapply do_uses_no_shadow; [exact H| |].
      - apply in_or_app. right. now left.
      - eapply copy_loop_keeps_has; eauto. }
    congruence.
  - destruct (existsb (bytes_eqb x) used); [discriminate|].
    destruct (copy_from_namespace cur x) as [[|] cur1] eqn:Ec; [|discriminate].
    eapply IH; [exact H| |]; eapply copy_loop_keeps_has; eauto.
Qed.

(* ---------- Compile *)
Lemma resolve_Forall2 t : forall calls ids,
  resolve t calls = Some ids -> Forall2 (fun c f => fget t c = Some f) calls ids.
Proof.
  induction calls as [|c r IH]; cbn; intros ids H.
  - inversion H; constructor.
  - destruct (fget t c) as [f|] eqn:Ef; [|discriminate].
    destruct (resolve t r) as [fs|]; [|discriminate].
    inversion H; subst. constructor; [assumption|now apply IH].
Qed.

Lemma Forall2_imp {A B} (P Q : A -> B -> Prop) l l' :
  (forall a b, P a b -> Q a b) -> Forall2 P l l' -> Forall2 Q l l'.
Proof. intros H F. induction F; constructor; auto. Qed.

Lemma compile_pure s q : snd (compile_spec s q) = s.
Proof. reflexivity. Qed.

Lemma after_spec s0 h : after compile_spec s0 h = s0.
Proof. unfold after. induction h as [|x h IH]; cbn; [reflexivity|assumption]. Qed.

Lemma history_independent s0 h q :
  fst (compile_spec (after compile_spec s0 h) q) = fst (compile_spec s0 q).
Proof. now rewrite after_spec. Qed.

(* any compile function that returns the state it was given is history independent *)
Lemma pure_implies_independent (compile : table -> query -> result * table) :
  (forall s q, snd (compile s q) = s) ->
  forall s0 h q, fst (compile (after compile s0 h) q) = fst (compile s0 q).
Proof.
  intros Hp s0 h q. replace (after compile s0 h) with s0; [reflexivity|].
  unfold after. induction h as [|x h IH]; cbn; [reflexivity|]. now rewrite Hp.
Qed.

Lemma run_alone_spec s qs :
  run_alone compile_spec s qs = map (fun q => fst (compile_spec s q)) qs.
Proof. induction qs as [|q r IH]; cbn; [reflexivity|]. now rewrite IH. Qed.

Definition resolves_to (s : table) (uses : list name) (c : name) (f : fid) : Prop :=
  fget s c = Some f \/
  (fget s c = None /\
   exists sub, sub <> [] /\ incl sub uses /\ get s (path sub ++ upper c) = Some f).

Lemma resolve_correct s q ids : wf_table s ->
  fst (compile_spec s q) = Compiled ids ->
  Forall2 (resolves_to s (q_uses q)) (q_calls q) ids.
Proof.
  intros Hwf. unfold compile_spec, run_visitor. cbn [fst].
  destruct (q_ok q); cbn [negb]; [|discriminate].
  destruct (do_uses [] (q_uses q) s) as [[|] t'] eqn:Eu; cbn [fst]; [|discriminate].
  destruct (resolve t' (q_calls q)) as [fs|] eqn:Er; [|discriminate].
  intros H; inversion H; subst fs.
  assert (Inv s (q_uses q) t') as (_ & Hk & Hn).
  { eapply do_uses_inv; [apply incl_refl| |exact Eu]. split; [assumption|]. split; [tauto|]. intros; now left. }
  apply resolve_Forall2 in Er. eapply Forall2_imp; [|exact Er].
  intros c f Hf. unfold resolves_to, fget in *. cbn beta in Hf.
  destruct (get s (upper c)) as [g|] eqn:Eg.
  - left. rewrite (Hk _ _ Eg) in Hf. assumption.
  - right. split; [reflexivity|]. destruct (Hn _ _ Hf) as [H1|H1]; [congruence|assumption].
Qed.

Definition resolve_plain (s : table) (q : query) : result :=
  if q_ok q then match resolve s (q_calls q) with Some ids => Compiled ids | None => CompileError end
  else CompileError.

Lemma import_no_leak s0 h q : q_uses q = [] ->
  fst (compile_spec (after compile_spec s0 h) q) = resolve_plain s0 q.
Proof.
  intros Hu. rewrite after_spec. unfold compile_spec, run_visitor, resolve_plain. rewrite Hu.
  destruct (q_ok q); reflexivity.
Qed.

Lemma ambiguous_import_error s q l1 a l2 b l3 m :
  q_uses q = l1 ++ a :: l2 ++ b :: l3 ->
  has s (import_prefix a ++ m) = true -> has s (import_prefix b ++ m) = true ->
  fst (compile_spec s q) = CompileError.
Proof.
  intros Hu Ha Hb. unfold compile_spec, run_visitor. cbn [fst].
  destruct (q_ok q); cbn [negb]; [|reflexivity].
  destruct (do_uses [] (q_uses q) s) as [[|] t'] eqn:Eu; [|reflexivity].
  exfalso. rewrite Hu in Eu. eapply do_uses_ambiguous; eauto.
Qed.

Lemma shadowing_import_error s q a m :
  In a (q_uses q) -> has s (import_prefix a ++ m) = true -> has s m = true ->
  fst (compile_spec s q) = CompileError.
Proof.
  intros Hin Ha Hm. unfold compile_spec, run_visitor. cbn [fst].
  destruct (q_ok q); cbn [negb]; [|reflexivity].
  destruct (do_uses [] (q_uses q) s) as [[|] t'] eqn:Eu; [|reflexivity].
  exfalso. pose proof (do_uses_no_shadow _ _ _ _ _ _ Eu Hin Ha). congruence.
Qed.

Lemma unknown_function_error s q c :
  q_uses q = [] -> In c (q_calls q) -> fget s c = None -> fst (compile_spec s q) = CompileError.
Proof.
  intros Hu Hin Hc. unfold compile_spec, run_visitor. rewrite Hu. cbn.
  destruct (q_ok q); cbn; [|reflexivity].
  assert (resolve s (q_calls q) = None) as ->; [|reflexivity].
  induction (q_calls q) as [|x r IH]; [destruct Hin|]. cbn.
  destruct Hin as [->|Hin].
  - now rewrite Hc.
  - rewrite (IH Hin). now destruct (fget s x).
Qed.

(* ---------- schedules *)
Lemma upd_same {A} (f : nat -> A) i x : upd f i x i = x.
Proof. unfold upd. now rewrite Nat.eqb_refl. Qed.
Lemma upd_other {A} (f : nat -> A) i x j : j <> i -> upd f i x j = f j.
Proof. unfold upd. intros H. apply Nat.eqb_neq in H. now rewrite H. Qed.

Lemma run_sched_spec : forall sched c,
  let c' := run_sched compile_spec sched c in
  shared c' = shared c /\
  forall i, outs c' i = outs c i ++ map (fun q => fst (compile_spec (shared c) q))
                                       (firstn (count_occ Nat.eq_dec sched i) (pending c i))
         /\ pending c' i = skipn (count_occ Nat.eq_dec sched i) (pending c i).
Proof.
  induction sched as [|k sched IH]; intros c; cbn zeta.
  - cbn. split; [reflexivity|]. intros i. now rewrite app_nil_r.
  - cbn [run_sched fold_left]. fold (run_sched compile_spec sched (turn compile_spec c k)).
    specialize (IH (turn compile_spec c k)). cbn zeta in IH. destruct IH as [IHs IHo].
    unfold turn in *. destruct (pending c k) as [|q rest] eqn:Ep.
    + split; [assumption|]. intros i. destruct (IHo i) as [H1 H2]. cbn [count_occ].
      destruct (Nat.eq_dec k i) as [->|Hne]; [|now split].
      rewrite Ep in *. rewrite firstn_nil in *. rewrite skipn_nil in *. now split.
    + cbn [compile_spec fst snd shared pending outs] in *. split; [assumption|]. intros i.
      destruct (IHo i) as [H1 H2]. cbn [count_occ].
      destruct (Nat.eq_dec k i) as [->|Hne].
      * rewrite !upd_same in H1. rewrite !upd_same in H2. rewrite Ep. cbn [firstn skipn map].
        rewrite H1, H2. rewrite <- app_assoc. now split.
      * rewrite !upd_other in H1 by congruence. rewrite !upd_other in H2 by congruence. now split.
Qed.

Lemma concurrent_compile_independent s0 threads sched i :
  outs (run_sched compile_spec sched (start s0 threads)) i =
  run_alone compile_spec s0 (firstn (count_occ Nat.eq_dec sched i) (threads i)).
Proof.
  destruct (run_sched_spec sched (start s0 threads)) as [_ H]. destruct (H i) as [H1 _].
  rewrite H1. cbn. now rewrite run_alone_spec.
Qed.
Lemma concurrent_compile_state s0 threads sched :
  shared (run_sched compile_spec sched (start s0 threads)) = s0.
Proof. now destruct (run_sched_spec sched (start s0 threads)) as [H _]. Qed.

(* ---------- the mirror of the pinned tree violates all of this *)
Definition w_table : table := [(bs "X::F", 1%N)].
Definition w_query : query := Query true [bs "X"] [bs "F"].
Definition w_plain : query := Query true [] [bs "F"].

Lemma compile_pure_pinned_refuted : exists s q, snd (compile_pinned s q) <> s.
Proof. exists w_table, w_query. vm_compute. discriminate. Qed.

Lemma history_independent_pinned_refuted : exists s0 h q,
  fst (compile_pinned (after compile_pinned s0 h) q) <> fst (compile_pinned s0 q).
Proof. exists w_table, [w_query], w_query. vm_compute. discriminate. Qed.

Lemma import_leak_pinned_refuted : exists s0 h q, q_uses q = [] /\
  fst (compile_pinned (after compile_pinned s0 h) q) <> resolve_plain s0 q.
Proof. exists w_table, [w_query], w_plain. split; [reflexivity|]. vm_compute. discriminate. Qed.

Lemma concurrent_pinned_refuted : exists s0 threads sched i,
  outs (run_sched compile_pinned sched (start s0 threads)) i <>
  run_alone compile_pinned s0 (firstn (count_occ Nat.eq_dec sched i) (threads i)).
Proof.
  exists w_table, (fun _ => [w_query]), [0%nat; 1%nat], 1%nat. vm_compute. discriminate.
Qed.

(* on a fresh compiler both agree on the outcome: the difference is only the state left behind *)
Lemma pinned_result_is_spec s q : fst (compile_pinned s q) = fst (compile_spec s q).
Proof. reflexivity. Qed.
