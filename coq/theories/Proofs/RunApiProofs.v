(* Proofs/RunApiProofs.v — totality of Run (C01) and release of closables on
   every exit path (C14). *)
From Ferret Require Import RunApi.
From Coq Require Import Lia.

(* ---------- C01: the outcome algebra is total *)
Lemma finish_total o w :
  match fst (finish true o w) with
  | ANilNil | AEscaped => False
  | _ => True
  end.
Proof. destruct o; exact I. Qed.

Lemma run_total strict fuel p w :
  match fst (run_api_g true strict fuel p w) with
  | ANilNil | AEscaped => False
  | _ => True
  end.
Proof.
  unfold run_api_g. destruct (run_body_g strict fuel p w) as [o w1]. apply finish_total.
Qed.

Lemma run_exactly_one strict fuel p w v :
  fst (run_api_g true strict fuel p w) = AJson v ->
  exists w1, run_body_g strict fuel p w = (Ok v, w1).
Proof.
  unfold run_api_g. destruct (run_body_g strict fuel p w) as [o w1].
  destruct o; cbn; intro H; inversion H. eexists; reflexivity.
Qed.

Lemma run_total_pinned_refuted : exists o w, fst (finish false o w) = ANilNil.
Proof. exists PanicErr, (init_world [] false None). reflexivity. Qed.

(* a modulo by zero reaches Run as an error-typed panic *)
Lemma modulo_by_zero_is_error_panic :
  fst (run_body 20 {| p_stmts := []; p_ret := BReturn (EMath MMod (EInt 1) (EInt 0)) |}
                (init_world [] false None)) = PanicErr.
Proof. reflexivity. Qed.

(* ---------- C14 *)
Lemma close_ids_eval w : close_ids (eval_events w) = [].
Proof. unfold eval_events, close_ids. induction (rev (w_trace w)) as [|e r IH]; cbn; auto. Qed.
Lemma close_ids_close w : close_ids (close_events w) = rev (w_closers w).
Proof. unfold close_events, close_ids. induction (rev (w_closers w)) as [|e r IH]; cbn; [reflexivity|]. rewrite IH; reflexivity. Qed.
Lemma close_ids_app a b : close_ids (a ++ b) = close_ids a ++ close_ids b.
Proof. unfold close_ids. induction a as [|e r IH]; cbn; [reflexivity|]. destruct e; cbn; rewrite IH; reflexivity. Qed.

Lemma bound_ids_eval w :
  bound_ids (eval_events w) =
  fold_right (fun e acc => match e with EvBind id => id :: acc | _ => acc end) [] (rev (w_trace w)).
Proof. unfold eval_events, bound_ids. induction (rev (w_trace w)) as [|e r IH]; cbn; [reflexivity|]. destruct e; cbn; rewrite IH; reflexivity. Qed.

Lemma closes_last_app a ids :
  forallb (fun e => negb (is_close e)) a = true -> closes_last (a ++ map RClose ids) = true.
Proof.
  induction a as [|e r IH]; cbn.
  - intros _. destruct ids as [|i r]; cbn; [reflexivity|].
    induction r as [|j r IH]; cbn; [reflexivity|exact IH].
  - intro H. apply andb_prop in H as [H1 H2]. destruct (is_close e); [discriminate|]. auto.
Qed.
Lemma eval_events_no_close w : forallb (fun e => negb (is_close e)) (eval_events w) = true.
Proof. unfold eval_events. induction (rev (w_trace w)) as [|e r IH]; cbn; auto. Qed.

(* on every exit path of Run — result, error, recovered panic of any kind —
   the registered closables are closed, all of them, once per registration,
   in registration order, and nothing of evaluation or serialisation follows *)
Lemma finish_closes wraps o w :
  fst (finish wraps o w) <> AUndefined ->
  let h := snd (finish wraps o w) in
  close_ids h = rev (w_closers w) /\ closes_last h = true.
Proof.
  intros U. destruct o; cbn [finish fst snd] in *; try (exfalso; apply U; reflexivity).
  - split.
    + rewrite !close_ids_app, close_ids_eval, close_ids_close. reflexivity.
    + rewrite app_assoc. apply closes_last_app. rewrite forallb_app, eval_events_no_close. reflexivity.
  - split; [rewrite close_ids_app, close_ids_eval, close_ids_close; reflexivity|apply closes_last_app, eval_events_no_close].
  - split; [rewrite close_ids_app, close_ids_eval, close_ids_close; reflexivity|apply closes_last_app, eval_events_no_close].
  - split; [rewrite close_ids_app, close_ids_eval, close_ids_close; reflexivity|apply closes_last_app, eval_events_no_close].
  - split; [rewrite close_ids_app, close_ids_eval, close_ids_close; reflexivity|apply closes_last_app, eval_events_no_close].
Qed.

Lemma run_closes wraps strict fuel p w :
  fst (run_api_g wraps strict fuel p w) <> AUndefined ->
  let h := snd (run_api_g wraps strict fuel p w) in
  close_ids h = rev (w_closers (snd (run_body_g strict fuel p w))) /\ closes_last h = true.
Proof.
  unfold run_api_g. destruct (run_body_g strict fuel p w) as [o w1]. cbn [snd]. apply finish_closes.
Qed.

(* the serialisation happens before any close *)
Lemma marshal_before_close wraps v w :
  let h := snd (finish wraps (Ok v) w) in
  exists a b, h = a ++ RMarshal :: b /\ forallb (fun e => negb (is_close e)) a = true /\ forallb is_close b = true.
Proof.
  cbn. exists (eval_events w), (close_events w). repeat split.
  - apply eval_events_no_close.
  - unfold close_events. induction (rev (w_closers w)); cbn; auto.
Qed.
