(* Proofs/EvalProofs.v — laws of the reference evaluator: short-circuiting,
   evaluation order, totality of error suppression, one-level spreading. *)
From Ferret Require Import Eval.
From Coq Require Import Lia.

(* ---------- logical operators evaluate their right operand only when needed *)
Definition and_short (l : value) : value := match l with VBool _ => VBool false | _ => l end.

Lemma eval_and_short f a b sc w l w' :
  eval f a sc w = (Ok l, w') -> to_bool l = false ->
  eval (S f) (ELog LAnd a b) sc w = (Ok (and_short l), w').
Proof. intros H Hb. cbn [eval_g]. unfold bind. rewrite H, Hb. reflexivity. Qed.

Lemma eval_and_long f a b sc w l w' :
  eval f a sc w = (Ok l, w') -> to_bool l = true ->
  eval (S f) (ELog LAnd a b) sc w = eval f b sc w'.
Proof. intros H Hb. cbn [eval_g]. unfold bind. rewrite H, Hb. reflexivity. Qed.

Lemma eval_or_short f a b sc w l w' :
  eval f a sc w = (Ok l, w') -> to_bool l = true ->
  eval (S f) (ELog LOr a b) sc w = (Ok l, w').
Proof. intros H Hb. cbn [eval_g]. unfold bind. rewrite H, Hb. reflexivity. Qed.

Lemma eval_or_long f a b sc w l w' :
  eval f a sc w = (Ok l, w') -> to_bool l = false ->
  eval (S f) (ELog LOr a b) sc w = eval f b sc w'.
Proof. intros H Hb. cbn [eval_g]. unfold bind. rewrite H, Hb. reflexivity. Qed.

(* a failing left operand: nothing else is evaluated *)
Lemma eval_log_left_fails f o a b sc w r w' :
  eval f a sc w = (r, w') -> (forall v, r <> Ok v) ->
  eval (S f) (ELog o a b) sc w = (recast r, w').
Proof.
  intros H Hr. cbn [eval_g]. unfold bind. rewrite H.
  destruct r; try reflexivity. exfalso; eapply Hr; reflexivity.
Qed.

(* ---------- the ternary evaluates exactly one branch *)
Lemma eval_cond_true f c t e sc w cv w' :
  eval f c sc w = (Ok cv, w') -> to_bool cv = true ->
  eval (S f) (ECond c (Some t) e) sc w = eval f t sc w'.
Proof. intros H Hb. cbn [eval_g]. unfold bind. rewrite H, Hb. reflexivity. Qed.
Lemma eval_cond_true_short f c e sc w cv w' :
  eval f c sc w = (Ok cv, w') -> to_bool cv = true ->
  eval (S f) (ECond c None e) sc w = (Ok cv, w').
Proof. intros H Hb. cbn [eval_g]. unfold bind. rewrite H, Hb. reflexivity. Qed.
Lemma eval_cond_false f c t e sc w cv w' :
  eval f c sc w = (Ok cv, w') -> to_bool cv = false ->
  eval (S f) (ECond c t e) sc w = eval f e sc w'.
Proof. intros H Hb. cbn [eval_g]. unfold bind. rewrite H, Hb. reflexivity. Qed.

(* ---------- binary operators: left operand first, then the right one *)
Lemma eval_math_order f o a b sc w l w1 r w2 :
  eval f a sc w = (Ok l, w1) -> eval f b sc w1 = (Ok r, w2) ->
  eval (S f) (EMath o a b) sc w = (op_math o l r, w2).
Proof. intros H1 H2. cbn [eval_g]. unfold bind, lift. rewrite H1, H2. destruct (op_math o l r); reflexivity. Qed.
Lemma eval_math_left_fails f o a b sc w r w' :
  eval f a sc w = (r, w') -> (forall v, r <> Ok v) ->
  eval (S f) (EMath o a b) sc w = (recast r, w').
Proof.
  intros H Hr. cbn [eval_g]. unfold bind. rewrite H.
  destruct r; try reflexivity. exfalso; eapply Hr; reflexivity.
Qed.
Lemma eval_cmp_order f o a b sc w l w1 r w2 :
  eval f a sc w = (Ok l, w1) -> eval f b sc w1 = (Ok r, w2) ->
  eval (S f) (ECmp o a b) sc w = (Ok (VBool (op_cmp o l r)), w2).
Proof. intros H1 H2. cbn [eval_g]. unfold bind, ret. rewrite H1, H2. reflexivity. Qed.

(* ---------- error suppression never yields an error — except termination,
   which is never swallowed *)
Lemma eval_suppress_total f a sc w e w' :
  eval (S f) (ESuppress a) sc w = (Err e, w') -> e = ETerminated.
Proof.
  cbn [eval_g]. destruct (eval f a sc w) as [r w1]. destruct r as [v|e0| | | | |]; intro H; try (inversion H; fail).
  destruct e0; inversion H; reflexivity.
Qed.
Lemma eval_suppress_ok f a sc w v w' :
  eval f a sc w = (Ok v, w') -> eval (S f) (ESuppress a) sc w = (Ok v, w').
Proof. intro H. cbn [eval_g]. rewrite H. reflexivity. Qed.
Lemma eval_suppress_err f a sc w e w' :
  eval f a sc w = (Err e, w') -> e <> ETerminated ->
  eval (S f) (ESuppress a) sc w = (Ok VNone, w').
Proof. intros H C. cbn [eval_g]. rewrite H. destruct e; try reflexivity. contradiction. Qed.
Lemma eval_suppress_keeps_termination f a sc w w' :
  eval f a sc w = (Err ETerminated, w') ->
  eval (S f) (ESuppress a) sc w = (Err ETerminated, w').
Proof. intros H. cbn [eval_g]. rewrite H. reflexivity. Qed.
(* the mirror of the pinned tree swallowed it *)
Lemma suppress_swallows_termination_pinned f a sc w w' :
  eval_g false f a sc w = (Err ETerminated, w') ->
  eval_g false (S f) (ESuppress a) sc w = (Ok VNone, w').
Proof. intro H. cbn [eval_g]. rewrite H. reflexivity. Qed.

(* ---------- optional chaining: a failing source of  src?.x  yields none and
   evaluates nothing else (termination excepted) *)
Lemma eval_member_optional_source f src s rest sc w e w' :
  eval f src sc w = (Err e, w') -> e <> ETerminated ->
  eval (S f) (EMember src (Seg true s :: rest)) sc w = (Ok VNone, w').
Proof. intros H C. cbn [eval_g]. rewrite H. destruct e; try reflexivity. contradiction. Qed.
Lemma eval_member_optional_keeps_termination f src s rest sc w w' :
  eval f src sc w = (Err ETerminated, w') ->
  eval (S f) (EMember src (Seg true s :: rest)) sc w = (Err ETerminated, w').
Proof. intros H. cbn [eval_g]. rewrite H. reflexivity. Qed.
Lemma eval_member_source_fails f src s rest sc w e w' :
  eval f src sc w = (Err e, w') ->
  eval (S f) (EMember src (Seg false s :: rest)) sc w = (Err e, w').
Proof. intro H. cbn [eval_g]. rewrite H. destruct e; reflexivity. Qed.

(* ---------- a call checks the context, evaluates arguments left to right,
   then calls; a cancelled context prevents everything *)
Lemma eval_call_cancelled f g args sc w :
  w_cancelled w = true -> eval (S f) (ECall g args) sc w = (Err ETerminated, w).
Proof. intro H. cbn [eval_g]. unfold bind, check_ctx. rewrite H. reflexivity. Qed.

(* ---------- nested FOR: the outer loop appends the inner results as they are *)
Definition push_spread (acc : fres) (v : value) : fres := fres_push false true false v acc.
Definition fres_empty : fres := {| fr_items := []; fr_seen := [] |}.

Lemma push_spread_items acc l :
  fr_items (push_spread acc (VArr l)) = rev l ++ fr_items acc.
Proof. reflexivity. Qed.

Lemma spread_is_concat : forall (ls : list (list value)) acc,
  rev (fr_items (fold_left push_spread (map VArr ls) acc)) = rev (fr_items acc) ++ concat ls.
Proof.
  induction ls as [|l ls IH]; intros acc; cbn [map fold_left concat].
  - rewrite app_nil_r; reflexivity.
  - rewrite IH. rewrite push_spread_items, rev_app_distr, rev_involutive, app_assoc. reflexivity.
Qed.

Lemma for_nested_is_concat ls :
  rev (fr_items (fold_left push_spread (map VArr ls) fres_empty)) = concat ls.
Proof. rewrite spread_is_concat. reflexivity. Qed.

(* ---------- RETURN DISTINCT keeps the first occurrence of every value *)
Definition push_distinct (acc : fres) (v : value) : fres := fres_push true false false v acc.

Lemma push_distinct_dup acc v :
  existsb (struct_eqb v) (fr_seen acc) = true -> push_distinct acc v = acc.
Proof. intro H. unfold push_distinct, fres_push. cbn. rewrite H. reflexivity. Qed.
Lemma push_distinct_new acc v :
  existsb (struct_eqb v) (fr_seen acc) = false ->
  push_distinct acc v = {| fr_items := v :: fr_items acc; fr_seen := v :: fr_seen acc |}.
Proof. intro H. unfold push_distinct, fres_push. cbn. rewrite H. destruct v; reflexivity. Qed.

(* ---------- int64 arithmetic wraps *)
Lemma wrap64_range z : - 2 ^ 63 <= wrap64 z < 2 ^ 63.
Proof. unfold wrap64. pose proof (Z.mod_pos_bound (z + 2 ^ 63) (2 ^ 64)). lia. Qed.
Lemma wrap64_id z : - 2 ^ 63 <= z < 2 ^ 63 -> wrap64 z = z.
Proof. intro H. unfold wrap64. rewrite Z.mod_small; lia. Qed.
Lemma wrap64_overflow_example : wrap64 (9223372036854775807 + 1) = -9223372036854775808.
Proof. reflexivity. Qed.
