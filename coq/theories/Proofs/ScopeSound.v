(* Proofs/ScopeSound.v — whole-program soundness of static name resolution:
   a program the (specified) checker accepts never fails at run time with a
   scope error (missing / already declared / unnamed variable), for every fuel,
   parameters and world. *)
From Ferret Require Import Eval StaticScope Proofs.CompareProofs.
From Coq Require Import Lia.

Definition scope_err {A} (o : outcome A) : bool :=
  match o with
  | Err EScopeNotFound | Err EScopeNotUnique | Err EScopeUnnamed => true
  | _ => false
  end.

(* partial-correctness triple: no scope error; a produced result satisfies Q *)
Definition hoare {A} (m : M A) (Q : A -> Prop) : Prop :=
  forall w, match m w with
            | (Ok a, _) => Q a
            | (o, _) => scope_err o = false
            end.

Lemma scope_err_recast {A B} (o : outcome A) : (forall a, o <> Ok a) -> @scope_err B (recast o) = scope_err o.
Proof. destruct o as [a|e| | | | |]; intro H; reflexivity. Qed.

Lemma hoare_ret {A} (a : A) (Q : A -> Prop) : Q a -> hoare (ret a) Q.
Proof. intros H w. exact H. Qed.
Lemma hoare_bind {A B} (m : M A) (k : A -> M B) (P : A -> Prop) (Q : B -> Prop) :
  hoare m P -> (forall a, P a -> hoare (k a) Q) -> hoare (bind m k) Q.
Proof.
  intros Hm Hk w. unfold bind. specialize (Hm w). destruct (m w) as [o w1].
  destruct o as [a|e| | | | |]; try exact Hm.
  - apply Hk. exact Hm.
Qed.
Lemma hoare_weaken {A} (m : M A) (P Q : A -> Prop) : hoare m P -> (forall a, P a -> Q a) -> hoare m Q.
Proof. intros H I w. specialize (H w). destruct (m w) as [o w1]. destruct o; auto. Qed.
Lemma hoare_fail {A} (o : outcome A) (Q : A -> Prop) :
  (forall a, o <> Ok a) -> scope_err o = false -> hoare (fail o) Q.
Proof. intros H1 H2 w. unfold fail. destruct o; try exact H2. exfalso; eapply H1; reflexivity. Qed.
Lemma hoare_lift {A} (o : outcome A) (Q : A -> Prop) :
  (forall a, o = Ok a -> Q a) -> scope_err o = false -> hoare (lift o) Q.
Proof. intros H1 H2 w. unfold lift. destruct o; try exact H2. apply H1; reflexivity. Qed.
Lemma hoare_true {A} (m : M A) : (forall w, scope_err (fst (m w)) = false) -> hoare m (fun _ => True).
Proof. intros H w. specialize (H w). destruct (m w) as [o w1]. destruct o; cbn in *; auto. Qed.

Lemma hoare_check_ctx : hoare check_ctx (fun _ => True).
Proof. intro w. unfold check_ctx. destruct (w_cancelled w); cbn; auto. Qed.
Lemma hoare_log e : hoare (log e) (fun _ => True).
Proof. intro w. exact I. Qed.
Lemma hoare_count_call : hoare count_call (fun _ => True).
Proof. intro w. exact I. Qed.
Lemma hoare_set_cancelled : hoare set_cancelled (fun _ => True).
Proof. intro w. exact I. Qed.
Lemma hoare_injected : hoare injected_failure (fun _ => True).
Proof.
  intro w. unfold injected_failure. destruct (w_fail_at w) as [[k kind]|]; [|exact I].
  destruct ((k + 1 =? w_ncalls w)%N); [|exact I].
  destruct ((kind =? 0)%N); [reflexivity|]. destruct ((kind =? 1)%N); [reflexivity|].
  destruct ((kind =? 2)%N); reflexivity.
Qed.
Lemma hoare_any {A} (m : M A) (Q : A -> Prop) : hoare m Q -> hoare m (fun _ => True).
Proof. intro H. eapply hoare_weaken; [exact H|auto]. Qed.

Lemma hoare_call_fn f args : hoare (call_fn f args) (fun _ => True).
Proof.
  unfold call_fn.
  eapply hoare_bind; [apply hoare_log|intros _ _].
  eapply hoare_bind; [apply hoare_count_call|intros _ _].
  eapply hoare_bind; [apply hoare_injected|intros _ _].
  repeat match goal with
         | |- hoare (if ?b then _ else _) _ => destruct b
         end;
    try (apply hoare_ret; exact I);
    try (apply hoare_fail; [intros a H; discriminate|reflexivity]).
  { eapply hoare_bind; [apply hoare_set_cancelled|]. intros _ _. apply hoare_ret. exact I. }
  destruct args as [|v0 r0]; [apply hoare_fail; [intros a H; discriminate|reflexivity]|].
  destruct v0; try (apply hoare_fail; [intros a H; discriminate|reflexivity]).
  destruct r0; [apply hoare_ret; exact I|apply hoare_fail; [intros a H; discriminate|reflexivity]].
Qed.

(* ---------- the simulation between static and run-time scopes *)
Definition sim (ss : sframes) (ds : frames) : Prop :=
  ss <> [] /\ ds <> [] /\
  (forall x, visible x ss = true -> scope_get x ds <> None) /\
  (forall x, frame_get x (hd [] ds) <> None -> in_frame x (hd [] ss) = true).

Lemma bytes_eqb_refl x : bytes_eqb x x = true.
Proof. unfold bytes_eqb. rewrite lexcmp_refl. reflexivity. Qed.
Lemma bytes_eqb_sym x y : bytes_eqb x y = bytes_eqb y x.
Proof. unfold bytes_eqb. rewrite (lexcmp_antisym x y). destruct (lexcmp x y); reflexivity. Qed.
Lemma bytes_eqb_eq x y : bytes_eqb x y = true -> x = y.
Proof. unfold bytes_eqb. destruct (lexcmp x y) eqn:E; try discriminate. intros _. apply lexcmp_eq; exact E. Qed.

Lemma sim_fork ss ds : sim ss ds -> sim ss (fork ds).
Proof.
  intros (H0 & H1 & H2 & H3). unfold fork. split; [exact H0|]. split; [discriminate|]. split.
  - intros x V. cbn. apply H2; exact V.
  - intros x F. cbn in F. contradiction.
Qed.
Lemma sim_sfork ss ds : sim ss ds -> sim (sfork ss) (fork ds).
Proof.
  intros (H0 & H1 & H2 & H3). unfold fork, sfork. split; [discriminate|]. split; [discriminate|]. split.
  - intros x V. cbn in *. apply H2; exact V.
  - intros x F. cbn in F. contradiction.
Qed.

Lemma sim_get_var x ss ds : sim ss ds -> visible x ss = true -> hoare (get_var x ds) (fun _ => True).
Proof.
  intros (_ & _ & H2 & _) V w. unfold get_var. specialize (H2 x V).
  destruct (scope_get x ds); [exact I|contradiction].
Qed.

Lemma frame_get_cons_ne x y v f : bytes_eqb y x = false -> frame_get x ((y, v) :: f) = frame_get x f.
Proof. intro H. cbn. rewrite H. reflexivity. Qed.

Lemma sim_declare x v ss ss' ds :
  sim ss ds -> declare x ss = (COk, ss') -> hoare (set_var x v ds) (fun ds' => sim ss' ds').
Proof.
  intros (H0 & H1 & H2 & H3) D.
  destruct ds as [|f r]; [contradiction|]. destruct ss as [|sf sr]; [contradiction|].
  unfold declare in D. unfold set_var. fold ign. unfold ign, ignore_name in *.
  assert (Closer : forall sc', sim ss' sc' ->
            hoare (match closer_id v with
                   | Some id => bind (add_closer id) (fun _ => ret sc')
                   | None => ret sc'
                   end) (fun ds' => sim ss' ds')).
  { intros sc' S. destruct (closer_id v); [|apply hoare_ret; exact S].
    intro w. cbn. exact S. }
  eapply hoare_bind with (P := fun sc' => sim ss' sc'); [|intros sc' S; apply Closer; exact S].
  destruct (bytes_eqb x (bs "_")) eqn:E.
  - inversion D; subst. apply hoare_ret. repeat split; auto.
  - destruct (in_frame x sf) eqn:I; [discriminate|]. inversion D; subst.
    cbn [hd] in H3.
    destruct (frame_get x f) eqn:G.
    + exfalso. assert (in_frame x sf = true) by (apply H3; rewrite G; discriminate). congruence.
    + apply hoare_ret. split; [discriminate|]. split; [discriminate|]. split.
      * intros y V. cbn [visible] in V. cbn [scope_get frame_get].
        destruct (bytes_eqb x y) eqn:Exy.
        -- discriminate.
        -- unfold in_frame in V. cbn [existsb] in V. rewrite (bytes_eqb_sym y x), Exy in V. cbn [orb] in V.
           specialize (H2 y). cbn [visible scope_get] in H2. unfold in_frame in H2.
           specialize (H2 V).
           destruct (frame_get y f); [discriminate|exact H2].
      * intros y F. cbn [hd] in *. unfold in_frame. cbn [existsb].
        cbn [frame_get] in F.
        destruct (bytes_eqb x y) eqn:Exy.
        -- rewrite (bytes_eqb_sym y x), Exy. reflexivity.
        -- rewrite (bytes_eqb_sym y x), Exy. cbn [orb]. apply H3. exact F.
Qed.

(* ---------- the operators never produce scope errors *)
From Ferret Require Import Proofs.ValueInd.

Definition benign {A} (o : outcome A) : Prop :=
  match o with Ok _ | OutOfDomain => True | _ => False end.
Lemma benign_scope {A} (o : outcome A) : benign o -> scope_err o = false.
Proof. destruct o; cbn; tauto. Qed.
Lemma benign_recast {A B} (o : outcome A) : benign o -> @benign B (recast o).
Proof. destruct o; cbn; tauto. Qed.

Lemma to_int_benign : forall v, benign (to_int v).
Proof.
  induction v as [|b|z|f|s|ds dn doff|l IH|m IHm|b] using value_ind'; cbn; auto.
  - destruct (f_trunc f); exact I.
  - assert (G : forall acc, benign ((fix go (l : list value) (acc : Z) : outcome Z :=
         match l with
         | [] => Ok acc
         | x :: r => match to_int x with Ok z => go r (wrap64 (acc + z)) | o => o end
         end) l acc)).
    { induction IH as [|x r Hx _ IHr]; intro acc; [exact I|].
      destruct (to_int x); try contradiction; auto. }
    apply G.
Qed.

Lemma to_number_only_benign : forall v, benign (to_number_only v).
Proof.
  induction v as [|b|z|f|s|ds dn doff|l IH|m IHm|b] using value_ind'; cbn; auto.
  - destruct (has_dot s); exact I.
  - destruct l as [|x0 r0]; [exact I|].
    assert (G : forall l i f, Forall (fun v => benign (to_number_only v)) l ->
       benign ((fix go (l : list value) (i : Z) (f : N) : outcome (Z * N) :=
                   match l with
                   | [] => Ok (i, f)
                   | x :: r =>
                       match to_number_only x with
                       | Ok (VInt z) => go r (wrap64 (i + z)) f
                       | Ok (VFloat g) => match f_add f g with Some f' => go r i f' | None => OutOfDomain end
                       | Ok _ => OutOfDomain
                       | o => recast o
                       end
                   end) l i f)).
    { intro l1. induction l1 as [|x r IHr]; intros i f F; [exact I|].
      inversion F as [|? ? Fx Fr]; subst.
      destruct (to_number_only x) as [v| | | | | |]; try contradiction; try exact I.
      destruct v; try exact I; [apply IHr; exact Fr|].
      destruct (f_add f bits); [apply IHr; exact Fr|exact I]. }
    specialize (G (x0 :: r0) 0 0%N IH).
    match goal with
    | |- benign (match ?X with _ => _ end) =>
        assert (GX : benign X) by exact G; destruct X as [[i f]| | | | | |]
    end; try contradiction; try exact I.
    destruct (f_is_zero f); [exact I|]. destruct (f_of_int i); [|exact I]. destruct (f_add n f); exact I.
Qed.

Lemma to_number_or_string_benign v : benign (to_number_or_string v).
Proof.
  unfold to_number_or_string.
  destruct v; try exact I;
    match goal with |- benign (match to_int ?V with _ => _ end) =>
      pose proof (to_int_benign V) as B; destruct (to_int V); cbn in *; auto end.
Qed.

Lemma arith_noscope io fo l r : scope_err (arith io fo l r) = false.
Proof.
  unfold arith, with_float, opt_float. destruct l, r; try reflexivity;
    repeat match goal with |- context [match ?x with _ => _ end] => destruct x end; reflexivity.
Qed.

Lemma on_numbers_noscope a b k :
  (forall l r, scope_err (k l r) = false) -> scope_err (on_numbers a b k) = false.
Proof.
  intro H. unfold on_numbers.
  pose proof (to_number_only_benign a) as Ba. pose proof (to_number_only_benign b) as Bb.
  destruct (to_number_only a); try contradiction; destruct (to_number_only b); try contradiction; cbn; auto.
Qed.

Lemma op_math_noscope o l r : scope_err (op_math o l r) = false.
Proof.
  destruct o; cbn [op_math].
  - unfold op_add.
    pose proof (to_number_or_string_benign l) as Ba. pose proof (to_number_or_string_benign r) as Bb.
    destruct (to_number_or_string l) as [x| | | | | |]; try contradiction;
      destruct (to_number_or_string r) as [y| | | | | |]; try contradiction; try reflexivity.
    assert (N : forall v, scope_err (num_to_string v) = false).
    { intro v. unfold num_to_string. destruct v; try reflexivity.
      repeat match goal with |- context [if ?c then _ else _] => destruct c end; reflexivity. }
    destruct x, y; try apply arith_noscope;
      repeat match goal with
             | |- context [num_to_string ?v] =>
                 let E := fresh in pose proof (N v) as E; destruct (num_to_string v); try discriminate E
             end; cbn; try assumption; try reflexivity.
  - apply on_numbers_noscope. intros; apply arith_noscope.
  - apply on_numbers_noscope. intros; apply arith_noscope.
  - apply on_numbers_noscope. intros x y. cbv beta zeta. unfold opt_float.
    destruct x, y; cbn;
      repeat match goal with |- context [match ?c with _ => _ end] => destruct c; cbn end; reflexivity.
  - apply on_numbers_noscope. intros x y. cbv beta zeta.
    destruct x, y; cbn;
      repeat match goal with |- context [match ?c with _ => _ end] => destruct c; cbn end; reflexivity.
Qed.

Lemma op_range_noscope l r : scope_err (op_range l r) = false.
Proof.
  unfold op_range. cbv beta zeta.
  destruct l, r; cbn; try reflexivity;
    repeat match goal with |- context [f_trunc ?b] => destruct (f_trunc b); cbn end; try reflexivity;
    repeat match goal with |- context [if ?c then _ else _] => destruct c; cbn end; reflexivity.
Qed.

Lemma arr_get_ok l i : exists v, arr_get l i = Ok v.
Proof.
  unfold arr_get. destruct l; [eexists; reflexivity|].
  destruct ((Z.of_nat (length (v :: l)) - 1 <? i) || (i <? 0)); eexists; reflexivity.
Qed.
Lemma seg_to_key_benign s : benign (seg_to_key s).
Proof. destruct s; exact I. Qed.

Lemma getin_loop_noscope : forall path cur i o, getin_loop cur path i = POut o -> scope_err o = false.
Proof.
  induction path as [|s rest IH]; intros cur i o H; cbn in H; [discriminate|].
  destruct cur; try discriminate.
  - (* VStr *)
    destruct s; try discriminate.
    destruct (negb (is_ascii s0)); [inversion H; reflexivity|].
    destruct ((z <? 0) || (Z.of_nat (length s0) <=? z)); [inversion H; reflexivity|].
    eapply IH; exact H.
  - (* VArr *)
    destruct s; try discriminate.
    destruct (arr_get_ok l z) as [v E]. rewrite E in H. eapply IH; exact H.
  - (* VObj *)
    pose proof (seg_to_key_benign s) as B. destruct (seg_to_key s); try contradiction.
    + eapply IH; exact H.
    + inversion H; reflexivity.
Qed.

Lemma getin_noscope : forall fuel src path o, getin fuel src path = POut o -> scope_err o = false.
Proof.
  induction fuel as [|k IH]; intros src path o H; cbn in H; [inversion H; reflexivity|].
  destruct path as [|s rest]; [discriminate|].
  assert (K : forall first,
             match rest with
             | [] => PVal first
             | _ :: _ => match first with
                         | VNone => PErr 1
                         | VArr _ | VObj _ => getin k first rest
                         | _ => getin_loop first rest 0
                         end
             end = POut o -> scope_err o = false).
  { intros first HK. destruct rest; [discriminate|].
    destruct first; try discriminate; try (eapply getin_loop_noscope; exact HK); eapply IH; exact HK. }
  destruct src; try (eapply getin_loop_noscope; exact H).
  - destruct s; try discriminate.
    destruct (arr_get_ok l z) as [v E]. rewrite E in H. apply (K v H).
  - pose proof (seg_to_key_benign s) as B. destruct (seg_to_key s); try contradiction.
    + apply (K _ H).
    + inversion H; reflexivity.
Qed.

(* ---------- static acceptance (some checker fuel suffices) *)
Section Co.
(* co = false: COLLECT is rejected by the checker; co = true: the full checker *)
Variable co : bool.
Notation chkE := (chk_expr true co).
Notation chkF := (chk_for true co).
Notation chkD := (chk_ds true co).

Definition ok_expr (e : expr) (ss : sframes) : Prop := exists cf, chkE cf e ss = COk.
Definition ok_for (q : forq) (ss : sframes) : Prop := exists cf, chkF cf q ss = COk.
Definition ok_ds (d : dsrc) (ss fs : sframes) : Prop := exists cf, chkD cf d ss = (COk, fs).

Lemma seq_ok a b : seq a b = COk -> a = COk /\ b tt = COk.
Proof. unfold seq. destruct a; try discriminate. auto. Qed.

Inductive ok_stmts : list fclause -> sframes -> sframes -> Prop :=
| oks_nil fs : ok_stmts [] fs fs
| oks_let x e r fs fs' fs'' :
    ok_expr e fs -> declare x fs = (COk, fs') -> ok_stmts r fs' fs'' -> ok_stmts (CLet x e :: r) fs fs''
| oks_call e r fs fs'' : ok_expr e fs -> ok_stmts r fs fs'' -> ok_stmts (CCall e :: r) fs fs''
| oks_filter e r fs fs'' : ok_stmts r fs fs'' -> ok_stmts (CFilter e :: r) fs fs''
| oks_sort k r fs fs'' : ok_stmts r fs fs'' -> ok_stmts (CSort k :: r) fs fs''
| oks_limit o c r fs fs'' : ok_stmts r fs fs'' -> ok_stmts (CLimit o c :: r) fs fs''
| oks_collect g t r fs fs'' : ok_stmts r fs fs'' -> ok_stmts (CCollect g t :: r) fs fs''.

Definition collect_vars (gs : list (name * expr)) (t : ctail) : list name :=
  map fst gs ++ match t with
                | CTInto x _ => [x]
                | CTCount x => [x]
                | CTAggr sels => map (fun s => fst (fst s)) sels
                | CTNone => []
                end.
Definition tail_ok (t : ctail) (vv : name) (fs0 : sframes) : Prop :=
  match t with
  | CTInto _ (Some pe) => ok_expr pe fs0
  | CTInto _ None => visible vv fs0 = true
  | CTAggr sels => Forall (fun s => Forall (fun a => ok_expr a fs0) (snd s)) sels
  | _ => True
  end.

Inductive iter_ok (ss : sframes) : iter -> sframes -> Prop :=
| ok_indexed vv kv vals pos fs0 fs :
    bytes_eqb vv [] = false -> declare vv (sfork ss) = (COk, fs0) ->
    match kv with Some k => declare k fs0 | None => (COk, fs0) end = (COk, fs) ->
    iter_ok ss (ItIndexed vv kv vals pos) fs
| ok_while dof vv cond pos fs :
    bytes_eqb vv [] = false -> ok_expr cond ss -> declare vv (sfork ss) = (COk, fs) ->
    iter_ok ss (ItWhile dof vv cond pos) fs
| ok_tap src stmts fs0 fs :
    iter_ok ss src fs0 -> ok_stmts stmts fs0 fs -> iter_ok ss (ItTap src stmts) fs
| ok_filter src e fs : iter_ok ss src fs -> ok_expr e fs -> iter_ok ss (ItFilter src e) fs
| ok_limit src c o cur fs : iter_ok ss src fs -> iter_ok ss (ItLimit src c o cur) fs
| ok_sort src ks st fs :
    iter_ok ss src fs -> Forall (fun k => ok_expr (fst k) fs) ks ->
    (forall rows, st = Some rows -> Forall (sim fs) rows) ->
    iter_ok ss (ItSort src ks st) fs
| ok_collect src gs t vv st fs0 fs :
    co = true ->
    iter_ok ss src fs0 ->
    Forall (fun g => ok_expr (snd g) fs0) gs ->
    tail_ok t vv fs0 ->
    existsb (fun x => bytes_eqb x ign) (collect_vars gs t) = false ->
    declare_all (collect_vars gs t) (sfork ss) = (COk, fs) ->
    (forall rows, st = Some rows -> Forall (sim fs) rows) ->
    iter_ok ss (ItCollect src gs t vv st) fs.

Lemma declare_shape x f r ss' : declare x (f :: r) = (COk, ss') -> exists f', ss' = f' :: r.
Proof.
  unfold declare. destruct (bytes_eqb x ign); [intro H; inversion H; eauto|].
  destruct (in_frame x f); intro H; inversion H; eauto.
Qed.
Lemma declare_all_shape : forall xs f r ss', declare_all xs (f :: r) = (COk, ss') -> exists f', ss' = f' :: r.
Proof.
  induction xs as [|x xr IH]; intros f r ss' H; cbn in H; [inversion H; eauto|].
  destruct (declare x (f :: r)) as [c s1] eqn:D. destruct c; try (inversion H; fail).
  apply declare_shape in D as [f1 ->]. eapply IH; exact H.
Qed.
Lemma ok_stmts_shape st fs fs' : ok_stmts st fs fs' -> forall f r, fs = f :: r -> exists f', fs' = f' :: r.
Proof.
  intro H. induction H; intros f0 r0 E; subst; eauto.
  apply declare_shape in H0 as [f1 ->]. eapply IHok_stmts; reflexivity.
Qed.
Lemma iter_ok_shape ss it fs : iter_ok ss it fs -> exists f, fs = f :: ss.
Proof.
  intro H. induction H; auto.
  - unfold sfork in *. apply declare_shape in H0 as [f1 ->].
    destruct kv; [apply declare_shape in H1; exact H1|inversion H1; eauto].
  - unfold sfork in *. apply declare_shape in H1. exact H1.
  - destruct IHiter_ok as [f ->]. eapply ok_stmts_shape; eauto.
  - unfold sfork in *. apply declare_all_shape in H4. exact H4.
Qed.

(* one evaluation step of each function, as equations *)
Lemma hoare_outoffuel {A} (Q : A -> Prop) : hoare (fail OutOfFuel) Q.
Proof. intro w. reflexivity. Qed.

Definition PE (n : nat) : Prop :=
  forall e sc ss, sim ss sc -> ok_expr e ss -> hoare (eval n e sc) (fun _ => True).
Definition PF (n : nat) : Prop :=
  forall q sc ss, sim ss sc -> ok_for q ss -> hoare (eval_for n q sc) (fun _ => True).
Definition PI (n : nat) : Prop :=
  forall d sc ss fs, sim ss sc -> ok_ds d ss fs -> hoare (iterate n d sc) (fun it => iter_ok ss it fs).
Definition PN (n : nat) : Prop :=
  forall it sc ss fs, sim ss sc -> iter_ok ss it fs ->
    hoare (next n it sc) (fun r => match r with
                                   | None => True
                                   | Some (row, it') => sim fs row /\ iter_ok ss it' fs
                                   end).

(* evaluating a list of accepted expressions *)
Lemma eval_list_sound n (HE : PE n) sc ss : sim ss sc -> forall es,
  Forall (fun e => ok_expr e ss) es ->
  hoare ((fix go (es : list expr) : M (list value) :=
            match es with
            | [] => ret []
            | x :: r => do v <- eval n x sc; do vs <- go r; ret (v :: vs)
            end) es) (fun _ => True).
Proof.
  intros S es. induction es as [|x r IH]; intro F; [apply hoare_ret; exact I|].
  inversion F as [|? ? Fx Fr]; subst.
  eapply hoare_bind; [apply (HE x sc ss S Fx)|intros v _].
  eapply hoare_bind; [apply IH; exact Fr|intros vs _]. apply hoare_ret; exact I.
Qed.

Lemma chk_list_forall cf ss es :
  (fix gl (es : list expr) : cres :=
     match es with [] => COk | x :: r => seq (chkE cf x ss) (fun _ => gl r) end) es = COk ->
  Forall (fun e => ok_expr e ss) es.
Proof.
  induction es as [|x r IH]; intro H; [constructor|].
  apply seq_ok in H as [H1 H2]. constructor; [exists cf; exact H1|apply IH; exact H2].
Qed.

Lemma PE_step n : PE n -> PF n -> PE (S n).
Proof.
  intros HE HF e sc ss S [cf C]. destruct cf as [|cf]; [discriminate|].
  destruct e; cbn [chk_expr] in C; cbn [eval_g].
  all: try (apply hoare_ret; exact I).
  - (* EArr *) eapply hoare_bind; [apply (eval_list_sound n HE sc ss S), (chk_list_forall cf); exact C|].
    intros vs _. apply hoare_ret; exact I.
  - (* EObj *)
    assert (G : forall acc, hoare ((fix go (ps : list prop) (acc : list (bytes * value)) : M value :=
           match ps with
           | [] => ret (VObj acc)
           | p :: r =>
               do kv <- (match p with
                         | PNamed k e1 => do v <- eval n e1 sc; ret (VStr k, v)
                         | PComputed k e1 => do kv <- eval n k sc; do v <- eval n e1 sc; ret (kv, v)
                         | PShort x => do v <- get_var x sc; ret (VStr x, v)
                         end);
               match kv with
               | (VStr k, v) => go r (filter (fun q => negb (bytes_eqb (fst q) k)) acc ++ [(k, v)])
               | _ => fail (Err EType)
               end
           end) ps acc) (fun _ => True)).
    { induction ps as [|p r IH]; intro acc; [apply hoare_ret; exact I|].
      assert (Cr : (fix gp (ps : list prop) : cres :=
               match ps with
               | [] => COk
               | PNamed _ v :: r => seq (chkE cf v ss) (fun _ => gp r)
               | PComputed k v :: r => seq (chkE cf k ss) (fun _ => seq (chkE cf v ss) (fun _ => gp r))
               | PShort x :: r => if visible x ss then gp r else CNotFound
               end) r = COk /\
              hoare (match p with
                     | PNamed k e1 => do v <- eval n e1 sc; ret (VStr k, v)
                     | PComputed k e1 => do kv <- eval n k sc; do v <- eval n e1 sc; ret (kv, v)
                     | PShort x => do v <- get_var x sc; ret (VStr x, v)
                     end) (fun _ => True)).
      { destruct p as [k v|k v|x].
        - apply seq_ok in C as [C1 C2]. split; [exact C2|].
          eapply hoare_bind; [apply (HE v sc ss S); exists cf; exact C1|intros; apply hoare_ret; exact I].
        - apply seq_ok in C as [C1 C2]. apply seq_ok in C2 as [C2 C3]. split; [exact C3|].
          eapply hoare_bind; [apply (HE k sc ss S); exists cf; exact C1|intros].
          eapply hoare_bind; [apply (HE v sc ss S); exists cf; exact C2|intros; apply hoare_ret; exact I].
        - destruct (visible x ss) eqn:V; [|discriminate]. split; [exact C|].
          eapply hoare_bind; [apply (sim_get_var x ss sc S V)|intros; apply hoare_ret; exact I]. }
      destruct Cr as [Cr Hp].
      eapply hoare_bind; [exact Hp|]. intros [kv v] _.
      destruct kv; try (apply hoare_fail; [intros a H; discriminate|reflexivity]).
      apply IH. exact Cr. }
    apply G.
  - (* EVar *) destruct (visible x ss) eqn:V; [|discriminate]. apply (sim_get_var x ss sc S V).
  - (* EParam *) intro w. destruct (frame_get x (w_params w)); reflexivity || exact I.
  - (* EUn *) eapply hoare_bind; [apply (HE e sc ss S); exists cf; exact C|intros; apply hoare_ret; exact I].
  - (* ELog *) apply seq_ok in C as [C1 C2].
    eapply hoare_bind; [apply (HE e1 sc ss S); exists cf; exact C1|intros l _].
    destruct o; destruct (to_bool l); try (apply hoare_ret; exact I); apply (HE e2 sc ss S); exists cf; exact C2.
  - (* ECond *) apply seq_ok in C as [C1 C2]. apply seq_ok in C2 as [C2 C3].
    eapply hoare_bind; [apply (HE e1 sc ss S); exists cf; exact C1|intros cv _].
    destruct (to_bool cv).
    + destruct t as [t'|]; [apply (HE t' sc ss S); exists cf; exact C2|apply hoare_ret; exact I].
    + apply (HE e2 sc ss S); exists cf; exact C3.
  - (* ECmp *) apply seq_ok in C as [C1 C2].
    eapply hoare_bind; [apply (HE e1 sc ss S); exists cf; exact C1|intros l _].
    eapply hoare_bind; [apply (HE e2 sc ss S); exists cf; exact C2|intros r _]. apply hoare_ret; exact I.
  - (* EIn *) apply seq_ok in C as [C1 C2].
    eapply hoare_bind; [apply (HE e1 sc ss S); exists cf; exact C1|intros l _].
    eapply hoare_bind; [apply (HE e2 sc ss S); exists cf; exact C2|intros r _]. apply hoare_ret; exact I.
  - (* EQuant *) apply seq_ok in C as [C1 C2].
    eapply hoare_bind; [apply (HE e1 sc ss S); exists cf; exact C1|intros l _].
    eapply hoare_bind; [apply (HE e2 sc ss S); exists cf; exact C2|intros r _]. apply hoare_ret; exact I.
  - (* ELike *) apply seq_ok in C as [C1 C2].
    eapply hoare_bind; [apply (HE e1 sc ss S); exists cf; exact C1|intros l _].
    eapply hoare_bind; [apply (HE e2 sc ss S); exists cf; exact C2|intros r _].
    destruct l; try (apply hoare_ret; exact I). destruct r; try (apply hoare_ret; exact I).
    destruct (glob_match s0 s); [apply hoare_ret; exact I|apply hoare_fail; [intros a H; discriminate|reflexivity]].
  - (* ERegex *) apply seq_ok in C as [C1 C2].
    eapply hoare_bind; [apply (HE e1 sc ss S); exists cf; exact C1|intros l _].
    eapply hoare_bind; [apply (HE e2 sc ss S); exists cf; exact C2|intros r _].
    repeat match goal with
           | |- hoare (match ?x with _ => _ end) _ => destruct x
           end; try (apply hoare_ret; exact I); apply hoare_fail; try reflexivity; intros a H; discriminate.
  - (* EMath *) apply seq_ok in C as [C1 C2].
    eapply hoare_bind; [apply (HE e1 sc ss S); exists cf; exact C1|intros l _].
    eapply hoare_bind; [apply (HE e2 sc ss S); exists cf; exact C2|intros r _].
    apply hoare_lift; [auto|apply op_math_noscope].
  - (* ERange *) apply seq_ok in C as [C1 C2].
    eapply hoare_bind; [apply (HE e1 sc ss S); exists cf; exact C1|intros l _].
    eapply hoare_bind; [apply (HE e2 sc ss S); exists cf; exact C2|intros r _].
    apply hoare_lift; [auto|apply op_range_noscope].
  - (* EMember *) apply seq_ok in C as [C1 C2].
    assert (Segs : hoare ((fix go (p : list seg) : M (list value) :=
                             match p with
                             | [] => ret []
                             | Seg _ se :: r => do v <- eval n se sc; do vs <- go r; ret (v :: vs)
                             end) path) (fun _ => True)).
    { clear C1. induction path as [|[o se] r IH]; [apply hoare_ret; exact I|].
      apply seq_ok in C2 as [C2 C3].
      eapply hoare_bind; [apply (HE se sc ss S); exists cf; exact C2|intros v _].
      eapply hoare_bind; [apply IH; exact C3|intros vs _]. apply hoare_ret; exact I. }
    pose proof (HE e sc ss S (ex_intro _ cf C1)) as Hsrc.
    intro w. specialize (Hsrc w). destruct (eval n e sc w) as [o w1].
    destruct o as [m|er| | | | |]; try exact Hsrc.
    + (* source evaluated *)
      assert (G : hoare (do segs <- (fix go (p : list seg) : M (list value) :=
                             match p with
                             | [] => ret []
                             | Seg _ se :: r => do v <- eval n se sc; do vs <- go r; ret (v :: vs)
                             end) path;
               match getin n m segs with
               | PVal v => ret v
               | POut o => lift o
               | PErr i => match nth_error path i with
                           | Some (Seg true _) => ret VNone
                           | _ => fail (Err EPath)
                           end
               end) (fun _ => True)).
      { eapply hoare_bind; [exact Segs|intros segs _].
        destruct (getin n m segs) eqn:G.
        - apply hoare_ret; exact I.
        - destruct (nth_error path segment) as [[[|] ?]|]; try (apply hoare_ret; exact I);
            apply hoare_fail; try reflexivity; intros a H; discriminate.
        - apply hoare_lift; [auto|]. eapply getin_noscope; exact G. }
      exact (G w1).
    + (* source failed *)
      destruct er; cbn in Hsrc; try discriminate;
        destruct (match path with Seg o _ :: _ => o | [] => false end); cbn; auto.
  - (* ECall *)
    eapply hoare_bind; [apply hoare_check_ctx|intros _ _].
    eapply hoare_bind; [apply (eval_list_sound n HE sc ss S), (chk_list_forall cf); exact C|intros vs _].
    apply hoare_call_fn.
  - (* ESuppress *)
    pose proof (HE e sc ss S (ex_intro _ cf C)) as H. intro w. specialize (H w).
    destruct (eval n e sc w) as [o w1]. destruct o as [v|er| | | | |]; try exact H; try exact I.
    destruct er; cbn in *; try discriminate; auto.
  - (* ESub *) apply (HF q sc ss S). exists cf. exact C.
Qed.


(* ---------- loops *)
Lemma chk_for_eq cf q ss :
  chkF (S cf) q ss =
  let '(d, ret_) := match q with
                    | ForIn vv kv src body r => (build_ds (DIn vv kv src) vv body, r)
                    | ForWhile vv dof cond body r => (build_ds (DWhile dof vv cond) vv body, r)
                    end in
  match chkD cf d ss with
  | (COk, fs) => match ret_ with
                 | RReturn _ e => chkE cf e fs
                 | RFor q' => chkF cf q' fs
                 end
  | (err, _) => err
  end.
Proof. reflexivity. Qed.

Lemma ok_for_inv cf q ss : chkF (S cf) q ss = COk ->
  let '(d, ret_) := match q with
                    | ForIn vv kv src body r => (build_ds (DIn vv kv src) vv body, r)
                    | ForWhile vv dof cond body r => (build_ds (DWhile dof vv cond) vv body, r)
                    end in
  exists fs, chkD cf d ss = (COk, fs) /\
             match ret_ with
             | RReturn _ e => chkE cf e fs = COk
             | RFor q' => chkF cf q' fs = COk
             end.
Proof.
  intro H. rewrite chk_for_eq in H.
  destruct (match q with
            | ForIn vv kv src body r => (build_ds (DIn vv kv src) vv body, r)
            | ForWhile vv dof cond body r => (build_ds (DWhile dof vv cond) vv body, r)
            end) as [d ret_].
  destruct (chkD cf d ss) as [c fs]. destruct c; try discriminate. exists fs. split; [reflexivity|].
  destruct ret_; exact H.
Qed.

Lemma PF_step n : PE n -> PF n -> PI n -> PN n -> PF (S n).
Proof.
  intros HE HF HI HN q sc ss Sm [cf C]. destruct cf as [|cf]; [discriminate|].
  apply ok_for_inv in C. cbn [eval_for_g].
  eapply hoare_bind; [apply hoare_check_ctx|intros _ _].
  destruct (match q with
            | ForIn vv kv src body r => (build_ds (DIn vv kv src) vv body, r)
            | ForWhile vv dof cond body r => (build_ds (DWhile dof vv cond) vv body, r)
            end) as [d ret_].
  destruct C as (fs & CD & CR).
  eapply hoare_bind; [apply (HI d sc ss fs Sm); exists cf; exact CD|intros it Hit].
  destruct (match ret_ with
            | RReturn dflag e => (dflag, false, match e with ENone => true | _ => false end)
            | RFor _ => (false, true, false)
            end) as [[distinct spread] pass].
  match goal with |- hoare (?F ?K it ?A) _ => set (L := F); generalize A as acc; generalize K as k end.
  intros k acc. revert it Hit acc.
  assert (EQ : forall k it0 acc0, L (S k) it0 acc0 =
     (do r <- next n it0 sc;
      match r with
      | None => ret (VArr (rev (fr_items acc0)))
      | Some (sc', it') =>
          do out <- (match ret_ with
                     | RReturn _ e => do _ <- check_ctx; eval n e sc'
                     | RFor q' => eval_for n q' sc'
                     end);
          L k it' (fres_push distinct spread pass out acc0)
      end)) by reflexivity.
  induction k as [|k IH]; intros it Hit acc; [apply hoare_outoffuel|].
  rewrite EQ.
  eapply hoare_bind; [apply (HN it sc ss fs Sm Hit)|intros r Hr].
  destruct r as [[sc' it']|]; [|apply hoare_ret; exact I].
  destruct Hr as [Srow Hit'].
  eapply hoare_bind with (P := fun _ => True).
  - destruct ret_ as [dflag e|q'].
    + eapply hoare_bind; [apply hoare_check_ctx|intros _ _]. apply (HE e sc' fs Srow). exists cf; exact CR.
    + apply (HF q' sc' fs Srow). exists cf; exact CR.
  - intros out _. apply IH. exact Hit'.
Qed.

(* ---------- data sources *)
Definition chk_stmts cf :=
  fix stmts (ss : list fclause) (fs : sframes) : cres * sframes :=
    match ss with
    | [] => (COk, fs)
    | CLet x e :: r =>
        match chkE cf e fs with
        | COk => match declare x fs with (COk, fs') => stmts r fs' | err => err end
        | err => (err, fs)
        end
    | CCall e :: r => match chkE cf e fs with COk => stmts r fs | err => (err, fs) end
    | _ :: r => stmts r fs
    end.

Lemma chk_stmts_ok cf : forall ss fs fs', chk_stmts cf ss fs = (COk, fs') -> ok_stmts ss fs fs'.
Proof.
  induction ss as [|c r IH]; intros fs fs' H; cbn in H.
  - inversion H; subst. constructor.
  - destruct c.
    + destruct (chkE cf e fs) eqn:E; try (inversion H; fail).
      destruct (declare x fs) as [c0 fs1] eqn:D. destruct c0; try (inversion H; fail).
      econstructor; [exists cf; exact E|exact D|apply IH; exact H].
    + destruct (chkE cf e fs) eqn:E; try (inversion H; fail).
      constructor; [exists cf; exact E|apply IH; exact H].
    + constructor; apply IH; exact H.
    + constructor; apply IH; exact H.
    + constructor; apply IH; exact H.
    + constructor; apply IH; exact H.
Qed.

Lemma chk_ds_in cf vv kv e ss :
  chkD (S cf) (DIn vv kv e) ss =
  match chkE cf e ss with
  | COk => if bytes_eqb vv [] then (CUnnamed, ss) else
           match declare vv (sfork ss) with
           | (COk, fs0) => match kv with Some k => declare k fs0 | None => (COk, fs0) end
           | r => r
           end
  | err => (err, ss)
  end.
Proof. reflexivity. Qed.
Lemma chk_ds_while cf dof vv c ss :
  chkD (S cf) (DWhile dof vv c) ss =
  match chkE cf c ss with
  | COk => if bytes_eqb vv [] then (CUnnamed, ss) else declare vv (sfork ss)
  | err => (err, ss)
  end.
Proof. reflexivity. Qed.
Lemma chk_ds_block cf d0 st ss :
  chkD (S cf) (DBlock d0 st) ss =
  match chkD cf d0 ss with
  | (COk, fs) => chk_stmts cf st fs
  | r => r
  end.
Proof. reflexivity. Qed.
Lemma chk_ds_filter cf d0 e ss :
  chkD (S cf) (DFilter d0 e) ss =
  match chkD cf d0 ss with (COk, fs) => (chkE cf e fs, fs) | r => r end.
Proof. reflexivity. Qed.
Lemma chk_ds_sort cf d0 ks ss :
  chkD (S cf) (DSort d0 ks) ss =
  match chkD cf d0 ss with
  | (COk, fs) => ((fix gl (es : list expr) : cres :=
                     match es with [] => COk | x :: r => seq (chkE cf x fs) (fun _ => gl r) end) (map fst ks), fs)
  | r => r
  end.
Proof. reflexivity. Qed.
Lemma chk_ds_limit cf d0 cnt off ss :
  chkD (S cf) (DLimit d0 cnt off) ss =
  match chkD cf d0 ss with
  | (COk, fs) => (seq (chkE cf off ss) (fun _ => chkE cf cnt ss), fs)
  | r => r
  end.
Proof. reflexivity. Qed.
Definition chk_list cf fs :=
  fix gl (es : list expr) : cres :=
    match es with [] => COk | x :: r => seq (chkE cf x fs) (fun _ => gl r) end.
Definition chk_aggr cf fs :=
  fix ga (ss : list (name * name * list expr)) : cres :=
    match ss with
    | [] => COk
    | (_, _, args) :: sr => seq (chk_list cf fs args) (fun _ => ga sr)
    end.
Lemma chk_ds_collect cf d0 gs t vv ss :
  chkD (S cf) (DCollect d0 gs t vv) ss =
  if negb co then (CNotFound, ss) else
  match chkD cf d0 ss with
  | (COk, fs) =>
      match seq (chk_list cf fs (map snd gs)) (fun _ =>
              match t with
              | CTInto _ (Some pe) => chkE cf pe fs
              | CTInto _ None => if visible vv fs then COk else CNotFound
              | CTAggr sels => chk_aggr cf fs sels
              | _ => COk
              end) with
      | COk => if existsb (fun x => bytes_eqb x ign) (collect_vars gs t) then (CUnnamed, fs)
               else declare_all (collect_vars gs t) (clear_top fs)
      | err => (err, fs)
      end
  | r => r
  end.
Proof. reflexivity. Qed.

Lemma limit_to_int_noscope v : scope_err (limit_to_int v) = false.
Proof. destruct v; try reflexivity. cbn. destruct (f_trunc bits); reflexivity. Qed.

Lemma PI_step n : PE n -> PI n -> PI (S n).
Proof.
  intros HE HI d sc ss fs Sm [cf C]. destruct cf as [|cf]; [discriminate|].
  destruct d as [vv kv e|dof vv cond|d0 st|d0 e|d0 ks|d0 cnt off|d0 gs t vv]; cbn [iterate_g].
  - (* DIn *)
    rewrite chk_ds_in in C. destruct (chkE cf e ss) eqn:CE; try (inversion C; fail).
    destruct (bytes_eqb vv []) eqn:EV; [inversion C|].
    destruct (declare vv (sfork ss)) as [c0 fs0] eqn:D. destruct c0; try (inversion C; fail).
    eapply hoare_bind; [apply hoare_check_ctx|intros _ _].
    eapply hoare_bind; [apply (HE e sc ss Sm); exists cf; exact CE|intros data _].
    destruct data; try (apply hoare_fail; [intros a H; discriminate|reflexivity]).
    + apply hoare_ret. econstructor; eauto.
    + destruct m; [|apply hoare_fail; [intros a H; discriminate|reflexivity]].
      apply hoare_ret. econstructor; eauto.
  - (* DWhile *)
    rewrite chk_ds_while in C. destruct (chkE cf cond ss) eqn:CE; try (inversion C; fail).
    destruct (bytes_eqb vv []) eqn:EV; [inversion C|].
    apply hoare_ret. constructor; auto. exists cf; exact CE.
  - (* DBlock *)
    rewrite chk_ds_block in C. destruct (chkD cf d0 ss) as [c0 fs0] eqn:D0. destruct c0; try (inversion C; fail).
    eapply hoare_bind; [apply hoare_check_ctx|intros _ _].
    eapply hoare_bind; [apply (HI d0 sc ss fs0 Sm); exists cf; exact D0|intros it Hit].
    apply hoare_ret. econstructor; [exact Hit|apply (chk_stmts_ok cf); exact C].
  - (* DFilter *)
    rewrite chk_ds_filter in C. destruct (chkD cf d0 ss) as [c0 fs0] eqn:D0. destruct c0; try (inversion C; fail).
    inversion C as [[CE Efs]]. subst fs0.
    eapply hoare_bind; [apply (HI d0 sc ss fs Sm); exists cf; exact D0|intros it Hit].
    apply hoare_ret. constructor; [exact Hit|exists cf; exact CE].
  - (* DSort *)
    rewrite chk_ds_sort in C. destruct (chkD cf d0 ss) as [c0 fs0] eqn:D0. destruct c0; try (inversion C; fail).
    inversion C as [[CE Efs]]. subst fs0.
    eapply hoare_bind; [apply (HI d0 sc ss fs Sm); exists cf; exact D0|intros it Hit].
    apply hoare_ret. constructor; [exact Hit| |intros rows H; discriminate].
    apply chk_list_forall in CE. clear -CE. induction ks as [|[e b] r IH]; [constructor|].
    inversion CE; subst. constructor; auto.
  - (* DLimit *)
    rewrite chk_ds_limit in C. destruct (chkD cf d0 ss) as [c0 fs0] eqn:D0. destruct c0; try (inversion C; fail).
    inversion C as [[CE Efs]]. subst fs0. apply seq_ok in CE as [C1 C2].
    eapply hoare_bind; [apply (HI d0 sc ss fs Sm); exists cf; exact D0|intros it Hit].
    eapply hoare_bind; [apply (HE cnt sc ss Sm); exists cf; exact C2|intros c _].
    eapply hoare_bind; [apply (HE off sc ss Sm); exists cf; exact C1|intros o _].
    eapply hoare_bind; [apply hoare_lift with (Q := fun _ => True); [auto|apply limit_to_int_noscope]|intros ci _].
    eapply hoare_bind; [apply hoare_lift with (Q := fun _ => True); [auto|apply limit_to_int_noscope]|intros oi _].
    apply hoare_ret. constructor. exact Hit.
  - (* DCollect *)
    rewrite chk_ds_collect in C.
    assert (Eco : co = true) by (destruct co; [reflexivity|inversion C]).
    replace (negb co) with false in C by (rewrite Eco; reflexivity). cbv iota in C.
    destruct (chkD cf d0 ss) as [c0 fs0] eqn:D0. destruct c0; try (inversion C; fail).
    match type of C with context [seq ?A ?B] => destruct (seq A B) eqn:SQ end; try (inversion C; fail).
    apply seq_ok in SQ as [C1 C2].
    destruct (existsb (fun x => bytes_eqb x ign) (collect_vars gs t)) eqn:Eign; [inversion C|].
    eapply hoare_bind; [apply (HI d0 sc ss fs0 Sm); exists cf; exact D0|intros it Hit].
    destruct (iter_ok_shape ss it fs0 Hit) as [f0 Efs0]. subst fs0. cbn [clear_top] in C. fold (sfork ss) in C.
    assert (Hg : Forall (fun g => ok_expr (snd g) (f0 :: ss)) gs).
    { apply chk_list_forall in C1. clear -C1. induction gs as [|[x e] r IH]; [constructor|].
      inversion C1; subst. constructor; auto. }
    assert (Ht : tail_ok t vv (f0 :: ss)).
    { destruct t as [|x [pe|]|x|sels]; unfold tail_ok; auto.
      - exists cf; exact C2.
      - destruct (visible vv (f0 :: ss)); [reflexivity|discriminate].
      - clear -C2. induction sels as [|[[x f] args] r IH]; [constructor|].
        cbn [chk_aggr] in C2. apply seq_ok in C2 as [A B]. constructor; [apply chk_list_forall in A; exact A|apply IH; exact B]. }
    apply hoare_ret.
    eapply ok_collect with (fs0 := f0 :: ss); [exact Eco| |exact Hg|exact Ht|exact Eign|exact C|intros rows E; discriminate].
    destruct gs as [|g gr]; [exact Hit|].
    constructor; [exact Hit| |intros rows E; discriminate].
    clear -Hg. induction Hg; cbn; constructor; auto.
Qed.

(* ---------- iterators *)
Lemma tap_stmts_sound n (HE : PE n) : forall st fs0 fs, ok_stmts st fs0 fs -> forall s, sim fs0 s ->
  hoare ((fix go (ss : list fclause) (s : frames) : M frames :=
            match ss with
            | [] => ret s
            | CLet x e :: r => do v <- eval n e s; do s1 <- set_var x v s; go r s1
            | CCall e :: r => do _ <- eval n e s; go r s
            | _ :: r => go r s
            end) st s) (fun s' => sim fs s').
Proof.
  intros st fs0 fs H. induction H; intros s Sm; try (apply IHok_stmts; exact Sm).
  - apply hoare_ret; exact Sm.
  - eapply hoare_bind; [apply (HE e s fs Sm H)|intros v _].
    eapply hoare_bind; [apply (sim_declare x v fs fs' s Sm H0)|intros s1 S1]. apply IHok_stmts; exact S1.
  - eapply hoare_bind; [apply (HE e s fs Sm H)|intros v _]. apply IHok_stmts; exact Sm.
Qed.

Definition NPost (ss fs : sframes) (r : option (frames * iter)) : Prop :=
  match r with
  | None => True
  | Some (row, it') => sim fs row /\ iter_ok ss it' fs
  end.

Lemma PN_indexed n vv kv vals pos sc ss fs :
  sim ss sc -> iter_ok ss (ItIndexed vv kv vals pos) fs ->
  hoare (next (S n) (ItIndexed vv kv vals pos) sc) (NPost ss fs).
Proof.
  intros Sm H. inversion H as [? ? ? ? fs0 ? EV D1 D2| | | | | |]; subst. cbn [next_g].
  destruct vals as [|v rest]; [apply hoare_ret; exact I|].
  eapply hoare_bind; [apply (sim_declare vv v (sfork ss) fs0 (fork sc) (sim_sfork ss sc Sm) D1)|intros s1 S1].
  eapply hoare_bind with (P := fun s2 => sim fs s2).
  - destruct kv as [k|]; [apply (sim_declare k (VInt pos) fs0 fs s1 S1 D2)|].
    inversion D2; subst. apply hoare_ret; exact S1.
  - intros s2 S2. apply hoare_ret. split; [exact S2|econstructor; eauto].
Qed.

Lemma PN_while n (HE : PE n) dof vv cond pos sc ss fs :
  sim ss sc -> iter_ok ss (ItWhile dof vv cond pos) fs ->
  hoare (next (S n) (ItWhile dof vv cond pos) sc) (NPost ss fs).
Proof.
  intros Sm H. inversion H as [|? ? ? ? ? EV OC D| | | | |]; subst. cbn [next_g].
  eapply hoare_bind with (P := fun _ => True).
  - destruct (negb dof || (0 <? pos)); [|apply hoare_ret; exact I].
    eapply hoare_bind; [apply (HE cond sc ss Sm OC)|intros c _]. apply hoare_ret; exact I.
  - intros go _. destruct go; [|apply hoare_ret; exact I].
    eapply hoare_bind; [apply (sim_declare vv (VInt pos) (sfork ss) fs (fork sc) (sim_sfork ss sc Sm) D)|intros s1 S1].
    apply hoare_ret. split; [exact S1|constructor; auto].
Qed.

Lemma PN_tap n (HE : PE n) (HN : PN n) src st sc ss fs :
  sim ss sc -> iter_ok ss (ItTap src st) fs ->
  hoare (next (S n) (ItTap src st) sc) (NPost ss fs).
Proof.
  intros Sm H. inversion H as [| |? ? fs0 ? Hsrc Hst| | | |]; subst. cbn [next_g].
  eapply hoare_bind; [apply (HN src sc ss fs0 Sm Hsrc)|intros r Hr].
  destruct r as [[s src']|]; [|apply hoare_ret; exact I]. destruct Hr as [Ss Hsrc'].
  eapply hoare_bind; [apply hoare_check_ctx|intros _ _].
  eapply hoare_bind; [apply (tap_stmts_sound n HE st fs0 fs Hst s Ss)|intros s' S'].
  apply hoare_ret. split; [exact S'|econstructor; eauto].
Qed.

Lemma PN_filter n (HE : PE n) (HN : PN n) src e sc ss fs :
  sim ss sc -> iter_ok ss (ItFilter src e) fs ->
  hoare (next (S n) (ItFilter src e) sc) (NPost ss fs).
Proof.
  intros Sm H. inversion H as [| | |? ? ? Hsrc He| | |]; subst. cbn [next_g].
  match goal with |- hoare (?F ?K src) _ => set (L := F); generalize K as k end.
  assert (EQ : forall k src0, L (S k) src0 =
     (do r <- next n src0 (fork sc);
      match r with
      | None => ret None
      | Some (s, src') =>
          do v <- eval n e s;
          match v with
          | VBool true => ret (Some (s, ItFilter src' e))
          | _ => L k src'
          end
      end)) by reflexivity.
  intro k. revert src Hsrc H. induction k as [|k IH]; intros src Hsrc H; [apply hoare_outoffuel|].
  rewrite EQ.
  eapply hoare_bind; [apply (HN src (fork sc) ss fs (sim_fork ss sc Sm) Hsrc)|intros r Hr].
  destruct r as [[s src']|]; [|apply hoare_ret; exact I]. destruct Hr as [Ss Hsrc'].
  eapply hoare_bind; [apply (HE e s fs Ss He)|intros v _].
  assert (Hit' : iter_ok ss (ItFilter src' e) fs) by (constructor; assumption).
  destruct v; try (apply IH; assumption).
  destruct b; [apply hoare_ret; split; assumption|apply IH; assumption].
Qed.

Lemma PN_limit n (HN : PN n) src cnt off cur sc ss fs :
  sim ss sc -> iter_ok ss (ItLimit src cnt off cur) fs ->
  hoare (next (S n) (ItLimit src cnt off cur) sc) (NPost ss fs).
Proof.
  intros Sm H. inversion H as [| | | |? ? ? ? ? Hsrc| |]; subst. cbn [next_g].
  eapply hoare_bind with (P := fun st => match st with None => True | Some (src1, _) => iter_ok ss src1 fs end).
  - match goal with |- hoare (?F ?K src cur) _ => set (L := F); generalize K as k end.
    assert (EQ : forall k src0 cur0, L (S k) src0 cur0 =
       (if (off =? 0) || negb (cur0 <? off) then ret (Some (src0, cur0))
        else do r <- next n src0 (fork sc);
             match r with
             | None => ret None
             | Some (_, src') => L k src' (cur0 + 1)
             end)) by reflexivity.
    intro k. clear H. revert src Hsrc cur. induction k as [|k IH]; intros src Hsrc cur; [apply hoare_outoffuel|].
    rewrite EQ. destruct ((off =? 0) || negb (cur <? off)); [apply hoare_ret; exact Hsrc|].
    eapply hoare_bind; [apply (HN src (fork sc) ss fs (sim_fork ss sc Sm) Hsrc)|intros r Hr].
    destruct r as [[s src']|]; [|apply hoare_ret; exact I]. destruct Hr as [_ Hsrc']. apply IH; exact Hsrc'.
  - intros st Hst. destruct st as [[src1 cur1]|]; [|apply hoare_ret; exact I].
    destruct (cur1 + 1 - off <=? cnt); [|apply hoare_ret; exact I].
    eapply hoare_bind; [apply (HN src1 sc ss fs Sm Hst)|intros r Hr].
    destruct r as [[s src2]|]; [|apply hoare_ret; exact I]. destruct Hr as [Ss Hsrc2].
    apply hoare_ret. split; [exact Ss|constructor; exact Hsrc2].
Qed.

(* the local loops of SORT, named *)
Definition drain_f (n : nat) (sc : frames) :=
  fix drain (k : nat) (it : iter) (acc : list frames) : M (list frames) :=
    match k with
    | O => fail OutOfFuel
    | S k' => do r <- next n it (fork sc);
              match r with
              | None => ret (rev acc)
              | Some (s, it') => drain k' it' (s :: acc)
              end
    end.
Definition key1 (n : nat) (e : expr) (s : frames) (first : bool) : M value :=
  fun w => match eval n e s w with
           | (Ok v, w') => (Ok v, w')
           | (OutOfFuel, w') => (OutOfFuel, w')
           | (o, w') => if first then (o, w') else (OutOfDomain, w')
           end.
Definition gk_f (n : nat) (s : frames) :=
  fix gk (first : bool) (ks : list (expr * bool)) : M (list (value * bool)) :=
    match ks with
    | [] => ret []
    | (e, d) :: kr => do v <- key1 n e s first; do vs <- gk false kr; ret ((v, d) :: vs)
    end.
Definition keyed_f (n : nat) (ks : list (expr * bool)) :=
  fix go (l : list frames) : M (list (list (value * bool) * frames)) :=
    match l with
    | [] => ret []
    | s :: r => do kv <- gk_f n s true ks; do rest <- go r; ret ((kv, s) :: rest)
    end.

Lemma next_sort_eq n src ks st sc :
  next (S n) (ItSort src ks st) sc =
  (do rows <- (match st with
               | Some rows => ret rows
               | None =>
                   do scopes <- drain_f n sc n src [];
                   match scopes with
                   | [] | [_] => ret scopes
                   | _ =>
                       do keyed <- keyed_f n ks scopes;
                       ret (map snd (sort_by (fun a b => keys_lt (fst a) (fst b)) keyed))
                   end
               end);
   match rows with
   | [] => ret None
   | s :: r => ret (Some (s, ItSort src ks (Some r)))
   end).
Proof. reflexivity. Qed.

Lemma insert_by_forall {A} (Q : A -> Prop) lt x l : Q x -> Forall Q l -> Forall Q (insert_by lt x l).
Proof.
  intros Hx Hl. induction l as [|y r IH]; cbn; [constructor; auto|].
  inversion Hl; subst. destruct (lt x y); constructor; auto.
Qed.
Lemma sort_by_forall {A} (Q : A -> Prop) lt l : Forall Q l -> Forall Q (sort_by lt l).
Proof.
  induction l as [|x r IH]; intro H; [constructor|]. inversion H; subst. cbn.
  apply insert_by_forall; auto.
Qed.

Lemma drain_sound n (HN : PN n) sc ss fs : sim ss sc -> forall k it acc,
  iter_ok ss it fs -> Forall (sim fs) acc -> hoare (drain_f n sc k it acc) (Forall (sim fs)).
Proof.
  intros Sm. induction k as [|k IH]; intros it acc Hit Hacc; [apply hoare_outoffuel|].
  cbn [drain_f].
  eapply hoare_bind; [apply (HN it (fork sc) ss fs (sim_fork ss sc Sm) Hit)|intros r Hr].
  destruct r as [[s it']|].
  - destruct Hr as [Ss Hit']. apply IH; [exact Hit'|constructor; assumption].
  - apply hoare_ret. apply Forall_rev. exact Hacc.
Qed.

Lemma key1_sound n (HE : PE n) e s fs first : sim fs s -> ok_expr e fs -> hoare (key1 n e s first) (fun _ => True).
Proof.
  intros Ss He w. unfold key1. pose proof (HE e s fs Ss He w) as H.
  destruct (eval n e s w) as [o w']. destruct o; try exact I; destruct first; auto.
Qed.

Lemma gk_sound n (HE : PE n) s fs : sim fs s -> forall ks first,
  Forall (fun k => ok_expr (fst k) fs) ks -> hoare (gk_f n s first ks) (fun _ => True).
Proof.
  intros Ss. induction ks as [|[e d] kr IH]; intros first F; [apply hoare_ret; exact I|].
  inversion F; subst. cbn [gk_f].
  eapply hoare_bind; [apply (key1_sound n HE e s fs first Ss); assumption|intros v _].
  eapply hoare_bind; [apply IH; assumption|intros vs _]. apply hoare_ret; exact I.
Qed.

Lemma keyed_sound n (HE : PE n) ks fs : Forall (fun k => ok_expr (fst k) fs) ks -> forall l,
  Forall (sim fs) l -> hoare (keyed_f n ks l) (fun keyed => Forall (fun p => sim fs (snd p)) keyed).
Proof.
  intros Hks. induction l as [|s r IH]; intro F; [apply hoare_ret; constructor|].
  inversion F; subst. cbn [keyed_f].
  eapply hoare_bind; [apply (gk_sound n HE s fs); assumption|intros kv _].
  eapply hoare_bind; [apply IH; assumption|intros rest Hrest]. apply hoare_ret. constructor; assumption.
Qed.

Lemma PN_sort n (HE : PE n) (HN : PN n) src ks st sc ss fs :
  sim ss sc -> iter_ok ss (ItSort src ks st) fs ->
  hoare (next (S n) (ItSort src ks st) sc) (NPost ss fs).
Proof.
  intros Sm H. inversion H as [| | | | |? ? ? ? Hsrc Hks Hst|]; subst. rewrite next_sort_eq.
  eapply hoare_bind with (P := Forall (sim fs)).
  - destruct st as [rows|]; [apply hoare_ret; apply Hst; reflexivity|].
    eapply hoare_bind; [apply (drain_sound n HN sc ss fs Sm n src [] Hsrc); constructor|intros scopes Hs].
    destruct scopes as [|s1 [|s2 r]]; try (apply hoare_ret; exact Hs).
    eapply hoare_bind; [apply (keyed_sound n HE ks fs Hks); exact Hs|intros keyed Hk].
    apply hoare_ret.
    apply (sort_by_forall (fun p => sim fs (snd p)) (fun a b => keys_lt (fst a) (fst b))) in Hk.
    clear -Hk. induction Hk; cbn; constructor; auto.
  - intros rows Hr. destruct rows as [|s r]; [apply hoare_ret; exact I|].
    inversion Hr; subst. apply hoare_ret. split; [assumption|].
    constructor; [exact Hsrc|exact Hks|]. intros rows E. inversion E; subst. assumption.
Qed.


(* ====================================================================== *)
(* COLLECT: the local loops of the collect iterator, named                 *)
Definition aggr_args_f (n : nat) (s : frames) :=
  fix args_ (as_ : list expr) (col : list (list value)) : M (list (list value)) :=
    match as_, col with
    | a :: ar, c :: cr0 => do v <- eval n a s; do rest <- args_ ar cr0; ret ((c ++ [v]) :: rest)
    | _, _ => ret []
    end.
Definition aggr_sels_f (n : nat) (s : frames) :=
  fix sels_ (ss : list (name * name * list expr)) (acc : list (list (list value)))
    : M (list (list (list value))) :=
    match ss, acc with
    | (_, _, args) :: sr, col :: cr =>
        do col' <- aggr_args_f n s args col;
        do rest <- sels_ sr cr;
        ret (col' :: rest)
    | _, _ => ret []
    end.
Definition aggr_rows_f (n : nat) (sc : frames) (sels : list (name * name * list expr)) :=
  fix rows_ (k : nat) (src : iter) (acc : list (list (list value))) (cnt : nat)
    : M (list (list (list value)) * nat) :=
    match k with
    | O => fail OutOfFuel
    | S k' =>
        do r <- next n src (fork sc);
        match r with
        | None => ret (acc, cnt)
        | Some (s, src') =>
            do acc' <- aggr_sels_f n s sels acc;
            rows_ k' src' acc' (S cnt)
        end
    end.
Definition aggr_red_f (nrows : nat) :=
  fix red (ss : list (name * name * list expr)) (cols : list (list (list value))) (cs : frames) : M frames :=
    match ss, cols with
    | (x, f, _) :: sr, col :: cr =>
        let args := match nrows with O => [] | _ => map VArr col end in
        do _ <- check_ctx;
        do v <- call_fn f args;
        do cs' <- set_var x v cs;
        red sr cr cs'
    | _, _ => ret cs
    end.
Definition grp_gk_f (n : nat) (ds : frames) :=
  fix gk (gs : list (name * expr)) (cs : frames) : M (list value * frames) :=
    match gs with
    | [] => ret ([], cs)
    | (x, e) :: gr =>
        do v <- eval n e ds;
        do cs1 <- set_var x v cs;
        do rest <- gk gr cs1;
        ret (v :: fst rest, snd rest)
    end.
Definition grp_ini_f :=
  fix ini (ss : list (name * name * list expr)) (cs : frames) : M frames :=
    match ss with
    | [] => ret cs
    | (x, _, args) :: sr =>
        do cs1 <- set_var x (VArr (map (fun _ => VArr []) args)) cs;
        ini sr cs1
    end.
Definition grp_ev_f (n : nat) (ds : frames) :=
  fix ev (as_ : list expr) : M (list value) :=
    match as_ with
    | [] => ret []
    | a :: ar => do v <- eval n a ds; do vs <- ev ar; ret (v :: vs)
    end.
Definition grp_ag_f (n : nat) (ds : frames) (idx : nat) :=
  fix ag (ss : list (name * name * list expr)) (acc : list (list value * frames)) : M (list (list value * frames)) :=
    match ss with
    | [] => ret acc
    | (x, _, args) :: sr =>
        do vals <- grp_ev_f n ds args;
        ag sr (update_nth idx (fun g => (fst g, frame0_update x
                (fun m => match m with
                          | VArr cols => VArr (map (fun p => arr_push (snd p) (fst p)) (combine cols vals))
                          | o => o
                          end) (snd g))) acc)
    end.
Definition grp_f (n : nat) (sc : frames) (gs : list (name * expr)) (t : ctail) (vv : name) :=
  fix grp (k : nat) (src : iter) (acc : list (list value * frames)) : M (list (list value * frames)) :=
    match k with
    | O => fail OutOfFuel
    | S k' =>
        do r <- next n src (fork sc);
        match r with
        | None => ret acc
        | Some (ds, src') =>
            do kvs <- grp_gk_f n ds gs (fork sc);
            let '(k0, cs) := kvs in
            do accidx <-
              (match find_group k0 acc 0 with
               | Some i => ret (acc, i)
               | None =>
                   do cs' <- (match t with
                              | CTInto x _ => set_var x (VArr []) cs
                              | CTCount x => set_var x (VInt 0) cs
                              | CTAggr sels => grp_ini_f sels cs
                              | CTNone => ret cs
                              end);
                   ret (acc ++ [(k0, cs')], length acc)
               end);
            let '(acc1, idx) := accidx in
            do acc2 <-
              (match t with
               | CTInto x proj =>
                   do v <- (match proj with
                            | Some pe => eval n pe ds
                            | None => do cur <- get_var vv ds; ret (VObj [(vv, cur)])
                            end);
                   ret (update_nth idx (fun g => (fst g, frame0_update x (arr_push v) (snd g))) acc1)
               | CTCount x =>
                   ret (update_nth idx (fun g => (fst g, frame0_update x
                          (fun c => match c with VInt z => VInt (z + 1) | o => o end) (snd g))) acc1)
               | CTAggr sels => grp_ag_f n ds idx sels acc1
               | CTNone => ret acc1
               end);
            grp k' src' acc2
        end
    end.
Definition fin_red_f :=
  fix red (ss : list (name * name * list expr)) (cs : frames) : M frames :=
    match ss with
    | [] => ret cs
    | (x, f, _) :: sr =>
        do m <- get_var x cs;
        do _ <- check_ctx;
        do v <- call_fn f (match m with VArr cols => cols | _ => [] end);
        red sr (frame0_update x (fun _ => v) cs)
    end.
Definition fin_f (sels : list (name * name * list expr)) :=
  fix fin (gl : list (list value * frames)) : M (list frames) :=
    match gl with
    | [] => ret []
    | (_, cs) :: gr =>
        do cs' <- fin_red_f sels cs;
        do rest <- fin gr;
        ret (cs' :: rest)
    end.

Definition collect_rows (n : nat) (sc : frames) (src : iter) (gs : list (name * expr)) (t : ctail) (vv : name)
  : M (list frames) :=
  match gs with
  | [] =>
      match t with
      | CTCount x =>
          do scopes <- drain_f n sc n src [];
          do cs <- set_var x (VInt (Z.of_nat (length scopes))) (fork sc);
          ret [cs]
      | CTAggr sels =>
          do colsn <- aggr_rows_f n sc sels n src (map (fun sel => map (fun _ => []) (snd sel)) sels) O;
          let '(cols, nrows) := colsn in
          do cs <- aggr_red_f nrows sels cols (fork sc);
          ret [cs]
      | _ => fail (Err EOther)
      end
  | _ =>
      do groups <- grp_f n sc gs t vv n src [];
      match t with
      | CTAggr sels => fin_f sels groups
      | _ => ret (map snd groups)
      end
  end.

Lemma next_collect_eq n src gs t vv st sc :
  next (S n) (ItCollect src gs t vv st) sc =
  (do rows <- (match st with
               | Some rows => ret rows
               | None => collect_rows n sc src gs t vv
               end);
   match rows with
   | [] => ret None
   | s :: r => ret (Some (s, ItCollect src gs t vv (Some r)))
   end).
Proof. reflexivity. Qed.

(* ---------- COLLECT: helper lemmas *)
Lemma declare_all_app : forall xs ys ss0,
  declare_all (xs ++ ys) ss0 =
  match declare_all xs ss0 with (COk, s1) => declare_all ys s1 | r => r end.
Proof.
  induction xs as [|x r IH]; intros ys ss0; cbn; [reflexivity|].
  destruct (declare x ss0) as [c s1]. destruct c; try reflexivity. apply IH.
Qed.

Lemma frame_get_update y x v f :
  (frame_get y (frame_update x v f) = None) <-> (frame_get y f = None).
Proof.
  induction f as [|[k o] r IH]; cbn; [tauto|].
  destruct (bytes_eqb k x) eqn:E; cbn; destruct (bytes_eqb k y); try tauto; split; discriminate.
Qed.

Lemma sim_frame0_update fs cs x g : sim fs cs -> sim fs (frame0_update x g cs).
Proof.
  intros (H0 & H1 & H2 & H3). destruct cs as [|fr r]; [contradiction|]. unfold frame0_update.
  split; [exact H0|]. split; [discriminate|].
  destruct (frame_get x fr) as [v|] eqn:G; [|repeat split; auto].
  split.
  - intros y V. specialize (H2 y V). cbn [scope_get] in *.
    destruct (frame_get y (frame_update x (g v) fr)) eqn:E; [discriminate|].
    apply frame_get_update in E. rewrite E in H2. exact H2.
  - intros y F. cbn [hd] in *. apply H3. intro E. apply F. apply frame_get_update. exact E.
Qed.

Lemma update_nth_forall {A} (P : A -> Prop) (f : A -> A) : (forall a, P a -> P (f a)) ->
  forall l i, Forall P l -> Forall P (update_nth i f l).
Proof.
  intros Hf. induction l as [|x r IH]; intros i F; [destruct i; constructor|].
  inversion F; subst. destruct i; cbn; constructor; auto.
Qed.

(* every declared name (other than the ignore variable) is visible afterwards *)
Lemma declare_keeps_visible y x ss0 ss1 : declare x ss0 = (COk, ss1) -> visible y ss0 = true -> visible y ss1 = true.
Proof.
  unfold declare. destruct (bytes_eqb x ign); [intro H; inversion H; auto|].
  destruct ss0 as [|f r]; [intros _ V; discriminate|].
  destruct (in_frame x f); intro H; inversion H; subst. intro V. cbn in *. unfold in_frame in *. cbn.
  destruct (bytes_eqb y x); cbn; auto.
Qed.
Lemma declare_makes_visible x ss0 ss1 : bytes_eqb x ign = false -> declare x ss0 = (COk, ss1) -> visible x ss1 = true.
Proof.
  intros E. unfold declare. rewrite E. destruct ss0 as [|f r].
  - intro H; inversion H; subst. cbn. unfold in_frame; cbn. rewrite bytes_eqb_refl. reflexivity.
  - destruct (in_frame x f); intro H; inversion H; subst. cbn. unfold in_frame; cbn. rewrite bytes_eqb_refl. reflexivity.
Qed.
Lemma declare_all_keeps_visible y : forall xs ss0 ss1, declare_all xs ss0 = (COk, ss1) -> visible y ss0 = true -> visible y ss1 = true.
Proof.
  induction xs as [|x r IH]; intros ss0 ss1 H V; cbn in H; [inversion H; subst; exact V|].
  destruct (declare x ss0) as [c s1] eqn:D. destruct c; try (inversion H; fail).
  eapply IH; [exact H|]. eapply declare_keeps_visible; eauto.
Qed.
Lemma declare_all_makes_visible : forall xs ss0 ss1 x,
  declare_all xs ss0 = (COk, ss1) -> In x xs -> bytes_eqb x ign = false -> visible x ss1 = true.
Proof.
  induction xs as [|y r IH]; intros ss0 ss1 x H I E; [destruct I|]. cbn in H.
  destruct (declare y ss0) as [c s1] eqn:D. destruct c; try (inversion H; fail).
  destruct I as [->|I].
  - eapply declare_all_keeps_visible; [exact H|]. eapply declare_makes_visible; eauto.
  - eapply IH; eauto.
Qed.

(* ---------- COLLECT without grouping *)
Lemma aggr_args_sound n (HE : PE n) s fs0 : sim fs0 s -> forall args col,
  Forall (fun a => ok_expr a fs0) args -> hoare (aggr_args_f n s args col) (fun _ => True).
Proof.
  intros Ss. induction args as [|a ar IH]; intros col F; [destruct col; apply hoare_ret; exact I|].
  inversion F; subst. destruct col as [|c cr]; [apply hoare_ret; exact I|]. cbn [aggr_args_f].
  eapply hoare_bind; [apply (HE a s fs0 Ss); assumption|intros v _].
  eapply hoare_bind; [apply IH; assumption|intros rest _]. apply hoare_ret; exact I.
Qed.

Lemma aggr_sels_sound n (HE : PE n) s fs0 : sim fs0 s -> forall sels acc,
  Forall (fun sl => Forall (fun a => ok_expr a fs0) (snd sl)) sels -> length acc = length sels ->
  hoare (aggr_sels_f n s sels acc) (fun acc' => length acc' = length sels).
Proof.
  intros Ss. induction sels as [|[[x f] args] sr IH]; intros acc F L.
  - destruct acc; apply hoare_ret; reflexivity.
  - destruct acc as [|col cr]; [discriminate|]. inversion F; subst. cbn [aggr_sels_f].
    eapply hoare_bind; [apply (aggr_args_sound n HE s fs0 Ss); assumption|intros col' _].
    eapply hoare_bind; [apply IH; [assumption|cbn in L; congruence]|intros rest Hr].
    apply hoare_ret. cbn. congruence.
Qed.

Lemma aggr_rows_sound n (HE : PE n) (HN : PN n) sc ss fs0 sels :
  sim ss sc -> Forall (fun sl => Forall (fun a => ok_expr a fs0) (snd sl)) sels ->
  forall k src acc cnt, iter_ok ss src fs0 -> length acc = length sels ->
  hoare (aggr_rows_f n sc sels k src acc cnt) (fun r => length (fst r) = length sels).
Proof.
  intros Sm F. induction k as [|k IH]; intros src acc cnt Hsrc L; [apply hoare_outoffuel|].
  cbn [aggr_rows_f].
  eapply hoare_bind; [apply (HN src (fork sc) ss fs0 (sim_fork ss sc Sm) Hsrc)|intros r Hr].
  destruct r as [[s src']|]; [|apply hoare_ret; exact L]. destruct Hr as [Ss Hsrc'].
  eapply hoare_bind; [apply (aggr_sels_sound n HE s fs0 Ss); assumption|intros acc' L'].
  apply IH; assumption.
Qed.

Lemma aggr_red_sound nrows : forall sels cols cs ss1 fs,
  sim ss1 cs -> length cols = length sels ->
  declare_all (map (fun s => fst (fst s)) sels) ss1 = (COk, fs) ->
  hoare (aggr_red_f nrows sels cols cs) (fun cs' => sim fs cs').
Proof.
  induction sels as [|[[x f] args] sr IH]; intros cols cs ss1 fs Sm L D.
  - cbn in D. inversion D; subst. destruct cols; apply hoare_ret; exact Sm.
  - destruct cols as [|col cr]; [discriminate|]. cbn [aggr_red_f map fst] in *. cbn [declare_all] in D.
    destruct (declare x ss1) as [c s1] eqn:Dx. destruct c; try (inversion D; fail).
    eapply hoare_bind; [apply hoare_check_ctx|intros _ _].
    eapply hoare_bind; [apply hoare_call_fn|intros v _].
    eapply hoare_bind; [apply (sim_declare x v ss1 s1 cs Sm Dx)|intros cs' S'].
    eapply IH; [exact S'|cbn in L; congruence|exact D].
Qed.

(* ---------- COLLECT with grouping *)
Lemma grp_gk_sound n (HE : PE n) ds fs0 : sim fs0 ds -> forall gs0 cs ss1 ss2,
  sim ss1 cs -> Forall (fun g => ok_expr (snd g) fs0) gs0 ->
  declare_all (map fst gs0) ss1 = (COk, ss2) ->
  hoare (grp_gk_f n ds gs0 cs) (fun r => sim ss2 (snd r)).
Proof.
  intros Sd. induction gs0 as [|[x e] gr IH]; intros cs ss1 ss2 Sc F D.
  - cbn in D. inversion D; subst. apply hoare_ret. exact Sc.
  - inversion F; subst. cbn [grp_gk_f map fst declare_all] in *.
    destruct (declare x ss1) as [c s1] eqn:Dx. destruct c; try (inversion D; fail).
    eapply hoare_bind; [apply (HE e ds fs0 Sd); assumption|intros v _].
    eapply hoare_bind; [apply (sim_declare x v ss1 s1 cs Sc Dx)|intros cs1 S1].
    eapply hoare_bind; [apply (IH cs1 s1 ss2 S1); assumption|intros rest Hr].
    apply hoare_ret. exact Hr.
Qed.

Lemma grp_ini_sound : forall sels cs ss1 ss2,
  sim ss1 cs -> declare_all (map (fun s => fst (fst s)) sels) ss1 = (COk, ss2) ->
  hoare (grp_ini_f sels cs) (fun cs' => sim ss2 cs').
Proof.
  induction sels as [|[[x f] args] sr IH]; intros cs ss1 ss2 Sc D.
  - cbn in D. inversion D; subst. apply hoare_ret; exact Sc.
  - cbn [grp_ini_f map fst declare_all] in *.
    destruct (declare x ss1) as [c s1] eqn:Dx. destruct c; try (inversion D; fail).
    eapply hoare_bind; [apply (sim_declare x _ ss1 s1 cs Sc Dx)|intros cs1 S1].
    eapply IH; eauto.
Qed.

Lemma grp_ev_sound n (HE : PE n) ds fs0 : sim fs0 ds -> forall args,
  Forall (fun a => ok_expr a fs0) args -> hoare (grp_ev_f n ds args) (fun _ => True).
Proof.
  intros Sd. induction args as [|a ar IH]; intro F; [apply hoare_ret; exact I|].
  inversion F; subst. cbn [grp_ev_f].
  eapply hoare_bind; [apply (HE a ds fs0 Sd); assumption|intros v _].
  eapply hoare_bind; [apply IH; assumption|intros vs _]. apply hoare_ret; exact I.
Qed.

Definition groups_ok (fs : sframes) (acc : list (list value * frames)) : Prop :=
  Forall (fun g => sim fs (snd g)) acc.

Lemma groups_update fs acc idx x g :
  groups_ok fs acc -> groups_ok fs (update_nth idx (fun gr => (fst gr, frame0_update x g (snd gr))) acc).
Proof.
  intro H. apply update_nth_forall; [|exact H]. intros [k cs] Hc. cbn in *. apply sim_frame0_update. exact Hc.
Qed.

Lemma grp_ag_sound n (HE : PE n) ds fs0 fs idx : sim fs0 ds -> forall sels acc,
  Forall (fun sl => Forall (fun a => ok_expr a fs0) (snd sl)) sels -> groups_ok fs acc ->
  hoare (grp_ag_f n ds idx sels acc) (groups_ok fs).
Proof.
  intros Sd. induction sels as [|[[x f] args] sr IH]; intros acc F G; [apply hoare_ret; exact G|].
  inversion F; subst. cbn [grp_ag_f].
  eapply hoare_bind; [apply (grp_ev_sound n HE ds fs0 Sd); assumption|intros vals _].
  apply IH; [assumption|]. apply groups_update. exact G.
Qed.

Lemma grp_sound n (HE : PE n) (HN : PN n) sc ss fs0 fsm fs gs t vv :
  sim ss sc ->
  Forall (fun g => ok_expr (snd g) fs0) gs -> tail_ok t vv fs0 ->
  declare_all (map fst gs) (sfork ss) = (COk, fsm) ->
  declare_all (match t with
               | CTInto x _ => [x]
               | CTCount x => [x]
               | CTAggr sels => map (fun s => fst (fst s)) sels
               | CTNone => []
               end) fsm = (COk, fs) ->
  forall k src acc, iter_ok ss src fs0 -> groups_ok fs acc ->
  hoare (grp_f n sc gs t vv k src acc) (groups_ok fs).
Proof.
  intros Sm Hg Ht D1 D2. induction k as [|k IH]; intros src acc Hsrc G; [apply hoare_outoffuel|].
  cbn [grp_f].
  eapply hoare_bind; [apply (HN src (fork sc) ss fs0 (sim_fork ss sc Sm) Hsrc)|intros r Hr].
  destruct r as [[ds src']|]; [|apply hoare_ret; exact G]. destruct Hr as [Sd Hsrc'].
  eapply hoare_bind; [apply (grp_gk_sound n HE ds fs0 Sd gs (fork sc) (sfork ss) fsm (sim_sfork ss sc Sm) Hg D1)|].
  intros [k0 cs] Scs. cbn [snd] in Scs.
  eapply hoare_bind with (P := fun ai => groups_ok fs (fst ai)).
  - destruct (find_group k0 acc 0); [apply hoare_ret; exact G|].
    eapply hoare_bind with (P := fun cs' => sim fs cs').
    + destruct t as [|x p|x|sels]; cbn [declare_all] in D2.
      * inversion D2; subst. apply hoare_ret; exact Scs.
      * destruct (declare x fsm) as [c s1] eqn:Dx. destruct c; try (inversion D2; fail). inversion D2; subst.
        apply (sim_declare x _ fsm fs cs Scs Dx).
      * destruct (declare x fsm) as [c s1] eqn:Dx. destruct c; try (inversion D2; fail). inversion D2; subst.
        apply (sim_declare x _ fsm fs cs Scs Dx).
      * apply (grp_ini_sound sels cs fsm fs Scs D2).
    + intros cs' S'. apply hoare_ret. cbn [fst]. unfold groups_ok. apply Forall_app. split; [exact G|constructor; [exact S'|constructor]].
  - intros [acc1 idx] G1. cbn [fst] in G1.
    eapply hoare_bind with (P := groups_ok fs); [|intros acc2 G2; apply IH; assumption].
    destruct t as [|x p|x|sels]; unfold tail_ok in Ht.
    + apply hoare_ret; exact G1.
    + eapply hoare_bind with (P := fun _ => True).
      * destruct p as [pe|]; [apply (HE pe ds fs0 Sd Ht)|].
        eapply hoare_bind; [apply (sim_get_var vv fs0 ds Sd Ht)|intros cur _]. apply hoare_ret; exact I.
      * intros v _. apply hoare_ret. apply groups_update. exact G1.
    + apply hoare_ret. apply groups_update. exact G1.
    + apply (grp_ag_sound n HE ds fs0 fs idx Sd sels acc1 Ht G1).
Qed.

Lemma fin_red_sound fs : forall sels0 cs,
  sim fs cs -> Forall (fun sl => visible (fst (fst sl)) fs = true) sels0 ->
  hoare (fin_red_f sels0 cs) (fun cs' => sim fs cs').
Proof.
  induction sels0 as [|[[x f] args] sr IH]; intros cs Sc V; [apply hoare_ret; exact Sc|].
  inversion V; subst. cbn [fin_red_f].
  eapply hoare_bind; [apply (sim_get_var x fs cs Sc); assumption|intros m _].
  eapply hoare_bind; [apply hoare_check_ctx|intros _ _].
  eapply hoare_bind; [apply hoare_call_fn|intros v _].
  apply IH; [apply sim_frame0_update; exact Sc|assumption].
Qed.

Lemma fin_sound fs sels : Forall (fun sl => visible (fst (fst sl)) fs = true) sels ->
  forall gl, groups_ok fs gl -> hoare (fin_f sels gl) (Forall (sim fs)).
Proof.
  intros V. induction gl as [|[k cs] gr IH]; intro G; [apply hoare_ret; constructor|].
  inversion G; subst. cbn [fin_f].
  eapply hoare_bind; [apply (fin_red_sound fs sels cs); assumption|intros cs' S'].
  eapply hoare_bind; [apply IH; assumption|intros rest Hr]. apply hoare_ret. constructor; assumption.
Qed.

Lemma existsb_false_forall {A} (p : A -> bool) l : existsb p l = false -> Forall (fun x => p x = false) l.
Proof.
  induction l as [|x r IH]; cbn; intro H; [constructor|].
  apply Bool.orb_false_elim in H as [H1 H2]. constructor; auto.
Qed.

Lemma PN_collect n (HE : PE n) (HN : PN n) src gs t vv st sc ss fs :
  sim ss sc -> iter_ok ss (ItCollect src gs t vv st) fs ->
  hoare (next (S n) (ItCollect src gs t vv st) sc) (NPost ss fs).
Proof.
  intros Sm H. inversion H as [| | | | | |? ? ? ? ? fs0 ? Eco Hsrc Hg Ht Hign D Hst]; subst.
  rewrite next_collect_eq.
  eapply hoare_bind with (P := Forall (sim fs)).
  - destruct st as [rows|]; [apply hoare_ret; apply Hst; reflexivity|].
    unfold collect_rows. unfold collect_vars in D, Hign.
    destruct gs as [|g0 gr].
    + (* no grouping *)
      cbn [map app] in D. destruct t as [|x p|x|sels];
        try (apply hoare_fail; [intros a E; discriminate|reflexivity]).
      * (* WITH COUNT INTO x *)
        cbn [declare_all] in D. destruct (declare x (sfork ss)) as [c s1] eqn:Dx.
        destruct c; try (inversion D; fail). inversion D; subst.
        eapply hoare_bind; [apply hoare_any with (Q := Forall (sim fs0));
                            apply (drain_sound n HN sc ss fs0 Sm n src [] Hsrc); constructor|intros scopes _].
        eapply hoare_bind; [apply (sim_declare x _ (sfork ss) fs (fork sc) (sim_sfork ss sc Sm) Dx)|intros cs Sc].
        apply hoare_ret. constructor; [exact Sc|constructor].
      * (* AGGREGATE *)
        unfold tail_ok in Ht.
        eapply hoare_bind; [apply (aggr_rows_sound n HE HN sc ss fs0 sels Sm Ht n src _ O Hsrc); rewrite map_length; reflexivity|].
        intros [cols nrows] L. cbn [fst] in L.
        eapply hoare_bind; [apply (aggr_red_sound nrows sels cols (fork sc) (sfork ss) fs (sim_sfork ss sc Sm) L D)|intros cs Sc].
        apply hoare_ret. constructor; [exact Sc|constructor].
    + (* grouping *)
      rewrite declare_all_app in D.
      destruct (declare_all (map fst (g0 :: gr)) (sfork ss)) as [c fsm] eqn:D1.
      destruct c; try (inversion D; fail).
      eapply hoare_bind; [apply (grp_sound n HE HN sc ss fs0 fsm fs (g0 :: gr) t vv Sm Hg Ht D1 D n src [] Hsrc); constructor|].
      intros groups G.
      assert (Fin : forall sels, t = CTAggr sels -> hoare (fin_f sels groups) (Forall (sim fs))).
      { intros sels ->. apply fin_sound; [|exact G].
        apply existsb_false_forall in Hign. apply Forall_app in Hign as [_ Hs].
        clear -Hs D. revert D. generalize fsm. 
        assert (K : forall sl, In sl sels -> bytes_eqb (fst (fst sl)) ign = false).
        { intros sl I. rewrite Forall_forall in Hs. apply Hs. apply in_map_iff. exists sl. auto. }
        intros fsm0 D. apply Forall_forall. intros sl I.
        eapply declare_all_makes_visible; [exact D| |apply K; exact I]. apply in_map_iff. exists sl. auto. }
      destruct t as [|x p|x|sels]; try (apply hoare_ret; unfold groups_ok in G; clear -G; induction G; cbn; constructor; auto).
      apply Fin. reflexivity.
  - intros rows Hr. destruct rows as [|s r]; [apply hoare_ret; exact I|].
    inversion Hr; subst. apply hoare_ret. split; [assumption|].
    econstructor; eauto. intros rows E. inversion E; subst. assumption.
Qed.

(* ---------- all iterators of the COLLECT-free fragment *)
Lemma PN_step n : PE n -> PN n -> PN (S n).
Proof.
  intros HE HN it sc ss fs Sm H. destruct it.
  - apply PN_indexed; assumption.
  - apply PN_while; assumption.
  - apply PN_tap; assumption.
  - apply PN_filter; assumption.
  - apply PN_limit; assumption.
  - apply PN_sort; assumption.
  - apply PN_collect; assumption.
Qed.

Lemma P0 : PE 0 /\ PF 0 /\ PI 0 /\ PN 0.
Proof.
  repeat split; intros until 0; intros; apply hoare_outoffuel.
Qed.

Theorem sound_all : forall n, PE n /\ PF n /\ PI n /\ PN n.
Proof.
  induction n as [|n (HE & HF & HI & HN)]; [exact P0|].
  pose proof (PE_step n HE HF) as HE'.
  pose proof (PF_step n HE HF HI HN) as HF'.
  pose proof (PI_step n HE HI) as HI'.
  pose proof (PN_step n HE HN) as HN'.
  auto.
Qed.

(* ---------- whole programs *)
Lemma sim_root : sim [[]] [[]].
Proof.
  split; [discriminate|]. split; [discriminate|]. split.
  - intros x V. cbn in V. discriminate.
  - intros x F. cbn in F. contradiction.
Qed.

Definition chk_stmts_top cf (retk : sframes -> cres) :=
  fix stmts (ss : list stmt) (sc : sframes) : cres :=
    match ss with
    | [] => retk sc
    | SLet x e :: r =>
        seq (chkE cf e sc) (fun _ => match declare x sc with (COk, sc') => stmts r sc' | (err, _) => err end)
    | SCall e :: r => seq (chkE cf e sc) (fun _ => stmts r sc)
    end.
Definition run_stmts fuel :=
  fix go (ss : list stmt) (sc : frames) : M frames :=
    match ss with
    | [] => ret sc
    | SLet x e :: r => do v <- eval fuel e sc; do sc' <- set_var x v sc; go r sc'
    | SCall e :: r => do _ <- eval fuel e sc; go r sc
    end.

Lemma run_stmts_sound fuel (HE : PE fuel) cf retk : forall st ss sc, sim ss sc ->
  chk_stmts_top cf retk st ss = COk ->
  hoare (run_stmts fuel st sc) (fun sc' => exists ss', sim ss' sc' /\ retk ss' = COk).
Proof.
  induction st as [|s r IH]; intros ss sc Sm C; cbn [chk_stmts_top run_stmts] in *.
  - apply hoare_ret. exists ss. split; assumption.
  - destruct s as [x e|e]; apply seq_ok in C as [C1 C2].
    + destruct (declare x ss) as [c0 ss'] eqn:D. destruct c0; try discriminate.
      eapply hoare_bind; [apply (HE e sc ss Sm); exists cf; exact C1|intros v _].
      eapply hoare_bind; [apply (sim_declare x v ss ss' sc Sm D)|intros sc' S']. apply (IH ss' sc' S' C2).
    + eapply hoare_bind; [apply (HE e sc ss Sm); exists cf; exact C1|intros v _]. apply (IH ss sc Sm C2).
Qed.

Lemma run_body_eq fuel p :
  run_body fuel p =
  (do _ <- check_ctx;
   do sc <- run_stmts fuel (p_stmts p) [[]];
   match p_ret p with
   | BReturn e => do _ <- check_ctx; eval fuel e sc
   | BFor q => eval_for fuel q sc
   end).
Proof. reflexivity. Qed.
Lemma chk_program_eq cf p :
  chk_program true co cf p =
  chk_stmts_top cf (fun sc => match p_ret p with
                              | BReturn e => chkE cf e sc
                              | BFor q => chkF cf q sc
                              end) (p_stmts p) [[]].
Proof. reflexivity. Qed.

(* a program the specified checker accepts never fails at run time with a scope
   error: for every fuel and every world, i.e. every parameter set,
   cancellation point and injected failure *)
Theorem check_sound_co : forall p cf, chk_program true co cf p = COk ->
  forall fuel w, scope_err (fst (run_body fuel p w)) = false.
Proof.
  intros p cf C fuel w.
  destruct (sound_all fuel) as (HE & HF & _ & _).
  assert (G : hoare (run_body fuel p) (fun _ => True)).
  { rewrite run_body_eq. rewrite chk_program_eq in C.
    eapply hoare_bind; [apply hoare_check_ctx|intros _ _].
    eapply hoare_bind; [apply (run_stmts_sound fuel HE cf _ (p_stmts p) [[]] [[]] sim_root C)|].
    intros sc (ss' & S' & CR). destruct (p_ret p).
    - eapply hoare_bind; [apply hoare_check_ctx|intros _ _]. apply (HE e sc ss' S'). exists cf; exact CR.
    - apply (HF q sc ss' S'). exists cf; exact CR. }
  specialize (G w). destruct (run_body fuel p w) as [o w']. destruct o; cbn in *; auto.
Qed.

End Co.

(* the full checker (COLLECT in all six forms included) *)
Theorem check_sound_full : forall p cf, chk_program true true cf p = COk ->
  forall fuel w, scope_err (fst (run_body fuel p w)) = false.
Proof. exact (check_sound_co true). Qed.

Theorem check_sound_nocollect : forall p cf, chk_program true false cf p = COk ->
  forall fuel w, scope_err (fst (run_body fuel p w)) = false.
Proof. exact (check_sound_co false). Qed.
