(* Proofs/PipelineLaws.v — C04, the relational laws of the FOR pipeline, for the
   evaluator's OWN iterators: the theorems below speak about the [next] /
   [iterate] / [eval_for] of Eval.v (the functions the correspondence check runs
   against the Go code), not about the pure state machines of Iter.v.

   Formulation.  A clause pulls its source with a scope derived from the one it
   was given itself (ItFilter, ItSort, COLLECT and the skipping phase of ItLimit
   fork it; ItTap, the taking phase of ItLimit and eval_for pass it on), and the
   rows are scope chains built on top of that scope.  So a row is a function of
   the scope of the pull ([rowf]), and

     yields n w P it fs  :=  pulled with fuel n, in world w, each time with ANY
                             scope s of the set P, [next] returns the rows
                             f1 s, f2 s, ... of fs, then None, and never
                             changes the world.

   For a singleton P this is exactly "the evaluator's drain loop returns the
   rows and ends in the world it started from" ([yields_at], [yields_at_iff]).

   Laws (fuel: the hypotheses hold at fuel n; the conclusion at every fuel
   M >= n + (number of source rows) + 2, see each statement):
     filter_law        FILTER e      = List.filter on the rows
     limit_law         LIMIT o, c    = firstn c (skipn o rows)
     limit_law_prefix  ... and only the first o + c rows of the source are pulled
     sort_law          SORT keys     = the evaluator's stable multi-key sort;
     sorted_by_keys_laws  it is a permutation, has no inversion, is stable
     return_law        RETURN [DISTINCT] e = map / first occurrences
     collect_into_law  COLLECT k = e INTO g = pe  = Iter.v's collect_groups
     filter_limit_return_law, sort_return_law, collect_return_law
                       whole queries through iterate and eval_for
     limit_offset_single_scope_refuted          why LIMIT needs P with two scopes *)
From Ferret Require Import Eval Iter Proofs.FuelMono Proofs.WorldInv Proofs.IterProofs Proofs.CompareProofs.
From Coq Require Import Lia Permutation.

Local Notation iter := Eval.iter.

(* ---------------------------------------------------------------- monad facts *)
Lemma bind_ok {A B} (m : M A) (k : A -> M B) w a w' :
  m w = (Ok a, w') -> bind m k w = k a w'.
Proof. intro H. unfold bind. rewrite H. reflexivity. Qed.

Lemma bind_ret {A B} (a : A) (k : A -> M B) w : bind (ret a) k w = k a w.
Proof. reflexivity. Qed.

Lemma next_mono_ok (n m : nat) it s w r w' : (n <= m)%nat ->
  next n it s w = (Ok r, w') -> next m it s w = (Ok r, w').
Proof.
  intros L H. rewrite (next_fuel_mono true n m it s w L); [exact H|].
  unfold finished. rewrite H. discriminate.
Qed.
Lemma eval_mono_ok (n m : nat) e s w r w' : (n <= m)%nat ->
  eval n e s w = (Ok r, w') -> eval m e s w = (Ok r, w').
Proof.
  intros L H. rewrite (eval_fuel_mono true n m e s w L); [exact H|].
  unfold finished. rewrite H. discriminate.
Qed.
Lemma iterate_mono_ok (n m : nat) d s w r w' : (n <= m)%nat ->
  iterate n d s w = (Ok r, w') -> iterate m d s w = (Ok r, w').
Proof.
  intros L H. rewrite (iterate_fuel_mono true n m d s w L); [exact H|].
  unfold finished. rewrite H. discriminate.
Qed.

(* equation lemmas, one per iterator state *)
Lemma next_indexed n x kv vals pos s :
  next (S n) (ItIndexed x kv vals pos) s =
  match vals with
  | [] => ret None
  | v :: rest =>
      do s1 <- set_var x v (fork s);
      do s2 <- (match kv with Some k => set_var k (VInt pos) s1 | None => ret s1 end);
      ret (Some (s2, ItIndexed x kv rest (pos + 1)))
  end.
Proof. reflexivity. Qed.
Lemma next_filter n src e s : next (S n) (ItFilter src e) s = filter_f true n s e n src.
Proof. reflexivity. Qed.
Lemma next_limit n src cnt off cur s :
  next (S n) (ItLimit src cnt off cur) s =
  (do st <- skip_f true n s off n src cur;
   match st with
   | None => ret None
   | Some (src1, cur1) =>
       let cur2 := cur1 + 1 in
       if cur2 - off <=? cnt then
         do r <- next n src1 s;
         match r with
         | None => ret None
         | Some (s', src2) => ret (Some (s', ItLimit src2 cnt off cur2))
         end
       else ret None
   end).
Proof. reflexivity. Qed.
Lemma next_sort n src ks st s :
  next (S n) (ItSort src ks st) s =
  (do rows <- (match st with
               | Some rows => ret rows
               | None => sort_rows_f true n s src ks
               end);
   match rows with
   | [] => ret None
   | r :: rest => ret (Some (r, ItSort src ks (Some rest)))
   end).
Proof. reflexivity. Qed.

(* ---------------------------------------------------------------- yields *)
(* A row is a function of the scope the iterator was pulled with: the clauses
   of the pipeline pull their source with different scopes (ItFilter, ItSort and
   the skipping phase of ItLimit fork the scope they were given, ItTap, the
   taking phase of ItLimit and eval_for's own loop pass it on unchanged). *)
Definition rowf := frames -> frames.
Definition scopes := frames -> Prop.
Definition forked (P : scopes) : scopes := fun s => exists s0, P s0 /\ s = fork s0.
Definition const_row (r : frames) : rowf := fun _ => r.

Section Yields.
Variables (n : nat) (w : world) (P : scopes).

(* the iterator is exhausted, whichever scope of P it is pulled with *)
Definition ended (it : iter) : Prop :=
  forall s, P s -> next n it s w = (Ok None, w).

(* [pulls it fs it']: pulled [length fs] times, each time with any scope s of
   P, the evaluator's own [next] returns the rows [f s], leaves the world as
   it was, and takes the iterator from state [it] to state [it'] *)
Inductive pulls : iter -> list rowf -> iter -> Prop :=
| pulls_nil it : pulls it [] it
| pulls_cons it f it1 fs it2 :
    (forall s, P s -> next n it s w = (Ok (Some (f s, it1)), w)) ->
    pulls it1 fs it2 -> pulls it (f :: fs) it2.

(* it produces exactly the rows fs, and then ends, without touching the world *)
Definition yields (it : iter) (fs : list rowf) : Prop :=
  exists it', pulls it fs it' /\ ended it'.
End Yields.

Lemma pulls_mono (n m : nat) w P it fs it' : (n <= m)%nat ->
  pulls n w P it fs it' -> pulls m w P it fs it'.
Proof.
  intros L H. induction H as [it|it f it1 fs it2 H1 H2 IH]; [constructor|].
  econstructor; [|exact IH]. intros s Hs. apply (next_mono_ok n m); [exact L|]. apply H1, Hs.
Qed.
Lemma ended_mono (n m : nat) w P it : (n <= m)%nat -> ended n w P it -> ended m w P it.
Proof. intros L H s Hs. apply (next_mono_ok n m); [exact L|]. apply H, Hs. Qed.
Lemma yields_mono (n m : nat) w P it fs : (n <= m)%nat -> yields n w P it fs -> yields m w P it fs.
Proof.
  intros L [it' [H1 H2]]. exists it'. split; [eapply pulls_mono|eapply ended_mono]; eassumption.
Qed.

Lemma pulls_weaken n w (P Q : scopes) it fs it' : (forall s, Q s -> P s) ->
  pulls n w P it fs it' -> pulls n w Q it fs it'.
Proof.
  intros I H. induction H as [it|it f it1 fs it2 H1 H2 IH]; [constructor|].
  econstructor; [|exact IH]. intros s Hs. apply H1, I, Hs.
Qed.
Lemma ended_weaken n w (P Q : scopes) it : (forall s, Q s -> P s) -> ended n w P it -> ended n w Q it.
Proof. intros I H s Hs. apply H, I, Hs. Qed.
Lemma yields_weaken n w (P Q : scopes) it fs : (forall s, Q s -> P s) ->
  yields n w P it fs -> yields n w Q it fs.
Proof.
  intros I [it' [H1 H2]]. exists it'. split; [eapply pulls_weaken|eapply ended_weaken]; eassumption.
Qed.

Lemma pulls_app n w P it fs1 it1 fs2 it2 :
  pulls n w P it fs1 it1 -> pulls n w P it1 fs2 it2 -> pulls n w P it (fs1 ++ fs2) it2.
Proof.
  intros H1 H2. induction H1 as [it|it f ita fs itb Ha Hb IH]; [exact H2|].
  cbn [app]. econstructor; [exact Ha|]. apply IH, H2.
Qed.
Lemma pulls_app_inv n w P fs1 : forall it fs2 it2,
  pulls n w P it (fs1 ++ fs2) it2 ->
  exists it1, pulls n w P it fs1 it1 /\ pulls n w P it1 fs2 it2.
Proof.
  induction fs1 as [|f r IH]; intros it fs2 it2 H.
  - exists it. split; [constructor|exact H].
  - cbn [app] in H. inversion H as [|? ? ita ? ? Ha Hb]; subst.
    destruct (IH ita fs2 it2 Hb) as [it1 [H1 H2]].
    exists it1. split; [econstructor; eassumption|exact H2].
Qed.

Lemma pulls_nil_inv n w P it it' : pulls n w P it [] it' -> it' = it.
Proof. intro H. inversion H. reflexivity. Qed.
Lemma pulls_cons_inv n w P it f fs it' : pulls n w P it (f :: fs) it' ->
  exists it1, (forall s, P s -> next n it s w = (Ok (Some (f s, it1)), w)) /\ pulls n w P it1 fs it'.
Proof. intro H. inversion H as [|? ? it1 ? ? Ha Hb]; subst. exists it1. split; assumption. Qed.

(* only the behaviour of the first state under [next] matters *)
Lemma yields_same_first n w (P : scopes) it it0 fs :
  (forall s, P s -> next n it s w = next n it0 s w) ->
  yields n w P it0 fs -> yields n w P it fs.
Proof.
  intros E [it' [H1 H2]]. inversion H1 as [|? f ita fs' ? Ha Hb]; subst.
  - exists it. split; [constructor|]. intros s Hs. rewrite E by exact Hs. apply H2, Hs.
  - exists it'. split; [|exact H2]. econstructor; [|exact Hb].
    intros s Hs. rewrite E by exact Hs. apply Ha, Hs.
Qed.

(* ---------------------------------------------------------------- the array source *)
(* the row ItIndexed builds for element v: the value variable bound in a fresh
   frame on top of the scope it was pulled with *)
Definition bound (x : name) (v : value) : rowf :=
  fun s => if bytes_eqb x ignore_name then [] :: s else [(x, v)] :: s.

Lemma set_var_fork x v s w : closer_id v = None ->
  set_var x v (fork s) w = (Ok (bound x v s), w).
Proof.
  intro H. unfold set_var, fork, bound, bind, ret. cbn [frame_get].
  destruct (bytes_eqb x ignore_name); rewrite H; reflexivity.
Qed.

Lemma indexed_yields x : forall vs pos (n : nat) w P, (1 <= n)%nat ->
  Forall (fun v => closer_id v = None) vs ->
  yields n w P (ItIndexed x None vs pos) (map (bound x) vs).
Proof.
  induction vs as [|v r IH]; intros pos n w P L F.
  - exists (ItIndexed x None [] pos). split; [constructor|].
    intros s _. destruct n as [|n]; [lia|]. rewrite next_indexed. reflexivity.
  - inversion F as [|? ? Fv Fr]; subst.
    destruct (IH (pos + 1) n w P L Fr) as [it' [H1 H2]].
    exists it'. split; [|exact H2]. cbn [map]. econstructor; [|exact H1].
    intros s _. destruct n as [|n]; [lia|]. rewrite next_indexed.
    rewrite (bind_ok _ _ _ _ _ (set_var_fork x v s w Fv)). reflexivity.
Qed.

(* ---------------------------------------------------------------- FILTER *)
(* the test ItFilter applies to the value of the filter expression: the row is
   kept only when it is the boolean true (no truthiness coercion) *)
Definition vtrue (v : value) : bool := match v with VBool true => true | _ => false end.

Lemma filter_f_S n sc e k src :
  filter_f true n sc e (S k) src =
  (do r <- next n src (fork sc);
   match r with
   | None => ret None
   | Some (s, src') =>
       do v <- eval n e s;
       match v with
       | VBool true => ret (Some (s, ItFilter src' e))
       | _ => filter_f true n sc e k src'
       end
   end).
Proof. reflexivity. Qed.

Lemma filter_f_step m sc e k src w s src' v :
  next m src (fork sc) w = (Ok (Some (s, src')), w) -> eval m e s w = (Ok v, w) ->
  filter_f true m sc e (S k) src w =
  if vtrue v then (Ok (Some (s, ItFilter src' e)), w) else filter_f true m sc e k src' w.
Proof.
  intros H1 H2. rewrite filter_f_S. rewrite (bind_ok _ _ _ _ _ H1). cbv beta iota.
  rewrite (bind_ok _ _ _ _ _ H2).
  destruct v as [| bb | | | | | | |]; try reflexivity. destruct bb; reflexivity.
Qed.

Section Filter.
Variables (A : Type) (g : A -> rowf) (b : A -> bool) (e : expr).
Variables (n m : nat) (w : world) (P : scopes).
Hypothesis Hnm : (n <= m)%nat.

(* the filter expression evaluates, without touching the world, on the row of
   every a (pulled through any scope of P); b a tells whether ItFilter keeps it *)
Definition filter_pure (l : list A) : Prop :=
  forall a, In a l -> forall s, P s ->
  exists v, eval n e (g a (fork s)) w = (Ok v, w) /\ vtrue v = b a.

(* the row ItFilter hands on: the source's row, pulled with the forked scope *)
Definition frow (a : A) : rowf := fun s => g a (fork s).

Definition loop_yields (K : nat) (src : iter) (fs : list rowf) : Prop :=
  match fs with
  | [] => forall (k : nat) s, (K <= k)%nat -> P s -> filter_f true m s e k src w = (Ok None, w)
  | f :: fs' =>
      exists src1,
      (forall (k : nat) s, (K <= k)%nat -> P s ->
         filter_f true m s e k src w = (Ok (Some (f s, ItFilter src1 e)), w))
      /\ yields (S m) w P (ItFilter src1 e) fs'
  end.

Lemma loop_yields_yields K src fs : (K <= m)%nat ->
  loop_yields K src fs -> yields (S m) w P (ItFilter src e) fs.
Proof.
  intros L H. destruct fs as [|f fs']; cbn [loop_yields] in H.
  - exists (ItFilter src e). split; [constructor|].
    intros s Hs. rewrite next_filter. apply H; [exact L|exact Hs].
  - destruct H as [src1 [H1 [it' [H2 H3]]]]. exists it'. split; [|exact H3].
    econstructor; [|exact H2]. intros s Hs. rewrite next_filter. apply H1; [exact L|exact Hs].
Qed.

Lemma loop_yields_reject K src src1 fs :
  (forall (k : nat) s, P s -> filter_f true m s e (S k) src w = filter_f true m s e k src1 w) ->
  loop_yields K src1 fs -> loop_yields (S K) src fs.
Proof.
  intros E H. destruct fs as [|f fs']; cbn [loop_yields] in *.
  - intros k s L Hs. destruct k as [|k]; [lia|]. rewrite E by exact Hs. apply H; [lia|exact Hs].
  - destruct H as [src2 [H1 H2]]. exists src2. split; [|exact H2].
    intros k s L Hs. destruct k as [|k]; [lia|]. rewrite E by exact Hs. apply H1; [lia|exact Hs].
Qed.

Lemma filter_loop src' : ended n w (forked P) src' ->
  forall l src, pulls n w (forked P) src (map g l) src' -> filter_pure l ->
  (List.length l < m)%nat ->
  loop_yields (S (List.length l)) src (map frow (filter b l)).
Proof.
  intros He. induction l as [|a l IH]; intros src Hp Hpure Hm.
  - inversion Hp; subst. cbn [filter map loop_yields List.length].
    intros k s L Hs. destruct k as [|k]; [lia|]. rewrite filter_f_S.
    assert (Hf : forked P (fork s)) by (exists s; split; [exact Hs|reflexivity]).
    rewrite (bind_ok _ _ _ _ _ (next_mono_ok n m _ _ _ _ _ Hnm (He _ Hf))). reflexivity.
  - cbn [map] in Hp. inversion Hp as [|? ? src1 ? ? Ha Hb]; subst.
    cbn [List.length] in Hm.
    assert (Hpure' : filter_pure l) by (intros x Hx; apply Hpure; right; exact Hx).
    assert (IH' := IH src1 Hb Hpure' ltac:(lia)).
    assert (Step : forall (k : nat) s, P s ->
              filter_f true m s e (S k) src w =
              if b a then (Ok (Some (frow a s, ItFilter src1 e)), w) else filter_f true m s e k src1 w).
    { intros k s Hs.
      assert (Hf : forked P (fork s)) by (exists s; split; [exact Hs|reflexivity]).
      destruct (Hpure a (or_introl eq_refl) s Hs) as [v [Hv Hb']].
      rewrite (filter_f_step m s e k src w (g a (fork s)) src1 v).
      - rewrite Hb'. reflexivity.
      - apply (next_mono_ok n m); [exact Hnm|]. apply Ha, Hf.
      - apply (eval_mono_ok n m); [exact Hnm|exact Hv]. }
    cbn [filter List.length]. destruct (b a) eqn:Eb.
    + cbn [map loop_yields]. exists src1. split.
      * intros k s L Hs. destruct k as [|k]; [lia|]. apply Step, Hs.
      * apply (loop_yields_yields (S (List.length l))); [lia|exact IH'].
    + apply (loop_yields_reject _ _ src1); [exact Step|exact IH'].
Qed.
End Filter.

(* FILTER: over a source that yields the rows [map g l], ItFilter yields the
   rows of [filter b l], in order *)
Theorem filter_law : forall (A : Type) (g : A -> rowf) (b : A -> bool) (e : expr)
    (n : nat) (w : world) (P : scopes) (src : iter) (l : list A),
  yields n w (forked P) src (map g l) ->
  filter_pure A g b e n w P l ->
  forall M : nat, (n + List.length l + 2 <= M)%nat ->
  yields M w P (ItFilter src e) (map (frow A g) (filter b l)).
Proof.
  intros A g b e n w P src l [src' [Hp He]] Hpure M LM.
  destruct M as [|m]; [lia|].
  apply (loop_yields_yields e m w P (S (List.length l))); [lia|].
  apply (filter_loop A g b e n m w P ltac:(lia) src' He l src Hp Hpure). lia.
Qed.

(* ---------------------------------------------------------------- LIMIT *)
Lemma skip_f_S n sc off k src cur :
  skip_f true n sc off (S k) src cur =
  if (off =? 0) || negb (cur <? off) then ret (Some (src, cur))
  else do r <- next n src (fork sc);
       match r with
       | None => ret None
       | Some (_, src') => skip_f true n sc off k src' (cur + 1)
       end.
Proof. reflexivity. Qed.

Section Limit.
Variables (n m : nat) (w : world) (P Q : scopes) (c o : Z).
Hypothesis Hnm : (n <= m)%nat.
Hypothesis Hm1 : (1 <= m)%nat.
(* the taking phase pulls the source with the scope ItLimit was given, the
   skipping phase (only entered when the offset is not 0) with a fork of it *)
Hypothesis HPQ : forall s, P s -> Q s.
Hypothesis HfQ : o <> 0 -> forall s, P s -> Q (fork s).

Lemma limit_next_taking src cur s : (o = 0 \/ o <= cur) ->
  next (S m) (ItLimit src c o cur) s w =
  (if cur + 1 - o <=? c then
     do r <- next m src s;
     match r with
     | None => ret None
     | Some (s', src2) => ret (Some (s', ItLimit src2 c o (cur + 1)))
     end
   else ret None) w.
Proof.
  intro G. rewrite next_limit. destruct m as [|m']; [lia|].
  assert (E : (o =? 0) || negb (cur <? o) = true).
  { destruct G as [->|G]; [reflexivity|]. destruct (Z.ltb_spec cur o); [lia|].
    rewrite Bool.orb_true_r. reflexivity. }
  assert (Sk : skip_f true (S m') s o (S m') src cur w = (Ok (Some (src, cur)), w)).
  { rewrite skip_f_S, E. reflexivity. }
  rewrite (bind_ok _ _ _ _ _ Sk). reflexivity.
Qed.

Lemma limit_take src' : forall fs src cur,
  pulls n w Q src fs src' ->
  (ended n w Q src' \/ (Z.to_nat (c - (cur - o)) <= List.length fs)%nat) ->
  (o = 0 \/ o <= cur) ->
  yields (S m) w P (ItLimit src c o cur) (firstn (Z.to_nat (c - (cur - o))) fs).
Proof.
  induction fs as [|f fs IH]; intros src cur Hp Hend G.
  - inversion Hp; subst. rewrite firstn_nil.
    exists (ItLimit src' c o cur). split; [constructor|].
    intros s Hs. rewrite (limit_next_taking _ _ _ G).
    destruct (Z.leb_spec (cur + 1 - o) c) as [Hle|Hgt]; [|reflexivity].
    destruct Hend as [He|Hl]; [|cbn [List.length] in Hl; lia].
    rewrite (bind_ok _ _ _ _ _ (next_mono_ok n m _ _ _ _ _ Hnm (He _ (HPQ _ Hs)))). reflexivity.
  - inversion Hp as [|? ? src1 ? ? Ha Hb]; subst.
    destruct (Z.leb_spec (cur + 1 - o) c) as [Hle|Hgt].
    + replace (Z.to_nat (c - (cur - o))) with (S (Z.to_nat (c - (cur + 1 - o)))) by lia.
      cbn [firstn].
      destruct (IH src1 (cur + 1) Hb) as [it' [H1 H2]].
      * destruct Hend as [He|Hl]; [left; exact He|right; cbn [List.length] in Hl; lia].
      * destruct G as [G|G]; [left; exact G|right; lia].
      * exists it'. split; [|exact H2]. econstructor; [|exact H1].
        intros s Hs. rewrite (limit_next_taking _ _ _ G).
        destruct (Z.leb_spec (cur + 1 - o) c); [|lia].
        rewrite (bind_ok _ _ _ _ _ (next_mono_ok n m _ _ _ _ _ Hnm (Ha _ (HPQ _ Hs)))). reflexivity.
    + replace (Z.to_nat (c - (cur - o))) with O by lia. cbn [firstn].
      exists (ItLimit src c o cur). split; [constructor|].
      intros s Hs. rewrite (limit_next_taking _ _ _ G).
      destruct (Z.leb_spec (cur + 1 - o) c); [lia|reflexivity].
Qed.

(* skipping: the offset is consumed ... *)
Lemma limit_skip mid : o <> 0 -> forall fs src cur,
  pulls n w Q src fs mid -> cur + Z.of_nat (List.length fs) = o ->
  forall (k : nat) s, (List.length fs < k)%nat -> P s ->
  skip_f true m s o k src cur w = (Ok (Some (mid, o)), w).
Proof.
  intros Ho. induction fs as [|f fs IH]; intros src cur Hp Hc k s Lk Hs.
  - apply pulls_nil_inv in Hp. rewrite Hp. cbn [List.length] in *. destruct k as [|k]; [lia|].
    assert (Ec : cur = o) by lia. rewrite Ec.
    rewrite skip_f_S. rewrite Z.ltb_irrefl. rewrite Bool.orb_true_r. reflexivity.
  - apply pulls_cons_inv in Hp as [src1 [Ha Hb]]. cbn [List.length] in *.
    destruct k as [|k]; [lia|]. rewrite skip_f_S.
    destruct (Z.eqb_spec o 0) as [E0|E0]; [lia|].
    destruct (Z.ltb_spec cur o) as [Hlt|Hge]; [|lia].
    cbn [orb negb].
    rewrite (bind_ok _ _ _ _ _ (next_mono_ok n m _ _ _ _ _ Hnm (Ha _ (HfQ Ho _ Hs)))).
    cbv beta iota. apply IH; [exact Hb|lia|lia|exact Hs].
Qed.

(* ... or the source runs out first *)
Lemma limit_skip_out src' : ended n w Q src' -> forall fs src cur,
  pulls n w Q src fs src' -> 0 <= cur -> cur + Z.of_nat (List.length fs) < o ->
  forall (k : nat) s, (List.length fs < k)%nat -> P s ->
  skip_f true m s o k src cur w = (Ok None, w).
Proof.
  intros He. induction fs as [|f fs IH]; intros src cur Hp H0 Hc k s Lk Hs;
    (destruct k as [|k]; [lia|]); rewrite skip_f_S;
    (destruct (Z.eqb_spec o 0) as [E0|E0]; [cbn [List.length] in Hc; lia|]);
    (destruct (Z.ltb_spec cur o) as [Hlt|Hge]; [|cbn [List.length] in Hc; lia]);
    cbn [orb negb].
  - apply pulls_nil_inv in Hp. rewrite <- Hp.
    rewrite (bind_ok _ _ _ _ _ (next_mono_ok n m _ _ _ _ _ Hnm (He _ (HfQ E0 _ Hs)))). reflexivity.
  - apply pulls_cons_inv in Hp as [src1 [Ha Hb]]. cbn [List.length] in *.
    rewrite (bind_ok _ _ _ _ _ (next_mono_ok n m _ _ _ _ _ Hnm (Ha _ (HfQ E0 _ Hs)))).
    cbv beta iota. apply IH; [exact Hb|lia|lia|lia|exact Hs].
Qed.

Lemma limit_all src fs src' : 0 <= o ->
  pulls n w Q src fs src' ->
  (ended n w Q src' \/ (Z.to_nat o + Z.to_nat c <= List.length fs)%nat) ->
  (Nat.min (Z.to_nat o) (List.length fs) < m)%nat ->
  yields (S m) w P (ItLimit src c o 0) (firstn (Z.to_nat c) (skipn (Z.to_nat o) fs)).
Proof.
  intros Ho Hp Hend Lm.
  destruct (Z.eqb_spec o 0) as [E0|E0].
  - replace (Z.to_nat o) with O by lia. cbn [skipn].
    replace (Z.to_nat c) with (Z.to_nat (c - (0 - o))) by (f_equal; lia).
    apply (limit_take src'); [exact Hp| |left; exact E0].
    destruct Hend as [He|Hl]; [left; exact He|right; lia].
  - destruct (Nat.le_gt_cases (Z.to_nat o) (List.length fs)) as [Hlen|Hlen].
    + rewrite <- (firstn_skipn (Z.to_nat o) fs) in Hp.
      apply pulls_app_inv in Hp as [mid [Hp1 Hp2]].
      assert (L1 : List.length (firstn (Z.to_nat o) fs) = Z.to_nat o) by (rewrite firstn_length; lia).
      apply (yields_same_first _ _ _ _ (ItLimit mid c o o)).
      * intros s Hs. rewrite !next_limit.
        rewrite (bind_ok _ _ _ _ _ (limit_skip mid E0 _ src 0 Hp1 ltac:(lia) m s ltac:(lia) Hs)).
        rewrite (bind_ok _ _ _ _ _ (limit_skip mid E0 [] mid o (pulls_nil _ _ _ _) ltac:(cbn; lia) m s
                                      ltac:(cbn; lia) Hs)).
        reflexivity.
      * replace (Z.to_nat c) with (Z.to_nat (c - (o - o))) by (f_equal; lia).
        apply (limit_take src'); [exact Hp2| |right; lia].
        destruct Hend as [He|Hl]; [left; exact He|right; rewrite skipn_length; lia].
    + destruct Hend as [He|Hl]; [|lia].
      rewrite skipn_all2 by lia. rewrite firstn_nil.
      exists (ItLimit src c o 0). split; [constructor|].
      intros s Hs. rewrite next_limit.
      rewrite (bind_ok _ _ _ _ _ (limit_skip_out src' He fs src 0 Hp ltac:(lia) ltac:(lia) m s ltac:(lia) Hs)).
      reflexivity.
Qed.
End Limit.

(* LIMIT o, c: the slice; the source is pulled with the scope ItLimit was given
   and, when o is not 0, with a fork of it *)
Theorem limit_law : forall (n : nat) (w : world) (P Q : scopes) (src : iter) (fs : list rowf) (c o : Z),
  0 <= o ->
  (forall s, P s -> Q s) -> (o <> 0 -> forall s, P s -> Q (fork s)) ->
  yields n w Q src fs ->
  forall M : nat, (n + Nat.min (Z.to_nat o) (List.length fs) + 2 <= M)%nat ->
  yields M w P (ItLimit src c o 0) (firstn (Z.to_nat c) (skipn (Z.to_nat o) fs)).
Proof.
  intros n w P Q src fs c o Ho HPQ HfQ [src' [Hp He]] M LM. destruct M as [|m]; [lia|].
  apply (limit_all n m w P Q c o ltac:(lia) ltac:(lia) HPQ HfQ src fs src' Ho Hp); [left; exact He|lia].
Qed.

(* ... and it never pulls more than o + c rows: nothing is asked of the source
   beyond its first o + c rows (what it does afterwards -- fail, change the
   world, not terminate -- is irrelevant) *)
Theorem limit_law_prefix : forall (n : nat) (w : world) (P Q : scopes) (src src' : iter) (fs : list rowf) (c o : Z),
  0 <= o ->
  (forall s, P s -> Q s) -> (o <> 0 -> forall s, P s -> Q (fork s)) ->
  pulls n w Q src fs src' -> (Z.to_nat o + Z.to_nat c <= List.length fs)%nat ->
  forall M : nat, (n + Z.to_nat o + 2 <= M)%nat ->
  yields M w P (ItLimit src c o 0) (firstn (Z.to_nat c) (skipn (Z.to_nat o) fs)).
Proof.
  intros n w P Q src src' fs c o Ho HPQ HfQ Hp Hl M LM. destruct M as [|m]; [lia|].
  apply (limit_all n m w P Q c o ltac:(lia) ltac:(lia) HPQ HfQ src fs src' Ho Hp); [right; exact Hl|lia].
Qed.

(* ---------------------------------------------------------------- SORT *)
Lemma drain_f_S n sc k it acc :
  drain_f true n sc (S k) it acc =
  (do r <- next n it (fork sc);
   match r with
   | None => ret (rev acc)
   | Some (s, it') => drain_f true n sc k it' (s :: acc)
   end).
Proof. reflexivity. Qed.

Lemma insert_by_map {A B} (h : A -> B) (lt : B -> B -> bool) x l :
  insert_by lt (h x) (map h l) = map h (insert_by (fun a b => lt (h a) (h b)) x l).
Proof.
  induction l as [|y r IH]; [reflexivity|]. cbn [map insert_by].
  destruct (lt (h x) (h y)); [reflexivity|]. cbn [map]. rewrite IH. reflexivity.
Qed.
Lemma sort_by_map {A B} (h : A -> B) (lt : B -> B -> bool) l :
  Ferret.Eval.sort_by lt (map h l) = map h (Ferret.Eval.sort_by (fun a b => lt (h a) (h b)) l).
Proof.
  induction l as [|x r IH]; [reflexivity|]. cbn [map Ferret.Eval.sort_by]. rewrite IH.
  apply (insert_by_map h (fun a b => negb (lt b a))).
Qed.
(* the evaluator's sort is the stable insertion sort of Iter.v *)
Lemma insert_by_iter {A} (lt : A -> A -> bool) x l :
  insert_by (fun a b => negb (lt b a)) x l = insert_le lt x l.
Proof. induction l as [|y r IH]; [reflexivity|]. cbn [insert_by insert_le]. rewrite IH. reflexivity. Qed.
Lemma sort_by_iter {A} (lt : A -> A -> bool) l : Ferret.Eval.sort_by lt l = Iter.sort_by lt l.
Proof.
  induction l as [|x r IH]; [reflexivity|]. cbn [Ferret.Eval.sort_by Iter.sort_by]. rewrite IH.
  apply insert_by_iter.
Qed.

(* rows that ItSort has already materialised come out one by one *)
Lemma sort_stored_yields src ks : forall rows (M : nat) w (P : scopes), (1 <= M)%nat ->
  yields M w P (ItSort src ks (Some rows)) (map const_row rows).
Proof.
  induction rows as [|r rest IH]; intros M w P LM; (destruct M as [|m]; [lia|]).
  - exists (ItSort src ks (Some [])). split; [constructor|]. intros s _. rewrite next_sort. reflexivity.
  - destruct (IH (S m) w P LM) as [it' [H1 H2]]. exists it'. split; [|exact H2].
    cbn [map]. econstructor; [|exact H1]. intros s _. rewrite next_sort. reflexivity.
Qed.

Section Sort.
Variables (A : Type) (g : A -> rowf) (keyf : A -> list value) (ks : list (expr * bool)).
Variables (n m : nat) (w : world) (sc : frames).
Hypothesis Hnm : (n <= m)%nat.

(* ItSort at scope sc drains its source with the forked scope *)
Definition srow (a : A) : frames := g a (fork sc).
(* every key expression evaluates, without touching the world, on every row:
   keyf a lists the key values of a, in the order of the SORT clause *)
Definition sort_pure (l : list A) : Prop :=
  forall a, In a l ->
  Forall2 (fun (ke : expr * bool) v => eval n (fst ke) (srow a) w = (Ok v, w)) ks (keyf a).
(* key values paired with the direction flags (true = DESC) of the clause *)
Definition keyed_of (a : A) : list (value * bool) := combine (keyf a) (map snd ks).
(* the evaluator's own stable sort with the evaluator's own multi-key less-than *)
Definition sorted_by_keys (l : list A) : list A :=
  Ferret.Eval.sort_by (fun a b => keys_lt (keyed_of a) (keyed_of b)) l.

Lemma drain_spec src' : ended n w (eq (fork sc)) src' -> forall fs src acc (k : nat),
  pulls n w (eq (fork sc)) src fs src' -> (List.length fs < k)%nat ->
  drain_f true m sc k src acc w = (Ok (rev acc ++ map (fun f : rowf => f (fork sc)) fs), w).
Proof.
  intro He. induction fs as [|f fs IH]; intros src acc k Hp Lk; (destruct k as [|k]; [lia|]);
    rewrite drain_f_S.
  - apply pulls_nil_inv in Hp. rewrite <- Hp.
    rewrite (bind_ok _ _ _ _ _ (next_mono_ok n m _ _ _ _ _ Hnm (He _ eq_refl))).
    cbn [map]. rewrite app_nil_r. reflexivity.
  - apply pulls_cons_inv in Hp as [src1 [Ha Hb]].
    rewrite (bind_ok _ _ _ _ _ (next_mono_ok n m _ _ _ _ _ Hnm (Ha _ eq_refl))). cbv beta iota.
    rewrite (IH src1 (f (fork sc) :: acc) k Hb ltac:(cbn [List.length] in Lk; lia)).
    cbn [rev map]. rewrite <- app_assoc. reflexivity.
Qed.

Lemma gk_f_spec s : forall ks0 vs first,
  Forall2 (fun (ke : expr * bool) v => eval n (fst ke) s w = (Ok v, w)) ks0 vs ->
  gk_f true m s first ks0 w = (Ok (combine vs (map snd ks0)), w).
Proof.
  intros ks0 vs first H. revert first. induction H as [|[e d] v kr vr H1 H2 IH]; intro first; [reflexivity|].
  cbn [gk_f]. cbn [fst] in H1.
  assert (K : key1_f first (eval m e s) w = (Ok v, w)).
  { unfold key1_f. rewrite (eval_mono_ok n m _ _ _ _ _ Hnm H1). reflexivity. }
  rewrite (bind_ok _ _ _ _ _ K). rewrite (bind_ok _ _ _ _ _ (IH false)). reflexivity.
Qed.

Lemma keyed_f_spec : forall l, sort_pure l ->
  keyed_f true m ks (map srow l) w = (Ok (map (fun a => (keyed_of a, srow a)) l), w).
Proof.
  induction l as [|a l IH]; intro Hpure; [reflexivity|]. cbn [map keyed_f].
  rewrite (bind_ok _ _ _ _ _ (gk_f_spec (srow a) ks (keyf a) true (Hpure a (or_introl eq_refl)))).
  rewrite (bind_ok _ _ _ _ _ (IH (fun x Hx => Hpure x (or_intror Hx)))). reflexivity.
Qed.

Lemma sort_rows_spec src l : yields n w (eq (fork sc)) src (map g l) -> sort_pure l ->
  (List.length l < m)%nat ->
  sort_rows_f true m sc src ks w = (Ok (map srow (sorted_by_keys l)), w).
Proof.
  intros [src' [Hp He]] Hpure Lm. unfold sort_rows_f.
  assert (D := drain_spec src' He (map g l) src [] m Hp ltac:(rewrite map_length; exact Lm)).
  cbn [rev app] in D. rewrite map_map in D. fold srow in D.
  rewrite (bind_ok _ _ _ _ _ D).
  destruct l as [|a [|a2 l']]; [reflexivity|reflexivity|].
  remember (a :: a2 :: l') as l eqn:El.
  destruct (map srow l) as [|r1 [|r2 rs]] eqn:E; [subst l; discriminate E|subst l; discriminate E|].
  cbv beta iota. rewrite <- E.
  rewrite (bind_ok _ _ _ _ _ (keyed_f_spec l Hpure)). unfold ret. f_equal. f_equal.
  rewrite (sort_by_map (fun a => (keyed_of a, srow a)) (fun x y => keys_lt (fst x) (fst y))).
  rewrite map_map. reflexivity.
Qed.
End Sort.

(* SORT: over a source that yields the rows [map g l], ItSort yields the rows
   of l stably sorted by the evaluator's multi-key less-than on the key values *)
Theorem sort_law : forall (A : Type) (g : A -> rowf) (keyf : A -> list value) (ks : list (expr * bool))
    (n : nat) (w : world) (sc : frames) (src : iter) (l : list A),
  yields n w (eq (fork sc)) src (map g l) ->
  sort_pure A g keyf ks n w sc l ->
  forall M : nat, (n + List.length l + 2 <= M)%nat ->
  yields M w (eq sc) (ItSort src ks None)
         (map const_row (map (srow A g sc) (sorted_by_keys A keyf ks l))).
Proof.
  intros A g keyf ks n w sc src l Hy Hpure M LM. destruct M as [|m]; [lia|].
  assert (R := sort_rows_spec A g keyf ks n m w sc ltac:(lia) src l Hy Hpure ltac:(lia)).
  destruct (map (srow A g sc) (sorted_by_keys A keyf ks l)) as [|r rest].
  - exists (ItSort src ks None). split; [constructor|]. intros s <-. rewrite next_sort.
    rewrite (bind_ok _ _ _ _ _ R). reflexivity.
  - destruct (sort_stored_yields src ks rest (S m) w (eq sc) ltac:(lia)) as [it' [H1 H2]].
    exists it'. split; [|exact H2]. cbn [map]. econstructor; [|exact H1].
    intros s <-. rewrite next_sort. rewrite (bind_ok _ _ _ _ _ R). reflexivity.
Qed.

(* ---- what "sorted" means: the laws of Iter.v's sort_by hold of the evaluator's *)
Lemma keys_lt_asym : forall ds va vb,
  keys_lt (combine va ds) (combine vb ds) = true -> keys_lt (combine vb ds) (combine va ds) = false.
Proof.
  induction ds as [|d ds IH]; intros [|a va] [|b vb]; cbn [combine keys_lt];
    try discriminate; try reflexivity.
  rewrite (vcompare_antisym a b).
  destruct (vcompare_range a b) as [E|[E|E]]; rewrite E; destruct d; cbn;
    try discriminate; try reflexivity; apply IH.
Qed.

Lemma keys_lt_single x y d :
  keys_lt [(x, d)] [(y, d)] = ((if d then - vcompare x y else vcompare x y) =? -1).
Proof.
  cbn [keys_lt]. destruct (_ =? -1); [reflexivity|]. destruct (_ =? 1); reflexivity.
Qed.

Theorem sorted_by_keys_laws : forall (A : Type) (keyf : A -> list value) (ks : list (expr * bool)) (l : list A),
  let lt := fun a b => keys_lt (keyed_of A keyf ks a) (keyed_of A keyf ks b) in
  Permutation l (sorted_by_keys A keyf ks l) /\
  no_inversion lt (sorted_by_keys A keyf ks l) = true /\
  (forall c : A -> bool, (forall a b, c a = true -> c b = true -> lt a b = false) ->
     filter c (sorted_by_keys A keyf ks l) = filter c l).
Proof.
  intros A keyf ks l lt. unfold sorted_by_keys. fold lt. rewrite sort_by_iter.
  split; [apply sort_by_perm|split].
  - apply sort_by_sorted. intros a b. unfold lt, keyed_of. apply keys_lt_asym.
  - intros c H. apply sort_by_stable. exact H.
Qed.

(* ---------------------------------------------------------------- RETURN *)
Lemma for_loop_f_S n sc ret_ di sp pa k it acc :
  for_loop_f true n sc ret_ di sp pa (S k) it acc =
  (do r <- next n it sc;
   match r with
   | None => ret (VArr (rev (fr_items acc)))
   | Some (sc', it') =>
       do out <- for_out_f true n ret_ sc';
       for_loop_f true n sc ret_ di sp pa k it' (fres_push di sp pa out acc)
   end).
Proof. reflexivity. Qed.

(* the array RETURN builds from the values of its expression on the rows:
   RETURN NONE keeps nothing, RETURN DISTINCT keeps first occurrences *)
Definition for_result (distinct pass : bool) (seen outs : list value) : list value :=
  if pass then [] else if distinct then dedup_acc struct_eqb seen outs else outs.
Definition is_none (e : expr) : bool := match e with ENone => true | _ => false end.

Lemma fres_push_result di pa v acc outs :
  rev (fr_items (fres_push di false pa v acc)) ++ for_result di pa (fr_seen (fres_push di false pa v acc)) outs =
  rev (fr_items acc) ++ for_result di pa (fr_seen acc) (v :: outs).
Proof.
  unfold fres_push, for_result. destruct pa; [reflexivity|]. destruct di; cbn [andb].
  - cbn [dedup_acc]. destruct (existsb (struct_eqb v) (fr_seen acc)); [reflexivity|].
    cbn [fr_items fr_seen rev]. rewrite <- app_assoc. reflexivity.
  - cbn [fr_items fr_seen rev]. rewrite <- app_assoc. reflexivity.
Qed.

Section Return.
Variables (A : Type) (g : A -> rowf) (out : A -> value).
Variables (distinct : bool) (e : expr).
Variables (n m : nat) (w : world) (sc : frames).
Hypothesis Hnm : (n <= m)%nat.
Hypothesis Hlive : w_cancelled w = false.

Definition return_pure (l : list A) : Prop :=
  forall a, In a l -> eval n e (g a sc) w = (Ok (out a), w).

Lemma check_ctx_live : check_ctx w = (Ok tt, w).
Proof. unfold check_ctx. rewrite Hlive. reflexivity. Qed.

Lemma for_loop_spec it' : ended n w (eq sc) it' -> forall l it acc (k : nat),
  pulls n w (eq sc) it (map g l) it' -> return_pure l -> (List.length l < k)%nat ->
  for_loop_f true m sc (RReturn distinct e) distinct false (is_none e) k it acc w =
  (Ok (VArr (rev (fr_items acc) ++ for_result distinct (is_none e) (fr_seen acc) (map out l))), w).
Proof.
  intro He. induction l as [|a l IH]; intros it acc k Hp Hpure Lk; (destruct k as [|k]; [lia|]);
    rewrite for_loop_f_S.
  - apply pulls_nil_inv in Hp. rewrite <- Hp.
    rewrite (bind_ok _ _ _ _ _ (next_mono_ok n m _ _ _ _ _ Hnm (He _ eq_refl))).
    cbn [map]. unfold for_result. destruct (is_none e); [|destruct distinct]; cbn [dedup_acc];
      rewrite app_nil_r; reflexivity.
  - cbn [map] in Hp. apply pulls_cons_inv in Hp as [it1 [Ha Hb]].
    rewrite (bind_ok _ _ _ _ _ (next_mono_ok n m _ _ _ _ _ Hnm (Ha _ eq_refl))). cbv beta iota.
    assert (O : for_out_f true m (RReturn distinct e) (g a sc) w = (Ok (out a), w)).
    { unfold for_out_f. rewrite (bind_ok _ _ _ _ _ check_ctx_live).
      apply (eval_mono_ok n m); [exact Hnm|]. apply Hpure. left. reflexivity. }
    rewrite (bind_ok _ _ _ _ _ O).
    rewrite (IH it1 _ k Hb (fun x Hx => Hpure x (or_intror Hx)) ltac:(cbn [List.length] in Lk; lia)).
    cbn [map]. rewrite fres_push_result. reflexivity.
Qed.
End Return.

Definition for_ds (q : forq) : dsrc :=
  match q with
  | ForIn vv kv src body _ => build_ds (DIn vv kv src) vv body
  | ForWhile vv dof cond body _ => build_ds (DWhile dof vv cond) vv body
  end.
Definition for_ret (q : forq) : fret :=
  match q with ForIn _ _ _ _ r => r | ForWhile _ _ _ _ r => r end.

(* FOR ... RETURN [DISTINCT] e: once the clause chain yields the rows [map g l],
   the query evaluates to the array of the values of e on them *)
Theorem return_law : forall (A : Type) (g : A -> rowf) (out : A -> value) (distinct : bool) (e : expr)
    (n : nat) (w : world) (sc : frames) (q : forq) (it : iter) (l : list A),
  w_cancelled w = false ->
  for_ret q = RReturn distinct e ->
  iterate n (for_ds q) sc w = (Ok it, w) ->
  yields n w (eq sc) it (map g l) ->
  return_pure A g out e n w sc l ->
  forall M : nat, (n + List.length l + 2 <= M)%nat ->
  eval_for M q sc w = (Ok (VArr (for_result distinct (is_none e) [] (map out l))), w).
Proof.
  intros A g out distinct e n w sc q it l Hlive Hret Hit [it' [Hp He]] Hpure M LM.
  destruct M as [|m]; [lia|]. rewrite eval_for_S.
  rewrite (bind_ok _ _ _ _ _ (check_ctx_live w Hlive)).
  assert (Hit' := iterate_mono_ok n m _ _ _ _ _ ltac:(lia) Hit).
  destruct q as [vv kv src body r|vv dof cond body r]; cbn [for_ret for_ds] in *; subst r;
    cbv beta iota; rewrite (bind_ok _ _ _ _ _ Hit'); cbv beta iota;
    exact (for_loop_spec A g out distinct e n m w sc ltac:(lia) Hlive it' He l it
             {| fr_items := []; fr_seen := [] |} m Hp Hpure ltac:(lia)).
Qed.

(* ---------------------------------------------------------------- iterate:
   the states the clause chain starts in *)
Lemma iterate_in (n : nat) x kv e sc w vs :
  w_cancelled w = false -> bytes_eqb x [] = false ->
  eval n e sc w = (Ok (VArr vs), w) ->
  iterate (S n) (DIn x kv e) sc w = (Ok (ItIndexed x kv vs 0), w).
Proof.
  intros Hl Hx He. rewrite iterate_S. rewrite (bind_ok _ _ _ _ _ (check_ctx_live w Hl)).
  rewrite (bind_ok _ _ _ _ _ He). cbv beta iota. rewrite Hx. reflexivity.
Qed.
Lemma iterate_filter (n : nat) d e sc w it w' :
  iterate n d sc w = (Ok it, w') -> iterate (S n) (DFilter d e) sc w = (Ok (ItFilter it e), w').
Proof. intro H. rewrite iterate_S. rewrite (bind_ok _ _ _ _ _ H). reflexivity. Qed.
Lemma iterate_sort (n : nat) d ks sc w it w' :
  iterate n d sc w = (Ok it, w') -> iterate (S n) (DSort d ks) sc w = (Ok (ItSort it ks None), w').
Proof. intro H. rewrite iterate_S. rewrite (bind_ok _ _ _ _ _ H). reflexivity. Qed.
(* LIMIT with literal integers *)
Lemma iterate_limit (n : nat) d c o sc w it w' : (1 <= n)%nat ->
  iterate n d sc w = (Ok it, w') ->
  iterate (S n) (DLimit d (EInt c) (EInt o)) sc w = (Ok (ItLimit it c o 0), w').
Proof.
  intros L H. rewrite iterate_S. rewrite (bind_ok _ _ _ _ _ H).
  destruct n as [|n]; [lia|]. reflexivity.
Qed.

Lemma bytes_eqb_same x : bytes_eqb x x = true.
Proof. unfold bytes_eqb. rewrite lexcmp_refl. reflexivity. Qed.

Lemma filter_length_le' {A} (p : A -> bool) l : (List.length (filter p l) <= List.length l)%nat.
Proof. induction l as [|x r IH]; [reflexivity|]. cbn [filter]. destruct (p x); cbn [List.length]; lia. Qed.

(* ---------------------------------------------------------------- composition *)
(* FOR x IN src FILTER e LIMIT o, c RETURN x *)
Definition filter_limit_query (x : name) (src e : expr) (o c : Z) : forq :=
  ForIn x None src [CFilter e; CLimit (Some (EInt o)) (EInt c)] (RReturn false (EVar x)).

Theorem filter_limit_return_law : forall (x : name) (src e : expr) (o c : Z) (b : value -> bool)
    (vs : list value) (n : nat) (w : world) (sc : frames),
  w_cancelled w = false ->
  bytes_eqb x [] = false -> bytes_eqb x ignore_name = false ->
  0 <= o ->
  eval n src sc w = (Ok (VArr vs), w) ->
  Forall (fun v => closer_id v = None) vs ->
  (forall v, In v vs -> forall s, s = sc \/ s = fork sc ->
     exists r, eval n e ([(x, v)] :: fork s) w = (Ok r, w) /\ vtrue r = b v) ->
  forall M : nat, (n + 3 * List.length vs + 8 <= M)%nat ->
  eval_for M (filter_limit_query x src e o c) sc w =
  (Ok (VArr (firstn (Z.to_nat c) (skipn (Z.to_nat o) (filter b vs)))), w).
Proof.
  intros x src e o c b vs n w sc Hlive Hx Hign Ho Hsrc Hcl Hfil M LM.
  set (Q := fun s : frames => s = sc \/ s = fork sc).
  set (G := frow value (bound x)).
  set (len := List.length vs) in *.
  (* the source *)
  assert (H1 : yields (S n) w (forked Q) (ItIndexed x None vs 0) (map (bound x) vs))
    by (apply indexed_yields; [lia|exact Hcl]).
  (* FILTER *)
  assert (Hp : filter_pure value (bound x) b e (S n) w Q vs).
  { intros v Hv s Hs. destruct (Hfil v Hv s Hs) as [r [Hr Hb]]. exists r. split; [|exact Hb].
    unfold bound. rewrite Hign. apply (eval_mono_ok n (S n)); [lia|exact Hr]. }
  assert (H2 := filter_law value (bound x) b e (S n) w Q _ vs H1 Hp (S n + len + 2) ltac:(lia)).
  fold G in H2.
  (* LIMIT *)
  assert (H3 : yields (S n + len + 2 + len + 2) w (eq sc) (ItLimit (ItFilter (ItIndexed x None vs 0) e) c o 0)
                 (firstn (Z.to_nat c) (skipn (Z.to_nat o) (map G (filter b vs))))).
  { apply (limit_law (S n + len + 2) w (eq sc) Q); [exact Ho| | |exact H2|].
    - intros s <-. left. reflexivity.
    - intros _ s <-. right. reflexivity.
    - rewrite map_length. pose proof (filter_length_le' b vs). fold len in H. lia. }
  rewrite skipn_map, firstn_map in H3.
  set (res := firstn (Z.to_nat c) (skipn (Z.to_nat o) (filter b vs))) in *.
  assert (Lres : (List.length res <= len)%nat).
  { unfold res. rewrite firstn_length, skipn_length. pose proof (filter_length_le' b vs). fold len in H. lia. }
  (* the chain iterate builds *)
  assert (Hit : iterate (S n + len + 2 + len + 2) (for_ds (filter_limit_query x src e o c)) sc w =
                (Ok (ItLimit (ItFilter (ItIndexed x None vs 0) e) c o 0), w)).
  { apply (iterate_mono_ok (S (S (S n)))); [lia|]. cbn [for_ds filter_limit_query build_ds].
    apply iterate_limit; [lia|]. apply iterate_filter. apply iterate_in; assumption. }
  (* RETURN x *)
  assert (Hr : return_pure value G (fun v => v) (EVar x) (S n + len + 2 + len + 2) w sc res).
  { intros v _. unfold G, frow, bound. rewrite Hign. cbn [Nat.add]. rewrite eval_S.
    unfold get_var. cbn [scope_get frame_get]. rewrite bytes_eqb_same. reflexivity. }
  rewrite (return_law value G (fun v => v) false (EVar x) _ w sc (filter_limit_query x src e o c) _ res
             Hlive eq_refl Hit H3 Hr M ltac:(lia)).
  cbn [for_result is_none]. rewrite map_id. reflexivity.
Qed.

(* ---------------------------------------------------------------- the loop form
   of "yields": draining the iterator with the evaluator's own [next], always
   with the same scope -- the loop of eval_for (scope s) and of ItSort / COLLECT
   (scope fork s) *)
Fixpoint drain (n k : nat) (it : iter) (s : frames) : M (list frames) :=
  match k with
  | O => fail OutOfFuel
  | S k' => do r <- next n it s;
            match r with
            | None => ret []
            | Some (row, it') => do rest <- drain n k' it' s; ret (row :: rest)
            end
  end.

(* it produces exactly rows and the world is at the end what it was *)
Definition yields_at (n : nat) (it : iter) (s : frames) (w : world) (rows : list frames) : Prop :=
  exists k : nat, drain n k it s w = (Ok rows, w).

Lemma bind_assoc {A B C} (m : M A) (f : A -> M B) (g : B -> M C) w :
  bind (bind m f) g w = bind m (fun a => bind (f a) g) w.
Proof. unfold bind. destruct (m w) as [[a|e| | | | |] w1]; reflexivity. Qed.
Lemma bind_ext {A B} (m : M A) (k1 k2 : A -> M B) w :
  (forall a w', k1 a w' = k2 a w') -> bind m k1 w = bind m k2 w.
Proof. intro H. unfold bind. destruct (m w) as [[a|e| | | | |] w1]; try reflexivity. apply H. Qed.

(* ItSort's own loop (FuelMono's named copy of it) is this function *)
Lemma drain_f_drain n sc : forall k it acc w,
  drain_f true n sc k it acc w = (do rows <- drain n k it (fork sc); ret (rev acc ++ rows)) w.
Proof.
  induction k as [|k IH]; intros it acc w; [reflexivity|].
  rewrite drain_f_S. cbn [drain]. rewrite bind_assoc. apply bind_ext. intros [[row it']|] w1.
  - rewrite IH. rewrite bind_assoc. apply bind_ext. intros rest w2.
    unfold bind, ret. cbn [rev]. rewrite <- app_assoc. reflexivity.
  - unfold bind, ret. rewrite app_nil_r. reflexivity.
Qed.

Lemma yields_drain n w s : forall fs it, yields n w (eq s) it fs ->
  forall k : nat, (List.length fs < k)%nat ->
  drain n k it s w = (Ok (map (fun f : rowf => f s) fs), w).
Proof.
  intros fs it [it' [Hp He]]. induction Hp as [it|it f it1 fs it2 Ha Hb IH]; intros k Lk;
    (destruct k as [|k]; [lia|]); cbn [drain].
  - rewrite (bind_ok _ _ _ _ _ (He _ eq_refl)). reflexivity.
  - rewrite (bind_ok _ _ _ _ _ (Ha _ eq_refl)). cbv beta iota.
    rewrite (bind_ok _ _ _ _ _ (IH He k ltac:(cbn [List.length] in Lk; lia))). reflexivity.
Qed.

(* the world order of WorldInv.v is antisymmetric: a computation that ends in
   the world it started from never left it *)
Lemma wle0_antisym a b : wle0 a b -> wle0 b a -> a = b.
Proof.
  destruct a as [t1 c1 a1 n1 cl1 p1 f1], b as [t2 c2 a2 n2 cl2 p2 f2]. unfold wle0.
  cbn [w_trace w_cancelled w_cancel_at w_ncalls w_closers w_params w_fail_at].
  intros ([s1 T1] & [s2 C1] & N1 & K1 & A1 & P1 & F1) ([s3 T2] & [s4 C2] & N2 & K2 & A2 & P2 & F2).
  assert (s1 = []).
  { assert (L : List.length t2 = List.length (s1 ++ s3 ++ t2)) by (rewrite <- T2, <- T1; reflexivity).
    rewrite !app_length in L. destruct s1; [reflexivity|cbn [List.length] in L; lia]. }
  assert (s2 = []).
  { assert (L : List.length cl2 = List.length (s2 ++ s4 ++ cl2)) by (rewrite <- C2, <- C1; reflexivity).
    rewrite !app_length in L. destruct s2; [reflexivity|cbn [List.length] in L; lia]. }
  subst s1 s2. cbn [app] in T1, C1. subst t2 cl2 a2 p2 f2.
  assert (n1 = n2) by lia. subst n2.
  assert (c1 = c2) by (destruct c1, c2; try reflexivity; [symmetry; apply K1; reflexivity|apply K2; reflexivity]).
  subst c2. reflexivity.
Qed.

Lemma drain_pres n s : forall k it, pres wle0 (drain n k it s).
Proof.
  induction k as [|k IH]; intro it; cbn [drain].
  - intro w. apply wle0_refl.
  - apply (pres_bind wle0 wle0_trans).
    + intro w. apply next_world_le.
    + intros [[row it']|].
      * apply (pres_bind wle0 wle0_trans); [apply IH|]. intros rest w. apply wle0_refl.
      * intro w. apply wle0_refl.
Qed.

Lemma drain_yields n w s : forall (k : nat) it rows,
  drain n k it s w = (Ok rows, w) -> yields n w (eq s) it (map const_row rows).
Proof.
  induction k as [|k IH]; intros it rows H; [discriminate H|].
  cbn [drain] in H. unfold bind at 1 in H.
  pose proof (next_world_le true n it s w) as W1.
  destruct (next n it s w) as [[[[row it']|]|e| | | | |] w1] eqn:E1; cbn [recast snd] in *; try discriminate H.
  - unfold bind in H. pose proof (drain_pres n s k it' w1) as W2.
    destruct (drain n k it' s w1) as [[rest|e| | | | |] w2] eqn:E2; cbn [recast snd] in *; try discriminate H.
    unfold ret in H. injection H as Hr Hw. subst w2 rows.
    assert (w1 = w) by (symmetry; apply wle0_antisym; assumption). subst w1.
    destruct (IH it' rest E2) as [it2 [Hp He]].
    exists it2. split; [|exact He]. cbn [map]. econstructor; [|exact Hp].
    intros s' <-. exact E1.
  - unfold ret in H. injection H as Hr Hw. subst w1 rows.
    exists it. split; [constructor|]. intros s' <-. exact E1.
Qed.

(* the two forms agree *)
Theorem yields_at_iff : forall (n : nat) it s w rows,
  yields_at n it s w rows <-> yields n w (eq s) it (map const_row rows).
Proof.
  intros n it s w rows. split.
  - intros [k H]. exact (drain_yields n w s k it rows H).
  - intro H. exists (S (List.length (map const_row rows))).
    rewrite (yields_drain n w s _ it H _ (Nat.lt_succ_diag_r _)).
    rewrite map_map. unfold const_row. rewrite map_id. reflexivity.
Qed.

Lemma forked_eq sc s : forked (eq sc) s -> fork sc = s.
Proof. intros [s0 [<- ->]]. reflexivity. Qed.

(* FILTER, loop form *)
Theorem filter_law_at : forall (e : expr) (b : frames -> bool) (n : nat) (src : iter) (sc : frames) (w : world)
    (rows : list frames),
  yields_at n src (fork sc) w rows ->
  (forall r, In r rows -> exists v, eval n e r w = (Ok v, w) /\ vtrue v = b r) ->
  forall M : nat, (n + List.length rows + 2 <= M)%nat ->
  yields_at M (ItFilter src e) sc w (filter b rows).
Proof.
  intros e b n src sc w rows Hy Hpure M LM. apply yields_at_iff. apply yields_at_iff in Hy.
  apply (filter_law frames const_row b e n w (eq sc) src rows).
  - apply (yields_weaken _ _ (eq (fork sc))); [apply forked_eq|exact Hy].
  - intros r Hr s _. apply Hpure, Hr.
  - exact LM.
Qed.

(* SORT, loop form *)
Theorem sort_law_at : forall (keyf : frames -> list value) (ks : list (expr * bool)) (n : nat) (src : iter)
    (sc : frames) (w : world) (rows : list frames),
  yields_at n src (fork sc) w rows ->
  (forall r, In r rows ->
     Forall2 (fun (ke : expr * bool) v => eval n (fst ke) r w = (Ok v, w)) ks (keyf r)) ->
  forall M : nat, (n + List.length rows + 2 <= M)%nat ->
  yields_at M (ItSort src ks None) sc w (sorted_by_keys frames keyf ks rows).
Proof.
  intros keyf ks n src sc w rows Hy Hpure M LM. apply yields_at_iff. apply yields_at_iff in Hy.
  assert (S := sort_law frames const_row keyf ks n w sc src rows Hy Hpure M LM).
  unfold srow, const_row in S. rewrite map_id in S. exact S.
Qed.

(* LIMIT without offset, loop form *)
Theorem limit_law_at : forall (c : Z) (n : nat) (src : iter) (sc : frames) (w : world) (rows : list frames),
  yields_at n src sc w rows ->
  forall M : nat, (n + 2 <= M)%nat ->
  yields_at M (ItLimit src c 0 0) sc w (firstn (Z.to_nat c) rows).
Proof.
  intros c n src sc w rows Hy M LM. apply yields_at_iff. apply yields_at_iff in Hy.
  rewrite <- firstn_map.
  apply (limit_law n w (eq sc) (eq sc) src (map const_row rows) c 0 (Z.le_refl 0)
           (fun s H => H) (fun H => False_ind _ (H eq_refl)) Hy M).
  cbn [Z.to_nat Nat.min]. lia.
Qed.

(* FOR x IN src SORT k1 [DESC], k2 [DESC], ... RETURN x *)
Definition sort_query (x : name) (src : expr) (ks : list (expr * bool)) : forq :=
  ForIn x None src [CSort ks] (RReturn false (EVar x)).

Theorem sort_return_law : forall (x : name) (src : expr) (ks : list (expr * bool)) (keyf : value -> list value)
    (vs : list value) (n : nat) (w : world) (sc : frames),
  w_cancelled w = false ->
  bytes_eqb x [] = false -> bytes_eqb x ignore_name = false ->
  eval n src sc w = (Ok (VArr vs), w) ->
  Forall (fun v => closer_id v = None) vs ->
  (forall v, In v vs ->
     Forall2 (fun (ke : expr * bool) k => eval n (fst ke) ([(x, v)] :: fork sc) w = (Ok k, w)) ks (keyf v)) ->
  forall M : nat, (n + 2 * List.length vs + 8 <= M)%nat ->
  eval_for M (sort_query x src ks) sc w = (Ok (VArr (sorted_by_keys value keyf ks vs)), w).
Proof.
  intros x src ks keyf vs n w sc Hlive Hx Hign Hsrc Hcl Hkeys M LM.
  set (len := List.length vs) in *.
  assert (H1 : yields (S n) w (eq (fork sc)) (ItIndexed x None vs 0) (map (bound x) vs))
    by (apply indexed_yields; [lia|exact Hcl]).
  assert (Hp : sort_pure value (bound x) keyf ks (S n) w sc vs).
  { intros v Hv. unfold srow, bound. rewrite Hign. specialize (Hkeys v Hv).
    induction Hkeys as [|ke k kr vr Hk _ IH]; constructor; [|exact IH].
    apply (eval_mono_ok n (S n)); [lia|exact Hk]. }
  assert (H2 := sort_law value (bound x) keyf ks (S n) w sc _ vs H1 Hp (S n + len + 2) ltac:(lia)).
  rewrite map_map in H2.
  set (res := sorted_by_keys value keyf ks vs) in *.
  assert (Lres : List.length res = len).
  { symmetry. apply Permutation_length. apply (sorted_by_keys_laws value keyf ks vs). }
  assert (Hit : iterate (S n + len + 2) (for_ds (sort_query x src ks)) sc w =
                (Ok (ItSort (ItIndexed x None vs 0) ks None), w)).
  { apply (iterate_mono_ok (S (S n))); [lia|]. cbn [for_ds sort_query build_ds].
    apply iterate_sort. apply iterate_in; assumption. }
  assert (Hr : return_pure value (fun v => const_row (srow value (bound x) sc v)) (fun v => v) (EVar x)
                 (S n + len + 2) w sc res).
  { intros v _. unfold const_row, srow, bound. rewrite Hign. cbn [Nat.add]. rewrite eval_S.
    unfold get_var. cbn [scope_get frame_get]. rewrite bytes_eqb_same. reflexivity. }
  rewrite (return_law value _ (fun v => v) false (EVar x) _ w sc (sort_query x src ks) _ res
             Hlive eq_refl Hit H2 Hr M ltac:(lia)).
  cbn [for_result is_none]. rewrite map_id. reflexivity.
Qed.

(* ---------------------------------------------------------------- a finding about
   the formulation: with an offset, LIMIT cannot be stated over a source that is
   only known to yield its rows under ONE scope.  ItLimit pulls the rows it
   skips with a forked scope and the rows it returns with the scope it was
   given, and a source that materialises (ItSort) builds all its rows on the
   scope of the first pull: the rows LIMIT 1, 1 returns over SORT carry one
   more (empty) frame than the rows the source yields when drained directly.
   Variable lookup does not see the difference; equality of scopes does. *)
Lemma bind_inv {A B} (m : M A) (k : A -> M B) w b w' :
  bind m k w = (Ok b, w') -> exists a w1, m w = (Ok a, w1) /\ k a w1 = (Ok b, w').
Proof.
  unfold bind. destruct (m w) as [[a|e| | | | |] w1]; cbn [recast]; intro H; try discriminate H.
  exists a, w1. split; [reflexivity|exact H].
Qed.

Lemma drain_mono s : forall (k k' n n' : nat) it w r w', (k <= k')%nat -> (n <= n')%nat ->
  drain n k it s w = (Ok r, w') -> drain n' k' it s w = (Ok r, w').
Proof.
  induction k as [|k IH]; intros k' n n' it w r w' Lk Ln H; [discriminate H|].
  destruct k' as [|k']; [lia|]. cbn [drain] in *.
  apply bind_inv in H as [r0 [w1 [H1 H2]]].
  rewrite (bind_ok _ _ _ _ _ (next_mono_ok n n' _ _ _ _ _ Ln H1)).
  destruct r0 as [[row it']|]; [|exact H2].
  apply bind_inv in H2 as [rest [w2 [H3 H4]]].
  rewrite (bind_ok _ _ _ _ _ (IH k' n n' it' w1 rest w2 ltac:(lia) Ln H3)). exact H4.
Qed.

Lemma yields_at_unique (n1 n2 : nat) it s w r1 r2 :
  yields_at n1 it s w r1 -> yields_at n2 it s w r2 -> r1 = r2.
Proof.
  intros [k1 H1] [k2 H2].
  apply (drain_mono s k1 (Nat.max k1 k2) n1 (Nat.max n1 n2)) in H1; [|lia|lia].
  apply (drain_mono s k2 (Nat.max k1 k2) n2 (Nat.max n1 n2)) in H2; [|lia|lia].
  congruence.
Qed.

Definition cex_x : name := bs "x".
Definition cex_sort_src : iter := ItSort (ItIndexed cex_x None [VInt 2; VInt 1] 0) [(EVar cex_x, false)] None.
Definition cex_world : world := init_world [] false None.

Lemma limit_offset_single_scope_refuted :
  let rows := [[[(cex_x, VInt 1)]; []; []]; [[(cex_x, VInt 2)]; []; []]] in
  yields_at 10 cex_sort_src [[]] cex_world rows /\
  yields_at 10 (ItLimit cex_sort_src 1 1 0) [[]] cex_world [[[(cex_x, VInt 2)]; []; []; []]] /\
  forall n : nat, ~ yields_at n (ItLimit cex_sort_src 1 1 0) [[]] cex_world (firstn 1 (skipn 1 rows)).
Proof.
  intro rows.
  assert (A1 : yields_at 10 cex_sort_src [[]] cex_world rows) by (exists 10%nat; vm_compute; reflexivity).
  assert (A2 : yields_at 10 (ItLimit cex_sort_src 1 1 0) [[]] cex_world [[[(cex_x, VInt 2)]; []; []; []]])
    by (exists 10%nat; vm_compute; reflexivity).
  split; [exact A1|split; [exact A2|]].
  intros n H. pose proof (yields_at_unique _ _ _ _ _ _ _ A2 H) as E. vm_compute in E. discriminate E.
Qed.

(* ---------------------------------------------------------------- COLLECT
   one group key, INTO with a projection:  COLLECT x = e INTO gname = pe *)
Lemma next_collect n src gs t vv st s :
  next (S n) (ItCollect src gs t vv st) s =
  (do rows <- (match st with
               | Some rows => ret rows
               | None => collect_rows_f true n s src gs t vv
               end);
   match rows with
   | [] => ret None
   | r :: rest => ret (Some (r, ItCollect src gs t vv (Some rest)))
   end).
Proof. reflexivity. Qed.

Lemma grp_f_S n sc gs t vv k src acc :
  grp_f true n sc gs t vv (S k) src acc =
  (do r <- next n src (fork sc);
   match r with
   | None => ret acc
   | Some (ds, src') =>
       do kvs <- grp_gk_f true n ds gs (fork sc);
       let '(k0, cs) := kvs in
       do accidx <-
         (match find_group k0 acc 0 with
          | Some i => ret (acc, i)
          | None =>
              do cs' <- grp_new_f t cs;
              ret (acc ++ [(k0, cs')], List.length acc)
          end);
       let '(acc1, idx) := accidx in
       do acc2 <- grp_add_f true n ds t vv idx acc1;
       grp_f true n sc gs t vv k src' acc2
   end).
Proof. reflexivity. Qed.

(* rows that ItCollect has already materialised come out one by one *)
Lemma collect_stored_yields src gs t vv : forall rows (M : nat) w (P : scopes), (1 <= M)%nat ->
  yields M w P (ItCollect src gs t vv (Some rows)) (map const_row rows).
Proof.
  induction rows as [|r rest IH]; intros M w P LM; (destruct M as [|m]; [lia|]).
  - exists (ItCollect src gs t vv (Some [])). split; [constructor|]. intros s _. rewrite next_collect. reflexivity.
  - destruct (IH (S m) w P LM) as [it' [H1 H2]]. exists it'. split; [|exact H2].
    cbn [map]. econstructor; [|exact H1]. intros s _. rewrite next_collect. reflexivity.
Qed.

(* find the group, or open a new one at the end; then update it *)
Definition place (k : list value) (upd : list value * frames -> list value * frames) (new : list value * frames)
    (acc : list (list value * frames)) : list (list value * frames) :=
  match find_group k acc 0 with
  | Some i => update_nth i upd acc
  | None => update_nth (List.length acc) upd (acc ++ [new])
  end.

Lemma find_group_shift k : forall gs i,
  find_group k gs (S i) = option_map S (find_group k gs i).
Proof.
  induction gs as [|[k' f] r IH]; intro i; [reflexivity|]. cbn [find_group].
  destruct (group_key_eqb k k'); [reflexivity|]. apply IH.
Qed.

Lemma place_nil k upd (new : list value * frames) : place k upd new [] = [upd new].
Proof. reflexivity. Qed.
Lemma place_cons k upd (new : list value * frames) k' f r :
  place k upd new ((k', f) :: r) =
  if group_key_eqb k k' then upd (k', f) :: r else (k', f) :: place k upd new r.
Proof.
  unfold place. cbn [find_group]. destruct (group_key_eqb k k'); [reflexivity|].
  rewrite find_group_shift. destruct (find_group k r 0); reflexivity.
Qed.

Section Collect.
Variables (A : Type) (g0 : A -> rowf) (key pv : A -> value).
Variables (x gname vv : name) (e pe : expr).
Variables (n m : nat) (w : world) (sc : frames).
Hypothesis Hnm : (n <= m)%nat.
Hypothesis Hx : bytes_eqb x ignore_name = false.
Hypothesis Hg : bytes_eqb gname ignore_name = false.
Hypothesis Hxg : bytes_eqb x gname = false.

(* ItCollect at scope sc pulls its source with the forked scope *)
Definition crow (a : A) : frames := g0 a (fork sc).
(* key and projection evaluate, without touching the world, on every row; the
   key value is not a closable (binding it registers nothing) *)
Definition collect_pure (l : list A) : Prop :=
  forall a, In a l ->
  eval n e (crow a) w = (Ok (key a), w) /\ closer_id (key a) = None /\
  eval n pe (crow a) w = (Ok (pv a), w).
(* the scope of a group: key variable and the array of projections, on top of sc *)
Definition gframes (km : value * list A) : frames :=
  [(gname, VArr (map pv (snd km))); (x, fst km)] :: sc.
Definition conc (gs : list (value * list A)) : list (list value * frames) :=
  map (fun km => ([fst km], gframes km)) gs.

Lemma conc_length gs : List.length (conc gs) = List.length gs.
Proof. apply map_length. Qed.

Definition upd_of (a : A) (g : list value * frames) : list value * frames :=
  (fst g, frame0_update gname (arr_push (pv a)) (snd g)).

Lemma upd_conc a km : upd_of a ([fst km], gframes km) = ([fst km], gframes (fst km, snd km ++ [a])).
Proof.
  unfold upd_of, gframes. cbn [fst snd frame0_update frame_get]. rewrite bytes_eqb_same.
  cbn [frame_update]. rewrite bytes_eqb_same. cbn [arr_push]. rewrite map_app. reflexivity.
Qed.

Lemma place_conc a : forall gs,
  place [key a] (upd_of a) ([key a], [(gname, VArr []); (x, key a)] :: sc) (conc gs) =
  conc (add_to_group key struct_eqb a gs).
Proof.
  induction gs as [|[k mem] r IH].
  - cbn [conc map add_to_group]. rewrite place_nil.
    f_equal. exact (upd_conc a (key a, [])).
  - cbn [conc map add_to_group fst]. rewrite place_cons.
    assert (E : group_key_eqb [key a] [k] = struct_eqb (key a) k).
    { unfold group_key_eqb. cbn. rewrite Bool.andb_true_r. reflexivity. }
    rewrite E. destruct (struct_eqb (key a) k).
    + cbn [map fst]. f_equal. exact (upd_conc a (k, mem)).
    + cbn [map fst]. f_equal. exact IH.
Qed.

(* one row of the grouping loop *)
Lemma grp_row a gs : eval m e (crow a) w = (Ok (key a), w) -> closer_id (key a) = None ->
  eval m pe (crow a) w = (Ok (pv a), w) ->
  forall (k : nat) src' ,
  (do kvs <- grp_gk_f true m (crow a) [(x, e)] (fork sc);
   let '(k0, cs) := kvs in
   do accidx <-
     (match find_group k0 (conc gs) 0 with
      | Some i => ret (conc gs, i)
      | None =>
          do cs' <- grp_new_f (CTInto gname (Some pe)) cs;
          ret (conc gs ++ [(k0, cs')], List.length (conc gs))
      end);
   let '(acc1, idx) := accidx in
   do acc2 <- grp_add_f true m (crow a) (CTInto gname (Some pe)) vv idx acc1;
   grp_f true m sc [(x, e)] (CTInto gname (Some pe)) vv k src' acc2) w =
  grp_f true m sc [(x, e)] (CTInto gname (Some pe)) vv k src' (conc (add_to_group key struct_eqb a gs)) w.
Proof.
  intros He Hc Hp k src'.
  assert (K : grp_gk_f true m (crow a) [(x, e)] (fork sc) w = (Ok ([key a], [(x, key a)] :: sc), w)).
  { cbn [grp_gk_f]. rewrite (bind_ok _ _ _ _ _ He).
    rewrite (bind_ok _ _ _ _ _ (set_var_fork x (key a) sc w Hc)). unfold bound. rewrite Hx. reflexivity. }
  rewrite (bind_ok _ _ _ _ _ K). cbv beta iota.
  rewrite <- place_conc. unfold place.
  destruct (find_group [key a] (conc gs) 0) as [i|].
  - rewrite bind_ret. cbv beta iota.
    unfold grp_add_f. rewrite bind_assoc. rewrite (bind_ok _ _ _ _ _ Hp). reflexivity.
  - assert (N : grp_new_f (CTInto gname (Some pe)) ([(x, key a)] :: sc) w =
                (Ok ([(gname, VArr []); (x, key a)] :: sc), w)).
    { unfold grp_new_f, set_var, bind, ret. rewrite Hg. cbn [frame_get]. rewrite Hxg. reflexivity. }
    rewrite bind_assoc. rewrite (bind_ok _ _ _ _ _ N). rewrite bind_ret. cbv beta iota.
    unfold grp_add_f. rewrite bind_assoc. rewrite (bind_ok _ _ _ _ _ Hp). rewrite conc_length. reflexivity.
Qed.

Lemma grp_spec src' : ended n w (eq (fork sc)) src' -> forall l src gs (k : nat),
  pulls n w (eq (fork sc)) src (map g0 l) src' -> collect_pure l -> (List.length l < k)%nat ->
  grp_f true m sc [(x, e)] (CTInto gname (Some pe)) vv k src (conc gs) w =
  (Ok (conc (fold_left (fun gs a => add_to_group key struct_eqb a gs) l gs)), w).
Proof.
  intro He. induction l as [|a l IH]; intros src gs k Hp Hpure Lk; (destruct k as [|k]; [lia|]);
    rewrite grp_f_S.
  - apply pulls_nil_inv in Hp. rewrite <- Hp.
    rewrite (bind_ok _ _ _ _ _ (next_mono_ok n m _ _ _ _ _ Hnm (He _ eq_refl))). reflexivity.
  - cbn [map] in Hp. apply pulls_cons_inv in Hp as [src1 [Ha Hb]].
    rewrite (bind_ok _ _ _ _ _ (next_mono_ok n m _ _ _ _ _ Hnm (Ha _ eq_refl))). cbv beta iota.
    destruct (Hpure a (or_introl eq_refl)) as (H1 & H2 & H3).
    fold (crow a).
    rewrite (grp_row a gs (eval_mono_ok n m _ _ _ _ _ Hnm H1) H2 (eval_mono_ok n m _ _ _ _ _ Hnm H3) k src1).
    cbn [fold_left].
    apply IH; [exact Hb|intros y Hy; apply Hpure; right; exact Hy|cbn [List.length] in Lk; lia].
Qed.

Lemma collect_rows_spec src l : yields n w (eq (fork sc)) src (map g0 l) -> collect_pure l ->
  (List.length l < m)%nat ->
  collect_rows_f true m sc src [(x, e)] (CTInto gname (Some pe)) vv w =
  (Ok (map gframes (collect_groups key struct_eqb l)), w).
Proof.
  intros [src' [Hp He]] Hpure Lm. unfold collect_rows_f.
  rewrite (bind_ok _ _ _ _ _ (grp_spec src' He l src [] m Hp Hpure Lm)).
  unfold ret, conc, collect_groups. rewrite map_map. reflexivity.
Qed.
End Collect.

(* COLLECT x = e INTO gname = pe: one row per group of Iter.v's collect_groups
   (groups in order of first occurrence of their key under structural equality,
   members in arrival order), binding x to the key and gname to the array of
   the projections of the members *)
Theorem collect_into_law : forall (A : Type) (g0 : A -> rowf) (key pv : A -> value)
    (x gname vv : name) (e pe : expr) (n : nat) (w : world) (sc : frames) (src : iter) (l : list A),
  bytes_eqb x ignore_name = false -> bytes_eqb gname ignore_name = false -> bytes_eqb x gname = false ->
  yields n w (eq (fork sc)) src (map g0 l) ->
  collect_pure A g0 key pv e pe n w sc l ->
  forall M : nat, (n + List.length l + 2 <= M)%nat ->
  yields M w (eq sc) (ItCollect src [(x, e)] (CTInto gname (Some pe)) vv None)
         (map const_row (map (gframes A pv x gname sc) (collect_groups key struct_eqb l))).
Proof.
  intros A g0 key pv x gname vv e pe n w sc src l Hx Hg Hxg Hy Hpure M LM. destruct M as [|m]; [lia|].
  assert (R := collect_rows_spec A g0 key pv x gname vv e pe n m w sc ltac:(lia) Hx Hg Hxg src l Hy Hpure ltac:(lia)).
  destruct (map (gframes A pv x gname sc) (collect_groups key struct_eqb l)) as [|r rest].
  - exists (ItCollect src [(x, e)] (CTInto gname (Some pe)) vv None). split; [constructor|].
    intros s <-. rewrite next_collect. rewrite (bind_ok _ _ _ _ _ R). reflexivity.
  - destruct (collect_stored_yields src [(x, e)] (CTInto gname (Some pe)) vv rest (S m) w (eq sc) ltac:(lia))
      as [it' [H1 H2]].
    exists it'. split; [|exact H2]. cbn [map]. econstructor; [|exact H1].
    intros s <-. rewrite next_collect. rewrite (bind_ok _ _ _ _ _ R). reflexivity.
Qed.

Lemma iterate_collect1 (n : nat) d k e t vv sc w it w' :
  iterate n d sc w = (Ok it, w') ->
  iterate (S n) (DCollect d [(k, e)] t vv) sc w =
  (Ok (ItCollect (ItSort it [(e, false)] None) [(k, e)] t vv None), w').
Proof. intro H. rewrite iterate_S. rewrite (bind_ok _ _ _ _ _ H). reflexivity. Qed.

Lemma bytes_eqb_sym a b : bytes_eqb a b = bytes_eqb b a.
Proof. unfold bytes_eqb. rewrite (lexcmp_antisym a b). destruct (lexcmp a b); reflexivity. Qed.

Lemma add_to_group_length {A K} (key : A -> K) keqb x gs :
  (List.length (add_to_group key keqb x gs) <= S (List.length gs))%nat.
Proof.
  induction gs as [|[k mem] r IH]; cbn [add_to_group List.length]; [lia|].
  destruct (keqb (key x) k); cbn [List.length]; lia.
Qed.
Lemma collect_groups_length {A K} (key : A -> K) keqb l :
  (List.length (collect_groups key keqb l) <= List.length l)%nat.
Proof.
  unfold collect_groups.
  assert (G : forall l gs, (List.length (fold_left (fun gs x => add_to_group key keqb x gs) l gs)
                            <= List.length l + List.length gs)%nat).
  { clear l. induction l as [|x r IH]; intro gs; cbn [fold_left List.length]; [lia|].
    specialize (IH (add_to_group key keqb x gs)). pose proof (add_to_group_length key keqb x gs). lia. }
  specialize (G l []). cbn [List.length] in G. lia.
Qed.

(* FOR x IN src COLLECT k = e INTO g = pe RETURN [k, g] *)
Definition collect_query (x kname gname : name) (src e pe : expr) : forq :=
  ForIn x None src [CCollect [(kname, e)] (CTInto gname (Some pe))]
        (RReturn false (EArr [EVar kname; EVar gname])).

Theorem collect_return_law : forall (x kname gname : name) (src e pe : expr) (keyf pvf : value -> value)
    (vs : list value) (n : nat) (w : world) (sc : frames),
  w_cancelled w = false ->
  bytes_eqb x [] = false -> bytes_eqb x ignore_name = false ->
  bytes_eqb kname ignore_name = false -> bytes_eqb gname ignore_name = false ->
  bytes_eqb kname gname = false ->
  eval n src sc w = (Ok (VArr vs), w) ->
  Forall (fun v => closer_id v = None) vs ->
  (forall v, In v vs ->
     eval n e ([(x, v)] :: fork (fork sc)) w = (Ok (keyf v), w) /\ closer_id (keyf v) = None /\
     eval n pe ([(x, v)] :: fork (fork sc)) w = (Ok (pvf v), w)) ->
  forall M : nat, (n + 3 * List.length vs + 12 <= M)%nat ->
  eval_for M (collect_query x kname gname src e pe) sc w =
  (Ok (VArr (map (fun km => VArr [fst km; VArr (map pvf (snd km))])
                 (collect_groups keyf struct_eqb
                    (sorted_by_keys value (fun v => [keyf v]) [(e, false)] vs)))), w).
Proof.
  intros x kname gname src e pe keyf pvf vs n w sc Hlive Hx Hign Hk Hg Hkg Hsrc Hcl Hrows M LM.
  set (len := List.length vs) in *.
  set (ks := [(e, false)]).
  set (kf := fun v : value => [keyf v]).
  (* the source, pulled by ItSort *)
  assert (H1 : yields (S n) w (eq (fork (fork sc))) (ItIndexed x None vs 0) (map (bound x) vs))
    by (apply indexed_yields; [lia|exact Hcl]).
  (* the SORT that iterate puts under COLLECT, at scope fork sc *)
  assert (Hp : sort_pure value (bound x) kf ks (S n) w (fork sc) vs).
  { intros v Hv. unfold srow, bound, kf, ks. rewrite Hign. destruct (Hrows v Hv) as (E1 & _ & _).
    repeat constructor. cbn [fst]. apply (eval_mono_ok n (S n)); [lia|exact E1]. }
  assert (H2 := sort_law value (bound x) kf ks (S n) w (fork sc) _ vs H1 Hp (S n + len + 2) ltac:(lia)).
  rewrite map_map in H2.
  set (sorted := sorted_by_keys value kf ks vs) in *.
  assert (Psorted : Permutation vs sorted) by apply (sorted_by_keys_laws value kf ks vs).
  assert (Lsorted : List.length sorted = len) by (symmetry; apply Permutation_length; exact Psorted).
  (* COLLECT *)
  set (g0 := fun v => const_row (srow value (bound x) (fork sc) v)) in *.
  assert (Hc : collect_pure value g0 keyf pvf e pe (S n + len + 2) w sc sorted).
  { intros v Hv. apply (Permutation_in _ (Permutation_sym Psorted)) in Hv.
    destruct (Hrows v Hv) as (E1 & E2 & E3).
    unfold crow, g0, const_row, srow, bound. rewrite Hign.
    split; [|split]; [|exact E2|]; (eapply eval_mono_ok; [|eassumption]); lia. }
  assert (H3 := collect_into_law value g0 keyf pvf kname gname x e pe (S n + len + 2) w sc _ sorted
                  Hk Hg Hkg H2 Hc (S n + len + 2 + len + 2) ltac:(lia)).
  rewrite map_map in H3.
  set (groups := collect_groups keyf struct_eqb sorted) in *.
  assert (Lg : (List.length groups <= len)%nat)
    by (rewrite <- Lsorted; apply collect_groups_length).
  (* the chain iterate builds *)
  assert (Hit : iterate (S n + len + 2 + len + 2) (for_ds (collect_query x kname gname src e pe)) sc w =
                (Ok (ItCollect (ItSort (ItIndexed x None vs 0) ks None) [(kname, e)]
                       (CTInto gname (Some pe)) x None), w)).
  { apply (iterate_mono_ok (S (S n))); [lia|]. cbn [for_ds collect_query build_ds].
    apply iterate_collect1. apply iterate_in; assumption. }
  (* RETURN [k, g] *)
  set (out := fun km : value * list value => VArr [fst km; VArr (map pvf (snd km))]).
  assert (Hr : return_pure (value * list value)
                 (fun km => const_row (gframes value pvf kname gname sc km)) out
                 (EArr [EVar kname; EVar gname]) (S n + len + 2 + len + 2) w sc groups).
  { intros km _. apply (eval_mono_ok 2); [lia|].
    unfold const_row, gframes, out. rewrite eval_S. cbn [eval_list_f]. rewrite !eval_S.
    unfold get_var. cbn [scope_get frame_get]. rewrite (bytes_eqb_sym gname kname), Hkg.
    rewrite !bytes_eqb_same. reflexivity. }
  rewrite (return_law (value * list value) _ out false (EArr [EVar kname; EVar gname]) _ w sc
             (collect_query x kname gname src e pe) _ groups Hlive eq_refl Hit H3 Hr M ltac:(lia)).
  reflexivity.
Qed.
