(* Proofs/ScopeProofs.v — the static scope operations of the visitor agree with
   the run-time scope chain operation by operation. *)
From Ferret Require Import Eval StaticScope Proofs.CompareProofs.
From Coq Require Import Lia.

(* the static frames are the names of the run-time frames *)
Definition agree (ss : sframes) (ds : frames) : Prop := ss = map (map fst) ds.

Lemma in_frame_get x (f : frame) :
  in_frame x (map fst f) = match frame_get x f with Some _ => true | None => false end.
Proof.
  induction f as [|[k v] r IH]; cbn; [reflexivity|].
  unfold in_frame in *. cbn.
  assert (E : bytes_eqb x k = bytes_eqb k x).
  { unfold bytes_eqb. rewrite (lexcmp_antisym x k).
    destruct (lexcmp x k); reflexivity. }
  rewrite E. destruct (bytes_eqb k x); [reflexivity|exact IH].
Qed.

(* a statically visible name is bound at run time *)
Lemma visible_bound x ss ds : agree ss ds -> visible x ss = true -> scope_get x ds <> None.
Proof.
  unfold agree. intros ->. induction ds as [|f r IH]; cbn; [discriminate|].
  rewrite in_frame_get. destruct (frame_get x f); [discriminate|]. cbn. exact IH.
Qed.
Lemma visible_get_var x ss ds w : agree ss ds -> visible x ss = true ->
  exists v, get_var x ds w = (Ok v, w).
Proof.
  intros A V. pose proof (visible_bound x ss ds A V) as H. unfold get_var.
  destruct (scope_get x ds) as [v|]; [exists v; reflexivity|contradiction].
Qed.
(* and conversely: what is not statically visible is not bound *)
Lemma invisible_unbound x ss ds : agree ss ds -> visible x ss = false -> scope_get x ds = None.
Proof.
  unfold agree. intros ->. induction ds as [|f r IH]; cbn; [reflexivity|].
  rewrite in_frame_get. destruct (frame_get x f); [discriminate|]. cbn. exact IH.
Qed.

Lemma agree_fork ss ds : agree ss ds -> agree (sfork ss) (fork ds).
Proof. unfold agree, sfork, fork. intros ->. reflexivity. Qed.

(* a declaration the compiler accepts never fails at run time with
   "already declared", and the two scopes stay in agreement *)
Lemma declare_set_var x v ss ss' ds w :
  agree ss ds -> ds <> [] -> closer_id v = None -> declare x ss = (COk, ss') ->
  exists ds', set_var x v ds w = (Ok ds', w) /\ agree ss' ds'.
Proof.
  unfold agree. intros -> Hne Hc D. destruct ds as [|f r]; [contradiction|].
  unfold declare, set_var in *. cbn [map] in D.
  unfold ign, ignore_name in *.
  destruct (bytes_eqb x (bs "_")) eqn:E.
  - inversion D; subst. unfold bind, ret. rewrite Hc. eexists; split; reflexivity.
  - rewrite in_frame_get in D. destruct (frame_get x f) eqn:G; [discriminate|].
    inversion D; subst. unfold bind, ret. rewrite Hc. eexists; split; reflexivity.
Qed.
(* the converse: a redeclaration the run time would reject is rejected statically *)
Lemma declare_rejects_redeclaration x ss ss' :
  bytes_eqb x ign = false -> declare x ss = (COk, ss') -> fst (declare x ss') = CNotUnique.
Proof.
  intros E D. unfold declare in *. rewrite E in *.
  destruct ss as [|f r].
  - inversion D; subst. cbn. unfold in_frame. cbn.
    assert (R : bytes_eqb x x = true) by (unfold bytes_eqb; rewrite lexcmp_refl; reflexivity).
    rewrite R. reflexivity.
  - destruct (in_frame x f) eqn:I; [discriminate|]. inversion D; subst. unfold in_frame. cbn.
    assert (R : bytes_eqb x x = true) by (unfold bytes_eqb; rewrite lexcmp_refl; reflexivity).
    rewrite R. reflexivity.
Qed.

(* inner scopes may shadow: declaring in a fresh scope never fails *)
Lemma shadowing_ok x ss : fst (declare x (sfork ss)) = COk.
Proof. unfold declare, sfork. destruct (bytes_eqb x ign); reflexivity. Qed.
Lemma declared_is_visible x ss ss' :
  bytes_eqb x ign = false -> declare x ss = (COk, ss') -> visible x ss' = true.
Proof.
  intros E D. unfold declare in D. rewrite E in D.
  assert (R : bytes_eqb x x = true) by (unfold bytes_eqb; rewrite lexcmp_refl; reflexivity).
  destruct ss as [|f r].
  - inversion D; subst. cbn. unfold in_frame; cbn. rewrite R. reflexivity.
  - destruct (in_frame x f); [discriminate|]. inversion D; subst. cbn. unfold in_frame; cbn. rewrite R. reflexivity.
Qed.
Lemma visible_fork x ss : visible x (sfork ss) = visible x ss.
Proof. reflexivity. Qed.

(* COLLECT hides everything declared earlier in its own loop, nothing else *)
Lemma collect_hides x f r : visible x (clear_top (f :: r)) = visible x r.
Proof. reflexivity. Qed.
