(* Proofs/LoopProofs.v — C20: lock discipline, and the delivery specification of
   the event-loop model for every schedule. *)
From Ferret Require Import Base Loop.
From Coq Require Import Lia Permutation.
Local Open Scope N_scope.

(* ================= 1. lock discipline ================= *)

Lemma access_ok_no_race a b : access_ok a = true -> access_ok b = true -> race a b = false.
Proof.
  unfold access_ok, race, compat, conflict.
  destruct (la_kind a), (la_lock a), (la_kind b), (la_lock b); intros; try discriminate; reflexivity.
Qed.

(* for ANY table passing the check: no two accesses that can be enabled at the
   same time conflict on the listener table *)
Theorem lock_discipline_race_free t :
  check_locks t = true -> forall a b, In a t -> In b t -> race a b = false.
Proof.
  unfold check_locks. intros H a b Ha Hb.
  repeat (apply andb_prop in H; destruct H as [H ?]).
  rewrite forallb_forall in H.
  apply access_ok_no_race; auto.
Qed.

Lemma races_nil t : check_locks t = true -> races t = [].
Proof.
  intros H. unfold races.
  assert (F : forall p, In p (list_prod t t) -> race (fst p) (snd p) = false).
  { intros [a b] Hin. apply in_prod_iff in Hin. destruct Hin. cbn. eapply lock_discipline_race_free; eauto. }
  induction (list_prod t t) as [|p r IH]; cbn; [reflexivity|].
  rewrite (F p (or_introl eq_refl)). apply IH. intros q Hq. apply F. right. exact Hq.
Qed.

(* handlers run with the mutex released *)
Lemma handler_calls_unlocked t :
  check_locks t = true -> forall a, In a t -> la_kind a = ACall -> la_lock a = LNone.
Proof.
  unfold check_locks. intros H a Ha Hk.
  repeat (apply andb_prop in H; destruct H as [H ?]).
  rewrite forallb_forall in H. specialize (H a Ha). unfold access_ok in H. rewrite Hk in H.
  destruct (la_lock a); try discriminate; reflexivity.
Qed.

(* the shape found on the pinned tree: a write under RLock races with itself *)
Lemma write_under_rlock_races m n :
  race (mkAccess m AWrite LR n) (mkAccess m AWrite LR n) = true.
Proof. reflexivity. Qed.

(* ================= 2. list utilities ================= *)

Lemma nth_error_upd_same {A} (l : list A) n x y :
  nth_error l n = Some y -> nth_error (upd n x l) n = Some x.
Proof.
  revert n. induction l as [|z r IH]; intros [|n] H; cbn in *; try discriminate; auto.
Qed.

Lemma nth_error_upd_other {A} (l : list A) n m x :
  n <> m -> nth_error (upd n x l) m = nth_error l m.
Proof.
  revert n m. induction l as [|z r IH]; intros [|n] [|m] H; cbn in *; auto; congruence.
Qed.

Lemma length_upd {A} (l : list A) n x : List.length (upd n x l) = List.length l.
Proof. revert n. induction l as [|z r IH]; intros [|n]; cbn; auto. Qed.

Lemma insert_at_perm {A} n (x : A) l : Permutation (x :: l) (insert_at n x l).
Proof.
  revert l. induction n as [|n IH]; intros [|y r]; cbn; try reflexivity.
  rewrite perm_swap. constructor. apply IH.
Qed.

Lemma permute_perm {A} n (l : list A) : Permutation l (permute n l).
Proof.
  revert n. induction l as [|x r IH]; intros n; cbn; [constructor|].
  rewrite <- insert_at_perm. constructor. apply IH.
Qed.

Lemma permute_in {A} n (l : list A) x : In x (permute n l) <-> In x l.
Proof.
  split; apply Permutation_in; [symmetry|]; apply permute_perm.
Qed.

Lemma permute_nodup_fst {A B} n (l : list (A * B)) : NoDup (map fst l) -> NoDup (map fst (permute n l)).
Proof.
  intros H. eapply Permutation_NoDup; [|exact H]. apply Permutation_map, permute_perm.
Qed.

(* ================= 3. deliveries of one dispatch ================= *)

(* calls made in dispatch (c,k), oldest first (the log is newest first) *)
Fixpoint delivs (h : history) (c : nat) (k : N) : list lid :=
  match h with
  | [] => []
  | (_, RDeliver c' k' _ l _) :: r =>
      if Nat.eqb c' c && (k' =? k) then delivs r c k ++ [l] else delivs r c k
  | _ :: r => delivs r c k
  end.

Definition count_l (l : lid) (ls : list lid) : nat := List.length (filter (fun x => x =? l) ls).

Lemma count_l_app l a b : count_l l (a ++ b) = (count_l l a + count_l l b)%nat.
Proof. unfold count_l. rewrite filter_app, app_length. reflexivity. Qed.

Lemma ndeliv_delivs h c k l : ndeliv h c k l = count_l l (delivs h c k).
Proof.
  induction h as [|[t r] h IH]; [reflexivity|].
  unfold ndeliv in *. cbn [filter snd delivs].
  destruct r; cbn [is_deliv]; try exact IH.
  destruct (Nat.eqb c0 c && (k0 =? k)) eqn:E; cbn [andb].
  - rewrite count_l_app. unfold count_l at 2. cbn [filter].
    destruct (l0 =? l); cbn [List.length]; rewrite IH; lia.
  - exact IH.
Qed.

Lemma count_l_nodup l ls : NoDup ls -> (count_l l ls <= 1)%nat.
Proof.
  induction 1 as [|x r Hx Hnd IH]; cbn; [lia|].
  unfold count_l in *. cbn [filter]. destruct (x =? l) eqn:E; [|exact IH].
  apply N.eqb_eq in E. subst x. cbn [List.length].
  assert (filter (fun x => x =? l) r = []) as ->; [|cbn; lia].
  clear IH Hnd. induction r as [|y r IH]; [reflexivity|]. cbn.
  destruct (y =? l) eqn:E.
  - apply N.eqb_eq in E. subst. exfalso. apply Hx. left. reflexivity.
  - apply IH. intros H. apply Hx. right. exact H.
Qed.

Lemma count_l_in l ls : In l ls -> (1 <= count_l l ls)%nat.
Proof.
  induction ls as [|x r IH]; [intros []|]. intros [->|H]; unfold count_l in *; cbn [filter].
  - rewrite N.eqb_refl. cbn. lia.
  - destruct (x =? l); cbn [List.length]; specialize (IH H); lia.
Qed.

Lemma count_l_notin l ls : ~ In l ls -> count_l l ls = 0%nat.
Proof.
  induction ls as [|x r IH]; [reflexivity|]. intros H. unfold count_l in *. cbn [filter].
  destruct (x =? l) eqn:E.
  - apply N.eqb_eq in E. subst. exfalso. apply H. left. reflexivity.
  - apply IH. intros H'. apply H. right. exact H'.
Qed.

Lemma delivs_in h c k l : In l (delivs h c k) <-> exists t ev kd, In (t, RDeliver c k ev l kd) h.
Proof.
  induction h as [|[t r] h IH]; cbn [delivs].
  - split; [intros []|intros (?&?&?&[])].
  - assert (G : (exists t0 ev kd, In (t0, RDeliver c k ev l kd) h) -> exists t0 ev kd, In (t0, RDeliver c k ev l kd) ((t, r) :: h)).
    { intros (t0&ev&kd&H). exists t0, ev, kd. right. exact H. }
    destruct r;
      try (split; [intros H; apply G, IH, H | intros (t0&ev0&kd0&[H|H]); [discriminate H | apply IH; eauto]]).
    destruct (Nat.eqb c0 c && (k0 =? k)) eqn:E.
    + apply andb_prop in E. destruct E as [E1 E2]. apply Nat.eqb_eq in E1. apply N.eqb_eq in E2. subst.
      rewrite in_app_iff. split.
      * intros [H|[<-|[]]]; [apply G, IH, H|]. exists t, ev, kd. left. reflexivity.
      * intros (t0&ev0&kd0&[H|H]); [inversion H; subst; right; left; reflexivity | left; apply IH; eauto].
    + split; [intros H; apply G, IH, H|].
      intros (t0&ev0&kd0&[H|H]); [|apply IH; eauto].
      inversion H; subst. rewrite Nat.eqb_refl, N.eqb_refl in E. discriminate.
Qed.

(* ================= 4. the invariant ================= *)

Definition alive (h : history) (l : lid) (ev : event) (kd : hkind) : Prop :=
  exists ta, In (ta, RAdded l ev kd) h /\ forall tr, In (tr, RRemoved ev l) h -> tr < ta.

(* registered at instant ts: added before, and not removed between *)
Definition alive_at (h : history) (ts : N) (l : lid) (ev : event) (kd : hkind) : Prop :=
  exists ta, In (ta, RAdded l ev kd) h /\ ta < ts /\
             forall tr, In (tr, RRemoved ev l) h -> tr < ta \/ ts < tr.

Definition commit_rec (o : op) (res : N) : rec :=
  match o with
  | OAdd ev kd => RAdded res ev kd
  | ORemove ev l => RRemoved ev l
  | OCount ev => RCounted ev res
  end.

(* facts about the log alone *)
Record LInv (h : history) (clk nid : N) : Prop := {
  li_clock : forall t r, In (t, r) h -> t < clk;
  li_fresh : forall t l ev kd, In (t, RAdded l ev kd) h -> l < nid;
  li_add_unique : forall t l ev kd t' ev' kd',
      In (t, RAdded l ev kd) h -> In (t', RAdded l ev' kd') h -> t = t' /\ ev = ev' /\ kd = kd';
  li_snap : forall ts c j ev ls, In (ts, RSnap c j ev ls) h ->
      NoDup (map fst ls) /\ forall l kd, In (l, kd) ls <-> alive_at h ts l ev kd;
  li_snap_unique : forall ts c j ev ls ts' ev' ls',
      In (ts, RSnap c j ev ls) h -> In (ts', RSnap c j ev' ls') h -> ts = ts' /\ ev = ev' /\ ls = ls';
  li_recv_unique : forall t c j ev t' ev',
      In (t, RRecv c j ev) h -> In (t', RRecv c j ev') h -> t = t' /\ ev = ev';
  li_snap_recv : forall ts c j ev ls, In (ts, RSnap c j ev ls) h ->
      exists tr, In (tr, RRecv c j ev) h /\ tr < ts;
  li_removed_why : forall tr ev l, In (tr, RRemoved ev l) h ->
      (exists g i ts, In (ts, RStart g i (ORemove ev l)) h /\ ts < tr) \/
      (exists c k td, In (td, RDeliver c k ev l Once) h /\ td < tr);
  li_end : forall te g j o res, In (te, REnd g j o res) h ->
      exists tc, tc < te /\ In (tc, commit_rec o res) h /\
                 forall ts o', In (ts, RStart g j o') h -> ts < tc;
  li_deliv_snap : forall t c j ev l kd, In (t, RDeliver c j ev l kd) h ->
      exists ts ls, In (ts, RSnap c j ev ls) h /\ ts < t /\ In (l, kd) ls;
  li_prefix : forall ts c j ev ls, In (ts, RSnap c j ev ls) h ->
      exists rest, map fst ls = delivs h c j ++ rest;
  li_order : forall t c j ev l kd t' j' ev' l' kd',
      In (t, RDeliver c j ev l kd) h -> In (t', RDeliver c j' ev' l' kd') h -> t < t' -> j <= j';
  li_ready_snap : forall te c j ts j' ev ls,
      In (te, RReady c j) h -> In (ts, RSnap c j' ev ls) h -> j' < j -> ts < te;
  li_close_cancel : forall t c, In (t, RClose c) h -> exists tc, In (tc, RCancel) h /\ tc < t;
  li_close_final : forall t c t' r, In (t, RClose c) h -> In (t', r) h -> src_of r = Some c ->
      t' < t \/ (t' = t /\ r = RClose c);
  li_counted : forall tc ev n, In (tc, RCounted ev n) h ->
      forall ls, NoDup ls -> (forall l, In l ls -> exists kd, alive_at h tc l ev kd) ->
                 N.of_nat (List.length ls) <= n
}.

(* what a step has to know about the pre-state to append record rn *)
Definition rec_ok (h : history) (nid : N) (rn : rec) : Prop :=
  match rn with
  | RStart g j o => forall te o' res, ~ In (te, REnd g j o' res) h
  | RAdded l ev kd => l = nid
  | RRemoved ev l =>
      (exists g i ts, In (ts, RStart g i (ORemove ev l)) h) \/
      (exists c k td, In (td, RDeliver c k ev l Once) h)
  | REnd g j o res =>
      exists tc, In (tc, commit_rec o res) h /\ forall ts o', In (ts, RStart g j o') h -> ts < tc
  | RRecv c j ev => forall t ev', ~ In (t, RRecv c j ev') h
  | RSnap c j ev ls =>
      NoDup (map fst ls) /\ (forall l kd, In (l, kd) ls <-> alive h l ev kd) /\
      (forall t ev' ls', ~ In (t, RSnap c j ev' ls') h) /\
      (exists tr, In (tr, RRecv c j ev) h) /\
      (forall te j', In (te, RReady c j') h -> j' <= j)
  | RDeliver c j ev l kd =>
      (exists ts ls done rest, In (ts, RSnap c j ev ls) h /\ ls = done ++ (l, kd) :: rest /\
                               map fst done = delivs h c j) /\
      (forall t j' ev' l' kd', In (t, RDeliver c j' ev' l' kd') h -> j' <= j)
  | RClose c => exists tc, In (tc, RCancel) h
  | RCounted ev n =>
      forall ls, NoDup ls -> (forall l, In l ls -> exists kd, alive h l ev kd) -> N.of_nat (List.length ls) <= n
  | _ => True
  end /\
  (forall c, src_of rn = Some c -> forall t, ~ In (t, RClose c) h).

Ltac inlog H :=
  cbn [In] in H; destruct H as [H|H];
  [ first [discriminate H | injection H as; subst] | ].

Lemma alive_at_cons h clk rn ts l ev kd :
  (forall t r, In (t, r) h -> t < clk) -> ts < clk ->
  alive_at ((clk, rn) :: h) ts l ev kd <-> alive_at h ts l ev kd.
Proof.
  intros Hc Hts. split.
  - intros (ta & Ha & Hlt & Hr). inlog Ha; [lia|].
    exists ta. split; [exact Ha|]. split; [exact Hlt|]. intros tr H. apply Hr. right. exact H.
  - intros (ta & Ha & Hlt & Hr). exists ta. split; [right; exact Ha|]. split; [exact Hlt|].
    intros tr H. inlog H; [right; lia|]. apply Hr, H.
Qed.

Lemma alive_at_now h clk rn l ev kd :
  (forall t r, In (t, r) h -> t < clk) -> (forall l' ev' kd', rn <> RAdded l' ev' kd') ->
  (forall ev' l', rn <> RRemoved ev' l') ->
  alive_at ((clk, rn) :: h) clk l ev kd <-> alive h l ev kd.
Proof.
  intros Hc Hna Hnr. split.
  - intros (ta & Ha & Hlt & Hr). cbn [In] in Ha. destruct Ha as [Ha|Ha].
    { injection Ha as ? ?. subst. exfalso. eapply Hna. reflexivity. }
    exists ta. split; [exact Ha|]. intros tr H. destruct (Hr tr (or_intror H)) as [?|?]; [assumption|].
    specialize (Hc _ _ H). lia.
  - intros (ta & Ha & Hr). exists ta. split; [right; exact Ha|]. split; [eapply Hc, Ha|].
    intros tr H. cbn [In] in H. destruct H as [H|H].
    { injection H as ? ?. subst. exfalso. eapply Hnr. reflexivity. }
    left. apply Hr, H.
Qed.

Lemma delivs_cons_other h c k t r :
  (forall c' k' ev l kd, r = RDeliver c' k' ev l kd -> c' <> c \/ k' <> k) ->
  delivs ((t, r) :: h) c k = delivs h c k.
Proof.
  intros H. cbn [delivs]. destruct r; try reflexivity.
  destruct (H _ _ _ _ _ eq_refl) as [Hn|Hn].
  - apply Nat.eqb_neq in Hn. rewrite Hn. reflexivity.
  - apply N.eqb_neq in Hn. rewrite Hn, andb_false_r. reflexivity.
Qed.

Lemma delivs_nil_no_snap h clk nid c j :
  LInv h clk nid -> (forall t ev ls, ~ In (t, RSnap c j ev ls) h) -> delivs h c j = [].
Proof.
  intros L Hn. destruct (delivs h c j) as [|l r] eqn:E; [reflexivity|]. exfalso.
  assert (Hin : In l (delivs h c j)) by (rewrite E; left; reflexivity).
  apply delivs_in in Hin. destruct Hin as (t & ev & kd & Hin).
  destruct (li_deliv_snap _ _ _ L _ _ _ _ _ _ Hin) as (ts & ls & Hs & _). eapply Hn, Hs.
Qed.

Lemma LInv_cons h clk nid nid' rn :
  LInv h clk nid -> nid <= nid' -> (forall l ev kd, rn = RAdded l ev kd -> l < nid') ->
  rec_ok h nid rn -> LInv ((clk, rn) :: h) (clk + 1) nid'.
Proof.
  intros L Hnid Hadd [Hok Hcl].
  pose proof (li_clock _ _ _ L) as Hclk.
  constructor.
  - (* clock *) intros t r H. cbn [In] in H. destruct H as [H|H]; [injection H as ? ?; subst; lia|].
    specialize (Hclk _ _ H). lia.
  - (* fresh *) intros t l ev kd H. inlog H; [eapply Hadd; reflexivity|].
    pose proof (li_fresh _ _ _ L _ _ _ _ H). lia.
  - (* add unique *) intros t l ev kd t' ev' kd' H H'. inlog H; inlog H'.
    + auto.
    + cbn in Hok. subst. pose proof (li_fresh _ _ _ L _ _ _ _ H'). lia.
    + cbn in Hok. subst. pose proof (li_fresh _ _ _ L _ _ _ _ H). lia.
    + eapply (li_add_unique _ _ _ L); eauto.
  - (* snap contents *) intros ts c j ev ls H. inlog H.
    + cbn in Hok. destruct Hok as (Hnd & Hal & _). split; [exact Hnd|]. intros l kd.
      rewrite Hal. symmetry. apply alive_at_now; [exact Hclk| |]; intros; discriminate.
    + destruct (li_snap _ _ _ L _ _ _ _ _ H) as [Hnd Hal]. split; [exact Hnd|]. intros l kd.
      rewrite Hal. symmetry. apply alive_at_cons; [exact Hclk|]. eapply Hclk, H.
  - (* snap unique *) intros ts c j ev ls ts' ev' ls' H H'. inlog H; inlog H'.
    + auto.
    + cbn in Hok. destruct Hok as (_ & _ & Hno & _). exfalso. eapply Hno, H'.
    + cbn in Hok. destruct Hok as (_ & _ & Hno & _). exfalso. eapply Hno, H.
    + eapply (li_snap_unique _ _ _ L); eauto.
  - (* recv unique *) intros t c j ev t' ev' H H'. inlog H; inlog H'.
    + auto.
    + cbn in Hok. exfalso. eapply Hok, H'.
    + cbn in Hok. exfalso. eapply Hok, H.
    + eapply (li_recv_unique _ _ _ L); eauto.
  - (* snap after recv *) intros ts c j ev ls H. inlog H.
    + cbn in Hok. destruct Hok as (_ & _ & _ & (tr & Hr) & _). exists tr. split; [right; exact Hr|].
      eapply Hclk, Hr.
    + destruct (li_snap_recv _ _ _ L _ _ _ _ _ H) as (tr & Hr & Hlt). exists tr. split; [right; exact Hr|exact Hlt].
  - (* removed why *) intros tr ev l H. inlog H.
    + cbn in Hok. destruct Hok as [(g & i & ts & Hs)|(c & k & td & Hd)].
      * left. exists g, i, ts. split; [right; exact Hs|eapply Hclk, Hs].
      * right. exists c, k, td. split; [right; exact Hd|eapply Hclk, Hd].
    + destruct (li_removed_why _ _ _ L _ _ _ H) as [(g & i & ts & Hs & Hlt)|(c & k & td & Hd & Hlt)].
      * left. exists g, i, ts. split; [right; exact Hs|exact Hlt].
      * right. exists c, k, td. split; [right; exact Hd|exact Hlt].
  - (* end *) intros te g j o res H. inlog H.
    + cbn in Hok. destruct Hok as (tc & Hc & Hs). exists tc. split; [eapply Hclk, Hc|]. split; [right; exact Hc|].
      intros ts o' H'. inlog H'. apply (Hs _ _ H').
    + destruct (li_end _ _ _ L _ _ _ _ _ H) as (tc & Hlt & Hc & Hs). exists tc. split; [exact Hlt|]. split; [right; exact Hc|].
      intros ts o' H'. inlog H'; [|apply (Hs _ _ H')].
      cbn in Hok. exfalso. eapply Hok, H.
  - (* deliver after snap *) intros t c j ev l kd H. inlog H.
    + cbn in Hok. destruct Hok as ((ts & ls & done & rest & Hs & Hls & _) & _).
      exists ts, ls. split; [right; exact Hs|]. split; [eapply Hclk, Hs|].
      subst ls. apply in_or_app. right. left. reflexivity.
    + destruct (li_deliv_snap _ _ _ L _ _ _ _ _ _ H) as (ts & ls & Hs & Hlt & Hin).
      exists ts, ls. split; [right; exact Hs|]. split; assumption.
  - (* prefix *) intros ts c j ev ls H. inlog H.
    + cbn in Hok. destruct Hok as (_ & _ & Hno & _).
      rewrite delivs_cons_other by (intros; discriminate).
      rewrite (delivs_nil_no_snap _ _ _ _ _ L Hno). exists (map fst ls). reflexivity.
    + destruct (li_prefix _ _ _ L _ _ _ _ _ H) as (rest & Hp).
      destruct rn; try (rewrite delivs_cons_other by (intros; discriminate); exists rest; exact Hp).
      cbn in Hok. destruct Hok as ((ts0 & ls0 & done & rest0 & Hs0 & Hls0 & Hd0) & _).
      cbn [delivs]. destruct (Nat.eqb c0 c && (k =? j)) eqn:E; [|exists rest; exact Hp].
      apply andb_prop in E. destruct E as [E1 E2]. apply Nat.eqb_eq in E1. apply N.eqb_eq in E2. subst c0 k.
      destruct (li_snap_unique _ _ _ L _ _ _ _ _ _ _ _ H Hs0) as (_ & _ & ->).
      exists (map fst rest0). subst ls0. rewrite map_app, Hd0, <- app_assoc. reflexivity.
  - (* order *) intros t c j ev l kd t' j' ev' l' kd' H H' Hlt. inlog H; inlog H'.
    + lia.
    + specialize (Hclk _ _ H'). lia.
    + cbn in Hok. destruct Hok as (_ & Hle). eapply Hle, H.
    + eapply (li_order _ _ _ L); eauto.
  - (* ready after earlier snaps *) intros te c j ts j' ev ls H H' Hlt. inlog H; inlog H'.
    + eapply Hclk, H'.
    + cbn in Hok. destruct Hok as (_ & _ & _ & _ & Hle). specialize (Hle _ _ H). lia.
    + eapply (li_ready_snap _ _ _ L); eauto.
  - (* close after cancel *) intros t c H. inlog H.
    + cbn in Hok. destruct Hok as (tc & Hc). exists tc. split; [right; exact Hc|eapply Hclk, Hc].
    + destruct (li_close_cancel _ _ _ L _ _ H) as (tc & Hc & Hlt). exists tc. split; [right; exact Hc|exact Hlt].
  - (* closed is final *) intros t c t' r H H' Hsrc. cbn [In] in H, H'. destruct H as [H|H], H' as [H'|H'].
    + injection H as ? ?. injection H' as ? ?. subst. right. auto.
    + injection H as ? ?. subst. left. eapply Hclk, H'.
    + injection H' as ? ?. subst. exfalso. eapply Hcl; eauto.
    + eapply (li_close_final _ _ _ L); eauto.
  - (* counted *) intros tc ev n H ls Hnd Hal. inlog H.
    + cbn in Hok. apply Hok; [exact Hnd|]. intros l Hl. destruct (Hal l Hl) as (kd & Ha). exists kd.
      eapply alive_at_now; [exact Hclk| | |exact Ha]; intros; discriminate.
    + apply (li_counted _ _ _ L _ _ _ H ls Hnd). intros l Hl. destruct (Hal l Hl) as (kd & Ha). exists kd.
      eapply alive_at_cons; [exact Hclk|eapply Hclk, H|exact Ha].
Qed.

(* ---------- thread-local parts ---------- *)

Definition api_inv (h : history) (g : nat) (a : api) : Prop :=
  (forall ts j o, In (ts, RStart g j o) h -> j < a_idx a \/ (j = a_idx a /\ a_pc a <> AIdle)) /\
  (forall te j o res, In (te, REnd g j o res) h -> j < a_idx a) /\
  match a_pc a with
  | ACommitted res =>
      exists o rest tc, a_ops a = o :: rest /\ In (tc, commit_rec o res) h /\
                        forall ts o', In (ts, RStart g (a_idx a) o') h -> ts < tc
  | AStarted => exists o rest ts, a_ops a = o :: rest /\ In (ts, RStart g (a_idx a) o) h
  | AIdle => True
  end.

Definition in_disp (p : spc) : bool :=
  match p with SCalling _ _ | SDeleting _ _ _ => true | _ => false end.
Definition got_or_disp (p : spc) : bool :=
  match p with SGot _ | SCalling _ _ | SDeleting _ _ _ => true | _ => false end.

Definition src_bounds (h : history) (c : nat) (st : src) : Prop :=
  forall t r, In (t, r) h ->
    match r with
    | RReady c' j => c' = c -> j < s_cnt st \/ (j = s_cnt st /\ s_pc st <> STop)
    | RRecv c' j _ => c' = c -> j < s_cnt st \/ (j = s_cnt st /\ got_or_disp (s_pc st) = true)
    | RSnap c' j _ _ => c' = c -> j < s_cnt st \/ (j = s_cnt st /\ in_disp (s_pc st) = true)
    | RDeliver c' j _ _ _ => c' = c -> j < s_cnt st \/ (j = s_cnt st /\ in_disp (s_pc st) = true)
    | RClose c' => c' = c -> s_pc st = SClosed
    | _ => True
    end.

Definition disp_cur (h : history) (c : nat) (cnt : N) (ev : event) (todo : list (lid * hkind)) : Prop :=
  exists ts ls done, In (ts, RSnap c cnt ev ls) h /\ ls = done ++ todo /\ map fst done = delivs h c cnt.

Definition src_inv (h : history) (c : nat) (st : src) : Prop :=
  src_bounds h c st /\
  (forall ts j ev ls, In (ts, RSnap c j ev ls) h -> j < s_cnt st ->
      map fst ls = delivs h c j \/
      exists tc, In (tc, RCancel) h /\ forall te, In (te, RReady c (j + 1)) h -> tc < te) /\
  (forall tr j ev, In (tr, RRecv c j ev) h -> j < s_cnt st -> exists ts ls, In (ts, RSnap c j ev ls) h) /\
  (forall t j ev l, In (t, RDeliver c j ev l Once) h ->
      (j = s_cnt st /\ exists todo, s_pc st = SDeleting ev l todo) \/
      exists td, In (td, RRemoved ev l) h /\ t < td /\
                 forall ts' j' ev' ls', In (ts', RSnap c j' ev' ls') h -> j < j' -> td < ts') /\
  match s_pc st with
  | SGot ev => exists tr, In (tr, RRecv c (s_cnt st) ev) h
  | SCalling ev todo => todo <> [] /\ disp_cur h c (s_cnt st) ev todo
  | SDeleting ev l todo =>
      disp_cur h c (s_cnt st) ev todo /\ exists td, In (td, RDeliver c (s_cnt st) ev l Once) h
  | _ => True
  end.

Record Inv (s : state) : Prop := {
  inv_log : LInv (log s) (clock s) (next_id s);
  inv_tbl : forall l ev kd, In (mkE l ev kd) (tbl s) <-> alive (log s) l ev kd;
  inv_nodup : NoDup (map e_id (tbl s));
  inv_canc : cstate s <> CNone -> exists tc, In (tc, RCancel) (log s);
  inv_api : forall g a, nth_error (apis s) g = Some a -> api_inv (log s) g a;
  inv_src : forall c st, nth_error (srcs s) c = Some st -> src_inv (log s) c st
}.

(* ---------- table lemmas ---------- *)

Lemma in_snapshot ev t l kd : In (l, kd) (tbl_snapshot ev t) <-> In (mkE l ev kd) t.
Proof.
  unfold tbl_snapshot, tbl_for. rewrite in_map_iff. split.
  - intros ([l' ev' kd'] & Heq & Hin). apply filter_In in Hin. destruct Hin as [Hin He].
    cbn in *. apply N.eqb_eq in He. injection Heq as ? ?. subst. exact Hin.
  - intros H. exists (mkE l ev kd). split; [reflexivity|]. apply filter_In. split; [exact H|].
    cbn. apply N.eqb_refl.
Qed.

Lemma nodup_map_filter {A B} (f : A -> B) p (l : list A) : NoDup (map f l) -> NoDup (map f (filter p l)).
Proof.
  induction l as [|x r IH]; cbn; [auto|]. intros H. inversion H as [|? ? Hx Hr]; subst.
  destruct (p x); [|auto]. cbn. constructor; [|auto].
  intros Hin. apply Hx. apply in_map_iff in Hin. destruct Hin as (y & Hy & Hin).
  apply filter_In in Hin. apply in_map_iff. exists y. tauto.
Qed.

Lemma snapshot_nodup ev t : NoDup (map e_id t) -> NoDup (map fst (tbl_snapshot ev t)).
Proof.
  intros H. unfold tbl_snapshot, tbl_for. rewrite map_map. cbn [fst].
  apply nodup_map_filter. exact H.
Qed.

Lemma in_remove ev l t e : In e (tbl_remove ev l t) <-> In e t /\ ~ (e_id e = l /\ e_ev e = ev).
Proof.
  unfold tbl_remove. rewrite filter_In. split; intros [H1 H2]; split; auto.
  - intros [<- <-]. rewrite !N.eqb_refl in H2. discriminate.
  - destruct (e_id e =? l) eqn:E1; [|reflexivity]. destruct (e_ev e =? ev) eqn:E2; [|reflexivity].
    apply N.eqb_eq in E1, E2. tauto.
Qed.

Lemma alive_cons_other h t rn l ev kd :
  (forall l' ev' kd', rn <> RAdded l' ev' kd') -> (forall ev' l', rn <> RRemoved ev' l') ->
  alive ((t, rn) :: h) l ev kd <-> alive h l ev kd.
Proof.
  intros Hna Hnr. split; intros (ta & Ha & Hr).
  - cbn [In] in Ha. destruct Ha as [Ha|Ha]; [injection Ha as ? ?; subst; exfalso; eapply Hna; reflexivity|].
    exists ta. split; [exact Ha|]. intros tr H. apply Hr. right. exact H.
  - exists ta. split; [right; exact Ha|]. intros tr H. cbn [In] in H.
    destruct H as [H|H]; [injection H as ? ?; subst; exfalso; eapply Hnr; reflexivity|]. apply Hr, H.
Qed.

Lemma alive_cons_added h clk n ev0 kd0 l ev kd :
  (forall t r, In (t, r) h -> t < clk) ->
  alive ((clk, RAdded n ev0 kd0) :: h) l ev kd <-> alive h l ev kd \/ (l = n /\ ev = ev0 /\ kd = kd0).
Proof.
  intros Hclk. split.
  - intros (ta & Ha & Hr). inlog Ha; [right; auto|]. left. exists ta. split; [exact Ha|].
    intros tr H. apply Hr. right. exact H.
  - intros [(ta & Ha & Hr)|(-> & -> & ->)].
    + exists ta. split; [right; exact Ha|]. intros tr H. inlog H. apply Hr, H.
    + exists clk. split; [left; reflexivity|]. intros tr H. inlog H. eapply Hclk, H.
Qed.

Lemma alive_cons_removed h clk ev0 l0 l ev kd :
  (forall t r, In (t, r) h -> t < clk) ->
  alive ((clk, RRemoved ev0 l0) :: h) l ev kd <-> alive h l ev kd /\ ~ (l = l0 /\ ev = ev0).
Proof.
  intros Hclk. split.
  - intros (ta & Ha & Hr). inlog Ha. split.
    + exists ta. split; [exact Ha|]. intros tr H. apply Hr. right. exact H.
    + intros [-> ->]. specialize (Hr clk (or_introl eq_refl)). specialize (Hclk _ _ Ha). lia.
  - intros [(ta & Ha & Hr) Hne]. exists ta. split; [right; exact Ha|]. intros tr H.
    cbn [In] in H. destruct H as [H|H]; [injection H as ? ? ?; subst; exfalso; apply Hne; auto|]. apply Hr, H.
Qed.

(* ---------- frame lemmas: a record appended by somebody else ---------- *)

Definition owner (r : rec) : option nat :=
  match r with
  | RReady c _ | RRecv c _ _ | RSnap c _ _ _ | RDeliver c _ _ _ _ | RClose c => Some c
  | _ => None
  end.

Lemma api_inv_frame h clk rn g a :
  (forall j o, rn <> RStart g j o) -> (forall j o res, rn <> REnd g j o res) ->
  api_inv h g a -> api_inv ((clk, rn) :: h) g a.
Proof.
  intros Hs He (B1 & B2 & C). split; [|split].
  - intros ts j o H. cbn [In] in H. destruct H as [H|H]; [injection H as ? ?; subst; exfalso; eapply Hs; reflexivity|].
    eapply B1, H.
  - intros te j o res H. cbn [In] in H. destruct H as [H|H]; [injection H as ? ?; subst; exfalso; eapply He; reflexivity|].
    eapply B2, H.
  - destruct (a_pc a); [exact I| |].
    + destruct C as (o & rest & ts & Ho & Hin). exists o, rest, ts. split; [exact Ho|right; exact Hin].
    + destruct C as (o & rest & tc & Ho & Hin & Hlt). exists o, rest, tc. split; [exact Ho|]. split; [right; exact Hin|].
      intros ts o' H. cbn [In] in H. destruct H as [H|H]; [injection H as ? ?; subst; exfalso; eapply Hs; reflexivity|].
      eapply Hlt, H.
Qed.

Lemma delivs_cons_owner h c k t rn : owner rn <> Some c -> delivs ((t, rn) :: h) c k = delivs h c k.
Proof.
  intros H. apply delivs_cons_other. intros c' k' ev l kd ->. cbn in H. left. congruence.
Qed.

Lemma disp_cur_frame h clk rn c cnt ev todo :
  delivs ((clk, rn) :: h) c cnt = delivs h c cnt ->
  disp_cur h c cnt ev todo -> disp_cur ((clk, rn) :: h) c cnt ev todo.
Proof.
  intros Hd (ts & ls & done & Hs & Hl & Hm). exists ts, ls, done. split; [right; exact Hs|].
  split; [exact Hl|]. rewrite Hd. exact Hm.
Qed.

Lemma src_inv_frame h clk rn c st :
  owner rn <> Some c -> src_inv h c st -> src_inv ((clk, rn) :: h) c st.
Proof.
  intros Ho (S1 & S2 & S3 & S4 & S5).
  assert (Hd : forall k, delivs ((clk, rn) :: h) c k = delivs h c k) by (intros; apply delivs_cons_owner, Ho).
  split; [|split; [|split; [|split]]].
  - intros t r H. cbn [In] in H. destruct H as [H|H]; [|apply (S1 _ _ H)].
    injection H as ? ?. subst. destruct r; cbn in Ho; try exact I; intros ->; congruence.
  - intros ts j ev ls H Hlt. cbn [In] in H. destruct H as [H|H]; [injection H as ? ?; subst; cbn in Ho; congruence|].
    rewrite Hd. destruct (S2 _ _ _ _ H Hlt) as [E|(tc & Hc & Hte)]; [left; exact E|right].
    exists tc. split; [right; exact Hc|]. intros te H'. cbn [In] in H'.
    destruct H' as [H'|H']; [injection H' as ? ?; subst; cbn in Ho; congruence|]. apply Hte, H'.
  - intros tr j ev H Hlt. cbn [In] in H. destruct H as [H|H]; [injection H as ? ?; subst; cbn in Ho; congruence|].
    destruct (S3 _ _ _ H Hlt) as (ts & ls & Hs). exists ts, ls. right. exact Hs.
  - intros t j ev l H. cbn [In] in H. destruct H as [H|H]; [injection H as ? ?; subst; cbn in Ho; congruence|].
    destruct (S4 _ _ _ _ H) as [E|(td & Hr & Hlt & Hsn)]; [left; exact E|right].
    exists td. split; [right; exact Hr|]. split; [exact Hlt|]. intros ts' j' ev' ls' H' Hj. cbn [In] in H'.
    destruct H' as [H'|H']; [injection H' as ? ?; subst; cbn in Ho; congruence|]. eapply Hsn; eauto.
  - destruct (s_pc st); try exact I.
    + destruct S5 as (tr & Hr). exists tr. right. exact Hr.
    + destruct S5 as (Hne & Hc). split; [exact Hne|]. apply disp_cur_frame; [apply Hd|exact Hc].
    + destruct S5 as (Hc & td & Hdl). split; [apply disp_cur_frame; [apply Hd|exact Hc]|].
      exists td. right. exact Hdl.
Qed.

(* ---------- assembling the invariant of the successor state ---------- *)

Lemma Inv_build s t' n' cs' apis' srcs' rn :
  Inv s -> next_id s <= n' -> (forall l ev kd, rn = RAdded l ev kd -> l < n') ->
  rec_ok (log s) (next_id s) rn ->
  (forall l ev kd, In (mkE l ev kd) t' <-> alive ((clock s, rn) :: log s) l ev kd) ->
  NoDup (map e_id t') ->
  (cs' <> CNone -> exists tc, In (tc, RCancel) ((clock s, rn) :: log s)) ->
  (forall g a, nth_error apis' g = Some a -> api_inv ((clock s, rn) :: log s) g a) ->
  (forall c st, nth_error srcs' c = Some st -> src_inv ((clock s, rn) :: log s) c st) ->
  Inv (mkState t' n' (clock s + 1) cs' apis' srcs' ((clock s, rn) :: log s)).
Proof.
  intros I Hn Ha Hok Ht Hnd Hc Hap Hsr. constructor; cbn; auto.
  eapply LInv_cons; eauto. apply (inv_log _ I).
Qed.

Lemma tbl_same s rn :
  Inv s -> (forall l' ev' kd', rn <> RAdded l' ev' kd') -> (forall ev' l', rn <> RRemoved ev' l') ->
  forall l ev kd, In (mkE l ev kd) (tbl s) <-> alive ((clock s, rn) :: log s) l ev kd.
Proof. intros I H1 H2 l ev kd. rewrite alive_cons_other by assumption. apply (inv_tbl _ I). Qed.

Lemma tbl_removed s ev0 l0 :
  Inv s -> forall l ev kd, In (mkE l ev kd) (tbl_remove ev0 l0 (tbl s)) <->
                           alive ((clock s, RRemoved ev0 l0) :: log s) l ev kd.
Proof.
  intros I l ev kd. rewrite alive_cons_removed by apply (li_clock _ _ _ (inv_log _ I)).
  rewrite in_remove, (inv_tbl _ I). cbn. tauto.
Qed.

Lemma tbl_removed_nodup s ev0 l0 : Inv s -> NoDup (map e_id (tbl_remove ev0 l0 (tbl s))).
Proof. intros I. apply nodup_map_filter, (inv_nodup _ I). Qed.

Lemma canc_keep s rn :
  Inv s -> cstate s <> CNone -> exists tc, In (tc, RCancel) ((clock s, rn) :: log s).
Proof. intros I H. destruct (inv_canc _ I H) as (tc & Hc). exists tc. right. exact Hc. Qed.

Lemma threads_upd {A} (P : nat -> A -> Prop) (l : list A) n x y :
  nth_error l n = Some y -> P n x ->
  (forall m z, m <> n -> nth_error l m = Some z -> P m z) ->
  forall m z, nth_error (upd n x l) m = Some z -> P m z.
Proof.
  intros Hn Hx Ho m z H. destruct (Nat.eq_dec n m) as [<-|Hne].
  - rewrite (nth_error_upd_same _ _ _ _ Hn) in H. injection H as <-. exact Hx.
  - rewrite nth_error_upd_other in H by exact Hne. apply Ho; [congruence|exact H].
Qed.

Lemma apis_frame s rn :
  Inv s -> (forall g j o, rn <> RStart g j o) -> (forall g j o res, rn <> REnd g j o res) ->
  forall g a, nth_error (apis s) g = Some a -> api_inv ((clock s, rn) :: log s) g a.
Proof. intros I H1 H2 g a H. apply api_inv_frame; auto. apply (inv_api _ I), H. Qed.

Lemma srcs_frame s rn :
  Inv s -> owner rn = None ->
  forall c st, nth_error (srcs s) c = Some st -> src_inv ((clock s, rn) :: log s) c st.
Proof. intros I H c st Hn. apply src_inv_frame; [congruence|]. apply (inv_src _ I), Hn. Qed.

Lemma nodup_snoc {A} (l : list A) x : NoDup l -> ~ In x l -> NoDup (l ++ [x]).
Proof.
  intros H Hx. induction H as [|y r Hy Hr IH]; cbn; [constructor; [intros []|constructor]|].
  constructor.
  - rewrite in_app_iff. intros [H|[H|[]]]; [auto|]. subst. apply Hx. left. reflexivity.
  - apply IH. intros H. apply Hx. right. exact H.
Qed.

(* ---------- steps of an API goroutine ---------- *)

Lemma api_step_inv s g a :
  Inv s -> nth_error (apis s) g = Some a ->
  match api_step g (tbl s) (next_id s) a with
  | None => True
  | Some (a', t', n', r) =>
      Inv (mkState t' n' (clock s + 1) (cstate s) (upd g a' (apis s)) (srcs s) ((clock s, r) :: log s))
  end.
Proof.
  intros I Hg. pose proof (inv_api _ I _ _ Hg) as (B1 & B2 & C).
  pose proof (li_clock _ _ _ (inv_log _ I)) as Hclk.
  unfold api_step. destruct (a_ops a) as [|o rest] eqn:Eo; [trivial|].
  destruct (a_pc a) as [| |res] eqn:Ep.
  - (* start *)
    apply Inv_build; auto; try lia; try (intros; discriminate).
    + split; [|intros; discriminate]. cbn. intros te o' res H. specialize (B2 _ _ _ _ H). lia.
    + apply tbl_same; [exact I| |]; intros; discriminate.
    + apply (inv_nodup _ I).
    + apply canc_keep, I.
    + eapply (threads_upd (api_inv _)); [exact Hg| |].
      * split; [|split]; cbn.
        -- intros ts j o' H. inlog H; [right; split; [reflexivity|discriminate]|].
           destruct (B1 _ _ _ H) as [?|[? Hn]]; [left; assumption|]. exfalso. apply Hn. reflexivity.
        -- intros te j o' res H. inlog H. eapply B2, H.
        -- exists o, rest, (clock s). split; [reflexivity|left; reflexivity].
      * intros m z Hne Hm. apply api_inv_frame; [intros j o' E; injection E as ? ? ?; congruence|intros; discriminate|].
        apply (inv_api _ I), Hm.
    + apply srcs_frame; [exact I|reflexivity].
  - (* critical section *)
    destruct C as (o0 & rest0 & ts0 & Eo0 & Hs0). injection Eo0 as <- <-.
    assert (Hown : forall resv, In (clock s, commit_rec o resv) ((clock s, commit_rec o resv) :: log s) ->
              (forall j o', commit_rec o resv <> RStart g j o') ->
              api_inv ((clock s, commit_rec o resv) :: log s) g (mkApi (a_idx a) (ACommitted resv) (o :: rest))).
    { intros resv _ Hns. split; [|split]; cbn.
      - intros ts j o' H. cbn [In] in H. destruct H as [H|H]; [injection H as ? ?; exfalso; eapply Hns; eauto|].
        destruct (B1 _ _ _ H) as [?|[? ?]]; [left; assumption|right; split; [assumption|discriminate]].
      - intros te j o' res H. cbn [In] in H. destruct H as [H|H]; [destruct o; discriminate H|]. eapply B2, H.
      - exists o, rest, (clock s). split; [reflexivity|]. split; [left; reflexivity|].
        intros ts o' H. cbn [In] in H. destruct H as [H|H]; [injection H as ? ?; exfalso; eapply Hns; eauto|].
        eapply Hclk, H. }
    destruct o as [ev kd|ev l|ev].
    + (* AddListener *)
      apply Inv_build; auto; try lia.
      * intros l ev' kd' E. injection E as <- _ _. lia.
      * split; [reflexivity|intros; discriminate].
      * intros l ev' kd'. rewrite in_app_iff, alive_cons_added by exact Hclk. rewrite (inv_tbl _ I).
        cbn. split; (intros [H|H]; [left; exact H|right]).
        -- destruct H as [H|[]]. injection H as ? ? ?. auto.
        -- destruct H as (-> & -> & ->). left. reflexivity.
      * rewrite map_app. apply nodup_snoc; [apply (inv_nodup _ I)|]. cbn.
        intros Hin. apply in_map_iff in Hin. destruct Hin as ([l' ev' kd'] & Hid & Hin). cbn in Hid. subst l'.
        apply (inv_tbl _ I) in Hin. destruct Hin as (ta & Ha & _).
        pose proof (li_fresh _ _ _ (inv_log _ I) _ _ _ _ Ha). lia.
      * apply canc_keep, I.
      * eapply (threads_upd (api_inv _)); [exact Hg| |].
        -- apply (Hown (next_id s)); [left; reflexivity|intros; discriminate].
        -- intros m z _ Hm. apply api_inv_frame; [intros; discriminate|intros; discriminate|]. apply (inv_api _ I), Hm.
      * apply srcs_frame; [exact I|reflexivity].
    + (* RemoveListener *)
      apply Inv_build; auto; try lia; try (intros; discriminate).
      * split; [|intros; discriminate]. cbn. left. exists g, (a_idx a), ts0. exact Hs0.
      * apply tbl_removed, I.
      * apply tbl_removed_nodup, I.
      * apply canc_keep, I.
      * eapply (threads_upd (api_inv _)); [exact Hg| |].
        -- apply (Hown 0); [left; reflexivity|intros; discriminate].
        -- intros m z _ Hm. apply api_inv_frame; [intros; discriminate|intros; discriminate|]. apply (inv_api _ I), Hm.
      * apply srcs_frame; [exact I|reflexivity].
    + (* Listeners *)
      apply Inv_build; auto; try lia; try (intros; discriminate).
      * split; [|intros; discriminate]. cbn. intros ls Hnd Hal. unfold tbl_count, tbl_for.
        assert (Hincl : incl ls (map e_id (filter (fun e => e_ev e =? ev) (tbl s)))).
        { intros l Hl. destruct (Hal l Hl) as (kd & Ha). apply (inv_tbl _ I) in Ha.
          apply in_map_iff. exists (mkE l ev kd). split; [reflexivity|]. apply filter_In. split; [exact Ha|].
          cbn. apply N.eqb_refl. }
        pose proof (NoDup_incl_length Hnd Hincl) as Hlen. rewrite map_length in Hlen. lia.
      * apply tbl_same; [exact I| |]; intros; discriminate.
      * apply (inv_nodup _ I).
      * apply canc_keep, I.
      * eapply (threads_upd (api_inv _)); [exact Hg| |].
        -- apply (Hown (tbl_count ev (tbl s))); [left; reflexivity|intros; discriminate].
        -- intros m z _ Hm. apply api_inv_frame; [intros; discriminate|intros; discriminate|]. apply (inv_api _ I), Hm.
      * apply srcs_frame; [exact I|reflexivity].
  - (* return *)
    destruct C as (o0 & rest0 & tc & Eo0 & Hc & Hlt). injection Eo0 as <- <-.
    apply Inv_build; auto; try lia; try (intros; discriminate).
    + split; [|intros; discriminate]. cbn. exists tc. split; [exact Hc|exact Hlt].
    + apply tbl_same; [exact I| |]; intros; discriminate.
    + apply (inv_nodup _ I).
    + apply canc_keep, I.
    + eapply (threads_upd (api_inv _)); [exact Hg| |].
      * split; [|split]; cbn; [| |trivial].
        -- intros ts j o' H. inlog H. destruct (B1 _ _ _ H) as [?|[? ?]]; left; lia.
        -- intros te j o' res' H. inlog H; [lia|]. specialize (B2 _ _ _ _ H). lia.
      * intros m z Hne Hm. apply api_inv_frame; [intros; discriminate|intros j o' r' E; injection E as ? ? ? ?; congruence|].
        apply (inv_api _ I), Hm.
    + apply srcs_frame; [exact I|reflexivity].
Qed.

(* ---------- steps of a consumer goroutine ---------- *)

Definition src_le (h : history) (c : nat) (cnt : N) : Prop :=
  forall t r, In (t, r) h ->
    match r with
    | RReady c' j | RRecv c' j _ | RSnap c' j _ _ | RDeliver c' j _ _ _ => c' = c -> j <= cnt
    | RClose c' => c' <> c
    | _ => True
    end.

Definition completed (h : history) (c : nat) (cnt : N) : Prop :=
  forall ts j ev ls, In (ts, RSnap c j ev ls) h -> j < cnt ->
    map fst ls = delivs h c j \/
    exists tc, In (tc, RCancel) h /\ forall te, In (te, RReady c (j + 1)) h -> tc < te.

Definition recv_snap (h : history) (c : nat) (cnt : N) : Prop :=
  forall tr j ev, In (tr, RRecv c j ev) h -> j < cnt -> exists ts ls, In (ts, RSnap c j ev ls) h.

Definition once_done (h : history) (c : nat) : Prop :=
  forall t j ev l, In (t, RDeliver c j ev l Once) h ->
    exists td, In (td, RRemoved ev l) h /\ t < td /\
               forall ts' j' ev' ls', In (ts', RSnap c j' ev' ls') h -> j < j' -> td < ts'.

Lemma bounds_le h c st : src_bounds h c st -> s_pc st <> SClosed -> src_le h c (s_cnt st).
Proof.
  intros S1 Hp t r H. specialize (S1 _ _ H). destruct r; trivial;
    try (intros E; destruct (S1 E) as [?|[? _]]; lia).
  intros E. apply Hp, S1, E.
Qed.

Lemma after_todo_inv h clk nid c st ev todo :
  LInv h clk nid -> src_le h c (s_cnt st) -> completed h c (s_cnt st) -> recv_snap h c (s_cnt st) ->
  once_done h c -> disp_cur h c (s_cnt st) ev todo -> src_inv h c (after_todo st ev todo).
Proof.
  intros L Hle Hco Hrs Hon Hd. destruct todo as [|x todo]; cbn [after_todo].
  - destruct Hd as (ts0 & ls0 & done & Hs0 & Hl0 & Hm0). rewrite app_nil_r in Hl0. subst ls0.
    split; [|split; [|split; [|split]]]; cbn [s_cnt s_pc]; [| | | |trivial].
    + intros t r H. specialize (Hle _ _ H). destruct r; cbn in *; trivial; try (intros E; specialize (Hle E); left; lia).
      intros E. exfalso. exact (Hle E).
    + intros ts j ev' ls H Hlt. destruct (N.eq_dec j (s_cnt st)) as [->|Hne].
      * destruct (li_snap_unique _ _ _ L _ _ _ _ _ _ _ _ H Hs0) as (_ & _ & ->). left. exact Hm0.
      * apply (Hco _ _ _ _ H). lia.
    + intros tr j ev' H Hlt. destruct (N.eq_dec j (s_cnt st)) as [->|Hne].
      * destruct (li_snap_recv _ _ _ L _ _ _ _ _ Hs0) as (tr0 & Hr0 & _).
        destruct (li_recv_unique _ _ _ L _ _ _ _ _ _ H Hr0) as (_ & ->). eauto.
      * apply (Hrs _ _ _ H). lia.
    + intros t j ev' l H. right. apply (Hon _ _ _ _ H).
  - split; [|split; [|split; [|split]]]; cbn [s_cnt s_pc].
    + intros t r H. specialize (Hle _ _ H). destruct r; cbn in *; trivial;
        try (intros E; specialize (Hle E); destruct (N.eq_dec k (s_cnt st)); [right; split; [assumption|first [discriminate|reflexivity]]|left; lia]).
      intros E. exfalso. exact (Hle E).
    + exact Hco.
    + exact Hrs.
    + intros t j ev' l H. right. apply (Hon _ _ _ _ H).
    + split; [discriminate|exact Hd].
Qed.

Lemma src_le_cons h clk rn c cnt :
  src_le h c cnt ->
  match rn with
  | RReady c' j | RRecv c' j _ | RSnap c' j _ _ | RDeliver c' j _ _ _ => c' = c -> j <= cnt
  | RClose c' => c' <> c
  | _ => True
  end -> src_le ((clk, rn) :: h) c cnt.
Proof.
  intros Hle Hn t r H. cbn [In] in H. destruct H as [H|H]; [injection H as ? ?; subst; exact Hn|apply (Hle _ _ H)].
Qed.

Lemma completed_cons h clk rn c cnt :
  (forall t r, In (t, r) h -> t < clk) ->
  completed h c cnt ->
  (forall j ev ls, rn = RSnap c j ev ls -> cnt <= j) ->
  (forall j ev l kd, rn = RDeliver c j ev l kd -> cnt <= j) ->
  completed ((clk, rn) :: h) c cnt.
Proof.
  intros Hclk Hco Hns Hnd ts j ev ls H Hlt. cbn [In] in H.
  destruct H as [H|H]; [injection H as ? ?; subst; specialize (Hns _ _ _ eq_refl); lia|].
  rewrite delivs_cons_other.
  - destruct (Hco _ _ _ _ H Hlt) as [E|(tc & Hc & Hte)]; [left; exact E|right].
    exists tc. split; [right; exact Hc|]. intros te H'. cbn [In] in H'. destruct H' as [H'|H'].
    + injection H' as ? ?. subst. eapply Hclk, Hc.
    + apply Hte, H'.
  - intros c' k' ev' l kd ->. destruct (Nat.eq_dec c' c) as [->|]; [right|left; assumption].
    specialize (Hnd _ _ _ _ eq_refl). lia.
Qed.

Lemma recv_snap_cons h clk rn c cnt :
  recv_snap h c cnt -> (forall j ev, rn = RRecv c j ev -> cnt <= j) -> recv_snap ((clk, rn) :: h) c cnt.
Proof.
  intros Hrs Hn tr j ev H Hlt. cbn [In] in H. destruct H as [H|H].
  - injection H as ? ?. subst. specialize (Hn _ _ eq_refl). lia.
  - destruct (Hrs _ _ _ H Hlt) as (ts & ls & Hs). exists ts, ls. right. exact Hs.
Qed.

Definition once_ok (h : history) (c : nat) (t j : N) (ev : event) (l : lid) : Prop :=
  exists td, In (td, RRemoved ev l) h /\ t < td /\
             forall ts' j' ev' ls', In (ts', RSnap c j' ev' ls') h -> j < j' -> td < ts'.

Lemma once_ok_cons h clk rn c t j ev l :
  (forall t r, In (t, r) h -> t < clk) -> once_ok h c t j ev l -> once_ok ((clk, rn) :: h) c t j ev l.
Proof.
  intros Hclk (td & Hr & Hlt & Hsn). exists td. split; [right; exact Hr|]. split; [exact Hlt|].
  intros ts' j' ev' ls' H' Hj. cbn [In] in H'. destruct H' as [H'|H'].
  - injection H' as ? ?. subst. eapply Hclk, Hr.
  - eapply Hsn; eauto.
Qed.

Lemma once_done_cons h clk rn c :
  (forall t r, In (t, r) h -> t < clk) ->
  once_done h c -> (forall j ev l, rn <> RDeliver c j ev l Once) -> once_done ((clk, rn) :: h) c.
Proof.
  intros Hclk Hon Hn t j ev l H. cbn [In] in H.
  destruct H as [H|H]; [injection H as ? ?; subst; exfalso; eapply Hn; reflexivity|].
  apply (once_ok_cons _ _ _ _ _ _ _ _ Hclk). apply (Hon _ _ _ _ H).
Qed.

(* when the consumer is not in the delete section, every one-shot call has been followed by its delete *)
Lemma once_done_of h c st :
  src_inv h c st -> (forall ev l todo, s_pc st <> SDeleting ev l todo) -> once_done h c.
Proof.
  intros (_ & _ & _ & S4 & _) Hp t j ev l H. destruct (S4 _ _ _ _ H) as [(_ & todo & E)|R]; [|exact R].
  exfalso. eapply Hp, E.
Qed.

Lemma srcs_others s rn c :
  Inv s -> (owner rn = Some c \/ owner rn = None) ->
  forall m z, m <> c -> nth_error (srcs s) m = Some z -> src_inv ((clock s, rn) :: log s) m z.
Proof.
  intros J Ho m z Hne Hm. apply src_inv_frame; [|apply (inv_src _ J), Hm].
  destruct Ho as [-> | ->]; congruence.
Qed.

Lemma disp_cur_advance h clk c cnt ev l kd rest :
  disp_cur h c cnt ev ((l, kd) :: rest) ->
  disp_cur ((clk, RDeliver c cnt ev l kd) :: h) c cnt ev rest.
Proof.
  intros (ts & ls & done & Hs & Hl & Hm). exists ts, ls, (done ++ [(l, kd)]).
  split; [right; exact Hs|]. split; [rewrite <- app_assoc; exact Hl|].
  cbn [delivs]. rewrite Nat.eqb_refl, N.eqb_refl. cbn [andb]. rewrite map_app, Hm. reflexivity.
Qed.

Ltac old_bounds S1 :=
  let E := fresh "E" in
  match goal with
  | H : In (_, ?r) _ |- _ =>
      specialize (S1 _ _ H); destruct r; cbn in *; trivial; intros E; specialize (S1 E);
      try congruence;
      try (destruct S1 as [?|[? ?]];
           [left; first [assumption|lia]
           |first [exfalso; congruence | discriminate | right; split; [first [assumption|lia]|first [discriminate|reflexivity|assumption]] | left; lia]])
  end.

Lemma src_step_inv s c ch st :
  Inv s -> nth_error (srcs s) c = Some st ->
  match src_step c ch (tbl s) (cancelled s) st with
  | None => True
  | Some (st', t', r) =>
      Inv (mkState t' (next_id s) (clock s + 1) (cstate s) (apis s) (upd c st' (srcs s)) ((clock s, r) :: log s))
  end.
Proof.
  intros J Hc. pose proof (inv_src _ J _ _ Hc) as SI.
  pose proof SI as SI0. unfold src_inv, src_bounds in SI0.
  pose proof (inv_log _ J) as L. pose proof (li_clock _ _ _ L) as Hclk.
  assert (Hcanc : cancelled s = true -> exists tc, In (tc, RCancel) (log s)).
  { intros Ec. apply (inv_canc _ J). unfold cancelled in Ec. destruct (cstate s); discriminate. }
  unfold src_step. destruct (s_pc st) as [| |ev|ev todo|ev l todo|] eqn:Ep.
  - (* Ready() *)
    destruct SI0 as (S1 & S2 & S3 & S4 & S5).
    apply Inv_build; auto; try lia; try (intros; discriminate).
    + split; [exact Logic.I|]. cbn. intros c0 E t H. injection E as <-. specialize (S1 _ _ H). cbn in S1.
      specialize (S1 eq_refl). congruence.
    + apply tbl_same; [exact J| |]; intros; discriminate.
    + apply (inv_nodup _ J).
    + apply canc_keep, J.
    + apply apis_frame; [exact J| |]; intros; discriminate.
    + eapply (threads_upd (src_inv _)); [exact Hc| |apply srcs_others; [exact J|left; reflexivity]].
      split; [|split; [|split; [|split]]]; cbn [s_cnt s_pc]; [| | | |exact Logic.I].
      * intros t r H. inlog H; [intros _; right; split; [reflexivity|discriminate]|]. old_bounds S1.
      * apply completed_cons; auto; intros; discriminate.
      * apply recv_snap_cons; auto; intros; discriminate.
      * intros t j ev l H. right. inlog H. apply once_ok_cons; [exact Hclk|].
        destruct (S4 _ _ _ _ H) as [(_ & ? & ?)|R]; [congruence|exact R].
  - (* select *)
    destruct SI0 as (S1 & S2 & S3 & S4 & S5).
    destruct (cancelled s) eqn:Ec.
    + (* cancelled: return, Close() *)
      apply Inv_build; auto; try lia; try (intros; discriminate).
      * split; [cbn; apply Hcanc; reflexivity|]. cbn. intros c0 E t H. injection E as <-. specialize (S1 _ _ H). cbn in S1.
        specialize (S1 eq_refl). congruence.
      * apply tbl_same; [exact J| |]; intros; discriminate.
      * apply (inv_nodup _ J).
      * apply canc_keep, J.
      * apply apis_frame; [exact J| |]; intros; discriminate.
      * eapply (threads_upd (src_inv _)); [exact Hc| |apply srcs_others; [exact J|left; reflexivity]].
        split; [|split; [|split; [|split]]]; cbn [s_cnt s_pc]; [| | | |exact Logic.I].
        -- intros t r H. inlog H; [intros _; reflexivity|]. old_bounds S1.
        -- apply completed_cons; auto; intros; discriminate.
        -- apply recv_snap_cons; auto; intros; discriminate.
        -- intros t j ev l H. right. inlog H. apply once_ok_cons; [exact Hclk|].
           destruct (S4 _ _ _ _ H) as [(_ & ? & ?)|R]; [congruence|exact R].
    + destruct (s_evs st) as [|ev rest] eqn:Ee; [exact Logic.I|].
      (* Recv() *)
      apply Inv_build; auto; try lia; try (intros; discriminate).
      * split; cbn.
        -- intros t ev' H. specialize (S1 _ _ H). cbn in S1. destruct (S1 eq_refl) as [?|[_ ?]]; [lia|congruence].
        -- intros c0 E t H. injection E as <-. specialize (S1 _ _ H). cbn in S1. specialize (S1 eq_refl). congruence.
      * apply tbl_same; [exact J| |]; intros; discriminate.
      * apply (inv_nodup _ J).
      * apply canc_keep, J.
      * apply apis_frame; [exact J| |]; intros; discriminate.
      * eapply (threads_upd (src_inv _)); [exact Hc| |apply srcs_others; [exact J|left; reflexivity]].
        split; [|split; [|split; [|split]]]; cbn [s_cnt s_pc].
        -- intros t r H. inlog H; [intros _; right; split; reflexivity|]. old_bounds S1.
        -- apply completed_cons; auto; intros; discriminate.
        -- apply recv_snap_cons; auto. intros j ev' E. injection E as <- _. lia.
        -- intros t j ev' l H. right. inlog H. apply once_ok_cons; [exact Hclk|].
           destruct (S4 _ _ _ _ H) as [(_ & ? & ?)|R]; [congruence|exact R].
        -- exists (clock s). left. reflexivity.
  - (* emit: snapshot section *)
    destruct SI0 as (S1 & S2 & S3 & S4 & S5).
    set (ls := permute ch (tbl_snapshot ev (tbl s))).
    assert (Hnosnap : forall t ev' ls', ~ In (t, RSnap c (s_cnt st) ev' ls') (log s)).
    { intros t ev' ls' H. specialize (S1 _ _ H). cbn in S1. destruct (S1 eq_refl) as [?|[_ ?]]; [lia|congruence]. }
    assert (Hok : rec_ok (log s) (next_id s) (RSnap c (s_cnt st) ev ls)).
    { split; cbn.
      - split; [apply permute_nodup_fst, snapshot_nodup, (inv_nodup _ J)|].
        split; [intros l kd; unfold ls; rewrite permute_in, in_snapshot; apply (inv_tbl _ J)|].
        split; [exact Hnosnap|]. split; [exact S5|].
        intros te j' H. specialize (S1 _ _ H). cbn in S1. destruct (S1 eq_refl) as [?|[? _]]; lia.
      - intros c0 E; discriminate. }
    assert (L' : LInv ((clock s, RSnap c (s_cnt st) ev ls) :: log s) (clock s + 1) (next_id s)).
    { eapply LInv_cons; eauto; [lia|intros; discriminate]. }
    apply Inv_build; auto; try lia; try (intros; discriminate).
    + apply tbl_same; [exact J| |]; intros; discriminate.
    + apply (inv_nodup _ J).
    + apply canc_keep, J.
    + apply apis_frame; [exact J| |]; intros; discriminate.
    + eapply (threads_upd (src_inv _)); [exact Hc| |apply srcs_others; [exact J|left; reflexivity]].
      eapply after_todo_inv; [exact L'| | | | |].
      * apply src_le_cons; [apply bounds_le; [exact (proj1 SI)|rewrite Ep; discriminate]|]. intros _. lia.
      * apply completed_cons; auto; [intros j ev' ls' E; injection E as <- _ _; lia|intros; discriminate].
      * apply recv_snap_cons; auto; intros; discriminate.
      * apply once_done_cons; [exact Hclk| |intros; discriminate].
        apply (once_done_of _ _ _ SI). rewrite Ep. intros; discriminate.
      * exists (clock s), ls, []. split; [left; reflexivity|]. split; [reflexivity|].
        rewrite delivs_cons_other by (intros; discriminate).
        rewrite (delivs_nil_no_snap _ _ _ _ _ L Hnosnap). reflexivity.
  - (* emit: loop over the snapshot *)
    destruct SI0 as (S1 & S2 & S3 & S4 & (Hne & Hd)).
    destruct todo as [|[l kd] rest]; [exact Logic.I|].
    destruct (cancelled s) eqn:Ec.
    + (* ctx.Err() != nil: return, back to the top of the loop, Ready() *)
      apply Inv_build; auto; try lia; try (intros; discriminate).
      * split; [exact Logic.I|]. cbn. intros c0 E t H. injection E as <-. specialize (S1 _ _ H). cbn in S1.
        specialize (S1 eq_refl). congruence.
      * apply tbl_same; [exact J| |]; intros; discriminate.
      * apply (inv_nodup _ J).
      * apply canc_keep, J.
      * apply apis_frame; [exact J| |]; intros; discriminate.
      * eapply (threads_upd (src_inv _)); [exact Hc| |apply srcs_others; [exact J|left; reflexivity]].
        split; [|split; [|split; [|split]]]; cbn [s_cnt s_pc]; [| | | |exact Logic.I].
        -- intros t r H. inlog H; [intros _; right; split; [reflexivity|discriminate]|]. old_bounds S1.
        -- intros ts j ev' ls H Hlt. inlog H. rewrite delivs_cons_other by (intros; discriminate).
           destruct (N.eq_dec j (s_cnt st)) as [->|Hne'].
           ++ right. destruct (Hcanc eq_refl) as (tc & Htc). exists tc. split; [right; exact Htc|].
              intros te H'. inlog H'; [eapply Hclk, Htc|].
              specialize (S1 _ _ H'). cbn in S1. destruct (S1 eq_refl) as [?|[? _]]; lia.
           ++ destruct (S2 _ _ _ _ H ltac:(lia)) as [E|(tc & Htc & Hte)]; [left; exact E|right].
              exists tc. split; [right; exact Htc|]. intros te H'. inlog H'; [eapply Hclk, Htc|apply Hte, H'].
        -- intros tr j ev' H Hlt. inlog H. destruct (N.eq_dec j (s_cnt st)) as [->|Hne'].
           ++ destruct Hd as (ts0 & ls0 & done & Hs0 & _).
              destruct (li_snap_recv _ _ _ L _ _ _ _ _ Hs0) as (tr0 & Hr0 & _).
              destruct (li_recv_unique _ _ _ L _ _ _ _ _ _ H Hr0) as (_ & ->). exists ts0, ls0. right. exact Hs0.
           ++ destruct (S3 _ _ _ H ltac:(lia)) as (ts & ls & Hs). exists ts, ls. right. exact Hs.
        -- intros t j ev' l' H. right. inlog H. apply once_ok_cons; [exact Hclk|].
           destruct (S4 _ _ _ _ H) as [(_ & ? & ?)|R]; [congruence|exact R].
    + (* the handler is called *)
      assert (Hok : rec_ok (log s) (next_id s) (RDeliver c (s_cnt st) ev l kd)).
      { split; cbn.
        - split.
          + destruct Hd as (ts & ls & done & Hs & Hl & Hm). exists ts, ls, done, rest. auto.
          + intros t j' ev' l' kd' H. specialize (S1 _ _ H). cbn in S1. destruct (S1 eq_refl) as [?|[? _]]; lia.
        - intros c0 E t H. injection E as <-. specialize (S1 _ _ H). cbn in S1. specialize (S1 eq_refl). congruence. }
      assert (L' : LInv ((clock s, RDeliver c (s_cnt st) ev l kd) :: log s) (clock s + 1) (next_id s)).
      { eapply LInv_cons; eauto; [lia|intros; discriminate]. }
      assert (Hod : once_done (log s) c) by (apply (once_done_of _ _ _ SI); rewrite Ep; intros; discriminate).
      apply Inv_build; auto; try lia; try (intros; discriminate).
      * apply tbl_same; [exact J| |]; intros; discriminate.
      * apply (inv_nodup _ J).
      * apply canc_keep, J.
      * apply apis_frame; [exact J| |]; intros; discriminate.
      * eapply (threads_upd (src_inv _)); [exact Hc| |apply srcs_others; [exact J|left; reflexivity]].
        destruct kd.
        -- (* persistent *)
           eapply after_todo_inv; [exact L'| | | | |].
           ++ apply src_le_cons; [apply bounds_le; [exact (proj1 SI)|rewrite Ep; discriminate]|]. intros _. lia.
           ++ apply completed_cons; auto; [intros; discriminate|intros j ev' l' kd' E; injection E as <- _ _ _; lia].
           ++ apply recv_snap_cons; auto; intros; discriminate.
           ++ apply once_done_cons; [exact Hclk|exact Hod|intros; discriminate].
           ++ apply disp_cur_advance, Hd.
        -- (* one-shot: the delete section follows *)
           split; [|split; [|split; [|split]]]; cbn [s_cnt s_pc].
           ++ intros t r H. inlog H; [intros _; right; split; reflexivity|]. old_bounds S1.
           ++ apply completed_cons; auto; [intros; discriminate|intros j ev' l' kd' E; injection E as <- _ _ _; lia].
           ++ apply recv_snap_cons; auto; intros; discriminate.
           ++ intros t j ev' l' H. inlog H; [left; split; [reflexivity|eauto]|].
              right. apply once_ok_cons; [exact Hclk|]. apply (Hod _ _ _ _ H).
           ++ split; [apply disp_cur_advance, Hd|]. exists (clock s). left. reflexivity.
  - (* emit: delete section of a one-shot handler *)
    destruct SI0 as (S1 & S2 & S3 & S4 & (Hd & td0 & Hdl)).
    assert (Hok : rec_ok (log s) (next_id s) (RRemoved ev l)).
    { split; cbn; [right; eauto|intros; discriminate]. }
    assert (L' : LInv ((clock s, RRemoved ev l) :: log s) (clock s + 1) (next_id s)).
    { eapply LInv_cons; eauto; [lia|intros; discriminate]. }
    apply Inv_build; auto; try lia; try (intros; discriminate).
    + apply tbl_removed, J.
    + apply tbl_removed_nodup, J.
    + apply canc_keep, J.
    + apply apis_frame; [exact J| |]; intros; discriminate.
    + eapply (threads_upd (src_inv _)); [exact Hc| |apply srcs_others; [exact J|right; reflexivity]].
      eapply after_todo_inv; [exact L'| | | | |].
      * apply src_le_cons; [apply bounds_le; [exact (proj1 SI)|rewrite Ep; discriminate]|exact Logic.I].
      * apply completed_cons; auto; intros; discriminate.
      * apply recv_snap_cons; auto; intros; discriminate.
      * intros t j ev' l' H. inlog H. destruct (S4 _ _ _ _ H) as [(-> & todo' & E)|R].
        -- injection E as <- <- _. exists (clock s). split; [left; reflexivity|]. split; [eapply Hclk, H|].
           intros ts' j' ev'' ls' H' Hj. inlog H'. specialize (S1 _ _ H'). cbn in S1.
           destruct (S1 eq_refl) as [?|[? _]]; lia.
        -- apply once_ok_cons; [exact Hclk|exact R].
      * apply disp_cur_frame; [apply delivs_cons_other; intros; discriminate|exact Hd].
  - exact Logic.I.
Qed.

(* ---------- every step preserves the invariant; it holds initially ---------- *)

Lemma step_inv s t : Inv s -> Inv (step s t).
Proof.
  intros J. destruct t as [g|c ch|]; cbn [step].
  - destruct (nth_error (apis s) g) as [a|] eqn:Eg; [|exact J].
    pose proof (api_step_inv s g a J Eg) as H.
    destruct (api_step g (tbl s) (next_id s) a) as [[[[a' t'] n'] r]|]; [exact H|exact J].
  - destruct (nth_error (srcs s) c) as [st|] eqn:Ec; [|exact J].
    pose proof (src_step_inv s c ch st J Ec) as H.
    destruct (src_step c ch (tbl s) (cancelled s) st) as [[[st' t'] r]|]; [exact H|exact J].
  - destruct (cstate s) eqn:Ecs; [| |exact J].
    + apply Inv_build; auto; try lia; try (intros; discriminate).
      * split; [exact Logic.I|intros; discriminate].
      * apply tbl_same; [exact J| |]; intros; discriminate.
      * apply (inv_nodup _ J).
      * intros _. exists (clock s). left. reflexivity.
      * apply apis_frame; [exact J| |]; intros; discriminate.
      * apply srcs_frame; [exact J|reflexivity].
    + apply Inv_build; auto; try lia; try (intros; discriminate).
      * split; [exact Logic.I|intros; discriminate].
      * apply tbl_same; [exact J| |]; intros; discriminate.
      * apply (inv_nodup _ J).
      * intros _. apply canc_keep; [exact J|]. rewrite Ecs. discriminate.
      * apply apis_frame; [exact J| |]; intros; discriminate.
      * apply srcs_frame; [exact J|reflexivity].
Qed.

Lemma init_inv ops evs : Inv (init ops evs).
Proof.
  constructor; cbn.
  - constructor; cbn; intros; try contradiction.
  - intros l ev kd. split; [intros []|intros (ta & [] & _)].
  - constructor.
  - intros H. exfalso. apply H. reflexivity.
  - intros g a H. apply nth_error_In, in_map_iff in H. destruct H as (o & <- & _).
    split; [|split]; cbn; [intros ? ? ? []|intros ? ? ? ? []|exact Logic.I].
  - intros c st H. apply nth_error_In, in_map_iff in H. destruct H as (e & <- & _).
    split; [|split; [|split; [|split]]]; cbn; [intros ? ? []|intros ? ? ? ? []|intros ? ? ? []|intros ? ? ? ? []|exact Logic.I].
Qed.

Lemma lrun_inv s sched : Inv s -> Inv (lrun s sched).
Proof.
  revert s. induction sched as [|t r IH]; intros s J; cbn; [exact J|]. apply IH, step_inv, J.
Qed.

Theorem reachable_inv ops evs sched : Inv (lrun (init ops evs) sched).
Proof. apply lrun_inv, init_inv. Qed.

(* records of a consumer come from an existing consumer *)
Definition Own (s : state) : Prop :=
  forall t r c, In (t, r) (log s) -> owner r = Some c -> (c < List.length (srcs s))%nat.

Lemma step_own s t : Own s -> Own (step s t).
Proof.
  intros O. destruct t as [g|c ch|]; cbn [step].
  - destruct (nth_error (apis s) g) as [a|]; [|exact O].
    destruct (api_step g (tbl s) (next_id s) a) as [[[[a' t'] n'] r]|] eqn:E; [|exact O].
    intros t0 r0 c0 H Ho. cbn in *. destruct H as [H|H]; [|eapply O; eauto].
    injection H as ? ?. subst. unfold api_step in E.
    destruct (a_ops a); [discriminate|]. destruct (a_pc a); [|destruct o|]; injection E as ? ? ? ?; subst; discriminate.
  - destruct (nth_error (srcs s) c) as [st|] eqn:Ec; [|exact O].
    destruct (src_step c ch (tbl s) (cancelled s) st) as [[[st' t'] r]|] eqn:E; [|exact O].
    intros t0 r0 c0 H Ho. cbn in *. rewrite length_upd. destruct H as [H|H]; [|eapply O; eauto].
    injection H as ? ?. subst.
    assert (Hc : (c < List.length (srcs s))%nat) by (apply nth_error_Some; congruence).
    unfold src_step in E. destruct (s_pc st).
    + injection E as ? ? ?; subst. cbn in Ho. congruence.
    + destruct (cancelled s); [|destruct (s_evs st); [discriminate|]]; injection E as ? ? ?; subst; cbn in Ho; congruence.
    + injection E as ? ? ?; subst. cbn in Ho. congruence.
    + destruct todo as [|[l kd] rest]; [discriminate|]. destruct (cancelled s); injection E as ? ? ?; subst; cbn in Ho; congruence.
    + injection E as ? ? ?; subst. discriminate.
    + discriminate.
  - destruct (cstate s); [| |exact O]; intros t0 r0 c0 H Ho; cbn in *;
      (destruct H as [H|H]; [injection H as ? ?; subst; discriminate|eapply O; eauto]).
Qed.

Lemma reachable_own ops evs sched : Own (lrun (init ops evs) sched).
Proof.
  assert (G : forall s, Own s -> Own (lrun s sched)).
  { induction sched as [|t r IH]; intros s O; cbn; [exact O|]. apply IH, step_own, O. }
  apply G. intros t r c [].
Qed.

(* ================= 5. the delivery specification ================= *)

Lemma in_obs h t r : In (t, r) (obs h) <-> In (t, r) h /\ observable r = true.
Proof. unfold obs. rewrite filter_In. reflexivity. Qed.

Lemma ndeliv_obs h c k l : ndeliv (obs h) c k l = ndeliv h c k l.
Proof.
  unfold ndeliv, obs. induction h as [|[t r] h IH]; [reflexivity|]. cbn [filter snd].
  destruct r; cbn [observable is_deliv]; cbn [filter snd is_deliv]; try exact IH.
  destruct (Nat.eqb c0 c && (k0 =? k) && (l0 =? l)); cbn [List.length]; rewrite IH; reflexivity.
Qed.

Lemma nodup_app_l {A} (a b : list A) : NoDup (a ++ b) -> NoDup a.
Proof.
  induction a as [|x a IH]; cbn; [constructor|]. intros H. inversion H as [|? ? Hx Hr]; subst.
  constructor; [|apply IH, Hr]. intros Hin. apply Hx, in_or_app. left. exact Hin.
Qed.

Lemma delivs_nodup h clk nid c k : LInv h clk nid -> NoDup (delivs h c k).
Proof.
  intros L. destruct (delivs h c k) as [|l r] eqn:E; [constructor|]. rewrite <- E.
  assert (Hin : In l (delivs h c k)) by (rewrite E; left; reflexivity).
  apply delivs_in in Hin. destruct Hin as (t & ev & kd & Hin).
  destruct (li_deliv_snap _ _ _ L _ _ _ _ _ _ Hin) as (ts & ls & Hs & _).
  destruct (li_prefix _ _ _ L _ _ _ _ _ Hs) as (rest & Hp).
  destruct (li_snap _ _ _ L _ _ _ _ _ Hs) as (Hnd & _). rewrite Hp in Hnd. eapply nodup_app_l, Hnd.
Qed.

Section Spec.
  Variable s : state.
  Hypothesis J : Inv s.
  Hypothesis O : Own s.
  Let h := log s.
  Let L : LInv h (clock s) (next_id s) := inv_log _ J.

  Lemma src_of_record t r c : In (t, r) h -> owner r = Some c -> exists st, nth_error (srcs s) c = Some st.
  Proof.
    intros H Ho. specialize (O _ _ _ H Ho). destruct (nth_error (srcs s) c) eqn:E; [eauto|].
    apply nth_error_None in E. lia.
  Qed.

  Lemma spec_at_most_once : at_most_once (obs h).
  Proof.
    intros c k l. rewrite ndeliv_obs, ndeliv_delivs. apply count_l_nodup. eapply delivs_nodup, L.
  Qed.

  Lemma added_unique t l ev kd t' ev' kd' :
    In (t, RAdded l ev kd) h -> In (t', RAdded l ev' kd') h -> t = t' /\ ev = ev' /\ kd = kd'.
  Proof. apply (li_add_unique _ _ _ L). Qed.

  (* a call of l in dispatch (c,k): the snapshot of that dispatch holds l, registered before it *)
  Lemma deliv_facts t c k ev l kd :
    In (t, RDeliver c k ev l kd) h ->
    exists ts ls ta, In (ts, RSnap c k ev ls) h /\ ts < t /\ In (ta, RAdded l ev kd) h /\ ta < ts /\
                     (forall tr, In (tr, RRemoved ev l) h -> tr < ta \/ ts < tr).
  Proof.
    intros H. destruct (li_deliv_snap _ _ _ L _ _ _ _ _ _ H) as (ts & ls & Hs & Hlt & Hin).
    destruct (li_snap _ _ _ L _ _ _ _ _ Hs) as (_ & Hal). apply Hal in Hin.
    destruct Hin as (ta & Ha & Hlt' & Hr). exists ts, ls, ta. auto.
  Qed.

  Lemma spec_must_deliver : must_deliver (obs h).
  Proof.
    intros g i ev kd l ta c k tr te Ha Hr Hlt He Hnc Hnr Hon.
    apply in_obs in Ha, Hr, He. destruct Ha as [Ha _], Hr as [Hr _], He as [He _].
    rewrite ndeliv_obs, ndeliv_delivs.
    destruct (src_of_record _ _ c He eq_refl) as (st & Hst).
    pose proof (inv_src _ J _ _ Hst) as (S1 & S2 & S3 & S4 & S5).
    assert (Hk : k < s_cnt st).
    { specialize (S1 _ _ He). cbn in S1. destruct (S1 eq_refl) as [?|[? _]]; lia. }
    destruct (S3 _ _ _ Hr Hk) as (ts & ls & Hs).
    destruct (li_snap_recv _ _ _ L _ _ _ _ _ Hs) as (tr0 & Hr0 & Hlt0).
    destruct (li_recv_unique _ _ _ L _ _ _ _ _ _ Hr Hr0) as (<- & _).
    assert (Hse : ts < te) by (eapply (li_ready_snap _ _ _ L); eauto; lia).
    assert (Hall : map fst ls = delivs h c k).
    { destruct (S2 _ _ _ _ Hs Hk) as [E|(tc & Hc & Hte)]; [exact E|]. exfalso.
      specialize (Hte _ He). assert (te < tc) by (apply Hnc, in_obs; auto). lia. }
    destruct (li_end _ _ _ L _ _ _ _ _ Ha) as (tca & Hlta & Hca & _). cbn in Hca.
    assert (Hin : In (l, kd) ls).
    { apply (li_snap _ _ _ L _ _ _ _ _ Hs). exists tca. split; [exact Hca|]. split; [lia|].
      intros trm Hrm. right.
      destruct (li_removed_why _ _ _ L _ _ _ Hrm) as [(g' & i' & ts' & Hs' & Hlt')|(c' & k' & td & Hd & Hlt')].
      - assert (te < ts') by (eapply Hnr, in_obs; eauto). lia.
      - destruct (deliv_facts _ _ _ _ _ _ Hd) as (ts2 & ls2 & ta2 & Hs2 & Hlt2 & Ha2 & _).
        destruct (added_unique _ _ _ _ _ _ _ Hca Ha2) as (_ & _ & ->).
        destruct (Hon eq_refl c' k' ev Once td) as [[-> ->]|?]; [apply in_obs; auto| |lia].
        destruct (li_snap_unique _ _ _ L _ _ _ _ _ _ _ _ Hs Hs2) as (-> & _). lia. }
    assert (Hl : In l (delivs h c k)).
    { rewrite <- Hall. apply in_map_iff. exists (l, kd). auto. }
    pose proof (count_l_in _ _ Hl). pose proof (count_l_nodup l _ (delivs_nodup _ _ _ c k L)). lia.
  Qed.

  Lemma spec_must_not_deliver : must_not_deliver (obs h).
  Proof.
    intros ga ia ev kd l ta gr ir res tsr ter c k ev' tr Ha Hsr Hlt Her Hr Hlt'.
    apply in_obs in Ha, Hsr, Her, Hr. destruct Ha as [Ha _], Hsr as [Hsr _], Her as [Her _], Hr as [Hr _].
    rewrite ndeliv_obs, ndeliv_delivs. apply count_l_notin. intros Hin.
    apply delivs_in in Hin. destruct Hin as (t & ev2 & kd2 & Hd).
    destruct (deliv_facts _ _ _ _ _ _ Hd) as (ts & ls & ta2 & Hs & Hlts & Ha2 & Hlta & Hrm).
    destruct (li_end _ _ _ L _ _ _ _ _ Ha) as (tca & Hltca & Hca & _). cbn in Hca.
    destruct (added_unique _ _ _ _ _ _ _ Hca Ha2) as (-> & -> & ->).
    destruct (li_end _ _ _ L _ _ _ _ _ Her) as (tcr & Hltcr & Hcr & Hst). cbn in Hcr.
    specialize (Hst _ _ Hsr).
    destruct (li_snap_recv _ _ _ L _ _ _ _ _ Hs) as (tr0 & Hr0 & Hlt0).
    destruct (li_recv_unique _ _ _ L _ _ _ _ _ _ Hr Hr0) as (<- & _).
    destruct (Hrm _ Hcr); lia.
  Qed.

  Lemma spec_once_not_again : once_not_again (obs h).
  Proof.
    intros t c k ev l k' Hd Hk. apply in_obs in Hd. destruct Hd as [Hd _].
    rewrite ndeliv_obs, ndeliv_delivs. apply count_l_notin. intros Hin.
    apply delivs_in in Hin. destruct Hin as (t2 & ev2 & kd2 & Hd2).
    destruct (deliv_facts _ _ _ _ _ _ Hd) as (ts1 & ls1 & ta1 & Hs1 & Hlt1 & Ha1 & Hlta1 & _).
    destruct (deliv_facts _ _ _ _ _ _ Hd2) as (ts2 & ls2 & ta2 & Hs2 & Hlt2 & Ha2 & Hlta2 & Hrm2).
    destruct (added_unique _ _ _ _ _ _ _ Ha1 Ha2) as (<- & <- & <-).
    destruct (src_of_record _ _ c Hd eq_refl) as (st & Hst).
    pose proof (inv_src _ J _ _ Hst) as (S1 & S2 & S3 & S4 & S5).
    destruct (S4 _ _ _ _ Hd) as [(-> & _)|(td & Hr & Hlt & Hsn)].
    - specialize (S1 _ _ Hd2). cbn in S1. destruct (S1 eq_refl) as [?|[? _]]; lia.
    - specialize (Hsn _ _ _ _ Hs2 Hk). destruct (Hrm2 _ Hr); lia.
  Qed.

  Lemma spec_source_order : source_order (obs h).
  Proof.
    split.
    - intros t c k ev l kd t' k' ev' l' kd' H H' Hlt. apply in_obs in H, H'.
      eapply (li_order _ _ _ L); [apply H|apply H'|exact Hlt].
    - intros t c k ev l kd H. apply in_obs in H. destruct H as [H _].
      destruct (li_deliv_snap _ _ _ L _ _ _ _ _ _ H) as (ts & ls & Hs & Hlt & _).
      destruct (li_snap_recv _ _ _ L _ _ _ _ _ Hs) as (tr & Hr & Hlt').
      exists tr. split; [apply in_obs; auto|lia].
  Qed.

  Lemma spec_right_listener : right_listener (obs h).
  Proof.
    intros t c k ev l kd ta g i ev' kd' Hd Ha. apply in_obs in Hd, Ha. destruct Hd as [Hd _], Ha as [Ha _].
    destruct (deliv_facts _ _ _ _ _ _ Hd) as (ts & ls & ta2 & _ & _ & Ha2 & _).
    destruct (li_end _ _ _ L _ _ _ _ _ Ha) as (tca & _ & Hca & _). cbn in Hca.
    destruct (added_unique _ _ _ _ _ _ _ Hca Ha2) as (_ & -> & ->). auto.
  Qed.

  Lemma spec_closed_is_final : closed_is_final (obs h).
  Proof.
    intros t c H. apply in_obs in H. destruct H as [H _]. split.
    - destruct (li_close_cancel _ _ _ L _ _ H) as (tc & Hc & Hlt). exists tc. split; [apply in_obs; auto|exact Hlt].
    - intros t' r H' Hsrc. apply in_obs in H'. destruct H' as [H' _].
      eapply (li_close_final _ _ _ L); eauto.
  Qed.

  Lemma spec_count_lower_bound : count_lower_bound (obs h).
  Proof.
    intros g i ev n ts te ls Hs He Hnd Hall. apply in_obs in Hs, He. destruct Hs as [Hs _], He as [He _].
    destruct (li_end _ _ _ L _ _ _ _ _ He) as (tc & Hlt & Hc & Hst). cbn in Hc. specialize (Hst _ _ Hs).
    apply (li_counted _ _ _ L _ _ _ Hc ls Hnd). intros l Hl.
    destruct (Hall l Hl) as (ga & ia & ta & Ha & Hlta & Hrm). apply in_obs in Ha. destruct Ha as [Ha _].
    destruct (li_end _ _ _ L _ _ _ _ _ Ha) as (tca & Hltca & Hca & _). cbn in Hca.
    exists Persistent, tca. split; [exact Hca|]. split; [lia|]. intros trm Hr. right.
    destruct (li_removed_why _ _ _ L _ _ _ Hr) as [(g' & i' & ts' & Hs' & Hlt')|(c' & k' & td & Hd & Hlt')].
    - assert (te < ts') by (eapply Hrm, in_obs; eauto). lia.
    - destruct (deliv_facts _ _ _ _ _ _ Hd) as (_ & _ & ta2 & _ & _ & Ha2 & _).
      destruct (added_unique _ _ _ _ _ _ _ Hca Ha2) as (_ & _ & E). discriminate E.
  Qed.

  Lemma spec_all : delivery_spec (obs h).
  Proof.
    split; [apply spec_at_most_once|]. split; [apply spec_must_deliver|].
    split; [apply spec_must_not_deliver|]. split; [apply spec_once_not_again|].
    split; [apply spec_source_order|]. split; [apply spec_right_listener|].
    split; [apply spec_closed_is_final|apply spec_count_lower_bound].
  Qed.
End Spec.

(* the delivery specification holds after EVERY schedule, from every initial configuration *)
Theorem delivery_spec_all_schedules ops evs sched :
  delivery_spec (obs (log (lrun (init ops evs) sched))).
Proof. apply spec_all; [apply reachable_inv|apply reachable_own]. Qed.

(* ================= 6. history_ok accepts every history that satisfies the specification ================= *)

Lemma no_cancel_before_spec h te :
  no_cancel_before h te = true -> forall tc, In (tc, RCancel) h -> te < tc.
Proof.
  unfold no_cancel_before. rewrite forallb_forall. intros H tc Hin. specialize (H _ Hin). cbn in H.
  apply N.ltb_lt, H.
Qed.

Lemma no_remove_before_spec h ev l te :
  no_remove_before h ev l te = true -> forall g i ts, In (ts, RStart g i (ORemove ev l)) h -> te < ts.
Proof.
  unfold no_remove_before. rewrite forallb_forall. intros H g i ts Hin. specialize (H _ Hin). cbn in H.
  rewrite !N.eqb_refl in H. cbn in H. apply N.ltb_lt, H.
Qed.

Lemma once_elsewhere_later_spec h kd l c k te :
  once_elsewhere_later h kd l c k te = true -> kd = Once ->
  forall c' k' ev' kd' td, In (td, RDeliver c' k' ev' l kd') h -> (c' = c /\ k' = k) \/ te < td.
Proof.
  intros H -> c' k' ev' kd' td Hin. cbn in H. rewrite forallb_forall in H. specialize (H _ Hin). cbn in H.
  rewrite N.eqb_refl in H. cbn in H. apply orb_prop in H. destruct H as [H|H].
  - apply andb_prop in H. destruct H as [H1 H2]. apply Nat.eqb_eq in H1. apply N.eqb_eq in H2. auto.
  - right. apply N.ltb_lt, H.
Qed.

Lemma op_is_remove_spec o ev l : op_is_remove o ev l = true -> o = ORemove ev l.
Proof.
  destruct o; cbn; try discriminate. intros H. apply andb_prop in H. destruct H as [H1 H2].
  apply N.eqb_eq in H1, H2. subst. reflexivity.
Qed.

Lemma amo_sound h : at_most_once h -> forallb (ok_amo h) h = true.
Proof.
  intros H. apply forallb_forall. intros [t r] _. unfold ok_amo. cbn. destruct r; trivial.
  apply Nat.leb_le, H.
Qed.

Lemma must_sound h : must_deliver h -> forallb (ok_must h) h = true.
Proof.
  intros H. apply forallb_forall. intros [ta r] H1. unfold ok_must. cbn [snd fst].
  destruct r; trivial. destruct o; trivial.
  apply forallb_forall. intros [tr r2] H2. cbn [snd fst]. destruct r2; trivial.
  destruct ((ev0 =? ev) && (ta <? tr)) eqn:E1; trivial.
  apply andb_prop in E1. destruct E1 as [E1 E1']. apply N.eqb_eq in E1. apply N.ltb_lt in E1'. subst ev0.
  apply forallb_forall. intros [te r3] H3. cbn [snd fst]. destruct r3; trivial.
  match goal with |- (if ?b then _ else _) = true => destruct b eqn:E2 end; trivial.
  repeat (apply andb_prop in E2; destruct E2 as [E2 ?]).
  apply Nat.eqb_eq in E2. subst c0.
  match goal with Hk : (k0 =? k + 1) = true |- _ => apply N.eqb_eq in Hk; subst k0 end.
  apply Nat.eqb_eq. eapply H; eauto.
  - apply no_cancel_before_spec; assumption.
  - apply no_remove_before_spec; assumption.
  - apply once_elsewhere_later_spec; assumption.
Qed.

Lemma mustnot_sound h : must_not_deliver h -> forallb (ok_mustnot h) h = true.
Proof.
  intros H. apply forallb_forall. intros [ta r] H1. unfold ok_mustnot. cbn [snd fst].
  destruct r; trivial. destruct o; trivial.
  apply forallb_forall. intros [tsr r2] H2. cbn [snd fst]. destruct r2; trivial.
  destruct (op_is_remove o ev res && (ta <? tsr)) eqn:E1; trivial.
  apply andb_prop in E1. destruct E1 as [E1 E1']. apply op_is_remove_spec in E1. apply N.ltb_lt in E1'. subst o.
  apply forallb_forall. intros [ter r3] H3. cbn [snd fst]. destruct r3; trivial.
  match goal with |- (if ?b then _ else _) = true => destruct b eqn:E2 end; trivial.
  repeat (apply andb_prop in E2; destruct E2 as [E2 ?]).
  apply Nat.eqb_eq in E2. subst g1.
  match goal with Hk : (i1 =? i0) = true |- _ => apply N.eqb_eq in Hk; subst i1 end.
  match goal with Hk : op_is_remove _ _ _ = true |- _ => apply op_is_remove_spec in Hk; subst end.
  apply forallb_forall. intros [tr r4] H4. cbn [snd fst]. destruct r4; trivial.
  destruct (ter <? tr) eqn:E3; trivial. apply N.ltb_lt in E3.
  apply Nat.eqb_eq. eapply H; eauto.
Qed.

Lemma ndeliv_pos h c k l t ev kd : In (t, RDeliver c k ev l kd) h -> (1 <= ndeliv h c k l)%nat.
Proof.
  intros H. rewrite ndeliv_delivs. apply count_l_in, delivs_in. eauto.
Qed.

Lemma once_sound h : once_not_again h -> forallb (ok_once h) h = true.
Proof.
  intros H. apply forallb_forall. intros [t r] H1. unfold ok_once. cbn [snd fst].
  destruct r; trivial. destruct kd; trivial.
  apply forallb_forall. intros [t2 r2] H2. cbn [snd fst]. destruct r2; trivial.
  destruct (Nat.eqb c0 c && (l0 =? l) && (k <? k0)) eqn:E; trivial. exfalso.
  repeat (apply andb_prop in E; destruct E as [E ?]).
  apply Nat.eqb_eq in E. subst c0.
  match goal with Hk : (l0 =? l) = true |- _ => apply N.eqb_eq in Hk; subst l0 end.
  match goal with Hk : (k <? k0) = true |- _ => apply N.ltb_lt in Hk; pose proof (H _ _ _ _ _ _ H1 Hk) as Hz end.
  pose proof (ndeliv_pos _ _ _ _ _ _ _ H2). lia.
Qed.

Lemma order_sound h : source_order h -> forallb (ok_order h) h = true.
Proof.
  intros [Ha Hb]. apply forallb_forall. intros [t r] H1. unfold ok_order. cbn [snd fst].
  destruct r; trivial. apply andb_true_intro. split.
  - apply forallb_forall. intros [t2 r2] H2. cbn [snd fst]. destruct r2; trivial.
    destruct (Nat.eqb c0 c && (t <? t2)) eqn:E; cbn; trivial.
    apply andb_prop in E. destruct E as [E E']. apply Nat.eqb_eq in E. apply N.ltb_lt in E'. subst c0.
    apply N.leb_le. eapply Ha; eauto.
  - destruct (Hb _ _ _ _ _ _ H1) as (tr & Hr & Hlt). apply existsb_exists. exists (tr, RRecv c k ev).
    split; [exact Hr|]. cbn. rewrite Nat.eqb_refl, !N.eqb_refl. cbn. apply N.ltb_lt, Hlt.
Qed.

Lemma right_sound h : right_listener h -> forallb (ok_right h) h = true.
Proof.
  intros H. apply forallb_forall. intros [t r] H1. unfold ok_right. cbn [snd fst].
  destruct r; trivial.
  apply forallb_forall. intros [t2 r2] H2. cbn [snd fst]. destruct r2; trivial. destruct o; trivial.
  destruct (res =? l) eqn:E; cbn; trivial. apply N.eqb_eq in E. subst res.
  destruct (H _ _ _ _ _ _ _ _ _ _ _ H1 H2) as [-> ->]. rewrite N.eqb_refl. destruct kd; reflexivity.
Qed.

Lemma close_sound h : closed_is_final h -> forallb (ok_close h) h = true.
Proof.
  intros H. apply forallb_forall. intros [t r] H1. unfold ok_close. cbn [snd fst].
  destruct r; trivial. destruct (H _ _ H1) as [(tc & Hc & Hlt) Hf]. apply andb_true_intro. split.
  - apply existsb_exists. exists (tc, RCancel). split; [exact Hc|]. cbn. apply N.ltb_lt, Hlt.
  - apply forallb_forall. intros [t2 r2] H2. cbn [snd fst].
    destruct (src_of r2) as [c'|] eqn:Es; trivial.
    destruct (Nat.eqb c' c) eqn:E; cbn; trivial. apply Nat.eqb_eq in E. subst c'.
    destruct (Hf _ _ H2 Es) as [Hlt'|[-> ->]].
    + apply N.ltb_lt in Hlt'. rewrite Hlt'. reflexivity.
    + rewrite N.eqb_refl. cbn. rewrite Nat.eqb_refl. apply orb_true_r.
Qed.

Lemma dedup_in l x : In x (dedup l) -> In x l.
Proof.
  induction l as [|y r IH]; cbn; [tauto|]. destruct (existsb (fun z => z =? y) r); cbn; intuition.
Qed.

Lemma dedup_nodup l : NoDup (dedup l).
Proof.
  induction l as [|y r IH]; cbn; [constructor|].
  destruct (existsb (fun z => z =? y) r) eqn:E; [exact IH|]. constructor; [|exact IH].
  intros Hin. apply dedup_in in Hin.
  assert (existsb (fun z => z =? y) r = true); [|congruence].
  apply existsb_exists. exists y. split; [exact Hin|apply N.eqb_refl].
Qed.

Lemma count_sound h : count_lower_bound h -> forallb (ok_count h) h = true.
Proof.
  intros H. apply forallb_forall. intros [te r] H1. unfold ok_count. cbn [snd fst].
  destruct r; trivial. destruct o; trivial.
  apply forallb_forall. intros [ts r2] H2. cbn [snd fst]. destruct r2; trivial. destruct o; trivial.
  match goal with |- (if ?b then _ else _) = true => destruct b eqn:E2 end; trivial.
  repeat (apply andb_prop in E2; destruct E2 as [E2 ?]).
  apply Nat.eqb_eq in E2. subst g0.
  match goal with Hk : (i0 =? i) = true |- _ => apply N.eqb_eq in Hk; subst i0 end.
  match goal with Hk : (ev0 =? ev) = true |- _ => apply N.eqb_eq in Hk; subst ev0 end.
  apply N.leb_le. eapply H; [exact H2|exact H1|apply dedup_nodup|].
  intros l Hl. unfold surely_registered in Hl. apply dedup_in, in_flat_map in Hl.
  destruct Hl as ([ta r3] & H3 & Hl). cbn [snd fst] in Hl.
  destruct r3; try contradiction. destruct o; try contradiction. destruct kd; try contradiction.
  match type of Hl with In _ (if ?b then _ else _) => destruct b eqn:E3 end; [|contradiction].
  destruct Hl as [<-|[]].
  repeat (apply andb_prop in E3; destruct E3 as [E3 ?]).
  apply N.eqb_eq in E3. subst ev0.
  exists g0, i0, ta. split; [exact H3|]. split; [apply N.ltb_lt; assumption|].
  apply no_remove_before_spec. assumption.
Qed.

Theorem history_ok_sound h : delivery_spec h -> history_ok h = true.
Proof.
  intros (H1 & H2 & H3 & H4 & H5 & H6 & H7 & H8). unfold history_ok.
  rewrite amo_sound, must_sound, mustnot_sound, once_sound, order_sound, right_sound, close_sound, count_sound by assumption.
  reflexivity.
Qed.

(* so: a history rejected by the checker cannot be produced by the model *)
Corollary model_histories_accepted ops evs sched :
  history_ok (obs (log (lrun (init ops evs) sched))) = true.
Proof. apply history_ok_sound, delivery_spec_all_schedules. Qed.

(* ================= 7. what the model refutes ================= *)

(* two sources dispatch the same event; both snapshot before either deletes:
   the one-shot listener is called twice *)
Definition once_witness_ops : list (list op) := [[OAdd 7 Once]].
Definition once_witness_evs : list (list event) := [[7]; [7]].
Definition once_witness_sched : list tid :=
  [Api 0; Api 0; Api 0; Src 0 0; Src 0 0; Src 1 0; Src 1 0; Src 0 0; Src 1 0; Src 0 0; Src 1 0;
   Src 0 0; Src 1 0].

Theorem once_may_repeat_across_sources_refuted :
  exists ops evs sched, ~ once_total (obs (log (lrun (init ops evs) sched))).
Proof.
  exists once_witness_ops, once_witness_evs, once_witness_sched. intros H.
  assert (E : 9 = 10); [|discriminate E].
  apply (H 9 0%nat 0 7 0 10 1%nat 0 7 Once); vm_compute; tauto.
Qed.

(* a removal that returns while a dispatch is in its loop does not stop the
   call that dispatch still owes to the removed listener *)
Definition removal_witness_ops : list (list op) := [[OAdd 7 Persistent; ORemove 7 0]].
Definition removal_witness_evs : list (list event) := [[7]].
Definition removal_witness_sched : list tid :=
  [Api 0; Api 0; Api 0; Src 0 0; Src 0 0; Src 0 0; Api 0; Api 0; Api 0; Src 0 0].

Theorem called_after_removal_returned_refuted :
  exists ops evs sched, ~ never_after_removal (obs (log (lrun (init ops evs) sched))).
Proof.
  exists removal_witness_ops, removal_witness_evs, removal_witness_sched. intros H.
  assert (E : 9 < 8); [|discriminate E].
  apply (H 0%nat 1 7 0 0 8 9 0%nat 0 7 Persistent); vm_compute; tauto.
Qed.

(* non-vacuity of must_deliver: a schedule in which all its hypotheses hold *)
Example must_deliver_witness :
  let h := obs (log (lrun (init [[OAdd 7 Persistent]] [[7]])
                          [Api 0; Api 0; Api 0; Src 0 0; Src 0 0; Src 0 0; Src 0 0; Src 0 0])) in
  In (2, REnd 0 0 (OAdd 7 Persistent) 0) h /\ In (4, RRecv 0 0 7) h /\ In (7, RReady 0 1) h /\
  ndeliv h 0 0 0 = 1%nat.
Proof. vm_compute. tauto. Qed.

(* ================= 8. cancellation closes every source ================= *)

(* consumer steps still needed before Close() once the context is cancelled *)
Definition dist (p : spc) : nat :=
  match p with
  | SClosed => 0 | SSel => 1 | STop => 2 | SCalling _ _ => 2 | SGot _ => 3 | SDeleting _ _ _ => 3
  end.

Fixpoint count_src (c : nat) (sched : list tid) : nat :=
  match sched with
  | [] => 0
  | Src c' _ :: r => (if Nat.eqb c' c then 1 else 0) + count_src c r
  | _ :: r => count_src c r
  end.

Lemma cancelled_step s t : cancelled s = true -> cancelled (step s t) = true.
Proof.
  intros H. destruct t as [g|c ch|]; cbn [step].
  - destruct (nth_error (apis s) g); [|exact H].
    destruct (api_step g (tbl s) (next_id s) a) as [[[[? ?] ?] ?]|]; exact H.
  - destruct (nth_error (srcs s) c); [|exact H].
    destruct (src_step c ch (tbl s) (cancelled s) s0) as [[[? ?] ?]|]; exact H.
  - unfold cancelled in *. destruct (cstate s) eqn:E; try discriminate. rewrite E. reflexivity.
Qed.

Lemma after_todo_dist st ev todo : (dist (s_pc (after_todo st ev todo)) <= 2)%nat.
Proof. destruct todo; cbn; lia. Qed.

Lemma step_dist s t c st :
  Inv s -> cancelled s = true -> nth_error (srcs s) c = Some st ->
  exists st', nth_error (srcs (step s t)) c = Some st' /\
    (dist (s_pc st') + (match t with Src c' _ => if Nat.eqb c' c then 1 else 0 | _ => 0 end) <= dist (s_pc st)
     \/ dist (s_pc st') = 0)%nat.
Proof.
  intros J Hcan Hc. destruct t as [g|c' ch|]; cbn [step].
  - exists st. split; [|left; lia].
    destruct (nth_error (apis s) g); [|exact Hc].
    destruct (api_step g (tbl s) (next_id s) a) as [[[[? ?] ?] ?]|]; exact Hc.
  - destruct (Nat.eqb c' c) eqn:E.
    + apply Nat.eqb_eq in E. subst c'. rewrite Hc.
      pose proof (inv_src _ J _ _ Hc) as (_ & _ & _ & _ & S5).
      unfold src_step. rewrite Hcan. destruct (s_pc st) eqn:Ep; cbn [dist].
      * eexists. split; [cbn; apply (nth_error_upd_same _ _ _ _ Hc)|]. cbn. left. lia.
      * eexists. split; [cbn; apply (nth_error_upd_same _ _ _ _ Hc)|]. cbn. left. lia.
      * eexists. split; [cbn; apply (nth_error_upd_same _ _ _ _ Hc)|]. left.
        pose proof (after_todo_dist st ev (permute ch (tbl_snapshot ev (tbl s)))). lia.
      * destruct S5 as (Hne & _). destruct todo as [|[l kd] rest]; [congruence|].
        eexists. split; [cbn; apply (nth_error_upd_same _ _ _ _ Hc)|]. cbn. left. lia.
      * eexists. split; [cbn; apply (nth_error_upd_same _ _ _ _ Hc)|]. left.
        pose proof (after_todo_dist st ev todo). lia.
      * exists st. split; [exact Hc|]. right. rewrite Ep. reflexivity.
    + apply Nat.eqb_neq in E. exists st. split; [|left; lia].
      destruct (nth_error (srcs s) c') eqn:Ec'; [|exact Hc].
      destruct (src_step c' ch (tbl s) (cancelled s) s0) as [[[? ?] ?]|]; [|exact Hc].
      cbn. rewrite nth_error_upd_other by exact E. exact Hc.
  - exists st. split; [|left; lia]. destruct (cstate s); exact Hc.
Qed.

(* once the context is cancelled, a consumer that is scheduled often enough
   (three steps suffice) has closed its source, whatever else is interleaved *)
Theorem cancel_closes_sources_gen sched : forall s c st,
  Inv s -> cancelled s = true -> nth_error (srcs s) c = Some st ->
  (dist (s_pc st) <= count_src c sched)%nat ->
  exists st', nth_error (srcs (lrun s sched)) c = Some st' /\ s_pc st' = SClosed.
Proof.
  induction sched as [|t r IH]; intros s c st J Hcan Hc Hd; cbn [lrun fold_left].
  - exists st. split; [exact Hc|]. cbn in Hd. destruct (s_pc st); cbn in Hd; try lia. reflexivity.
  - destruct (step_dist s t c st J Hcan Hc) as (st' & Hc' & Hdist).
    apply (IH (step s t) c st'); [apply step_inv, J|apply cancelled_step, Hcan|exact Hc'|].
    cbn [count_src] in Hd. destruct Hdist as [Hdist|Hz]; [|lia].
    destruct t as [g|c' ch|]; lia.
Qed.

Theorem cancel_closes_sources ops evs sched1 sched2 c :
  let s := lrun (init ops evs) sched1 in
  cancelled s = true -> (c < List.length evs)%nat -> (3 <= count_src c sched2)%nat ->
  exists st', nth_error (srcs (lrun s sched2)) c = Some st' /\ s_pc st' = SClosed.
Proof.
  intros s Hcan Hc Hn.
  assert (Hlen : List.length (srcs s) = List.length evs).
  { unfold s. assert (G : forall s0 sch, List.length (srcs (lrun s0 sch)) = List.length (srcs s0)).
    { intros s0 sch. unfold lrun. revert s0. induction sch as [|t r IH]; intros s0; cbn [fold_left]; [reflexivity|]. rewrite IH.
      destruct t as [g|c' ch|]; cbn [step].
      - destruct (nth_error (apis s0) g); [|reflexivity].
        destruct (api_step g (tbl s0) (next_id s0) a) as [[[[? ?] ?] ?]|]; reflexivity.
      - destruct (nth_error (srcs s0) c'); [|reflexivity].
        destruct (src_step c' ch (tbl s0) (cancelled s0) s1) as [[[? ?] ?]|]; [|reflexivity]. cbn. apply length_upd.
      - destruct (cstate s0); reflexivity. }
    rewrite G. cbn. apply map_length. }
  destruct (nth_error (srcs s) c) as [st|] eqn:E.
  - apply (cancel_closes_sources_gen sched2 s c st); auto; [apply reachable_inv|].
    destruct (s_pc st); cbn; lia.
  - apply nth_error_None in E. lia.
Qed.


(* the rows reported by the check file are empty exactly when history_ok holds *)
Lemma bad_nil ok h : bad ok h = [] <-> forallb ok h = true.
Proof.
  unfold bad. induction h as [|x r IH]; cbn; [tauto|]. destruct (ok x); cbn; [exact IH|].
  split; discriminate.
Qed.

Theorem verdict_bad_iff h : verdict_bad h = [] <-> history_ok h = true.
Proof.
  unfold verdict_bad, history_ok. rewrite !andb_true_iff, <- !bad_nil. split.
  - intros H. repeat (apply app_eq_nil in H; destruct H as [? H]). tauto.
  - intros [[[[[[[H1 H2] H3] H4] H5] H6] H7] H8]. rewrite H1, H2, H3, H4, H5, H6, H7, H8. reflexivity.
Qed.
