(* Proofs/CodecTrimProofs.v — TRIM, LTRIM, RTRIM are idempotent, for every
   text and every cutset. *)
From Ferret Require Import Codec.Trim Proofs.CodecSplitJoinProofs.
From Coq Require Import Lia.
Open Scope N_scope.

Lemma strip_prefix_nil_text : forall c, c <> [] -> strip_prefix c [] = None.
Proof. intros c H. destruct c; [contradiction|reflexivity]. Qed.

Lemma strip_any_nil_text : forall cs, strip_any cs [] = None.
Proof.
  induction cs as [|c cs IH]; [reflexivity|].
  cbn [strip_any]. destruct c as [|x c]; [exact IH|]. cbn [strip_prefix]. exact IH.
Qed.

Lemma strip_any_some : forall cs s r, strip_any cs s = Some r ->
  exists c, c <> [] /\ In c cs /\ s = c ++ r.
Proof.
  induction cs as [|c cs IH]; intros s r H; [discriminate|].
  cbn [strip_any] in H. destruct c as [|x c].
  - destruct (IH s r H) as (c' & H1 & H2 & H3). exists c'. repeat split; auto. right; exact H2.
  - destruct (strip_prefix (x :: c) s) as [r'|] eqn:E.
    + inversion H; subst r'. exists (x :: c). split; [congruence|]. split; [left; reflexivity|].
      apply strip_prefix_app. exact E.
    + destruct (IH s r H) as (c' & H1 & H2 & H3). exists c'. repeat split; auto. right; exact H2.
Qed.

Lemma strip_any_hit : forall cs c r, In c cs -> c <> [] -> strip_any cs (c ++ r) <> None.
Proof.
  induction cs as [|d cs IH]; intros c r Hin Hne; [contradiction|].
  cbn [strip_any]. destruct d as [|y d].
  - destruct Hin as [Hd|Hin]; [congruence|]. apply IH; assumption.
  - destruct (strip_prefix (y :: d) (c ++ r)) eqn:E; [congruence|].
    destruct Hin as [Hd|Hin].
    + subst c. rewrite strip_prefix_app_inv in E. discriminate.
    + apply IH; assumption.
Qed.

(* nothing strippable at the front of a text => nothing at the front of any of its prefixes *)
Lemma strip_any_none_prefix : forall cs a b, strip_any cs (a ++ b) = None -> strip_any cs a = None.
Proof.
  intros cs a b H. destruct (strip_any cs a) as [r|] eqn:E; [|reflexivity].
  destruct (strip_any_some _ _ _ E) as (c & H1 & H2 & H3).
  exfalso. subst a. rewrite <- app_assoc in H. exact (strip_any_hit cs c (r ++ b) H2 H1 H).
Qed.

(* the result of trim_left is a suffix of the text with nothing left to strip:
   the fuel (length of the text) is never exhausted before that *)
Lemma trim_left_f_spec : forall fuel cs s, (List.length s <= fuel)%nat ->
  (exists p, s = p ++ trim_left_f fuel cs s) /\ strip_any cs (trim_left_f fuel cs s) = None.
Proof.
  induction fuel as [|f IH]; intros cs s Hlen.
  - destruct s; [|cbn in Hlen; lia]. cbn. split; [exists []; reflexivity|apply strip_any_nil_text].
  - cbn [trim_left_f]. destruct (strip_any cs s) as [r|] eqn:E.
    + destruct (strip_any_some _ _ _ E) as (c & H1 & H2 & H3).
      assert (Hl : (List.length r <= f)%nat).
      { subst s. rewrite app_length in Hlen. destruct c; [congruence|]. cbn [List.length] in Hlen. lia. }
      destruct (IH cs r Hl) as ((p & Hp) & Hn). split; [|exact Hn].
      exists (c ++ p). rewrite <- app_assoc, <- Hp. exact H3.
    + split; [exists []; reflexivity|exact E].
Qed.

Lemma trim_left_spec : forall cs s,
  (exists p, s = p ++ trim_left cs s) /\ strip_any cs (trim_left cs s) = None.
Proof. intros cs s. apply trim_left_f_spec. apply le_n. Qed.

Lemma trim_left_fix : forall cs s, strip_any cs s = None -> trim_left cs s = s.
Proof.
  intros cs s H. unfold trim_left. destruct (List.length s); [reflexivity|].
  cbn [trim_left_f]. rewrite H. reflexivity.
Qed.

Theorem ltrim_idem : forall cs s, trim_left cs (trim_left cs s) = trim_left cs s.
Proof. intros cs s. apply trim_left_fix. apply trim_left_spec. Qed.

Theorem rtrim_idem : forall cs s, trim_right cs (trim_right cs s) = trim_right cs s.
Proof.
  intros cs s. unfold trim_right. rewrite rev_involutive. rewrite ltrim_idem. reflexivity.
Qed.

Theorem trim_idem : forall cs s, trim cs (trim cs s) = trim cs s.
Proof.
  intros cs s. unfold trim.
  set (a := trim_right cs s).
  destruct (trim_left_spec cs a) as ((p & Hp) & Hn).
  set (b := trim_left cs a) in *.
  assert (Hr : trim_right cs b = b).
  { unfold trim_right.
    assert (Ha : strip_any (map (@rev N) cs) (rev a) = None).
    { unfold a, trim_right. rewrite rev_involutive. apply trim_left_spec. }
    rewrite Hp, rev_app_distr in Ha. apply strip_any_none_prefix in Ha.
    rewrite (trim_left_fix _ _ Ha). apply rev_involutive. }
  rewrite Hr. apply trim_left_fix. exact Hn.
Qed.

Corollary fql_trim_idem : forall s chars, fql_trim (fql_trim s chars) chars = fql_trim s chars.
Proof. intros s [c|]; apply trim_idem. Qed.
Corollary fql_ltrim_idem : forall s chars, fql_ltrim (fql_ltrim s chars) chars = fql_ltrim s chars.
Proof. intros s chars. apply ltrim_idem. Qed.
Corollary fql_rtrim_idem : forall s chars, fql_rtrim (fql_rtrim s chars) chars = fql_rtrim s chars.
Proof. intros s chars. apply rtrim_idem. Qed.

Lemma trim_example :
  fql_trim (bs "  x y  ") None = bs "x y" /\ fql_trim (bs "xxayxx") (Some (bs "x")) = bs "ay"
  /\ fql_trim ([194; 160; 32] ++ bs "a" ++ [227; 128; 128]) None = bs "a".
Proof. repeat split; reflexivity. Qed.
