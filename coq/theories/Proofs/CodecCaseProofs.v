(* Proofs/CodecCaseProofs.v — UPPER and LOWER are idempotent on every byte
   string (valid UTF-8 or not), for the case tables printed from Go's unicode
   package into Generated/GenUnicodeCase.v.  The tables enter through three
   finite checks evaluated by vm_compute: images are fixed points, images are
   valid runes, and on ASCII the table is the bytewise mapping. *)
From Ferret Require Import Codec.Case Proofs.CodecUtf8Proofs Generated.GenUnicodeCase.
From Coq Require Import Lia ZifyBool ZifyN.
Open Scope N_scope.

Lemma case_lookup_In : forall T r u, case_lookup T r = Some u -> In (r, u) T.
Proof.
  induction T as [|[a b] T IH]; intros r u H; [discriminate|].
  cbn [case_lookup] in H. destruct (a =? r) eqn:E.
  - apply N.eqb_eq in E. inversion H; subst. left; reflexivity.
  - right. apply IH. exact H.
Qed.

Lemma In_upto : forall n r, (N.to_nat r < n)%nat -> In r (upto n).
Proof.
  induction n as [|n IH]; intros r H; [lia|].
  cbn [upto]. apply in_or_app.
  destruct (Nat.eq_dec (N.to_nat r) n) as [E|E].
  - right. left. subst n. apply N2Nat.id.
  - left. apply IH. lia.
Qed.

Section Table.
  Variable T : list (N * N).
  Variable f : N -> N.
  Hypothesis Hidem : table_idem T = true.
  Hypothesis Hvalid : table_valid T = true.
  Hypothesis Hascii : table_ascii T f = true.
  Hypothesis f_ascii : forall c, c < 128 -> f c < 128.

  Let g := rune_map T.

  Lemma rune_map_idem : forall r, g (g r) = g r.
  Proof.
    intros r. unfold g, rune_map at 2 3. destruct (case_lookup T r) as [u|] eqn:E.
    - apply case_lookup_In in E. unfold table_idem in Hidem.
      rewrite forallb_forall in Hidem. specialize (Hidem _ E). cbn [snd] in Hidem.
      apply N.eqb_eq in Hidem. exact Hidem.
    - unfold rune_map. rewrite E. reflexivity.
  Qed.

  Lemma rune_map_valid : forall r, valid_rune r = true -> valid_rune (g r) = true.
  Proof.
    intros r Hr. unfold g, rune_map. destruct (case_lookup T r) as [u|] eqn:E; [|exact Hr].
    apply case_lookup_In in E. unfold table_valid in Hvalid.
    rewrite forallb_forall in Hvalid. exact (Hvalid _ E).
  Qed.

  Lemma rune_map_ascii : forall r, r < 128 -> g r = f r.
  Proof.
    intros r Hr. unfold table_ascii in Hascii. rewrite forallb_forall in Hascii.
    apply N.eqb_eq. apply Hascii. apply In_upto. lia.
  Qed.

  Definition go_case (s : bytes) : bytes :=
    if is_ascii s then map f s else map_runes g s.

  (* the ASCII fast path computes the same string as the rune-by-rune path *)
  Lemma go_case_eq : forall s, go_case s = map_runes g s.
  Proof.
    intros s. unfold go_case. destruct (is_ascii s) eqn:A; [|reflexivity].
    unfold map_runes. rewrite utf8_runes_ascii by exact A.
    induction s as [|c s IH]; [reflexivity|].
    cbn [is_ascii forallb] in A. apply andb_true_iff in A. destruct A as [Hc Hs].
    cbn [map flat_map]. rewrite IH by exact Hs.
    rewrite rune_map_ascii by lia.
    unfold utf8_encode. pose proof (f_ascii c ltac:(lia)) as Hf.
    destruct (f c <? 128) eqn:E; [reflexivity|lia].
  Qed.

  Lemma map_runes_idem : forall s, map_runes g (map_runes g s) = map_runes g s.
  Proof.
    intros s. unfold map_runes.
    pose proof (utf8_runes_valid s) as V. set (rs := utf8_runes s) in *. clearbody rs.
    assert (E : flat_map (fun r => utf8_encode (g r)) rs = flat_map utf8_encode (map g rs)).
    { clear V. induction rs as [|r rs IH]; [reflexivity|]. cbn [flat_map map]. rewrite IH. reflexivity. }
    rewrite E at 1. rewrite utf8_runes_flat_encode.
    - clear V E. induction rs as [|r rs IH]; [reflexivity|].
      cbn [flat_map map]. rewrite rune_map_idem, IH. reflexivity.
    - clear E. induction V as [|r rs Hr Hrs IH]; [constructor|].
      cbn [map]. constructor; [apply rune_map_valid; exact Hr|exact IH].
  Qed.

  Theorem go_case_idem : forall s, go_case (go_case s) = go_case s.
  Proof. intros s. rewrite !go_case_eq. apply map_runes_idem. Qed.
End Table.

Lemma ascii_upper_ascii : forall c, c < 128 -> ascii_upper c < 128.
Proof. intros c H. unfold ascii_upper, in_rng. destruct ((97 <=? c) && (c <=? 122)) eqn:E; lia. Qed.
Lemma ascii_lower_ascii : forall c, c < 128 -> ascii_lower c < 128.
Proof. intros c H. unfold ascii_lower, in_rng. destruct ((65 <=? c) && (c <=? 90)) eqn:E; lia. Qed.

(* the three finite checks on the generated tables *)
Lemma upper_table_idem : table_idem upper_table = true.
Proof. vm_cast_no_check (eq_refl true). Qed.
Lemma upper_table_valid : table_valid upper_table = true.
Proof. vm_cast_no_check (eq_refl true). Qed.
Lemma upper_table_ascii : table_ascii upper_table ascii_upper = true.
Proof. vm_cast_no_check (eq_refl true). Qed.
Lemma lower_table_idem : table_idem lower_table = true.
Proof. vm_cast_no_check (eq_refl true). Qed.
Lemma lower_table_valid : table_valid lower_table = true.
Proof. vm_cast_no_check (eq_refl true). Qed.
Lemma lower_table_ascii : table_ascii lower_table ascii_lower = true.
Proof. vm_cast_no_check (eq_refl true). Qed.

(* rune level: unicode.ToUpper (unicode.ToUpper r) = unicode.ToUpper r for every rune *)
Theorem upper_rune_idem : forall r,
  rune_map upper_table (rune_map upper_table r) = rune_map upper_table r.
Proof. exact (rune_map_idem upper_table upper_table_idem). Qed.
Theorem lower_rune_idem : forall r,
  rune_map lower_table (rune_map lower_table r) = rune_map lower_table r.
Proof. exact (rune_map_idem lower_table lower_table_idem). Qed.

Lemma go_to_upper_case : forall T s, go_to_upper T s = go_case T ascii_upper s.
Proof. reflexivity. Qed.
Lemma go_to_lower_case : forall T s, go_to_lower T s = go_case T ascii_lower s.
Proof. reflexivity. Qed.

Theorem upper_idem : forall s,
  go_to_upper upper_table (go_to_upper upper_table s) = go_to_upper upper_table s.
Proof.
  intros s. rewrite !go_to_upper_case.
  apply go_case_idem.
  - exact upper_table_idem.
  - exact upper_table_valid.
  - exact upper_table_ascii.
  - exact ascii_upper_ascii.
Qed.

Theorem lower_idem : forall s,
  go_to_lower lower_table (go_to_lower lower_table s) = go_to_lower lower_table s.
Proof.
  intros s. rewrite !go_to_lower_case.
  apply go_case_idem.
  - exact lower_table_idem.
  - exact lower_table_valid.
  - exact lower_table_ascii.
  - exact ascii_lower_ascii.
Qed.

(* upper-casing is not the identity on upper-cased text of another script:
   the round trip UPPER o LOWER is NOT claimed (e.g. U+0130) *)
Lemma case_examples :
  go_to_upper upper_table (bs "a1-z") = bs "A1-Z"
  /\ go_to_upper upper_table [195; 169] = [195; 137]          (* e-acute -> E-acute *)
  /\ go_to_upper upper_table [196; 177] = [73]                (* dotless i -> I *)
  /\ go_to_upper upper_table [97; 255] = [65; 239; 191; 189]  (* invalid byte -> U+FFFD *)
  /\ go_to_lower lower_table [196; 176] = [105].              (* I with dot -> i *)
Proof.
  repeat split;
  match goal with |- _ = ?r => vm_cast_no_check (eq_refl r) end.
Qed.
