(* Proofs/RenderProofs.v — string literals: the value of a literal is its
   content; \n and \t are the only rewrites. *)
From Ferret Require Import Render.
Require Import Lia.
Local Open Scope N_scope.

Definition no_backslash (s : bytes) : Prop := forall c, In c s -> c <> 92.

Lemma unesc_plain : forall s, no_backslash s -> unesc s = s.
Proof.
  induction s as [|c s IH]; intros H; [reflexivity|].
  cbn [unesc]. destruct (N.eqb_spec c 92) as [E|E].
  - exfalso. apply (H c); [left; reflexivity|exact E].
  - f_equal. apply IH. intros x Hx. apply H. right. exact Hx.
Qed.

(* the defining behaviour on escapes: exactly \n and \t are rewritten, any
   other \X stays the two characters, a final backslash stays *)
Theorem unesc_equations :
  (forall r, unesc (92 :: 110 :: r) = 10 :: unesc r) /\
  (forall r, unesc (92 :: 116 :: r) = 9 :: unesc r) /\
  (forall d r, d <> 110 -> d <> 116 -> unesc (92 :: d :: r) = 92 :: d :: unesc r) /\
  (forall c r, c <> 92 -> unesc (c :: r) = c :: unesc r) /\
  unesc [92] = [92].
Proof.
  repeat split; try reflexivity.
  - intros d r H1 H2. cbn [unesc]. change (92 =? 92) with true. cbn iota.
    destruct (N.eqb_spec d 110); [congruence|]. destruct (N.eqb_spec d 116); [congruence|]. reflexivity.
  - intros c r H. cbn [unesc]. destruct (N.eqb_spec c 92); [congruence|]. reflexivity.
Qed.

Lemma firstn_app_len : forall A (l r : list A), firstn (List.length l) (l ++ r) = l.
Proof. induction l; intros; simpl; [reflexivity|f_equal; auto]. Qed.

(* the four quote styles: double quote, single quote, back-tick, U+00B4 (two bytes) *)
Definition quotes : list bytes := [[34]; [39]; [96]; [194; 180]].

Lemma skipn_app_len : forall A (l r : list A), skipn (List.length l) (l ++ r) = r.
Proof. induction l; intros; simpl; auto. Qed.

Lemma inner_gen : forall (a b s : bytes) (w : nat),
  List.length a = w -> List.length b = w ->
  firstn (List.length (a ++ s ++ b) - 2 * w) (skipn w (a ++ s ++ b)) = s.
Proof.
  intros a b s w Ha Hb. rewrite !app_length. rewrite Ha, Hb.
  replace (w + (List.length s + w) - 2 * w)%nat with (List.length s) by lia.
  rewrite <- Ha. rewrite skipn_app_len. apply firstn_app_len.
Qed.

Lemma str_inner_quoted : forall q s, In q quotes -> str_inner (q ++ s ++ q) = s.
Proof.
  intros q s Hq. unfold quotes in Hq.
  destruct Hq as [<-|[<-|[<-|[<-|[]]]]]; unfold str_inner.
  - change (quote_width ([34] ++ s ++ [34])) with 1%nat. apply inner_gen; reflexivity.
  - change (quote_width ([39] ++ s ++ [39])) with 1%nat. apply inner_gen; reflexivity.
  - change (quote_width ([96] ++ s ++ [96])) with 1%nat. apply inner_gen; reflexivity.
  - change (quote_width ([194; 180] ++ s ++ [194; 180])) with 2%nat. apply inner_gen; reflexivity.
Qed.

(* a property-name string is the raw content, whatever it contains *)
Theorem property_name_raw : forall q s, In q quotes -> str_inner (q ++ s ++ q) = s.
Proof. exact str_inner_quoted. Qed.

(* the value of a string literal without backslashes is exactly its content,
   for every byte sequence (any Unicode text) and every quote style *)
Theorem string_literal_exact_lemma : forall q s,
  In q quotes -> no_backslash s -> str_value (q ++ s ++ q) = s.
Proof.
  intros q s Hq Hs. unfold str_value. rewrite str_inner_quoted by exact Hq.
  apply unesc_plain. exact Hs.
Qed.

(* with escapes: the value is the un-escaped content *)
Theorem string_literal_value : forall q s, In q quotes -> str_value (q ++ s ++ q) = unesc s.
Proof. intros q s Hq. unfold str_value. rewrite str_inner_quoted by exact Hq. reflexivity. Qed.
