(* Proofs/CodecUriProofs.v — url.QueryUnescape (url.QueryEscape s) = s for every
   byte string; DECODE_URI_COMPONENT (ENCODE_URI_COMPONENT s) = s on the pinned
   tree only for valid UTF-8 without double quote, backslash and newline, and a
   refutation outside that guard. *)
From Ferret Require Import Codec.Uri Proofs.CodecUtf8Proofs.
From Coq Require Import Lia ZifyBool ZifyN.
Open Scope N_scope.

Ltac Zify.zify_post_hook ::= Z.div_mod_to_equations.

Lemma unhex_upperhex : forall d, d < 16 -> unhex (upperhex d) = Some d.
Proof.
  intros d Hd. unfold upperhex. destruct (d <? 10) eqn:E; unfold unhex, in_rng.
  - destruct ((48 <=? 48 + d) && (48 + d <=? 57)) eqn:E1; [f_equal; lia|lia].
  - destruct ((48 <=? 55 + d) && (55 + d <=? 57)) eqn:E1; [lia|].
    destruct ((97 <=? 55 + d) && (55 + d <=? 102)) eqn:E2; [lia|].
    destruct ((65 <=? 55 + d) && (55 + d <=? 70)) eqn:E3; [f_equal; lia|lia].
Qed.

Lemma query_unescape_byte : forall c t, c < 256 ->
  query_unescape (query_escape_byte c ++ t) =
  match query_unescape t with Some t' => Some (c :: t') | None => None end.
Proof.
  intros c t Hc. unfold query_escape_byte.
  destruct (uri_unreserved c) eqn:U.
  - cbn [app query_unescape].
    assert (E37 : (c =? 37) = false) by (unfold uri_unreserved, in_rng in U; lia).
    assert (E43 : (c =? 43) = false) by (unfold uri_unreserved, in_rng in U; lia).
    rewrite E37, E43. reflexivity.
  - destruct (c =? 32) eqn:E32.
    + apply N.eqb_eq in E32. subst c. reflexivity.
    + cbn [app query_unescape]. rewrite N.eqb_refl.
      rewrite !unhex_upperhex by lia.
      replace (c / 16 * 16 + c mod 16) with c by lia. reflexivity.
Qed.

Theorem query_roundtrip : forall s, wf_bytes s -> query_unescape (query_escape s) = Some s.
Proof.
  unfold query_escape. induction s as [|c s IH]; intros Hwf; [reflexivity|].
  inversion Hwf as [|? ? Hc Hs]; subst.
  cbn [flat_map]. rewrite query_unescape_byte by assumption.
  rewrite IH by assumption. reflexivity.
Qed.

Lemma forallb_skipn : forall {A} (p : A -> bool) k l, forallb p l = true -> forallb p (skipn k l) = true.
Proof.
  intros A p k. induction k as [|k IH]; intros l H; [exact H|].
  destruct l as [|x l]; [reflexivity|]. cbn [skipn]. apply IH.
  cbn [forallb] in H. apply andb_true_iff in H. apply H.
Qed.

Lemma uq_go_safe : forall fuel s acc,
  (List.length s <= fuel)%nat -> forallb uri_plain s = true -> utf8_valid s = true ->
  uq_go fuel s acc = UqOk (rev acc ++ s).
Proof.
  induction fuel as [|f IH]; intros s acc Hlen Hp Hv.
  - destruct s; [|cbn in Hlen; lia]. cbn. rewrite app_nil_r. reflexivity.
  - destruct s as [|c r]; [cbn; rewrite app_nil_r; reflexivity|].
    pose proof Hp as Hp0.
    cbn [forallb] in Hp. apply andb_true_iff in Hp. destruct Hp as [Hc Hr].
    unfold uri_plain in Hc.
    cbn [uq_go].
    destruct ((c =? 34) || (c =? 10)) eqn:E1; [lia|].
    destruct (c =? 92) eqn:E2; [lia|].
    destruct (utf8_valid_cons c r Hv) as [Hok Hv'].
    destruct (c <? 128) eqn:E3.
    + rewrite utf8_decode_ascii in Hv' by lia. cbn [snd skipn] in Hv'.
      rewrite IH; [|cbn [List.length] in Hlen; lia|exact Hr|exact Hv'].
      cbn [rev]. rewrite <- app_assoc. reflexivity.
    + rewrite Hok.
      pose proof (utf8_decode_width c r) as W.
      set (w := snd (utf8_decode (c :: r))) in *.
      rewrite IH.
      * rewrite rev_app_distr, rev_involutive, <- app_assoc, firstn_skipn. reflexivity.
      * rewrite skipn_length. lia.
      * apply forallb_skipn. exact Hp0.
      * exact Hv'.
Qed.

Lemma go_unquote_safe : forall s, uri_safe s = true -> go_unquote s = UqOk s.
Proof.
  intros s H. unfold uri_safe in H. apply andb_true_iff in H. destruct H as [Hp Hv].
  unfold go_unquote. rewrite uq_go_safe by (try apply le_n; assumption). reflexivity.
Qed.

Theorem uri_roundtrip_guarded : forall s, wf_bytes s -> uri_safe s = true ->
  fql_decode_uri (query_escape s) = Some s.
Proof.
  intros s Hwf Hs. unfold fql_decode_uri. rewrite query_roundtrip by assumption.
  rewrite go_unquote_safe by assumption. reflexivity.
Qed.

(* the pinned decoder does not restore a double quote (nor a backslash, a
   newline, or a byte that is not UTF-8) *)
Theorem uri_roundtrip_refuted :
  exists s, wf_bytes s /\ fql_decode_uri (query_escape s) <> Some s.
Proof.
  exists [34]. split; [repeat constructor|]. vm_compute. discriminate.
Qed.

Lemma uri_backslash_rewritten :
  fql_decode_uri (query_escape (bs "a\tb")) = Some [97; 9; 98]
  /\ fql_decode_uri (query_escape (bs "a\b")) = Some [97; 8]
  /\ fql_decode_uri (query_escape (bs "a\qb")) = None
  /\ fql_decode_uri (query_escape [97; 10; 98]) = None
  /\ fql_decode_uri (query_escape [97; 255]) = Some [97; 239; 191; 189].
Proof. repeat split; reflexivity. Qed.
