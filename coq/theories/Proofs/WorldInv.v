(* Proofs/WorldInv.v — whole-evaluator invariants on the world: for every
   expression / loop / data source / iterator / program, every fuel, scope and
   start world,

     - the trace is append-only, registered closables are never dropped, the
       call counter never decreases, cancellation is permanent, the injection
       settings and the parameters are never touched             (wle0, Thm 1)
     - with the specified (strict) cancellation semantics: once the context is
       cancelled no function is invoked any more                 (wle,  Thm 2)
     - the EvBind entries of the trace are exactly the closer list   (Thm 3)
     - cancellation only ever arises inside an instrumented call     (Thm 4)

   Technique (as in FuelMono.v): [pres R m] = "every run of the computation m
   takes a world to an R-later world"; for a reflexive, transitive R it is closed
   under bind and under the three constructs that inspect an outcome directly;
   the only primitives that change the world are add_closer (inside set_var) and
   call_fn, which occurs at exactly three places (function-call expressions and
   the two AGGREGATE reducer loops); one step of each of the four mutual
   functions preserves [pres R] (Section Step, against the named copies of the
   local loops made in FuelMono.v), induction on the fuel closes the knot
   (pres_all).  The generic theorem is then instantiated four times. *)
From Ferret Require Import Eval RunApi Proofs.FuelMono Proofs.RunApiProofs.
From Coq Require Import Lia.

(* ---------------------------------------------------------------- projections of the trace *)
Fixpoint calls (t : list event) : list (name * list value) :=
  match t with
  | [] => []
  | EvCall f a :: r => (f, a) :: calls r
  | EvBind _ :: r => calls r
  end.
Fixpoint binds (t : list event) : list Z :=
  match t with
  | [] => []
  | EvCall _ _ :: r => binds r
  | EvBind id :: r => id :: binds r
  end.

(* ---------------------------------------------------------------- the order *)
Definition wle0 (w w' : world) : Prop :=
     (exists suf, w_trace w' = suf ++ w_trace w)
  /\ (exists suf, w_closers w' = suf ++ w_closers w)
  /\ (w_ncalls w <= w_ncalls w')%N
  /\ (w_cancelled w = true -> w_cancelled w' = true)
  /\ w_cancel_at w' = w_cancel_at w /\ w_params w' = w_params w /\ w_fail_at w' = w_fail_at w.

Definition wle (w w' : world) : Prop :=
     (exists suf, w_trace w' = suf ++ w_trace w)
  /\ (exists suf, w_closers w' = suf ++ w_closers w)
  /\ (w_ncalls w <= w_ncalls w')%N
  /\ (w_cancelled w = true -> w_cancelled w' = true)
  /\ w_cancel_at w' = w_cancel_at w /\ w_params w' = w_params w /\ w_fail_at w' = w_fail_at w
  /\ (w_cancelled w = true -> calls (w_trace w') = calls (w_trace w) /\ w_ncalls w' = w_ncalls w).

Lemma wle_iff w w' :
  wle w w' <->
  wle0 w w' /\ (w_cancelled w = true -> calls (w_trace w') = calls (w_trace w) /\ w_ncalls w' = w_ncalls w).
Proof. unfold wle, wle0. tauto. Qed.

Lemma wle_wle0 w w' : wle w w' -> wle0 w w'.
Proof. intro H. apply wle_iff in H. apply H. Qed.

Lemma wle0_refl w : wle0 w w.
Proof. unfold wle0. repeat split; try (exists []; reflexivity); auto. lia. Qed.

Lemma wle0_trans a b c : wle0 a b -> wle0 b c -> wle0 a c.
Proof.
  intros ([s1 T1] & [s2 C1] & N1 & K1 & A1 & P1 & F1) ([s3 T2] & [s4 C2] & N2 & K2 & A2 & P2 & F2).
  unfold wle0. repeat split.
  - exists (s3 ++ s1). rewrite T2, T1, app_assoc. reflexivity.
  - exists (s4 ++ s2). rewrite C2, C1, app_assoc. reflexivity.
  - lia.
  - auto.
  - congruence.
  - congruence.
  - congruence.
Qed.

Lemma wle_refl w : wle w w.
Proof. apply wle_iff. split; [apply wle0_refl|auto]. Qed.

Lemma wle_trans a b c : wle a b -> wle b c -> wle a c.
Proof.
  intros H1 H2. apply wle_iff in H1 as [H1 G1]. apply wle_iff in H2 as [H2 G2].
  apply wle_iff. split; [exact (wle0_trans a b c H1 H2)|].
  intro Ca. destruct (G1 Ca) as [E1 E2].
  assert (Cb : w_cancelled b = true) by (apply H1; exact Ca).
  destruct (G2 Cb) as [E3 E4]. split; congruence.
Qed.

(* a world that is not cancelled: the last clause of wle is void *)
Lemma wle_of_wle0 w w' : w_cancelled w = false -> wle0 w w' -> wle w w'.
Proof. intros C H. apply wle_iff. split; [exact H|]. rewrite C. discriminate. Qed.

(* the EvBind entries of the trace are the closer list *)
Definition binds_ok (w : world) : Prop := binds (w_trace w) = w_closers w.
Definition wbind (w w' : world) : Prop := binds_ok w -> binds_ok w'.

(* the call counter never decreases, and a cancellation costs at least one call *)
Definition wcnt (w w' : world) : Prop :=
  (w_ncalls w <= w_ncalls w')%N /\
  (w_cancelled w = false -> w_cancelled w' = true -> (w_ncalls w < w_ncalls w')%N).

Lemma wbind_refl w : wbind w w.
Proof. intro H; exact H. Qed.
Lemma wbind_trans a b c : wbind a b -> wbind b c -> wbind a c.
Proof. unfold wbind. auto. Qed.
Lemma wcnt_refl w : wcnt w w.
Proof. split; [lia|]. intros H1 H2. rewrite H1 in H2. discriminate. Qed.
Lemma wcnt_trans a b c : wcnt a b -> wcnt b c -> wcnt a c.
Proof.
  intros [L1 S1] [L2 S2]. split; [lia|]. intros Ca Cc.
  destruct (w_cancelled b) eqn:Cb.
  - specialize (S1 Ca eq_refl). lia.
  - specialize (S2 eq_refl Cc). lia.
Qed.

(* ---------------------------------------------------------------- the two primitives
   that change the world *)
Definition call_step (f : name) (args : list value) (w w' : world) : Prop :=
  w_trace w' = EvCall f args :: w_trace w /\ w_ncalls w' = (w_ncalls w + 1)%N /\
  w_closers w' = w_closers w /\ (w_cancelled w = true -> w_cancelled w' = true) /\
  w_cancel_at w' = w_cancel_at w /\ w_params w' = w_params w /\ w_fail_at w' = w_fail_at w.

Lemma call_fn_world f args w : call_step f args w (snd (call_fn f args w)).
Proof.
  unfold call_fn, bind, log, count_call, injected_failure, set_cancelled, ret, fail, call_step.
  cbn [fst snd w_trace w_closers w_ncalls w_cancelled w_cancel_at w_params w_fail_at].
  assert (K : forall b, w_cancelled w = true -> w_cancelled w || b = true)
    by (intros b H; rewrite H; reflexivity).
  destruct (w_fail_at w) as [[k kind]|].
  - destruct (k + 1 =? w_ncalls w + 1)%N.
    + destruct (kind =? 0)%N; [|destruct (kind =? 1)%N; [|destruct (kind =? 2)%N]];
        cbn [fst snd recast w_trace w_closers w_ncalls w_cancelled w_cancel_at w_params w_fail_at];
        repeat split; auto.
    + repeat match goal with
             | |- context [if ?b then _ else _] => destruct b
             | |- context [match ?x with _ => _ end] => destruct x
             end;
        cbn [fst snd recast w_trace w_closers w_ncalls w_cancelled w_cancel_at w_params w_fail_at];
        repeat split; auto.
  - repeat match goal with
           | |- context [if ?b then _ else _] => destruct b
           | |- context [match ?x with _ => _ end] => destruct x
           end;
      cbn [fst snd recast w_trace w_closers w_ncalls w_cancelled w_cancel_at w_params w_fail_at];
      repeat split; auto.
Qed.

(* ---------------------------------------------------------------- computations that
   take every world to an R-later one *)
Definition pres {A} (R : world -> world -> Prop) (m : M A) : Prop := forall w, R w (snd (m w)).

Lemma pres_impl {A} (R R' : world -> world -> Prop) (m : M A) :
  (forall w w', R w w' -> R' w w') -> pres R m -> pres R' m.
Proof. intros H Hm w. apply H, Hm. Qed.

Create HintDb wpres.

Section Gen.
Variable R : world -> world -> Prop.
Hypothesis Rrefl : forall w, R w w.
Hypothesis Rtrans : forall a b c, R a b -> R b c -> R a c.

Lemma pres_ret A (a : A) : pres R (ret a).
Proof. intro w. apply Rrefl. Qed.
Lemma pres_fail A (o : outcome A) : pres R (fail o).
Proof. intro w. apply Rrefl. Qed.
Lemma pres_lift A (o : outcome A) : pres R (lift o).
Proof. intro w. apply Rrefl. Qed.
Lemma pres_check_ctx : pres R check_ctx.
Proof. intro w. unfold check_ctx. destruct (w_cancelled w); apply Rrefl. Qed.
Lemma pres_get_var x sc : pres R (get_var x sc).
Proof. intro w. unfold get_var. destruct (scope_get x sc); apply Rrefl. Qed.
Lemma pres_param x : pres R (param_f x).
Proof. intro w. unfold param_f. destruct (frame_get x (w_params w)); apply Rrefl. Qed.

Lemma pres_bind A B (m : M A) (k : A -> M B) :
  pres R m -> (forall a, pres R (k a)) -> pres R (bind m k).
Proof.
  intros Hm Hk w. unfold bind. specialize (Hm w).
  destruct (m w) as [o w1]. cbn [snd] in Hm.
  destruct o as [a|e| | | | |]; cbn [snd]; try exact Hm.
  eapply Rtrans; [exact Hm|apply Hk].
Qed.

Lemma pres_member strict fo (m : M value) (k : value -> M value) :
  pres R m -> (forall a, pres R (k a)) -> pres R (member_f strict fo m k).
Proof.
  intros Hm Hk w. unfold member_f. specialize (Hm w).
  destruct (m w) as [o w1]. cbn [snd] in Hm.
  destruct o as [a|e| | | | |]; cbn [snd]; try exact Hm.
  - eapply Rtrans; [exact Hm|apply Hk].
  - destruct e; destruct fo; destruct strict; cbn [andb negb snd]; exact Hm.
Qed.

Lemma pres_suppress strict (m : M value) : pres R m -> pres R (suppress_f strict m).
Proof.
  intros Hm w. unfold suppress_f. specialize (Hm w).
  destruct (m w) as [o w1]. cbn [snd] in Hm.
  destruct o as [a|e| | | | |]; cbn [snd]; try exact Hm.
  destruct e; destruct strict; cbn [snd]; exact Hm.
Qed.

Lemma pres_key1 first (m : M value) : pres R m -> pres R (key1_f first m).
Proof.
  intros Hm w. unfold key1_f. specialize (Hm w).
  destruct (m w) as [o w1]. cbn [snd] in Hm.
  destruct o as [a|e| | | | |]; destruct first; cbn [snd]; exact Hm.
Qed.

Ltac pr1 :=
  first
    [ solve [eauto 2 with wpres nocore]
    | lazymatch goal with
      | |- pres _ (bind _ _) => apply pres_bind; [|intro; cbv beta]
      | |- pres _ (member_f _ _ _ _) => apply pres_member; [|intro; cbv beta]
      | |- pres _ (suppress_f _ _) => apply pres_suppress
      | |- pres _ (key1_f _ _) => apply pres_key1
      | |- pres _ (ret _) => apply pres_ret
      | |- pres _ (fail _) => apply pres_fail
      | |- pres _ (lift _) => apply pres_lift
      | |- pres _ check_ctx => apply pres_check_ctx
      | |- pres _ (get_var _ _) => apply pres_get_var
      | |- pres _ (param_f _) => apply pres_param
      | |- pres _ (match ?x with _ => _ end) => destruct x
      end
    | progress cbv beta zeta ].
Ltac pr := repeat pr1.

(* ---- binding a variable: the only other thing it can do is register a closable *)
Hypothesis Hadd : forall id, pres R (add_closer id).

Lemma pres_set_var x v sc : pres R (set_var x v sc).
Proof. unfold set_var. pr. Qed.
Hint Resolve pres_set_var : wpres.

(* ---- the three places where a library function is invoked, when the call
   itself is R-monotone (all relations below except wle) *)
Section CallSites.
Variable strict : bool.
Hypothesis Hfn : forall f args, pres R (call_fn f args).

Lemma pres_call_site (m : M (list value)) f :
  pres R m -> pres R (do _ <- check_ctx; do vs <- m; call_fn f vs).
Proof. intro Hm. pr. Qed.

Lemma pres_aggr_red nrows ss : forall cols cs, pres R (aggr_red_f strict nrows ss cols cs).
Proof. induction ss as [|[[x f] a] sr IH]; intros cols cs; cbn [aggr_red_f]; pr. Qed.

Lemma pres_fin_red ss : forall cs, pres R (fin_red_f strict ss cs).
Proof. induction ss as [|[[x f] a] sr IH]; intros cs; cbn [fin_red_f]; pr. Qed.
End CallSites.

(* ---------------------------------------------------------------- the evaluator *)
Section Main.
Variable strict : bool.
Notation ev := (eval_g strict).
Notation evf := (eval_for_g strict).
Notation itr := (iterate_g strict).
Notation nx := (next_g strict).
Hypothesis Hcall : forall (m : M (list value)) f,
  pres R m -> pres R (do _ <- check_ctx; do vs <- m; call_fn f vs).
Hypothesis Hared : forall nrows ss cols cs, pres R (aggr_red_f strict nrows ss cols cs).
Hypothesis Hfred : forall ss cs, pres R (fin_red_f strict ss cs).

(* On closing the section each lemma is generalised only over the hypotheses its
   proof uses: E_pres needs HE, HF and Hcall only, I_pres needs HE and HI only,
   for_loop_pres needs HE, HF and HN -- this is used for the pinned evaluator in
   part 2 below. *)
Section Step.
Variable n : nat.
Hypothesis HE : forall e sc, pres R (ev n e sc).
Hypothesis HF : forall q sc, pres R (evf n q sc).
Hypothesis HI : forall d sc, pres R (itr n d sc).
Hypothesis HN : forall it sc, pres R (nx n it sc).

Lemma eval_list_pres sc es : pres R (eval_list_f strict n sc es).
Proof. induction es as [|x r IH]; cbn [eval_list_f]; pr. Qed.
Hint Resolve eval_list_pres : wpres.

Lemma eval_obj_pres sc ps : forall acc, pres R (eval_obj_f strict n sc ps acc).
Proof. induction ps as [|p r IH]; intro acc; cbn [eval_obj_f]; unfold eval_prop_f; pr. Qed.
Hint Resolve eval_obj_pres : wpres.

Lemma eval_segs_pres sc path : pres R (eval_segs_f strict n sc path).
Proof. induction path as [|[o se] r IH]; cbn [eval_segs_f]; pr. Qed.
Hint Resolve eval_segs_pres : wpres.

Lemma member_k_pres sc path a : pres R (member_k strict n sc path a).
Proof. unfold member_k. pr. Qed.
Hint Resolve member_k_pres : wpres.

Lemma E_pres e sc : pres R (ev (S n) e sc).
Proof. rewrite eval_S. destruct e; pr. Qed.

(* ---- FOR *)
Lemma for_loop_pres sc ret_ di sp pa : forall (k : nat) it acc,
  pres R (for_loop_f strict n sc ret_ di sp pa k it acc).
Proof. induction k as [|k IH]; intros it acc; cbn [for_loop_f]; unfold for_out_f; pr. Qed.
Hint Resolve for_loop_pres : wpres.

Lemma F_pres q sc : pres R (evf (S n) q sc).
Proof. rewrite eval_for_S. pr. Qed.

(* ---- data sources *)
Lemma I_pres d sc : pres R (itr (S n) d sc).
Proof. rewrite iterate_S. destruct d; pr. Qed.

(* ---- iterators *)
Lemma tap_pres ss : forall s, pres R (tap_f strict n ss s).
Proof. induction ss as [|c r IH]; intro s; cbn [tap_f]; pr. Qed.
Hint Resolve tap_pres : wpres.

Lemma filter_pres sc e : forall (k : nat) src, pres R (filter_f strict n sc e k src).
Proof. induction k as [|k IH]; intros src; cbn [filter_f]; pr. Qed.
Hint Resolve filter_pres : wpres.

Lemma skip_pres sc off : forall (k : nat) src cur, pres R (skip_f strict n sc off k src cur).
Proof. induction k as [|k IH]; intros src cur; cbn [skip_f]; pr. Qed.
Hint Resolve skip_pres : wpres.

Lemma drain_pres sc : forall (k : nat) it acc, pres R (drain_f strict n sc k it acc).
Proof. induction k as [|k IH]; intros it acc; cbn [drain_f]; pr. Qed.
Hint Resolve drain_pres : wpres.

Lemma gk_pres s ks : forall first, pres R (gk_f strict n s first ks).
Proof. induction ks as [|[e d] kr IH]; intro first; cbn [gk_f]; pr. Qed.
Hint Resolve gk_pres : wpres.

Lemma keyed_pres ks l : pres R (keyed_f strict n ks l).
Proof. induction l as [|s r IH]; cbn [keyed_f]; pr. Qed.
Hint Resolve keyed_pres : wpres.

Lemma sort_rows_pres sc src ks : pres R (sort_rows_f strict n sc src ks).
Proof. unfold sort_rows_f. pr. Qed.
Hint Resolve sort_rows_pres : wpres.

(* COLLECT *)
Lemma aggr_args_pres s args : forall col, pres R (aggr_args_f strict n s args col).
Proof. induction args as [|a ar IH]; intro col; cbn [aggr_args_f]; pr. Qed.
Hint Resolve aggr_args_pres : wpres.

Lemma aggr_sels_pres s sels : forall acc, pres R (aggr_sels_f strict n s sels acc).
Proof. induction sels as [|[[x f] args] sr IH]; intro acc; cbn [aggr_sels_f]; pr. Qed.
Hint Resolve aggr_sels_pres : wpres.

Lemma aggr_rows_pres sc sels : forall (k : nat) src acc cnt,
  pres R (aggr_rows_f strict n sc sels k src acc cnt).
Proof. induction k as [|k IH]; intros src acc cnt; cbn [aggr_rows_f]; pr. Qed.
Hint Resolve aggr_rows_pres : wpres.

Lemma grp_gk_pres ds gs : forall cs, pres R (grp_gk_f strict n ds gs cs).
Proof. induction gs as [|[x e] gr IH]; intro cs; cbn [grp_gk_f]; pr. Qed.
Hint Resolve grp_gk_pres : wpres.

Lemma grp_ini_pres sels : forall cs, pres R (grp_ini_f sels cs).
Proof. induction sels as [|[[x f] args] sr IH]; intro cs; cbn [grp_ini_f]; pr. Qed.
Hint Resolve grp_ini_pres : wpres.

Lemma grp_new_pres t cs : pres R (grp_new_f t cs).
Proof. unfold grp_new_f. pr. Qed.
Hint Resolve grp_new_pres : wpres.

Lemma grp_ev_pres ds args : pres R (grp_ev_f strict n ds args).
Proof. induction args as [|a ar IH]; cbn [grp_ev_f]; pr. Qed.
Hint Resolve grp_ev_pres : wpres.

Lemma grp_ag_pres ds idx sels : forall acc, pres R (grp_ag_f strict n ds idx sels acc).
Proof. induction sels as [|[[x f] args] sr IH]; intro acc; cbn [grp_ag_f]; pr. Qed.
Hint Resolve grp_ag_pres : wpres.

Lemma grp_add_pres ds t vv idx acc1 : pres R (grp_add_f strict n ds t vv idx acc1).
Proof. unfold grp_add_f. pr. Qed.
Hint Resolve grp_add_pres : wpres.

Lemma grp_pres sc gs t vv : forall (k : nat) src acc, pres R (grp_f strict n sc gs t vv k src acc).
Proof. induction k as [|k IH]; intros src acc; cbn [grp_f]; pr. Qed.
Hint Resolve grp_pres : wpres.

Lemma fin_pres sels gl : pres R (fin_f strict sels gl).
Proof. induction gl as [|[k cs] gr IH]; cbn [fin_f]; pr. Qed.
Hint Resolve fin_pres : wpres.

Lemma collect_rows_pres sc src gs t vv : pres R (collect_rows_f strict n sc src gs t vv).
Proof. unfold collect_rows_f. pr. Qed.
Hint Resolve collect_rows_pres : wpres.

Lemma N_pres it sc : pres R (nx (S n) it sc).
Proof. rewrite next_S. destruct it; pr. Qed.

End Step.

Lemma pres_all : forall n : nat,
  (forall e sc, pres R (ev n e sc)) /\ (forall q sc, pres R (evf n q sc)) /\
  (forall d sc, pres R (itr n d sc)) /\ (forall it sc, pres R (nx n it sc)).
Proof.
  induction n as [|n (HE & HF & HI & HN)].
  - split; [|split; [|split]]; intros; intro w; apply Rrefl.
  - split; [|split; [|split]]; intros;
      [apply E_pres|apply F_pres|apply I_pres|apply N_pres]; assumption.
Qed.

Lemma run_stmts_pres n ss : forall sc, pres R (run_stmts_f strict n ss sc).
Proof.
  destruct (pres_all n) as (HE & _).
  induction ss as [|s r IH]; intro sc; cbn [run_stmts_f]; pr.
Qed.

Lemma run_body_pres n p : pres R (run_body_g strict n p).
Proof.
  destruct (pres_all n) as (HE & HF & _). pose proof (run_stmts_pres n) as HS.
  rewrite run_body_eq. pr.
Qed.

End Main.
End Gen.

(* every relation below except wle is respected by a call on its own *)
Lemma pres_simple strict (R : world -> world -> Prop) :
  (forall w, R w w) -> (forall a b c, R a b -> R b c -> R a c) ->
  (forall id, pres R (add_closer id)) -> (forall f args, pres R (call_fn f args)) ->
  forall n : nat,
  ((forall e sc, pres R (eval_g strict n e sc)) /\ (forall q sc, pres R (eval_for_g strict n q sc)) /\
   (forall d sc, pres R (iterate_g strict n d sc)) /\ (forall it sc, pres R (next_g strict n it sc))) /\
  (forall p, pres R (run_body_g strict n p)).
Proof.
  intros Rr Rt Ha Hf n.
  pose proof (pres_call_site R Rr Rt Hf) as H1.
  pose proof (fun nrows ss => pres_aggr_red R Rr Rt Ha strict Hf nrows ss) as H2.
  pose proof (pres_fin_red R Rr Rt strict Hf) as H3.
  split.
  - apply (pres_all R Rr Rt Ha strict H1 H2 H3).
  - apply (run_body_pres R Rr Rt Ha strict H1 H2 H3).
Qed.

(* ================================================================ 1. wle0 *)
Lemma add_closer_wle0 id : pres wle0 (add_closer id).
Proof.
  intro w. unfold add_closer, wle0.
  cbn [fst snd w_trace w_closers w_ncalls w_cancelled w_cancel_at w_params w_fail_at].
  repeat split; auto; try lia.
  - exists [EvBind id]. reflexivity.
  - exists [id]. reflexivity.
Qed.

Lemma call_fn_wle0 f args : pres wle0 (call_fn f args).
Proof.
  intro w. destruct (call_fn_world f args w) as (T & N & C & K & A & P & F).
  unfold wle0. repeat split; auto; try lia.
  - exists [EvCall f args]. exact T.
  - exists []. exact C.
Qed.

Lemma world_le_all strict (n : nat) :
  ((forall e sc, pres wle0 (eval_g strict n e sc)) /\ (forall q sc, pres wle0 (eval_for_g strict n q sc)) /\
   (forall d sc, pres wle0 (iterate_g strict n d sc)) /\ (forall it sc, pres wle0 (next_g strict n it sc))) /\
  (forall p, pres wle0 (run_body_g strict n p)).
Proof. exact (pres_simple strict wle0 wle0_refl wle0_trans add_closer_wle0 call_fn_wle0 n). Qed.

Theorem eval_world_le : forall strict (f : nat) e sc w, wle0 w (snd (eval_g strict f e sc w)).
Proof. intros strict f e sc. apply (world_le_all strict f). Qed.
Theorem eval_for_world_le : forall strict (f : nat) q sc w, wle0 w (snd (eval_for_g strict f q sc w)).
Proof. intros strict f q sc. apply (world_le_all strict f). Qed.
Theorem iterate_world_le : forall strict (f : nat) d sc w, wle0 w (snd (iterate_g strict f d sc w)).
Proof. intros strict f d sc. apply (world_le_all strict f). Qed.
Theorem next_world_le : forall strict (f : nat) it sc w, wle0 w (snd (next_g strict f it sc w)).
Proof. intros strict f it sc. apply (world_le_all strict f). Qed.
Theorem run_body_world_le : forall strict (f : nat) p w, wle0 w (snd (run_body_g strict f p w)).
Proof. intros strict f p. apply (world_le_all strict f). Qed.

(* corollaries stated without the order *)
Theorem closers_only_grow : forall strict (f : nat) p w,
  exists suf, w_closers (snd (run_body_g strict f p w)) = suf ++ w_closers w.
Proof. intros strict f p w. apply (run_body_world_le strict f p w). Qed.

Theorem trace_append_only : forall strict (f : nat) p w,
  exists suf, w_trace (snd (run_body_g strict f p w)) = suf ++ w_trace w.
Proof. intros strict f p w. apply (run_body_world_le strict f p w). Qed.

Theorem cancellation_is_permanent : forall strict (f : nat) p w,
  w_cancelled w = true -> w_cancelled (snd (run_body_g strict f p w)) = true.
Proof. intros strict f p w. apply (run_body_world_le strict f p w). Qed.

Theorem cancellation_is_permanent_eval : forall strict (f : nat) e sc w,
  w_cancelled w = true -> w_cancelled (snd (eval_g strict f e sc w)) = true.
Proof. intros strict f e sc w. apply (eval_world_le strict f e sc w). Qed.

Theorem injection_settings_untouched : forall strict (f : nat) p w,
  let w' := snd (run_body_g strict f p w) in
  w_cancel_at w' = w_cancel_at w /\ w_params w' = w_params w /\ w_fail_at w' = w_fail_at w.
Proof. intros strict f p w. apply (run_body_world_le strict f p w). Qed.

(* ================================================================ 2. wle: the strict
   evaluator tests the context before each of the three call sites *)
Lemma wle_guard A (K : M A) : pres wle0 K -> pres wle (bind check_ctx (fun _ => K)).
Proof.
  intros HK w. unfold bind, check_ctx. destruct (w_cancelled w) eqn:C; cbn [snd recast].
  - apply wle_refl.
  - apply wle_of_wle0; [exact C|apply HK].
Qed.

Lemma add_closer_wle id : pres wle (add_closer id).
Proof.
  intro w. apply wle_iff. split; [apply add_closer_wle0|].
  intros _. unfold add_closer. cbn [snd w_trace w_ncalls calls]. split; reflexivity.
Qed.

Lemma set_var_wle0 x v sc : pres wle0 (set_var x v sc).
Proof. apply (pres_set_var wle0 wle0_refl wle0_trans add_closer_wle0). Qed.

Lemma call_site_wle (m : M (list value)) f :
  pres wle m -> pres wle (do _ <- check_ctx; do vs <- m; call_fn f vs).
Proof.
  intro Hm. apply wle_guard. apply (pres_bind wle0 wle0_trans).
  - exact (pres_impl wle wle0 m wle_wle0 Hm).
  - intro vs. apply call_fn_wle0.
Qed.

Lemma aggr_red_wle nrows ss cols cs : pres wle (aggr_red_f true nrows ss cols cs).
Proof.
  destruct ss as [|[[x f] a] sr]; [apply (pres_ret wle wle_refl)|].
  destruct cols as [|col cr]; [apply (pres_ret wle wle_refl)|].
  cbn [aggr_red_f]. cbv zeta. apply wle_guard.
  apply (pres_bind wle0 wle0_trans); [apply call_fn_wle0|]. intro v.
  apply (pres_bind wle0 wle0_trans); [apply set_var_wle0|]. intro cs'.
  apply (pres_aggr_red wle0 wle0_refl wle0_trans add_closer_wle0 true call_fn_wle0).
Qed.

Lemma fin_red_wle ss cs : pres wle (fin_red_f true ss cs).
Proof.
  destruct ss as [|[[x f] a] sr]; [apply (pres_ret wle wle_refl)|].
  cbn [fin_red_f]. apply (pres_bind wle wle_trans); [apply (pres_get_var wle wle_refl)|]. intro m.
  apply wle_guard.
  apply (pres_bind wle0 wle0_trans); [apply call_fn_wle0|]. intro v.
  apply (pres_fin_red wle0 wle0_refl wle0_trans true call_fn_wle0).
Qed.

Lemma world_le_strict_all (n : nat) :
  ((forall e sc, pres wle (eval n e sc)) /\ (forall q sc, pres wle (eval_for n q sc)) /\
   (forall d sc, pres wle (iterate n d sc)) /\ (forall it sc, pres wle (next n it sc))) /\
  (forall p, pres wle (run_body n p)).
Proof.
  split.
  - apply (pres_all wle wle_refl wle_trans add_closer_wle true call_site_wle aggr_red_wle fin_red_wle).
  - apply (run_body_pres wle wle_refl wle_trans add_closer_wle true call_site_wle aggr_red_wle fin_red_wle).
Qed.

Theorem eval_world_le_strict : forall (f : nat) e sc w, wle w (snd (eval f e sc w)).
Proof. intros f e sc. apply (world_le_strict_all f). Qed.
Theorem eval_for_world_le_strict : forall (f : nat) q sc w, wle w (snd (eval_for f q sc w)).
Proof. intros f q sc. apply (world_le_strict_all f). Qed.
Theorem iterate_world_le_strict : forall (f : nat) d sc w, wle w (snd (iterate f d sc w)).
Proof. intros f d sc. apply (world_le_strict_all f). Qed.
Theorem next_world_le_strict : forall (f : nat) it sc w, wle w (snd (next f it sc w)).
Proof. intros f it sc. apply (world_le_strict_all f). Qed.
Theorem run_body_world_le_strict : forall (f : nat) p w, wle w (snd (run_body f p w)).
Proof. intros f p. apply (world_le_strict_all f). Qed.

Lemma wle_last w w' : wle w w' -> w_cancelled w = true ->
  calls (w_trace w') = calls (w_trace w) /\ w_ncalls w' = w_ncalls w.
Proof. intro H. apply wle_iff in H. apply H. Qed.

Theorem no_call_after_cancel : forall (f : nat) e sc w, w_cancelled w = true ->
  calls (w_trace (snd (eval f e sc w))) = calls (w_trace w) /\
  w_ncalls (snd (eval f e sc w)) = w_ncalls w.
Proof. intros f e sc w. apply wle_last, eval_world_le_strict. Qed.
Theorem no_call_after_cancel_for : forall (f : nat) q sc w, w_cancelled w = true ->
  calls (w_trace (snd (eval_for f q sc w))) = calls (w_trace w) /\
  w_ncalls (snd (eval_for f q sc w)) = w_ncalls w.
Proof. intros f q sc w. apply wle_last, eval_for_world_le_strict. Qed.
Theorem no_call_after_cancel_iterate : forall (f : nat) d sc w, w_cancelled w = true ->
  calls (w_trace (snd (iterate f d sc w))) = calls (w_trace w) /\
  w_ncalls (snd (iterate f d sc w)) = w_ncalls w.
Proof. intros f d sc w. apply wle_last, iterate_world_le_strict. Qed.
Theorem no_call_after_cancel_next : forall (f : nat) it sc w, w_cancelled w = true ->
  calls (w_trace (snd (next f it sc w))) = calls (w_trace w) /\
  w_ncalls (snd (next f it sc w)) = w_ncalls w.
Proof. intros f it sc w. apply wle_last, next_world_le_strict. Qed.
Theorem no_call_after_cancel_body : forall (f : nat) p w, w_cancelled w = true ->
  calls (w_trace (snd (run_body f p w))) = calls (w_trace w) /\
  w_ncalls (snd (run_body f p w)) = w_ncalls w.
Proof. intros f p w. apply wle_last, run_body_world_le_strict. Qed.

(* ---- the pinned tree (strict = false): the AGGREGATE reducers are called
   directly, with no test of the context.  An iterator that is pulled in a
   cancelled world still invokes them ... *)
Definition pinned_cex_iter : iter :=
  ItCollect (ItIndexed (bs "x") None [] 0) [] (CTAggr [(bs "a", bs "T", [])]) (bs "x") None.

Lemma no_call_after_cancel_pinned_refuted :
  exists (f : nat) it sc w, w_cancelled w = true /\
    calls (w_trace (snd (next_g false f it sc w))) <> calls (w_trace w) /\
    w_ncalls (snd (next_g false f it sc w)) <> w_ncalls w.
Proof.
  exists 3%nat, pinned_cex_iter, [[]], (init_world [] true None).
  vm_compute. repeat split; discriminate.
Qed.

(* ... and in a whole run: FOR x IN [1] COLLECT AGGREGATE a = T(CANCEL()) RETURN a.
   The argument of the aggregate cancels the context while the rows are read;
   the pinned evaluator then calls the reducer T, the strict one does not *)
Definition pinned_cex_program : program :=
  {| p_stmts := [];
     p_ret := BFor (ForIn (bs "x") None (EArr [EInt 1])
                      [CCollect [] (CTAggr [(bs "a", bs "T", [ECall (bs "CANCEL") []])])]
                      (RReturn false (EVar (bs "a")))) |}.

Lemma pinned_reducer_runs_after_cancel :
  let w := init_world [] false None in
  map fst (calls (w_trace (snd (run_body_g false 20 pinned_cex_program w)))) = [bs "T"; bs "CANCEL"] /\
  map fst (calls (w_trace (snd (run_body_g true 20 pinned_cex_program w)))) = [bs "CANCEL"] /\
  fst (run_body_g false 20 pinned_cex_program w) = Err ETerminated /\
  fst (run_body_g true 20 pinned_cex_program w) = Err ETerminated.
Proof. vm_compute. repeat split. Qed.

(* ... but every expression, loop, data source and program of the pinned
   evaluator starts with a test of the context before it can reach an iterator:
   started in a cancelled world they invoke nothing (only next_g does) *)
Lemma for_wle_any strict (n : nat) q sc : pres wle (eval_for_g strict n q sc).
Proof.
  destruct n as [|n]; [intro w; apply wle_refl|].
  pose proof (world_le_all strict n) as ((HE & HF & HI & HN) & _).
  rewrite eval_for_S. apply wle_guard.
  destruct q as [vv kv src body r|vv dof cond body r];
    (apply (pres_bind wle0 wle0_trans); [apply HI|]; intro it;
     destruct r as [dflag e|q'];
     apply (for_loop_pres wle0 wle0_refl wle0_trans strict n HE HF HN)).
Qed.

Lemma world_le_pinned_partial_all (n : nat) :
  (forall e sc, pres wle (eval_g false n e sc)) /\ (forall d sc, pres wle (iterate_g false n d sc)).
Proof.
  induction n as [|n (HE & HI)].
  - split; intros; intro w; apply wle_refl.
  - assert (HE' : forall e sc, pres wle (eval_g false (S n) e sc)).
    { intros e sc.
      apply (E_pres wle wle_refl wle_trans false call_site_wle n HE (for_wle_any false n)). }
    split; [exact HE'|]. intros d sc.
    apply (I_pres wle wle_refl wle_trans false n HE HI).
Qed.

Theorem no_call_after_cancel_pinned_partial : forall (f : nat) w, w_cancelled w = true ->
  (forall e sc, calls (w_trace (snd (eval_g false f e sc w))) = calls (w_trace w) /\
                w_ncalls (snd (eval_g false f e sc w)) = w_ncalls w) /\
  (forall q sc, calls (w_trace (snd (eval_for_g false f q sc w))) = calls (w_trace w) /\
                w_ncalls (snd (eval_for_g false f q sc w)) = w_ncalls w) /\
  (forall d sc, calls (w_trace (snd (iterate_g false f d sc w))) = calls (w_trace w) /\
                w_ncalls (snd (iterate_g false f d sc w)) = w_ncalls w) /\
  (forall p, calls (w_trace (snd (run_body_g false f p w))) = calls (w_trace w) /\
             w_ncalls (snd (run_body_g false f p w)) = w_ncalls w).
Proof.
  intros f w C. destruct (world_le_pinned_partial_all f) as (HE & HI).
  split; [|split; [|split]]; intros.
  - exact (wle_last _ _ (HE e sc w) C).
  - exact (wle_last _ _ (for_wle_any false f q sc w) C).
  - exact (wle_last _ _ (HI d sc w) C).
  - unfold run_body_g, bind, check_ctx. rewrite C. cbn [snd recast]. split; reflexivity.
Qed.

(* ================================================================ 3. EvBind entries of
   the trace = the closer list *)
Lemma add_closer_wbind id : pres wbind (add_closer id).
Proof.
  intros w H. unfold binds_ok, add_closer in *. cbn [snd w_trace w_closers binds].
  rewrite H. reflexivity.
Qed.
Lemma call_fn_wbind f args : pres wbind (call_fn f args).
Proof.
  intros w H. destruct (call_fn_world f args w) as (T & _ & C & _).
  unfold binds_ok in *. rewrite T, C. exact H.
Qed.

Lemma binds_ok_all strict (n : nat) :
  ((forall e sc, pres wbind (eval_g strict n e sc)) /\ (forall q sc, pres wbind (eval_for_g strict n q sc)) /\
   (forall d sc, pres wbind (iterate_g strict n d sc)) /\ (forall it sc, pres wbind (next_g strict n it sc))) /\
  (forall p, pres wbind (run_body_g strict n p)).
Proof. exact (pres_simple strict wbind wbind_refl wbind_trans add_closer_wbind call_fn_wbind n). Qed.

Theorem bind_events_match_closers : forall strict (f : nat) p w,
  binds (w_trace w) = w_closers w ->
  binds (w_trace (snd (run_body_g strict f p w))) = w_closers (snd (run_body_g strict f p w)).
Proof. intros strict f p w. apply (binds_ok_all strict f). Qed.

Theorem bind_events_match_closers_eval : forall strict (f : nat) e sc w,
  binds (w_trace w) = w_closers w ->
  binds (w_trace (snd (eval_g strict f e sc w))) = w_closers (snd (eval_g strict f e sc w)).
Proof. intros strict f e sc w. apply (binds_ok_all strict f). Qed.

(* a run starts from a world where it holds *)
Lemma binds_ok_init params pre at_ : binds_ok (init_world params pre at_).
Proof. reflexivity. Qed.

(* ================================================================ 4. cancellation only
   arises inside an instrumented call *)
Lemma add_closer_wcnt id : pres wcnt (add_closer id).
Proof.
  intro w. unfold wcnt, add_closer. cbn [snd w_ncalls w_cancelled].
  split; [lia|]. intros H1 H2. rewrite H1 in H2. discriminate.
Qed.
Lemma call_fn_wcnt f args : pres wcnt (call_fn f args).
Proof.
  intro w. destruct (call_fn_world f args w) as (_ & N & _). unfold wcnt. rewrite N. lia.
Qed.

Lemma wcnt_all strict (n : nat) :
  ((forall e sc, pres wcnt (eval_g strict n e sc)) /\ (forall q sc, pres wcnt (eval_for_g strict n q sc)) /\
   (forall d sc, pres wcnt (iterate_g strict n d sc)) /\ (forall it sc, pres wcnt (next_g strict n it sc))) /\
  (forall p, pres wcnt (run_body_g strict n p)).
Proof. exact (pres_simple strict wcnt wcnt_refl wcnt_trans add_closer_wcnt call_fn_wcnt n). Qed.

Theorem cancel_happens_inside_a_call : forall strict (f : nat) e sc w,
  w_cancelled w = false -> w_cancelled (snd (eval_g strict f e sc w)) = true ->
  (w_ncalls w < w_ncalls (snd (eval_g strict f e sc w)))%N.
Proof. intros strict f e sc w. apply (wcnt_all strict f). Qed.
Theorem cancel_happens_inside_a_call_for : forall strict (f : nat) q sc w,
  w_cancelled w = false -> w_cancelled (snd (eval_for_g strict f q sc w)) = true ->
  (w_ncalls w < w_ncalls (snd (eval_for_g strict f q sc w)))%N.
Proof. intros strict f q sc w. apply (wcnt_all strict f). Qed.
Theorem cancel_happens_inside_a_call_iterate : forall strict (f : nat) d sc w,
  w_cancelled w = false -> w_cancelled (snd (iterate_g strict f d sc w)) = true ->
  (w_ncalls w < w_ncalls (snd (iterate_g strict f d sc w)))%N.
Proof. intros strict f d sc w. apply (wcnt_all strict f). Qed.
Theorem cancel_happens_inside_a_call_next : forall strict (f : nat) it sc w,
  w_cancelled w = false -> w_cancelled (snd (next_g strict f it sc w)) = true ->
  (w_ncalls w < w_ncalls (snd (next_g strict f it sc w)))%N.
Proof. intros strict f it sc w. apply (wcnt_all strict f). Qed.
Theorem cancel_happens_inside_a_call_body : forall strict (f : nat) p w,
  w_cancelled w = false -> w_cancelled (snd (run_body_g strict f p w)) = true ->
  (w_ncalls w < w_ncalls (snd (run_body_g strict f p w)))%N.
Proof. intros strict f p w. apply (wcnt_all strict f). Qed.

(* ================================================================ remarks *)
(* what Theorem 2 does not say: the context is tested when a call expression
   starts, before its arguments are evaluated; an argument that cancels the
   context does not stop the call it belongs to (C13: a call whose test preceded
   the cancellation completes).  So "no EvCall after the cancelling one in the
   trace of a run" is false, also for the strict evaluator: RETURN T(CANCEL()) *)
Lemma call_whose_argument_cancels_still_runs :
  let p := {| p_stmts := []; p_ret := BReturn (ECall (bs "T") [ECall (bs "CANCEL") []]) |} in
  let r := run_body 20 p (init_world [] false None) in
  fst r = Ok VNone /\ w_cancelled (snd r) = true /\
  map fst (calls (w_trace (snd r))) = [bs "T"; bs "CANCEL"].
Proof. vm_compute. repeat split. Qed.

(* the closables Run closes are the EvBind events of the trace, in order *)
Theorem run_closes_bind_events : forall wraps strict (fuel : nat) p w,
  binds (w_trace w) = w_closers w ->
  fst (run_api_g wraps strict fuel p w) <> AUndefined ->
  close_ids (snd (run_api_g wraps strict fuel p w)) =
  rev (binds (w_trace (snd (run_body_g strict fuel p w)))).
Proof.
  intros wraps strict fuel p w H U.
  destruct (run_closes wraps strict fuel p w U) as [E _].
  rewrite E, (bind_events_match_closers strict fuel p w H). reflexivity.
Qed.
