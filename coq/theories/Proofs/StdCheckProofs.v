(* Proofs/StdCheckProofs.v — the boolean comparator of the correspondence
   check (Check/C16.v [agree]) is sound for the relation [meets] in which the
   theorems are stated: an observation the check accepts does satisfy the
   specification. *)
From Ferret Require Import Value Compare StdArrays Check.C16 Proofs.StdArraysProofs.
From Coq Require Import Lia Permutation SetoidList SetoidPermutation.

Lemma remove_first_sound x : forall l r, remove_first x l = Some r ->
  exists y, struct_eq x y /\ Permutation l (y :: r).
Proof.
  induction l as [|z t IH]; intros r H; cbn in H; [discriminate|].
  destruct (heq x z) eqn:E.
  - injection H as <-. exists z. split; [now apply heq_iff | reflexivity].
  - destruct (remove_first x t) as [r'|] eqn:E2; [|discriminate]. injection H as <-.
    destruct (IH r' eq_refl) as [y [Hy Hp]]. exists y. split; [exact Hy|].
    rewrite Hp. apply perm_swap.
Qed.
Lemma perm_eqb_sound : forall a b, perm_eqb a b = true -> PermutationA struct_eq a b.
Proof.
  induction a as [|x r IH]; intros b H; cbn in H.
  - destruct b; [constructor | discriminate].
  - destruct (remove_first x b) as [b'|] eqn:E; [|discriminate].
    destruct (remove_first_sound x b b' E) as [y [Hy Hp]].
    transitivity (y :: b').
    + constructor; [exact Hy | now apply IH].
    + apply Permutation_PermutationA; [apply struct_eq_equiv | now symmetry].
Qed.
Lemma subsetb_sound a b : subsetb a b = true -> forall x, hmem x a -> hmem x b.
Proof.
  unfold subsetb. rewrite forallb_forall. intros H x [y [Hy E]].
  specialize (H y Hy). apply hmemb_iff in H. destruct H as [z [Hz Ez]].
  exists z. split; [exact Hz|]. now rewrite Ez.
Qed.
Lemma seteqb_sound a b : seteqb a b = true -> set_eq a b.
Proof.
  unfold seteqb. intros H. apply andb_prop in H as [H1 H2]. intros x. split.
  - now apply subsetb_sound.
  - now apply subsetb_sound.
Qed.
Lemma nodupb_sound l : nodupb l = true -> nodup_h l.
Proof.
  induction l as [|x r IH]; intros H; [constructor|]. cbn in H. apply andb_prop in H as [H1 H2].
  constructor; [|now apply IH]. intros Hin. apply hmemb_true_inA in Hin. rewrite Hin in H1. discriminate.
Qed.

Theorem agree_sound o s : agree o s = true -> meets o s.
Proof.
  destruct s as [v|l|l|l|l|l| | |]; cbn [agree]; intros H.
  - destruct o as [w| | |]; try discriminate. constructor. now apply heq_iff.
  - destruct o as [[| | | | | |r| |]| | |]; try discriminate. constructor. now apply perm_eqb_sound.
  - destruct o as [[| | | | | |r| |]| | |]; try discriminate. constructor. now apply seteqb_sound.
  - destruct o as [[| | | | | |r| |]| | |]; try discriminate. apply andb_prop in H as [H1 H2].
    constructor; [now apply seteqb_sound | now apply nodupb_sound].
  - destruct o as [[| | | | | |r| |]| | |]; try discriminate. apply andb_prop in H as [H1 H2].
    constructor; [exact H1 | now apply perm_eqb_sound].
  - destruct o as [[| | | | | |r| |]| | |]; try discriminate. apply andb_prop in H as [H12 H3].
    apply andb_prop in H12 as [H1 H2].
    constructor; [exact H1 | now apply seteqb_sound | now apply nodupb_sound].
  - destruct o as [[| | | | | |r| |]| | |]; try discriminate. constructor.
  - destruct o; try discriminate. constructor.
  - constructor.
Qed.
