(* Proofs/ParserProofs.v — properties of the reference parser.
   Part A: a query is accepted only when the whole token list is one program.
   Part B: the parser inverts the printer of Render.v on the expression
           sub-language (literals, names, parameters, all operator levels, the
           ternary, arrays, calls, error suppression, parentheses — minimal or
           redundant), for every continuation that cannot extend the
           expression: precedence and associativity of the three tiers are
           what the printer assumes. *)
From Ferret Require Import Render.
Require Import Lia.
Local Open Scope nat_scope.

(* ------------------------------------------------------------- Part A *)
(* the search over the readings of the undecided '?' tokens *)
Lemma search_sound : forall A (run : list nat -> pres A) cands t0 a r,
  search run cands t0 = POk a r -> exists terns, run terns = POk a r.
Proof.
  intros A run. induction cands as [|p cands IH]; intros t0 a r H.
  - exists t0. exact H.
  - cbn [search] in H. destruct (search run cands t0) as [a' r'| |] eqn:E.
    + inversion H; subst. apply (IH t0 a r E).
    + apply (IH (p :: t0) a r H).
    + discriminate.
Qed.

Lemma search_const : forall A (run : list nat -> pres A) cands t0 a r,
  (forall terns, run terns = POk a r) -> search run cands t0 = POk a r.
Proof.
  intros A run. induction cands as [|p cands IH]; intros t0 a r H.
  - apply H.
  - cbn [search]. rewrite (IH t0 a r H). reflexivity.
Qed.

Lemma search_fail : forall A (run : list nat -> pres A) cands t0,
  (forall terns, run terns = PFail) -> search run cands t0 = PFail.
Proof.
  intros A run. induction cands as [|p cands IH]; intros t0 H.
  - apply H.
  - cbn [search]. rewrite (IH t0 H). apply IH. exact H.
Qed.

Lemma search_none : forall A (run : list nat -> pres A) cands t0,
  (forall terns a r, run terns <> POk a r) -> forall a r, search run cands t0 <> POk a r.
Proof.
  intros A run cands t0 H a r E. destruct (search_sound A run cands t0 a r E) as [terns Ht].
  apply (H terns a r Ht).
Qed.

Lemma whole_ok : forall A (x : pres A) a r, whole x = POk a r -> x = POk a [] /\ r = [].
Proof.
  intros A x a r H. destruct x as [a' r'| |]; try discriminate.
  destruct r'; try discriminate. inversion H; subst. split; reflexivity.
Qed.

(* acceptance means: under some reading of the undecided '?' tokens the
   program read from the front is the whole token list *)
Theorem parse_consumes_all_lemma : forall ts p,
  parse_program ts = Some p ->
  exists terns, parse_prefix_with (choice_of terns) ts = POk p [].
Proof.
  unfold parse_program, parse_query; intros ts p H.
  destruct (search _ _ _) as [q r | |] eqn:E; try discriminate. inversion H; subst.
  destruct (search_sound _ _ _ _ _ _ E) as [terns Ht].
  exists terns. apply whole_ok in Ht. tauto.
Qed.

(* if every reading that reads a program from the front leaves tokens over,
   the query is ill-formed *)
Theorem leftover_is_rejected : forall ts,
  (forall ch p r, parse_prefix_with ch ts = POk p r -> r <> []) ->
  parse_program ts = None.
Proof.
  intros ts H. unfold parse_program, parse_query.
  destruct (search _ _ _) as [q r | |] eqn:E; try reflexivity.
  destruct (search_sound _ _ _ _ _ _ E) as [terns Ht].
  apply whole_ok in Ht. destruct Ht as [Ht _].
  exfalso. apply (H _ _ _ Ht). reflexivity.
Qed.

(* if all readings agree, that is the result *)
Theorem all_readings_agree : forall ts p,
  (forall ch, parse_prefix_with ch ts = POk p []) -> parse_program ts = Some p.
Proof.
  intros ts p H. unfold parse_program, parse_query.
  rewrite (search_const _ _ _ _ p []); [reflexivity|].
  intros terns. rewrite H. reflexivity.
Qed.

(* ------------------------------------------------------------- Part B *)
Section Ch.
(* everything below holds for every oracle [ch] *)
Variable ch : nat -> bool.

Definition hd_kind (ts : toks) : option kind :=
  match ts with (k, _) :: _ => Some k | [] => None end.

Definition not_unop (ts : toks) : Prop :=
  match ts with (k, _) :: _ => unop_of k = None | [] => False end.

(* the loop of level [lv] stops in front of [rest] *)
Definition stops (lv : nat) (rest : toks) : Prop :=
  match lv with
  | 1 => hd_kind rest <> Some KQuestion
  | 4 => True
  | _ => binop lv rest = None
  end.

Lemma bin_loop_stop : forall pe tb f lv a rest,
  binop lv rest = None -> bin_loop pe tb (S f) lv a rest = POk a rest.
Proof. intros; simpl; rewrite H; reflexivity. Qed.

Lemma tern_loop_stop : forall pe tb f c rest,
  hd_kind rest <> Some KQuestion -> tern_loop pe tb (S f) c rest = POk c rest.
Proof.
  intros pe tb f c rest H; simpl.
  destruct rest as [|[k t] r]; [reflexivity|].
  destruct k; try reflexivity. simpl in H; congruence.
Qed.

Lemma bindr_ok : forall A B (a : A) r (k : A -> toks -> pres B), bindr (POk a r) k = k a r.
Proof. reflexivity. Qed.

(* one level down: the result of level [S lv] is the result of level [lv]
   when the loop of [lv] stops (and, at the prefix level, no prefix operator
   is in front) *)
Lemma descend1 : forall f tb lv ts e rest,
  lv <= 11 ->
  parse_at ch (S f) tb (S lv) ts = POk e rest ->
  stops lv rest -> (lv = 4 -> not_unop ts) ->
  parse_at ch (S (S f)) tb lv ts = POk e rest.
Proof.
  intros f tb lv ts e rest Hle H Hs Hu.
  destruct lv as [|[|[|[|[|[|[|[|[|[|[|[|lv]]]]]]]]]]]]; try lia;
    try (match goal with |- parse_at ch _ _ ?l _ = _ =>
           change (parse_at ch (S (S f)) tb l ts) with
             (bindr (parse_at ch (S f) tb (S l) ts) (bin_loop (parse_at ch (S f)) tb (S f) l)) end;
         rewrite H, bindr_ok; apply bin_loop_stop; exact Hs).
  - (* 1 *)
    change (parse_at ch (S (S f)) tb 1 ts) with
      (bindr (parse_at ch (S f) tb 2 ts) (tern_loop (parse_at ch (S f)) tb (S f))).
    rewrite H, bindr_ok. apply tern_loop_stop; exact Hs.
  - (* 4 *)
    specialize (Hu eq_refl). destruct ts as [|[k t] r]; [destruct Hu|].
    simpl in Hu.
    change (parse_at ch (S (S f)) tb 4 ((k, t) :: r)) with
      (match unop_of k with
       | Some o => mapr (EUn o) (parse_at ch (S f) tb 4 r)
       | None => parse_at ch (S f) tb 5 ((k, t) :: r)
       end).
    rewrite Hu. exact H.
Qed.

(* several levels down *)
Lemma descend : forall k f tb lv ts e rest,
  lv + k <= 12 ->
  parse_at ch (S f) tb (lv + k) ts = POk e rest ->
  (forall l, lv <= l < lv + k -> stops l rest) ->
  (lv <= 4 < lv + k -> not_unop ts) ->
  parse_at ch (S f + k) tb lv ts = POk e rest.
Proof.
  induction k as [|k IH]; intros f tb lv ts e rest Hle H Hs Hu.
  - rewrite Nat.add_0_r in *. exact H.
  - replace (S f + S k) with (S (S f) + k) by lia.
    apply IH; try lia.
    + replace (lv + S k) with (S (lv + k)) in H by lia.
      apply descend1; try lia; try exact H.
      * apply Hs; lia.
      * intros E. apply Hu; lia.
    + intros l Hl. apply Hs; lia.
    + intros Hl. apply Hu; lia.
Qed.

(* from the primary level to level [lv] *)
Lemma from_primary : forall f tb lv ts e rest,
  lv <= 12 ->
  primary ch (parse_at ch f) tb f ts = POk e rest ->
  (forall l, lv <= l < 12 -> stops l rest) ->
  (lv <= 4 -> not_unop ts) ->
  parse_at ch (S f + (12 - lv)) tb lv ts = POk e rest.
Proof.
  intros f tb lv ts e rest Hle H Hs Hu.
  apply descend; try lia.
  - replace (lv + (12 - lv)) with 12 by lia. exact H.
  - intros l Hl. apply Hs; lia.
  - intros Hl. apply Hu; lia.
Qed.

(* ----------------------------------------------- unfolding equations *)
Definition bin_level (l : nat) : bool :=
  match l with 2 | 3 | 5 | 6 | 7 | 8 | 9 | 10 | 11 => true | _ => false end.

Lemma parse_at_bin : forall f tb l ts, bin_level l = true ->
  parse_at ch (S f) tb l ts = bindr (parse_at ch f tb (S l) ts) (bin_loop (parse_at ch f) tb f l).
Proof.
  intros f tb l ts H.
  destruct l as [|[|[|[|[|[|[|[|[|[|[|[|l]]]]]]]]]]]]; try discriminate; reflexivity.
Qed.
Lemma parse_at_1 : forall f tb ts,
  parse_at ch (S f) tb 1 ts = bindr (parse_at ch f tb 2 ts) (tern_loop (parse_at ch f) tb f).
Proof. reflexivity. Qed.
Lemma parse_at_4 : forall f tb k t r,
  parse_at ch (S f) tb 4 ((k, t) :: r) =
  match unop_of k with
  | Some o => mapr (EUn o) (parse_at ch f tb 4 r)
  | None => parse_at ch f tb 5 ((k, t) :: r)
  end.
Proof. reflexivity. Qed.
Lemma parse_at_12 : forall f tb ts, parse_at ch (S f) tb 12 ts = primary ch (parse_at ch f) tb f ts.
Proof. reflexivity. Qed.
Lemma bin_loop_S : forall pe tb g lv a ts,
  bin_loop pe tb (S g) lv a ts =
  match binop lv ts with
  | Some (mk, r) => bindr (pe tb (S lv) r) (fun b r' => bin_loop pe tb g lv (mk a b) r')
  | None => POk a ts
  end.
Proof. reflexivity. Qed.
Lemma tern_loop_S : forall pe tb g c ts,
  tern_loop pe tb (S g) c ts =
  match ts with
  | (KQuestion, _) :: (KColon, _) :: r =>
      bindr (pe tb 2 r) (fun e r' => tern_loop pe tb g (ECond c None e) r')
  | (KQuestion, _) :: r =>
      bind_tok (pe true 1 r) (is_colon) (fun t r' =>
        bindr (pe tb 2 r') (fun e r'' => tern_loop pe tb g (ECond c (Some t) e) r''))
  | _ => POk c ts
  end.
Proof. reflexivity. Qed.

(* ------------------------------------------------- printable programs *)
Definition str_ok (s : bytes) : bool :=
  forallb (fun c => negb (c =? 34)%N && negb (c =? 92)%N) s.
Definition is_distinct (k : kind) : bool := match k with KDistinct => true | _ => false end.
(* a variable / parameter name: an identifier or a safe reserved word other
   than DISTINCT (RETURN DISTINCT x would read it as the keyword) *)
Definition var_ok (x : bytes) : bool :=
  is_varname (word_kind (runes_of x)) && negb (is_distinct (word_kind (runes_of x))).
Definition call_ok (f : bytes) : bool :=
  is_ident (word_kind (runes_of f)) && bytes_eqb (upper_name f) f.
Definition int_ok (z : Z) : bool :=
  (0 <=? z)%Z &&
  match int_value (digits (Z.to_N z)) with Some z' => (z' =? z)%Z | None => false end.
(* loop variables, COLLECT / AGGREGATE / INTO names: plain identifiers *)
Definition ident_ok (x : bytes) : bool := is_ident (word_kind (runes_of x)).
(* LET names: identifier, '_' , safe reserved word *)
Definition let_ok (x : bytes) : bool :=
  is_varname (word_kind (runes_of x)) || is_loopvar (word_kind (runes_of x)).
Definition range_op (a : expr) : bool :=
  match a with EInt z => int_ok z | EVar x | EParam x => var_ok x | _ => false end.
Definition member_src (s : expr) : bool :=
  match s with EVar _ | EParam _ | EArr _ | EObj _ | ECall _ _ => true | _ => false end.
Definition is_nil {A} (l : list A) : bool := match l with [] => true | _ => false end.
(* forExpressionSource / limitClauseValue as the printer can write them *)
Definition source_ok (s : expr) : bool :=
  match s with
  | EVar _ | EParam _ | EArr _ | EObj _ | ECall _ _ | EMember _ _ | ERange _ _ => true
  | _ => false
  end.
Definition limit_ok (s : expr) : bool :=
  match s with EInt _ | EVar _ | EParam _ | ECall _ _ | EMember _ _ => true | _ => false end.
Definition call_stmt_ok (e : expr) : bool :=
  match e with ECall _ _ => true | ESuppress (ECall _ _) => true | _ => false end.
Definition counts_or_aggr (t : ctail) : bool :=
  match t with CTCount _ | CTAggr _ => true | _ => false end.

(* the class of programs of the round-trip theorems: everything the AST has
   except float literals, with names, strings and integers the lexer reads
   back (see the *_ok predicates), member sources / loop sources / LIMIT
   values of the shapes the grammar allows, and no error-suppressed call as a
   loop source or LIMIT value *)
Fixpoint printable (e : expr) : bool :=
  match e with
  | ENone | EBool _ => true
  | EInt z => int_ok z
  | EFloat _ => false
  | EStr s => str_ok s
  | EVar x | EParam x => var_ok x
  | EUn _ a | ESuppress a => printable a
  | ELog _ a b | ECmp _ a b | EIn _ a b | EQuant _ _ a b | ELike _ a b | ERegex _ a b
  | EMath _ a b => printable a && printable b
  | ECond c t f =>
      printable c && match t with Some t' => printable t' | None => true end && printable f
  | EArr es => forallb printable es
  | ECall f args => call_ok f && forallb printable args
  | EObj ps => forallb printable_prop ps
  | ERange a b => range_op a && range_op b
  | EMember s p => member_src s && printable s && negb (is_nil p) && forallb printable_seg p
  | ESub q => printable_for q
  end
with printable_prop (p : prop) : bool :=
  match p with
  | PNamed _ e => printable e
  | PComputed k e => printable k && printable e
  | PShort x => var_ok x
  end
with printable_seg (s : seg) : bool :=
  match s with
  | Seg _ e => match e with EStr nm => is_word_text nm || str_ok nm | _ => printable e end
  end
with printable_for (q : forq) : bool :=
  match q with
  | ForIn v k s bd r =>
      ident_ok v && match k with Some k' => ident_ok k' | None => true end
      && source_ok s && printable s && forallb printable_clause bd && printable_ret r
  | ForWhile v d c bd r =>
      ident_ok v && printable c && forallb printable_clause bd && printable_ret r
  end
with printable_clause (c : fclause) : bool :=
  match c with
  | CLet x e => let_ok x && printable e
  | CCall e => call_stmt_ok e && printable e
  | CFilter e => printable e
  | CSort ks => negb (is_nil ks) && forallb (fun kd => printable (fst kd)) ks
  | CLimit o n =>
      match o with Some a => limit_ok a && printable a | None => true end
      && limit_ok n && printable n
  | CCollect gs t =>
      forallb (fun g => ident_ok (fst g) && printable (snd g)) gs && printable_ctail t
      && (negb (is_nil gs) || counts_or_aggr t)
  end
with printable_ctail (t : ctail) : bool :=
  match t with
  | CTNone => true
  | CTInto x p => ident_ok x && match p with Some e => printable e | None => true end
  | CTCount x => ident_ok x
  | CTAggr ss =>
      negb (is_nil ss)
      && forallb (fun s => ident_ok (fst (fst s)) && call_ok (snd (fst s)) && forallb printable (snd s)) ss
  end
with printable_ret (r : fret) : bool :=
  match r with
  | RReturn _ e => printable e
  | RFor q => printable_for q
  end.

Definition sum_by {A} (f : A -> nat) (l : list A) : nat := fold_right (fun x n => f x + n) 0 l.

Fixpoint size (e : expr) : nat :=
  match e with
  | EUn _ a | ESuppress a => S (size a)
  | ELog _ a b | ECmp _ a b | EIn _ a b | EQuant _ _ a b | ELike _ a b | ERegex _ a b
  | EMath _ a b => S (size a + size b)
  | ECond c t f => S (size c + match t with Some t' => size t' | None => 0 end + size f)
  | EArr es | ECall _ es => S (fold_right (fun x n => size x + n) 0 es)
  | EObj ps => S (fold_right (fun x n => size_prop x + n) 0 ps)
  | EMember s p =>
      match p with
      | [] => size s
      | _ => S (size s + fold_right (fun x n => size_seg x + n) 0 p)
      end
  | ESub q => S (size_for q)
  | _ => 1
  end
with size_prop (p : prop) : nat :=
  match p with
  | PNamed _ e => S (size e)
  | PComputed k e => S (size k + size e)
  | PShort _ => 1
  end
with size_seg (s : seg) : nat :=
  match s with Seg _ e => size e end
with size_for (q : forq) : nat :=
  match q with
  | ForIn _ _ s bd r => S (S (size s + fold_right (fun x n => size_clause x + n) 0 bd + size_ret r))
  | ForWhile _ _ c bd r => S (S (size c + fold_right (fun x n => size_clause x + n) 0 bd + size_ret r))
  end
with size_clause (c : fclause) : nat :=
  match c with
  | CLet _ e | CFilter e => S (size e)
  | CCall e => size e
  | CSort ks => S (fold_right (fun x n => size (fst x) + n) 0 ks)
  | CLimit o n => S (match o with Some a => size a | None => 0 end + size n)
  | CCollect gs t => S (fold_right (fun x n => size (snd x) + n) 0 gs + size_ctail t)
  end
with size_ctail (t : ctail) : nat :=
  match t with
  | CTNone => 0
  | CTInto _ p => S (match p with Some e => size e | None => 0 end)
  | CTCount _ => 1
  | CTAggr ss => S (fold_right (fun x n => S (fold_right (fun y m => size y + m) 0 (snd x)) + n) 0 ss)
  end
with size_ret (r : fret) : nat :=
  match r with
  | RReturn _ e => S (size e)
  | RFor q => S (size_for q)
  end.
Definition need (e : expr) : nat := 64 * size e.

Lemma size_pos : forall e, 1 <= size e.
Proof. induction e; simpl; try lia. destruct path; lia. Qed.

Lemma size_member : forall s p, p <> [] -> size (EMember s p) = S (size s + sum_by size_seg p).
Proof. intros s p H. destruct p; [congruence|reflexivity]. Qed.

Lemma size_in : forall (es : list expr) x, In x es -> size x <= fold_right (fun x n => size x + n) 0 es.
Proof.
  induction es as [|y es IH]; intros x Hin; [destruct Hin|].
  simpl. destruct Hin as [->|Hin]; [lia|]. specialize (IH x Hin). lia.
Qed.

(* ----------------------------------------------------- token facts *)
Definition good_head (k : kind) : bool :=
  match k with
  | KNone | KBool | KInt | KString | KParam | KNot | KMinus | KPlus | KLBrack | KLParen | KLBrace => true
  | KDistinct => false
  | _ => is_varname k
  end.

Lemma bytes_eqb_eq : forall a b, bytes_eqb a b = true -> a = b.
Proof.
  unfold bytes_eqb. induction a as [|x a IH]; intros [|y b] H; simpl in H; try discriminate; auto.
  destruct (N.compare x y) eqn:E; try discriminate.
  apply N.compare_eq in E. subst. f_equal. apply IH. exact H.
Qed.

Lemma unesc_id : forall s, str_ok s = true -> unesc s = s.
Proof.
  induction s as [|c s IH]; intros H; [reflexivity|].
  simpl in H. apply andb_prop in H. destruct H as [Hc Hs].
  apply andb_prop in Hc. destruct Hc as [_ Hb].
  simpl. destruct (c =? 92)%N; [discriminate|]. f_equal. auto.
Qed.

Lemma firstn_app_exact : forall A (l r : list A), firstn (List.length l) (l ++ r) = l.
Proof. induction l; intros; simpl; [reflexivity|f_equal; auto]. Qed.

Lemma str_inner_quote : forall s, str_inner (34%N :: s ++ [34%N]) = s.
Proof.
  intros s. unfold str_inner. cbn [quote_width].
  replace (List.length (34%N :: s ++ [34%N]) - 2 * 1) with (List.length s).
  - cbn [skipn]. apply firstn_app_exact.
  - cbn [List.length]. rewrite app_length. simpl. lia.
Qed.

Lemma str_value_quote : forall s, str_ok s = true -> str_value (snd (quote_tok s)) = s.
Proof.
  intros s H. unfold quote_tok, str_value. cbn [snd].
  rewrite str_inner_quote. apply unesc_id. exact H.
Qed.

(* the continuation cannot extend a primary: no call parenthesis, no range,
   no member path *)
Definition no_postfix (rest : toks) : Prop :=
  match rest with
  | (KLParen, _) :: _ | (KRange, _) :: _ | (KDot, _) :: _ | (KLBrack, _) :: _ => False
  | (KQuestion, _) :: (KDot, _) :: _ => False
  | _ => True
  end.

Ltac rest_cases rest :=
  let k := fresh "k" in let t := fresh "t" in let r := fresh "r" in
  destruct rest as [|[k t] r]; [|destruct k]; simpl in *; try tauto; try reflexivity.

Lemma path_none : forall pe g rest, no_postfix rest -> parse_path pe (S g) rest = POk [] rest.
Proof.
  intros pe g rest H. rest_cases rest.
  rest_cases r.
Qed.

Lemma with_path_none : forall pe g src rest,
  no_postfix rest -> with_path pe (S g) src rest = POk src rest.
Proof. intros. unfold with_path. rewrite path_none by assumption. reflexivity. Qed.

Lemma after_name_none : forall pe g a rest,
  no_postfix rest -> after_name pe (S g) a rest = POk a rest.
Proof.
  intros pe g a rest H. unfold after_name.
  destruct rest as [|[k t] r]; [apply with_path_none; exact H|].
  destruct k; try (apply with_path_none; exact H). destruct H.
Qed.

Lemma starts_path_none : forall rest, no_postfix rest -> starts_path rest = false.
Proof. intros rest H. rest_cases rest. rest_cases r. Qed.

Lemma call_start_no : forall k t rest,
  no_postfix rest -> k <> KNsSeg -> is_call_start ((k, t) :: rest) = false.
Proof.
  intros k t rest H Hk. unfold is_call_start.
  destruct k; try congruence; rest_cases rest.
Qed.

Lemma varname_not_ns : forall k, is_varname k = true -> k <> KNsSeg.
Proof. intros k H E; subst; discriminate. Qed.

Lemma primary_var : forall pe tb g k x rest,
  is_varname k = true -> no_postfix rest ->
  primary ch pe tb (S g) ((k, x) :: rest) = POk (EVar x) rest.
Proof.
  intros pe tb g k x rest Hk H. unfold primary.
  rewrite call_start_no by (auto using varname_not_ns).
  destruct k; try discriminate; apply after_name_none; exact H.
Qed.

Lemma primary_param : forall pe tb g t0 k x rest,
  is_varname k = true -> no_postfix rest ->
  primary ch pe tb (S g) ((KParam, t0) :: (k, x) :: rest) = POk (EParam x) rest.
Proof.
  intros pe tb g t0 k x rest Hk H. unfold primary.
  assert (E : is_call_start ((KParam, t0) :: (k, x) :: rest) = false).
  { unfold is_call_start. destruct k; try discriminate; reflexivity. }
  rewrite E. rewrite Hk. apply after_name_none; exact H.
Qed.

Lemma primary_none : forall pe tb g t rest,
  no_postfix rest -> primary ch pe tb g ((KNone, t) :: rest) = POk ENone rest.
Proof.
  intros. unfold primary. rewrite call_start_no by (auto; discriminate). reflexivity.
Qed.

Lemma primary_bool : forall pe tb g t rest,
  no_postfix rest -> primary ch pe tb g ((KBool, t) :: rest) = POk (EBool (bool_value t)) rest.
Proof.
  intros. unfold primary. rewrite call_start_no by (auto; discriminate). reflexivity.
Qed.

Lemma primary_str : forall pe tb g t rest,
  no_postfix rest -> primary ch pe tb g ((KString, t) :: rest) = POk (EStr (str_value t)) rest.
Proof.
  intros. unfold primary. rewrite call_start_no by (auto; discriminate). reflexivity.
Qed.

Lemma primary_int : forall pe tb g t z rest,
  int_value t = Some z -> no_postfix rest ->
  primary ch pe tb g ((KInt, t) :: rest) = POk (EInt z) rest.
Proof.
  intros pe tb g t z rest Hz H. unfold primary.
  rewrite call_start_no by (auto; discriminate). rewrite Hz.
  rest_cases rest.
Qed.

(* ------------------------------------------------ contexts *)
Definition closer (k : kind) : bool :=
  match k with KRParen | KRBrack | KRBrace | KComma | KColon => true | _ => false end.

Lemma stops_closer : forall k t r l, closer k = true -> stops l ((k, t) :: r).
Proof.
  intros k t r l H.
  destruct k; try discriminate;
    destruct l as [|[|[|[|[|[|[|[|[|[|[|[|l]]]]]]]]]]]]; simpl; try reflexivity; try congruence; exact I.
Qed.

Lemma no_postfix_closer : forall k t r, closer k = true -> no_postfix ((k, t) :: r).
Proof. intros k t r H. destruct k; try discriminate; exact I. Qed.

(* a '?' in front of [rest] is settled as the ternary's by the tokens after
   it ([B] is the fuel margin of the lemmas below; it plays no role here) *)
Definition q_ok (tb : bool) (B : nat) (rest : toks) : Prop :=
  match rest with
  | (KQuestion, _) :: r => q_decide tb r = QTern
  | _ => True
  end.

Lemma q_ok_closer : forall tb B k t r, closer k = true -> q_ok tb B ((k, t) :: r).
Proof. intros tb B k t r H. destruct k; try discriminate; exact I. Qed.

Lemma postfix_q_keep : forall tb B e rest,
  q_ok tb B rest -> postfix_q ch tb e rest = POk e rest.
Proof.
  intros tb B e rest H. unfold postfix_q.
  destruct rest as [|[k t] r]; [reflexivity|].
  destruct k; try reflexivity.
  simpl in H. rewrite H. reflexivity.
Qed.

Definition stops_from (lv : nat) (rest : toks) : Prop := forall l, lv <= l < 12 -> stops l rest.

Definition ctx_ok (tb : bool) (B : nat) (lv : nat) (rest : toks) : Prop :=
  stops_from lv rest /\ no_postfix rest /\ q_ok tb B rest.

Lemma ctx_closer : forall tb B lv k t r, closer k = true -> ctx_ok tb B lv ((k, t) :: r).
Proof.
  intros. split; [|split].
  - intros l _. apply stops_closer; assumption.
  - apply no_postfix_closer; assumption.
  - apply q_ok_closer; assumption.
Qed.

Lemma ctx_weaken : forall tb B lv lv' rest, lv <= lv' -> ctx_ok tb B lv rest -> ctx_ok tb B lv' rest.
Proof.
  intros tb B lv lv' rest Hle [Hs [Hn Hq]]. split; [|split]; auto.
  intros l Hl. apply Hs. lia.
Qed.

(* the error operator is taken in front of a closing parenthesis *)
Lemma postfix_q_suppress : forall tb e t t2 r,
  postfix_q ch tb e ((KQuestion, t) :: (KRParen, t2) :: r)
  = POk (ESuppress e) ((KRParen, t2) :: r).
Proof. intros. reflexivity. Qed.

(* ------------------------------------------------ binary operators *)
(* the view of a binary node: level, operands, operator tokens, constructor *)
Definition bin_view (e : expr) : option (nat * expr * expr * toks * (expr -> expr -> expr)) :=
  match e with
  | ELog LOr a b => Some (2, a, b, [tk KOr "OR"], ELog LOr)
  | ELog LAnd a b => Some (3, a, b, [tk KAnd "AND"], ELog LAnd)
  | ELike n a b => Some (5, a, b, like_toks n, ELike n)
  | EIn n a b => Some (6, a, b, in_toks n, EIn n)
  | EQuant q c a b =>
      Some (7, a, b, quant_tok q :: match c with QCmp o => [cmp_tok o] | QIn n => in_toks n end,
            EQuant q c)
  | ECmp o a b => Some (8, a, b, [cmp_tok o], ECmp o)
  | ERegex n a b =>
      Some (9, a, b, [if n then tk KRegexNotMatch "!~" else tk KRegexMatch "=~"], ERegex n)
  | EMath o a b =>
      Some (match o with MAdd | MSub => 10 | _ => 11 end, a, b, [math_tok o], EMath o)
  | _ => None
  end.

Lemma bin_view_spec : forall extra e L a b ops mk,
  bin_view e = Some (L, a, b, ops, mk) ->
  e = mk a b /\ level e = L /\ bin_level L = true /\
  body extra e = pr extra L a ++ ops ++ pr extra (S L) b /\
  (forall r, binop L (ops ++ r) = Some (mk, r)) /\
  (forall r l, S L <= l < 12 -> stops l (ops ++ r)) /\
  (forall r, no_postfix (ops ++ r)) /\
  (forall r, hd_kind (ops ++ r) <> Some KQuestion) /\
  size e = S (size a + size b) /\
  printable e = (printable a && printable b)%bool.
Proof.
  intros extra e L a b ops mk H.
  destruct e; try discriminate; simpl in H;
    repeat match goal with
           | x : logop |- _ => destruct x
           | x : mathop |- _ => destruct x
           end;
    inversion H; subst; clear H;
    repeat split; try reflexivity;
    intros;
    repeat match goal with
           | x : bool |- _ => destruct x
           | x : cmpop |- _ => destruct x
           | x : quant |- _ => destruct x
           | x : qcmp |- _ => destruct x
           end;
    try reflexivity; try exact I; try (simpl; congruence);
    match goal with
    | Hl : _ <= ?l < 12 |- stops ?l _ =>
        destruct l as [|[|[|[|[|[|[|[|[|[|[|[|l]]]]]]]]]]]]; simpl; try lia; try reflexivity;
        try congruence; exact I
    end.
Qed.

(* ====================================================== the round trip *)
Lemma good_head_varname : forall k, is_varname k = true -> is_distinct k = false ->
  good_head k = true /\ unop_of k = None.
Proof. intros k H D. destruct k; try discriminate; split; reflexivity. Qed.

Lemma var_ok_parts : forall x, var_ok x = true ->
  is_varname (word_kind (runes_of x)) = true /\ is_distinct (word_kind (runes_of x)) = false.
Proof.
  intros x H. unfold var_ok in H. apply andb_prop in H. destruct H as [H1 H2].
  split; [exact H1|]. apply Bool.negb_true_iff in H2. exact H2.
Qed.

Lemma wrap_cons : forall b ts, ts <> [] ->
  exists k t r, wrap b ts = (k, t) :: r /\
                (b = true -> k = KLParen) /\
                (b = false -> exists r0, ts = (k, t) :: r0).
Proof.
  intros b ts Hne. destruct b; simpl.
  - exists KLParen, (bs "("), (ts ++ [RP]). repeat split; auto. discriminate.
  - destruct ts as [|[k t] r]; [congruence|]. exists k, t, r. repeat split; try discriminate.
    intros _. exists r. reflexivity.
Qed.

Lemma range_op_printable : forall a, range_op a = true -> printable a = true /\ level a = 12.
Proof.
  intros a H. destruct a; simpl in H; try discriminate; split; try exact H; try reflexivity.
  cbn [level]. unfold int_ok in H. apply andb_prop in H. destruct H as [H _]. apply Z.leb_le in H.
  replace (z <? 0)%Z with false by (symmetry; apply Z.ltb_ge; lia). reflexivity.
Qed.

Lemma member_src_level : forall s, member_src s = true -> level s = 12.
Proof. intros s H. destruct s; try discriminate; reflexivity. Qed.

Section RoundTrip.
  Variable extra : expr -> bool.
  Local Notation bodyx := (body extra).
  Local Notation prx := (pr extra).
  Local Notation needsx := (needs extra).

  Definition head_ok (e : expr) : Prop :=
    exists k t r, bodyx e = (k, t) :: r /\ good_head k = true /\ (5 <= level e -> unop_of k = None).

  Lemma head_of_left : forall L a tl (lev : nat),
    head_ok a -> L <= lev ->
    exists k t r, wrap (needsx L a) (bodyx a) ++ tl = (k, t) :: r /\ good_head k = true /\
                  (5 <= L -> unop_of k = None).
  Proof.
    intros L a tl lev (k & t & r & Hb & Hg & Hu) _.
    destruct (needsx L a) eqn:N; simpl.
    - exists KLParen, (bs "("), ((bodyx a ++ [RP]) ++ tl). repeat split; reflexivity.
    - rewrite Hb. exists k, t, (r ++ tl). repeat split; auto.
      intros H5. apply Hu. unfold needs in N. apply Bool.orb_false_elim in N. destruct N as [N _].
      apply Nat.ltb_ge in N. lia.
  Qed.

  Lemma body_head : forall e, printable e = true -> head_ok e.
  Proof.
    induction e; intros P; simpl in P; try discriminate.
    - (* ENone *) exists KNone, (bs "NONE"), []. repeat split; reflexivity.
    - (* EBool *) destruct b; [exists KBool, (bs "true"), [] | exists KBool, (bs "false"), []]; repeat split; reflexivity.
    - (* EInt *) unfold int_ok in P. apply andb_prop in P. destruct P as [P0 _].
      apply Z.leb_le in P0.
      assert (E : (z <? 0)%Z = false) by (apply Z.ltb_ge; lia).
      exists KInt, (digits (Z.to_N z)), []. repeat split; try reflexivity.
      cbn [body]. rewrite E. reflexivity.
    - (* EStr *) eexists _, _, _. repeat split; reflexivity.
    - (* EArr *) eexists _, _, _. repeat split; reflexivity.
    - (* EObj *) eexists _, _, _. repeat split; reflexivity.
    - (* EVar *) destruct (var_ok_parts _ P) as [Pv Pd]. destruct (good_head_varname _ Pv Pd) as [G U].
      exists (word_kind (runes_of x)), x, []. repeat split; auto.
    - (* EParam *) eexists _, _, _. repeat split; reflexivity.
    - (* EUn *) destruct o; eexists _, _, _; (repeat split; try reflexivity; simpl; lia).
    - (* ELog *)
      apply andb_prop in P; destruct P as [P1 P2].
      assert (Ha : head_ok e1) by (apply IHe1; assumption).
      destruct o; simpl.
      + destruct (head_of_left 3 e1 (tk KAnd "AND" :: wrap (needsx 4 e2) (bodyx e2)) 3 Ha (le_n _)) as (k & t & r & E & G & U).
        exists k, t, r. repeat split; auto; intros; try apply U; simpl in *; lia.
      + destruct (head_of_left 2 e1 (tk KOr "OR" :: wrap (needsx 3 e2) (bodyx e2)) 2 Ha (le_n _)) as (k & t & r & E & G & U).
        exists k, t, r. repeat split; auto; intros; try apply U; simpl in *; lia.
    - (* ECond *)
      apply andb_prop in P; destruct P as [P1 P2].
      apply andb_prop in P1. destruct P1 as [Pc Pt].
      assert (Ha : head_ok e1) by (apply IHe1; assumption).
      destruct (head_of_left 1 e1 (tk KQuestion "?" :: match t with Some t' => wrap (needsx 2 t' || negb (then_safe t')) (bodyx t') | None => [] end ++ tk KColon ":" :: wrap (needsx 2 e2) (bodyx e2)) 1 Ha (le_n _)) as (k & t0 & r & E & G & U).
      exists k, t0, r. repeat split; auto; intros; try apply U; simpl in *; lia.
    - (* ECmp *)
      apply andb_prop in P; destruct P as [P1 P2].
      assert (Ha : head_ok e1) by (apply IHe1; assumption).
      destruct (head_of_left 8 e1 (cmp_tok o :: wrap (needsx 9 e2) (bodyx e2)) 8 Ha (le_n _)) as (k & t & r & E & G & U).
      exists k, t, r. repeat split; auto; intros; try apply U; simpl in *; lia.
    - (* EIn *)
      apply andb_prop in P; destruct P as [P1 P2].
      assert (Ha : head_ok e1) by (apply IHe1; assumption).
      destruct (head_of_left 6 e1 (in_toks neg ++ wrap (needsx 7 e2) (bodyx e2)) 6 Ha (le_n _)) as (k & t & r & E & G & U).
      exists k, t, r. repeat split; auto; intros; try apply U; simpl in *; lia.
    - (* EQuant *)
      apply andb_prop in P; destruct P as [P1 P2].
      assert (Ha : head_ok e1) by (apply IHe1; assumption).
      destruct (head_of_left 7 e1 (quant_tok q :: match c with QCmp o => [cmp_tok o] | QIn n => in_toks n end ++ wrap (needsx 8 e2) (bodyx e2)) 7 Ha (le_n _)) as (k & t & r & E & G & U).
      exists k, t, r. repeat split; auto; intros; try apply U; simpl in *; lia.
    - (* ELike *)
      apply andb_prop in P; destruct P as [P1 P2].
      assert (Ha : head_ok e1) by (apply IHe1; assumption).
      destruct (head_of_left 5 e1 (like_toks neg ++ wrap (needsx 6 e2) (bodyx e2)) 5 Ha (le_n _)) as (k & t & r & E & G & U).
      exists k, t, r. repeat split; auto; intros; try apply U; simpl in *; lia.
    - (* ERegex *)
      apply andb_prop in P; destruct P as [P1 P2].
      assert (Ha : head_ok e1) by (apply IHe1; assumption).
      destruct (head_of_left 9 e1 ((if neg then tk KRegexNotMatch "!~" else tk KRegexMatch "=~") :: wrap (needsx 10 e2) (bodyx e2)) 9 Ha (le_n _)) as (k & t & r & E & G & U).
      exists k, t, r. repeat split; auto; intros; try apply U; simpl in *; lia.
    - (* EMath *)
      apply andb_prop in P; destruct P as [P1 P2].
      assert (Ha : head_ok e1) by (apply IHe1; assumption).
      destruct o; simpl.
      + destruct (head_of_left 10 e1 (math_tok MAdd :: wrap (needsx 11 e2) (bodyx e2)) 10 Ha (le_n _)) as (k & t & r & E & G & U).
        exists k, t, r. repeat split; auto; intros; try apply U; simpl in *; lia.
      + destruct (head_of_left 10 e1 (math_tok MSub :: wrap (needsx 11 e2) (bodyx e2)) 10 Ha (le_n _)) as (k & t & r & E & G & U).
        exists k, t, r. repeat split; auto; intros; try apply U; simpl in *; lia.
      + destruct (head_of_left 11 e1 (math_tok MMul :: wrap (needsx 12 e2) (bodyx e2)) 11 Ha (le_n _)) as (k & t & r & E & G & U).
        exists k, t, r. repeat split; auto; intros; try apply U; simpl in *; lia.
      + destruct (head_of_left 11 e1 (math_tok MDiv :: wrap (needsx 12 e2) (bodyx e2)) 11 Ha (le_n _)) as (k & t & r & E & G & U).
        exists k, t, r. repeat split; auto; intros; try apply U; simpl in *; lia.
      + destruct (head_of_left 11 e1 (math_tok MMod :: wrap (needsx 12 e2) (bodyx e2)) 11 Ha (le_n _)) as (k & t & r & E & G & U).
        exists k, t, r. repeat split; auto; intros; try apply U; simpl in *; lia.
    - (* ERange *) apply andb_prop in P; destruct P as [P1 P2].
      destruct (range_op_printable e1 P1) as [Pp Pl].
      destruct (IHe1 Pp) as (k & t & r & Hb & Hg & Hu).
      exists k, t, (r ++ tk KRange ".." :: bodyx e2). repeat split; auto.
      + cbn [body]. rewrite Hb. reflexivity.
      + intros _. apply Hu. lia.
    - (* EMember *) apply andb_prop in P; destruct P as [P Pg]. apply andb_prop in P; destruct P as [P Pn].
      apply andb_prop in P; destruct P as [Ps Pp].
      destruct (IHe Pp) as (k & t & r & Hb & Hg & Hu).
      pose proof (member_src_level e Ps) as Hl.
      eexists k, t, _. repeat split; auto.
      + cbn [body]. rewrite Hb. reflexivity.
      + intros _. apply Hu. lia.
    - (* ECall *) apply andb_prop in P; destruct P as [P1 P2].
      unfold call_ok in P1. apply andb_prop in P1. destruct P1 as [Pi _].
      exists (word_kind (runes_of f)), f, (LP :: (fix go (l : list expr) : toks :=
           match l with
           | [] => []
           | [x] => wrap (needsx 1 x) (bodyx x)
           | x :: r => wrap (needsx 1 x) (bodyx x) ++ COMMA :: go r
           end) args ++ [RP]).
      repeat split.
      + destruct (word_kind (runes_of f)); try discriminate; reflexivity.
      + intros _. destruct (word_kind (runes_of f)); try discriminate; reflexivity.
    - (* ESuppress *) eexists _, _, _. repeat split; reflexivity.
    - (* ESub *) eexists _, _, _. repeat split; reflexivity.
  Qed.
End RoundTrip.

Section PrList.
  Variable extra : expr -> bool.
  Fixpoint pr_list (l : list expr) : toks :=
    match l with
    | [] => []
    | [x] => pr extra 1 x
    | x :: r => pr extra 1 x ++ COMMA :: pr_list r
    end.
End PrList.

Lemma body_arr : forall extra es,
  body extra (EArr es) = tk KLBrack "[" :: pr_list extra es ++ [tk KRBrack "]"].
Proof. reflexivity. Qed.
Lemma body_call : forall extra f args,
  body extra (ECall f args) = word_tok f :: LP :: pr_list extra args ++ [RP].
Proof. reflexivity. Qed.

Lemma primary_paren : forall pe tb g ts,
  hd_kind ts <> Some KFor ->
  primary ch pe tb g (LP :: ts) =
  bind_tok (pe false 1 ts) (is_rparen) (fun e r' => postfix_q ch tb e r').
Proof.
  intros pe tb g ts H. unfold primary, LP, tk.
  destruct ts as [|[k t] r]; [reflexivity|].
  destruct k; try reflexivity. simpl in H. congruence.
Qed.

Lemma good_head_facts : forall k, good_head k = true ->
  k <> KFor /\ k <> KColon /\ k <> KDot /\ k <> KQuestion /\ is_rparen k = false /\ is_rbrack k = false
  /\ k <> KNsSeg.
Proof. intros k H. destruct k; try discriminate; repeat split; congruence. Qed.

Lemma bin_view_none : forall e, bin_view e = None -> bin_level (level e) = false.
Proof.
  intros e H. destruct e; try discriminate; try reflexivity.
  - simpl. destruct (z <? 0)%Z; reflexivity.
  - destruct o; discriminate.
Qed.

Lemma level_one : forall e, level e = 1 -> exists c t f, e = ECond c t f.
Proof.
  intros e H. destruct e; simpl in H; try discriminate; try (destruct o; discriminate).
  - destruct (z <? 0)%Z; discriminate.
  - eauto.
Qed.

Lemma level_ge_1 : forall e, 1 <= level e.
Proof.
  intros e. destruct e; simpl; try lia; try (destruct o; lia).
  destruct (z <? 0)%Z; lia.
Qed.

Lemma level_le_12 : forall e, level e <= 12.
Proof.
  intros e. destruct e; simpl; try lia; try (destruct o; lia).
  destruct (z <? 0)%Z; lia.
Qed.

Section RT2.
  Variable extra : expr -> bool.
  Local Notation bodyx := (body extra).
  Local Notation prx := (pr extra).
  Local Notation needsx := (needs extra).

  Definition GoodAt (e : expr) : Prop := forall tb lv rest B f,
      lv <= level e -> (tb = true -> 2 <= level e) ->
      ctx_ok tb B lv rest -> need e + B <= f ->
      parse_at ch f tb lv (bodyx e ++ rest) = POk e rest.

  Lemma body_hd_kind : forall e rest, printable e = true ->
    exists k, hd_kind (bodyx e ++ rest) = Some k /\ good_head k = true /\
              (5 <= level e -> unop_of k = None).
  Proof.
    intros e rest P. destruct (body_head extra e P) as (k & t & r & Hb & Hg & Hu).
    exists k. rewrite Hb. repeat split; auto.
  Qed.

  Lemma pr_hd_kind : forall m e rest, printable e = true ->
    exists k, hd_kind (prx m e ++ rest) = Some k /\ good_head k = true /\
              (5 <= m -> unop_of k = None).
  Proof.
    intros m e rest P. unfold pr, wrap. destruct (needsx m e) eqn:N.
    - exists KLParen. repeat split; reflexivity.
    - destruct (body_hd_kind e rest P) as (k & Hk & Hg & Hu). exists k. repeat split; auto.
      intros H5. apply Hu. unfold needs in N. apply Bool.orb_false_elim in N. destruct N as [N _].
      apply Nat.ltb_ge in N. lia.
  Qed.

  Lemma wrapped_of_good : forall e, printable e = true -> GoodAt e ->
    forall tb lv rest B f,
      lv <= 12 -> ctx_ok tb B lv rest -> need e + 16 + B <= f ->
      parse_at ch f tb lv (LP :: bodyx e ++ RP :: rest) = POk e rest.
  Proof.
    intros e P G tb lv rest B f Hlv [Hs [Hn Hq]] Hf.
    assert (Hsz := size_pos e). unfold need in Hf.
    replace f with (S (f + lv - 13) + (12 - lv)) by lia.
    apply from_primary; try lia.
    - rewrite primary_paren.
      + rewrite (G false 1 (RP :: rest) 0).
        * unfold RP, tk. cbn [bind_tok is_rparen]. apply postfix_q_keep with (B := B); exact Hq.
        * apply level_ge_1.
        * discriminate.
        * apply ctx_closer. reflexivity.
        * unfold need. lia.
      + destruct (body_hd_kind e (RP :: rest) P) as (k & Hk & Hg & _). rewrite Hk.
        destruct (good_head_facts k Hg) as [HF _]. congruence.
    - exact Hs.
    - intros _. reflexivity.
  Qed.
End RT2.

Section RT3.
  Variable extra : expr -> bool.
  Local Notation bodyx := (body extra).
  Local Notation prx := (pr extra).
  Local Notation needsx := (needs extra).
  Local Notation GoodAt := (GoodAt extra).

  Definition GoodPr (e : expr) : Prop := forall tb lv m rest B f,
      lv <= m -> m <= 12 -> (tb = true -> 2 <= m) ->
      ctx_ok tb B lv rest -> need e + 16 + B <= f ->
      parse_at ch f tb lv (prx m e ++ rest) = POk e rest.

  Lemma goodpr_of_good : forall e, printable e = true -> GoodAt e -> GoodPr e.
  Proof.
    intros e P G tb lv m rest B f Hlm Hm Htb Hc Hf.
    unfold pr, wrap. destruct (needsx m e) eqn:N.
    - cbn [app]. rewrite <- app_assoc. cbn [app].
      apply (wrapped_of_good extra e P G tb lv rest B f); auto. lia.
    - unfold needs in N. apply Bool.orb_false_elim in N. destruct N as [N _].
      apply Nat.ltb_ge in N.
      apply (G tb lv rest B f); try lia; auto.
      intros E. specialize (Htb E). lia.
  Qed.

  (* a primary that does not use the expression parser *)
  Lemma leaf_good : forall e ts,
    bodyx e = ts -> level e = 12 -> not_unop ts ->
    (forall pe tb g rest, no_postfix rest -> primary ch pe tb (S g) (ts ++ rest) = POk e rest) ->
    GoodAt e.
  Proof.
    intros e ts Hb Hl Hu Hp tb lv rest B f Hlv Htb [Hs [Hn Hq]] Hf.
    assert (Hsz := size_pos e). unfold need in Hf. rewrite Hb.
    replace f with (S (S (f + lv - 14)) + (12 - lv)) by lia.
    apply from_primary; try lia.
    - apply Hp. exact Hn.
    - exact Hs.
    - intros _. destruct ts as [|[k t] r]; [destruct Hu|]. exact Hu.
  Qed.

  Lemma good_none : GoodAt ENone.
  Proof.
    apply (leaf_good ENone [tk KNone "NONE"]); try reflexivity.
    intros. apply primary_none. assumption.
  Qed.
  Lemma good_bool : forall b, GoodAt (EBool b).
  Proof.
    intros b. apply (leaf_good (EBool b) [if b then tk KBool "true" else tk KBool "false"]); try reflexivity.
    - destruct b; reflexivity.
    - intros. destruct b; cbn [app]; unfold tk; rewrite primary_bool by assumption; reflexivity.
  Qed.
  Lemma good_int : forall z, int_ok z = true -> GoodAt (EInt z).
  Proof.
    intros z P. unfold int_ok in P. apply andb_prop in P. destruct P as [P0 P1].
    apply Z.leb_le in P0.
    assert (E : (z <? 0)%Z = false) by (apply Z.ltb_ge; lia).
    apply (leaf_good (EInt z) [(KInt, digits (Z.to_N z))]).
    - cbn [body]. rewrite E. reflexivity.
    - cbn [level]. rewrite E. reflexivity.
    - reflexivity.
    - intros. cbn [app]. apply primary_int; [|assumption].
      destruct (int_value (digits (Z.to_N z))) as [z'|]; [|discriminate].
      apply Z.eqb_eq in P1. congruence.
  Qed.
  Lemma good_str : forall s, str_ok s = true -> GoodAt (EStr s).
  Proof.
    intros s P. apply (leaf_good (EStr s) [quote_tok s]); try reflexivity.
    intros. cbn [app]. unfold quote_tok. rewrite primary_str by assumption.
    f_equal. f_equal. apply (str_value_quote s P).
  Qed.
  Lemma good_var : forall x, var_ok x = true -> GoodAt (EVar x).
  Proof.
    intros x P. apply (leaf_good (EVar x) [word_tok x]); try reflexivity.
    - unfold word_tok, not_unop. destruct (var_ok_parts _ P) as [Pv Pd]. apply good_head_varname; assumption.
    - intros. cbn [app]. unfold word_tok. apply primary_var; [apply (var_ok_parts _ P)|assumption].
  Qed.
  Lemma good_param : forall x, var_ok x = true -> GoodAt (EParam x).
  Proof.
    intros x P. apply (leaf_good (EParam x) [tk KParam "@"; word_tok x]); try reflexivity.
    intros. cbn [app]. unfold word_tok, tk. apply primary_param; [apply (var_ok_parts _ P)|assumption].
  Qed.
End RT3.

Lemma parse_seq_step : forall pe g is_close ts k,
  hd_kind ts = Some k -> is_close k = false ->
  parse_seq pe (S g) is_close ts =
  match pe false 1 ts with
  | POk e ((k', _) :: r') =>
      if is_close k' then POk [e] r'
      else match k' with
           | KComma => mapr (cons e) (parse_seq pe g is_close r')
           | _ => PFail
           end
  | POk _ [] => PFail
  | PFail => PFail
  | PFuel => PFuel
  end.
Proof.
  intros pe g is_close ts k H Hc. destruct ts as [|[k0 t0] r0]; [discriminate|].
  simpl in H. inversion H; subst. cbn [parse_seq]. rewrite Hc. reflexivity.
Qed.

Lemma hd_not_unop : forall ts k, hd_kind ts = Some k -> unop_of k = None -> not_unop ts.
Proof. intros ts k H U. destruct ts as [|[k0 t0] r0]; [discriminate|]. simpl in *. congruence. Qed.

Section RT4.
  Variable extra : expr -> bool.
  Local Notation bodyx := (body extra).
  Local Notation prx := (pr extra).
  Local Notation needsx := (needs extra).
  Local Notation GoodAt := (GoodAt extra).
  Local Notation GoodPr := (GoodPr extra).

  Variable n : nat.
  Hypothesis IH : forall e, size e <= n -> printable e = true -> GoodAt e.

  Lemma IHpr : forall e, size e <= n -> printable e = true -> GoodPr e.
  Proof. intros e Hs P. apply goodpr_of_good; auto. Qed.

  Definition sum_size (es : list expr) : nat := fold_right (fun x n => size x + n) 0 es.

  Lemma seq_good : forall es,
    (forall x, In x es -> size x <= n /\ printable x = true) ->
    forall is_close ck ct rest f g,
      is_close ck = true -> closer ck = true -> is_close KComma = false ->
      (forall k, good_head k = true -> is_close k = false) ->
      64 * sum_size es + 16 <= f -> List.length es < g ->
      parse_seq (parse_at ch f) g is_close (pr_list extra es ++ (ck, ct) :: rest) = POk es rest.
  Proof.
    induction es as [|x es IHes]; intros Hall is_close ck ct rest f g Hck Hcl Hcomma Hgh Hf Hg.
    - destruct g; [simpl in Hg; lia|]. cbn [pr_list app parse_seq]. rewrite Hck. reflexivity.
    - destruct g; [simpl in Hg; lia|].
      destruct (Hall x (or_introl eq_refl)) as [Hsx Px].
      assert (Hx : forall rest', ctx_ok false 0 1 rest' ->
                 parse_at ch f false 1 (prx 1 x ++ rest') = POk x rest').
      { intros rest' Hc. apply (IHpr x Hsx Px false 1 1 rest' 0 f); auto; try lia; try discriminate.
        unfold need. simpl in Hf. unfold sum_size in Hf. simpl in Hf. lia. }
      destruct es as [|y es'].
      + cbn [pr_list].
        destruct (pr_hd_kind extra 1 x ((ck, ct) :: rest) Px) as (k & Hk & Hgk & _).
        rewrite (parse_seq_step _ _ _ _ k Hk (Hgh k Hgk)).
        rewrite Hx by (apply ctx_closer; exact Hcl). rewrite Hck. reflexivity.
      + change (pr_list extra (x :: y :: es')) with (prx 1 x ++ COMMA :: pr_list extra (y :: es')).
        rewrite <- app_assoc. cbn [app].
        destruct (pr_hd_kind extra 1 x (COMMA :: pr_list extra (y :: es') ++ (ck, ct) :: rest) Px) as (k & Hk & Hgk & _).
        rewrite (parse_seq_step _ _ _ _ k Hk (Hgh k Hgk)).
        rewrite Hx by (apply ctx_closer; reflexivity).
        unfold COMMA, tk. rewrite Hcomma.
        rewrite IHes; auto.
        * intros z Hz. apply Hall. right. exact Hz.
        * simpl in Hf. unfold sum_size in *. simpl in *. lia.
        * simpl in *. lia.
  Qed.

  Lemma loop_step : forall L a b ops mk e tb rest B f g,
    bin_view e = Some (L, a, b, ops, mk) -> size b <= n -> printable b = true ->
    ctx_ok tb B (S L) rest -> need b + 16 + B <= f ->
    bin_loop (parse_at ch f) tb (S g) L a (ops ++ prx (S L) b ++ rest)
    = bin_loop (parse_at ch f) tb g L (mk a b) rest.
  Proof.
    intros L a b ops mk e tb rest B f g V Hsb Pb Hc Hf.
    destruct (bin_view_spec extra e L a b ops mk V) as (_ & _ & HL & _ & Hop & _).
    rewrite bin_loop_S. rewrite Hop.
    rewrite (IHpr b Hsb Pb tb (S L) (S L) rest B f); auto.
    - destruct L as [|[|[|[|[|[|[|[|[|[|[|[|L]]]]]]]]]]]]; try discriminate; lia.
    - intros _. destruct L as [|[|L]]; try discriminate; lia.
  Qed.

  Lemma RL : forall m a, size a <= m -> m <= n -> printable a = true ->
    forall L tb rest B f, bin_level L = true -> ctx_ok tb B (S L) rest -> need a + 16 + B <= f ->
    exists c, c <= size a /\ forall g,
      bindr (parse_at ch f tb (S L) (prx L a ++ rest)) (bin_loop (parse_at ch f) tb (g + c) L)
      = bin_loop (parse_at ch f) tb g L a rest.
  Proof.
    induction m as [|m IHm]; intros a Hsa Hmn Pa L tb rest B f HL Hc Hf.
    { pose proof (size_pos a). lia. }
    assert (HL2 : 2 <= L /\ L <= 11).
    { destruct L as [|[|[|[|[|[|[|[|[|[|[|[|L]]]]]]]]]]]]; try discriminate; lia. }
    assert (Ga : GoodAt a) by (apply IH; auto; lia).
    unfold pr, wrap. destruct (needsx L a) eqn:N.
    - exists 0. split; [lia|]. intros g. rewrite Nat.add_0_r.
      cbn [app]. rewrite <- app_assoc. cbn [app].
      rewrite (wrapped_of_good extra a Pa Ga tb (S L) rest B f); auto; try lia.
    - unfold needs in N. apply Bool.orb_false_elim in N. destruct N as [N _].
      apply Nat.ltb_ge in N.
      destruct (Nat.eq_dec (level a) L) as [E|NE].
      + destruct (bin_view a) as [[[[[L' a1] a2] ops] mk]|] eqn:V.
        * destruct (bin_view_spec extra a L' a1 a2 ops mk V) as (Ea & El & _ & Hb & Hop & Hst & Hnp & Hq & Hsz & Hpr).
          assert (HLL : L' = L) by congruence. clear El. subst L'.
          rewrite Hpr in Pa. apply andb_prop in Pa. destruct Pa as [P1 P2].
          destruct (IHm a1) with (L := L) (tb := tb) (rest := ops ++ prx (S L) a2 ++ rest) (B := 0) (f := f)
            as (c & Hcs & Hcg); auto; try lia.
          { split; [|split].
            - intros l Hl. apply Hst. lia.
            - apply Hnp.
            - specialize (Hq (prx (S L) a2 ++ rest)).
              destruct (ops ++ prx (S L) a2 ++ rest) as [|[k t] r]; [exact I|].
              destruct k; try exact I. simpl in Hq. congruence. }
          { unfold need in *. lia. }
          exists (S c). split; [lia|]. intros g.
          rewrite Hb. rewrite <- !app_assoc.
          replace (g + S c) with (S g + c) by lia.
          rewrite Hcg.
          rewrite (loop_step L a1 a2 ops mk a tb rest B f g V); auto; try lia.
          -- rewrite <- Ea. reflexivity.
          -- unfold need in *. lia.
        * apply bin_view_none in V. rewrite E in V. congruence.
      + exists 0. split; [lia|]. intros g. rewrite Nat.add_0_r.
        rewrite (Ga tb (S L) rest B f); auto; try lia.
  Qed.
End RT4.

Lemma tern_loop_S_some : forall pe tb g c q k0 t0 r0,
  k0 <> KColon ->
  tern_loop pe tb (S g) c ((KQuestion, q) :: (k0, t0) :: r0) =
  bind_tok (pe true 1 ((k0, t0) :: r0)) is_colon (fun t r' =>
    bindr (pe tb 2 r') (fun e r'' => tern_loop pe tb g (ECond c (Some t) e) r'')).
Proof. intros. rewrite tern_loop_S. destruct k0; try reflexivity. congruence. Qed.

Lemma tern_loop_S_hd : forall pe tb g c q ts k,
  hd_kind ts = Some k -> k <> KColon ->
  tern_loop pe tb (S g) c ((KQuestion, q) :: ts) =
  bind_tok (pe true 1 ts) is_colon (fun t r' =>
    bindr (pe tb 2 r') (fun e r'' => tern_loop pe tb g (ECond c (Some t) e) r'')).
Proof.
  intros pe tb g c q ts k H HC. destruct ts as [|[k0 t0] r0]; [discriminate|].
  simpl in H. inversion H; subst. apply tern_loop_S_some. exact HC.
Qed.

Lemma no_postfix_q : forall q ts k, hd_kind ts = Some k -> k <> KDot -> no_postfix ((KQuestion, q) :: ts).
Proof.
  intros q ts k H HD. destruct ts as [|[k0 t0] r0]; [exact I|].
  simpl in H. inversion H; subst. destruct k; try exact I. congruence.
Qed.

Lemma stops_question : forall l t r, 2 <= l -> stops l ((KQuestion, t) :: r).
Proof.
  intros l t r H.
  destruct l as [|[|[|[|[|[|[|[|[|[|[|[|l]]]]]]]]]]]]; simpl; try lia; try reflexivity; exact I.
Qed.

(* the then-branch as the printer writes it *)
Definition prt (extra : expr -> bool) (t : expr) : toks :=
  wrap (needs extra 2 t || negb (then_safe t)) (body extra t).

Lemma prt_hd_kind : forall extra t rest, printable t = true ->
  exists k, hd_kind (prt extra t ++ rest) = Some k /\ good_head k = true.
Proof.
  intros extra t rest P. unfold prt, wrap.
  destruct (needs extra 2 t || negb (then_safe t)).
  - exists KLParen. split; reflexivity.
  - destruct (body_hd_kind extra t rest P) as (k & Hk & Hg & _). exists k. split; auto.
Qed.

(* after "cond ?" the printed then-branch settles the ternary *)
Lemma prt_decide : forall extra t tb x rest, printable t = true ->
  q_decide tb (prt extra t ++ (KColon, x) :: rest) = QTern.
Proof.
  intros extra t tb x rest P. unfold prt, wrap.
  destruct (needs extra 2 t || negb (then_safe t)) eqn:N; [reflexivity|].
  apply Bool.orb_false_elim in N. destruct N as [_ N]. apply Bool.negb_false_iff in N.
  destruct t; simpl in N; try discriminate; try reflexivity.
  - (* EBool *) destruct b; reflexivity.
  - (* EInt *) cbn [body]. apply Z.leb_le in N.
    replace (z <? 0)%Z with false by (symmetry; apply Z.ltb_ge; lia). reflexivity.
  - (* EVar *) cbn [body app]. unfold word_tok.
    destruct (word_kind (runes_of x0)); try discriminate. reflexivity.
Qed.

Lemma prt_good : forall extra t, printable t = true -> GoodAt extra t ->
  forall tb lv rest B f,
    lv <= 2 -> ctx_ok tb B lv rest -> need t + 16 + B <= f ->
    parse_at ch f tb lv (prt extra t ++ rest) = POk t rest.
Proof.
  intros extra t P G tb lv rest B f Hlv Hc Hf. unfold prt, wrap.
  destruct (needs extra 2 t || negb (then_safe t)) eqn:N.
  - cbn [app]. rewrite <- app_assoc. cbn [app].
    apply (wrapped_of_good extra t P G tb lv rest B f); auto. lia.
  - apply Bool.orb_false_elim in N. destruct N as [N _].
    unfold needs in N. apply Bool.orb_false_elim in N. destruct N as [N _].
    apply Nat.ltb_ge in N.
    apply (G tb lv rest B f); try lia; auto.
Qed.

Lemma len_prt : forall extra t, List.length (body extra t) <= List.length (prt extra t).
Proof.
  intros. unfold prt, wrap. destruct (needs extra 2 t || negb (then_safe t)); simpl; [rewrite app_length; simpl; lia|lia].
Qed.

Section RT5.
  Variable extra : expr -> bool.
  Local Notation bodyx := (body extra).
  Local Notation prx := (pr extra).
  Local Notation needsx := (needs extra).
  Local Notation GoodAt := (GoodAt extra).
  Local Notation GoodPr := (GoodPr extra).

  Variable n : nat.
  Hypothesis IH : forall e, size e <= n -> printable e = true -> GoodAt e.

  Definition opt_size (t : option expr) : nat := match t with Some t' => size t' | None => 0 end.
  Definition opt_ok (t : option expr) : Prop :=
    match t with Some t' => size t' <= n /\ printable t' = true | None => True end.
  Definition opt_toks (t : option expr) : toks := match t with Some t' => prt extra t' | None => [] end.

  Lemma tern_step : forall c t e0 rest B f g,
    opt_ok t -> size e0 <= n -> printable e0 = true ->
    ctx_ok false B 2 rest -> 64 * opt_size t + need e0 + 16 + B <= f ->
    tern_loop (parse_at ch f) false (S g) c
      (tk KQuestion "?" :: opt_toks t ++ tk KColon ":" :: prx 2 e0 ++ rest)
    = tern_loop (parse_at ch f) false g (ECond c t e0) rest.
  Proof.
    intros c t e0 rest B f g Ht Hs0 P0 Hc Hf.
    assert (He0 : parse_at ch f false 2 (prx 2 e0 ++ rest) = POk e0 rest).
    { apply (IHpr extra n IH e0 Hs0 P0 false 2 2 rest B f); auto; try lia; try discriminate. }
    destruct t as [t'|]; cbn [opt_toks opt_size opt_ok] in *.
    - destruct Ht as [Hst Pt].
      destruct (prt_hd_kind extra t' (tk KColon ":" :: prx 2 e0 ++ rest) Pt) as (k & Hk & Hg).
      destruct (good_head_facts k Hg) as (_ & HC & _).
      unfold tk at 1.
      rewrite (tern_loop_S_hd _ _ _ _ _ _ k Hk HC).
      rewrite (prt_good extra t' Pt (IH t' Hst Pt) true 1 (tk KColon ":" :: prx 2 e0 ++ rest) 0 f); auto; try lia.
      + unfold tk at 1. cbn [bind_tok is_colon]. rewrite He0. reflexivity.
      + apply ctx_closer. reflexivity.
      + unfold need. lia.
    - cbn [app]. unfold tk. rewrite tern_loop_S. rewrite He0. reflexivity.
  Qed.

  Lemma body_cond : forall c t e0,
    bodyx (ECond c t e0) = prx 1 c ++ tk KQuestion "?" :: opt_toks t ++ tk KColon ":" :: prx 2 e0.
  Proof. intros. destruct t; reflexivity. Qed.

  (* the context of the condition of a ternary *)
  Lemma cond_ctx : forall t e0 rest,
    opt_ok t ->
    ctx_ok false (64 * opt_size t + 16) 2
      (tk KQuestion "?" :: opt_toks t ++ tk KColon ":" :: prx 2 e0 ++ rest).
  Proof.
    intros t e0 rest Ht. split; [|split].
    - intros l Hl. apply stops_question. lia.
    - destruct t as [t'|]; cbn [opt_toks opt_ok] in *.
      + destruct Ht as [_ Pt].
        destruct (prt_hd_kind extra t' (tk KColon ":" :: prx 2 e0 ++ rest) Pt) as (k & Hk & Hg).
        destruct (good_head_facts k Hg) as (_ & _ & HD & _).
        unfold tk at 1. apply (no_postfix_q _ _ k Hk HD).
      + exact I.
    - unfold tk at 1. cbn [q_ok].
      destruct t as [t'|]; cbn [opt_toks opt_ok opt_size] in *.
      + destruct Ht as [Hst Pt]. unfold tk. apply prt_decide. exact Pt.
      + reflexivity.
  Qed.

  Lemma RT : forall m c, size c <= m -> m <= n -> printable c = true ->
    forall rest B f, ctx_ok false B 2 rest -> need c + 16 + B <= f ->
    exists k, k <= size c /\ forall g,
      bindr (parse_at ch f false 2 (prx 1 c ++ rest)) (tern_loop (parse_at ch f) false (g + k))
      = tern_loop (parse_at ch f) false g c rest.
  Proof.
    induction m as [|m IHm]; intros c Hsc Hmn Pc rest B f Hc Hf.
    { pose proof (size_pos c). lia. }
    assert (Gc : GoodAt c) by (apply IH; auto; lia).
    unfold pr, wrap. destruct (needsx 1 c) eqn:N.
    - exists 0. split; [lia|]. intros g. rewrite Nat.add_0_r.
      cbn [app]. rewrite <- app_assoc. cbn [app].
      rewrite (wrapped_of_good extra c Pc Gc false 2 rest B f); auto; try lia.
    - destruct (Nat.eq_dec (level c) 1) as [E|NE].
      + destruct (level_one c E) as (c0 & t0 & f0 & ->).
        simpl in Pc. apply andb_prop in Pc. destruct Pc as [Pc P3].
        apply andb_prop in Pc. destruct Pc as [P1 P2].
        simpl in Hsc.
        assert (Ht : opt_ok t0).
        { destruct t0; cbn [opt_ok]; [split; [lia|exact P2]|exact I]. }
        assert (Hts : opt_size t0 = match t0 with Some t' => size t' | None => 0 end) by reflexivity.
        destruct (IHm c0) with (rest := tk KQuestion "?" :: opt_toks t0 ++ tk KColon ":" :: prx 2 f0 ++ rest)
                               (B := 64 * opt_size t0 + 16) (f := f) as (k & Hks & Hkg); auto; try lia.
        { apply (cond_ctx t0 f0 rest Ht). }
        { unfold need in *. simpl in Hf. rewrite <- Hts in Hf. lia. }
        exists (S k). split; [simpl; lia|]. intros g.
        rewrite body_cond. rewrite <- !app_assoc. cbn [app]. rewrite <- !app_assoc.
        replace (g + S k) with (S g + k) by lia.
        rewrite Hkg.
        apply (tern_step c0 t0 f0 rest B f g Ht); auto; try lia.
        unfold need in *. simpl in Hf. rewrite <- Hts in Hf. lia.
      + exists 0. split; [lia|]. intros g. rewrite Nat.add_0_r.
        pose proof (level_ge_1 c).
        rewrite (Gc false 2 rest B f); auto; try lia; try discriminate.
  Qed.
End RT5.

Lemma stops_bin : forall L rest, bin_level L = true -> stops L rest -> binop L rest = None.
Proof.
  intros L rest HL H.
  destruct L as [|[|[|[|[|[|[|[|[|[|[|[|L]]]]]]]]]]]]; try discriminate; exact H.
Qed.

Lemma primary_lbrack : forall pe tb g t x,
  primary ch pe tb g ((KLBrack, t) :: x) =
  bindr (parse_seq pe g is_rbrack x) (fun es r' => with_path pe g (EArr es) r').
Proof.
  intros. unfold primary.
  assert (E : is_call_start ((KLBrack, t) :: x) = false).
  { unfold is_call_start. destruct x as [|[k2 t2] r2]; [reflexivity|]. destruct k2; reflexivity. }
  rewrite E. reflexivity.
Qed.

Lemma primary_call : forall pe tb g f t2 x,
  primary ch pe tb g ((KIdent, f) :: (KLParen, t2) :: x) =
  bindr (mapr (ECall (upper_name f)) (parse_seq pe g is_rparen x)) (after_call ch pe tb g).
Proof. intros. reflexivity. Qed.

Section RT6.
  Variable extra : expr -> bool.
  Local Notation bodyx := (body extra).
  Local Notation prx := (pr extra).
  Local Notation needsx := (needs extra).
  Local Notation GoodAt := (GoodAt extra).
  Local Notation GoodPr := (GoodPr extra).

  Variable n : nat.
  Hypothesis IH : forall e, size e <= n -> printable e = true -> GoodAt e.

  Lemma good_bin : forall e L a b ops mk,
    bin_view e = Some (L, a, b, ops, mk) -> size e <= S n -> printable e = true -> GoodAt e.
  Proof.
    intros e L a b ops mk V Hse Pe tb lv rest B f Hlv Htb [Hs [Hn Hq]] Hf.
    destruct (bin_view_spec extra e L a b ops mk V) as (Ee & El & HL & Hb & Hop & Hst & Hnp & Hqq & Hsz & Hpr).
    rewrite Hpr in Pe. apply andb_prop in Pe. destruct Pe as [Pa Pb].
    assert (HL2 : 2 <= L /\ L <= 11).
    { destruct L as [|[|[|[|[|[|[|[|[|[|[|[|L]]]]]]]]]]]]; try discriminate; lia. }
    rewrite El in Hlv. unfold need in Hf.
    replace f with (S (f - (L - lv) - 1) + (L - lv)) by lia.
    set (f1 := f - (L - lv) - 1).
    assert (Hf1 : 64 * size e + B <= f1 + 12) by (unfold f1; lia).
    apply descend; try lia.
    - replace (lv + (L - lv)) with L by lia.
      destruct (RL extra n IH (size a) a (le_n _) ltac:(lia) Pa L tb (ops ++ prx (S L) b ++ rest) 0 f1 HL)
        as (c & Hcs & Hcg).
      { split; [|split].
        - intros l Hl. apply Hst. lia.
        - apply Hnp.
        - specialize (Hqq (prx (S L) b ++ rest)).
          destruct (ops ++ prx (S L) b ++ rest) as [|[k t] r]; [exact I|].
          destruct k; try exact I. simpl in Hqq. congruence. }
      { unfold need. lia. }
      rewrite parse_at_bin by exact HL.
      rewrite Hb. rewrite <- !app_assoc.
      replace (bin_loop (parse_at ch f1) tb f1 L) with (bin_loop (parse_at ch f1) tb ((f1 - c) + c) L)
        by (f_equal; lia).
      rewrite Hcg.
      destruct (f1 - c) as [|g] eqn:Eg; [lia|].
      rewrite (loop_step extra n IH L a b ops mk e tb rest B f1 g V); auto; try lia.
      + destruct g as [|g']; [lia|].
        rewrite bin_loop_stop; [rewrite <- Ee; reflexivity|].
        apply stops_bin; [exact HL|]. apply Hs. lia.
      + split; [|split]; auto. intros l Hl. apply Hs. lia.
      + unfold need. lia.
    - intros l Hl. apply Hs. lia.
    - intros Hl. destruct (body_hd_kind extra e rest) as (k & Hk & Hg & Hu); [rewrite Hpr, Pa, Pb; reflexivity|].
      apply (hd_not_unop _ k Hk). apply Hu. lia.
  Qed.
End RT6.

Section RT7.
  Variable extra : expr -> bool.
  Local Notation bodyx := (body extra).
  Local Notation prx := (pr extra).
  Local Notation GoodAt := (GoodAt extra).

  Variable n : nat.
  Hypothesis IH : forall e, size e <= n -> printable e = true -> GoodAt e.

  Lemma good_un : forall o a, size a <= n -> printable a = true -> GoodAt (EUn o a).
  Proof.
    intros o a Hsa Pa tb lv rest B f Hlv Htb [Hs [Hn Hq]] Hf.
    cbn [level] in Hlv. unfold need in Hf. cbn [size] in Hf.
    replace f with (S (f - (4 - lv) - 1) + (4 - lv)) by lia.
    set (f1 := f - (4 - lv) - 1).
    apply descend; try lia.
    - replace (lv + (4 - lv)) with 4 by lia.
      assert (Ha : parse_at ch f1 tb 4 (prx 4 a ++ rest) = POk a rest).
      { apply (IHpr extra n IH a Hsa Pa tb 4 4 rest B f1); auto; try lia.
        - split; [|split]; auto. intros l Hl. apply Hs. lia.
        - unfold need, f1. lia. }
      change (bodyx (EUn o a)) with (un_tok o :: prx 4 a).
      destruct o; cbn [un_tok app]; unfold tk; rewrite parse_at_4; cbn [unop_of]; rewrite Ha; reflexivity.
    - intros l Hl. apply Hs. lia.
  Qed.

  Lemma good_cond : forall c t e0,
    size c <= n -> printable c = true -> opt_ok n t -> size e0 <= n -> printable e0 = true ->
    GoodAt (ECond c t e0).
  Proof.
    intros c t e0 Hsc Pc Ht Hs0 P0 tb lv rest B f Hlv Htb [Hs [Hn Hq]] Hf.
    cbn [level] in Hlv, Htb.
    assert (tb = false) by (destruct tb; [specialize (Htb eq_refl); lia|reflexivity]). subst tb.
    unfold need in Hf. cbn [size] in Hf.
    assert (Hts : opt_size t = match t with Some t' => size t' | None => 0 end) by reflexivity.
    rewrite <- Hts in Hf. pose proof (size_pos e0) as Hp0. pose proof (size_pos c) as Hpc.
    replace f with (S (f - (1 - lv) - 1) + (1 - lv)) by lia.
    set (f1 := f - (1 - lv) - 1).
    apply descend; try lia.
    - replace (lv + (1 - lv)) with 1 by lia.
      rewrite parse_at_1. rewrite (body_cond extra). rewrite <- !app_assoc. cbn [app]. rewrite <- !app_assoc.
      destruct (RT extra n IH (size c) c (le_n _) Hsc Pc
                  (tk KQuestion "?" :: opt_toks extra t ++ tk KColon ":" :: prx 2 e0 ++ rest)
                  (64 * opt_size t + 16) f1) as (k & Hks & Hkg).
      { apply (cond_ctx extra n t e0 rest Ht). }
      { unfold need, f1. lia. }
      replace (tern_loop (parse_at ch f1) false f1) with (tern_loop (parse_at ch f1) false ((f1 - k) + k))
        by (f_equal; unfold f1; lia).
      rewrite Hkg.
      destruct (f1 - k) as [|g] eqn:Eg; [unfold f1 in Eg; lia|].
      rewrite (tern_step extra n IH c t e0 rest B f1 g Ht Hs0 P0).
      + destruct g as [|g']; [unfold f1 in Eg; lia|].
        apply tern_loop_stop. apply (Hs 1). lia.
      + split; [|split]; auto. intros l Hl. apply Hs. lia.
      + unfold need, f1. lia.
    - intros l Hl. apply Hs. lia.
  Qed.

  Definition all_ok (es : list expr) : Prop := forall x, In x es -> size x <= n /\ printable x = true.

  Lemma good_arr : forall es, all_ok es -> GoodAt (EArr es).
  Proof.
    intros es Hall tb lv rest B f Hlv Htb [Hs [Hn Hq]] Hf.
    unfold need in Hf. change (size (EArr es)) with (S (sum_size es)) in Hf. cbn [level] in Hlv.
    rewrite body_arr.
    replace f with (S (S (f + lv - 14)) + (12 - lv)) by lia.
    apply from_primary; try lia.
    - cbn [app]. unfold tk at 1. rewrite primary_lbrack. rewrite <- app_assoc. cbn [app].
      unfold tk. rewrite (seq_good extra n IH es Hall is_rbrack KRBrack (bs "]") rest); try reflexivity; try lia.
      + rewrite bindr_ok. apply with_path_none. exact Hn.
      + intros k Hg. apply (good_head_facts k Hg).
      + assert (List.length es <= sum_size es).
        { clear. induction es as [|x es IHes]; [simpl; lia|]. unfold sum_size in *. simpl. pose proof (size_pos x). lia. }
        lia.
    - exact Hs.
    - intros _. reflexivity.
  Qed.

  Lemma call_parts : forall f, call_ok f = true ->
    word_kind (runes_of f) = KIdent /\ upper_name f = f.
  Proof.
    intros f H. unfold call_ok in H. apply andb_prop in H. destruct H as [H1 H2].
    split; [|apply bytes_eqb_eq; exact H2].
    destruct (word_kind (runes_of f)); try discriminate; reflexivity.
  Qed.

  (* the call itself, whatever follows *)
  Lemma call_parsed : forall fn args rest f g,
    call_ok fn = true -> all_ok args -> 64 * sum_size args + 16 <= f -> List.length args < g ->
    mapr (ECall (upper_name fn)) (parse_seq (parse_at ch f) g is_rparen (pr_list extra args ++ RP :: rest))
    = POk (ECall fn args) rest.
  Proof.
    intros fn args rest f g Hc Hall Hf Hlen.
    destruct (call_parts fn Hc) as [_ Hu].
    unfold RP, tk. rewrite (seq_good extra n IH args Hall is_rparen KRParen (bs ")") rest); try reflexivity; try lia.
    - cbn [mapr]. rewrite Hu. reflexivity.
    - intros k Hg. apply (good_head_facts k Hg).
  Qed.

  Lemma len_le_sum : forall es, List.length es <= sum_size es.
  Proof.
    induction es as [|x es IHes]; [simpl; lia|]. unfold sum_size in *. simpl. pose proof (size_pos x). lia.
  Qed.

  Lemma good_call : forall fn args, call_ok fn = true -> all_ok args -> GoodAt (ECall fn args).
  Proof.
    intros fn args Hc Hall tb lv rest B f Hlv Htb [Hs [Hn Hq]] Hf.
    unfold need in Hf. change (size (ECall fn args)) with (S (sum_size args)) in Hf. cbn [level] in Hlv.
    pose proof (len_le_sum args) as Hlen.
    destruct (call_parts fn Hc) as [Hk _].
    rewrite body_call.
    replace f with (S (S (f + lv - 14)) + (12 - lv)) by lia.
    apply from_primary; try lia.
    - unfold word_tok, LP, RP, tk. rewrite Hk. cbn [app]. rewrite primary_call.
      rewrite <- app_assoc. cbn [app].
      pose proof (call_parsed fn args rest (S (f + lv - 14)) (S (f + lv - 14)) Hc Hall) as Hp.
      unfold RP, tk in Hp. rewrite Hp by lia. rewrite bindr_ok.
      unfold after_call. rewrite starts_path_none by exact Hn.
      apply postfix_q_keep with (B := B); exact Hq.
    - exact Hs.
    - intros _. unfold word_tok. rewrite Hk. reflexivity.
  Qed.
End RT7.

Lemma all_ok_of : forall n es, forallb printable es = true -> sum_size es <= n -> all_ok n es.
Proof.
  intros n es Hp Hs x Hin. split.
  - pose proof (size_in es x Hin). unfold sum_size in Hs. lia.
  - rewrite forallb_forall in Hp. apply Hp. exact Hin.
Qed.

Section RT8.
  Variable extra : expr -> bool.
  Local Notation bodyx := (body extra).
  Local Notation prx := (pr extra).
  Local Notation GoodAt := (GoodAt extra).

  Variable n : nat.
  Hypothesis IH : forall e, size e <= n -> printable e = true -> GoodAt e.

  Definition inner (a : expr) : toks :=
    match a with
    | ECall _ _ => bodyx a
    | _ => LP :: bodyx a ++ [RP]
    end.
  Lemma body_suppress : forall a, bodyx (ESuppress a) = LP :: inner a ++ [tk KQuestion "?"; RP].
  Proof. intros a. destruct a; reflexivity. Qed.

  Lemma inner_paren : forall a rest f,
    size a <= n -> printable a = true -> need a + 12 <= f ->
    parse_at ch (S f + 11) false 1 ((LP :: bodyx a ++ [RP]) ++ tk KQuestion "?" :: RP :: rest)
    = POk (ESuppress a) (RP :: rest).
  Proof.
    intros a rest f Hsa Pa Hf.
    apply (from_primary f false 1); try lia.
    - cbn [app]. rewrite <- app_assoc. cbn [app].
      rewrite primary_paren.
      + rewrite (IH a Hsa Pa false 1 (RP :: tk KQuestion "?" :: RP :: rest) 0 f);
          [ | apply level_ge_1 | discriminate | apply ctx_closer; reflexivity | lia ].
        unfold RP at 1. unfold tk at 1. cbn [bind_tok is_rparen].
        unfold tk, RP. replace f with (12 + (f - 12)) by (unfold need in Hf; pose proof (size_pos a); lia).
        apply postfix_q_suppress.
      + destruct (body_hd_kind extra a (RP :: tk KQuestion "?" :: RP :: rest) Pa) as (k & Hk & Hg & _).
        rewrite Hk. destruct (good_head_facts k Hg) as [HF _]. congruence.
    - intros l _. apply stops_closer. reflexivity.
    - intros _. reflexivity.
  Qed.

  Lemma inner_call : forall fn args rest f,
    call_ok fn = true -> all_ok n args -> 64 * sum_size args + 16 <= f -> List.length args < f ->
    12 <= f ->
    parse_at ch (S (S f) + 11) false 1 (bodyx (ECall fn args) ++ tk KQuestion "?" :: RP :: rest)
    = POk (ESuppress (ECall fn args)) (RP :: rest).
  Proof.
    intros fn args rest f Hc Hall Hf Hlen H12.
    destruct (call_parts fn Hc) as [Hk _].
    apply (from_primary (S f) false 1); try lia.
    - rewrite body_call. unfold word_tok, LP, RP, tk. rewrite Hk. cbn [app]. rewrite primary_call.
      rewrite <- app_assoc. cbn [app].
      pose proof (call_parsed extra n IH fn args ((KQuestion, bs "?") :: (KRParen, bs ")") :: rest) (S f) (S f) Hc Hall) as Hp.
      unfold RP, tk in Hp.
      match goal with |- bindr ?X _ = _ =>
        replace X with (POk (ECall fn args) ((KQuestion, bs "?") :: (KRParen, bs ")") :: rest))
          by (symmetry; apply Hp; lia) end.
      rewrite bindr_ok.
      unfold after_call. cbn [starts_path].
      replace (S f) with (12 + (S f - 12)) by lia.
      apply postfix_q_suppress.
    - intros l _. apply stops_closer. reflexivity.
    - intros _. unfold word_tok. rewrite body_call. unfold word_tok. rewrite Hk. reflexivity.
  Qed.

  Lemma good_suppress : forall a, size a <= n -> printable a = true -> GoodAt (ESuppress a).
  Proof.
    intros a Hsa Pa tb lv rest B f Hlv Htb [Hs [Hn Hq]] Hf.
    cbn [level] in Hlv. unfold need in Hf. cbn [size] in Hf. pose proof (size_pos a) as Hpa.
    rewrite body_suppress.
    replace f with (S (f + lv - 13) + (12 - lv)) by lia.
    set (f0 := f + lv - 13).
    apply from_primary; try lia.
    - cbn [app]. rewrite <- app_assoc. cbn [app].
      rewrite primary_paren.
      + assert (Hin : parse_at ch f0 false 1 (inner a ++ tk KQuestion "?" :: RP :: rest)
                      = POk (ESuppress a) (RP :: rest)).
        { destruct a;
            try (replace f0 with (S (f0 - 12) + 11) by (unfold f0; lia);
                 apply inner_paren; [exact Hsa|exact Pa|unfold need, f0; simpl; simpl in Hf; lia]).
          (* ECall *)
          simpl in Pa. apply andb_prop in Pa. destruct Pa as [Pc Pargs].
          change (size (ECall f1 args)) with (S (sum_size args)) in *.
          pose proof (len_le_sum args).
          replace f0 with (S (S (f0 - 13)) + 11) by (unfold f0; lia).
          apply inner_call; auto; try (unfold f0; lia).
          apply all_ok_of; [exact Pargs|lia]. }
        rewrite Hin. unfold RP at 1. unfold tk at 1. cbn [bind_tok is_rparen].
        apply postfix_q_keep with (B := B); exact Hq.
      + destruct a; try (cbn [inner]; unfold LP, tk; cbn [app hd_kind]; congruence).
        cbn [inner]. rewrite body_call. unfold word_tok.
        simpl in Pa. apply andb_prop in Pa. destruct Pa as [Pc _].
        destruct (call_parts f1 Pc) as [Hk _]. rewrite Hk. cbn [app hd_kind]. congruence.
    - exact Hs.
    - intros _. reflexivity.
  Qed.
End RT8.

(* ------------------------------------------------ ranges *)
Lemma call_start_no2 : forall k t r,
  k <> KNsSeg -> hd_kind r <> Some KLParen -> is_call_start ((k, t) :: r) = false.
Proof.
  intros k t r Hk Hr. unfold is_call_start.
  destruct k; try congruence; destruct r as [|[k2 t2] r2]; try reflexivity;
    destruct k2; try reflexivity; simpl in Hr; congruence.
Qed.

Lemma int_ok_parts : forall z, int_ok z = true ->
  (z <? 0)%Z = false /\ int_value (digits (Z.to_N z)) = Some z.
Proof.
  intros z P. unfold int_ok in P. apply andb_prop in P. destruct P as [P0 P1].
  apply Z.leb_le in P0. split; [apply Z.ltb_ge; lia|].
  destruct (int_value (digits (Z.to_N z))) as [z'|]; [|discriminate].
  apply Z.eqb_eq in P1. congruence.
Qed.

Section Range.
  Variable extra : expr -> bool.
  Local Notation bodyx := (body extra).

  Lemma range_rhs_ok : forall a b rest, range_op b = true ->
    range_rhs a (bodyx b ++ rest) = POk (ERange a b) rest.
  Proof.
    intros a b rest H. destruct b; simpl in H; try discriminate.
    - destruct (int_ok_parts z H) as [E V]. cbn [body]. rewrite E. cbn [app range_rhs]. rewrite V. reflexivity.
    - destruct (var_ok_parts x H) as [Pv _]. cbn [body app]. unfold word_tok.
      destruct (word_kind (runes_of x)); try discriminate; reflexivity.
    - destruct (var_ok_parts x H) as [Pv _]. cbn [body app]. unfold word_tok, tk. cbn [range_rhs].
      rewrite Pv. reflexivity.
  Qed.

  Lemma primary_range : forall pe tb g a b rest, range_op a = true -> range_op b = true ->
    primary ch pe tb g (bodyx a ++ tk KRange ".." :: bodyx b ++ rest) = POk (ERange a b) rest.
  Proof.
    intros pe tb g a b rest Ha Hb.
    destruct a; simpl in Ha; try discriminate.
    + destruct (int_ok_parts z Ha) as [E V]. cbn [body]. rewrite E. cbn [app]. unfold tk, primary.
      rewrite call_start_no2 by (cbn; congruence). rewrite V. apply range_rhs_ok. exact Hb.
    + destruct (var_ok_parts x Ha) as [Pv _]. cbn [body app]. unfold word_tok, tk, primary.
      rewrite call_start_no2 by (try (apply varname_not_ns; exact Pv); cbn; congruence).
      destruct (word_kind (runes_of x)); try discriminate; apply range_rhs_ok; exact Hb.
    + destruct (var_ok_parts x Ha) as [Pv _]. cbn [body app]. unfold word_tok, tk, primary.
      assert (E : forall r, is_call_start ((KParam, bs "@") :: (word_kind (runes_of x), x) :: r) = false).
      { intros r. unfold is_call_start. destruct (word_kind (runes_of x)); try discriminate; reflexivity. }
      rewrite E. rewrite Pv. apply range_rhs_ok. exact Hb.
  Qed.

  Lemma good_range : forall a b, range_op a = true -> range_op b = true -> GoodAt extra (ERange a b).
  Proof.
    intros a b Ha Hb.
    apply (leaf_good extra (ERange a b) (bodyx a ++ tk KRange ".." :: bodyx b)); try reflexivity.
    - destruct a; simpl in Ha; try discriminate.
      + destruct (int_ok_parts z Ha) as [E _]. cbn [body]. rewrite E. reflexivity.
      + destruct (var_ok_parts x Ha) as [Pv Pd]. cbn [body app]. unfold word_tok, not_unop.
        apply (good_head_varname _ Pv Pd).
      + reflexivity.
    - intros pe tb g rest Hn. rewrite <- app_assoc. cbn [app]. apply primary_range; assumption.
  Qed.
End Range.

(* ------------------------------------------------ member paths, objects *)
Section Segs.
  Variable extra : expr -> bool.
  Fixpoint pr_segs (l : list seg) : toks :=
    match l with
    | [] => []
    | x :: r => pr_seg extra x ++ pr_segs r
    end.
  Fixpoint pr_props (l : list prop) : toks :=
    match l with
    | [] => []
    | [x] => pr_prop extra x
    | x :: r => pr_prop extra x ++ COMMA :: pr_props r
    end.
End Segs.

Lemma body_member : forall extra s p, body extra (EMember s p) = body extra s ++ pr_segs extra p.
Proof. reflexivity. Qed.
Lemma body_obj : forall extra ps,
  body extra (EObj ps) = tk KLBrace "{" :: pr_props extra ps ++ [tk KRBrace "}"].
Proof. reflexivity. Qed.

Lemma kw_lookup_in : forall tbl u, kw_lookup tbl u = KIdent \/ In (kw_lookup tbl u) (map snd tbl).
Proof.
  induction tbl as [|[k v] tbl IH]; intros u; [left; reflexivity|].
  cbn [kw_lookup map snd]. destruct (bytes_eqb k u).
  - right. left. reflexivity.
  - destruct (IH u) as [H|H]; [left; exact H|right; right; exact H].
Qed.

Lemma is_word_kinds : forall w, is_word (word_kind w) = true.
Proof.
  intros w. unfold word_kind. destruct (kw_lookup_in keywords (map up w)) as [H|H].
  - rewrite H. reflexivity.
  - assert (A : forallb is_word (map snd keywords) = true) by reflexivity.
    rewrite forallb_forall in A. apply A. exact H.
Qed.

Lemma prop_name_word : forall k t r, is_word k = true -> prop_name ((k, t) :: r) = POk (EStr t) r.
Proof. intros k t r H. destruct k; try discriminate; reflexivity. Qed.

Lemma path_dot : forall pe g d k t r, is_word k = true ->
  parse_path pe (S g) ((KDot, d) :: (k, t) :: r) = mapr (cons (Seg false (EStr t))) (parse_path pe g r).
Proof. intros. cbn [parse_path]. rewrite prop_name_word by assumption. reflexivity. Qed.
Lemma path_qdot : forall pe g q d k t r, is_word k = true ->
  parse_path pe (S g) ((KQuestion, q) :: (KDot, d) :: (k, t) :: r)
  = mapr (cons (Seg true (EStr t))) (parse_path pe g r).
Proof. intros pe g q d k t r H. destruct k; try discriminate; reflexivity. Qed.
Lemma path_brack : forall pe g b r,
  parse_path pe (S g) ((KLBrack, b) :: r)
  = bind_tok (pe false 1 r) is_rbrack (fun e r' => mapr (cons (Seg false e)) (parse_path pe g r')).
Proof. reflexivity. Qed.
Lemma path_qbrack : forall pe g q d b r,
  parse_path pe (S g) ((KQuestion, q) :: (KDot, d) :: (KLBrack, b) :: r)
  = bind_tok (pe false 1 r) is_rbrack (fun e r' => mapr (cons (Seg true e)) (parse_path pe g r')).
Proof. reflexivity. Qed.

Lemma estr_dec : forall e, (exists nm, e = EStr nm) \/ (forall nm, e <> EStr nm).
Proof. destruct e; try (right; intros nm H; discriminate). left. eauto. Qed.
Lemma eparam_dec : forall e, (exists x, e = EParam x) \/ (forall x, e <> EParam x).
Proof. destruct e; try (right; intros nm H; discriminate). left. eauto. Qed.

Lemma pr_seg_other : forall extra o e, (forall nm, e <> EStr nm) ->
  pr_seg extra (Seg o e)
  = (if o then [tk KQuestion "?"; tk KDot "."] else [])
    ++ tk KLBrack "[" :: pr extra 1 e ++ [tk KRBrack "]"]
  /\ printable_seg (Seg o e) = printable e.
Proof. intros extra o e H. destruct e; try (split; reflexivity). exfalso. apply (H s). reflexivity. Qed.

Lemma pr_prop_computed : forall extra k e, (forall x, k <> EParam x) ->
  pr_prop extra (PComputed k e)
  = tk KLBrack "[" :: pr extra 1 k ++ tk KRBrack "]" :: tk KColon ":" :: pr extra 1 e.
Proof. intros extra k e H. destruct k; try reflexivity. exfalso. apply (H x). reflexivity. Qed.

Lemma after_name_path : forall pe g a R, starts_path R = true -> after_name pe g a R = with_path pe g a R.
Proof.
  intros pe g a R H. unfold after_name. destruct R as [|[k t] r]; [reflexivity|].
  destruct k; try reflexivity. discriminate.
Qed.

Lemma starts_path_hd : forall R, starts_path R = true -> hd_kind R <> Some KLParen.
Proof. intros R H. destruct R as [|[k t] r]; [discriminate|]. destruct k; try discriminate; simpl; congruence. Qed.

Definition props_cont (pe : bool -> nat -> toks -> pres expr) (g : nat) (p : prop) (r : toks)
  : pres (list prop) :=
  match r with
  | (KComma, _) :: r' => mapr (cons p) (parse_props pe g r')
  | (KRBrace, _) :: r' => POk [p] r'
  | _ => PFail
  end.

Lemma props_word : forall pe g k t c r, is_word k = true ->
  parse_props pe (S g) ((k, t) :: (KColon, c) :: r)
  = bindr (pe false 1 r) (fun v r' => props_cont pe g (PNamed t v) r').
Proof. intros pe g k t c r H. destruct k; try discriminate; reflexivity. Qed.
Lemma props_str : forall pe g t c r,
  parse_props pe (S g) ((KString, t) :: (KColon, c) :: r)
  = bindr (pe false 1 r) (fun v r' => props_cont pe g (PNamed (str_inner t) v) r').
Proof. reflexivity. Qed.
Lemma props_param : forall pe g a k t c r, is_varname k = true ->
  parse_props pe (S g) ((KParam, a) :: (k, t) :: (KColon, c) :: r)
  = bindr (pe false 1 r) (fun v r' => props_cont pe g (PComputed (EParam t) v) r').
Proof. intros pe g a k t c r H. destruct k; try discriminate; reflexivity. Qed.
Lemma props_comp : forall pe g b r,
  parse_props pe (S g) ((KLBrack, b) :: r)
  = bind_tok (pe false 1 r) is_rbrack (fun k r1 =>
      match r1 with
      | (KColon, _) :: r' => bindr (pe false 1 r') (fun v r'' => props_cont pe g (PComputed k v) r'')
      | _ => PFail
      end).
Proof. reflexivity. Qed.
Lemma props_short : forall pe g k t kn tn r, is_varname k = true -> (kn = KComma \/ kn = KRBrace) ->
  parse_props pe (S g) ((k, t) :: (kn, tn) :: r) = props_cont pe g (PShort t) ((kn, tn) :: r).
Proof. intros pe g k t kn tn r H [E|E]; subst; destruct k; try discriminate; reflexivity. Qed.

Lemma primary_lbrace : forall pe tb g t x,
  primary ch pe tb g ((KLBrace, t) :: x) =
  bindr (parse_props pe g x) (fun ps r' => with_path pe g (EObj ps) r').
Proof.
  intros. unfold primary.
  assert (E : is_call_start ((KLBrace, t) :: x) = false).
  { unfold is_call_start. destruct x as [|[k2 t2] r2]; [reflexivity|]. destruct k2; reflexivity. }
  rewrite E. reflexivity.
Qed.

Section RT9.
  Variable extra : expr -> bool.
  Local Notation bodyx := (body extra).
  Local Notation prx := (pr extra).
  Local Notation GoodAt := (GoodAt extra).

  Variable n : nat.
  Hypothesis IH : forall e, size e <= n -> printable e = true -> GoodAt e.

  Definition segs_ok (p : list seg) : Prop :=
    forall s, In s p -> size_seg s <= n /\ printable_seg s = true.

  Lemma path_good : forall p, segs_ok p ->
    forall rest f g, no_postfix rest -> 64 * sum_by size_seg p + 80 <= f -> List.length p < g ->
    parse_path (parse_at ch f) g (pr_segs extra p ++ rest) = POk p rest.
  Proof.
    induction p as [|[o e] p IHp]; intros Hok rest f g Hn Hf Hg.
    - destruct g; [simpl in Hg; lia|]. apply path_none. exact Hn.
    - destruct g; [simpl in Hg; lia|].
      destruct (Hok (Seg o e) (or_introl eq_refl)) as [Hs Hp]. cbn [size_seg] in Hs.
      assert (IHt : parse_path (parse_at ch f) g (pr_segs extra p ++ rest) = POk p rest).
      { apply IHp; auto.
        - intros s Hin. apply Hok. right. exact Hin.
        - unfold sum_by in *. simpl in Hf. lia.
        - simpl in Hg. lia. }
      assert (Hcl : forall t r, ctx_ok false 0 1 ((KRBrack, t) :: r)) by (intros; apply ctx_closer; reflexivity).
      cbn [pr_segs]. rewrite <- app_assoc.
      destruct (estr_dec e) as [[nm ->]|Hne].
      + cbn [pr_seg printable_seg] in *. destruct (is_word_text nm) eqn:W.
        * destruct o; cbn [app]; unfold tk, word_tok;
            [rewrite path_qdot by apply is_word_kinds|rewrite path_dot by apply is_word_kinds];
            rewrite IHt; reflexivity.
        * simpl in Hp.
          assert (G : forall r, parse_at ch f false 1 (quote_tok nm :: (KRBrack, bs "]") :: r)
                                = POk (EStr nm) ((KRBrack, bs "]") :: r)).
          { intros r. apply (good_str extra nm Hp false 1 ((KRBrack, bs "]") :: r) 0 f); auto; try discriminate.
            - cbn. lia.
            - unfold need. cbn [size]. unfold sum_by in Hf. lia. }
          destruct o; cbn [app]; unfold tk;
            [rewrite path_qbrack|rewrite path_brack]; rewrite G; cbn [bind_tok is_rbrack];
            rewrite IHt; reflexivity.
      + destruct (pr_seg_other extra o e Hne) as [Epr Epp]. rewrite Epr. rewrite Epp in Hp.
        assert (G : forall r, parse_at ch f false 1 (prx 1 e ++ (KRBrack, bs "]") :: r)
                              = POk e ((KRBrack, bs "]") :: r)).
        { intros r. apply (goodpr_of_good extra e Hp (IH e ltac:(lia) Hp) false 1 1 _ 0 f); auto; try discriminate; try lia.
          unfold need. unfold sum_by in Hf. simpl in Hf. lia. }
        destruct o; cbn [app]; unfold tk; rewrite <- app_assoc; cbn [app];
          [rewrite path_qbrack|rewrite path_brack]; rewrite G; cbn [bind_tok is_rbrack];
          rewrite IHt; reflexivity.
  Qed.

  Lemma with_path_good : forall src p rest f g,
    p <> [] -> parse_path (parse_at ch f) g (pr_segs extra p ++ rest) = POk p rest ->
    with_path (parse_at ch f) g src (pr_segs extra p ++ rest) = POk (EMember src p) rest.
  Proof. intros src p rest f g Hne H. unfold with_path. rewrite H. destruct p; [congruence|reflexivity]. Qed.

  Lemma segs_start : forall p rest, p <> [] -> starts_path (pr_segs extra p ++ rest) = true.
  Proof.
    intros p rest Hne. destruct p as [|[o e] p]; [congruence|].
    cbn [pr_segs]. rewrite <- app_assoc.
    destruct (estr_dec e) as [[nm ->]|H].
    - cbn [pr_seg]. destruct (is_word_text nm), o; reflexivity.
    - destruct (pr_seg_other extra o e H) as [-> _]. destruct o; reflexivity.
  Qed.
End RT9.

Section RT10.
  Variable extra : expr -> bool.
  Local Notation bodyx := (body extra).
  Local Notation prx := (pr extra).
  Local Notation GoodAt := (GoodAt extra).

  Variable n : nat.
  Hypothesis IH : forall e, size e <= n -> printable e = true -> GoodAt e.

  Definition props_ok (ps : list prop) : Prop :=
    forall p, In p ps -> size_prop p <= n /\ printable_prop p = true.
  Definition closes (tl : toks) : Prop :=
    exists kn tn r, tl = (kn, tn) :: r /\ (kn = KComma \/ kn = KRBrace).

  Lemma closes_ctx : forall tl, closes tl -> ctx_ok false 0 1 tl.
  Proof. intros tl (kn & tn & r & -> & [->| ->]); apply ctx_closer; reflexivity. Qed.

  Lemma prop_one : forall p tl f g,
    size_prop p <= n -> printable_prop p = true -> closes tl -> 64 * size_prop p + 16 <= f ->
    parse_props (parse_at ch f) (S g) (pr_prop extra p ++ tl) = props_cont (parse_at ch f) g p tl.
  Proof.
    intros p tl f g Hs Hp Hc Hf.
    assert (Hv : forall e, size e <= n -> printable e = true -> 64 * size e + 16 <= f ->
                 parse_at ch f false 1 (wrap (needs extra 1 e) (bodyx e) ++ tl) = POk e tl).
    { intros e He Pe Hfe. change (wrap (needs extra 1 e) (bodyx e)) with (prx 1 e).
      apply (goodpr_of_good extra e Pe (IH e He Pe) false 1 1 tl 0 f); auto; try discriminate; try lia.
      - apply closes_ctx. exact Hc.
      - unfold need. lia. }
    destruct p as [k e|k e|x]; cbn [size_prop printable_prop] in *.
    - (* PNamed *) cbn [pr_prop app]. destruct (is_word_text k); unfold tk.
      + unfold word_tok. rewrite props_word by apply is_word_kinds.
        rewrite Hv by (auto; lia). reflexivity.
      + unfold quote_tok. rewrite props_str. rewrite Hv by (auto; lia).
        rewrite bindr_ok. rewrite str_inner_quote. reflexivity.
    - (* PComputed *) apply andb_prop in Hp. destruct Hp as [Pk Pe].
      destruct (eparam_dec k) as [[x ->]|Hne].
      + cbn [pr_prop app]. unfold tk, word_tok. cbn [printable] in Pk.
        rewrite props_param by (apply (var_ok_parts x Pk)).
        rewrite Hv by (auto; lia). reflexivity.
      + rewrite (pr_prop_computed extra k e Hne). unfold pr. cbn [app]. unfold tk. rewrite props_comp.
        rewrite <- app_assoc. cbn [app].
        change (wrap (needs extra 1 k) (bodyx k)) with (prx 1 k).
        rewrite (goodpr_of_good extra k Pk (IH k ltac:(lia) Pk) false 1 1 _ 0 f); auto; try discriminate; try lia.
        * cbn [bind_tok is_rbrack]. rewrite Hv by (auto; lia). reflexivity.
        * apply ctx_closer. reflexivity.
        * unfold need. lia.
    - (* PShort *) cbn [pr_prop app]. unfold word_tok.
      destruct Hc as (kn & tn & r & -> & Hk).
      apply props_short; [apply (var_ok_parts x Hp)|exact Hk].
  Qed.

  Lemma props_good : forall ps, props_ok ps ->
    forall rest f g, 64 * sum_by size_prop ps + 16 <= f -> List.length ps < g ->
    parse_props (parse_at ch f) g (pr_props extra ps ++ tk KRBrace "}" :: rest) = POk ps rest.
  Proof.
    induction ps as [|p ps IHps]; intros Hok rest f g Hf Hg.
    - destruct g; [simpl in Hg; lia|]. reflexivity.
    - destruct g; [simpl in Hg; lia|].
      destruct (Hok p (or_introl eq_refl)) as [Hs Hp].
      destruct ps as [|q ps'].
      + cbn [pr_props]. rewrite prop_one; auto.
        * exists KRBrace, (bs "}"), rest. split; [reflexivity|right; reflexivity].
        * unfold sum_by in Hf. simpl in Hf. lia.
      + change (pr_props extra (p :: q :: ps')) with (pr_prop extra p ++ COMMA :: pr_props extra (q :: ps')).
        rewrite <- app_assoc. cbn [app]. rewrite prop_one; auto.
        * unfold COMMA, tk. cbn [props_cont]. fold (tk KRBrace "}").
          rewrite IHps; auto.
          -- intros z Hz. apply Hok. right. exact Hz.
          -- unfold sum_by in *. simpl in *. lia.
          -- simpl in *. lia.
        * exists KComma, (bs ","), (pr_props extra (q :: ps') ++ tk KRBrace "}" :: rest).
          split; [reflexivity|left; reflexivity].
        * unfold sum_by in Hf. simpl in Hf. lia.
  Qed.

  Lemma size_prop_pos : forall p, 1 <= size_prop p.
  Proof. destruct p; simpl; lia. Qed.
  Lemma len_le_props : forall ps, List.length ps <= sum_by size_prop ps.
  Proof.
    induction ps as [|x ps IHps]; [simpl; lia|]. unfold sum_by in *. simpl. pose proof (size_prop_pos x). lia.
  Qed.
  Lemma len_le_segs : forall p, List.length p <= sum_by size_seg p.
  Proof.
    induction p as [|[o e] p IHp]; [simpl; lia|]. unfold sum_by in *. simpl. pose proof (size_pos e). lia.
  Qed.

  (* an object literal, up to the member path that may follow *)
  Lemma obj_pre : forall ps tb f g R,
    props_ok ps -> 64 * sum_by size_prop ps + 16 <= f -> List.length ps < g ->
    primary ch (parse_at ch f) tb g (bodyx (EObj ps) ++ R) = with_path (parse_at ch f) g (EObj ps) R.
  Proof.
    intros ps tb f g R Hok Hf Hl. rewrite body_obj. cbn [app]. unfold tk at 1. rewrite primary_lbrace.
    rewrite <- app_assoc. cbn [app]. rewrite props_good; auto.
  Qed.

  Lemma arr_pre : forall es tb f g R,
    all_ok n es -> 64 * sum_size es + 16 <= f -> List.length es < g ->
    primary ch (parse_at ch f) tb g (bodyx (EArr es) ++ R) = with_path (parse_at ch f) g (EArr es) R.
  Proof.
    intros es tb f g R Hall Hf Hl. rewrite body_arr. cbn [app]. unfold tk at 1. rewrite primary_lbrack.
    rewrite <- app_assoc. cbn [app]. unfold tk.
    rewrite (seq_good extra n IH es Hall is_rbrack KRBrack (bs "]") R); try reflexivity; try lia.
    intros k Hg. apply (good_head_facts k Hg).
  Qed.

  Lemma call_pre : forall fn args tb f g R,
    call_ok fn = true -> all_ok n args -> 64 * sum_size args + 16 <= f -> List.length args < g ->
    primary ch (parse_at ch f) tb g (bodyx (ECall fn args) ++ R)
    = after_call ch (parse_at ch f) tb g (ECall fn args) R.
  Proof.
    intros fn args tb f g R Hc Hall Hf Hl.
    destruct (call_parts fn Hc) as [Hk _].
    rewrite body_call. unfold word_tok, LP, RP, tk. rewrite Hk. cbn [app]. rewrite primary_call.
    rewrite <- app_assoc. cbn [app].
    pose proof (call_parsed extra n IH fn args R f g Hc Hall Hf Hl) as Hp.
    unfold RP, tk in Hp.
    match goal with |- bindr ?X _ = _ =>
      replace X with (POk (ECall fn args) R) by (symmetry; apply Hp) end.
    reflexivity.
  Qed.

  Lemma var_pre : forall pe x tb g R, var_ok x = true -> starts_path R = true ->
    primary ch pe tb g (bodyx (EVar x) ++ R) = with_path pe g (EVar x) R.
  Proof.
    intros pe x tb g R P HR. destruct (var_ok_parts x P) as [Pv _].
    cbn [body app]. unfold word_tok, primary.
    rewrite call_start_no2 by (try (apply varname_not_ns; exact Pv); apply starts_path_hd; exact HR).
    destruct (word_kind (runes_of x)); try discriminate; apply after_name_path; exact HR.
  Qed.

  Lemma param_pre : forall pe x tb g R, var_ok x = true -> starts_path R = true ->
    primary ch pe tb g (bodyx (EParam x) ++ R) = with_path pe g (EParam x) R.
  Proof.
    intros pe x tb g R P HR. destruct (var_ok_parts x P) as [Pv _].
    cbn [body app]. unfold word_tok, tk, primary.
    destruct (word_kind (runes_of x)); try discriminate;
      (cbn -[with_path after_name]; apply after_name_path; exact HR).
  Qed.

  Lemma good_obj : forall ps, props_ok ps -> GoodAt (EObj ps).
  Proof.
    intros ps Hok tb lv rest B f Hlv Htb [Hs [Hn Hq]] Hf.
    unfold need in Hf. change (size (EObj ps)) with (S (sum_by size_prop ps)) in Hf. cbn [level] in Hlv.
    pose proof (len_le_props ps).
    replace f with (S (S (f + lv - 14)) + (12 - lv)) by lia.
    apply from_primary; try lia.
    - rewrite obj_pre; auto; try lia. apply with_path_none. exact Hn.
    - exact Hs.
    - intros _. reflexivity.
  Qed.

  Lemma good_member : forall s p,
    member_src s = true -> size s <= n -> printable s = true -> p <> [] -> segs_ok n p ->
    GoodAt (EMember s p).
  Proof.
    intros s p Hm Hss Ps Hne Hok tb lv rest B f Hlv Htb [Hs [Hn Hq]] Hf.
    unfold need in Hf. rewrite (size_member s p Hne) in Hf.
    cbn [level] in Hlv. pose proof (len_le_segs p) as Hlp. pose proof (size_pos s) as Hsp.
    replace f with (S (S (f + lv - 14)) + (12 - lv)) by lia.
    set (g := f + lv - 14).
    assert (Hpath : parse_path (parse_at ch (S g)) (S g) (pr_segs extra p ++ rest) = POk p rest).
    { apply (path_good extra n IH p Hok rest (S g) (S g)); auto; unfold g; lia. }
    assert (HR : starts_path (pr_segs extra p ++ rest) = true) by (apply segs_start; exact Hne).
    apply from_primary; try lia.
    - rewrite body_member. rewrite <- app_assoc.
      destruct s; try discriminate.
      + (* EArr *) simpl in Ps. change (size (EArr es)) with (S (sum_size es)) in *.
        pose proof (len_le_sum es).
        rewrite arr_pre; try (unfold g; lia).
        * apply with_path_good; assumption.
        * apply all_ok_of; [exact Ps|lia].
      + (* EObj *) simpl in Ps. change (size (EObj ps)) with (S (sum_by size_prop ps)) in *.
        pose proof (len_le_props ps).
        rewrite obj_pre; try (unfold g; lia).
        * apply with_path_good; assumption.
        * intros q Hq'. split.
          -- assert (size_prop q <= sum_by size_prop ps).
             { clear - Hq'. induction ps as [|y ps IHps]; [destruct Hq'|].
               unfold sum_by in *. simpl. destruct Hq' as [->|Hq']; [lia|]. specialize (IHps Hq'). lia. }
             lia.
          -- rewrite forallb_forall in Ps. apply Ps. exact Hq'.
      + (* EVar *) rewrite var_pre; auto. apply with_path_good; assumption.
      + (* EParam *) rewrite param_pre; auto. apply with_path_good; assumption.
      + (* ECall *) simpl in Ps. apply andb_prop in Ps. destruct Ps as [Pc Pa].
        change (size (ECall f0 args)) with (S (sum_size args)) in *.
        pose proof (len_le_sum args).
        rewrite call_pre; auto; try (unfold g; lia).
        * unfold after_call. rewrite HR. apply with_path_good; assumption.
        * apply all_ok_of; [exact Pa|lia].
    - exact Hs.
    - intros _. destruct (body_hd_kind extra (EMember s p) rest) as (k & Hk & Hg & Hu).
      { cbn [printable]. rewrite Hm, Ps. cbn [andb]. destruct p; [congruence|]. cbn [is_nil negb andb].
        apply forallb_forall. intros x Hx. apply (Hok x Hx). }
      apply (hd_not_unop _ k Hk). apply Hu. cbn [level]. lia.
  Qed.

  (* sub-queries: a loop in parentheses, given that loops read back *)
  Definition for_tail (q : forq) : toks := tl (pr_for extra q).
  Lemma pr_for_tail : forall q, pr_for extra q = tk KFor "FOR" :: for_tail q.
  Proof. destruct q; reflexivity. Qed.

  Definition GoodFor (q : forq) : Prop := forall rest f g,
    ctx_ok false 0 1 rest -> 64 * size_for q + 16 <= f -> size_for q < g ->
    parse_for (parse_at ch f) g (for_tail q ++ rest) = POk q rest.

  Lemma good_sub : forall q, GoodFor q -> GoodAt (ESub q).
  Proof.
    intros q Gq tb lv rest B f Hlv Htb [Hs [Hn Hq]] Hf.
    unfold need in Hf. cbn [size] in Hf. cbn [level] in Hlv.
    replace f with (S (f + lv - 13) + (12 - lv)) by lia.
    apply from_primary; try lia.
    - cbn [body]. rewrite pr_for_tail. unfold LP, RP, tk. cbn [app]. rewrite <- app_assoc. cbn [app].
      change (primary ch (parse_at ch (f + lv - 13)) tb (f + lv - 13)
                ((KLParen, bs "(") :: (KFor, bs "FOR") :: for_tail q ++ (KRParen, bs ")") :: rest))
        with (bind_tok (parse_for (parse_at ch (f + lv - 13)) (f + lv - 13) (for_tail q ++ (KRParen, bs ")") :: rest))
                is_rparen (fun q' r' => postfix_q ch tb (ESub q') r')).
      rewrite Gq; try lia.
      + cbn [bind_tok is_rparen]. apply postfix_q_keep with (B := B). exact Hq.
      + apply ctx_closer. reflexivity.
    - exact Hs.
    - intros _. reflexivity.
  Qed.
End RT10.

(* ================================================== loops and programs *)
Section ClauseToks.
  Variable extra : expr -> bool.
  Fixpoint pr_clauses (l : list fclause) : toks :=
    match l with [] => [] | x :: r => pr_clause extra x ++ pr_clauses r end.
  Fixpoint pr_sort (l : list (expr * bool)) : toks :=
    match l with
    | [] => []
    | [(e, d)] => pr extra 1 e ++ (if d then [tk KSortDir "DESC"] else [])
    | (e, d) :: r => pr extra 1 e ++ (if d then [tk KSortDir "DESC"] else []) ++ COMMA :: pr_sort r
    end.
  Fixpoint pr_groups (l : list (name * expr)) : toks :=
    match l with
    | [] => []
    | [(x, e)] => word_tok x :: tk KAssign "=" :: pr extra 1 e
    | (x, e) :: r => word_tok x :: tk KAssign "=" :: pr extra 1 e ++ COMMA :: pr_groups r
    end.
  Fixpoint pr_aggrs (l : list (name * name * list expr)) : toks :=
    match l with
    | [] => []
    | (x, f, args) :: r =>
        word_tok x :: tk KAssign "=" :: word_tok f :: LP :: pr_list extra args ++ RP ::
        match r with [] => [] | _ => COMMA :: pr_aggrs r end
    end.
End ClauseToks.

Lemma pr_for_in : forall extra v k s bd r,
  pr_for extra (ForIn v k s bd r)
  = tk KFor "FOR" :: word_tok v :: match k with Some k' => [COMMA; word_tok k'] | None => [] end
    ++ tk KIn "IN" :: body extra s ++ pr_clauses extra bd ++ pr_ret extra r.
Proof. reflexivity. Qed.
Lemma pr_for_while : forall extra v d c bd r,
  pr_for extra (ForWhile v d c bd r)
  = tk KFor "FOR" :: word_tok v :: (if d then [tk KDo "DO"] else [])
    ++ tk KWhile "WHILE" :: pr extra 1 c ++ pr_clauses extra bd ++ pr_ret extra r.
Proof. reflexivity. Qed.
Lemma pr_clause_sort : forall extra ks, pr_clause extra (CSort ks) = tk KSort "SORT" :: pr_sort extra ks.
Proof. reflexivity. Qed.
Lemma pr_clause_collect : forall extra gs t,
  pr_clause extra (CCollect gs t) = tk KCollect "COLLECT" :: pr_groups extra gs ++ pr_ctail extra t.
Proof. reflexivity. Qed.
Lemma pr_ctail_aggr : forall extra ss,
  pr_ctail extra (CTAggr ss) = tk KAggregate "AGGREGATE" :: pr_aggrs extra ss.
Proof. reflexivity. Qed.

(* what follows a clause: the next clause, a call statement, RETURN or FOR *)
Definition cstart (k : kind) : bool :=
  match k with
  | KLet | KFilter | KSort | KLimit | KCollect | KReturn | KFor | KIdent => true
  | _ => false
  end.
Definition cstarts (T : toks) : Prop := exists k t r, T = (k, t) :: r /\ cstart k = true.

Lemma cstarts_ctx : forall T, cstarts T -> ctx_ok false 0 1 T.
Proof.
  intros T (k & t & r & -> & H).
  destruct k; try discriminate; (split; [|split]; try exact I;
    intros l _; destruct l as [|[|[|[|[|[|[|[|[|[|[|[|l]]]]]]]]]]]]; simpl; try reflexivity; try congruence; exact I).
Qed.

Lemma cstarts_facts : forall T, cstarts T ->
  no_postfix T /\ starts_path T = false /\ hd_kind T <> Some KQuestion /\ hd_kind T <> Some KComma
  /\ hd_kind T <> Some KRange /\ hd_kind T <> Some KLParen.
Proof.
  intros T (k & t & r & -> & H). destruct k; try discriminate; repeat split; simpl; congruence || exact I.
Qed.

Lemma good_head_starts : forall k k2, good_head k = true -> starts_expr k k2 = true.
Proof. intros k k2 H. destruct k; try discriminate; reflexivity. Qed.
Lemma good_head_not_distinct : forall k, good_head k = true -> k <> KDistinct.
Proof. intros k H E. subst. discriminate. Qed.

Lemma parse_return_plain : forall pe ts k,
  hd_kind ts = Some k -> k <> KDistinct ->
  parse_return pe ts = mapr (fun e => (false, e)) (pe false 1 ts).
Proof.
  intros pe ts k H Hk. unfold parse_return.
  destruct ts as [|[k0 t0] r0]; [discriminate|]. simpl in H. inversion H; subst.
  destruct k; try reflexivity. congruence.
Qed.

Lemma parse_return_distinct : forall pe d ts k,
  hd_kind ts = Some k -> good_head k = true ->
  parse_return pe ((KDistinct, d) :: ts) = mapr (fun e => (true, e)) (pe false 1 ts).
Proof.
  intros pe d ts k H G. destruct ts as [|[k0 t0] r0]; [discriminate|].
  simpl in H. inversion H; subst. cbn [parse_return]. rewrite good_head_starts by exact G. reflexivity.
Qed.

Lemma call_stmt_plain : forall pe g ts c r,
  parse_call pe g ts = POk c r -> hd_kind r <> Some KQuestion -> call_stmt pe g ts = POk c r.
Proof.
  intros pe g ts c r H Hq. unfold call_stmt. rewrite H.
  destruct r as [|[k t] r']; [reflexivity|]. destruct k; try reflexivity. simpl in Hq. congruence.
Qed.
Lemma call_stmt_q : forall pe g ts c q r,
  parse_call pe g ts = POk c ((KQuestion, q) :: r) -> call_stmt pe g ts = POk (ESuppress c) r.
Proof. intros pe g ts c q r H. unfold call_stmt. rewrite H. reflexivity. Qed.

(* operands of FOR ... IN and LIMIT *)
Definition opfollow (R : toks) : Prop :=
  no_postfix R /\ starts_path R = false /\ hd_kind R <> Some KQuestion
  /\ hd_kind R <> Some KRange /\ hd_kind R <> Some KLParen.

Lemma cstarts_opfollow : forall T, cstarts T -> opfollow T.
Proof. intros T H. destruct (cstarts_facts T H) as (A & B & C & D & E & F). repeat split; assumption. Qed.
Lemma comma_opfollow : forall t r, opfollow ((KComma, t) :: r).
Proof. intros. repeat split; simpl; congruence || exact I. Qed.

Lemma operand_call : forall pe g allow f t2 x,
  parse_operand pe g allow ((KIdent, f) :: (KLParen, t2) :: x)
  = bindr (mapr (ECall (upper_name f)) (parse_seq pe g is_rparen x)) (fun c r =>
      if starts_path r then with_path pe g c r
      else match r with
           | (KQuestion, _) :: r' => POk (ESuppress c) r'
           | _ => POk c r
           end).
Proof. reflexivity. Qed.

(* for the other operand shapes parse_operand and primary do the same *)
Lemma operand_eq_primary : forall extra pe g allow s R,
  match s with
  | EInt _ => allow = true
  | EVar _ | EParam _ | EArr _ | EObj _ => True
  | ERange _ _ => allow = false
  | EMember (ECall _ _) _ => False
  | EMember _ _ => True
  | _ => False
  end ->
  printable s = true -> opfollow R ->
  parse_operand pe g allow (body extra s ++ R) = primary ch pe false g (body extra s ++ R).
Proof.
  intros extra pe g allow s R Hs P (Hn & Hsp & Hq & Hr & Hl).
  assert (Hint : forall z R', int_ok z = true ->
            (allow = true \/ hd_kind R' = Some KRange) ->
            parse_operand pe g allow (body extra (EInt z) ++ R') = primary ch pe false g (body extra (EInt z) ++ R')).
  { intros z R' Pz Ha. destruct (int_ok_parts z Pz) as [E V]. cbn [body]. rewrite E. cbn [app].
    unfold parse_operand, primary.
    destruct R' as [|[k t] r].
    - destruct Ha as [->|Ha]; [|discriminate]. cbn -[int_value digits range_rhs]. rewrite V. reflexivity.
    - destruct Ha as [->|Ha].
      + destruct k; cbn -[int_value digits range_rhs]; rewrite V; reflexivity.
      + simpl in Ha. inversion Ha; subst. cbn -[int_value digits range_rhs]. rewrite V. reflexivity. }
  assert (Hvar : forall x R', var_ok x = true -> hd_kind R' <> Some KLParen ->
            parse_operand pe g allow (body extra (EVar x) ++ R') = primary ch pe false g (body extra (EVar x) ++ R')).
  { intros x R' Px Hl'. destruct (var_ok_parts x Px) as [Pv _]. cbn [body app]. unfold word_tok, parse_operand, primary.
    rewrite call_start_no2 by (try (apply varname_not_ns; exact Pv); exact Hl').
    destruct (word_kind (runes_of x)); try discriminate; reflexivity. }
  assert (Hpar : forall x R', var_ok x = true ->
            parse_operand pe g allow (body extra (EParam x) ++ R') = primary ch pe false g (body extra (EParam x) ++ R')).
  { intros x R' Px. destruct (var_ok_parts x Px) as [Pv _]. cbn [body app]. unfold word_tok, tk, parse_operand, primary.
    destruct (word_kind (runes_of x)); try discriminate; reflexivity. }
  assert (Harr : forall es R', parse_operand pe g allow (body extra (EArr es) ++ R') = primary ch pe false g (body extra (EArr es) ++ R')).
  { intros es R'. rewrite body_arr. cbn [app]. unfold tk at 1 3. rewrite primary_lbrack.
    unfold parse_operand.
    assert (E : forall x, is_call_start ((KLBrack, bs "[") :: x) = false).
    { intros x. unfold is_call_start. destruct x as [|[k2 t2] r2]; [reflexivity|]. destruct k2; reflexivity. }
    rewrite E. reflexivity. }
  assert (Hobj : forall ps R', parse_operand pe g allow (body extra (EObj ps) ++ R') = primary ch pe false g (body extra (EObj ps) ++ R')).
  { intros ps R'. rewrite body_obj. cbn [app]. unfold tk at 1 3. rewrite primary_lbrace.
    unfold parse_operand.
    assert (E : forall x, is_call_start ((KLBrace, bs "{") :: x) = false).
    { intros x. unfold is_call_start. destruct x as [|[k2 t2] r2]; [reflexivity|]. destruct k2; reflexivity. }
    rewrite E. reflexivity. }
  destruct s; try contradiction.
  - (* EInt *) apply Hint; [exact P|left; exact Hs].
  - apply Harr.
  - apply Hobj.
  - apply Hvar; [exact P|exact Hl].
  - apply Hpar. exact P.
  - (* ERange *) cbn [printable] in P. apply andb_prop in P. destruct P as [Pa Pb].
    cbn [body]. rewrite <- app_assoc. cbn [app].
    destruct s1; simpl in Pa; try discriminate.
    + apply Hint; [exact Pa|right; reflexivity].
    + apply Hvar; [exact Pa|simpl; congruence].
    + apply Hpar. exact Pa.
  - (* EMember *) cbn [printable] in P. apply andb_prop in P. destruct P as [P Pg]. apply andb_prop in P. destruct P as [P Pn].
    apply andb_prop in P. destruct P as [Pm Ps].
    rewrite body_member. rewrite <- app_assoc.
    assert (HR : starts_path (pr_segs extra path ++ R) = true).
    { apply segs_start. destruct path; [discriminate|congruence]. }
    destruct s; try discriminate; try contradiction.
    + apply Harr.
    + apply Hobj.
    + apply Hvar; [exact Ps|apply starts_path_hd; exact HR].
    + apply Hpar. exact Ps.
Qed.

Section RTF.
  Variable extra : expr -> bool.
  Local Notation bodyx := (body extra).
  Local Notation prx := (pr extra).
  Local Notation GoodAt := (GoodAt extra).
  Local Notation GoodFor := (GoodFor extra).

  Variable n : nat.
  Hypothesis IH : forall e, size e <= n -> printable e = true -> GoodAt e.
  Hypothesis IHF : forall q, size_for q <= n -> printable_for q = true -> GoodFor q.

  Lemma expr_at : forall e T f, size e <= n -> printable e = true -> ctx_ok false 0 1 T ->
    64 * size e + 16 <= f -> parse_at ch f false 1 (prx 1 e ++ T) = POk e T.
  Proof.
    intros e T f He Pe Hc Hf.
    apply (goodpr_of_good extra e Pe (IH e He Pe) false 1 1 T 0 f); auto; try discriminate; try lia.
    unfold need. lia.
  Qed.

  Lemma sum_size_in : forall (es : list expr) x, In x es -> size x <= sum_size es.
  Proof. intros es x H. apply size_in. exact H. Qed.

  Lemma operand_good : forall (allow : bool) (s : expr) (R : toks) (f g : nat),
    (if allow then limit_ok s else source_ok s) = true -> size s <= n -> printable s = true ->
    opfollow R -> 64 * size s + 80 <= f -> size s < g ->
    parse_operand (parse_at ch f) g allow (bodyx s ++ R) = POk s R.
  Proof.
    intros allow s R f g Hok Hs P HR Hf Hg.
    pose proof HR as (Hn & Hsp & Hq & Hr & Hl).
    destruct g as [|g']; [lia|].
    destruct s; try (destruct allow; discriminate).
    - (* EInt *) destruct allow; [|discriminate].
      rewrite (operand_eq_primary extra) by (first [assumption | reflexivity | exact I | (destruct allow; exact I)]).
      destruct (int_ok_parts z P) as [E V]. cbn [body]. rewrite E. cbn [app]. apply primary_int; assumption.
    - (* EArr *) destruct allow; [discriminate|].
      rewrite (operand_eq_primary extra) by (first [assumption | reflexivity | exact I | (destruct allow; exact I)]).
      simpl in P. change (size (EArr es)) with (S (sum_size es)) in *. pose proof (len_le_sum es).
      rewrite (arr_pre extra n IH); try lia.
      + apply with_path_none. exact Hn.
      + apply all_ok_of; [exact P|lia].
    - (* EObj *) destruct allow; [discriminate|].
      rewrite (operand_eq_primary extra) by (first [assumption | reflexivity | exact I | (destruct allow; exact I)]).
      simpl in P. change (size (EObj ps)) with (S (sum_by size_prop ps)) in *. pose proof (len_le_props ps).
      rewrite (obj_pre extra n IH); try lia.
      + apply with_path_none. exact Hn.
      + intros q Hq'. split.
        * assert (size_prop q <= sum_by size_prop ps).
          { clear - Hq'. induction ps as [|y ps IHps]; [destruct Hq'|].
            unfold sum_by in *. simpl. destruct Hq' as [->|Hq']; [lia|]. specialize (IHps Hq'). lia. }
          lia.
        * rewrite forallb_forall in P. apply P. exact Hq'.
    - (* EVar *) rewrite (operand_eq_primary extra) by (first [assumption | reflexivity | exact I | (destruct allow; exact I)]).
      cbn [body app]. unfold word_tok. apply primary_var; [apply (var_ok_parts x P)|exact Hn].
    - (* EParam *) rewrite (operand_eq_primary extra) by (first [assumption | reflexivity | exact I | (destruct allow; exact I)]).
      cbn [body app]. unfold word_tok, tk. apply primary_param; [apply (var_ok_parts x P)|exact Hn].
    - (* ERange *) destruct allow; [discriminate|].
      rewrite (operand_eq_primary extra) by (first [assumption | reflexivity | exact I | (destruct allow; exact I)]).
      cbn [printable] in P. apply andb_prop in P. destruct P as [Pa Pb].
      cbn [body]. rewrite <- app_assoc. cbn [app]. apply primary_range; assumption.
    - (* EMember *)
      pose proof P as P0.
      cbn [printable] in P. apply andb_prop in P. destruct P as [P Pg]. apply andb_prop in P. destruct P as [P Pn].
      apply andb_prop in P. destruct P as [Pm Ps].
      assert (Hne : path <> []) by (destruct path; [discriminate|congruence]).
      rewrite (size_member s path Hne) in *.
      pose proof (len_le_segs path) as Hlp. pose proof (size_pos s) as Hsp'.
      assert (Hok' : segs_ok n path).
      { intros x Hx. split.
        - assert (size_seg x <= sum_by size_seg path).
          { clear - Hx. induction path as [|y p IHp]; [destruct Hx|].
            unfold sum_by in *. simpl. destruct Hx as [->|Hx]; [lia|]. specialize (IHp Hx). lia. }
          lia.
        - rewrite forallb_forall in Pg. apply Pg. exact Hx. }
      assert (Hpath : parse_path (parse_at ch f) (S g') (pr_segs extra path ++ R) = POk path R).
      { apply (path_good extra n IH path Hok' R f (S g')); auto; lia. }
      assert (HRs : starts_path (pr_segs extra path ++ R) = true) by (apply segs_start; exact Hne).
      destruct s; try discriminate.
      + (* EArr *) rewrite (operand_eq_primary extra) by (first [assumption | reflexivity | exact I | (destruct allow; exact I)]).
        rewrite body_member. rewrite <- app_assoc.
        simpl in Ps. change (size (EArr es)) with (S (sum_size es)) in *. pose proof (len_le_sum es).
        rewrite (arr_pre extra n IH); try lia.
        * apply with_path_good; assumption.
        * apply all_ok_of; [exact Ps|lia].
      + (* EObj *) rewrite (operand_eq_primary extra) by (first [assumption | reflexivity | exact I | (destruct allow; exact I)]).
        rewrite body_member. rewrite <- app_assoc.
        simpl in Ps. change (size (EObj ps)) with (S (sum_by size_prop ps)) in *. pose proof (len_le_props ps).
        rewrite (obj_pre extra n IH); try lia.
        * apply with_path_good; assumption.
        * intros q Hq'. split.
          -- assert (size_prop q <= sum_by size_prop ps).
             { clear - Hq'. induction ps as [|y ps IHps]; [destruct Hq'|].
               unfold sum_by in *. simpl. destruct Hq' as [->|Hq']; [lia|]. specialize (IHps Hq'). lia. }
             lia.
          -- rewrite forallb_forall in Ps. apply Ps. exact Hq'.
      + (* EVar *) rewrite (operand_eq_primary extra) by (first [assumption | reflexivity | exact I | (destruct allow; exact I)]).
        rewrite body_member. rewrite <- app_assoc.
        rewrite var_pre; auto. apply with_path_good; assumption.
      + (* EParam *) rewrite (operand_eq_primary extra) by (first [assumption | reflexivity | exact I | (destruct allow; exact I)]).
        rewrite body_member. rewrite <- app_assoc.
        rewrite param_pre; auto. apply with_path_good; assumption.
      + (* ECall *) rewrite body_member. rewrite <- app_assoc.
        simpl in Ps. apply andb_prop in Ps. destruct Ps as [Pc Pa].
        change (size (ECall f0 args)) with (S (sum_size args)) in *. pose proof (len_le_sum args).
        destruct (call_parts f0 Pc) as [Hk _].
        rewrite body_call. unfold word_tok, LP, RP, tk. rewrite Hk. cbn [app]. rewrite operand_call.
        rewrite <- app_assoc. cbn [app].
        pose proof (call_parsed extra n IH f0 args (pr_segs extra path ++ R) f (S g') Pc) as Hp.
        unfold RP, tk in Hp.
        match goal with |- bindr ?X _ = _ =>
          replace X with (POk (ECall f0 args) (pr_segs extra path ++ R))
            by (symmetry; apply Hp; [apply all_ok_of; [exact Pa|lia]|lia|lia]) end.
        rewrite bindr_ok. rewrite HRs. apply with_path_good; assumption.
    - (* ECall *)
      simpl in P. apply andb_prop in P. destruct P as [Pc Pa].
      change (size (ECall f0 args)) with (S (sum_size args)) in *. pose proof (len_le_sum args).
      destruct (call_parts f0 Pc) as [Hk _].
      rewrite body_call. unfold word_tok, LP, RP, tk. rewrite Hk. cbn [app]. rewrite operand_call.
      rewrite <- app_assoc. cbn [app].
      pose proof (call_parsed extra n IH f0 args R f (S g') Pc) as Hp.
      unfold RP, tk in Hp.
      match goal with |- bindr ?X _ = _ =>
        replace X with (POk (ECall f0 args) R)
          by (symmetry; apply Hp; [apply all_ok_of; [exact Pa|lia]|lia|lia]) end.
      rewrite bindr_ok. rewrite Hsp.
      destruct R as [|[k t] r]; [reflexivity|]. destruct k; try reflexivity. simpl in Hq. congruence.
  Qed.
End RTF.

(* keywords that may follow an expression inside SORT / COLLECT *)
Definition after_expr_kw (k : kind) : bool :=
  match k with KSortDir | KInto | KWith | KAggregate => true | _ => false end.
Lemma ctx_after_kw : forall k t r, after_expr_kw k = true -> ctx_ok false 0 1 ((k, t) :: r).
Proof.
  intros k t r H. destruct k; try discriminate; (split; [|split]; try exact I;
    intros l _; destruct l as [|[|[|[|[|[|[|[|[|[|[|[|l]]]]]]]]]]]]; simpl; try reflexivity; try congruence; exact I).
Qed.
Definition gfollow (T : toks) : Prop :=
  exists k t r, T = (k, t) :: r /\ (cstart k = true \/ after_expr_kw k = true).
Lemma gfollow_ctx : forall T, gfollow T -> ctx_ok false 0 1 T.
Proof.
  intros T (k & t & r & -> & [H|H]).
  - apply cstarts_ctx. exists k, t, r. split; [reflexivity|exact H].
  - apply ctx_after_kw. exact H.
Qed.
Lemma cstarts_gfollow : forall T, cstarts T -> gfollow T.
Proof. intros T (k & t & r & -> & H). exists k, t, r. split; [reflexivity|left; exact H]. Qed.

Lemma desc_true : bytes_eqb (upper_name (bs "DESC")) (bs "DESC") = true.
Proof. reflexivity. Qed.

Lemma parse_call_ident : forall pe g f t x,
  parse_call pe g ((KIdent, f) :: (KLParen, t) :: x)
  = mapr (ECall (upper_name f)) (parse_seq pe g is_rparen x).
Proof. reflexivity. Qed.

Lemma ident_ok_kind : forall x, ident_ok x = true -> word_kind (runes_of x) = KIdent.
Proof. intros x H. unfold ident_ok in H. destruct (word_kind (runes_of x)); try discriminate; reflexivity. Qed.

Section RTF2.
  Variable extra : expr -> bool.
  Local Notation bodyx := (body extra).
  Local Notation prx := (pr extra).
  Local Notation GoodAt := (GoodAt extra).
  Local Notation GoodFor := (GoodFor extra).

  Variable n : nat.
  Hypothesis IH : forall e, size e <= n -> printable e = true -> GoodAt e.
  Hypothesis IHF : forall q, size_for q <= n -> printable_for q = true -> GoodFor q.

  Local Notation expr_at := (expr_at extra n IH).

  Definition keys_ok (ks : list (expr * bool)) : Prop :=
    forall kd, In kd ks -> size (fst kd) <= n /\ printable (fst kd) = true.

  Lemma sort_good : forall ks T f g,
    ks <> [] -> keys_ok ks -> cstarts T ->
    64 * sum_by (fun kd => size (fst kd)) ks + 16 <= f -> List.length ks < g ->
    parse_sort (parse_at ch f) g (pr_sort extra ks ++ T) = POk ks T.
  Proof.
    induction ks as [|[e d] ks IHks]; intros T f g Hne Hok HT Hf Hg; [congruence|].
    destruct g; [simpl in Hg; lia|].
    destruct (Hok (e, d) (or_introl eq_refl)) as [He Pe]. cbn [fst] in He, Pe.
    assert (HfE : 64 * size e + 16 <= f) by (unfold sum_by in Hf; simpl in Hf; lia).
    destruct ks as [|kd2 ks'].
    - cbn [pr_sort]. rewrite <- app_assoc. cbn [parse_sort].
      destruct HT as (k & t & r & -> & Hk).
      destruct d; cbn [app].
      + rewrite expr_at; auto; [|apply ctx_after_kw; reflexivity].
        unfold tk. cbn [bindr]. rewrite desc_true.
        destruct k; try discriminate; reflexivity.
      + rewrite expr_at; auto; [|apply cstarts_ctx; exists k, t, r; auto].
        destruct k; try discriminate; reflexivity.
    - change (pr_sort extra ((e, d) :: kd2 :: ks'))
        with (prx 1 e ++ (if d then [tk KSortDir "DESC"] else []) ++ COMMA :: pr_sort extra (kd2 :: ks')).
      rewrite <- !app_assoc. cbn [parse_sort].
      assert (IHt : parse_sort (parse_at ch f) g (pr_sort extra (kd2 :: ks') ++ T) = POk (kd2 :: ks') T).
      { apply IHks; auto; try discriminate.
        - intros z Hz. apply Hok. right. exact Hz.
        - unfold sum_by in *. simpl in *. lia.
        - simpl in *. lia. }
      destruct d; cbn [app].
      + rewrite expr_at; auto; [|apply ctx_after_kw; reflexivity].
        unfold tk, COMMA. cbn [bindr]. rewrite desc_true. unfold tk. rewrite IHt. reflexivity.
      + rewrite expr_at; auto; [|apply ctx_closer; reflexivity].
        unfold COMMA, tk. cbn [bindr]. rewrite IHt. reflexivity.
  Qed.

  Definition groups_ok (gs : list (name * expr)) : Prop :=
    forall g, In g gs -> ident_ok (fst g) = true /\ size (snd g) <= n /\ printable (snd g) = true.

  Lemma groups_good : forall gs T f g,
    gs <> [] -> groups_ok gs -> gfollow T ->
    64 * sum_by (fun x => size (snd x)) gs + 16 <= f -> List.length gs < g ->
    parse_groups (parse_at ch f) g (pr_groups extra gs ++ T) = POk gs T.
  Proof.
    induction gs as [|[x e] gs IHgs]; intros T f g Hne Hok HT Hf Hg; [congruence|].
    destruct g; [simpl in Hg; lia|].
    destruct (Hok (x, e) (or_introl eq_refl)) as (Hx & He & Pe). cbn [fst snd] in *.
    assert (HfE : 64 * size e + 16 <= f) by (unfold sum_by in Hf; simpl in Hf; lia).
    destruct gs as [|g2 gs'].
    - cbn [pr_groups app]. unfold word_tok, tk. rewrite (ident_ok_kind x Hx). cbn [parse_groups].
      rewrite expr_at; auto; [|apply gfollow_ctx; exact HT].
      destruct HT as (k & t & r & -> & [Hk|Hk]); destruct k; try discriminate; reflexivity.
    - change (pr_groups extra ((x, e) :: g2 :: gs'))
        with (word_tok x :: tk KAssign "=" :: prx 1 e ++ COMMA :: pr_groups extra (g2 :: gs')).
      cbn [app]. rewrite <- app_assoc. cbn [app].
      unfold word_tok, tk. rewrite (ident_ok_kind x Hx). cbn [parse_groups].
      rewrite expr_at; auto; [|apply ctx_closer; reflexivity].
      unfold COMMA, tk. cbn [bindr].
      rewrite IHgs; auto; try discriminate.
      + intros z Hz. apply Hok. right. exact Hz.
      + unfold sum_by in *. simpl in *. lia.
      + simpl in *. lia.
  Qed.

  Definition aggrs_ok (ss : list (name * name * list expr)) : Prop :=
    forall a, In a ss -> ident_ok (fst (fst a)) = true /\ call_ok (snd (fst a)) = true
                         /\ all_ok n (snd a) .

  Definition aggr_size (ss : list (name * name * list expr)) : nat :=
    sum_by (fun a => S (sum_size (snd a))) ss.

  Lemma aggrs_good : forall ss T f g,
    ss <> [] -> aggrs_ok ss -> cstarts T -> 64 * aggr_size ss + 16 <= f -> aggr_size ss < g ->
    parse_aggrs (parse_at ch f) g (pr_aggrs extra ss ++ T) = POk ss T.
  Proof.
    induction ss as [|[[x fn] args] ss IHss]; intros T f g Hne Hok HT Hf Hg; [congruence|].
    destruct g; [lia|].
    destruct (Hok (x, fn, args) (or_introl eq_refl)) as (Hx & Hfn & Hall). cbn [fst snd] in *.
    destruct (call_parts fn Hfn) as [Hk _].
    pose proof (len_le_sum args) as Hlen.
    assert (Hsz : aggr_size ((x, fn, args) :: ss) = S (sum_size args) + aggr_size ss) by reflexivity.
    cbn [pr_aggrs]. unfold word_tok, LP, RP, tk. rewrite (ident_ok_kind x Hx), Hk.
    cbn [app]. rewrite <- app_assoc. cbn [app parse_aggrs]. rewrite parse_call_ident.
    destruct ss as [|a2 ss'].
    - cbn [app].
      pose proof (call_parsed extra n IH fn args T f (S g) Hfn Hall) as Hp. unfold RP, tk in Hp.
      match goal with |- bindr ?X _ = _ =>
        replace X with (POk (ECall fn args) T) by (symmetry; apply Hp; lia) end.
      rewrite bindr_ok.
      destruct HT as (k & t & r & -> & Hkk). destruct k; try discriminate; reflexivity.
    - cbn [app].
      pose proof (call_parsed extra n IH fn args (COMMA :: pr_aggrs extra (a2 :: ss') ++ T) f (S g) Hfn Hall) as Hp.
      unfold RP, COMMA, tk in Hp. unfold COMMA, tk.
      match goal with |- bindr ?X _ = _ =>
        replace X with (POk (ECall fn args) ((KComma, bs ",") :: pr_aggrs extra (a2 :: ss') ++ T))
          by (symmetry; apply Hp; lia) end.
      rewrite bindr_ok.
      rewrite IHss; auto; try discriminate.
      + intros z Hz. apply Hok. right. exact Hz.
      + rewrite Hsz in Hf. lia.
      + rewrite Hsz in Hg. lia.
  Qed.
End RTF2.

(* the equations of parse_clauses / parse_for on their first tokens *)
Definition consc (c : fclause) (br : list fclause * fret) : list fclause * fret := (c :: fst br, snd br).

Lemma pc_return : forall pe g t r,
  parse_clauses pe (S g) ((KReturn, t) :: r)
  = mapr (fun de => ([], RReturn (fst de) (snd de))) (parse_return pe r).
Proof. reflexivity. Qed.
Lemma pc_for : forall pe g t r,
  parse_clauses pe (S g) ((KFor, t) :: r) = mapr (fun q => ([], RFor q)) (parse_for pe g r).
Proof. reflexivity. Qed.
Lemma pc_let : forall pe g t k x a r,
  parse_clauses pe (S g) ((KLet, t) :: (k, x) :: (KAssign, a) :: r)
  = if is_varname k || is_loopvar k
    then bindr (pe false 1 r) (fun e r' => mapr (consc (CLet x e)) (parse_clauses pe g r'))
    else PFail.
Proof.
  intros. cbn [parse_clauses parse_let]. destruct (is_varname k || is_loopvar k); [|reflexivity].
  destruct (pe false 1 r); reflexivity.
Qed.
Lemma pc_filter : forall pe g t r,
  parse_clauses pe (S g) ((KFilter, t) :: r)
  = bindr (pe false 1 r) (fun e r' => mapr (consc (CFilter e)) (parse_clauses pe g r')).
Proof. reflexivity. Qed.
Lemma pc_sort : forall pe g t r,
  parse_clauses pe (S g) ((KSort, t) :: r)
  = bindr (parse_sort pe (S g) r) (fun ks r' => mapr (consc (CSort ks)) (parse_clauses pe g r')).
Proof. reflexivity. Qed.
Lemma pc_limit : forall pe g t r,
  parse_clauses pe (S g) ((KLimit, t) :: r)
  = bindr (parse_limit pe (S g) r) (fun c r' => mapr (consc c) (parse_clauses pe g r')).
Proof. reflexivity. Qed.
Lemma pc_collect : forall pe g t r,
  parse_clauses pe (S g) ((KCollect, t) :: r)
  = bindr (parse_collect pe (S g) r) (fun c r' => mapr (consc c) (parse_clauses pe g r')).
Proof. reflexivity. Qed.
Lemma pc_call : forall pe g f t x,
  parse_clauses pe (S g) ((KIdent, f) :: (KLParen, t) :: x)
  = bindr (call_stmt pe (S g) ((KIdent, f) :: (KLParen, t) :: x))
      (fun c r' => mapr (consc (CCall c)) (parse_clauses pe g r')).
Proof. reflexivity. Qed.

Lemma pf_in2 : forall pe g v c k i r,
  parse_for pe (S g) ((KIdent, v) :: (KComma, c) :: (KIdent, k) :: (KIn, i) :: r)
  = bindr (parse_operand pe (S g) false r) (fun src r' =>
      mapr (fun br => ForIn v (Some k) src (fst br) (snd br)) (parse_clauses pe g r')).
Proof. reflexivity. Qed.
Lemma pf_in1 : forall pe g v i r,
  parse_for pe (S g) ((KIdent, v) :: (KIn, i) :: r)
  = bindr (parse_operand pe (S g) false r) (fun src r' =>
      mapr (fun br => ForIn v None src (fst br) (snd br)) (parse_clauses pe g r')).
Proof. reflexivity. Qed.
Lemma pf_dowhile : forall pe g v d w r,
  parse_for pe (S g) ((KIdent, v) :: (KDo, d) :: (KWhile, w) :: r)
  = bindr (pe false 1 r) (fun c r' =>
      mapr (fun br => ForWhile v true c (fst br) (snd br)) (parse_clauses pe g r')).
Proof. reflexivity. Qed.
Lemma pf_while : forall pe g v w r,
  parse_for pe (S g) ((KIdent, v) :: (KWhile, w) :: r)
  = bindr (pe false 1 r) (fun c r' =>
      mapr (fun br => ForWhile v false c (fst br) (snd br)) (parse_clauses pe g r')).
Proof. reflexivity. Qed.

Lemma pr_ctail_into : forall extra x p,
  pr_ctail extra (CTInto x p)
  = tk KInto "INTO" :: word_tok x :: match p with Some e => tk KAssign "=" :: pr extra 1 e | None => [] end.
Proof. reflexivity. Qed.
Lemma pr_ctail_count : forall extra x,
  pr_ctail extra (CTCount x) = [tk KWith "WITH"; tk KCount "COUNT"; tk KInto "INTO"; word_tok x].
Proof. reflexivity. Qed.
Lemma pr_ctail_none : forall extra, pr_ctail extra CTNone = [].
Proof. reflexivity. Qed.

Lemma size_ctail_aggr : forall ss, size_ctail (CTAggr ss) = S (aggr_size ss).
Proof. reflexivity. Qed.

Lemma sum_by_in : forall A (f : A -> nat) l x, In x l -> f x <= sum_by f l.
Proof.
  intros A f l x H. induction l as [|y l IHl]; [destruct H|].
  unfold sum_by in *. simpl. destruct H as [->|H]; [lia|]. specialize (IHl H). lia.
Qed.

Section RTF3.
  Variable extra : expr -> bool.
  Local Notation bodyx := (body extra).
  Local Notation prx := (pr extra).
  Local Notation GoodAt := (GoodAt extra).
  Local Notation GoodFor := (GoodFor extra).

  Variable n : nat.
  Hypothesis IH : forall e, size e <= n -> printable e = true -> GoodAt e.
  Hypothesis IHF : forall q, size_for q <= n -> printable_for q = true -> GoodFor q.

  Local Notation expr_at := (expr_at extra n IH).

  Lemma ctail_good : forall t T f g,
    size_ctail t <= n -> printable_ctail t = true -> cstarts T ->
    64 * size_ctail t + 16 <= f -> size_ctail t < g ->
    parse_ctail (parse_at ch f) g (pr_ctail extra t ++ T) = POk t T.
  Proof.
    intros t T f g Hs P HT Hf Hg.
    destruct t as [|x p|x|ss]; cbn [printable_ctail] in *.
    - (* CTNone *) rewrite pr_ctail_none. cbn [app]. destruct HT as (k & t & r & -> & Hk).
      destruct k; try discriminate; reflexivity.
    - (* CTInto *) apply andb_prop in P. destruct P as [Px Pp]. cbn [size_ctail] in *.
      rewrite pr_ctail_into. unfold word_tok, tk. rewrite (ident_ok_kind x Px).
      destruct p as [e|].
      + cbn [app parse_ctail]. rewrite expr_at; auto; try lia. apply cstarts_ctx. exact HT.
      + cbn [app]. destruct HT as (k & t & r & -> & Hk).
        destruct k; try discriminate; reflexivity.
    - (* CTCount *) rewrite pr_ctail_count. cbn [app]. unfold word_tok, tk. rewrite (ident_ok_kind x P). reflexivity.
    - (* CTAggr *) apply andb_prop in P. destruct P as [Pn Pa].
      rewrite size_ctail_aggr in *. rewrite pr_ctail_aggr. cbn [app]. unfold tk at 1. cbn [parse_ctail].
      rewrite (aggrs_good extra n IH ss T f g); auto; try lia.
      + destruct ss; [discriminate|congruence].
      + intros a Ha. rewrite forallb_forall in Pa. specialize (Pa a Ha).
        apply andb_prop in Pa. destruct Pa as [Pa P3]. apply andb_prop in Pa. destruct Pa as [P1 P2].
        split; [exact P1|split; [exact P2|]].
        apply all_ok_of; [exact P3|].
        pose proof (sum_by_in _ (fun a => S (sum_size (snd a))) ss a Ha) as Hle.
        unfold aggr_size in Hs. cbn beta in Hle. lia.
  Qed.

  Lemma collect_good : forall gs t T f g,
    size_clause (CCollect gs t) <= n -> printable_clause (CCollect gs t) = true -> cstarts T ->
    64 * size_clause (CCollect gs t) + 16 <= f -> size_clause (CCollect gs t) < g ->
    parse_collect (parse_at ch f) g (pr_groups extra gs ++ pr_ctail extra t ++ T) = POk (CCollect gs t) T.
  Proof.
    intros gs t T f g Hs P HT Hf Hg.
    change (size_clause (CCollect gs t)) with (S (sum_by (fun x => size (snd x)) gs + size_ctail t)) in *.
    cbn [printable_clause] in P. apply andb_prop in P. destruct P as [P Pne]. apply andb_prop in P. destruct P as [Pg Pt].
    assert (Hct : parse_ctail (parse_at ch f) g (pr_ctail extra t ++ T) = POk t T).
    { apply ctail_good; auto; lia. }
    destruct gs as [|[x e] gs'].
    - (* no grouping: WITH COUNT / AGGREGATE *)
      cbn [pr_groups app]. simpl in Pne.
      destruct t as [|x p|x|ss]; try discriminate.
      + rewrite pr_ctail_count in *. cbn [app] in *. unfold word_tok, tk in *.
        cbn [printable_ctail] in Pt. rewrite (ident_ok_kind x Pt) in *.
        unfold parse_collect. rewrite Hct. reflexivity.
      + rewrite pr_ctail_aggr in *. cbn [app] in *. unfold tk at 1. unfold tk at 1 in Hct.
        unfold parse_collect. rewrite Hct. reflexivity.
    - assert (Hgo : groups_ok n ((x, e) :: gs')).
      { intros z Hz. rewrite forallb_forall in Pg. specialize (Pg z Hz).
        apply andb_prop in Pg. destruct Pg as [P1 P2]. repeat split; auto.
        pose proof (sum_by_in _ (fun x => size (snd x)) ((x, e) :: gs') z Hz) as Hle. cbn beta in Hle. lia. }
      assert (Hgf : gfollow (pr_ctail extra t ++ T)).
      { destruct t as [|y p|y|ss].
        - rewrite pr_ctail_none. cbn [app]. apply cstarts_gfollow. exact HT.
        - rewrite pr_ctail_into. eexists KInto, _, _. split; [reflexivity|right; reflexivity].
        - rewrite pr_ctail_count. eexists KWith, _, _. split; [reflexivity|right; reflexivity].
        - rewrite pr_ctail_aggr. eexists KAggregate, _, _. split; [reflexivity|right; reflexivity]. }
      assert (Hlen : List.length ((x, e) :: gs') <= sum_by (fun x => size (snd x)) ((x, e) :: gs')).
      { clear. induction ((x, e) :: gs') as [|y l IHl]; [simpl; lia|].
        unfold sum_by in *. simpl. pose proof (size_pos (snd y)). lia. }
      assert (Hgr : parse_groups (parse_at ch f) g (pr_groups extra ((x, e) :: gs') ++ pr_ctail extra t ++ T)
                    = POk ((x, e) :: gs') (pr_ctail extra t ++ T)).
      { apply (groups_good extra n IH); auto; try discriminate; lia. }
      destruct (Hgo (x, e) (or_introl eq_refl)) as (Hx & _). cbn [fst] in Hx.
      unfold parse_collect.
      assert (Hhd : exists tl, pr_groups extra ((x, e) :: gs') ++ pr_ctail extra t ++ T = (KIdent, x) :: tl).
      { destruct gs'; cbn [pr_groups app]; unfold word_tok; rewrite (ident_ok_kind x Hx); eexists; reflexivity. }
      destruct Hhd as [tl Htl]. rewrite Htl in Hgr |- *. rewrite Hgr.
      rewrite bindr_ok. rewrite Hct. reflexivity.
  Qed.
End RTF3.

Lemma pr_clause_let : forall extra x e,
  pr_clause extra (CLet x e) = tk KLet "LET" :: word_tok x :: tk KAssign "=" :: pr extra 1 e.
Proof. reflexivity. Qed.
Lemma pr_clause_filter : forall extra e, pr_clause extra (CFilter e) = tk KFilter "FILTER" :: pr extra 1 e.
Proof. reflexivity. Qed.
Lemma pr_clause_limit : forall extra o nn,
  pr_clause extra (CLimit o nn)
  = tk KLimit "LIMIT" :: match o with Some a => body extra a ++ [COMMA] | None => [] end ++ body extra nn.
Proof. reflexivity. Qed.
Lemma pr_clause_call : forall extra fn args, pr_clause extra (CCall (ECall fn args)) = body extra (ECall fn args).
Proof. reflexivity. Qed.
Lemma pr_clause_callq : forall extra a,
  pr_clause extra (CCall (ESuppress a)) = body extra a ++ [tk KQuestion "?"].
Proof. reflexivity. Qed.
Lemma pr_ret_return : forall extra d e,
  pr_ret extra (RReturn d e)
  = tk KReturn "RETURN" :: (if d then [tk KDistinct "DISTINCT"] else []) ++ pr extra 1 e.
Proof. reflexivity. Qed.
Lemma pr_ret_for : forall extra q, pr_ret extra (RFor q) = pr_for extra q.
Proof. reflexivity. Qed.

Lemma pr_clause_cstarts : forall extra c tl, printable_clause c = true -> cstarts (pr_clause extra c ++ tl).
Proof.
  intros extra c tl P. destruct c as [x e|e|e|ks|o nn|gs t].
  - rewrite pr_clause_let. eexists KLet, _, _. split; reflexivity.
  - cbn [printable_clause] in P. apply andb_prop in P. destruct P as [Pc Pe].
    destruct e; try discriminate.
    + (* ECall *) rewrite pr_clause_call, body_call. simpl in Pe. apply andb_prop in Pe. destruct Pe as [Pf _].
      unfold call_ok in Pf. apply andb_prop in Pf. destruct Pf as [Pf _].
      unfold word_tok. cbn [app]. destruct (word_kind (runes_of f)); try discriminate.
      eexists KIdent, _, _. split; reflexivity.
    + (* ESuppress *) destruct e; try discriminate. rewrite pr_clause_callq, body_call.
      simpl in Pe. apply andb_prop in Pe. destruct Pe as [Pf _].
      unfold call_ok in Pf. apply andb_prop in Pf. destruct Pf as [Pf _].
      unfold word_tok. cbn [app]. destruct (word_kind (runes_of f)); try discriminate.
      eexists KIdent, _, _. split; reflexivity.
  - rewrite pr_clause_filter. eexists KFilter, _, _. split; reflexivity.
  - rewrite pr_clause_sort. eexists KSort, _, _. split; reflexivity.
  - rewrite pr_clause_limit. eexists KLimit, _, _. split; reflexivity.
  - rewrite pr_clause_collect. eexists KCollect, _, _. split; reflexivity.
Qed.

Lemma pr_ret_cstarts : forall extra r tl, cstarts (pr_ret extra r ++ tl).
Proof.
  intros extra r tl. destruct r as [d e|q].
  - rewrite pr_ret_return. eexists KReturn, _, _. split; reflexivity.
  - rewrite pr_ret_for. destruct q; [rewrite pr_for_in|rewrite pr_for_while]; eexists KFor, _, _; split; reflexivity.
Qed.

Lemma clauses_cstarts : forall extra bd r tl,
  forallb printable_clause bd = true -> cstarts (pr_clauses extra bd ++ pr_ret extra r ++ tl).
Proof.
  intros extra bd r tl P. destruct bd as [|c bd].
  - cbn [pr_clauses app]. apply pr_ret_cstarts.
  - simpl in P. apply andb_prop in P. destruct P as [Pc _].
    cbn [pr_clauses]. rewrite <- app_assoc. apply pr_clause_cstarts. exact Pc.
Qed.

Section RTF4.
  Variable extra : expr -> bool.
  Local Notation bodyx := (body extra).
  Local Notation prx := (pr extra).
  Local Notation GoodAt := (GoodAt extra).
  Local Notation GoodFor := (GoodFor extra).

  Variable n : nat.
  Hypothesis IH : forall e, size e <= n -> printable e = true -> GoodAt e.
  Hypothesis IHF : forall q, size_for q <= n -> printable_for q = true -> GoodFor q.

  Local Notation expr_at := (expr_at extra n IH).
  Local Notation operand_good := (operand_good extra n IH).

  Lemma limit_value_good : forall s R f g,
    limit_ok s = true -> size s <= n -> printable s = true -> opfollow R ->
    64 * size s + 80 <= f -> size s < g ->
    limit_value (parse_at ch f) g (bodyx s ++ R) = POk s R.
  Proof.
    intros s R f g Hl Hs P HR Hf Hg. unfold limit_value.
    rewrite (operand_good true s R f g); auto.
    destruct s; try discriminate; reflexivity.
  Qed.

  Lemma limit_good : forall o nn T f g,
    size_clause (CLimit o nn) <= n -> printable_clause (CLimit o nn) = true -> cstarts T ->
    64 * size_clause (CLimit o nn) + 80 <= f -> size_clause (CLimit o nn) < g ->
    parse_limit (parse_at ch f) g
      (match o with Some a => bodyx a ++ [COMMA] | None => [] end ++ bodyx nn ++ T)
    = POk (CLimit o nn) T.
  Proof.
    intros o nn T f g Hs P HT Hf Hg. cbn [size_clause printable_clause] in *.
    apply andb_prop in P. destruct P as [P Pn]. apply andb_prop in P. destruct P as [Po Pl].
    pose proof (size_pos nn) as Hpn.
    assert (Hn : limit_value (parse_at ch f) g (bodyx nn ++ T) = POk nn T).
    { apply limit_value_good; auto; try lia. apply cstarts_opfollow. exact HT. }
    unfold parse_limit. destruct o as [a|].
    - apply andb_prop in Po. destruct Po as [Pla Pa]. pose proof (size_pos a).
      rewrite <- app_assoc. cbn [app].
      rewrite (limit_value_good a (COMMA :: bodyx nn ++ T) f g); auto; try lia; [|apply comma_opfollow].
      unfold COMMA, tk. cbn [bindr]. rewrite Hn. reflexivity.
    - cbn [app]. rewrite Hn. cbn [bindr].
      destruct HT as (k & t & r & -> & Hk). destruct k; try discriminate; reflexivity.
  Qed.

  (* one clause in front of the rest of the loop body *)
  Lemma clause_one : forall c T f g,
    size_clause c <= n -> printable_clause c = true -> cstarts T ->
    64 * size_clause c + 80 <= f -> size_clause c < g ->
    parse_clauses (parse_at ch f) (S g) (pr_clause extra c ++ T)
    = mapr (consc c) (parse_clauses (parse_at ch f) g T).
  Proof.
    intros c T f g Hs P HT Hf Hg.
    pose proof (cstarts_ctx T HT) as HcT.
    destruct c as [x e|e|e|ks|o nn|gs t].
    - (* LET *) cbn [size_clause printable_clause] in *. apply andb_prop in P. destruct P as [Px Pe].
      rewrite pr_clause_let. cbn [app]. unfold word_tok, tk. rewrite pc_let.
      unfold let_ok in Px. rewrite Px. rewrite expr_at; auto; try lia; try reflexivity.
    - (* call statement *) cbn [size_clause printable_clause] in *. apply andb_prop in P. destruct P as [Pc Pe].
      destruct (cstarts_facts T HT) as (_ & _ & HqT & _).
      destruct e; try discriminate.
      + (* F(...) *) rewrite pr_clause_call, body_call.
        simpl in Pe. apply andb_prop in Pe. destruct Pe as [Pf Pa].
        change (size (ECall f0 args)) with (S (sum_size args)) in *. pose proof (len_le_sum args).
        destruct (call_parts f0 Pf) as [Hk _].
        unfold word_tok, LP, RP, tk. rewrite Hk. cbn [app]. rewrite pc_call.
        rewrite <- app_assoc. cbn [app].
        rewrite (call_stmt_plain _ _ _ (ECall f0 args) T); [reflexivity| |exact HqT].
        rewrite parse_call_ident.
        pose proof (call_parsed extra n IH f0 args T f (S g) Pf) as Hp. unfold RP, tk in Hp.
        apply Hp; try lia. apply all_ok_of; [exact Pa|lia].
      + (* F(...)? *) destruct e; try discriminate. rewrite pr_clause_callq, body_call.
        simpl in Pe. apply andb_prop in Pe. destruct Pe as [Pf Pa].
        change (size (ESuppress (ECall f0 args))) with (S (S (sum_size args))) in *. pose proof (len_le_sum args).
        destruct (call_parts f0 Pf) as [Hk _].
        unfold word_tok, LP, RP, tk. rewrite Hk. cbn [app]. rewrite pc_call.
        rewrite <- !app_assoc. cbn [app].
        rewrite (call_stmt_q _ _ _ (ECall f0 args) (bs "?") T); [reflexivity|].
        rewrite parse_call_ident.
        pose proof (call_parsed extra n IH f0 args ((KQuestion, bs "?") :: T) f (S g) Pf) as Hp. unfold RP, tk in Hp.
        apply Hp; try lia. apply all_ok_of; [exact Pa|lia].
    - (* FILTER *) cbn [size_clause printable_clause] in *.
      rewrite pr_clause_filter. cbn [app]. unfold tk. rewrite pc_filter.
      rewrite expr_at; auto; try lia; try reflexivity.
    - (* SORT *) change (size_clause (CSort ks)) with (S (sum_by (fun kd => size (fst kd)) ks)) in *.
      cbn [printable_clause] in P. apply andb_prop in P. destruct P as [Pn Pk].
      rewrite pr_clause_sort. cbn [app]. unfold tk. rewrite pc_sort.
      assert (Hlen : List.length ks <= sum_by (fun kd => size (fst kd)) ks).
      { clear. induction ks as [|y l IHl]; [simpl; lia|].
        unfold sum_by in *. simpl. pose proof (size_pos (fst y)). lia. }
      rewrite (sort_good extra n IH ks T f (S g)); auto; try lia; try reflexivity.
      + destruct ks; [discriminate|congruence].
      + intros kd Hkd. rewrite forallb_forall in Pk. split; [|apply Pk; exact Hkd].
        pose proof (sum_by_in _ (fun kd => size (fst kd)) ks kd Hkd) as Hle. cbn beta in Hle. lia.
    - (* LIMIT *) rewrite pr_clause_limit. cbn [app]. unfold tk at 1. rewrite pc_limit.
      rewrite <- app_assoc.
      rewrite (limit_good o nn T f (S g)); auto; try lia; try reflexivity.
    - (* COLLECT *) rewrite pr_clause_collect. cbn [app]. unfold tk at 1. rewrite pc_collect.
      rewrite <- app_assoc.
      rewrite (collect_good extra n IH gs t T f (S g)); auto; try lia; try reflexivity.
  Qed.
End RTF4.

Lemma size_clause_pos : forall c, 1 <= size_clause c.
Proof. destruct c; simpl; try lia. apply size_pos. Qed.

Section RTF5.
  Variable extra : expr -> bool.
  Local Notation bodyx := (body extra).
  Local Notation prx := (pr extra).
  Local Notation GoodAt := (GoodAt extra).
  Local Notation GoodFor := (GoodFor extra).

  Variable n : nat.
  Hypothesis IH : forall e, size e <= n -> printable e = true -> GoodAt e.
  Hypothesis IHF : forall q, size_for q <= n -> printable_for q = true -> GoodFor q.

  Local Notation expr_at := (expr_at extra n IH).

  Lemma ret_good : forall r rest f g,
    size_ret r <= n -> printable_ret r = true -> ctx_ok false 0 1 rest ->
    64 * size_ret r + 16 <= f -> size_ret r < g ->
    parse_clauses (parse_at ch f) g (pr_ret extra r ++ rest) = POk ([], r) rest.
  Proof.
    intros r rest f g Hs P Hc Hf Hg. destruct g; [lia|].
    destruct r as [d e|q]; cbn [size_ret printable_ret] in *.
    - rewrite pr_ret_return. cbn [app]. unfold tk at 1. rewrite pc_return. rewrite <- app_assoc.
      destruct (pr_hd_kind extra 1 e rest P) as (k & Hk & Hg' & _).
      destruct d; cbn [app].
      + unfold tk. rewrite (parse_return_distinct _ _ _ k Hk Hg').
        rewrite expr_at; auto; try lia; try reflexivity.
      + rewrite (parse_return_plain _ _ k Hk (good_head_not_distinct k Hg')).
        rewrite expr_at; auto; try lia; try reflexivity.
    - rewrite pr_ret_for. rewrite (pr_for_tail extra). cbn [app]. unfold tk. rewrite pc_for.
      rewrite (IHF q); auto; try lia; try reflexivity.
  Qed.

  Definition clauses_ok (bd : list fclause) : Prop :=
    forall c, In c bd -> size_clause c <= n /\ printable_clause c = true.

  Lemma clauses_good : forall bd r rest f g,
    clauses_ok bd -> size_ret r <= n -> printable_ret r = true -> ctx_ok false 0 1 rest ->
    64 * (sum_by size_clause bd + size_ret r) + 80 <= f -> sum_by size_clause bd + size_ret r < g ->
    parse_clauses (parse_at ch f) g (pr_clauses extra bd ++ pr_ret extra r ++ rest) = POk (bd, r) rest.
  Proof.
    induction bd as [|c bd IHbd]; intros r rest f g Hok Hr Pr Hc Hf Hg.
    - cbn [pr_clauses app]. unfold sum_by in *. simpl in *. apply ret_good; auto; lia.
    - destruct g; [lia|].
      destruct (Hok c (or_introl eq_refl)) as [Hsc Pc].
      assert (Hsum : sum_by size_clause (c :: bd) = size_clause c + sum_by size_clause bd) by reflexivity.
      assert (Hpb : forallb printable_clause bd = true).
      { apply forallb_forall. intros x Hx. apply Hok. right. exact Hx. }
      pose proof (size_clause_pos c) as Hcp. rewrite Hsum in Hf, Hg.
      assert (Hrp : 1 <= size_ret r) by (destruct r; simpl; lia).
      cbn [pr_clauses]. rewrite <- app_assoc.
      rewrite (clause_one extra n IH); auto; try lia.
      + rewrite IHbd; auto; try lia; try reflexivity. intros x Hx. apply Hok. right. exact Hx.
      + apply clauses_cstarts. exact Hpb.
  Qed.

  (* a loop whose parts are within the induction bound *)
  Lemma for_good : forall q, size_for q <= S n -> printable_for q = true -> GoodFor q.
  Proof.
    intros q Hs P rest f g Hc Hf Hg. destruct g; [lia|].
    destruct q as [v k s bd r|v d c bd r]; cbn [size_for printable_for] in *;
      fold (sum_by size_clause bd) in *.
    - apply andb_prop in P. destruct P as [P Pr]. apply andb_prop in P. destruct P as [P Pb].
      apply andb_prop in P. destruct P as [P Ps]. apply andb_prop in P. destruct P as [P Pso].
      apply andb_prop in P. destruct P as [Pv Pk].
      pose proof (size_pos s) as Hps.
      assert (Hok : clauses_ok bd).
      { intros x Hx. split; [|rewrite forallb_forall in Pb; apply Pb; exact Hx].
        pose proof (sum_by_in _ size_clause bd x Hx). lia. }
      assert (Hcl : parse_clauses (parse_at ch f) g (pr_clauses extra bd ++ pr_ret extra r ++ rest) = POk (bd, r) rest).
      { apply clauses_good; auto; lia. }
      assert (Hsrc : parse_operand (parse_at ch f) (S g) false
                       (bodyx s ++ pr_clauses extra bd ++ pr_ret extra r ++ rest)
                     = POk s (pr_clauses extra bd ++ pr_ret extra r ++ rest)).
      { apply (operand_good extra n IH false); auto; try lia.
        apply cstarts_opfollow. apply clauses_cstarts. exact Pb. }
      unfold for_tail. rewrite pr_for_in. cbn [tl].
      unfold word_tok. rewrite (ident_ok_kind v Pv).
      destruct k as [k'|].
      + unfold COMMA, tk. rewrite (ident_ok_kind k' Pk). cbn [app]. rewrite <- !app_assoc.
        rewrite pf_in2. rewrite Hsrc. cbn [bindr]. rewrite Hcl. reflexivity.
      + unfold tk. cbn [app]. rewrite <- !app_assoc.
        rewrite pf_in1. rewrite Hsrc. cbn [bindr]. rewrite Hcl. reflexivity.
    - apply andb_prop in P. destruct P as [P Pr]. apply andb_prop in P. destruct P as [P Pb].
      apply andb_prop in P. destruct P as [Pv Pc].
      pose proof (size_pos c) as Hpc.
      assert (Hok : clauses_ok bd).
      { intros x Hx. split; [|rewrite forallb_forall in Pb; apply Pb; exact Hx].
        pose proof (sum_by_in _ size_clause bd x Hx). lia. }
      assert (Hcl : parse_clauses (parse_at ch f) g (pr_clauses extra bd ++ pr_ret extra r ++ rest) = POk (bd, r) rest).
      { apply clauses_good; auto; lia. }
      assert (Hce : parse_at ch f false 1 (prx 1 c ++ pr_clauses extra bd ++ pr_ret extra r ++ rest)
                    = POk c (pr_clauses extra bd ++ pr_ret extra r ++ rest)).
      { apply expr_at; auto; try lia. apply cstarts_ctx. apply clauses_cstarts. exact Pb. }
      unfold for_tail. rewrite pr_for_while. cbn [tl].
      unfold word_tok. rewrite (ident_ok_kind v Pv).
      destruct d; unfold tk; cbn [app]; rewrite <- !app_assoc.
      + rewrite pf_dowhile. rewrite Hce. cbn [bindr]. rewrite Hcl. reflexivity.
      + rewrite pf_while. rewrite Hce. cbn [bindr]. rewrite Hcl. reflexivity.
  Qed.
End RTF5.

(* ------------------------------------------------ the theorem *)
Lemma good_step : forall extra n,
  (forall e, size e <= n -> printable e = true -> GoodAt extra e) ->
  (forall q, size_for q <= n -> printable_for q = true -> GoodFor extra q) ->
  forall e, size e <= S n -> printable e = true -> GoodAt extra e.
Proof.
  intros extra n IHn IHF e Hs P.
  destruct e; simpl in P; try discriminate.
  - apply good_none.
  - apply good_bool.
  - apply good_int; exact P.
  - apply good_str; exact P.
  - (* EArr *) apply (good_arr extra n IHn). apply all_ok_of; [exact P|].
    change (size (EArr es)) with (S (sum_size es)) in Hs. lia.
  - (* EObj *) apply (good_obj extra n IHn). intros q Hq. split.
    + change (size (EObj ps)) with (S (sum_by size_prop ps)) in Hs.
      pose proof (sum_by_in _ size_prop ps q Hq). lia.
    + rewrite forallb_forall in P. apply P. exact Hq.
  - apply good_var; exact P.
  - apply good_param; exact P.
  - (* EUn *) simpl in Hs. apply (good_un extra n IHn); [lia|exact P].
  - (* ELog *) destruct o; eapply (good_bin extra n IHn); try reflexivity; auto.
  - (* ECond *)
    apply andb_prop in P. destruct P as [P P3]. apply andb_prop in P. destruct P as [P1 P2].
    simpl in Hs. apply (good_cond extra n IHn); auto; try lia.
    destruct t; cbn [opt_ok]; [split; [lia|exact P2]|exact I].
  - eapply (good_bin extra n IHn); try reflexivity; auto.
  - eapply (good_bin extra n IHn); try reflexivity; auto.
  - eapply (good_bin extra n IHn); try reflexivity; auto.
  - eapply (good_bin extra n IHn); try reflexivity; auto.
  - eapply (good_bin extra n IHn); try reflexivity; auto.
  - eapply (good_bin extra n IHn); try reflexivity; auto.
  - (* ERange *) apply andb_prop in P. destruct P as [Pa Pb]. apply good_range; assumption.
  - (* EMember *) apply andb_prop in P. destruct P as [P Pg]. apply andb_prop in P. destruct P as [P Pn].
    apply andb_prop in P. destruct P as [Pm Ps].
    assert (Hne : path <> []) by (destruct path; [discriminate|congruence]).
    rewrite (size_member e path Hne) in Hs.
    apply (good_member extra n IHn); auto; try lia.
    intros x Hx. split; [|rewrite forallb_forall in Pg; apply Pg; exact Hx].
    pose proof (sum_by_in _ size_seg path x Hx). lia.
  - (* ECall *) apply andb_prop in P. destruct P as [Pc Pa].
    apply (good_call extra n IHn); [exact Pc|]. apply all_ok_of; [exact Pa|].
    change (size (ECall f args)) with (S (sum_size args)) in Hs. lia.
  - (* ESuppress *) simpl in Hs. apply (good_suppress extra n IHn); [lia|exact P].
  - (* ESub *) simpl in Hs. apply good_sub. apply IHF; [lia|exact P].
Qed.

Lemma size_for_pos : forall q, 1 <= size_for q.
Proof. destruct q; simpl; lia. Qed.

Theorem good_joint : forall extra n,
  (forall e, size e <= n -> printable e = true -> GoodAt extra e) /\
  (forall q, size_for q <= n -> printable_for q = true -> GoodFor extra q).
Proof.
  intros extra. induction n as [|n [IHe IHf]].
  - split; [intros e Hs; pose proof (size_pos e); lia|intros q Hs; pose proof (size_for_pos q); lia].
  - split.
    + apply good_step; assumption.
    + apply for_good; assumption.
Qed.

Theorem good_all : forall extra n e, size e <= n -> printable e = true -> GoodAt extra e.
Proof. intros extra n. apply (proj1 (good_joint extra n)). Qed.
Theorem good_for_all : forall extra q, printable_for q = true -> GoodFor extra q.
Proof. intros extra q. apply (proj2 (good_joint extra (size_for q))). apply le_n. Qed.

Lemma ctx_nil : forall tb B lv, ctx_ok tb B lv [].
Proof.
  intros. split; [|split]; try exact I.
  intros l _. destruct l as [|[|[|[|[|[|[|[|[|[|[|[|l]]]]]]]]]]]]; simpl; try reflexivity; try congruence; exact I.
Qed.

(* the parser inverts the printer, with minimal or with redundant parentheses
   ([extra] chooses where), for every continuation [rest] that cannot extend
   the expression, and with any fuel above a bound linear in the size *)
Theorem parse_print_gen : forall extra e rest f,
  printable e = true -> ctx_ok false 0 1 rest -> 64 * size e + 16 <= f ->
  parse_at ch f false 1 (pr extra 1 e ++ rest) = POk e rest.
Proof.
  intros extra e rest f P Hc Hf.
  apply (goodpr_of_good extra e P (good_all extra (size e) e (le_n _) P) false 1 1 rest 0 f);
    auto; try lia; try discriminate.
  unfold need. lia.
Qed.

Theorem parse_print_expr_fuel : forall e f,
  printable e = true -> 64 * size e + 16 <= f ->
  parse_at ch f false 1 (print_expr e) = POk e [].
Proof.
  intros e f P Hf. unfold print_expr.
  rewrite <- (app_nil_r (pr no_extra 1 e)).
  apply parse_print_gen; auto. apply ctx_nil.
Qed.

Theorem parse_parens_fuel : forall extra e f,
  printable e = true -> 64 * size e + 16 <= f ->
  parse_at ch f false 1 (pr extra 1 e) = parse_at ch f false 1 (print_expr e).
Proof.
  intros extra e f P Hf. rewrite parse_print_expr_fuel by assumption.
  rewrite <- (app_nil_r (pr extra 1 e)).
  apply parse_print_gen; auto. apply ctx_nil.
Qed.

(* RETURN e as a program *)
Definition ret_prog (e : expr) : program := {| p_stmts := []; p_ret := BReturn e |}.
Definition ret_toks (extra : expr -> bool) (e : expr) : toks := tk KReturn "RETURN" :: pr extra 1 e.

Theorem return_prefix : forall extra e s f g,
  printable e = true -> hd_kind (pr extra 1 e ++ s) <> Some KDistinct ->
  ctx_ok false 0 1 s -> 64 * size e + 16 <= f ->
  parse_body (parse_at ch f) (S g) (ret_toks extra e ++ s) = POk (ret_prog e) s.
Proof.
  intros extra e s f g P Hd Hc Hf. unfold ret_toks, tk. cbn [app parse_body].
  destruct (pr_hd_kind extra 1 e s P) as (k & Hk & _).
  rewrite (parse_return_plain _ _ k Hk) by (intros ->; congruence).
  rewrite parse_print_gen by assumption. reflexivity.
Qed.

(* ---------------- the fuel [fuel_for] gives is always enough *)
Lemma len_wrap : forall b ts, List.length ts <= List.length (wrap b ts).
Proof. intros [] ts; simpl; [rewrite app_length; simpl; lia|lia]. Qed.

Lemma binop_nil : forall L, binop L [] = None.
Proof. intros L. destruct L as [|[|[|[|[|[|[|[|[|[|[|[|L]]]]]]]]]]]]; reflexivity. Qed.

Lemma pr_prop_named : forall extra k e,
  pr_prop extra (PNamed k e)
  = (if is_word_text k then word_tok k else quote_tok k) :: tk KColon ":" :: pr extra 1 e.
Proof. reflexivity. Qed.
Lemma pr_prop_param : forall extra x e,
  pr_prop extra (PComputed (EParam x) e) = tk KParam "@" :: word_tok x :: tk KColon ":" :: pr extra 1 e.
Proof. reflexivity. Qed.

Lemma body_sub : forall extra q, body extra (ESub q) = LP :: pr_for extra q ++ [RP].
Proof. reflexivity. Qed.

Lemma bin_view_body : forall extra e L a b ops mk,
  bin_view e = Some (L, a, b, ops, mk) ->
  body extra e = pr extra L a ++ ops ++ pr extra (S L) b /\ size e = S (size a + size b) /\ 1 <= List.length ops.
Proof.
  intros extra e L a b ops mk V.
  destruct (bin_view_spec extra e L a b ops mk V) as (_ & _ & _ & Hb & Hop & _ & _ & _ & Hsz & _).
  repeat split; auto.
  destruct ops; [|simpl; lia]. specialize (Hop []). simpl in Hop. rewrite binop_nil in Hop. discriminate.
Qed.

Lemma sum_le_concat : forall A (sz : A -> nat) (pr1 : A -> toks) (l : list A),
  (forall x, In x l -> sz x <= List.length (pr1 x)) ->
  sum_by sz l <= List.length (flat_map pr1 l).
Proof.
  intros A sz pr1 l H. induction l as [|x l IHl]; [simpl; lia|].
  unfold sum_by in *. simpl. rewrite app_length.
  pose proof (H x (or_introl eq_refl)). assert (forall y, In y l -> sz y <= List.length (pr1 y)).
  { intros y Hy. apply H. right. exact Hy. } specialize (IHl H1). lia.
Qed.

Lemma pr_clause_call_gen : forall extra e,
  call_stmt_ok e = true ->
  List.length (body extra e) <= List.length (pr_clause extra (CCall e)) + 2.
Proof.
  intros extra e H. destruct e; try discriminate.
  - rewrite pr_clause_call. lia.
  - destruct e; try discriminate. rewrite pr_clause_callq. rewrite (body_suppress extra).
    cbn [inner List.length]. rewrite !app_length. simpl. lia.
Qed.

(* every printable construct has at least as many tokens as its size: the
   fuel [fuel_for] gives is enough for every printed program *)
Lemma size_le_joint : forall extra n,
  (forall e, size e <= n -> printable e = true -> size e <= List.length (body extra e)) /\
  (forall q, size_for q <= n -> printable_for q = true -> S (size_for q) <= List.length (pr_for extra q)).
Proof.
  intros extra. induction n as [|n [IHe IHq]].
  { split; [intros e Hs; pose proof (size_pos e); lia|intros q Hs; pose proof (size_for_pos q); lia]. }
  assert (Hpr : forall m x, size x <= n -> printable x = true -> size x <= List.length (pr extra m x)).
  { intros m x Hx Px. unfold pr. pose proof (len_wrap (needs extra m x) (body extra x)).
    specialize (IHe x Hx Px). lia. }
  assert (Hlist : forall es, sum_size es <= n -> forallb printable es = true ->
                    sum_size es <= List.length (pr_list extra es)).
  { induction es as [|x es IHes]; intros Hsum Pes; [simpl; lia|].
    change (sum_size (x :: es)) with (size x + sum_size es) in *.
    simpl in Pes. apply andb_prop in Pes. destruct Pes as [Px Pes].
    pose proof (Hpr 1 x ltac:(lia) Px) as Hx. specialize (IHes ltac:(lia) Pes).
    destruct es as [|y es'].
    - simpl. unfold sum_size in *. simpl in *. lia.
    - change (pr_list extra (x :: y :: es')) with (pr extra 1 x ++ COMMA :: pr_list extra (y :: es')).
      rewrite app_length. cbn [List.length]. lia. }
  assert (Hseg : forall sg, size_seg sg <= n -> printable_seg sg = true ->
                   S (size_seg sg) <= List.length (pr_seg extra sg)).
  { intros [o e] Hsg Psg. cbn [size_seg] in *.
    destruct (estr_dec e) as [[nm ->]|Hne].
    - cbn [pr_seg size]. destruct (is_word_text nm), o; simpl; lia.
    - destruct (pr_seg_other extra o e Hne) as [-> Epp]. rewrite Epp in Psg. pose proof (Hpr 1 e ltac:(lia) Psg).
      destruct o; cbn [app List.length]; rewrite app_length; simpl; lia. }
  assert (Hsegs : forall p, sum_by size_seg p <= n -> forallb printable_seg p = true ->
                    sum_by size_seg p + List.length p <= List.length (pr_segs extra p)).
  { induction p as [|sg p IHp]; intros Hsum Pp; [simpl; lia|].
    change (sum_by size_seg (sg :: p)) with (size_seg sg + sum_by size_seg p) in *.
    simpl in Pp. apply andb_prop in Pp. destruct Pp as [Psg Pp].
    cbn [pr_segs List.length]. rewrite app_length. pose proof (Hseg sg ltac:(lia) Psg). specialize (IHp ltac:(lia) Pp). lia. }
  assert (Hprop : forall p, size_prop p <= n -> printable_prop p = true ->
                    size_prop p <= List.length (pr_prop extra p)).
  { intros [k e|k e|x] Hp Pp; cbn [size_prop printable_prop] in *.
    - rewrite pr_prop_named. cbn [List.length]. pose proof (Hpr 1 e ltac:(lia) Pp) as H. lia.
    - apply andb_prop in Pp. destruct Pp as [Pk Pe].
      destruct (eparam_dec k) as [[x ->]|Hne].
      + rewrite pr_prop_param. cbn [List.length]. cbn [size] in Hp |- *.
        pose proof (Hpr 1 e ltac:(lia) Pe) as H. lia.
      + rewrite (pr_prop_computed extra k e Hne). cbn [List.length]. rewrite app_length. cbn [List.length].
        pose proof (Hpr 1 k ltac:(lia) Pk). pose proof (Hpr 1 e ltac:(lia) Pe). lia.
    - simpl. lia. }
  assert (Hprops : forall ps, sum_by size_prop ps <= n -> forallb printable_prop ps = true ->
                     sum_by size_prop ps <= List.length (pr_props extra ps)).
  { induction ps as [|p ps IHps]; intros Hsum Pps; [simpl; lia|].
    change (sum_by size_prop (p :: ps)) with (size_prop p + sum_by size_prop ps) in *.
    simpl in Pps. apply andb_prop in Pps. destruct Pps as [Pp Pps].
    pose proof (Hprop p ltac:(lia) Pp). specialize (IHps ltac:(lia) Pps).
    destruct ps as [|p2 ps'].
    - cbn [pr_props]. unfold sum_by in *. simpl in *. lia.
    - change (pr_props extra (p :: p2 :: ps')) with (pr_prop extra p ++ COMMA :: pr_props extra (p2 :: ps')).
      rewrite app_length. cbn [List.length]. lia. }
  split.
  - (* expressions *)
    intros e Hs P.
    destruct (bin_view e) as [[[[[L a] b] ops] mk]|] eqn:V.
    + destruct (bin_view_body extra e L a b ops mk V) as (Hb & Hsz & Hops).
      destruct (bin_view_spec extra e L a b ops mk V) as (_ & _ & _ & _ & _ & _ & _ & _ & _ & Hp).
      rewrite Hp in P. apply andb_prop in P. destruct P as [Pa Pb].
      rewrite Hb, Hsz. rewrite !app_length.
      pose proof (Hpr L a ltac:(lia) Pa). pose proof (Hpr (S L) b ltac:(lia) Pb). lia.
    + destruct e; simpl in V; try discriminate; simpl in P; try discriminate; try (simpl; lia).
      * (* EInt *) cbn [size body]. destruct (z <? 0)%Z; simpl; lia.
      * (* EArr *) rewrite body_arr. cbn [List.length]. rewrite app_length. cbn [List.length].
        change (size (EArr es)) with (S (sum_size es)) in *. specialize (Hlist es ltac:(lia) P). lia.
      * (* EObj *) rewrite body_obj. cbn [List.length]. rewrite app_length. cbn [List.length].
        change (size (EObj ps)) with (S (sum_by size_prop ps)) in *. specialize (Hprops ps ltac:(lia) P). lia.
      * (* EUn *) cbn [size body List.length]. simpl in Hs.
        pose proof (Hpr 4 e ltac:(lia) P) as H. unfold pr in H. lia.
      * (* ELog *) destruct o; discriminate.
      * (* ECond *)
        apply andb_prop in P. destruct P as [P P3]. apply andb_prop in P. destruct P as [P1 P2].
        rewrite (body_cond extra). simpl in Hs.
        destruct t as [t'|]; cbn [opt_toks size] in *;
          rewrite !app_length; cbn [List.length]; rewrite ?app_length; cbn [List.length].
        -- pose proof (Hpr 1 e1 ltac:(lia) P1). pose proof (Hpr 2 e2 ltac:(lia) P3).
           pose proof (IHe t' ltac:(lia) P2). pose proof (len_prt extra t'). lia.
        -- pose proof (Hpr 1 e1 ltac:(lia) P1). pose proof (Hpr 2 e2 ltac:(lia) P3). lia.
      * (* ERange *) cbn [size body]. rewrite app_length. cbn [List.length]. lia.
      * (* EMember *) apply andb_prop in P. destruct P as [P Pg]. apply andb_prop in P. destruct P as [P Pn].
        apply andb_prop in P. destruct P as [Pm Ps].
        assert (Hne : path <> []) by (destruct path; [discriminate|congruence]).
        rewrite (size_member e path Hne) in *.
        rewrite body_member. rewrite app_length.
        pose proof (IHe e ltac:(lia) Ps). pose proof (Hsegs path ltac:(lia) Pg).
        destruct path; [congruence|]. cbn [List.length] in *. lia.
      * (* ECall *) apply andb_prop in P. destruct P as [Pc Pa].
        rewrite body_call. cbn [List.length]. rewrite app_length. cbn [List.length].
        change (size (ECall f args)) with (S (sum_size args)) in *. specialize (Hlist args ltac:(lia) Pa). lia.
      * (* ESuppress *) rewrite (body_suppress extra). cbn [size List.length]. rewrite app_length.
        simpl in Hs. specialize (IHe e ltac:(lia) P).
        assert (List.length (body extra e) <= List.length (inner extra e)).
        { destruct e; cbn [inner]; try (cbn [List.length]; rewrite app_length; simpl; lia). lia. }
        simpl. lia.
      * (* ESub *) rewrite body_sub. cbn [size List.length]. rewrite app_length. simpl in Hs.
        specialize (IHq q ltac:(lia) P). simpl. lia.
  - (* loops *)
    assert (Hkeys : forall ks, sum_by (fun kd => size (fst kd)) ks <= n ->
                      forallb (fun kd => printable (fst kd)) ks = true ->
                      sum_by (fun kd => size (fst kd)) ks <= List.length (pr_sort extra ks)).
    { induction ks as [|[e d] ks IHks]; intros Hsum Pk; [simpl; lia|].
      change (sum_by (fun kd => size (fst kd)) ((e, d) :: ks)) with (size e + sum_by (fun kd => size (fst kd)) ks) in *.
      simpl in Pk. apply andb_prop in Pk. destruct Pk as [Pe Pk].
      pose proof (Hpr 1 e ltac:(lia) Pe). specialize (IHks ltac:(lia) Pk).
      destruct ks as [|kd2 ks'].
      - cbn [pr_sort]. rewrite app_length. unfold sum_by in *. simpl in *. lia.
      - change (pr_sort extra ((e, d) :: kd2 :: ks'))
          with (pr extra 1 e ++ (if d then [tk KSortDir "DESC"] else []) ++ COMMA :: pr_sort extra (kd2 :: ks')).
        rewrite !app_length. cbn [List.length]. lia. }
    assert (Hgroups : forall gs, sum_by (fun x => size (snd x)) gs <= n ->
                        forallb (fun g => ident_ok (fst g) && printable (snd g)) gs = true ->
                        sum_by (fun x => size (snd x)) gs <= List.length (pr_groups extra gs)).
    { induction gs as [|[x e] gs IHgs]; intros Hsum Pg; [simpl; lia|].
      change (sum_by (fun x => size (snd x)) ((x, e) :: gs)) with (size e + sum_by (fun x => size (snd x)) gs) in *.
      simpl in Pg. apply andb_prop in Pg. destruct Pg as [Pe Pg]. apply andb_prop in Pe. destruct Pe as [_ Pe].
      pose proof (Hpr 1 e ltac:(lia) Pe). specialize (IHgs ltac:(lia) Pg).
      destruct gs as [|g2 gs'].
      - cbn [pr_groups List.length]. unfold sum_by in *. simpl in *. lia.
      - change (pr_groups extra ((x, e) :: g2 :: gs'))
          with (word_tok x :: tk KAssign "=" :: pr extra 1 e ++ COMMA :: pr_groups extra (g2 :: gs')).
        cbn [List.length]. rewrite app_length. cbn [List.length]. lia. }
    assert (Haggrs : forall ss, aggr_size ss <= n ->
                       forallb (fun s => ident_ok (fst (fst s)) && call_ok (snd (fst s)) && forallb printable (snd s)) ss = true ->
                       aggr_size ss <= List.length (pr_aggrs extra ss)).
    { induction ss as [|[[x fn] args] ss IHss]; intros Hsum Pa; [simpl; lia|].
      change (aggr_size ((x, fn, args) :: ss)) with (S (sum_size args) + aggr_size ss) in *.
      simpl in Pa. apply andb_prop in Pa. destruct Pa as [P1 Pa]. apply andb_prop in P1. destruct P1 as [_ Pargs].
      pose proof (Hlist args ltac:(lia) Pargs). specialize (IHss ltac:(lia) Pa).
      cbn [pr_aggrs List.length]. rewrite app_length. cbn [List.length].
      destruct ss as [|a ss']; [change (aggr_size []) with 0; cbn [List.length]; lia|cbn [List.length] in *; lia]. }
    assert (Hctail : forall t, size_ctail t <= n -> printable_ctail t = true ->
                       size_ctail t <= List.length (pr_ctail extra t)).
    { intros [|x p|x|ss] Ht Pt; cbn [printable_ctail] in *.
      - simpl. lia.
      - rewrite pr_ctail_into. apply andb_prop in Pt. destruct Pt as [_ Pp].
        destruct p as [e|]; cbn [size_ctail List.length] in *; [pose proof (Hpr 1 e ltac:(lia) Pp)|]; lia.
      - rewrite pr_ctail_count. simpl. lia.
      - rewrite pr_ctail_aggr, size_ctail_aggr in *. apply andb_prop in Pt. destruct Pt as [_ Pa].
        cbn [List.length]. pose proof (Haggrs ss ltac:(lia) Pa). lia. }
    assert (Hclause : forall c, size_clause c <= n -> printable_clause c = true ->
                        size_clause c <= List.length (pr_clause extra c)).
    { intros [x e|e|e|ks|o nn|gs t] Hc Pc; cbn [printable_clause] in *.
      - rewrite pr_clause_let. apply andb_prop in Pc. destruct Pc as [_ Pe].
        cbn [size_clause List.length] in *. pose proof (Hpr 1 e ltac:(lia) Pe). lia.
      - apply andb_prop in Pc. destruct Pc as [Pcs Pe]. cbn [size_clause] in *.
        destruct e; try discriminate.
        + rewrite pr_clause_call. apply (IHe (ECall f args) ltac:(lia) Pe).
        + destruct e; try discriminate. rewrite pr_clause_callq. rewrite app_length. cbn [List.length].
          cbn [size] in *. simpl in Pe. pose proof (IHe (ECall f args) ltac:(cbn [size]; lia) Pe). cbn [size] in H. lia.
      - rewrite pr_clause_filter. cbn [size_clause List.length] in *. pose proof (Hpr 1 e ltac:(lia) Pc). lia.
      - rewrite pr_clause_sort. apply andb_prop in Pc. destruct Pc as [_ Pk].
        change (size_clause (CSort ks)) with (S (sum_by (fun kd => size (fst kd)) ks)) in *.
        cbn [List.length]. pose proof (Hkeys ks ltac:(lia) Pk). lia.
      - rewrite pr_clause_limit. apply andb_prop in Pc. destruct Pc as [Pc Pn]. apply andb_prop in Pc. destruct Pc as [Po _].
        cbn [size_clause List.length] in *. rewrite app_length.
        pose proof (IHe nn ltac:(lia) Pn).
        destruct o as [a|].
        + apply andb_prop in Po. destruct Po as [_ Pa]. pose proof (IHe a ltac:(lia) Pa).
          rewrite app_length. cbn [List.length]. lia.
        + simpl. lia.
      - rewrite pr_clause_collect. apply andb_prop in Pc. destruct Pc as [Pc _]. apply andb_prop in Pc. destruct Pc as [Pg Pt].
        change (size_clause (CCollect gs t)) with (S (sum_by (fun x => size (snd x)) gs + size_ctail t)) in *.
        cbn [List.length]. rewrite app_length. unfold name in *.
        pose proof (Hgroups gs ltac:(lia) Pg). pose proof (Hctail t ltac:(lia) Pt). lia. }
    assert (Hclauses : forall bd, sum_by size_clause bd <= n -> forallb printable_clause bd = true ->
                         sum_by size_clause bd <= List.length (pr_clauses extra bd)).
    { induction bd as [|c bd IHbd]; intros Hsum Pb; [simpl; lia|].
      change (sum_by size_clause (c :: bd)) with (size_clause c + sum_by size_clause bd) in *.
      simpl in Pb. apply andb_prop in Pb. destruct Pb as [Pc Pb].
      cbn [pr_clauses]. rewrite app_length. pose proof (Hclause c ltac:(lia) Pc). specialize (IHbd ltac:(lia) Pb). lia. }
    assert (Hret : forall r, size_ret r <= n -> printable_ret r = true ->
                     size_ret r <= List.length (pr_ret extra r)).
    { intros [d e|q] Hr Pr; cbn [size_ret printable_ret] in *.
      - rewrite pr_ret_return. cbn [List.length]. rewrite app_length. pose proof (Hpr 1 e ltac:(lia) Pr). lia.
      - rewrite pr_ret_for. pose proof (IHq q ltac:(lia) Pr). lia. }
    intros q Hs P.
    destruct q as [v k s bd r|v d c bd r]; cbn [size_for printable_for] in *;
      fold (sum_by size_clause bd) in *.
    + apply andb_prop in P. destruct P as [P Pr]. apply andb_prop in P. destruct P as [P Pb].
      apply andb_prop in P. destruct P as [P Ps]. apply andb_prop in P. destruct P as [_ Pso].
      rewrite pr_for_in. cbn [List.length]. rewrite !app_length. cbn [List.length]. rewrite !app_length.
      pose proof (IHe s ltac:(lia) Ps). pose proof (Hclauses bd ltac:(lia) Pb). pose proof (Hret r ltac:(lia) Pr).
      lia.
    + apply andb_prop in P. destruct P as [P Pr]. apply andb_prop in P. destruct P as [P Pb].
      apply andb_prop in P. destruct P as [_ Pc].
      rewrite pr_for_while. cbn [List.length]. rewrite !app_length. cbn [List.length]. rewrite !app_length.
      pose proof (Hpr 1 c ltac:(lia) Pc). pose proof (Hclauses bd ltac:(lia) Pb). pose proof (Hret r ltac:(lia) Pr).
      lia.
Qed.

Lemma size_le_pr : forall extra m e, printable e = true -> size e <= List.length (pr extra m e).
Proof.
  intros extra m e P. unfold pr. pose proof (len_wrap (needs extra m e) (body extra e)).
  pose proof (proj1 (size_le_joint extra (size e)) e (le_n _) P). lia.
Qed.

(* ================================================== whole programs *)
Definition printable_stmt (s : stmt) : bool :=
  match s with
  | SLet x e => let_ok x && printable e
  | SCall e => call_stmt_ok e && printable e
  end.
Definition printable_prog (p : program) : bool :=
  forallb printable_stmt (p_stmts p)
  && match p_ret p with BReturn e => printable e | BFor q => printable_for q end.
Definition size_stmt (s : stmt) : nat := match s with SLet _ e => S (size e) | SCall e => size e end.
Definition size_bret (r : bodyret) : nat :=
  match r with BReturn e => S (size e) | BFor q => S (size_for q) end.
Definition size_prog (p : program) : nat := sum_by size_stmt (p_stmts p) + size_bret (p_ret p).

Definition consp (s : stmt) (p : program) : program := {| p_stmts := s :: p_stmts p; p_ret := p_ret p |}.

Lemma pb_return : forall pe g t r,
  parse_body pe (S g) ((KReturn, t) :: r)
  = mapr (fun de => {| p_stmts := []; p_ret := BReturn (snd de) |}) (parse_return pe r).
Proof. reflexivity. Qed.
Lemma pb_for : forall pe g t r,
  parse_body pe (S g) ((KFor, t) :: r)
  = mapr (fun q => {| p_stmts := []; p_ret := BFor q |}) (parse_for pe (S g) r).
Proof. reflexivity. Qed.
Lemma pb_let : forall pe g t k x a r,
  parse_body pe (S g) ((KLet, t) :: (k, x) :: (KAssign, a) :: r)
  = if is_varname k || is_loopvar k
    then bindr (pe false 1 r) (fun e r' => mapr (consp (SLet x e)) (parse_body pe g r'))
    else PFail.
Proof.
  intros. cbn [parse_body parse_let]. destruct (is_varname k || is_loopvar k); [|reflexivity].
  destruct (pe false 1 r); reflexivity.
Qed.
Lemma pb_call : forall pe g f t x,
  parse_body pe (S g) ((KIdent, f) :: (KLParen, t) :: x)
  = bindr (call_stmt pe (S g) ((KIdent, f) :: (KLParen, t) :: x))
      (fun c r' => mapr (consp (SCall c)) (parse_body pe g r')).
Proof. reflexivity. Qed.

Section Prog.
  Variable extra : expr -> bool.
  Local Notation bodyx := (body extra).
  Local Notation prx := (pr extra).

  Definition pr_bret (r : bodyret) : toks :=
    match r with BReturn e => tk KReturn "RETURN" :: prx 1 e | BFor q => pr_for extra q end.

  Lemma print_program_eq : forall p,
    print_program extra p = flat_map (pr_stmt extra) (p_stmts p) ++ pr_bret (p_ret p).
  Proof. intros [ss r]. destruct r; reflexivity. Qed.

  Lemma pr_stmt_let : forall x e,
    pr_stmt extra (SLet x e) = tk KLet "LET" :: word_tok x :: tk KAssign "=" :: prx 1 e.
  Proof. reflexivity. Qed.
  Lemma pr_stmt_call : forall e, pr_stmt extra (SCall e) = pr_clause extra (CCall e).
  Proof. reflexivity. Qed.

  Lemma pr_bret_cstarts : forall r tl, cstarts (pr_bret r ++ tl).
  Proof.
    intros [e|q] tl; cbn [pr_bret].
    - eexists KReturn, _, _. split; reflexivity.
    - destruct q; [rewrite pr_for_in|rewrite pr_for_while]; eexists KFor, _, _; split; reflexivity.
  Qed.

  Lemma stmts_cstarts : forall ss r tl,
    forallb printable_stmt ss = true -> cstarts (flat_map (pr_stmt extra) ss ++ pr_bret r ++ tl).
  Proof.
    intros ss r tl P. destruct ss as [|s ss].
    - cbn [flat_map app]. apply pr_bret_cstarts.
    - simpl in P. apply andb_prop in P. destruct P as [Ps _].
      cbn [flat_map]. rewrite <- app_assoc.
      destruct s as [x e|e].
      + rewrite pr_stmt_let. eexists KLet, _, _. split; reflexivity.
      + rewrite pr_stmt_call. apply pr_clause_cstarts. exact Ps.
  Qed.

  Lemma bret_good : forall r rest f g,
    match r with BReturn e => printable e | BFor q => printable_for q end = true ->
    ctx_ok false 0 1 rest -> 64 * size_bret r + 16 <= f -> size_bret r < g ->
    parse_body (parse_at ch f) g (pr_bret r ++ rest) = POk {| p_stmts := []; p_ret := r |} rest.
  Proof.
    intros r rest f g P Hc Hf Hg. destruct g; [lia|].
    destruct r as [e|q]; cbn [pr_bret size_bret] in *.
    - cbn [app]. unfold tk. rewrite pb_return.
      destruct (pr_hd_kind extra 1 e rest P) as (k & Hk & Hg' & _).
      rewrite (parse_return_plain _ _ k Hk (good_head_not_distinct k Hg')).
      rewrite (expr_at extra (size e) (fun e0 H0 P0 => good_all extra (size e) e0 H0 P0)); auto; try lia.
    - rewrite (pr_for_tail extra). cbn [app]. unfold tk. rewrite pb_for.
      rewrite (good_for_all extra q P); auto; try lia.
  Qed.

  Lemma stmts_good : forall ss r rest f g,
    forallb printable_stmt ss = true ->
    match r with BReturn e => printable e | BFor q => printable_for q end = true ->
    ctx_ok false 0 1 rest ->
    64 * (sum_by size_stmt ss + size_bret r) + 80 <= f -> sum_by size_stmt ss + size_bret r < g ->
    parse_body (parse_at ch f) g (flat_map (pr_stmt extra) ss ++ pr_bret r ++ rest)
    = POk {| p_stmts := ss; p_ret := r |} rest.
  Proof.
    induction ss as [|s ss IHss]; intros r rest f g Ps Pr Hc Hf Hg.
    - cbn [flat_map app]. unfold sum_by in *. simpl in *. apply bret_good; auto; lia.
    - destruct g; [lia|].
      simpl in Ps. apply andb_prop in Ps. destruct Ps as [P1 Ps].
      change (sum_by size_stmt (s :: ss)) with (size_stmt s + sum_by size_stmt ss) in *.
      assert (Hrp : 1 <= size_bret r) by (destruct r; simpl; lia).
      pose proof (stmts_cstarts ss r rest Ps) as HT.
      pose proof (cstarts_ctx _ HT) as HcT.
      assert (IHt : parse_body (parse_at ch f) g (flat_map (pr_stmt extra) ss ++ pr_bret r ++ rest)
                    = POk {| p_stmts := ss; p_ret := r |} rest).
      { apply IHss; auto; try lia.
        - destruct s; cbn [size_stmt] in *; [lia|pose proof (size_pos e); lia]. }
      cbn [flat_map]. rewrite <- app_assoc.
      set (T := flat_map (pr_stmt extra) ss ++ pr_bret r ++ rest) in *.
      destruct s as [x e|e]; cbn [size_stmt printable_stmt] in *.
      + (* LET *) apply andb_prop in P1. destruct P1 as [Px Pe].
        rewrite pr_stmt_let. cbn [app]. unfold word_tok, tk. rewrite pb_let.
        unfold let_ok in Px. rewrite Px.
        rewrite (expr_at extra (size e) (fun e0 H0 P0 => good_all extra (size e) e0 H0 P0)); auto; try lia.
        cbn [bindr]. rewrite IHt. reflexivity.
      + (* call statement *) apply andb_prop in P1. destruct P1 as [Pc Pe].
        destruct (cstarts_facts T HT) as (_ & _ & HqT & _).
        rewrite pr_stmt_call.
        destruct e; try discriminate.
        * rewrite pr_clause_call, body_call.
          simpl in Pe. apply andb_prop in Pe. destruct Pe as [Pf Pa].
          change (size (ECall f0 args)) with (S (sum_size args)) in *. pose proof (len_le_sum args).
          destruct (call_parts f0 Pf) as [Hk _].
          unfold word_tok, LP, RP, tk. rewrite Hk. cbn [app]. rewrite pb_call.
          rewrite <- app_assoc. cbn [app].
          rewrite (call_stmt_plain _ _ _ (ECall f0 args) T); [cbn [bindr]; rewrite IHt; reflexivity| |exact HqT].
          rewrite parse_call_ident.
          pose proof (call_parsed extra (sum_size args) (fun e0 H0 P0 => good_all extra (sum_size args) e0 H0 P0)
                        f0 args T f (S g) Pf) as Hp. unfold RP, tk in Hp.
          apply Hp; try lia. apply all_ok_of; [exact Pa|lia].
        * destruct e; try discriminate. rewrite pr_clause_callq, body_call.
          simpl in Pe. apply andb_prop in Pe. destruct Pe as [Pf Pa].
          change (size (ESuppress (ECall f0 args))) with (S (S (sum_size args))) in *. pose proof (len_le_sum args).
          destruct (call_parts f0 Pf) as [Hk _].
          unfold word_tok, LP, RP, tk. rewrite Hk. cbn [app]. rewrite pb_call.
          rewrite <- !app_assoc. cbn [app].
          rewrite (call_stmt_q _ _ _ (ECall f0 args) (bs "?") T); [cbn [bindr]; rewrite IHt; reflexivity|].
          rewrite parse_call_ident.
          pose proof (call_parsed extra (sum_size args) (fun e0 H0 P0 => good_all extra (sum_size args) e0 H0 P0)
                        f0 args ((KQuestion, bs "?") :: T) f (S g) Pf) as Hp. unfold RP, tk in Hp.
          apply Hp; try lia. apply all_ok_of; [exact Pa|lia].
  Qed.

  (* token count of a program *)
  Lemma size_prog_le : forall p, printable_prog p = true ->
    size_prog p <= List.length (print_program extra p).
  Proof.
    intros p P. unfold printable_prog in P. apply andb_prop in P. destruct P as [Ps Pr].
    rewrite print_program_eq. rewrite app_length. unfold size_prog.
    assert (H1 : sum_by size_stmt (p_stmts p) <= List.length (flat_map (pr_stmt extra) (p_stmts p))).
    { induction (p_stmts p) as [|s ss IHss]; [simpl; lia|].
      simpl in Ps. apply andb_prop in Ps. destruct Ps as [P1 Ps]. specialize (IHss Ps).
      change (sum_by size_stmt (s :: ss)) with (size_stmt s + sum_by size_stmt ss).
      cbn [flat_map]. rewrite app_length.
      destruct s as [x e|e]; cbn [size_stmt printable_stmt] in *.
      - apply andb_prop in P1. destruct P1 as [_ Pe]. rewrite pr_stmt_let. cbn [List.length].
        pose proof (size_le_pr extra 1 e Pe). lia.
      - apply andb_prop in P1. destruct P1 as [Pc Pe]. rewrite pr_stmt_call.
        pose proof (proj1 (size_le_joint extra (size e)) e (le_n _) Pe).
        destruct e; try discriminate.
        + rewrite pr_clause_call. lia.
        + destruct e; try discriminate. rewrite pr_clause_callq. rewrite app_length. cbn [List.length].
          simpl in Pe. pose proof (proj1 (size_le_joint extra (size (ECall f args))) (ECall f args) (le_n _) Pe).
          cbn [size] in *. lia. }
    assert (H2 : size_bret (p_ret p) <= List.length (pr_bret (p_ret p))).
    { destruct (p_ret p) as [e|q]; cbn [size_bret pr_bret List.length].
      - pose proof (size_le_pr extra 1 e Pr). lia.
      - pose proof (proj2 (size_le_joint extra (size_for q)) q (le_n _) Pr). lia. }
    lia.
  Qed.
End Prog.

End Ch.

(* the central theorem, with the fuel the model uses: no OutOfFuel, and the
   same result under EVERY reading of the undecided '?' tokens *)
Theorem parse_print_expr_any : forall ch e, printable e = true ->
  parse_expr_with ch (print_expr e) = POk e [].
Proof.
  intros ch e P. unfold parse_expr_with. apply parse_print_expr_fuel; [exact P|].
  unfold fuel_for, print_expr. pose proof (size_le_pr no_extra 1 e P). lia.
Qed.

Theorem parse_print_expr_lemma : forall e, printable e = true -> parse_expr (print_expr e) = POk e [].
Proof.
  intros e P. unfold parse_expr. apply search_const.
  intros terns. rewrite parse_print_expr_any by exact P. reflexivity.
Qed.

(* redundant parentheses, anywhere an expression stands, change nothing *)
Theorem parse_parens_any : forall ch extra e, printable e = true ->
  parse_expr_with ch (pr extra 1 e) = POk e [].
Proof.
  intros ch extra e P. unfold parse_expr_with.
  rewrite <- (app_nil_r (pr extra 1 e)) at 2.
  apply parse_print_gen; [exact P|apply ctx_nil|].
  unfold fuel_for. pose proof (size_le_pr extra 1 e P). lia.
Qed.

Theorem parse_parens_lemma : forall extra e, printable e = true ->
  parse_expr (pr extra 1 e) = parse_expr (print_expr e).
Proof.
  intros extra e P. rewrite parse_print_expr_lemma by exact P.
  unfold parse_expr. apply search_const.
  intros terns. rewrite parse_parens_any by exact P. reflexivity.
Qed.

(* RETURN e followed by tokens that cannot continue e: under every reading the
   program ends where e ends and the rest is left over — so the query is
   rejected *)
Theorem return_then_suffix : forall ch extra e s,
  printable e = true -> hd_kind (pr extra 1 e ++ s) <> Some KDistinct ->
  ctx_ok false 0 1 s ->
  parse_prefix_with ch (ret_toks extra e ++ s) = POk (ret_prog e) s.
Proof.
  intros ch extra e s P Hd Hc. unfold parse_prefix_with.
  set (F := fuel_for (ret_toks extra e ++ s)).
  assert (HF : 64 * size e + 16 <= F /\ 1 <= F).
  { unfold F, fuel_for, ret_toks. cbn [app List.length]. rewrite app_length.
    pose proof (size_le_pr extra 1 e P). lia. }
  destruct HF as [HF H1]. destruct F as [|g] eqn:EF; [lia|].
  rewrite <- EF at 1. apply return_prefix; auto. lia.
Qed.

Theorem no_silent_suffix_lemma : forall extra e s,
  printable e = true -> hd_kind (pr extra 1 e ++ s) <> Some KDistinct ->
  ctx_ok false 0 1 s ->
  parse_program (ret_toks extra e ++ s) = (match s with [] => Some (ret_prog e) | _ => None end).
Proof.
  intros extra e s P Hd Hc. unfold parse_program, parse_query.
  destruct s as [|t r].
  - rewrite (search_const _ _ _ _ (ret_prog e) []); [reflexivity|].
    intros terns. rewrite return_then_suffix by assumption. reflexivity.
  - rewrite search_fail; [reflexivity|].
    intros terns. rewrite return_then_suffix by assumption. reflexivity.
Qed.

(* token classes that cannot continue an expression *)
Definition stopper (k : kind) : bool :=
  match k with
  | KColon | KSemi | KComma | KRBrack | KRParen | KLBrace | KRBrace | KMinusMinus | KPlusPlus
  | KAssign | KFor | KReturn | KWaitfor | KOptions | KTimeout | KDistinct | KFilter | KCurrent
  | KSort | KLimit | KLet | KCollect | KSortDir | KNull | KBool | KUse | KInto | KKeep | KWith
  | KCount | KAggregate | KEvent | KDo | KWhile | KParam | KIdent | KIgnore | KString | KInt
  | KFloat | KNsSeg | KUnknown => true
  | _ => false
  end.

Lemma ctx_stopper : forall k t r, stopper k = true -> ctx_ok false 0 1 ((k, t) :: r).
Proof.
  intros k t r H. destruct k; try discriminate; (split; [|split]; try exact I;
    intros l _; destruct l as [|[|[|[|[|[|[|[|[|[|[|[|l]]]]]]]]]]]]; simpl; try reflexivity; try congruence; exact I).
Qed.

Theorem suffix_rejected_lemma : forall extra e k t r,
  printable e = true -> hd_kind (pr extra 1 e ++ (k, t) :: r) <> Some KDistinct ->
  stopper k = true ->
  parse_program (ret_toks extra e ++ (k, t) :: r) = None.
Proof.
  intros extra e k t r P Hd Hk.
  rewrite no_silent_suffix_lemma; auto. apply ctx_stopper. exact Hk.
Qed.

Theorem no_silent_suffix_both : forall extra e s,
  printable e = true -> hd_kind (pr extra 1 e ++ s) <> Some KDistinct ->
  ctx_ok false 0 1 s ->
  (forall ch, parse_prefix_with ch (ret_toks extra e ++ s) = POk (ret_prog e) s) /\
  parse_program (ret_toks extra e ++ s) = match s with [] => Some (ret_prog e) | _ => None end.
Proof.
  intros extra e s P Hd Hc. split.
  - intros ch. apply return_then_suffix; assumption.
  - apply no_silent_suffix_lemma; assumption.
Qed.

(* ------------------------------------------------ whole programs *)
(* every printable program, printed (with minimal or redundant parentheses), is
   read back as itself under every reading of the undecided '?' tokens, with
   the fuel the model uses *)
Theorem parse_print_program_any : forall ch extra p, printable_prog p = true ->
  parse_prefix_with ch (print_program extra p) = POk p [].
Proof.
  intros ch extra p P. unfold parse_prefix_with.
  pose proof (size_prog_le extra p P) as Hlen.
  set (F := fuel_for (print_program extra p)).
  assert (HF : 64 * size_prog p + 80 <= F) by (unfold F, fuel_for; lia).
  unfold printable_prog in P. apply andb_prop in P. destruct P as [Ps Pr].
  rewrite print_program_eq. destruct p as [ss r]. cbn [p_stmts p_ret] in *.
  rewrite <- (app_nil_r (pr_bret extra r)).
  unfold size_prog in HF. cbn [p_stmts p_ret] in HF.
  apply stmts_good; auto; try apply ctx_nil; lia.
Qed.

Theorem parse_print_program_lemma : forall extra p, printable_prog p = true ->
  parse_program (print_program extra p) = Some p.
Proof.
  intros extra p P. apply all_readings_agree. intros ch. apply parse_print_program_any. exact P.
Qed.

(* a loop on its own is a program *)
Definition for_prog (q : forq) : program := {| p_stmts := []; p_ret := BFor q |}.
Theorem parse_print_for_lemma : forall extra q, printable_for q = true ->
  parse_program (pr_for extra q) = Some (for_prog q).
Proof.
  intros extra q P.
  change (pr_for extra q) with (print_program extra (for_prog q)).
  apply parse_print_program_lemma. exact P.
Qed.

Theorem parse_parens_program_lemma : forall extra p, printable_prog p = true ->
  parse_program (print_program extra p) = parse_program (print_min p).
Proof.
  intros extra p P. unfold print_min.
  rewrite (parse_print_program_lemma extra p P), (parse_print_program_lemma no_extra p P). reflexivity.
Qed.
