(* Proofs/ParserProofs.v — properties of the reference parser.
   Part A: a query is accepted only when the whole token list is one program.
   Part B: the parser inverts the printer of Render.v on the expression
           sub-language (literals, names, parameters, all operator levels, the
           ternary, arrays, calls, error suppression, parentheses — minimal or
           redundant), for every continuation that cannot extend the
           expression: precedence and associativity of the three tiers are
           what the printer assumes. *)
From Ferret Require Import Render.
Require Import Lia.
Local Open Scope nat_scope.

(* ------------------------------------------------------------- Part A *)
Theorem parse_consumes_all_lemma : forall ts p,
  parse_program ts = Some p -> parse_prefix ts = POk p [].
Proof.
  unfold parse_program; intros ts p H.
  destruct (parse_prefix ts) as [q r | |]; try discriminate.
  destruct r; try discriminate. congruence.
Qed.

Theorem leftover_is_rejected : forall ts p t r,
  parse_prefix ts = POk p (t :: r) -> parse_program ts = None.
Proof. unfold parse_program; intros ts p t r H; rewrite H; reflexivity. Qed.

Theorem accept_iff_exhausted : forall ts p,
  parse_program ts = Some p <-> parse_prefix ts = POk p [].
Proof.
  split; [apply parse_consumes_all_lemma|].
  unfold parse_program; intros H; rewrite H; reflexivity.
Qed.

(* ------------------------------------------------------------- Part B *)
Definition hd_kind (ts : toks) : option kind :=
  match ts with (k, _) :: _ => Some k | [] => None end.

Definition not_unop (ts : toks) : Prop :=
  match ts with (k, _) :: _ => unop_of k = None | [] => False end.

(* the loop of level [lv] stops in front of [rest] *)
Definition stops (lv : nat) (rest : toks) : Prop :=
  match lv with
  | 1 => hd_kind rest <> Some KQuestion
  | 4 => True
  | _ => binop lv rest = None
  end.

Lemma bin_loop_stop : forall pe tb f lv a rest,
  binop lv rest = None -> bin_loop pe tb (S f) lv a rest = POk a rest.
Proof. intros; simpl; rewrite H; reflexivity. Qed.

Lemma tern_loop_stop : forall pe tb f c rest,
  hd_kind rest <> Some KQuestion -> tern_loop pe tb (S f) c rest = POk c rest.
Proof.
  intros pe tb f c rest H; simpl.
  destruct rest as [|[k t] r]; [reflexivity|].
  destruct k; try reflexivity. simpl in H; congruence.
Qed.

Lemma bindr_ok : forall A B (a : A) r (k : A -> toks -> pres B), bindr (POk a r) k = k a r.
Proof. reflexivity. Qed.

(* one level down: the result of level [S lv] is the result of level [lv]
   when the loop of [lv] stops (and, at the prefix level, no prefix operator
   is in front) *)
Lemma descend1 : forall f tb lv ts e rest,
  lv <= 11 ->
  parse_at (S f) tb (S lv) ts = POk e rest ->
  stops lv rest -> (lv = 4 -> not_unop ts) ->
  parse_at (S (S f)) tb lv ts = POk e rest.
Proof.
  intros f tb lv ts e rest Hle H Hs Hu.
  destruct lv as [|[|[|[|[|[|[|[|[|[|[|[|lv]]]]]]]]]]]]; try lia;
    try (match goal with |- parse_at _ _ ?l _ = _ =>
           change (parse_at (S (S f)) tb l ts) with
             (bindr (parse_at (S f) tb (S l) ts) (bin_loop (parse_at (S f)) tb (S f) l)) end;
         rewrite H, bindr_ok; apply bin_loop_stop; exact Hs).
  - (* 1 *)
    change (parse_at (S (S f)) tb 1 ts) with
      (bindr (parse_at (S f) tb 2 ts) (tern_loop (parse_at (S f)) tb (S f))).
    rewrite H, bindr_ok. apply tern_loop_stop; exact Hs.
  - (* 4 *)
    specialize (Hu eq_refl). destruct ts as [|[k t] r]; [destruct Hu|].
    simpl in Hu.
    change (parse_at (S (S f)) tb 4 ((k, t) :: r)) with
      (match unop_of k with
       | Some o => mapr (EUn o) (parse_at (S f) tb 4 r)
       | None => parse_at (S f) tb 5 ((k, t) :: r)
       end).
    rewrite Hu. exact H.
Qed.

(* several levels down *)
Lemma descend : forall k f tb lv ts e rest,
  lv + k <= 12 ->
  parse_at (S f) tb (lv + k) ts = POk e rest ->
  (forall l, lv <= l < lv + k -> stops l rest) ->
  (lv <= 4 < lv + k -> not_unop ts) ->
  parse_at (S f + k) tb lv ts = POk e rest.
Proof.
  induction k as [|k IH]; intros f tb lv ts e rest Hle H Hs Hu.
  - rewrite Nat.add_0_r in *. exact H.
  - replace (S f + S k) with (S (S f) + k) by lia.
    apply IH; try lia.
    + replace (lv + S k) with (S (lv + k)) in H by lia.
      apply descend1; try lia; try exact H.
      * apply Hs; lia.
      * intros E. apply Hu; lia.
    + intros l Hl. apply Hs; lia.
    + intros Hl. apply Hu; lia.
Qed.

(* from the primary level to level [lv] *)
Lemma from_primary : forall f tb lv ts e rest,
  lv <= 12 ->
  primary (parse_at f) tb f ts = POk e rest ->
  (forall l, lv <= l < 12 -> stops l rest) ->
  (lv <= 4 -> not_unop ts) ->
  parse_at (S f + (12 - lv)) tb lv ts = POk e rest.
Proof.
  intros f tb lv ts e rest Hle H Hs Hu.
  apply descend; try lia.
  - replace (lv + (12 - lv)) with 12 by lia. exact H.
  - intros l Hl. apply Hs; lia.
  - intros Hl. apply Hu; lia.
Qed.

(* a closing parenthesis starts no expression *)
Lemma primary_rparen : forall pe tb f t r, primary pe tb f ((KRParen, t) :: r) = PFail.
Proof.
  intros. unfold primary.
  destruct r as [|[k2 t2] r2]; [reflexivity|]. destruct k2; reflexivity.
Qed.

Lemma fail_up1 : forall f tb lv ts,
  lv <= 11 -> parse_at (S f) tb (S lv) ts = PFail -> (lv = 4 -> not_unop ts) ->
  parse_at (S (S f)) tb lv ts = PFail.
Proof.
  intros f tb lv ts Hle H Hu.
  destruct lv as [|[|[|[|[|[|[|[|[|[|[|[|lv]]]]]]]]]]]]; try lia;
    try (match goal with |- parse_at _ _ ?l _ = _ =>
           change (parse_at (S (S f)) tb l ts) with
             (bindr (parse_at (S f) tb (S l) ts) (bin_loop (parse_at (S f)) tb (S f) l)) end;
         rewrite H; reflexivity).
  - change (parse_at (S (S f)) tb 1 ts) with
      (bindr (parse_at (S f) tb 2 ts) (tern_loop (parse_at (S f)) tb (S f))).
    rewrite H; reflexivity.
  - specialize (Hu eq_refl). destruct ts as [|[k t] r]; [destruct Hu|].
    simpl in Hu.
    change (parse_at (S (S f)) tb 4 ((k, t) :: r)) with
      (match unop_of k with
       | Some o => mapr (EUn o) (parse_at (S f) tb 4 r)
       | None => parse_at (S f) tb 5 ((k, t) :: r)
       end).
    rewrite Hu. exact H.
Qed.

Lemma fail_up : forall k f tb lv ts,
  lv + k <= 12 -> parse_at (S f) tb (lv + k) ts = PFail -> not_unop ts ->
  parse_at (S f + k) tb lv ts = PFail.
Proof.
  induction k as [|k IH]; intros f tb lv ts Hle H Hu.
  - rewrite Nat.add_0_r in *. exact H.
  - replace (S f + S k) with (S (S f) + k) by lia.
    apply IH; try lia; try exact Hu.
    replace (lv + S k) with (S (lv + k)) in H by lia.
    apply fail_up1; try lia; auto.
Qed.

Lemma rparen_fail : forall f tb t r, parse_at (12 + f) tb 1 ((KRParen, t) :: r) = PFail.
Proof.
  intros. replace (12 + f) with (S f + 11) by lia.
  apply fail_up; try lia.
  - change (parse_at (S f) tb (1 + 11) ((KRParen, t) :: r)) with
      (primary (parse_at f) tb f ((KRParen, t) :: r)).
    apply primary_rparen.
  - reflexivity.
Qed.

(* ----------------------------------------------- unfolding equations *)
Definition bin_level (l : nat) : bool :=
  match l with 2 | 3 | 5 | 6 | 7 | 8 | 9 | 10 | 11 => true | _ => false end.

Lemma parse_at_bin : forall f tb l ts, bin_level l = true ->
  parse_at (S f) tb l ts = bindr (parse_at f tb (S l) ts) (bin_loop (parse_at f) tb f l).
Proof.
  intros f tb l ts H.
  destruct l as [|[|[|[|[|[|[|[|[|[|[|[|l]]]]]]]]]]]]; try discriminate; reflexivity.
Qed.
Lemma parse_at_1 : forall f tb ts,
  parse_at (S f) tb 1 ts = bindr (parse_at f tb 2 ts) (tern_loop (parse_at f) tb f).
Proof. reflexivity. Qed.
Lemma parse_at_4 : forall f tb k t r,
  parse_at (S f) tb 4 ((k, t) :: r) =
  match unop_of k with
  | Some o => mapr (EUn o) (parse_at f tb 4 r)
  | None => parse_at f tb 5 ((k, t) :: r)
  end.
Proof. reflexivity. Qed.
Lemma parse_at_12 : forall f tb ts, parse_at (S f) tb 12 ts = primary (parse_at f) tb f ts.
Proof. reflexivity. Qed.
Lemma bin_loop_S : forall pe tb g lv a ts,
  bin_loop pe tb (S g) lv a ts =
  match binop lv ts with
  | Some (mk, r) => bindr (pe tb (S lv) r) (fun b r' => bin_loop pe tb g lv (mk a b) r')
  | None => POk a ts
  end.
Proof. reflexivity. Qed.
Lemma tern_loop_S : forall pe tb g c ts,
  tern_loop pe tb (S g) c ts =
  match ts with
  | (KQuestion, _) :: (KColon, _) :: r =>
      bindr (pe tb 2 r) (fun e r' => tern_loop pe tb g (ECond c None e) r')
  | (KQuestion, _) :: r =>
      bind_tok (pe true 1 r) (is_colon) (fun t r' =>
        bindr (pe tb 2 r') (fun e r'' => tern_loop pe tb g (ECond c (Some t) e) r''))
  | _ => POk c ts
  end.
Proof. reflexivity. Qed.

(* ------------------------------------------------- printable programs *)
Definition str_ok (s : bytes) : bool :=
  forallb (fun c => negb (c =? 34)%N && negb (c =? 92)%N) s.
Definition var_ok (x : bytes) : bool := is_varname (word_kind (runes_of x)).
Definition call_ok (f : bytes) : bool :=
  is_ident (word_kind (runes_of f)) && bytes_eqb (upper_name f) f.
Definition int_ok (z : Z) : bool :=
  (0 <=? z)%Z &&
  match int_value (digits (Z.to_N z)) with Some z' => (z' =? z)%Z | None => false end.

(* the expression sub-language of the round-trip theorem *)
Fixpoint printable (e : expr) : bool :=
  match e with
  | ENone | EBool _ => true
  | EInt z => int_ok z
  | EStr s => str_ok s
  | EVar x | EParam x => var_ok x
  | EUn _ a | ESuppress a => printable a
  | ELog _ a b | ECmp _ a b | EIn _ a b | EQuant _ _ a b | ELike _ a b | ERegex _ a b
  | EMath _ a b => printable a && printable b
  | ECond c t f =>
      printable c && match t with Some t' => printable t' | None => true end && printable f
  | EArr es => forallb printable es
  | ECall f args => call_ok f && forallb printable args
  | _ => false
  end.

Fixpoint size (e : expr) : nat :=
  match e with
  | EUn _ a | ESuppress a => S (size a)
  | ELog _ a b | ECmp _ a b | EIn _ a b | EQuant _ _ a b | ELike _ a b | ERegex _ a b
  | EMath _ a b => S (size a + size b)
  | ECond c t f => S (size c + match t with Some t' => size t' | None => 0 end + size f)
  | EArr es | ECall _ es => S (fold_right (fun x n => size x + n) 0 es)
  | _ => 1
  end.
Definition need (e : expr) : nat := 32 * size e.

Lemma size_pos : forall e, 1 <= size e.
Proof. destruct e; simpl; lia. Qed.

Lemma size_in : forall (es : list expr) x, In x es -> size x <= fold_right (fun x n => size x + n) 0 es.
Proof.
  induction es as [|y es IH]; intros x Hin; [destruct Hin|].
  simpl. destruct Hin as [->|Hin]; [lia|]. specialize (IH x Hin). lia.
Qed.

(* ----------------------------------------------------- token facts *)
Definition good_head (k : kind) : bool :=
  match k with
  | KNone | KBool | KInt | KString | KParam | KNot | KMinus | KPlus | KLBrack | KLParen => true
  | _ => is_varname k
  end.

Lemma bytes_eqb_eq : forall a b, bytes_eqb a b = true -> a = b.
Proof.
  unfold bytes_eqb. induction a as [|x a IH]; intros [|y b] H; simpl in H; try discriminate; auto.
  destruct (N.compare x y) eqn:E; try discriminate.
  apply N.compare_eq in E. subst. f_equal. apply IH. exact H.
Qed.

Lemma unesc_id : forall s, str_ok s = true -> unesc s = s.
Proof.
  induction s as [|c s IH]; intros H; [reflexivity|].
  simpl in H. apply andb_prop in H. destruct H as [Hc Hs].
  apply andb_prop in Hc. destruct Hc as [_ Hb].
  simpl. destruct (c =? 92)%N; [discriminate|]. f_equal. auto.
Qed.

Lemma firstn_app_exact : forall A (l r : list A), firstn (List.length l) (l ++ r) = l.
Proof. induction l; intros; simpl; [reflexivity|f_equal; auto]. Qed.

Lemma str_inner_quote : forall s, str_inner (34%N :: s ++ [34%N]) = s.
Proof.
  intros s. unfold str_inner. cbn [quote_width].
  replace (List.length (34%N :: s ++ [34%N]) - 2 * 1) with (List.length s).
  - cbn [skipn]. apply firstn_app_exact.
  - cbn [List.length]. rewrite app_length. simpl. lia.
Qed.

Lemma str_value_quote : forall s, str_ok s = true -> str_value (snd (quote_tok s)) = s.
Proof.
  intros s H. unfold quote_tok, str_value. cbn [snd].
  rewrite str_inner_quote. apply unesc_id. exact H.
Qed.

(* the continuation cannot extend a primary: no call parenthesis, no range,
   no member path *)
Definition no_postfix (rest : toks) : Prop :=
  match rest with
  | (KLParen, _) :: _ | (KRange, _) :: _ | (KDot, _) :: _ | (KLBrack, _) :: _ => False
  | (KQuestion, _) :: (KDot, _) :: _ => False
  | _ => True
  end.

Ltac rest_cases rest :=
  let k := fresh "k" in let t := fresh "t" in let r := fresh "r" in
  destruct rest as [|[k t] r]; [|destruct k]; simpl in *; try tauto; try reflexivity.

Lemma path_none : forall pe g rest, no_postfix rest -> parse_path pe (S g) rest = POk [] rest.
Proof.
  intros pe g rest H. rest_cases rest.
  rest_cases r.
Qed.

Lemma with_path_none : forall pe g src rest,
  no_postfix rest -> with_path pe (S g) src rest = POk src rest.
Proof. intros. unfold with_path. rewrite path_none by assumption. reflexivity. Qed.

Lemma after_name_none : forall pe g a rest,
  no_postfix rest -> after_name pe (S g) a rest = POk a rest.
Proof.
  intros pe g a rest H. unfold after_name.
  destruct rest as [|[k t] r]; [apply with_path_none; exact H|].
  destruct k; try (apply with_path_none; exact H). destruct H.
Qed.

Lemma starts_path_none : forall rest, no_postfix rest -> starts_path rest = false.
Proof. intros rest H. rest_cases rest. rest_cases r. Qed.

Lemma call_start_no : forall k t rest,
  no_postfix rest -> k <> KNsSeg -> is_call_start ((k, t) :: rest) = false.
Proof.
  intros k t rest H Hk. unfold is_call_start.
  destruct k; try congruence; rest_cases rest.
Qed.

Lemma varname_not_ns : forall k, is_varname k = true -> k <> KNsSeg.
Proof. intros k H E; subst; discriminate. Qed.

Lemma primary_var : forall pe tb g k x rest,
  is_varname k = true -> no_postfix rest ->
  primary pe tb (S g) ((k, x) :: rest) = POk (EVar x) rest.
Proof.
  intros pe tb g k x rest Hk H. unfold primary.
  rewrite call_start_no by (auto using varname_not_ns).
  destruct k; try discriminate; apply after_name_none; exact H.
Qed.

Lemma primary_param : forall pe tb g t0 k x rest,
  is_varname k = true -> no_postfix rest ->
  primary pe tb (S g) ((KParam, t0) :: (k, x) :: rest) = POk (EParam x) rest.
Proof.
  intros pe tb g t0 k x rest Hk H. unfold primary.
  assert (E : is_call_start ((KParam, t0) :: (k, x) :: rest) = false).
  { unfold is_call_start. destruct k; try discriminate; reflexivity. }
  rewrite E. rewrite Hk. apply after_name_none; exact H.
Qed.

Lemma primary_none : forall pe tb g t rest,
  no_postfix rest -> primary pe tb g ((KNone, t) :: rest) = POk ENone rest.
Proof.
  intros. unfold primary. rewrite call_start_no by (auto; discriminate). reflexivity.
Qed.

Lemma primary_bool : forall pe tb g t rest,
  no_postfix rest -> primary pe tb g ((KBool, t) :: rest) = POk (EBool (bool_value t)) rest.
Proof.
  intros. unfold primary. rewrite call_start_no by (auto; discriminate). reflexivity.
Qed.

Lemma primary_str : forall pe tb g t rest,
  no_postfix rest -> primary pe tb g ((KString, t) :: rest) = POk (EStr (str_value t)) rest.
Proof.
  intros. unfold primary. rewrite call_start_no by (auto; discriminate). reflexivity.
Qed.

Lemma primary_int : forall pe tb g t z rest,
  int_value t = Some z -> no_postfix rest ->
  primary pe tb g ((KInt, t) :: rest) = POk (EInt z) rest.
Proof.
  intros pe tb g t z rest Hz H. unfold primary.
  rewrite call_start_no by (auto; discriminate). rewrite Hz.
  rest_cases rest.
Qed.

(* ------------------------------------------------ contexts *)
Definition closer (k : kind) : bool :=
  match k with KRParen | KRBrack | KComma | KColon => true | _ => false end.

Lemma stops_closer : forall k t r l, closer k = true -> stops l ((k, t) :: r).
Proof.
  intros k t r l H.
  destruct k; try discriminate;
    destruct l as [|[|[|[|[|[|[|[|[|[|[|[|l]]]]]]]]]]]]; simpl; try reflexivity; try congruence; exact I.
Qed.

Lemma no_postfix_closer : forall k t r, closer k = true -> no_postfix ((k, t) :: r).
Proof. intros k t r H. destruct k; try discriminate; exact I. Qed.

Definition q_ok (tb : bool) (B : nat) (rest : toks) : Prop :=
  match rest with
  | (KQuestion, _) :: r =>
      if tb then match r with (k, _) :: _ => follows_operand k = false | [] => False end
      else forall f, B <= f -> tern_ahead (parse_at f) r = Some true
  | _ => True
  end.

Lemma q_ok_closer : forall tb B k t r, closer k = true -> q_ok tb B ((k, t) :: r).
Proof. intros tb B k t r H. destruct k; try discriminate; exact I. Qed.

Lemma postfix_q_keep : forall tb B f e rest,
  q_ok tb B rest -> B <= f -> postfix_q (parse_at f) tb e rest = POk e rest.
Proof.
  intros tb B f e rest H Hf. unfold postfix_q.
  destruct rest as [|[k t] r]; [reflexivity|].
  destruct k; try reflexivity.
  simpl in H. destruct tb.
  - destruct r as [|[k2 t2] r2]; [destruct H|]. rewrite H. reflexivity.
  - rewrite (H f Hf). reflexivity.
Qed.

Definition stops_from (lv : nat) (rest : toks) : Prop := forall l, lv <= l < 12 -> stops l rest.

Definition ctx_ok (tb : bool) (B : nat) (lv : nat) (rest : toks) : Prop :=
  stops_from lv rest /\ no_postfix rest /\ q_ok tb B rest.

Lemma ctx_closer : forall tb B lv k t r, closer k = true -> ctx_ok tb B lv ((k, t) :: r).
Proof.
  intros. split; [|split].
  - intros l _. apply stops_closer; assumption.
  - apply no_postfix_closer; assumption.
  - apply q_ok_closer; assumption.
Qed.

Lemma ctx_weaken : forall tb B lv lv' rest, lv <= lv' -> ctx_ok tb B lv rest -> ctx_ok tb B lv' rest.
Proof.
  intros tb B lv lv' rest Hle [Hs [Hn Hq]]. split; [|split]; auto.
  intros l Hl. apply Hs. lia.
Qed.

(* the error operator is taken in front of a closing parenthesis *)
Lemma postfix_q_suppress : forall f tb e t t2 r,
  postfix_q (parse_at (12 + f)) tb e ((KQuestion, t) :: (KRParen, t2) :: r)
  = POk (ESuppress e) ((KRParen, t2) :: r).
Proof.
  intros. unfold postfix_q. destruct tb.
  - reflexivity.
  - unfold tern_ahead. rewrite rparen_fail. reflexivity.
Qed.

(* ------------------------------------------------ binary operators *)
(* the view of a binary node: level, operands, operator tokens, constructor *)
Definition bin_view (e : expr) : option (nat * expr * expr * toks * (expr -> expr -> expr)) :=
  match e with
  | ELog LOr a b => Some (2, a, b, [tk KOr "OR"], ELog LOr)
  | ELog LAnd a b => Some (3, a, b, [tk KAnd "AND"], ELog LAnd)
  | ELike n a b => Some (5, a, b, like_toks n, ELike n)
  | EIn n a b => Some (6, a, b, in_toks n, EIn n)
  | EQuant q c a b =>
      Some (7, a, b, quant_tok q :: match c with QCmp o => [cmp_tok o] | QIn n => in_toks n end,
            EQuant q c)
  | ECmp o a b => Some (8, a, b, [cmp_tok o], ECmp o)
  | ERegex n a b =>
      Some (9, a, b, [if n then tk KRegexNotMatch "!~" else tk KRegexMatch "=~"], ERegex n)
  | EMath o a b =>
      Some (match o with MAdd | MSub => 10 | _ => 11 end, a, b, [math_tok o], EMath o)
  | _ => None
  end.

Lemma bin_view_spec : forall extra e L a b ops mk,
  bin_view e = Some (L, a, b, ops, mk) ->
  e = mk a b /\ level e = L /\ bin_level L = true /\
  body extra e = pr extra L a ++ ops ++ pr extra (S L) b /\
  (forall r, binop L (ops ++ r) = Some (mk, r)) /\
  (forall r l, S L <= l < 12 -> stops l (ops ++ r)) /\
  (forall r, no_postfix (ops ++ r)) /\
  (forall r, hd_kind (ops ++ r) <> Some KQuestion) /\
  size e = S (size a + size b) /\
  printable e = (printable a && printable b)%bool.
Proof.
  intros extra e L a b ops mk H.
  destruct e; try discriminate; simpl in H;
    repeat match goal with
           | x : logop |- _ => destruct x
           | x : mathop |- _ => destruct x
           end;
    inversion H; subst; clear H;
    repeat split; try reflexivity;
    intros;
    repeat match goal with
           | x : bool |- _ => destruct x
           | x : cmpop |- _ => destruct x
           | x : quant |- _ => destruct x
           | x : qcmp |- _ => destruct x
           end;
    try reflexivity; try exact I; try (simpl; congruence);
    match goal with
    | Hl : _ <= ?l < 12 |- stops ?l _ =>
        destruct l as [|[|[|[|[|[|[|[|[|[|[|[|l]]]]]]]]]]]]; simpl; try lia; try reflexivity;
        try congruence; exact I
    end.
Qed.

(* ====================================================== the round trip *)
Lemma good_head_varname : forall k, is_varname k = true -> good_head k = true /\ unop_of k = None.
Proof. intros k H. destruct k; try discriminate; split; reflexivity. Qed.

Lemma wrap_cons : forall b ts, ts <> [] ->
  exists k t r, wrap b ts = (k, t) :: r /\
                (b = true -> k = KLParen) /\
                (b = false -> exists r0, ts = (k, t) :: r0).
Proof.
  intros b ts Hne. destruct b; simpl.
  - exists KLParen, (bs "("), (ts ++ [RP]). repeat split; auto. discriminate.
  - destruct ts as [|[k t] r]; [congruence|]. exists k, t, r. repeat split; try discriminate.
    intros _. exists r. reflexivity.
Qed.

Section RoundTrip.
  Variable extra : expr -> bool.
  Local Notation bodyx := (body extra).
  Local Notation prx := (pr extra).
  Local Notation needsx := (needs extra).

  Definition head_ok (e : expr) : Prop :=
    exists k t r, bodyx e = (k, t) :: r /\ good_head k = true /\ (5 <= level e -> unop_of k = None).

  Lemma head_of_left : forall L a tl (lev : nat),
    head_ok a -> L <= lev ->
    exists k t r, wrap (needsx L a) (bodyx a) ++ tl = (k, t) :: r /\ good_head k = true /\
                  (5 <= L -> unop_of k = None).
  Proof.
    intros L a tl lev (k & t & r & Hb & Hg & Hu) _.
    destruct (needsx L a) eqn:N; simpl.
    - exists KLParen, (bs "("), ((bodyx a ++ [RP]) ++ tl). repeat split; reflexivity.
    - rewrite Hb. exists k, t, (r ++ tl). repeat split; auto.
      intros H5. apply Hu. unfold needs in N. apply Bool.orb_false_elim in N. destruct N as [N _].
      apply Nat.ltb_ge in N. lia.
  Qed.

  Lemma body_head : forall e, printable e = true -> head_ok e.
  Proof.
    induction e; intros P; simpl in P; try discriminate.
    - (* ENone *) exists KNone, (bs "NONE"), []. repeat split; reflexivity.
    - (* EBool *) destruct b; [exists KBool, (bs "true"), [] | exists KBool, (bs "false"), []]; repeat split; reflexivity.
    - (* EInt *) unfold int_ok in P. apply andb_prop in P. destruct P as [P0 _].
      apply Z.leb_le in P0.
      assert (E : (z <? 0)%Z = false) by (apply Z.ltb_ge; lia).
      exists KInt, (digits (Z.to_N z)), []. repeat split; try reflexivity.
      cbn [body]. rewrite E. reflexivity.
    - (* EStr *) eexists _, _, _. repeat split; reflexivity.
    - (* EArr *) eexists _, _, _. repeat split; reflexivity.
    - (* EVar *) unfold var_ok in P. destruct (good_head_varname _ P) as [G U].
      exists (word_kind (runes_of x)), x, []. repeat split; auto.
    - (* EParam *) eexists _, _, _. repeat split; reflexivity.
    - (* EUn *) destruct o; eexists _, _, _; (repeat split; try reflexivity; simpl; lia).
    - (* ELog *)
      apply andb_prop in P; destruct P as [P1 P2].
      assert (Ha : head_ok e1) by (apply IHe1; assumption).
      destruct o; simpl.
      + destruct (head_of_left 3 e1 (tk KAnd "AND" :: wrap (needsx 4 e2) (bodyx e2)) 3 Ha (le_n _)) as (k & t & r & E & G & U).
        exists k, t, r. repeat split; auto; intros; try apply U; simpl in *; lia.
      + destruct (head_of_left 2 e1 (tk KOr "OR" :: wrap (needsx 3 e2) (bodyx e2)) 2 Ha (le_n _)) as (k & t & r & E & G & U).
        exists k, t, r. repeat split; auto; intros; try apply U; simpl in *; lia.
    - (* ECond *)
      apply andb_prop in P; destruct P as [P1 P2].
      apply andb_prop in P1. destruct P1 as [Pc Pt].
      assert (Ha : head_ok e1) by (apply IHe1; assumption).
      destruct (head_of_left 1 e1 (tk KQuestion "?" :: match t with Some t' => wrap (needsx 2 t') (bodyx t') | None => [] end ++ tk KColon ":" :: wrap (needsx 2 e2) (bodyx e2)) 1 Ha (le_n _)) as (k & t0 & r & E & G & U).
      exists k, t0, r. repeat split; auto; intros; try apply U; simpl in *; lia.
    - (* ECmp *)
      apply andb_prop in P; destruct P as [P1 P2].
      assert (Ha : head_ok e1) by (apply IHe1; assumption).
      destruct (head_of_left 8 e1 (cmp_tok o :: wrap (needsx 9 e2) (bodyx e2)) 8 Ha (le_n _)) as (k & t & r & E & G & U).
      exists k, t, r. repeat split; auto; intros; try apply U; simpl in *; lia.
    - (* EIn *)
      apply andb_prop in P; destruct P as [P1 P2].
      assert (Ha : head_ok e1) by (apply IHe1; assumption).
      destruct (head_of_left 6 e1 (in_toks neg ++ wrap (needsx 7 e2) (bodyx e2)) 6 Ha (le_n _)) as (k & t & r & E & G & U).
      exists k, t, r. repeat split; auto; intros; try apply U; simpl in *; lia.
    - (* EQuant *)
      apply andb_prop in P; destruct P as [P1 P2].
      assert (Ha : head_ok e1) by (apply IHe1; assumption).
      destruct (head_of_left 7 e1 (quant_tok q :: match c with QCmp o => [cmp_tok o] | QIn n => in_toks n end ++ wrap (needsx 8 e2) (bodyx e2)) 7 Ha (le_n _)) as (k & t & r & E & G & U).
      exists k, t, r. repeat split; auto; intros; try apply U; simpl in *; lia.
    - (* ELike *)
      apply andb_prop in P; destruct P as [P1 P2].
      assert (Ha : head_ok e1) by (apply IHe1; assumption).
      destruct (head_of_left 5 e1 (like_toks neg ++ wrap (needsx 6 e2) (bodyx e2)) 5 Ha (le_n _)) as (k & t & r & E & G & U).
      exists k, t, r. repeat split; auto; intros; try apply U; simpl in *; lia.
    - (* ERegex *)
      apply andb_prop in P; destruct P as [P1 P2].
      assert (Ha : head_ok e1) by (apply IHe1; assumption).
      destruct (head_of_left 9 e1 ((if neg then tk KRegexNotMatch "!~" else tk KRegexMatch "=~") :: wrap (needsx 10 e2) (bodyx e2)) 9 Ha (le_n _)) as (k & t & r & E & G & U).
      exists k, t, r. repeat split; auto; intros; try apply U; simpl in *; lia.
    - (* EMath *)
      apply andb_prop in P; destruct P as [P1 P2].
      assert (Ha : head_ok e1) by (apply IHe1; assumption).
      destruct o; simpl.
      + destruct (head_of_left 10 e1 (math_tok MAdd :: wrap (needsx 11 e2) (bodyx e2)) 10 Ha (le_n _)) as (k & t & r & E & G & U).
        exists k, t, r. repeat split; auto; intros; try apply U; simpl in *; lia.
      + destruct (head_of_left 10 e1 (math_tok MSub :: wrap (needsx 11 e2) (bodyx e2)) 10 Ha (le_n _)) as (k & t & r & E & G & U).
        exists k, t, r. repeat split; auto; intros; try apply U; simpl in *; lia.
      + destruct (head_of_left 11 e1 (math_tok MMul :: wrap (needsx 12 e2) (bodyx e2)) 11 Ha (le_n _)) as (k & t & r & E & G & U).
        exists k, t, r. repeat split; auto; intros; try apply U; simpl in *; lia.
      + destruct (head_of_left 11 e1 (math_tok MDiv :: wrap (needsx 12 e2) (bodyx e2)) 11 Ha (le_n _)) as (k & t & r & E & G & U).
        exists k, t, r. repeat split; auto; intros; try apply U; simpl in *; lia.
      + destruct (head_of_left 11 e1 (math_tok MMod :: wrap (needsx 12 e2) (bodyx e2)) 11 Ha (le_n _)) as (k & t & r & E & G & U).
        exists k, t, r. repeat split; auto; intros; try apply U; simpl in *; lia.
    - (* ECall *) apply andb_prop in P; destruct P as [P1 P2].
      unfold call_ok in P1. apply andb_prop in P1. destruct P1 as [Pi _].
      exists (word_kind (runes_of f)), f, (LP :: (fix go (l : list expr) : toks :=
           match l with
           | [] => []
           | [x] => wrap (needsx 1 x) (bodyx x)
           | x :: r => wrap (needsx 1 x) (bodyx x) ++ COMMA :: go r
           end) args ++ [RP]).
      repeat split.
      + destruct (word_kind (runes_of f)); try discriminate; reflexivity.
      + intros _. destruct (word_kind (runes_of f)); try discriminate; reflexivity.
    - (* ESuppress *) eexists _, _, _. repeat split; reflexivity.
  Qed.
End RoundTrip.

Section PrList.
  Variable extra : expr -> bool.
  Fixpoint pr_list (l : list expr) : toks :=
    match l with
    | [] => []
    | [x] => pr extra 1 x
    | x :: r => pr extra 1 x ++ COMMA :: pr_list r
    end.
End PrList.

Lemma body_arr : forall extra es,
  body extra (EArr es) = tk KLBrack "[" :: pr_list extra es ++ [tk KRBrack "]"].
Proof. reflexivity. Qed.
Lemma body_call : forall extra f args,
  body extra (ECall f args) = word_tok f :: LP :: pr_list extra args ++ [RP].
Proof. reflexivity. Qed.

Lemma primary_paren : forall pe tb g ts,
  hd_kind ts <> Some KFor ->
  primary pe tb g (LP :: ts) =
  bind_tok (pe false 1 ts) (is_rparen) (fun e r' => postfix_q pe tb e r').
Proof.
  intros pe tb g ts H. unfold primary, LP, tk.
  destruct ts as [|[k t] r]; [reflexivity|].
  destruct k; try reflexivity. simpl in H. congruence.
Qed.

Lemma good_head_facts : forall k, good_head k = true ->
  k <> KFor /\ k <> KColon /\ k <> KDot /\ k <> KQuestion /\ is_rparen k = false /\ is_rbrack k = false
  /\ k <> KNsSeg.
Proof. intros k H. destruct k; try discriminate; repeat split; congruence. Qed.

Lemma bin_view_none : forall e, bin_view e = None -> bin_level (level e) = false.
Proof.
  intros e H. destruct e; try discriminate; try reflexivity.
  - simpl. destruct (z <? 0)%Z; reflexivity.
  - destruct o; discriminate.
Qed.

Lemma level_one : forall e, level e = 1 -> exists c t f, e = ECond c t f.
Proof.
  intros e H. destruct e; simpl in H; try discriminate; try (destruct o; discriminate).
  - destruct (z <? 0)%Z; discriminate.
  - eauto.
Qed.

Lemma level_ge_1 : forall e, 1 <= level e.
Proof.
  intros e. destruct e; simpl; try lia; try (destruct o; lia).
  destruct (z <? 0)%Z; lia.
Qed.

Lemma level_le_12 : forall e, level e <= 12.
Proof.
  intros e. destruct e; simpl; try lia; try (destruct o; lia).
  destruct (z <? 0)%Z; lia.
Qed.

Section RT2.
  Variable extra : expr -> bool.
  Local Notation bodyx := (body extra).
  Local Notation prx := (pr extra).
  Local Notation needsx := (needs extra).

  Definition GoodAt (e : expr) : Prop := forall tb lv rest B f,
      lv <= level e -> (tb = true -> 2 <= level e) ->
      ctx_ok tb B lv rest -> need e + B <= f ->
      parse_at f tb lv (bodyx e ++ rest) = POk e rest.

  Lemma body_hd_kind : forall e rest, printable e = true ->
    exists k, hd_kind (bodyx e ++ rest) = Some k /\ good_head k = true /\
              (5 <= level e -> unop_of k = None).
  Proof.
    intros e rest P. destruct (body_head extra e P) as (k & t & r & Hb & Hg & Hu).
    exists k. rewrite Hb. repeat split; auto.
  Qed.

  Lemma pr_hd_kind : forall m e rest, printable e = true ->
    exists k, hd_kind (prx m e ++ rest) = Some k /\ good_head k = true /\
              (5 <= m -> unop_of k = None).
  Proof.
    intros m e rest P. unfold pr, wrap. destruct (needsx m e) eqn:N.
    - exists KLParen. repeat split; reflexivity.
    - destruct (body_hd_kind e rest P) as (k & Hk & Hg & Hu). exists k. repeat split; auto.
      intros H5. apply Hu. unfold needs in N. apply Bool.orb_false_elim in N. destruct N as [N _].
      apply Nat.ltb_ge in N. lia.
  Qed.

  Lemma wrapped_of_good : forall e, printable e = true -> GoodAt e ->
    forall tb lv rest B f,
      lv <= 12 -> ctx_ok tb B lv rest -> need e + 16 + B <= f ->
      parse_at f tb lv (LP :: bodyx e ++ RP :: rest) = POk e rest.
  Proof.
    intros e P G tb lv rest B f Hlv [Hs [Hn Hq]] Hf.
    assert (Hsz := size_pos e). unfold need in Hf.
    replace f with (S (f + lv - 13) + (12 - lv)) by lia.
    apply from_primary; try lia.
    - rewrite primary_paren.
      + rewrite (G false 1 (RP :: rest) 0).
        * unfold RP, tk. cbn [bind_tok is_rparen]. apply postfix_q_keep with (B := B); [exact Hq|lia].
        * apply level_ge_1.
        * discriminate.
        * apply ctx_closer. reflexivity.
        * unfold need. lia.
      + destruct (body_hd_kind e (RP :: rest) P) as (k & Hk & Hg & _). rewrite Hk.
        destruct (good_head_facts k Hg) as [HF _]. congruence.
    - exact Hs.
    - intros _. reflexivity.
  Qed.
End RT2.

Section RT3.
  Variable extra : expr -> bool.
  Local Notation bodyx := (body extra).
  Local Notation prx := (pr extra).
  Local Notation needsx := (needs extra).
  Local Notation GoodAt := (GoodAt extra).

  Definition GoodPr (e : expr) : Prop := forall tb lv m rest B f,
      lv <= m -> m <= 12 -> (tb = true -> 2 <= m) ->
      ctx_ok tb B lv rest -> need e + 16 + B <= f ->
      parse_at f tb lv (prx m e ++ rest) = POk e rest.

  Lemma goodpr_of_good : forall e, printable e = true -> GoodAt e -> GoodPr e.
  Proof.
    intros e P G tb lv m rest B f Hlm Hm Htb Hc Hf.
    unfold pr, wrap. destruct (needsx m e) eqn:N.
    - cbn [app]. rewrite <- app_assoc. cbn [app].
      apply (wrapped_of_good extra e P G tb lv rest B f); auto. lia.
    - unfold needs in N. apply Bool.orb_false_elim in N. destruct N as [N _].
      apply Nat.ltb_ge in N.
      apply (G tb lv rest B f); try lia; auto.
      intros E. specialize (Htb E). lia.
  Qed.

  (* a primary that does not use the expression parser *)
  Lemma leaf_good : forall e ts,
    bodyx e = ts -> level e = 12 -> not_unop ts ->
    (forall pe tb g rest, no_postfix rest -> primary pe tb (S g) (ts ++ rest) = POk e rest) ->
    GoodAt e.
  Proof.
    intros e ts Hb Hl Hu Hp tb lv rest B f Hlv Htb [Hs [Hn Hq]] Hf.
    assert (Hsz := size_pos e). unfold need in Hf. rewrite Hb.
    replace f with (S (S (f + lv - 14)) + (12 - lv)) by lia.
    apply from_primary; try lia.
    - apply Hp. exact Hn.
    - exact Hs.
    - intros _. destruct ts as [|[k t] r]; [destruct Hu|]. exact Hu.
  Qed.

  Lemma good_none : GoodAt ENone.
  Proof.
    apply (leaf_good ENone [tk KNone "NONE"]); try reflexivity.
    intros. apply primary_none. assumption.
  Qed.
  Lemma good_bool : forall b, GoodAt (EBool b).
  Proof.
    intros b. apply (leaf_good (EBool b) [if b then tk KBool "true" else tk KBool "false"]); try reflexivity.
    - destruct b; reflexivity.
    - intros. destruct b; cbn [app]; unfold tk; rewrite primary_bool by assumption; reflexivity.
  Qed.
  Lemma good_int : forall z, int_ok z = true -> GoodAt (EInt z).
  Proof.
    intros z P. unfold int_ok in P. apply andb_prop in P. destruct P as [P0 P1].
    apply Z.leb_le in P0.
    assert (E : (z <? 0)%Z = false) by (apply Z.ltb_ge; lia).
    apply (leaf_good (EInt z) [(KInt, digits (Z.to_N z))]).
    - cbn [body]. rewrite E. reflexivity.
    - cbn [level]. rewrite E. reflexivity.
    - reflexivity.
    - intros. cbn [app]. apply primary_int; [|assumption].
      destruct (int_value (digits (Z.to_N z))) as [z'|]; [|discriminate].
      apply Z.eqb_eq in P1. congruence.
  Qed.
  Lemma good_str : forall s, str_ok s = true -> GoodAt (EStr s).
  Proof.
    intros s P. apply (leaf_good (EStr s) [quote_tok s]); try reflexivity.
    intros. cbn [app]. unfold quote_tok. rewrite primary_str by assumption.
    f_equal. f_equal. apply (str_value_quote s P).
  Qed.
  Lemma good_var : forall x, var_ok x = true -> GoodAt (EVar x).
  Proof.
    intros x P. apply (leaf_good (EVar x) [word_tok x]); try reflexivity.
    - unfold word_tok, not_unop. apply good_head_varname. exact P.
    - intros. cbn [app]. unfold word_tok. apply primary_var; assumption.
  Qed.
  Lemma good_param : forall x, var_ok x = true -> GoodAt (EParam x).
  Proof.
    intros x P. apply (leaf_good (EParam x) [tk KParam "@"; word_tok x]); try reflexivity.
    intros. cbn [app]. unfold word_tok, tk. apply primary_param; assumption.
  Qed.
End RT3.

Lemma parse_seq_step : forall pe g is_close ts k,
  hd_kind ts = Some k -> is_close k = false ->
  parse_seq pe (S g) is_close ts =
  match pe false 1 ts with
  | POk e ((k', _) :: r') =>
      if is_close k' then POk [e] r'
      else match k' with
           | KComma => mapr (cons e) (parse_seq pe g is_close r')
           | _ => PFail
           end
  | POk _ [] => PFail
  | PFail => PFail
  | PFuel => PFuel
  end.
Proof.
  intros pe g is_close ts k H Hc. destruct ts as [|[k0 t0] r0]; [discriminate|].
  simpl in H. inversion H; subst. cbn [parse_seq]. rewrite Hc. reflexivity.
Qed.

Lemma hd_not_unop : forall ts k, hd_kind ts = Some k -> unop_of k = None -> not_unop ts.
Proof. intros ts k H U. destruct ts as [|[k0 t0] r0]; [discriminate|]. simpl in *. congruence. Qed.

Section RT4.
  Variable extra : expr -> bool.
  Local Notation bodyx := (body extra).
  Local Notation prx := (pr extra).
  Local Notation needsx := (needs extra).
  Local Notation GoodAt := (GoodAt extra).
  Local Notation GoodPr := (GoodPr extra).

  Variable n : nat.
  Hypothesis IH : forall e, size e <= n -> printable e = true -> GoodAt e.

  Lemma IHpr : forall e, size e <= n -> printable e = true -> GoodPr e.
  Proof. intros e Hs P. apply goodpr_of_good; auto. Qed.

  Definition sum_size (es : list expr) : nat := fold_right (fun x n => size x + n) 0 es.

  Lemma seq_good : forall es,
    (forall x, In x es -> size x <= n /\ printable x = true) ->
    forall is_close ck ct rest f g,
      is_close ck = true -> closer ck = true -> is_close KComma = false ->
      (forall k, good_head k = true -> is_close k = false) ->
      32 * sum_size es + 16 <= f -> List.length es < g ->
      parse_seq (parse_at f) g is_close (pr_list extra es ++ (ck, ct) :: rest) = POk es rest.
  Proof.
    induction es as [|x es IHes]; intros Hall is_close ck ct rest f g Hck Hcl Hcomma Hgh Hf Hg.
    - destruct g; [simpl in Hg; lia|]. cbn [pr_list app parse_seq]. rewrite Hck. reflexivity.
    - destruct g; [simpl in Hg; lia|].
      destruct (Hall x (or_introl eq_refl)) as [Hsx Px].
      assert (Hx : forall rest', ctx_ok false 0 1 rest' ->
                 parse_at f false 1 (prx 1 x ++ rest') = POk x rest').
      { intros rest' Hc. apply (IHpr x Hsx Px false 1 1 rest' 0 f); auto; try lia; try discriminate.
        unfold need. simpl in Hf. unfold sum_size in Hf. simpl in Hf. lia. }
      destruct es as [|y es'].
      + cbn [pr_list].
        destruct (pr_hd_kind extra 1 x ((ck, ct) :: rest) Px) as (k & Hk & Hgk & _).
        rewrite (parse_seq_step _ _ _ _ k Hk (Hgh k Hgk)).
        rewrite Hx by (apply ctx_closer; exact Hcl). rewrite Hck. reflexivity.
      + change (pr_list extra (x :: y :: es')) with (prx 1 x ++ COMMA :: pr_list extra (y :: es')).
        rewrite <- app_assoc. cbn [app].
        destruct (pr_hd_kind extra 1 x (COMMA :: pr_list extra (y :: es') ++ (ck, ct) :: rest) Px) as (k & Hk & Hgk & _).
        rewrite (parse_seq_step _ _ _ _ k Hk (Hgh k Hgk)).
        rewrite Hx by (apply ctx_closer; reflexivity).
        unfold COMMA, tk. rewrite Hcomma.
        rewrite IHes; auto.
        * intros z Hz. apply Hall. right. exact Hz.
        * simpl in Hf. unfold sum_size in *. simpl in *. lia.
        * simpl in *. lia.
  Qed.

  Lemma loop_step : forall L a b ops mk e tb rest B f g,
    bin_view e = Some (L, a, b, ops, mk) -> size b <= n -> printable b = true ->
    ctx_ok tb B (S L) rest -> need b + 16 + B <= f ->
    bin_loop (parse_at f) tb (S g) L a (ops ++ prx (S L) b ++ rest)
    = bin_loop (parse_at f) tb g L (mk a b) rest.
  Proof.
    intros L a b ops mk e tb rest B f g V Hsb Pb Hc Hf.
    destruct (bin_view_spec extra e L a b ops mk V) as (_ & _ & HL & _ & Hop & _).
    rewrite bin_loop_S. rewrite Hop.
    rewrite (IHpr b Hsb Pb tb (S L) (S L) rest B f); auto.
    - destruct L as [|[|[|[|[|[|[|[|[|[|[|[|L]]]]]]]]]]]]; try discriminate; lia.
    - intros _. destruct L as [|[|L]]; try discriminate; lia.
  Qed.

  Lemma RL : forall m a, size a <= m -> m <= n -> printable a = true ->
    forall L tb rest B f, bin_level L = true -> ctx_ok tb B (S L) rest -> need a + 16 + B <= f ->
    exists c, c <= size a /\ forall g,
      bindr (parse_at f tb (S L) (prx L a ++ rest)) (bin_loop (parse_at f) tb (g + c) L)
      = bin_loop (parse_at f) tb g L a rest.
  Proof.
    induction m as [|m IHm]; intros a Hsa Hmn Pa L tb rest B f HL Hc Hf.
    { pose proof (size_pos a). lia. }
    assert (HL2 : 2 <= L /\ L <= 11).
    { destruct L as [|[|[|[|[|[|[|[|[|[|[|[|L]]]]]]]]]]]]; try discriminate; lia. }
    assert (Ga : GoodAt a) by (apply IH; auto; lia).
    unfold pr, wrap. destruct (needsx L a) eqn:N.
    - exists 0. split; [lia|]. intros g. rewrite Nat.add_0_r.
      cbn [app]. rewrite <- app_assoc. cbn [app].
      rewrite (wrapped_of_good extra a Pa Ga tb (S L) rest B f); auto; try lia.
    - unfold needs in N. apply Bool.orb_false_elim in N. destruct N as [N _].
      apply Nat.ltb_ge in N.
      destruct (Nat.eq_dec (level a) L) as [E|NE].
      + destruct (bin_view a) as [[[[[L' a1] a2] ops] mk]|] eqn:V.
        * destruct (bin_view_spec extra a L' a1 a2 ops mk V) as (Ea & El & _ & Hb & Hop & Hst & Hnp & Hq & Hsz & Hpr).
          assert (HLL : L' = L) by congruence. clear El. subst L'.
          rewrite Hpr in Pa. apply andb_prop in Pa. destruct Pa as [P1 P2].
          destruct (IHm a1) with (L := L) (tb := tb) (rest := ops ++ prx (S L) a2 ++ rest) (B := 0) (f := f)
            as (c & Hcs & Hcg); auto; try lia.
          { split; [|split].
            - intros l Hl. apply Hst. lia.
            - apply Hnp.
            - specialize (Hq (prx (S L) a2 ++ rest)).
              destruct (ops ++ prx (S L) a2 ++ rest) as [|[k t] r]; [exact I|].
              destruct k; try exact I. simpl in Hq. congruence. }
          { unfold need in *. lia. }
          exists (S c). split; [lia|]. intros g.
          rewrite Hb. rewrite <- !app_assoc.
          replace (g + S c) with (S g + c) by lia.
          rewrite Hcg.
          rewrite (loop_step L a1 a2 ops mk a tb rest B f g V); auto; try lia.
          -- rewrite <- Ea. reflexivity.
          -- unfold need in *. lia.
        * apply bin_view_none in V. rewrite E in V. congruence.
      + exists 0. split; [lia|]. intros g. rewrite Nat.add_0_r.
        rewrite (Ga tb (S L) rest B f); auto; try lia.
  Qed.
End RT4.

Lemma tern_loop_S_some : forall pe tb g c q k0 t0 r0,
  k0 <> KColon ->
  tern_loop pe tb (S g) c ((KQuestion, q) :: (k0, t0) :: r0) =
  bind_tok (pe true 1 ((k0, t0) :: r0)) is_colon (fun t r' =>
    bindr (pe tb 2 r') (fun e r'' => tern_loop pe tb g (ECond c (Some t) e) r'')).
Proof. intros. rewrite tern_loop_S. destruct k0; try reflexivity. congruence. Qed.

Lemma tern_loop_S_hd : forall pe tb g c q ts k,
  hd_kind ts = Some k -> k <> KColon ->
  tern_loop pe tb (S g) c ((KQuestion, q) :: ts) =
  bind_tok (pe true 1 ts) is_colon (fun t r' =>
    bindr (pe tb 2 r') (fun e r'' => tern_loop pe tb g (ECond c (Some t) e) r'')).
Proof.
  intros pe tb g c q ts k H HC. destruct ts as [|[k0 t0] r0]; [discriminate|].
  simpl in H. inversion H; subst. apply tern_loop_S_some. exact HC.
Qed.

Lemma no_postfix_q : forall q ts k, hd_kind ts = Some k -> k <> KDot -> no_postfix ((KQuestion, q) :: ts).
Proof.
  intros q ts k H HD. destruct ts as [|[k0 t0] r0]; [exact I|].
  simpl in H. inversion H; subst. destruct k; try exact I. congruence.
Qed.

Lemma tern_ahead_ok : forall pe ts k t x r,
  hd_kind ts = Some k -> k <> KColon -> pe false 1 ts = POk t ((KColon, x) :: r) ->
  tern_ahead pe ts = Some true.
Proof.
  intros pe ts k t x r H HC Hp. unfold tern_ahead. rewrite Hp.
  destruct ts as [|[k0 t0] r0]; [discriminate|].
  simpl in H. inversion H; subst. destruct k; reflexivity.
Qed.

Lemma stops_question : forall l t r, 2 <= l -> stops l ((KQuestion, t) :: r).
Proof.
  intros l t r H.
  destruct l as [|[|[|[|[|[|[|[|[|[|[|[|l]]]]]]]]]]]]; simpl; try lia; try reflexivity; exact I.
Qed.

Section RT5.
  Variable extra : expr -> bool.
  Local Notation bodyx := (body extra).
  Local Notation prx := (pr extra).
  Local Notation needsx := (needs extra).
  Local Notation GoodAt := (GoodAt extra).
  Local Notation GoodPr := (GoodPr extra).

  Variable n : nat.
  Hypothesis IH : forall e, size e <= n -> printable e = true -> GoodAt e.

  Definition opt_size (t : option expr) : nat := match t with Some t' => size t' | None => 0 end.
  Definition opt_ok (t : option expr) : Prop :=
    match t with Some t' => size t' <= n /\ printable t' = true | None => True end.
  Definition opt_toks (t : option expr) : toks := match t with Some t' => prx 2 t' | None => [] end.

  Lemma tern_step : forall c t e0 rest B f g,
    opt_ok t -> size e0 <= n -> printable e0 = true ->
    ctx_ok false B 2 rest -> 32 * opt_size t + need e0 + 16 + B <= f ->
    tern_loop (parse_at f) false (S g) c
      (tk KQuestion "?" :: opt_toks t ++ tk KColon ":" :: prx 2 e0 ++ rest)
    = tern_loop (parse_at f) false g (ECond c t e0) rest.
  Proof.
    intros c t e0 rest B f g Ht Hs0 P0 Hc Hf.
    assert (He0 : parse_at f false 2 (prx 2 e0 ++ rest) = POk e0 rest).
    { apply (IHpr extra n IH e0 Hs0 P0 false 2 2 rest B f); auto; try lia; try discriminate. }
    destruct t as [t'|]; cbn [opt_toks opt_size opt_ok] in *.
    - destruct Ht as [Hst Pt].
      destruct (pr_hd_kind extra 2 t' (tk KColon ":" :: prx 2 e0 ++ rest) Pt) as (k & Hk & Hg & _).
      destruct (good_head_facts k Hg) as (_ & HC & _).
      unfold tk at 1.
      rewrite (tern_loop_S_hd _ _ _ _ _ _ k Hk HC).
      rewrite (IHpr extra n IH t' Hst Pt true 1 2 (tk KColon ":" :: prx 2 e0 ++ rest) 0 f); auto; try lia.
      + unfold tk at 1. cbn [bind_tok is_colon]. rewrite He0. reflexivity.
      + apply ctx_closer. reflexivity.
      + unfold need. lia.
    - cbn [app]. unfold tk. rewrite tern_loop_S. rewrite He0. reflexivity.
  Qed.

  Lemma body_cond : forall c t e0,
    bodyx (ECond c t e0) = prx 1 c ++ tk KQuestion "?" :: opt_toks t ++ tk KColon ":" :: prx 2 e0.
  Proof. intros. destruct t; reflexivity. Qed.

  (* the context of the condition of a ternary *)
  Lemma cond_ctx : forall t e0 rest,
    opt_ok t ->
    ctx_ok false (32 * opt_size t + 16) 2
      (tk KQuestion "?" :: opt_toks t ++ tk KColon ":" :: prx 2 e0 ++ rest).
  Proof.
    intros t e0 rest Ht. split; [|split].
    - intros l Hl. apply stops_question. lia.
    - destruct t as [t'|]; cbn [opt_toks opt_ok] in *.
      + destruct Ht as [_ Pt].
        destruct (pr_hd_kind extra 2 t' (tk KColon ":" :: prx 2 e0 ++ rest) Pt) as (k & Hk & Hg & _).
        destruct (good_head_facts k Hg) as (_ & _ & HD & _).
        unfold tk at 1. apply (no_postfix_q _ _ k Hk HD).
      + exact I.
    - unfold tk at 1. cbn [q_ok]. intros f Hf.
      destruct t as [t'|]; cbn [opt_toks opt_ok opt_size] in *.
      + destruct Ht as [Hst Pt].
        destruct (pr_hd_kind extra 2 t' (tk KColon ":" :: prx 2 e0 ++ rest) Pt) as (k & Hk & Hg & _).
        destruct (good_head_facts k Hg) as (_ & HC & _).
        apply (tern_ahead_ok _ _ k t' (bs ":") (prx 2 e0 ++ rest) Hk HC).
        apply (IHpr extra n IH t' Hst Pt false 1 2 (tk KColon ":" :: prx 2 e0 ++ rest) 0 f); auto; try lia; try discriminate.
        * apply ctx_closer. reflexivity.
        * unfold need. lia.
      + reflexivity.
  Qed.

  Lemma RT : forall m c, size c <= m -> m <= n -> printable c = true ->
    forall rest B f, ctx_ok false B 2 rest -> need c + 16 + B <= f ->
    exists k, k <= size c /\ forall g,
      bindr (parse_at f false 2 (prx 1 c ++ rest)) (tern_loop (parse_at f) false (g + k))
      = tern_loop (parse_at f) false g c rest.
  Proof.
    induction m as [|m IHm]; intros c Hsc Hmn Pc rest B f Hc Hf.
    { pose proof (size_pos c). lia. }
    assert (Gc : GoodAt c) by (apply IH; auto; lia).
    unfold pr, wrap. destruct (needsx 1 c) eqn:N.
    - exists 0. split; [lia|]. intros g. rewrite Nat.add_0_r.
      cbn [app]. rewrite <- app_assoc. cbn [app].
      rewrite (wrapped_of_good extra c Pc Gc false 2 rest B f); auto; try lia.
    - destruct (Nat.eq_dec (level c) 1) as [E|NE].
      + destruct (level_one c E) as (c0 & t0 & f0 & ->).
        simpl in Pc. apply andb_prop in Pc. destruct Pc as [Pc P3].
        apply andb_prop in Pc. destruct Pc as [P1 P2].
        simpl in Hsc.
        assert (Ht : opt_ok t0).
        { destruct t0; cbn [opt_ok]; [split; [lia|exact P2]|exact I]. }
        assert (Hts : opt_size t0 = match t0 with Some t' => size t' | None => 0 end) by reflexivity.
        destruct (IHm c0) with (rest := tk KQuestion "?" :: opt_toks t0 ++ tk KColon ":" :: prx 2 f0 ++ rest)
                               (B := 32 * opt_size t0 + 16) (f := f) as (k & Hks & Hkg); auto; try lia.
        { apply (cond_ctx t0 f0 rest Ht). }
        { unfold need in *. simpl in Hf. rewrite <- Hts in Hf. lia. }
        exists (S k). split; [simpl; lia|]. intros g.
        rewrite body_cond. rewrite <- !app_assoc. cbn [app]. rewrite <- !app_assoc.
        replace (g + S k) with (S g + k) by lia.
        rewrite Hkg.
        apply (tern_step c0 t0 f0 rest B f g Ht); auto; try lia.
        unfold need in *. simpl in Hf. rewrite <- Hts in Hf. lia.
      + exists 0. split; [lia|]. intros g. rewrite Nat.add_0_r.
        pose proof (level_ge_1 c).
        rewrite (Gc false 2 rest B f); auto; try lia. discriminate.
  Qed.
End RT5.
