(* Proofs/ParserProofs.v — properties of the reference parser.
   Part A: a query is accepted only when the whole token list is one program.
   Part B: the parser inverts the printer of Render.v on the expression
           sub-language (literals, names, parameters, all operator levels, the
           ternary, arrays, calls, error suppression, parentheses — minimal or
           redundant), for every continuation that cannot extend the
           expression: precedence and associativity of the three tiers are
           what the printer assumes. *)
From Ferret Require Import Render.
Require Import Lia.
Local Open Scope nat_scope.

(* ------------------------------------------------------------- Part A *)
(* the search over the readings of the undecided '?' tokens *)
Lemma search_sound : forall A (run : list nat -> pres A) cands t0 a r,
  search run cands t0 = POk a r -> exists terns, run terns = POk a r.
Proof.
  intros A run. induction cands as [|p cands IH]; intros t0 a r H.
  - exists t0. exact H.
  - cbn [search] in H. destruct (search run cands t0) as [a' r'| |] eqn:E.
    + inversion H; subst. apply (IH t0 a r E).
    + apply (IH (p :: t0) a r H).
    + discriminate.
Qed.

Lemma search_const : forall A (run : list nat -> pres A) cands t0 a r,
  (forall terns, run terns = POk a r) -> search run cands t0 = POk a r.
Proof.
  intros A run. induction cands as [|p cands IH]; intros t0 a r H.
  - apply H.
  - cbn [search]. rewrite (IH t0 a r H). reflexivity.
Qed.

Lemma search_fail : forall A (run : list nat -> pres A) cands t0,
  (forall terns, run terns = PFail) -> search run cands t0 = PFail.
Proof.
  intros A run. induction cands as [|p cands IH]; intros t0 H.
  - apply H.
  - cbn [search]. rewrite (IH t0 H). apply IH. exact H.
Qed.

Lemma search_none : forall A (run : list nat -> pres A) cands t0,
  (forall terns a r, run terns <> POk a r) -> forall a r, search run cands t0 <> POk a r.
Proof.
  intros A run cands t0 H a r E. destruct (search_sound A run cands t0 a r E) as [terns Ht].
  apply (H terns a r Ht).
Qed.

Lemma whole_ok : forall A (x : pres A) a r, whole x = POk a r -> x = POk a [] /\ r = [].
Proof.
  intros A x a r H. destruct x as [a' r'| |]; try discriminate.
  destruct r'; try discriminate. inversion H; subst. split; reflexivity.
Qed.

(* acceptance means: under some reading of the undecided '?' tokens the
   program read from the front is the whole token list *)
Theorem parse_consumes_all_lemma : forall ts p,
  parse_program ts = Some p ->
  exists terns, parse_prefix_with (choice_of terns) ts = POk p [].
Proof.
  unfold parse_program, parse_query; intros ts p H.
  destruct (search _ _ _) as [q r | |] eqn:E; try discriminate. inversion H; subst.
  destruct (search_sound _ _ _ _ _ _ E) as [terns Ht].
  exists terns. apply whole_ok in Ht. tauto.
Qed.

(* if every reading that reads a program from the front leaves tokens over,
   the query is ill-formed *)
Theorem leftover_is_rejected : forall ts,
  (forall ch p r, parse_prefix_with ch ts = POk p r -> r <> []) ->
  parse_program ts = None.
Proof.
  intros ts H. unfold parse_program, parse_query.
  destruct (search _ _ _) as [q r | |] eqn:E; try reflexivity.
  destruct (search_sound _ _ _ _ _ _ E) as [terns Ht].
  apply whole_ok in Ht. destruct Ht as [Ht _].
  exfalso. apply (H _ _ _ Ht). reflexivity.
Qed.

(* if all readings agree, that is the result *)
Theorem all_readings_agree : forall ts p,
  (forall ch, parse_prefix_with ch ts = POk p []) -> parse_program ts = Some p.
Proof.
  intros ts p H. unfold parse_program, parse_query.
  rewrite (search_const _ _ _ _ p []); [reflexivity|].
  intros terns. rewrite H. reflexivity.
Qed.

(* ------------------------------------------------------------- Part B *)
Section Ch.
(* everything below holds for every oracle [ch] *)
Variable ch : nat -> bool.

Definition hd_kind (ts : toks) : option kind :=
  match ts with (k, _) :: _ => Some k | [] => None end.

Definition not_unop (ts : toks) : Prop :=
  match ts with (k, _) :: _ => unop_of k = None | [] => False end.

(* the loop of level [lv] stops in front of [rest] *)
Definition stops (lv : nat) (rest : toks) : Prop :=
  match lv with
  | 1 => hd_kind rest <> Some KQuestion
  | 4 => True
  | _ => binop lv rest = None
  end.

Lemma bin_loop_stop : forall pe tb f lv a rest,
  binop lv rest = None -> bin_loop pe tb (S f) lv a rest = POk a rest.
Proof. intros; simpl; rewrite H; reflexivity. Qed.

Lemma tern_loop_stop : forall pe tb f c rest,
  hd_kind rest <> Some KQuestion -> tern_loop pe tb (S f) c rest = POk c rest.
Proof.
  intros pe tb f c rest H; simpl.
  destruct rest as [|[k t] r]; [reflexivity|].
  destruct k; try reflexivity. simpl in H; congruence.
Qed.

Lemma bindr_ok : forall A B (a : A) r (k : A -> toks -> pres B), bindr (POk a r) k = k a r.
Proof. reflexivity. Qed.

(* one level down: the result of level [S lv] is the result of level [lv]
   when the loop of [lv] stops (and, at the prefix level, no prefix operator
   is in front) *)
Lemma descend1 : forall f tb lv ts e rest,
  lv <= 11 ->
  parse_at ch (S f) tb (S lv) ts = POk e rest ->
  stops lv rest -> (lv = 4 -> not_unop ts) ->
  parse_at ch (S (S f)) tb lv ts = POk e rest.
Proof.
  intros f tb lv ts e rest Hle H Hs Hu.
  destruct lv as [|[|[|[|[|[|[|[|[|[|[|[|lv]]]]]]]]]]]]; try lia;
    try (match goal with |- parse_at ch _ _ ?l _ = _ =>
           change (parse_at ch (S (S f)) tb l ts) with
             (bindr (parse_at ch (S f) tb (S l) ts) (bin_loop (parse_at ch (S f)) tb (S f) l)) end;
         rewrite H, bindr_ok; apply bin_loop_stop; exact Hs).
  - (* 1 *)
    change (parse_at ch (S (S f)) tb 1 ts) with
      (bindr (parse_at ch (S f) tb 2 ts) (tern_loop (parse_at ch (S f)) tb (S f))).
    rewrite H, bindr_ok. apply tern_loop_stop; exact Hs.
  - (* 4 *)
    specialize (Hu eq_refl). destruct ts as [|[k t] r]; [destruct Hu|].
    simpl in Hu.
    change (parse_at ch (S (S f)) tb 4 ((k, t) :: r)) with
      (match unop_of k with
       | Some o => mapr (EUn o) (parse_at ch (S f) tb 4 r)
       | None => parse_at ch (S f) tb 5 ((k, t) :: r)
       end).
    rewrite Hu. exact H.
Qed.

(* several levels down *)
Lemma descend : forall k f tb lv ts e rest,
  lv + k <= 12 ->
  parse_at ch (S f) tb (lv + k) ts = POk e rest ->
  (forall l, lv <= l < lv + k -> stops l rest) ->
  (lv <= 4 < lv + k -> not_unop ts) ->
  parse_at ch (S f + k) tb lv ts = POk e rest.
Proof.
  induction k as [|k IH]; intros f tb lv ts e rest Hle H Hs Hu.
  - rewrite Nat.add_0_r in *. exact H.
  - replace (S f + S k) with (S (S f) + k) by lia.
    apply IH; try lia.
    + replace (lv + S k) with (S (lv + k)) in H by lia.
      apply descend1; try lia; try exact H.
      * apply Hs; lia.
      * intros E. apply Hu; lia.
    + intros l Hl. apply Hs; lia.
    + intros Hl. apply Hu; lia.
Qed.

(* from the primary level to level [lv] *)
Lemma from_primary : forall f tb lv ts e rest,
  lv <= 12 ->
  primary ch (parse_at ch f) tb f ts = POk e rest ->
  (forall l, lv <= l < 12 -> stops l rest) ->
  (lv <= 4 -> not_unop ts) ->
  parse_at ch (S f + (12 - lv)) tb lv ts = POk e rest.
Proof.
  intros f tb lv ts e rest Hle H Hs Hu.
  apply descend; try lia.
  - replace (lv + (12 - lv)) with 12 by lia. exact H.
  - intros l Hl. apply Hs; lia.
  - intros Hl. apply Hu; lia.
Qed.

(* ----------------------------------------------- unfolding equations *)
Definition bin_level (l : nat) : bool :=
  match l with 2 | 3 | 5 | 6 | 7 | 8 | 9 | 10 | 11 => true | _ => false end.

Lemma parse_at_bin : forall f tb l ts, bin_level l = true ->
  parse_at ch (S f) tb l ts = bindr (parse_at ch f tb (S l) ts) (bin_loop (parse_at ch f) tb f l).
Proof.
  intros f tb l ts H.
  destruct l as [|[|[|[|[|[|[|[|[|[|[|[|l]]]]]]]]]]]]; try discriminate; reflexivity.
Qed.
Lemma parse_at_1 : forall f tb ts,
  parse_at ch (S f) tb 1 ts = bindr (parse_at ch f tb 2 ts) (tern_loop (parse_at ch f) tb f).
Proof. reflexivity. Qed.
Lemma parse_at_4 : forall f tb k t r,
  parse_at ch (S f) tb 4 ((k, t) :: r) =
  match unop_of k with
  | Some o => mapr (EUn o) (parse_at ch f tb 4 r)
  | None => parse_at ch f tb 5 ((k, t) :: r)
  end.
Proof. reflexivity. Qed.
Lemma parse_at_12 : forall f tb ts, parse_at ch (S f) tb 12 ts = primary ch (parse_at ch f) tb f ts.
Proof. reflexivity. Qed.
Lemma bin_loop_S : forall pe tb g lv a ts,
  bin_loop pe tb (S g) lv a ts =
  match binop lv ts with
  | Some (mk, r) => bindr (pe tb (S lv) r) (fun b r' => bin_loop pe tb g lv (mk a b) r')
  | None => POk a ts
  end.
Proof. reflexivity. Qed.
Lemma tern_loop_S : forall pe tb g c ts,
  tern_loop pe tb (S g) c ts =
  match ts with
  | (KQuestion, _) :: (KColon, _) :: r =>
      bindr (pe tb 2 r) (fun e r' => tern_loop pe tb g (ECond c None e) r')
  | (KQuestion, _) :: r =>
      bind_tok (pe true 1 r) (is_colon) (fun t r' =>
        bindr (pe tb 2 r') (fun e r'' => tern_loop pe tb g (ECond c (Some t) e) r''))
  | _ => POk c ts
  end.
Proof. reflexivity. Qed.

(* ------------------------------------------------- printable programs *)
Definition str_ok (s : bytes) : bool :=
  forallb (fun c => negb (c =? 34)%N && negb (c =? 92)%N) s.
Definition var_ok (x : bytes) : bool := is_varname (word_kind (runes_of x)).
Definition call_ok (f : bytes) : bool :=
  is_ident (word_kind (runes_of f)) && bytes_eqb (upper_name f) f.
Definition int_ok (z : Z) : bool :=
  (0 <=? z)%Z &&
  match int_value (digits (Z.to_N z)) with Some z' => (z' =? z)%Z | None => false end.

(* the expression sub-language of the round-trip theorem *)
Fixpoint printable (e : expr) : bool :=
  match e with
  | ENone | EBool _ => true
  | EInt z => int_ok z
  | EStr s => str_ok s
  | EVar x | EParam x => var_ok x
  | EUn _ a | ESuppress a => printable a
  | ELog _ a b | ECmp _ a b | EIn _ a b | EQuant _ _ a b | ELike _ a b | ERegex _ a b
  | EMath _ a b => printable a && printable b
  | ECond c t f =>
      printable c && match t with Some t' => printable t' | None => true end && printable f
  | EArr es => forallb printable es
  | ECall f args => call_ok f && forallb printable args
  | _ => false
  end.

Fixpoint size (e : expr) : nat :=
  match e with
  | EUn _ a | ESuppress a => S (size a)
  | ELog _ a b | ECmp _ a b | EIn _ a b | EQuant _ _ a b | ELike _ a b | ERegex _ a b
  | EMath _ a b => S (size a + size b)
  | ECond c t f => S (size c + match t with Some t' => size t' | None => 0 end + size f)
  | EArr es | ECall _ es => S (fold_right (fun x n => size x + n) 0 es)
  | _ => 1
  end.
Definition need (e : expr) : nat := 64 * size e.

Lemma size_pos : forall e, 1 <= size e.
Proof. destruct e; simpl; lia. Qed.

Lemma size_in : forall (es : list expr) x, In x es -> size x <= fold_right (fun x n => size x + n) 0 es.
Proof.
  induction es as [|y es IH]; intros x Hin; [destruct Hin|].
  simpl. destruct Hin as [->|Hin]; [lia|]. specialize (IH x Hin). lia.
Qed.

(* ----------------------------------------------------- token facts *)
Definition good_head (k : kind) : bool :=
  match k with
  | KNone | KBool | KInt | KString | KParam | KNot | KMinus | KPlus | KLBrack | KLParen => true
  | _ => is_varname k
  end.

Lemma bytes_eqb_eq : forall a b, bytes_eqb a b = true -> a = b.
Proof.
  unfold bytes_eqb. induction a as [|x a IH]; intros [|y b] H; simpl in H; try discriminate; auto.
  destruct (N.compare x y) eqn:E; try discriminate.
  apply N.compare_eq in E. subst. f_equal. apply IH. exact H.
Qed.

Lemma unesc_id : forall s, str_ok s = true -> unesc s = s.
Proof.
  induction s as [|c s IH]; intros H; [reflexivity|].
  simpl in H. apply andb_prop in H. destruct H as [Hc Hs].
  apply andb_prop in Hc. destruct Hc as [_ Hb].
  simpl. destruct (c =? 92)%N; [discriminate|]. f_equal. auto.
Qed.

Lemma firstn_app_exact : forall A (l r : list A), firstn (List.length l) (l ++ r) = l.
Proof. induction l; intros; simpl; [reflexivity|f_equal; auto]. Qed.

Lemma str_inner_quote : forall s, str_inner (34%N :: s ++ [34%N]) = s.
Proof.
  intros s. unfold str_inner. cbn [quote_width].
  replace (List.length (34%N :: s ++ [34%N]) - 2 * 1) with (List.length s).
  - cbn [skipn]. apply firstn_app_exact.
  - cbn [List.length]. rewrite app_length. simpl. lia.
Qed.

Lemma str_value_quote : forall s, str_ok s = true -> str_value (snd (quote_tok s)) = s.
Proof.
  intros s H. unfold quote_tok, str_value. cbn [snd].
  rewrite str_inner_quote. apply unesc_id. exact H.
Qed.

(* the continuation cannot extend a primary: no call parenthesis, no range,
   no member path *)
Definition no_postfix (rest : toks) : Prop :=
  match rest with
  | (KLParen, _) :: _ | (KRange, _) :: _ | (KDot, _) :: _ | (KLBrack, _) :: _ => False
  | (KQuestion, _) :: (KDot, _) :: _ => False
  | _ => True
  end.

Ltac rest_cases rest :=
  let k := fresh "k" in let t := fresh "t" in let r := fresh "r" in
  destruct rest as [|[k t] r]; [|destruct k]; simpl in *; try tauto; try reflexivity.

Lemma path_none : forall pe g rest, no_postfix rest -> parse_path pe (S g) rest = POk [] rest.
Proof.
  intros pe g rest H. rest_cases rest.
  rest_cases r.
Qed.

Lemma with_path_none : forall pe g src rest,
  no_postfix rest -> with_path pe (S g) src rest = POk src rest.
Proof. intros. unfold with_path. rewrite path_none by assumption. reflexivity. Qed.

Lemma after_name_none : forall pe g a rest,
  no_postfix rest -> after_name pe (S g) a rest = POk a rest.
Proof.
  intros pe g a rest H. unfold after_name.
  destruct rest as [|[k t] r]; [apply with_path_none; exact H|].
  destruct k; try (apply with_path_none; exact H). destruct H.
Qed.

Lemma starts_path_none : forall rest, no_postfix rest -> starts_path rest = false.
Proof. intros rest H. rest_cases rest. rest_cases r. Qed.

Lemma call_start_no : forall k t rest,
  no_postfix rest -> k <> KNsSeg -> is_call_start ((k, t) :: rest) = false.
Proof.
  intros k t rest H Hk. unfold is_call_start.
  destruct k; try congruence; rest_cases rest.
Qed.

Lemma varname_not_ns : forall k, is_varname k = true -> k <> KNsSeg.
Proof. intros k H E; subst; discriminate. Qed.

Lemma primary_var : forall pe tb g k x rest,
  is_varname k = true -> no_postfix rest ->
  primary ch pe tb (S g) ((k, x) :: rest) = POk (EVar x) rest.
Proof.
  intros pe tb g k x rest Hk H. unfold primary.
  rewrite call_start_no by (auto using varname_not_ns).
  destruct k; try discriminate; apply after_name_none; exact H.
Qed.

Lemma primary_param : forall pe tb g t0 k x rest,
  is_varname k = true -> no_postfix rest ->
  primary ch pe tb (S g) ((KParam, t0) :: (k, x) :: rest) = POk (EParam x) rest.
Proof.
  intros pe tb g t0 k x rest Hk H. unfold primary.
  assert (E : is_call_start ((KParam, t0) :: (k, x) :: rest) = false).
  { unfold is_call_start. destruct k; try discriminate; reflexivity. }
  rewrite E. rewrite Hk. apply after_name_none; exact H.
Qed.

Lemma primary_none : forall pe tb g t rest,
  no_postfix rest -> primary ch pe tb g ((KNone, t) :: rest) = POk ENone rest.
Proof.
  intros. unfold primary. rewrite call_start_no by (auto; discriminate). reflexivity.
Qed.

Lemma primary_bool : forall pe tb g t rest,
  no_postfix rest -> primary ch pe tb g ((KBool, t) :: rest) = POk (EBool (bool_value t)) rest.
Proof.
  intros. unfold primary. rewrite call_start_no by (auto; discriminate). reflexivity.
Qed.

Lemma primary_str : forall pe tb g t rest,
  no_postfix rest -> primary ch pe tb g ((KString, t) :: rest) = POk (EStr (str_value t)) rest.
Proof.
  intros. unfold primary. rewrite call_start_no by (auto; discriminate). reflexivity.
Qed.

Lemma primary_int : forall pe tb g t z rest,
  int_value t = Some z -> no_postfix rest ->
  primary ch pe tb g ((KInt, t) :: rest) = POk (EInt z) rest.
Proof.
  intros pe tb g t z rest Hz H. unfold primary.
  rewrite call_start_no by (auto; discriminate). rewrite Hz.
  rest_cases rest.
Qed.

(* ------------------------------------------------ contexts *)
Definition closer (k : kind) : bool :=
  match k with KRParen | KRBrack | KComma | KColon => true | _ => false end.

Lemma stops_closer : forall k t r l, closer k = true -> stops l ((k, t) :: r).
Proof.
  intros k t r l H.
  destruct k; try discriminate;
    destruct l as [|[|[|[|[|[|[|[|[|[|[|[|l]]]]]]]]]]]]; simpl; try reflexivity; try congruence; exact I.
Qed.

Lemma no_postfix_closer : forall k t r, closer k = true -> no_postfix ((k, t) :: r).
Proof. intros k t r H. destruct k; try discriminate; exact I. Qed.

(* a '?' in front of [rest] is settled as the ternary's by the tokens after
   it ([B] is the fuel margin of the lemmas below; it plays no role here) *)
Definition q_ok (tb : bool) (B : nat) (rest : toks) : Prop :=
  match rest with
  | (KQuestion, _) :: r => q_decide tb r = QTern
  | _ => True
  end.

Lemma q_ok_closer : forall tb B k t r, closer k = true -> q_ok tb B ((k, t) :: r).
Proof. intros tb B k t r H. destruct k; try discriminate; exact I. Qed.

Lemma postfix_q_keep : forall tb B e rest,
  q_ok tb B rest -> postfix_q ch tb e rest = POk e rest.
Proof.
  intros tb B e rest H. unfold postfix_q.
  destruct rest as [|[k t] r]; [reflexivity|].
  destruct k; try reflexivity.
  simpl in H. rewrite H. reflexivity.
Qed.

Definition stops_from (lv : nat) (rest : toks) : Prop := forall l, lv <= l < 12 -> stops l rest.

Definition ctx_ok (tb : bool) (B : nat) (lv : nat) (rest : toks) : Prop :=
  stops_from lv rest /\ no_postfix rest /\ q_ok tb B rest.

Lemma ctx_closer : forall tb B lv k t r, closer k = true -> ctx_ok tb B lv ((k, t) :: r).
Proof.
  intros. split; [|split].
  - intros l _. apply stops_closer; assumption.
  - apply no_postfix_closer; assumption.
  - apply q_ok_closer; assumption.
Qed.

Lemma ctx_weaken : forall tb B lv lv' rest, lv <= lv' -> ctx_ok tb B lv rest -> ctx_ok tb B lv' rest.
Proof.
  intros tb B lv lv' rest Hle [Hs [Hn Hq]]. split; [|split]; auto.
  intros l Hl. apply Hs. lia.
Qed.

(* the error operator is taken in front of a closing parenthesis *)
Lemma postfix_q_suppress : forall tb e t t2 r,
  postfix_q ch tb e ((KQuestion, t) :: (KRParen, t2) :: r)
  = POk (ESuppress e) ((KRParen, t2) :: r).
Proof. intros. reflexivity. Qed.

(* ------------------------------------------------ binary operators *)
(* the view of a binary node: level, operands, operator tokens, constructor *)
Definition bin_view (e : expr) : option (nat * expr * expr * toks * (expr -> expr -> expr)) :=
  match e with
  | ELog LOr a b => Some (2, a, b, [tk KOr "OR"], ELog LOr)
  | ELog LAnd a b => Some (3, a, b, [tk KAnd "AND"], ELog LAnd)
  | ELike n a b => Some (5, a, b, like_toks n, ELike n)
  | EIn n a b => Some (6, a, b, in_toks n, EIn n)
  | EQuant q c a b =>
      Some (7, a, b, quant_tok q :: match c with QCmp o => [cmp_tok o] | QIn n => in_toks n end,
            EQuant q c)
  | ECmp o a b => Some (8, a, b, [cmp_tok o], ECmp o)
  | ERegex n a b =>
      Some (9, a, b, [if n then tk KRegexNotMatch "!~" else tk KRegexMatch "=~"], ERegex n)
  | EMath o a b =>
      Some (match o with MAdd | MSub => 10 | _ => 11 end, a, b, [math_tok o], EMath o)
  | _ => None
  end.

Lemma bin_view_spec : forall extra e L a b ops mk,
  bin_view e = Some (L, a, b, ops, mk) ->
  e = mk a b /\ level e = L /\ bin_level L = true /\
  body extra e = pr extra L a ++ ops ++ pr extra (S L) b /\
  (forall r, binop L (ops ++ r) = Some (mk, r)) /\
  (forall r l, S L <= l < 12 -> stops l (ops ++ r)) /\
  (forall r, no_postfix (ops ++ r)) /\
  (forall r, hd_kind (ops ++ r) <> Some KQuestion) /\
  size e = S (size a + size b) /\
  printable e = (printable a && printable b)%bool.
Proof.
  intros extra e L a b ops mk H.
  destruct e; try discriminate; simpl in H;
    repeat match goal with
           | x : logop |- _ => destruct x
           | x : mathop |- _ => destruct x
           end;
    inversion H; subst; clear H;
    repeat split; try reflexivity;
    intros;
    repeat match goal with
           | x : bool |- _ => destruct x
           | x : cmpop |- _ => destruct x
           | x : quant |- _ => destruct x
           | x : qcmp |- _ => destruct x
           end;
    try reflexivity; try exact I; try (simpl; congruence);
    match goal with
    | Hl : _ <= ?l < 12 |- stops ?l _ =>
        destruct l as [|[|[|[|[|[|[|[|[|[|[|[|l]]]]]]]]]]]]; simpl; try lia; try reflexivity;
        try congruence; exact I
    end.
Qed.

(* ====================================================== the round trip *)
Lemma good_head_varname : forall k, is_varname k = true -> good_head k = true /\ unop_of k = None.
Proof. intros k H. destruct k; try discriminate; split; reflexivity. Qed.

Lemma wrap_cons : forall b ts, ts <> [] ->
  exists k t r, wrap b ts = (k, t) :: r /\
                (b = true -> k = KLParen) /\
                (b = false -> exists r0, ts = (k, t) :: r0).
Proof.
  intros b ts Hne. destruct b; simpl.
  - exists KLParen, (bs "("), (ts ++ [RP]). repeat split; auto. discriminate.
  - destruct ts as [|[k t] r]; [congruence|]. exists k, t, r. repeat split; try discriminate.
    intros _. exists r. reflexivity.
Qed.

Section RoundTrip.
  Variable extra : expr -> bool.
  Local Notation bodyx := (body extra).
  Local Notation prx := (pr extra).
  Local Notation needsx := (needs extra).

  Definition head_ok (e : expr) : Prop :=
    exists k t r, bodyx e = (k, t) :: r /\ good_head k = true /\ (5 <= level e -> unop_of k = None).

  Lemma head_of_left : forall L a tl (lev : nat),
    head_ok a -> L <= lev ->
    exists k t r, wrap (needsx L a) (bodyx a) ++ tl = (k, t) :: r /\ good_head k = true /\
                  (5 <= L -> unop_of k = None).
  Proof.
    intros L a tl lev (k & t & r & Hb & Hg & Hu) _.
    destruct (needsx L a) eqn:N; simpl.
    - exists KLParen, (bs "("), ((bodyx a ++ [RP]) ++ tl). repeat split; reflexivity.
    - rewrite Hb. exists k, t, (r ++ tl). repeat split; auto.
      intros H5. apply Hu. unfold needs in N. apply Bool.orb_false_elim in N. destruct N as [N _].
      apply Nat.ltb_ge in N. lia.
  Qed.

  Lemma body_head : forall e, printable e = true -> head_ok e.
  Proof.
    induction e; intros P; simpl in P; try discriminate.
    - (* ENone *) exists KNone, (bs "NONE"), []. repeat split; reflexivity.
    - (* EBool *) destruct b; [exists KBool, (bs "true"), [] | exists KBool, (bs "false"), []]; repeat split; reflexivity.
    - (* EInt *) unfold int_ok in P. apply andb_prop in P. destruct P as [P0 _].
      apply Z.leb_le in P0.
      assert (E : (z <? 0)%Z = false) by (apply Z.ltb_ge; lia).
      exists KInt, (digits (Z.to_N z)), []. repeat split; try reflexivity.
      cbn [body]. rewrite E. reflexivity.
    - (* EStr *) eexists _, _, _. repeat split; reflexivity.
    - (* EArr *) eexists _, _, _. repeat split; reflexivity.
    - (* EVar *) unfold var_ok in P. destruct (good_head_varname _ P) as [G U].
      exists (word_kind (runes_of x)), x, []. repeat split; auto.
    - (* EParam *) eexists _, _, _. repeat split; reflexivity.
    - (* EUn *) destruct o; eexists _, _, _; (repeat split; try reflexivity; simpl; lia).
    - (* ELog *)
      apply andb_prop in P; destruct P as [P1 P2].
      assert (Ha : head_ok e1) by (apply IHe1; assumption).
      destruct o; simpl.
      + destruct (head_of_left 3 e1 (tk KAnd "AND" :: wrap (needsx 4 e2) (bodyx e2)) 3 Ha (le_n _)) as (k & t & r & E & G & U).
        exists k, t, r. repeat split; auto; intros; try apply U; simpl in *; lia.
      + destruct (head_of_left 2 e1 (tk KOr "OR" :: wrap (needsx 3 e2) (bodyx e2)) 2 Ha (le_n _)) as (k & t & r & E & G & U).
        exists k, t, r. repeat split; auto; intros; try apply U; simpl in *; lia.
    - (* ECond *)
      apply andb_prop in P; destruct P as [P1 P2].
      apply andb_prop in P1. destruct P1 as [Pc Pt].
      assert (Ha : head_ok e1) by (apply IHe1; assumption).
      destruct (head_of_left 1 e1 (tk KQuestion "?" :: match t with Some t' => wrap (needsx 2 t' || negb (then_safe t')) (bodyx t') | None => [] end ++ tk KColon ":" :: wrap (needsx 2 e2) (bodyx e2)) 1 Ha (le_n _)) as (k & t0 & r & E & G & U).
      exists k, t0, r. repeat split; auto; intros; try apply U; simpl in *; lia.
    - (* ECmp *)
      apply andb_prop in P; destruct P as [P1 P2].
      assert (Ha : head_ok e1) by (apply IHe1; assumption).
      destruct (head_of_left 8 e1 (cmp_tok o :: wrap (needsx 9 e2) (bodyx e2)) 8 Ha (le_n _)) as (k & t & r & E & G & U).
      exists k, t, r. repeat split; auto; intros; try apply U; simpl in *; lia.
    - (* EIn *)
      apply andb_prop in P; destruct P as [P1 P2].
      assert (Ha : head_ok e1) by (apply IHe1; assumption).
      destruct (head_of_left 6 e1 (in_toks neg ++ wrap (needsx 7 e2) (bodyx e2)) 6 Ha (le_n _)) as (k & t & r & E & G & U).
      exists k, t, r. repeat split; auto; intros; try apply U; simpl in *; lia.
    - (* EQuant *)
      apply andb_prop in P; destruct P as [P1 P2].
      assert (Ha : head_ok e1) by (apply IHe1; assumption).
      destruct (head_of_left 7 e1 (quant_tok q :: match c with QCmp o => [cmp_tok o] | QIn n => in_toks n end ++ wrap (needsx 8 e2) (bodyx e2)) 7 Ha (le_n _)) as (k & t & r & E & G & U).
      exists k, t, r. repeat split; auto; intros; try apply U; simpl in *; lia.
    - (* ELike *)
      apply andb_prop in P; destruct P as [P1 P2].
      assert (Ha : head_ok e1) by (apply IHe1; assumption).
      destruct (head_of_left 5 e1 (like_toks neg ++ wrap (needsx 6 e2) (bodyx e2)) 5 Ha (le_n _)) as (k & t & r & E & G & U).
      exists k, t, r. repeat split; auto; intros; try apply U; simpl in *; lia.
    - (* ERegex *)
      apply andb_prop in P; destruct P as [P1 P2].
      assert (Ha : head_ok e1) by (apply IHe1; assumption).
      destruct (head_of_left 9 e1 ((if neg then tk KRegexNotMatch "!~" else tk KRegexMatch "=~") :: wrap (needsx 10 e2) (bodyx e2)) 9 Ha (le_n _)) as (k & t & r & E & G & U).
      exists k, t, r. repeat split; auto; intros; try apply U; simpl in *; lia.
    - (* EMath *)
      apply andb_prop in P; destruct P as [P1 P2].
      assert (Ha : head_ok e1) by (apply IHe1; assumption).
      destruct o; simpl.
      + destruct (head_of_left 10 e1 (math_tok MAdd :: wrap (needsx 11 e2) (bodyx e2)) 10 Ha (le_n _)) as (k & t & r & E & G & U).
        exists k, t, r. repeat split; auto; intros; try apply U; simpl in *; lia.
      + destruct (head_of_left 10 e1 (math_tok MSub :: wrap (needsx 11 e2) (bodyx e2)) 10 Ha (le_n _)) as (k & t & r & E & G & U).
        exists k, t, r. repeat split; auto; intros; try apply U; simpl in *; lia.
      + destruct (head_of_left 11 e1 (math_tok MMul :: wrap (needsx 12 e2) (bodyx e2)) 11 Ha (le_n _)) as (k & t & r & E & G & U).
        exists k, t, r. repeat split; auto; intros; try apply U; simpl in *; lia.
      + destruct (head_of_left 11 e1 (math_tok MDiv :: wrap (needsx 12 e2) (bodyx e2)) 11 Ha (le_n _)) as (k & t & r & E & G & U).
        exists k, t, r. repeat split; auto; intros; try apply U; simpl in *; lia.
      + destruct (head_of_left 11 e1 (math_tok MMod :: wrap (needsx 12 e2) (bodyx e2)) 11 Ha (le_n _)) as (k & t & r & E & G & U).
        exists k, t, r. repeat split; auto; intros; try apply U; simpl in *; lia.
    - (* ECall *) apply andb_prop in P; destruct P as [P1 P2].
      unfold call_ok in P1. apply andb_prop in P1. destruct P1 as [Pi _].
      exists (word_kind (runes_of f)), f, (LP :: (fix go (l : list expr) : toks :=
           match l with
           | [] => []
           | [x] => wrap (needsx 1 x) (bodyx x)
           | x :: r => wrap (needsx 1 x) (bodyx x) ++ COMMA :: go r
           end) args ++ [RP]).
      repeat split.
      + destruct (word_kind (runes_of f)); try discriminate; reflexivity.
      + intros _. destruct (word_kind (runes_of f)); try discriminate; reflexivity.
    - (* ESuppress *) eexists _, _, _. repeat split; reflexivity.
  Qed.
End RoundTrip.

Section PrList.
  Variable extra : expr -> bool.
  Fixpoint pr_list (l : list expr) : toks :=
    match l with
    | [] => []
    | [x] => pr extra 1 x
    | x :: r => pr extra 1 x ++ COMMA :: pr_list r
    end.
End PrList.

Lemma body_arr : forall extra es,
  body extra (EArr es) = tk KLBrack "[" :: pr_list extra es ++ [tk KRBrack "]"].
Proof. reflexivity. Qed.
Lemma body_call : forall extra f args,
  body extra (ECall f args) = word_tok f :: LP :: pr_list extra args ++ [RP].
Proof. reflexivity. Qed.

Lemma primary_paren : forall pe tb g ts,
  hd_kind ts <> Some KFor ->
  primary ch pe tb g (LP :: ts) =
  bind_tok (pe false 1 ts) (is_rparen) (fun e r' => postfix_q ch tb e r').
Proof.
  intros pe tb g ts H. unfold primary, LP, tk.
  destruct ts as [|[k t] r]; [reflexivity|].
  destruct k; try reflexivity. simpl in H. congruence.
Qed.

Lemma good_head_facts : forall k, good_head k = true ->
  k <> KFor /\ k <> KColon /\ k <> KDot /\ k <> KQuestion /\ is_rparen k = false /\ is_rbrack k = false
  /\ k <> KNsSeg.
Proof. intros k H. destruct k; try discriminate; repeat split; congruence. Qed.

Lemma bin_view_none : forall e, bin_view e = None -> bin_level (level e) = false.
Proof.
  intros e H. destruct e; try discriminate; try reflexivity.
  - simpl. destruct (z <? 0)%Z; reflexivity.
  - destruct o; discriminate.
Qed.

Lemma level_one : forall e, level e = 1 -> exists c t f, e = ECond c t f.
Proof.
  intros e H. destruct e; simpl in H; try discriminate; try (destruct o; discriminate).
  - destruct (z <? 0)%Z; discriminate.
  - eauto.
Qed.

Lemma level_ge_1 : forall e, 1 <= level e.
Proof.
  intros e. destruct e; simpl; try lia; try (destruct o; lia).
  destruct (z <? 0)%Z; lia.
Qed.

Lemma level_le_12 : forall e, level e <= 12.
Proof.
  intros e. destruct e; simpl; try lia; try (destruct o; lia).
  destruct (z <? 0)%Z; lia.
Qed.

Section RT2.
  Variable extra : expr -> bool.
  Local Notation bodyx := (body extra).
  Local Notation prx := (pr extra).
  Local Notation needsx := (needs extra).

  Definition GoodAt (e : expr) : Prop := forall tb lv rest B f,
      lv <= level e -> (tb = true -> 2 <= level e) ->
      ctx_ok tb B lv rest -> need e + B <= f ->
      parse_at ch f tb lv (bodyx e ++ rest) = POk e rest.

  Lemma body_hd_kind : forall e rest, printable e = true ->
    exists k, hd_kind (bodyx e ++ rest) = Some k /\ good_head k = true /\
              (5 <= level e -> unop_of k = None).
  Proof.
    intros e rest P. destruct (body_head extra e P) as (k & t & r & Hb & Hg & Hu).
    exists k. rewrite Hb. repeat split; auto.
  Qed.

  Lemma pr_hd_kind : forall m e rest, printable e = true ->
    exists k, hd_kind (prx m e ++ rest) = Some k /\ good_head k = true /\
              (5 <= m -> unop_of k = None).
  Proof.
    intros m e rest P. unfold pr, wrap. destruct (needsx m e) eqn:N.
    - exists KLParen. repeat split; reflexivity.
    - destruct (body_hd_kind e rest P) as (k & Hk & Hg & Hu). exists k. repeat split; auto.
      intros H5. apply Hu. unfold needs in N. apply Bool.orb_false_elim in N. destruct N as [N _].
      apply Nat.ltb_ge in N. lia.
  Qed.

  Lemma wrapped_of_good : forall e, printable e = true -> GoodAt e ->
    forall tb lv rest B f,
      lv <= 12 -> ctx_ok tb B lv rest -> need e + 16 + B <= f ->
      parse_at ch f tb lv (LP :: bodyx e ++ RP :: rest) = POk e rest.
  Proof.
    intros e P G tb lv rest B f Hlv [Hs [Hn Hq]] Hf.
    assert (Hsz := size_pos e). unfold need in Hf.
    replace f with (S (f + lv - 13) + (12 - lv)) by lia.
    apply from_primary; try lia.
    - rewrite primary_paren.
      + rewrite (G false 1 (RP :: rest) 0).
        * unfold RP, tk. cbn [bind_tok is_rparen]. apply postfix_q_keep with (B := B); exact Hq.
        * apply level_ge_1.
        * discriminate.
        * apply ctx_closer. reflexivity.
        * unfold need. lia.
      + destruct (body_hd_kind e (RP :: rest) P) as (k & Hk & Hg & _). rewrite Hk.
        destruct (good_head_facts k Hg) as [HF _]. congruence.
    - exact Hs.
    - intros _. reflexivity.
  Qed.
End RT2.

Section RT3.
  Variable extra : expr -> bool.
  Local Notation bodyx := (body extra).
  Local Notation prx := (pr extra).
  Local Notation needsx := (needs extra).
  Local Notation GoodAt := (GoodAt extra).

  Definition GoodPr (e : expr) : Prop := forall tb lv m rest B f,
      lv <= m -> m <= 12 -> (tb = true -> 2 <= m) ->
      ctx_ok tb B lv rest -> need e + 16 + B <= f ->
      parse_at ch f tb lv (prx m e ++ rest) = POk e rest.

  Lemma goodpr_of_good : forall e, printable e = true -> GoodAt e -> GoodPr e.
  Proof.
    intros e P G tb lv m rest B f Hlm Hm Htb Hc Hf.
    unfold pr, wrap. destruct (needsx m e) eqn:N.
    - cbn [app]. rewrite <- app_assoc. cbn [app].
      apply (wrapped_of_good extra e P G tb lv rest B f); auto. lia.
    - unfold needs in N. apply Bool.orb_false_elim in N. destruct N as [N _].
      apply Nat.ltb_ge in N.
      apply (G tb lv rest B f); try lia; auto.
      intros E. specialize (Htb E). lia.
  Qed.

  (* a primary that does not use the expression parser *)
  Lemma leaf_good : forall e ts,
    bodyx e = ts -> level e = 12 -> not_unop ts ->
    (forall pe tb g rest, no_postfix rest -> primary ch pe tb (S g) (ts ++ rest) = POk e rest) ->
    GoodAt e.
  Proof.
    intros e ts Hb Hl Hu Hp tb lv rest B f Hlv Htb [Hs [Hn Hq]] Hf.
    assert (Hsz := size_pos e). unfold need in Hf. rewrite Hb.
    replace f with (S (S (f + lv - 14)) + (12 - lv)) by lia.
    apply from_primary; try lia.
    - apply Hp. exact Hn.
    - exact Hs.
    - intros _. destruct ts as [|[k t] r]; [destruct Hu|]. exact Hu.
  Qed.

  Lemma good_none : GoodAt ENone.
  Proof.
    apply (leaf_good ENone [tk KNone "NONE"]); try reflexivity.
    intros. apply primary_none. assumption.
  Qed.
  Lemma good_bool : forall b, GoodAt (EBool b).
  Proof.
    intros b. apply (leaf_good (EBool b) [if b then tk KBool "true" else tk KBool "false"]); try reflexivity.
    - destruct b; reflexivity.
    - intros. destruct b; cbn [app]; unfold tk; rewrite primary_bool by assumption; reflexivity.
  Qed.
  Lemma good_int : forall z, int_ok z = true -> GoodAt (EInt z).
  Proof.
    intros z P. unfold int_ok in P. apply andb_prop in P. destruct P as [P0 P1].
    apply Z.leb_le in P0.
    assert (E : (z <? 0)%Z = false) by (apply Z.ltb_ge; lia).
    apply (leaf_good (EInt z) [(KInt, digits (Z.to_N z))]).
    - cbn [body]. rewrite E. reflexivity.
    - cbn [level]. rewrite E. reflexivity.
    - reflexivity.
    - intros. cbn [app]. apply primary_int; [|assumption].
      destruct (int_value (digits (Z.to_N z))) as [z'|]; [|discriminate].
      apply Z.eqb_eq in P1. congruence.
  Qed.
  Lemma good_str : forall s, str_ok s = true -> GoodAt (EStr s).
  Proof.
    intros s P. apply (leaf_good (EStr s) [quote_tok s]); try reflexivity.
    intros. cbn [app]. unfold quote_tok. rewrite primary_str by assumption.
    f_equal. f_equal. apply (str_value_quote s P).
  Qed.
  Lemma good_var : forall x, var_ok x = true -> GoodAt (EVar x).
  Proof.
    intros x P. apply (leaf_good (EVar x) [word_tok x]); try reflexivity.
    - unfold word_tok, not_unop. apply good_head_varname. exact P.
    - intros. cbn [app]. unfold word_tok. apply primary_var; assumption.
  Qed.
  Lemma good_param : forall x, var_ok x = true -> GoodAt (EParam x).
  Proof.
    intros x P. apply (leaf_good (EParam x) [tk KParam "@"; word_tok x]); try reflexivity.
    intros. cbn [app]. unfold word_tok, tk. apply primary_param; assumption.
  Qed.
End RT3.

Lemma parse_seq_step : forall pe g is_close ts k,
  hd_kind ts = Some k -> is_close k = false ->
  parse_seq pe (S g) is_close ts =
  match pe false 1 ts with
  | POk e ((k', _) :: r') =>
      if is_close k' then POk [e] r'
      else match k' with
           | KComma => mapr (cons e) (parse_seq pe g is_close r')
           | _ => PFail
           end
  | POk _ [] => PFail
  | PFail => PFail
  | PFuel => PFuel
  end.
Proof.
  intros pe g is_close ts k H Hc. destruct ts as [|[k0 t0] r0]; [discriminate|].
  simpl in H. inversion H; subst. cbn [parse_seq]. rewrite Hc. reflexivity.
Qed.

Lemma hd_not_unop : forall ts k, hd_kind ts = Some k -> unop_of k = None -> not_unop ts.
Proof. intros ts k H U. destruct ts as [|[k0 t0] r0]; [discriminate|]. simpl in *. congruence. Qed.

Section RT4.
  Variable extra : expr -> bool.
  Local Notation bodyx := (body extra).
  Local Notation prx := (pr extra).
  Local Notation needsx := (needs extra).
  Local Notation GoodAt := (GoodAt extra).
  Local Notation GoodPr := (GoodPr extra).

  Variable n : nat.
  Hypothesis IH : forall e, size e <= n -> printable e = true -> GoodAt e.

  Lemma IHpr : forall e, size e <= n -> printable e = true -> GoodPr e.
  Proof. intros e Hs P. apply goodpr_of_good; auto. Qed.

  Definition sum_size (es : list expr) : nat := fold_right (fun x n => size x + n) 0 es.

  Lemma seq_good : forall es,
    (forall x, In x es -> size x <= n /\ printable x = true) ->
    forall is_close ck ct rest f g,
      is_close ck = true -> closer ck = true -> is_close KComma = false ->
      (forall k, good_head k = true -> is_close k = false) ->
      64 * sum_size es + 16 <= f -> List.length es < g ->
      parse_seq (parse_at ch f) g is_close (pr_list extra es ++ (ck, ct) :: rest) = POk es rest.
  Proof.
    induction es as [|x es IHes]; intros Hall is_close ck ct rest f g Hck Hcl Hcomma Hgh Hf Hg.
    - destruct g; [simpl in Hg; lia|]. cbn [pr_list app parse_seq]. rewrite Hck. reflexivity.
    - destruct g; [simpl in Hg; lia|].
      destruct (Hall x (or_introl eq_refl)) as [Hsx Px].
      assert (Hx : forall rest', ctx_ok false 0 1 rest' ->
                 parse_at ch f false 1 (prx 1 x ++ rest') = POk x rest').
      { intros rest' Hc. apply (IHpr x Hsx Px false 1 1 rest' 0 f); auto; try lia; try discriminate.
        unfold need. simpl in Hf. unfold sum_size in Hf. simpl in Hf. lia. }
      destruct es as [|y es'].
      + cbn [pr_list].
        destruct (pr_hd_kind extra 1 x ((ck, ct) :: rest) Px) as (k & Hk & Hgk & _).
        rewrite (parse_seq_step _ _ _ _ k Hk (Hgh k Hgk)).
        rewrite Hx by (apply ctx_closer; exact Hcl). rewrite Hck. reflexivity.
      + change (pr_list extra (x :: y :: es')) with (prx 1 x ++ COMMA :: pr_list extra (y :: es')).
        rewrite <- app_assoc. cbn [app].
        destruct (pr_hd_kind extra 1 x (COMMA :: pr_list extra (y :: es') ++ (ck, ct) :: rest) Px) as (k & Hk & Hgk & _).
        rewrite (parse_seq_step _ _ _ _ k Hk (Hgh k Hgk)).
        rewrite Hx by (apply ctx_closer; reflexivity).
        unfold COMMA, tk. rewrite Hcomma.
        rewrite IHes; auto.
        * intros z Hz. apply Hall. right. exact Hz.
        * simpl in Hf. unfold sum_size in *. simpl in *. lia.
        * simpl in *. lia.
  Qed.

  Lemma loop_step : forall L a b ops mk e tb rest B f g,
    bin_view e = Some (L, a, b, ops, mk) -> size b <= n -> printable b = true ->
    ctx_ok tb B (S L) rest -> need b + 16 + B <= f ->
    bin_loop (parse_at ch f) tb (S g) L a (ops ++ prx (S L) b ++ rest)
    = bin_loop (parse_at ch f) tb g L (mk a b) rest.
  Proof.
    intros L a b ops mk e tb rest B f g V Hsb Pb Hc Hf.
    destruct (bin_view_spec extra e L a b ops mk V) as (_ & _ & HL & _ & Hop & _).
    rewrite bin_loop_S. rewrite Hop.
    rewrite (IHpr b Hsb Pb tb (S L) (S L) rest B f); auto.
    - destruct L as [|[|[|[|[|[|[|[|[|[|[|[|L]]]]]]]]]]]]; try discriminate; lia.
    - intros _. destruct L as [|[|L]]; try discriminate; lia.
  Qed.

  Lemma RL : forall m a, size a <= m -> m <= n -> printable a = true ->
    forall L tb rest B f, bin_level L = true -> ctx_ok tb B (S L) rest -> need a + 16 + B <= f ->
    exists c, c <= size a /\ forall g,
      bindr (parse_at ch f tb (S L) (prx L a ++ rest)) (bin_loop (parse_at ch f) tb (g + c) L)
      = bin_loop (parse_at ch f) tb g L a rest.
  Proof.
    induction m as [|m IHm]; intros a Hsa Hmn Pa L tb rest B f HL Hc Hf.
    { pose proof (size_pos a). lia. }
    assert (HL2 : 2 <= L /\ L <= 11).
    { destruct L as [|[|[|[|[|[|[|[|[|[|[|[|L]]]]]]]]]]]]; try discriminate; lia. }
    assert (Ga : GoodAt a) by (apply IH; auto; lia).
    unfold pr, wrap. destruct (needsx L a) eqn:N.
    - exists 0. split; [lia|]. intros g. rewrite Nat.add_0_r.
      cbn [app]. rewrite <- app_assoc. cbn [app].
      rewrite (wrapped_of_good extra a Pa Ga tb (S L) rest B f); auto; try lia.
    - unfold needs in N. apply Bool.orb_false_elim in N. destruct N as [N _].
      apply Nat.ltb_ge in N.
      destruct (Nat.eq_dec (level a) L) as [E|NE].
      + destruct (bin_view a) as [[[[[L' a1] a2] ops] mk]|] eqn:V.
        * destruct (bin_view_spec extra a L' a1 a2 ops mk V) as (Ea & El & _ & Hb & Hop & Hst & Hnp & Hq & Hsz & Hpr).
          assert (HLL : L' = L) by congruence. clear El. subst L'.
          rewrite Hpr in Pa. apply andb_prop in Pa. destruct Pa as [P1 P2].
          destruct (IHm a1) with (L := L) (tb := tb) (rest := ops ++ prx (S L) a2 ++ rest) (B := 0) (f := f)
            as (c & Hcs & Hcg); auto; try lia.
          { split; [|split].
            - intros l Hl. apply Hst. lia.
            - apply Hnp.
            - specialize (Hq (prx (S L) a2 ++ rest)).
              destruct (ops ++ prx (S L) a2 ++ rest) as [|[k t] r]; [exact I|].
              destruct k; try exact I. simpl in Hq. congruence. }
          { unfold need in *. lia. }
          exists (S c). split; [lia|]. intros g.
          rewrite Hb. rewrite <- !app_assoc.
          replace (g + S c) with (S g + c) by lia.
          rewrite Hcg.
          rewrite (loop_step L a1 a2 ops mk a tb rest B f g V); auto; try lia.
          -- rewrite <- Ea. reflexivity.
          -- unfold need in *. lia.
        * apply bin_view_none in V. rewrite E in V. congruence.
      + exists 0. split; [lia|]. intros g. rewrite Nat.add_0_r.
        rewrite (Ga tb (S L) rest B f); auto; try lia.
  Qed.
End RT4.

Lemma tern_loop_S_some : forall pe tb g c q k0 t0 r0,
  k0 <> KColon ->
  tern_loop pe tb (S g) c ((KQuestion, q) :: (k0, t0) :: r0) =
  bind_tok (pe true 1 ((k0, t0) :: r0)) is_colon (fun t r' =>
    bindr (pe tb 2 r') (fun e r'' => tern_loop pe tb g (ECond c (Some t) e) r'')).
Proof. intros. rewrite tern_loop_S. destruct k0; try reflexivity. congruence. Qed.

Lemma tern_loop_S_hd : forall pe tb g c q ts k,
  hd_kind ts = Some k -> k <> KColon ->
  tern_loop pe tb (S g) c ((KQuestion, q) :: ts) =
  bind_tok (pe true 1 ts) is_colon (fun t r' =>
    bindr (pe tb 2 r') (fun e r'' => tern_loop pe tb g (ECond c (Some t) e) r'')).
Proof.
  intros pe tb g c q ts k H HC. destruct ts as [|[k0 t0] r0]; [discriminate|].
  simpl in H. inversion H; subst. apply tern_loop_S_some. exact HC.
Qed.

Lemma no_postfix_q : forall q ts k, hd_kind ts = Some k -> k <> KDot -> no_postfix ((KQuestion, q) :: ts).
Proof.
  intros q ts k H HD. destruct ts as [|[k0 t0] r0]; [exact I|].
  simpl in H. inversion H; subst. destruct k; try exact I. congruence.
Qed.

Lemma stops_question : forall l t r, 2 <= l -> stops l ((KQuestion, t) :: r).
Proof.
  intros l t r H.
  destruct l as [|[|[|[|[|[|[|[|[|[|[|[|l]]]]]]]]]]]]; simpl; try lia; try reflexivity; exact I.
Qed.

(* the then-branch as the printer writes it *)
Definition prt (extra : expr -> bool) (t : expr) : toks :=
  wrap (needs extra 2 t || negb (then_safe t)) (body extra t).

Lemma prt_hd_kind : forall extra t rest, printable t = true ->
  exists k, hd_kind (prt extra t ++ rest) = Some k /\ good_head k = true.
Proof.
  intros extra t rest P. unfold prt, wrap.
  destruct (needs extra 2 t || negb (then_safe t)).
  - exists KLParen. split; reflexivity.
  - destruct (body_hd_kind extra t rest P) as (k & Hk & Hg & _). exists k. split; auto.
Qed.

(* after "cond ?" the printed then-branch settles the ternary *)
Lemma prt_decide : forall extra t tb x rest, printable t = true ->
  q_decide tb (prt extra t ++ (KColon, x) :: rest) = QTern.
Proof.
  intros extra t tb x rest P. unfold prt, wrap.
  destruct (needs extra 2 t || negb (then_safe t)) eqn:N; [reflexivity|].
  apply Bool.orb_false_elim in N. destruct N as [_ N]. apply Bool.negb_false_iff in N.
  destruct t; simpl in N; try discriminate; try reflexivity.
  - (* EBool *) destruct b; reflexivity.
  - (* EInt *) cbn [body]. apply Z.leb_le in N.
    replace (z <? 0)%Z with false by (symmetry; apply Z.ltb_ge; lia). reflexivity.
  - (* EVar *) cbn [body app]. unfold word_tok.
    destruct (word_kind (runes_of x0)); try discriminate. reflexivity.
Qed.

Lemma prt_good : forall extra t, printable t = true -> GoodAt extra t ->
  forall tb lv rest B f,
    lv <= 2 -> ctx_ok tb B lv rest -> need t + 16 + B <= f ->
    parse_at ch f tb lv (prt extra t ++ rest) = POk t rest.
Proof.
  intros extra t P G tb lv rest B f Hlv Hc Hf. unfold prt, wrap.
  destruct (needs extra 2 t || negb (then_safe t)) eqn:N.
  - cbn [app]. rewrite <- app_assoc. cbn [app].
    apply (wrapped_of_good extra t P G tb lv rest B f); auto. lia.
  - apply Bool.orb_false_elim in N. destruct N as [N _].
    unfold needs in N. apply Bool.orb_false_elim in N. destruct N as [N _].
    apply Nat.ltb_ge in N.
    apply (G tb lv rest B f); try lia; auto.
Qed.

Lemma len_prt : forall extra t, List.length (body extra t) <= List.length (prt extra t).
Proof.
  intros. unfold prt, wrap. destruct (needs extra 2 t || negb (then_safe t)); simpl; [rewrite app_length; simpl; lia|lia].
Qed.

Section RT5.
  Variable extra : expr -> bool.
  Local Notation bodyx := (body extra).
  Local Notation prx := (pr extra).
  Local Notation needsx := (needs extra).
  Local Notation GoodAt := (GoodAt extra).
  Local Notation GoodPr := (GoodPr extra).

  Variable n : nat.
  Hypothesis IH : forall e, size e <= n -> printable e = true -> GoodAt e.

  Definition opt_size (t : option expr) : nat := match t with Some t' => size t' | None => 0 end.
  Definition opt_ok (t : option expr) : Prop :=
    match t with Some t' => size t' <= n /\ printable t' = true | None => True end.
  Definition opt_toks (t : option expr) : toks := match t with Some t' => prt extra t' | None => [] end.

  Lemma tern_step : forall c t e0 rest B f g,
    opt_ok t -> size e0 <= n -> printable e0 = true ->
    ctx_ok false B 2 rest -> 64 * opt_size t + need e0 + 16 + B <= f ->
    tern_loop (parse_at ch f) false (S g) c
      (tk KQuestion "?" :: opt_toks t ++ tk KColon ":" :: prx 2 e0 ++ rest)
    = tern_loop (parse_at ch f) false g (ECond c t e0) rest.
  Proof.
    intros c t e0 rest B f g Ht Hs0 P0 Hc Hf.
    assert (He0 : parse_at ch f false 2 (prx 2 e0 ++ rest) = POk e0 rest).
    { apply (IHpr extra n IH e0 Hs0 P0 false 2 2 rest B f); auto; try lia; try discriminate. }
    destruct t as [t'|]; cbn [opt_toks opt_size opt_ok] in *.
    - destruct Ht as [Hst Pt].
      destruct (prt_hd_kind extra t' (tk KColon ":" :: prx 2 e0 ++ rest) Pt) as (k & Hk & Hg).
      destruct (good_head_facts k Hg) as (_ & HC & _).
      unfold tk at 1.
      rewrite (tern_loop_S_hd _ _ _ _ _ _ k Hk HC).
      rewrite (prt_good extra t' Pt (IH t' Hst Pt) true 1 (tk KColon ":" :: prx 2 e0 ++ rest) 0 f); auto; try lia.
      + unfold tk at 1. cbn [bind_tok is_colon]. rewrite He0. reflexivity.
      + apply ctx_closer. reflexivity.
      + unfold need. lia.
    - cbn [app]. unfold tk. rewrite tern_loop_S. rewrite He0. reflexivity.
  Qed.

  Lemma body_cond : forall c t e0,
    bodyx (ECond c t e0) = prx 1 c ++ tk KQuestion "?" :: opt_toks t ++ tk KColon ":" :: prx 2 e0.
  Proof. intros. destruct t; reflexivity. Qed.

  (* the context of the condition of a ternary *)
  Lemma cond_ctx : forall t e0 rest,
    opt_ok t ->
    ctx_ok false (64 * opt_size t + 16) 2
      (tk KQuestion "?" :: opt_toks t ++ tk KColon ":" :: prx 2 e0 ++ rest).
  Proof.
    intros t e0 rest Ht. split; [|split].
    - intros l Hl. apply stops_question. lia.
    - destruct t as [t'|]; cbn [opt_toks opt_ok] in *.
      + destruct Ht as [_ Pt].
        destruct (prt_hd_kind extra t' (tk KColon ":" :: prx 2 e0 ++ rest) Pt) as (k & Hk & Hg).
        destruct (good_head_facts k Hg) as (_ & _ & HD & _).
        unfold tk at 1. apply (no_postfix_q _ _ k Hk HD).
      + exact I.
    - unfold tk at 1. cbn [q_ok].
      destruct t as [t'|]; cbn [opt_toks opt_ok opt_size] in *.
      + destruct Ht as [Hst Pt]. unfold tk. apply prt_decide. exact Pt.
      + reflexivity.
  Qed.

  Lemma RT : forall m c, size c <= m -> m <= n -> printable c = true ->
    forall rest B f, ctx_ok false B 2 rest -> need c + 16 + B <= f ->
    exists k, k <= size c /\ forall g,
      bindr (parse_at ch f false 2 (prx 1 c ++ rest)) (tern_loop (parse_at ch f) false (g + k))
      = tern_loop (parse_at ch f) false g c rest.
  Proof.
    induction m as [|m IHm]; intros c Hsc Hmn Pc rest B f Hc Hf.
    { pose proof (size_pos c). lia. }
    assert (Gc : GoodAt c) by (apply IH; auto; lia).
    unfold pr, wrap. destruct (needsx 1 c) eqn:N.
    - exists 0. split; [lia|]. intros g. rewrite Nat.add_0_r.
      cbn [app]. rewrite <- app_assoc. cbn [app].
      rewrite (wrapped_of_good extra c Pc Gc false 2 rest B f); auto; try lia.
    - destruct (Nat.eq_dec (level c) 1) as [E|NE].
      + destruct (level_one c E) as (c0 & t0 & f0 & ->).
        simpl in Pc. apply andb_prop in Pc. destruct Pc as [Pc P3].
        apply andb_prop in Pc. destruct Pc as [P1 P2].
        simpl in Hsc.
        assert (Ht : opt_ok t0).
        { destruct t0; cbn [opt_ok]; [split; [lia|exact P2]|exact I]. }
        assert (Hts : opt_size t0 = match t0 with Some t' => size t' | None => 0 end) by reflexivity.
        destruct (IHm c0) with (rest := tk KQuestion "?" :: opt_toks t0 ++ tk KColon ":" :: prx 2 f0 ++ rest)
                               (B := 64 * opt_size t0 + 16) (f := f) as (k & Hks & Hkg); auto; try lia.
        { apply (cond_ctx t0 f0 rest Ht). }
        { unfold need in *. simpl in Hf. rewrite <- Hts in Hf. lia. }
        exists (S k). split; [simpl; lia|]. intros g.
        rewrite body_cond. rewrite <- !app_assoc. cbn [app]. rewrite <- !app_assoc.
        replace (g + S k) with (S g + k) by lia.
        rewrite Hkg.
        apply (tern_step c0 t0 f0 rest B f g Ht); auto; try lia.
        unfold need in *. simpl in Hf. rewrite <- Hts in Hf. lia.
      + exists 0. split; [lia|]. intros g. rewrite Nat.add_0_r.
        pose proof (level_ge_1 c).
        rewrite (Gc false 2 rest B f); auto; try lia; try discriminate.
  Qed.
End RT5.

Lemma stops_bin : forall L rest, bin_level L = true -> stops L rest -> binop L rest = None.
Proof.
  intros L rest HL H.
  destruct L as [|[|[|[|[|[|[|[|[|[|[|[|L]]]]]]]]]]]]; try discriminate; exact H.
Qed.

Lemma primary_lbrack : forall pe tb g t x,
  primary ch pe tb g ((KLBrack, t) :: x) =
  bindr (parse_seq pe g is_rbrack x) (fun es r' => with_path pe g (EArr es) r').
Proof.
  intros. unfold primary.
  assert (E : is_call_start ((KLBrack, t) :: x) = false).
  { unfold is_call_start. destruct x as [|[k2 t2] r2]; [reflexivity|]. destruct k2; reflexivity. }
  rewrite E. reflexivity.
Qed.

Lemma primary_call : forall pe tb g f t2 x,
  primary ch pe tb g ((KIdent, f) :: (KLParen, t2) :: x) =
  bindr (mapr (ECall (upper_name f)) (parse_seq pe g is_rparen x)) (after_call ch pe tb g).
Proof. intros. reflexivity. Qed.

Section RT6.
  Variable extra : expr -> bool.
  Local Notation bodyx := (body extra).
  Local Notation prx := (pr extra).
  Local Notation needsx := (needs extra).
  Local Notation GoodAt := (GoodAt extra).
  Local Notation GoodPr := (GoodPr extra).

  Variable n : nat.
  Hypothesis IH : forall e, size e <= n -> printable e = true -> GoodAt e.

  Lemma good_bin : forall e L a b ops mk,
    bin_view e = Some (L, a, b, ops, mk) -> size e <= S n -> printable e = true -> GoodAt e.
  Proof.
    intros e L a b ops mk V Hse Pe tb lv rest B f Hlv Htb [Hs [Hn Hq]] Hf.
    destruct (bin_view_spec extra e L a b ops mk V) as (Ee & El & HL & Hb & Hop & Hst & Hnp & Hqq & Hsz & Hpr).
    rewrite Hpr in Pe. apply andb_prop in Pe. destruct Pe as [Pa Pb].
    assert (HL2 : 2 <= L /\ L <= 11).
    { destruct L as [|[|[|[|[|[|[|[|[|[|[|[|L]]]]]]]]]]]]; try discriminate; lia. }
    rewrite El in Hlv. unfold need in Hf.
    replace f with (S (f - (L - lv) - 1) + (L - lv)) by lia.
    set (f1 := f - (L - lv) - 1).
    assert (Hf1 : 64 * size e + B <= f1 + 12) by (unfold f1; lia).
    apply descend; try lia.
    - replace (lv + (L - lv)) with L by lia.
      destruct (RL extra n IH (size a) a (le_n _) ltac:(lia) Pa L tb (ops ++ prx (S L) b ++ rest) 0 f1 HL)
        as (c & Hcs & Hcg).
      { split; [|split].
        - intros l Hl. apply Hst. lia.
        - apply Hnp.
        - specialize (Hqq (prx (S L) b ++ rest)).
          destruct (ops ++ prx (S L) b ++ rest) as [|[k t] r]; [exact I|].
          destruct k; try exact I. simpl in Hqq. congruence. }
      { unfold need. lia. }
      rewrite parse_at_bin by exact HL.
      rewrite Hb. rewrite <- !app_assoc.
      replace (bin_loop (parse_at ch f1) tb f1 L) with (bin_loop (parse_at ch f1) tb ((f1 - c) + c) L)
        by (f_equal; lia).
      rewrite Hcg.
      destruct (f1 - c) as [|g] eqn:Eg; [lia|].
      rewrite (loop_step extra n IH L a b ops mk e tb rest B f1 g V); auto; try lia.
      + destruct g as [|g']; [lia|].
        rewrite bin_loop_stop; [rewrite <- Ee; reflexivity|].
        apply stops_bin; [exact HL|]. apply Hs. lia.
      + split; [|split]; auto. intros l Hl. apply Hs. lia.
      + unfold need. lia.
    - intros l Hl. apply Hs. lia.
    - intros Hl. destruct (body_hd_kind extra e rest) as (k & Hk & Hg & Hu); [rewrite Hpr, Pa, Pb; reflexivity|].
      apply (hd_not_unop _ k Hk). apply Hu. lia.
  Qed.
End RT6.

Section RT7.
  Variable extra : expr -> bool.
  Local Notation bodyx := (body extra).
  Local Notation prx := (pr extra).
  Local Notation GoodAt := (GoodAt extra).

  Variable n : nat.
  Hypothesis IH : forall e, size e <= n -> printable e = true -> GoodAt e.

  Lemma good_un : forall o a, size a <= n -> printable a = true -> GoodAt (EUn o a).
  Proof.
    intros o a Hsa Pa tb lv rest B f Hlv Htb [Hs [Hn Hq]] Hf.
    cbn [level] in Hlv. unfold need in Hf. cbn [size] in Hf.
    replace f with (S (f - (4 - lv) - 1) + (4 - lv)) by lia.
    set (f1 := f - (4 - lv) - 1).
    apply descend; try lia.
    - replace (lv + (4 - lv)) with 4 by lia.
      assert (Ha : parse_at ch f1 tb 4 (prx 4 a ++ rest) = POk a rest).
      { apply (IHpr extra n IH a Hsa Pa tb 4 4 rest B f1); auto; try lia.
        - split; [|split]; auto. intros l Hl. apply Hs. lia.
        - unfold need, f1. lia. }
      change (bodyx (EUn o a)) with (un_tok o :: prx 4 a).
      destruct o; cbn [un_tok app]; unfold tk; rewrite parse_at_4; cbn [unop_of]; rewrite Ha; reflexivity.
    - intros l Hl. apply Hs. lia.
  Qed.

  Lemma good_cond : forall c t e0,
    size c <= n -> printable c = true -> opt_ok n t -> size e0 <= n -> printable e0 = true ->
    GoodAt (ECond c t e0).
  Proof.
    intros c t e0 Hsc Pc Ht Hs0 P0 tb lv rest B f Hlv Htb [Hs [Hn Hq]] Hf.
    cbn [level] in Hlv, Htb.
    assert (tb = false) by (destruct tb; [specialize (Htb eq_refl); lia|reflexivity]). subst tb.
    unfold need in Hf. cbn [size] in Hf.
    assert (Hts : opt_size t = match t with Some t' => size t' | None => 0 end) by reflexivity.
    rewrite <- Hts in Hf. pose proof (size_pos e0) as Hp0. pose proof (size_pos c) as Hpc.
    replace f with (S (f - (1 - lv) - 1) + (1 - lv)) by lia.
    set (f1 := f - (1 - lv) - 1).
    apply descend; try lia.
    - replace (lv + (1 - lv)) with 1 by lia.
      rewrite parse_at_1. rewrite (body_cond extra). rewrite <- !app_assoc. cbn [app]. rewrite <- !app_assoc.
      destruct (RT extra n IH (size c) c (le_n _) Hsc Pc
                  (tk KQuestion "?" :: opt_toks extra t ++ tk KColon ":" :: prx 2 e0 ++ rest)
                  (64 * opt_size t + 16) f1) as (k & Hks & Hkg).
      { apply (cond_ctx extra n t e0 rest Ht). }
      { unfold need, f1. lia. }
      replace (tern_loop (parse_at ch f1) false f1) with (tern_loop (parse_at ch f1) false ((f1 - k) + k))
        by (f_equal; unfold f1; lia).
      rewrite Hkg.
      destruct (f1 - k) as [|g] eqn:Eg; [unfold f1 in Eg; lia|].
      rewrite (tern_step extra n IH c t e0 rest B f1 g Ht Hs0 P0).
      + destruct g as [|g']; [unfold f1 in Eg; lia|].
        apply tern_loop_stop. apply (Hs 1). lia.
      + split; [|split]; auto. intros l Hl. apply Hs. lia.
      + unfold need, f1. lia.
    - intros l Hl. apply Hs. lia.
  Qed.

  Definition all_ok (es : list expr) : Prop := forall x, In x es -> size x <= n /\ printable x = true.

  Lemma good_arr : forall es, all_ok es -> GoodAt (EArr es).
  Proof.
    intros es Hall tb lv rest B f Hlv Htb [Hs [Hn Hq]] Hf.
    unfold need in Hf. change (size (EArr es)) with (S (sum_size es)) in Hf. cbn [level] in Hlv.
    rewrite body_arr.
    replace f with (S (S (f + lv - 14)) + (12 - lv)) by lia.
    apply from_primary; try lia.
    - cbn [app]. unfold tk at 1. rewrite primary_lbrack. rewrite <- app_assoc. cbn [app].
      unfold tk. rewrite (seq_good extra n IH es Hall is_rbrack KRBrack (bs "]") rest); try reflexivity; try lia.
      + rewrite bindr_ok. apply with_path_none. exact Hn.
      + intros k Hg. apply (good_head_facts k Hg).
      + assert (List.length es <= sum_size es).
        { clear. induction es as [|x es IHes]; [simpl; lia|]. unfold sum_size in *. simpl. pose proof (size_pos x). lia. }
        lia.
    - exact Hs.
    - intros _. reflexivity.
  Qed.

  Lemma call_parts : forall f, call_ok f = true ->
    word_kind (runes_of f) = KIdent /\ upper_name f = f.
  Proof.
    intros f H. unfold call_ok in H. apply andb_prop in H. destruct H as [H1 H2].
    split; [|apply bytes_eqb_eq; exact H2].
    destruct (word_kind (runes_of f)); try discriminate; reflexivity.
  Qed.

  (* the call itself, whatever follows *)
  Lemma call_parsed : forall fn args rest f,
    call_ok fn = true -> all_ok args -> 64 * sum_size args + 16 <= f -> List.length args < f ->
    mapr (ECall (upper_name fn)) (parse_seq (parse_at ch f) f is_rparen (pr_list extra args ++ RP :: rest))
    = POk (ECall fn args) rest.
  Proof.
    intros fn args rest f Hc Hall Hf Hlen.
    destruct (call_parts fn Hc) as [_ Hu].
    unfold RP, tk. rewrite (seq_good extra n IH args Hall is_rparen KRParen (bs ")") rest); try reflexivity; try lia.
    - cbn [mapr]. rewrite Hu. reflexivity.
    - intros k Hg. apply (good_head_facts k Hg).
  Qed.

  Lemma len_le_sum : forall es, List.length es <= sum_size es.
  Proof.
    induction es as [|x es IHes]; [simpl; lia|]. unfold sum_size in *. simpl. pose proof (size_pos x). lia.
  Qed.

  Lemma good_call : forall fn args, call_ok fn = true -> all_ok args -> GoodAt (ECall fn args).
  Proof.
    intros fn args Hc Hall tb lv rest B f Hlv Htb [Hs [Hn Hq]] Hf.
    unfold need in Hf. change (size (ECall fn args)) with (S (sum_size args)) in Hf. cbn [level] in Hlv.
    pose proof (len_le_sum args) as Hlen.
    destruct (call_parts fn Hc) as [Hk _].
    rewrite body_call.
    replace f with (S (S (f + lv - 14)) + (12 - lv)) by lia.
    apply from_primary; try lia.
    - unfold word_tok, LP, RP, tk. rewrite Hk. cbn [app]. rewrite primary_call.
      rewrite <- app_assoc. cbn [app].
      pose proof (call_parsed fn args rest (S (f + lv - 14)) Hc Hall) as Hp.
      unfold RP, tk in Hp. rewrite Hp by lia. rewrite bindr_ok.
      unfold after_call. rewrite starts_path_none by exact Hn.
      apply postfix_q_keep with (B := B); exact Hq.
    - exact Hs.
    - intros _. unfold word_tok. rewrite Hk. reflexivity.
  Qed.
End RT7.

Lemma all_ok_of : forall n es, forallb printable es = true -> sum_size es <= n -> all_ok n es.
Proof.
  intros n es Hp Hs x Hin. split.
  - pose proof (size_in es x Hin). unfold sum_size in Hs. lia.
  - rewrite forallb_forall in Hp. apply Hp. exact Hin.
Qed.

Section RT8.
  Variable extra : expr -> bool.
  Local Notation bodyx := (body extra).
  Local Notation prx := (pr extra).
  Local Notation GoodAt := (GoodAt extra).

  Variable n : nat.
  Hypothesis IH : forall e, size e <= n -> printable e = true -> GoodAt e.

  Definition inner (a : expr) : toks :=
    match a with
    | ECall _ _ => bodyx a
    | _ => LP :: bodyx a ++ [RP]
    end.
  Lemma body_suppress : forall a, bodyx (ESuppress a) = LP :: inner a ++ [tk KQuestion "?"; RP].
  Proof. intros a. destruct a; reflexivity. Qed.

  Lemma inner_paren : forall a rest f,
    size a <= n -> printable a = true -> need a + 12 <= f ->
    parse_at ch (S f + 11) false 1 ((LP :: bodyx a ++ [RP]) ++ tk KQuestion "?" :: RP :: rest)
    = POk (ESuppress a) (RP :: rest).
  Proof.
    intros a rest f Hsa Pa Hf.
    apply (from_primary f false 1); try lia.
    - cbn [app]. rewrite <- app_assoc. cbn [app].
      rewrite primary_paren.
      + rewrite (IH a Hsa Pa false 1 (RP :: tk KQuestion "?" :: RP :: rest) 0 f);
          [ | apply level_ge_1 | discriminate | apply ctx_closer; reflexivity | lia ].
        unfold RP at 1. unfold tk at 1. cbn [bind_tok is_rparen].
        unfold tk, RP. replace f with (12 + (f - 12)) by (unfold need in Hf; pose proof (size_pos a); lia).
        apply postfix_q_suppress.
      + destruct (body_hd_kind extra a (RP :: tk KQuestion "?" :: RP :: rest) Pa) as (k & Hk & Hg & _).
        rewrite Hk. destruct (good_head_facts k Hg) as [HF _]. congruence.
    - intros l _. apply stops_closer. reflexivity.
    - intros _. reflexivity.
  Qed.

  Lemma inner_call : forall fn args rest f,
    call_ok fn = true -> all_ok n args -> 64 * sum_size args + 16 <= f -> List.length args < f ->
    12 <= f ->
    parse_at ch (S (S f) + 11) false 1 (bodyx (ECall fn args) ++ tk KQuestion "?" :: RP :: rest)
    = POk (ESuppress (ECall fn args)) (RP :: rest).
  Proof.
    intros fn args rest f Hc Hall Hf Hlen H12.
    destruct (call_parts fn Hc) as [Hk _].
    apply (from_primary (S f) false 1); try lia.
    - rewrite body_call. unfold word_tok, LP, RP, tk. rewrite Hk. cbn [app]. rewrite primary_call.
      rewrite <- app_assoc. cbn [app].
      pose proof (call_parsed extra n IH fn args ((KQuestion, bs "?") :: (KRParen, bs ")") :: rest) (S f) Hc Hall) as Hp.
      unfold RP, tk in Hp.
      match goal with |- bindr ?X _ = _ =>
        replace X with (POk (ECall fn args) ((KQuestion, bs "?") :: (KRParen, bs ")") :: rest))
          by (symmetry; apply Hp; lia) end.
      rewrite bindr_ok.
      unfold after_call. cbn [starts_path].
      replace (S f) with (12 + (S f - 12)) by lia.
      apply postfix_q_suppress.
    - intros l _. apply stops_closer. reflexivity.
    - intros _. unfold word_tok. rewrite body_call. unfold word_tok. rewrite Hk. reflexivity.
  Qed.

  Lemma good_suppress : forall a, size a <= n -> printable a = true -> GoodAt (ESuppress a).
  Proof.
    intros a Hsa Pa tb lv rest B f Hlv Htb [Hs [Hn Hq]] Hf.
    cbn [level] in Hlv. unfold need in Hf. cbn [size] in Hf. pose proof (size_pos a) as Hpa.
    rewrite body_suppress.
    replace f with (S (f + lv - 13) + (12 - lv)) by lia.
    set (f0 := f + lv - 13).
    apply from_primary; try lia.
    - cbn [app]. rewrite <- app_assoc. cbn [app].
      rewrite primary_paren.
      + assert (Hin : parse_at ch f0 false 1 (inner a ++ tk KQuestion "?" :: RP :: rest)
                      = POk (ESuppress a) (RP :: rest)).
        { destruct a;
            try (replace f0 with (S (f0 - 12) + 11) by (unfold f0; lia);
                 apply inner_paren; [exact Hsa|exact Pa|unfold need, f0; simpl; simpl in Hf; lia]).
          (* ECall *)
          simpl in Pa. apply andb_prop in Pa. destruct Pa as [Pc Pargs].
          change (size (ECall f1 args)) with (S (sum_size args)) in *.
          pose proof (len_le_sum args).
          replace f0 with (S (S (f0 - 13)) + 11) by (unfold f0; lia).
          apply inner_call; auto; try (unfold f0; lia).
          apply all_ok_of; [exact Pargs|lia]. }
        rewrite Hin. unfold RP at 1. unfold tk at 1. cbn [bind_tok is_rparen].
        apply postfix_q_keep with (B := B); exact Hq.
      + destruct a; try (cbn [inner]; unfold LP, tk; cbn [app hd_kind]; congruence).
        cbn [inner]. rewrite body_call. unfold word_tok.
        simpl in Pa. apply andb_prop in Pa. destruct Pa as [Pc _].
        destruct (call_parts f1 Pc) as [Hk _]. rewrite Hk. cbn [app hd_kind]. congruence.
    - exact Hs.
    - intros _. reflexivity.
  Qed.
End RT8.

(* ------------------------------------------------ the theorem *)
Theorem good_all : forall extra n e, size e <= n -> printable e = true -> GoodAt extra e.
Proof.
  intros extra. induction n as [|n IHn]; intros e Hs P.
  { pose proof (size_pos e). lia. }
  destruct e; simpl in P; try discriminate.
  - apply good_none.
  - apply good_bool.
  - apply good_int; exact P.
  - apply good_str; exact P.
  - (* EArr *) apply (good_arr extra n IHn). apply all_ok_of; [exact P|].
    change (size (EArr es)) with (S (sum_size es)) in Hs. lia.
  - apply good_var; exact P.
  - apply good_param; exact P.
  - (* EUn *) simpl in Hs. apply (good_un extra n IHn); [lia|exact P].
  - (* ELog *) destruct o; eapply (good_bin extra n IHn); try reflexivity; auto.
  - (* ECond *)
    apply andb_prop in P. destruct P as [P P3]. apply andb_prop in P. destruct P as [P1 P2].
    simpl in Hs. apply (good_cond extra n IHn); auto; try lia.
    destruct t; cbn [opt_ok]; [split; [lia|exact P2]|exact I].
  - eapply (good_bin extra n IHn); try reflexivity; auto.
  - eapply (good_bin extra n IHn); try reflexivity; auto.
  - eapply (good_bin extra n IHn); try reflexivity; auto.
  - eapply (good_bin extra n IHn); try reflexivity; auto.
  - eapply (good_bin extra n IHn); try reflexivity; auto.
  - eapply (good_bin extra n IHn); try reflexivity; auto.
  - (* ECall *) apply andb_prop in P. destruct P as [Pc Pa].
    apply (good_call extra n IHn); [exact Pc|]. apply all_ok_of; [exact Pa|].
    change (size (ECall f args)) with (S (sum_size args)) in Hs. lia.
  - (* ESuppress *) simpl in Hs. apply (good_suppress extra n IHn); [lia|exact P].
Qed.

(* ------------------------------------------------ corollaries *)
Lemma ctx_nil : forall tb B lv, ctx_ok tb B lv [].
Proof.
  intros. split; [|split]; try exact I.
  intros l _. destruct l as [|[|[|[|[|[|[|[|[|[|[|[|l]]]]]]]]]]]]; simpl; try reflexivity; try congruence; exact I.
Qed.

(* the parser inverts the printer, with minimal or with redundant parentheses
   ([extra] chooses where), for every continuation [rest] that cannot extend
   the expression, and with any fuel above a bound linear in the size *)
Theorem parse_print_gen : forall extra e rest f,
  printable e = true -> ctx_ok false 0 1 rest -> 64 * size e + 16 <= f ->
  parse_at ch f false 1 (pr extra 1 e ++ rest) = POk e rest.
Proof.
  intros extra e rest f P Hc Hf.
  apply (goodpr_of_good extra e P (good_all extra (size e) e (le_n _) P) false 1 1 rest 0 f);
    auto; try lia; try discriminate.
  unfold need. lia.
Qed.

Theorem parse_print_expr_fuel : forall e f,
  printable e = true -> 64 * size e + 16 <= f ->
  parse_at ch f false 1 (print_expr e) = POk e [].
Proof.
  intros e f P Hf. unfold print_expr.
  rewrite <- (app_nil_r (pr no_extra 1 e)).
  apply parse_print_gen; auto. apply ctx_nil.
Qed.

Theorem parse_parens_fuel : forall extra e f,
  printable e = true -> 64 * size e + 16 <= f ->
  parse_at ch f false 1 (pr extra 1 e) = parse_at ch f false 1 (print_expr e).
Proof.
  intros extra e f P Hf. rewrite parse_print_expr_fuel by assumption.
  rewrite <- (app_nil_r (pr extra 1 e)).
  apply parse_print_gen; auto. apply ctx_nil.
Qed.

(* RETURN e as a program *)
Definition ret_prog (e : expr) : program := {| p_stmts := []; p_ret := BReturn e |}.
Definition ret_toks (extra : expr -> bool) (e : expr) : toks := tk KReturn "RETURN" :: pr extra 1 e.

Lemma parse_return_plain : forall pe ts k,
  hd_kind ts = Some k -> k <> KDistinct ->
  parse_return pe ts = mapr (fun e => (false, e)) (pe false 1 ts).
Proof.
  intros pe ts k H Hk. unfold parse_return.
  destruct ts as [|[k0 t0] r0]; [discriminate|]. simpl in H. inversion H; subst.
  destruct k; try reflexivity. congruence.
Qed.

Theorem return_prefix : forall extra e s f g,
  printable e = true -> hd_kind (pr extra 1 e ++ s) <> Some KDistinct ->
  ctx_ok false 0 1 s -> 64 * size e + 16 <= f ->
  parse_body (parse_at ch f) (S g) (ret_toks extra e ++ s) = POk (ret_prog e) s.
Proof.
  intros extra e s f g P Hd Hc Hf. unfold ret_toks, tk. cbn [app parse_body].
  destruct (pr_hd_kind extra 1 e s P) as (k & Hk & _).
  rewrite (parse_return_plain _ _ k Hk) by (intros ->; congruence).
  rewrite parse_print_gen by assumption. reflexivity.
Qed.

(* ---------------- the fuel [fuel_for] gives is always enough *)
Lemma len_wrap : forall b ts, List.length ts <= List.length (wrap b ts).
Proof. intros [] ts; simpl; [rewrite app_length; simpl; lia|lia]. Qed.

Lemma binop_nil : forall L, binop L [] = None.
Proof. intros L. destruct L as [|[|[|[|[|[|[|[|[|[|[|[|L]]]]]]]]]]]]; reflexivity. Qed.

Lemma size_le_len : forall extra n e,
  size e <= n -> printable e = true -> size e <= List.length (body extra e).
Proof.
  intros extra. induction n as [|n IHn]; intros e Hs P.
  { pose proof (size_pos e). lia. }
  assert (Hpr : forall m x, size x <= n -> printable x = true -> size x <= List.length (pr extra m x)).
  { intros m x Hx Px. unfold pr. pose proof (len_wrap (needs extra m x) (body extra x)).
    specialize (IHn x Hx Px). lia. }
  assert (Hlist : forall es, all_ok n es -> sum_size es <= List.length (pr_list extra es)).
  { induction es as [|x es IHes]; intros Hall; [simpl; lia|].
    destruct (Hall x (or_introl eq_refl)) as [Hx Px].
    assert (IHes' : sum_size es <= List.length (pr_list extra es)).
    { apply IHes. intros z Hz. apply Hall. right. exact Hz. }
    specialize (Hpr 1 x Hx Px).
    destruct es as [|y es'].
    - simpl. unfold sum_size. simpl. lia.
    - change (pr_list extra (x :: y :: es')) with (pr extra 1 x ++ COMMA :: pr_list extra (y :: es')).
      rewrite app_length. cbn [List.length].
      change (sum_size (x :: y :: es')) with (size x + sum_size (y :: es')). lia. }
  destruct (bin_view e) as [[[[[L a] b] ops] mk]|] eqn:V.
  - destruct (bin_view_spec extra e L a b ops mk V) as (_ & _ & _ & Hb & Hop & _ & _ & _ & Hsz & Hp).
    rewrite Hp in P. apply andb_prop in P. destruct P as [Pa Pb].
    rewrite Hb, Hsz. rewrite !app_length.
    assert (1 <= List.length ops).
    { destruct ops; [|simpl; lia]. specialize (Hop []). simpl in Hop. rewrite binop_nil in Hop. discriminate. }
    pose proof (Hpr L a ltac:(lia) Pa) as Ha. pose proof (Hpr (S L) b ltac:(lia) Pb) as Hbb.
    lia.
  - destruct e; simpl in V; try discriminate; simpl in P; try discriminate;
      try (simpl; lia).
    + (* EInt *) cbn [size body]. destruct (z <? 0)%Z; simpl; lia.
    + (* EArr *) rewrite body_arr. cbn [List.length]. rewrite app_length. cbn [List.length].
      change (size (EArr es)) with (S (sum_size es)) in *.
      assert (all_ok n es) by (apply all_ok_of; [exact P|lia]).
      specialize (Hlist es H). lia.
    + (* EUn *) cbn [size body List.length]. simpl in Hs.
      specialize (Hpr 4 e ltac:(lia) P). unfold pr in Hpr. lia.
    + (* ELog *) destruct o; discriminate.
    + (* ECond *)
      apply andb_prop in P. destruct P as [P P3]. apply andb_prop in P. destruct P as [P1 P2].
      rewrite (body_cond extra).
      destruct t as [t'|]; cbn [opt_toks size] in *;
        rewrite !app_length; cbn [List.length]; rewrite ?app_length; cbn [List.length].
      * pose proof (Hpr 1 e1 ltac:(lia) P1) as H1. pose proof (Hpr 2 e2 ltac:(lia) P3) as H3.
        pose proof (IHn t' ltac:(lia) P2) as H2. pose proof (len_prt extra t') as H2'. lia.
      * pose proof (Hpr 1 e1 ltac:(lia) P1) as H1. pose proof (Hpr 2 e2 ltac:(lia) P3) as H3. lia.
    + (* ECall *) apply andb_prop in P. destruct P as [Pc Pa].
      rewrite body_call. cbn [List.length]. rewrite app_length. cbn [List.length].
      change (size (ECall f args)) with (S (sum_size args)) in *.
      assert (all_ok n args) by (apply all_ok_of; [exact Pa|lia]).
      specialize (Hlist args H). lia.
    + (* ESuppress *) rewrite (body_suppress extra). cbn [size List.length]. rewrite app_length.
      simpl in Hs. specialize (IHn e ltac:(lia) P).
      assert (List.length (body extra e) <= List.length (inner extra e)).
      { destruct e; cbn [inner]; try (cbn [List.length]; rewrite app_length; simpl; lia). lia. }
      simpl. lia.
Qed.

Lemma size_le_pr : forall extra m e, printable e = true -> size e <= List.length (pr extra m e).
Proof.
  intros extra m e P. unfold pr. pose proof (len_wrap (needs extra m e) (body extra e)).
  pose proof (size_le_len extra (size e) e (le_n _) P). lia.
Qed.

End Ch.

(* the central theorem, with the fuel the model uses: no OutOfFuel, and the
   same result under EVERY reading of the undecided '?' tokens *)
Theorem parse_print_expr_any : forall ch e, printable e = true ->
  parse_expr_with ch (print_expr e) = POk e [].
Proof.
  intros ch e P. unfold parse_expr_with. apply parse_print_expr_fuel; [exact P|].
  unfold fuel_for, print_expr. pose proof (size_le_pr no_extra 1 e P). lia.
Qed.

Theorem parse_print_expr_lemma : forall e, printable e = true -> parse_expr (print_expr e) = POk e [].
Proof.
  intros e P. unfold parse_expr. apply search_const.
  intros terns. rewrite parse_print_expr_any by exact P. reflexivity.
Qed.

(* redundant parentheses, anywhere an expression stands, change nothing *)
Theorem parse_parens_any : forall ch extra e, printable e = true ->
  parse_expr_with ch (pr extra 1 e) = POk e [].
Proof.
  intros ch extra e P. unfold parse_expr_with.
  rewrite <- (app_nil_r (pr extra 1 e)) at 2.
  apply parse_print_gen; [exact P|apply ctx_nil|].
  unfold fuel_for. pose proof (size_le_pr extra 1 e P). lia.
Qed.

Theorem parse_parens_lemma : forall extra e, printable e = true ->
  parse_expr (pr extra 1 e) = parse_expr (print_expr e).
Proof.
  intros extra e P. rewrite parse_print_expr_lemma by exact P.
  unfold parse_expr. apply search_const.
  intros terns. rewrite parse_parens_any by exact P. reflexivity.
Qed.

(* RETURN e followed by tokens that cannot continue e: under every reading the
   program ends where e ends and the rest is left over — so the query is
   rejected *)
Theorem return_then_suffix : forall ch extra e s,
  printable e = true -> hd_kind (pr extra 1 e ++ s) <> Some KDistinct ->
  ctx_ok false 0 1 s ->
  parse_prefix_with ch (ret_toks extra e ++ s) = POk (ret_prog e) s.
Proof.
  intros ch extra e s P Hd Hc. unfold parse_prefix_with.
  set (F := fuel_for (ret_toks extra e ++ s)).
  assert (HF : 64 * size e + 16 <= F /\ 1 <= F).
  { unfold F, fuel_for, ret_toks. cbn [app List.length]. rewrite app_length.
    pose proof (size_le_pr extra 1 e P). lia. }
  destruct HF as [HF H1]. destruct F as [|g] eqn:EF; [lia|].
  rewrite <- EF at 1. apply return_prefix; auto. lia.
Qed.

Theorem no_silent_suffix_lemma : forall extra e s,
  printable e = true -> hd_kind (pr extra 1 e ++ s) <> Some KDistinct ->
  ctx_ok false 0 1 s ->
  parse_program (ret_toks extra e ++ s) = (match s with [] => Some (ret_prog e) | _ => None end).
Proof.
  intros extra e s P Hd Hc. unfold parse_program, parse_query.
  destruct s as [|t r].
  - rewrite (search_const _ _ _ _ (ret_prog e) []); [reflexivity|].
    intros terns. rewrite return_then_suffix by assumption. reflexivity.
  - rewrite search_fail; [reflexivity|].
    intros terns. rewrite return_then_suffix by assumption. reflexivity.
Qed.

(* token classes that cannot continue an expression *)
Definition stopper (k : kind) : bool :=
  match k with
  | KColon | KSemi | KComma | KRBrack | KRParen | KLBrace | KRBrace | KMinusMinus | KPlusPlus
  | KAssign | KFor | KReturn | KWaitfor | KOptions | KTimeout | KDistinct | KFilter | KCurrent
  | KSort | KLimit | KLet | KCollect | KSortDir | KNull | KBool | KUse | KInto | KKeep | KWith
  | KCount | KAggregate | KEvent | KDo | KWhile | KParam | KIdent | KIgnore | KString | KInt
  | KFloat | KNsSeg | KUnknown => true
  | _ => false
  end.

Lemma ctx_stopper : forall k t r, stopper k = true -> ctx_ok false 0 1 ((k, t) :: r).
Proof.
  intros k t r H. destruct k; try discriminate; (split; [|split]; try exact I;
    intros l _; destruct l as [|[|[|[|[|[|[|[|[|[|[|[|l]]]]]]]]]]]]; simpl; try reflexivity; try congruence; exact I).
Qed.

Theorem suffix_rejected_lemma : forall extra e k t r,
  printable e = true -> hd_kind (pr extra 1 e ++ (k, t) :: r) <> Some KDistinct ->
  stopper k = true ->
  parse_program (ret_toks extra e ++ (k, t) :: r) = None.
Proof.
  intros extra e k t r P Hd Hk.
  rewrite no_silent_suffix_lemma; auto. apply ctx_stopper. exact Hk.
Qed.

Theorem no_silent_suffix_both : forall extra e s,
  printable e = true -> hd_kind (pr extra 1 e ++ s) <> Some KDistinct ->
  ctx_ok false 0 1 s ->
  (forall ch, parse_prefix_with ch (ret_toks extra e ++ s) = POk (ret_prog e) s) /\
  parse_program (ret_toks extra e ++ s) = match s with [] => Some (ret_prog e) | _ => None end.
Proof.
  intros extra e s P Hd Hc. split.
  - intros ch. apply return_then_suffix; assumption.
  - apply no_silent_suffix_lemma; assumption.
Qed.
