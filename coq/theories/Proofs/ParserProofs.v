(* Proofs/ParserProofs.v — properties of the reference parser.
   Part A: a query is accepted only when the whole token list is one program.
   Part B: the parser inverts the printer of Render.v on the expression
           sub-language (literals, names, parameters, all operator levels, the
           ternary, arrays, calls, error suppression, parentheses — minimal or
           redundant), for every continuation that cannot extend the
           expression: precedence and associativity of the three tiers are
           what the printer assumes. *)
From Ferret Require Import Render.
Require Import Lia.
Local Open Scope nat_scope.

(* ------------------------------------------------------------- Part A *)
Theorem parse_consumes_all_lemma : forall ts p,
  parse_program ts = Some p -> parse_prefix ts = POk p [].
Proof.
  unfold parse_program; intros ts p H.
  destruct (parse_prefix ts) as [q r | |]; try discriminate.
  destruct r; try discriminate. congruence.
Qed.

Theorem leftover_is_rejected : forall ts p t r,
  parse_prefix ts = POk p (t :: r) -> parse_program ts = None.
Proof. unfold parse_program; intros ts p t r H; rewrite H; reflexivity. Qed.

Theorem accept_iff_exhausted : forall ts p,
  parse_program ts = Some p <-> parse_prefix ts = POk p [].
Proof.
  split; [apply parse_consumes_all_lemma|].
  unfold parse_program; intros H; rewrite H; reflexivity.
Qed.

(* ------------------------------------------------------------- Part B *)
Definition hd_kind (ts : toks) : option kind :=
  match ts with (k, _) :: _ => Some k | [] => None end.

Definition not_unop (ts : toks) : Prop :=
  match ts with (k, _) :: _ => unop_of k = None | [] => False end.

(* the loop of level [lv] stops in front of [rest] *)
Definition stops (lv : nat) (rest : toks) : Prop :=
  match lv with
  | 1 => hd_kind rest <> Some KQuestion
  | 4 => True
  | _ => binop lv rest = None
  end.

Lemma bin_loop_stop : forall pe tb f lv a rest,
  binop lv rest = None -> bin_loop pe tb (S f) lv a rest = POk a rest.
Proof. intros; simpl; rewrite H; reflexivity. Qed.

Lemma tern_loop_stop : forall pe tb f c rest,
  hd_kind rest <> Some KQuestion -> tern_loop pe tb (S f) c rest = POk c rest.
Proof.
  intros pe tb f c rest H; simpl.
  destruct rest as [|[k t] r]; [reflexivity|].
  destruct k; try reflexivity. simpl in H; congruence.
Qed.

(* one level down: the result of level [S lv] is the result of level [lv]
   when the loop of [lv] stops (and, at the prefix level, no prefix operator
   is in front) *)
Lemma descend1 : forall f tb lv ts e rest,
  lv <= 11 ->
  parse_at (S f) tb (S lv) ts = POk e rest ->
  stops lv rest -> (lv = 4 -> not_unop ts) ->
  parse_at (S (S f)) tb lv ts = POk e rest.
Proof.
  intros f tb lv ts e rest Hle H Hs Hu.
  do 12 (destruct lv as [|lv]; [
    try (change (parse_at (S (S f)) tb ?l ts) with
           (bindr (parse_at (S f) tb (S l) ts) (bin_loop (parse_at (S f)) tb (S f) l));
         rewrite H; simpl bindr; apply bin_loop_stop; exact Hs) |]); try lia.
  - (* 1 *)
    change (parse_at (S (S f)) tb 1 ts) with
      (bindr (parse_at (S f) tb 2 ts) (tern_loop (parse_at (S f)) tb (S f))).
    rewrite H; simpl bindr. apply tern_loop_stop; exact Hs.
  - (* 4 *)
    specialize (Hu eq_refl). destruct ts as [|[k t] r]; [destruct Hu|].
    simpl in Hu.
    change (parse_at (S (S f)) tb 4 ((k, t) :: r)) with
      (match unop_of k with
       | Some o => mapr (EUn o) (parse_at (S f) tb 4 r)
       | None => parse_at (S f) tb 5 ((k, t) :: r)
       end).
    rewrite Hu. exact H.
Qed.
