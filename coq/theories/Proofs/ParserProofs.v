(* Proofs/ParserProofs.v — properties of the reference parser.
   Part A: a query is accepted only when the whole token list is one program.
   Part B: the parser inverts the printer of Render.v on the expression
           sub-language (literals, names, parameters, all operator levels, the
           ternary, arrays, calls, error suppression, parentheses — minimal or
           redundant), for every continuation that cannot extend the
           expression: precedence and associativity of the three tiers are
           what the printer assumes. *)
From Ferret Require Import Render.
Require Import Lia.
Local Open Scope nat_scope.

(* ------------------------------------------------------------- Part A *)
Theorem parse_consumes_all_lemma : forall ts p,
  parse_program ts = Some p -> parse_prefix ts = POk p [].
Proof.
  unfold parse_program; intros ts p H.
  destruct (parse_prefix ts) as [q r | |]; try discriminate.
  destruct r; try discriminate. congruence.
Qed.

Theorem leftover_is_rejected : forall ts p t r,
  parse_prefix ts = POk p (t :: r) -> parse_program ts = None.
Proof. unfold parse_program; intros ts p t r H; rewrite H; reflexivity. Qed.

Theorem accept_iff_exhausted : forall ts p,
  parse_program ts = Some p <-> parse_prefix ts = POk p [].
Proof.
  split; [apply parse_consumes_all_lemma|].
  unfold parse_program; intros H; rewrite H; reflexivity.
Qed.

(* ------------------------------------------------------------- Part B *)
Definition hd_kind (ts : toks) : option kind :=
  match ts with (k, _) :: _ => Some k | [] => None end.

Definition not_unop (ts : toks) : Prop :=
  match ts with (k, _) :: _ => unop_of k = None | [] => False end.

(* the loop of level [lv] stops in front of [rest] *)
Definition stops (lv : nat) (rest : toks) : Prop :=
  match lv with
  | 1 => hd_kind rest <> Some KQuestion
  | 4 => True
  | _ => binop lv rest = None
  end.

Lemma bin_loop_stop : forall pe tb f lv a rest,
  binop lv rest = None -> bin_loop pe tb (S f) lv a rest = POk a rest.
Proof. intros; simpl; rewrite H; reflexivity. Qed.

Lemma tern_loop_stop : forall pe tb f c rest,
  hd_kind rest <> Some KQuestion -> tern_loop pe tb (S f) c rest = POk c rest.
Proof.
  intros pe tb f c rest H; simpl.
  destruct rest as [|[k t] r]; [reflexivity|].
  destruct k; try reflexivity. simpl in H; congruence.
Qed.

Lemma bindr_ok : forall A B (a : A) r (k : A -> toks -> pres B), bindr (POk a r) k = k a r.
Proof. reflexivity. Qed.

(* one level down: the result of level [S lv] is the result of level [lv]
   when the loop of [lv] stops (and, at the prefix level, no prefix operator
   is in front) *)
Lemma descend1 : forall f tb lv ts e rest,
  lv <= 11 ->
  parse_at (S f) tb (S lv) ts = POk e rest ->
  stops lv rest -> (lv = 4 -> not_unop ts) ->
  parse_at (S (S f)) tb lv ts = POk e rest.
Proof.
  intros f tb lv ts e rest Hle H Hs Hu.
  destruct lv as [|[|[|[|[|[|[|[|[|[|[|[|lv]]]]]]]]]]]]; try lia;
    try (match goal with |- parse_at _ _ ?l _ = _ =>
           change (parse_at (S (S f)) tb l ts) with
             (bindr (parse_at (S f) tb (S l) ts) (bin_loop (parse_at (S f)) tb (S f) l)) end;
         rewrite H, bindr_ok; apply bin_loop_stop; exact Hs).
  - (* 1 *)
    change (parse_at (S (S f)) tb 1 ts) with
      (bindr (parse_at (S f) tb 2 ts) (tern_loop (parse_at (S f)) tb (S f))).
    rewrite H, bindr_ok. apply tern_loop_stop; exact Hs.
  - (* 4 *)
    specialize (Hu eq_refl). destruct ts as [|[k t] r]; [destruct Hu|].
    simpl in Hu.
    change (parse_at (S (S f)) tb 4 ((k, t) :: r)) with
      (match unop_of k with
       | Some o => mapr (EUn o) (parse_at (S f) tb 4 r)
       | None => parse_at (S f) tb 5 ((k, t) :: r)
       end).
    rewrite Hu. exact H.
Qed.

(* several levels down *)
Lemma descend : forall k f tb lv ts e rest,
  lv + k <= 12 ->
  parse_at (S f) tb (lv + k) ts = POk e rest ->
  (forall l, lv <= l < lv + k -> stops l rest) ->
  (lv <= 4 < lv + k -> not_unop ts) ->
  parse_at (S f + k) tb lv ts = POk e rest.
Proof.
  induction k as [|k IH]; intros f tb lv ts e rest Hle H Hs Hu.
  - rewrite Nat.add_0_r in *. exact H.
  - replace (S f + S k) with (S (S f) + k) by lia.
    apply IH; try lia.
    + replace (lv + S k) with (S (lv + k)) in H by lia.
      apply descend1; try lia; try exact H.
      * apply Hs; lia.
      * intros E. apply Hu; lia.
    + intros l Hl. apply Hs; lia.
    + intros Hl. apply Hu; lia.
Qed.

(* from the primary level to level [lv] *)
Lemma from_primary : forall f tb lv ts e rest,
  lv <= 12 ->
  primary (parse_at f) tb f ts = POk e rest ->
  (forall l, lv <= l < 12 -> stops l rest) ->
  (lv <= 4 -> not_unop ts) ->
  parse_at (S f + (12 - lv)) tb lv ts = POk e rest.
Proof.
  intros f tb lv ts e rest Hle H Hs Hu.
  apply descend; try lia.
  - replace (lv + (12 - lv)) with 12 by lia. exact H.
  - intros l Hl. apply Hs; lia.
  - intros Hl. apply Hu; lia.
Qed.

(* a closing parenthesis starts no expression *)
Lemma rparen_fail : forall f tb t r, parse_at (13 + f) tb 1 ((KRParen, t) :: r) = PFail.
Proof. intros. lazy. reflexivity. Qed.
