(* Proofs/HeapProofs.v — C15 on the heap model: programs without in-place
   primitives, and library functions that apply them only to containers they
   allocated themselves, leave every cell that existed before the call — hence
   the deep value of every argument, aliased or not — unchanged. *)
From Ferret Require Import Value Heap StdHeap.
From Coq Require Import Lia.
Local Open Scope nat_scope.

(* ---------- lists *)
Lemma upd_length {A} (l : list A) : forall i x, List.length (upd l i x) = List.length l.
Proof. induction l as [|y r IH]; intros [|i] x; cbn; auto. Qed.
Lemma nth_error_upd_other {A} (l : list A) : forall i j x, i <> j -> nth_error (upd l i x) j = nth_error l j.
Proof.
  induction l as [|y r IH]; intros [|i] [|j] x H; cbn; auto; try congruence; try (apply IH; lia).
Qed.
Lemma nth_error_upd_same {A} (l : list A) : forall i x, i < List.length l -> nth_error (upd l i x) i = Some x.
Proof. induction l as [|y r IH]; intros [|i] x H; cbn in *; try lia; auto; try (apply IH; lia). Qed.

(* ---------- frames *)
Lemma frame_refl n h : frame n h h.
Proof. intros l _. reflexivity. Qed.
Lemma frame_trans n h1 h2 h3 : frame n h1 h2 -> frame n h2 h3 -> frame n h1 h3.
Proof. intros A B l H. rewrite (B l H). apply A, H. Qed.
Lemma frame_mono n m h h' : n <= m -> frame m h h' -> frame n h h'.
Proof. intros L F l H. apply F. lia. Qed.
Lemma frame_alloc n h c : n <= List.length h -> frame n h (fst (alloc h c)).
Proof. intros L l H. unfold alloc, cell_at. cbn. apply nth_error_app1. lia. Qed.
Lemma frame_upd n h i c : n <= i -> frame n h (upd h i c).
Proof. intros L l H. unfold cell_at. apply nth_error_upd_other. lia. Qed.
Lemma alloc_length h c : List.length (fst (alloc h c)) = S (List.length h).
Proof. unfold alloc. cbn. rewrite app_length. cbn. lia. Qed.

Lemma new_array_frame h cap :
  frame (List.length h) h (fst (h_new_array h cap)) /\ List.length h <= List.length (fst (h_new_array h cap)).
Proof.
  unfold h_new_array, alloc. cbn. split.
  - intros l H. unfold cell_at. rewrite <- app_assoc. apply nth_error_app1. exact H.
  - rewrite !app_length. cbn. lia.
Qed.
Lemma slice_frame h a from to :
  frame (List.length h) h (fst (h_slice h a from to)) /\ List.length h <= List.length (fst (h_slice h a from to)).
Proof.
  unfold h_slice. destruct (cell_at h a) as [[s|b off len cap|m]|]; cbn;
    (split; [intros l H; unfold cell_at; apply nth_error_app1; exact H | rewrite app_length; cbn; lia]).
Qed.

(* ---------- a program without mutators changes no existing cell *)
Lemma exec_readonly i st : is_mutator i = false ->
  frame (List.length (fst st)) (fst st) (fst (exec i st)) /\
  List.length (fst st) <= List.length (fst (exec i st)).
Proof.
  destruct st as [h rs]. destruct i; cbn [is_mutator]; try discriminate; intros _; cbn [exec fst].
  - destruct (h_new_array h cap) as [h' a] eqn:E. cbn [fst].
    pose proof (new_array_frame h cap) as H. rewrite E in H. exact H.
  - unfold h_new_object, alloc. cbn [fst]. split.
    + intros l H. unfold cell_at. apply nth_error_app1. exact H.
    + rewrite app_length. cbn. lia.
  - cbn. split; [apply frame_refl | lia].
  - cbn. split; [apply frame_refl | lia].
  - destruct (h_slice h (aloc (rget rs a)) from to) as [h' s] eqn:E. cbn [fst].
    pose proof (slice_frame h (aloc (rget rs a)) from to) as H. rewrite E in H. exact H.
  - cbn. split; [apply frame_refl | lia].
Qed.
Theorem readonly_fragment_preserves p : forall st,
  forallb (fun i => negb (is_mutator i)) p = true ->
  frame (List.length (fst st)) (fst st) (fst (run p st)) /\
  List.length (fst st) <= List.length (fst (run p st)).
Proof.
  unfold run. induction p as [|i r IH]; intros st H; cbn [fold_left].
  - split; [apply frame_refl | apply Nat.le_refl].
  - cbn [forallb] in H. apply andb_prop in H as [Hi Hr]. apply Bool.negb_true_iff in Hi.
    destruct (exec_readonly i st Hi) as [F1 L1]. destruct (IH (exec i st) Hr) as [F2 L2]. split.
    + eapply frame_trans; [exact F1|]. eapply frame_mono; [exact L1 | exact F2].
    + eapply Nat.le_trans; eauto.
Qed.

(* ---------- unchanged cells give unchanged deep values *)
Lemma Forall_firstn {A} (P : A -> Prop) n : forall (l : list A), Forall P l -> Forall P (firstn n l).
Proof.
  induction n as [|n IH]; intros l H; [constructor|]. destruct l as [|x r]; [constructor|].
  inversion H; subst. cbn. constructor; auto.
Qed.
Lemma Forall_skipn {A} (P : A -> Prop) n : forall (l : list A), Forall P l -> Forall P (skipn n l).
Proof.
  induction n as [|n IH]; intros l H; [exact H|]. destruct l as [|x r]; [constructor|].
  inversion H; subst. cbn. auto.
Qed.

Lemma arr_items_frame n h h' a : closed n h -> frame n h h' -> a < n ->
  arr_items h' a = arr_items h a /\ Forall (ref_below n) (arr_items h a).
Proof.
  intros C F Ha. unfold arr_items. rewrite (F a Ha).
  destruct (cell_at h a) as [[s|b off len cap|m]|] eqn:E; try (split; [reflexivity | constructor]).
  pose proof (C a _ Ha E) as Hb. cbn in Hb. unfold slots_of. rewrite (F b Hb).
  split; [reflexivity|].
  destruct (cell_at h b) as [[s|b2 off2 len2 cap2|m]|] eqn:E2;
    try (destruct off; cbn; rewrite firstn_nil; constructor).
  apply Forall_firstn, Forall_skipn. exact (C b _ Hb E2).
Qed.
Lemma obj_members_frame n h h' o : closed n h -> frame n h h' -> o < n ->
  obj_members h' o = obj_members h o /\ Forall (fun kv => ref_below n (snd kv)) (obj_members h o).
Proof.
  intros C F Ho. unfold obj_members. rewrite (F o Ho).
  destruct (cell_at h o) as [[s|b off len cap|m]|] eqn:E; try (split; [reflexivity | constructor]).
  split; [reflexivity|]. exact (C o _ Ho E).
Qed.
Theorem deep_frame n h h' : closed n h -> frame n h h' ->
  forall fuel r, ref_below n r -> deep fuel h' r = deep fuel h r.
Proof.
  intros C F. induction fuel as [|f IH]; intros r Hr; destruct r as [v|a|o]; cbn [deep]; try reflexivity.
  - cbn in Hr. destruct (arr_items_frame n h h' a C F Hr) as [E Hall]. rewrite E. f_equal.
    apply map_ext_in. intros x Hx. apply IH. rewrite Forall_forall in Hall. now apply Hall.
  - cbn in Hr. destruct (obj_members_frame n h h' o C F Hr) as [E Hall]. rewrite E. f_equal.
    apply map_ext_in. intros kv Hx. f_equal. apply IH. rewrite Forall_forall in Hall. now apply Hall.
Qed.

Corollary readonly_values p h rs fuel r :
  forallb (fun i => negb (is_mutator i)) p = true ->
  closed (List.length h) h -> ref_below (List.length h) r ->
  deep fuel (fst (run p (h, rs))) r = deep fuel h r.
Proof.
  intros Hp C Hr. apply (deep_frame (List.length h)); auto.
  exact (proj1 (readonly_fragment_preserves p (h, rs) Hp)).
Qed.

(* ---------- pushing into an array whose struct and backing array are new *)
(* a (the Array struct) and its backing array lie at or above n *)
Definition fresh_arr (n : nat) (h : heap) (a : loc) : Prop :=
  n <= a /\ a < List.length h /\
  exists b off len cap, cell_at h a = Some (CArr b off len cap) /\ n <= b /\ b < List.length h /\ b <> a.

Lemma push_fresh n h a x : fresh_arr n h a ->
  frame n h (h_push h a x) /\ fresh_arr n (h_push h a x) a /\ List.length h <= List.length (h_push h a x).
Proof.
  intros [Ha [La [b [off [len [cap [E [Hb [Lb Hne]]]]]]]]]. unfold h_push. rewrite E.
  destruct (len <? cap) eqn:Ecap.
  - split; [|split].
    + eapply frame_trans; [apply frame_upd; exact Hb | apply frame_upd; exact Ha].
    + split; [exact Ha|]. split; [now rewrite !upd_length|].
      exists b, off, (S len), cap. rewrite !upd_length. repeat split; auto.
      unfold cell_at. apply nth_error_upd_same. now rewrite upd_length.
    + rewrite !upd_length. lia.
  - unfold alloc. split; [|split].
    + eapply frame_trans; [apply (frame_alloc n h); lia | apply frame_upd; exact Ha].
    + split; [exact Ha|]. split; [rewrite upd_length, app_length; cbn; lia|].
      exists (List.length h), 0, (S len), (S (2 * cap)). rewrite upd_length, app_length. cbn [List.length].
      repeat split; try lia. unfold cell_at. apply nth_error_upd_same. rewrite app_length. cbn. lia.
    + rewrite upd_length, app_length. cbn. lia.
Qed.
Lemma pushes_fresh n xs : forall h a, fresh_arr n h a ->
  frame n h (fold_left (fun hh x => h_push hh a x) xs h) /\
  fresh_arr n (fold_left (fun hh x => h_push hh a x) xs h) a /\
  List.length h <= List.length (fold_left (fun hh x => h_push hh a x) xs h).
Proof.
  induction xs as [|x r IH]; intros h a H; cbn [fold_left].
  - split; [apply frame_refl | split; [exact H | lia]].
  - destruct (push_fresh n h a x H) as [F1 [H1 L1]]. destruct (IH _ a H1) as [F2 [H2 L2]].
    split; [eapply frame_trans; eauto | split; [exact H2 | lia]].
Qed.
Lemma new_array_fresh h cap :
  fresh_arr (List.length h) (fst (h_new_array h cap)) (snd (h_new_array h cap)).
Proof.
  unfold h_new_array, alloc, fresh_arr. cbn. rewrite !app_length. cbn. split; [lia|]. split; [lia|].
  exists (List.length h), 0, 0, cap. repeat split; try lia.
  unfold cell_at. rewrite nth_error_app2 by (rewrite app_length; cbn; lia).
  rewrite app_length. cbn. now replace (List.length h + 1 - (List.length h + 1)) with 0 by lia.
Qed.

(* every function of the shape "allocate an array, push into it" *)
Theorem build_preserves h cap xs :
  frame (List.length h) h (fst (h_build h cap xs)) /\ List.length h <= List.length (fst (h_build h cap xs)).
Proof.
  unfold h_build. pose proof (new_array_frame h cap) as [F0 L0]. pose proof (new_array_fresh h cap) as Hf.
  destruct (h_new_array h cap) as [h1 a]. cbn [fst snd] in *.
  destruct (pushes_fresh (List.length h) xs h1 a Hf) as [F1 [_ L1]].
  split; [eapply frame_trans; eauto | lia].
Qed.

(* the deep value of anything that existed before such a call is unchanged —
   whatever the arguments alias *)
Corollary build_preserves_args h cap xs fuel r :
  closed (List.length h) h -> ref_below (List.length h) r ->
  deep fuel (fst (h_build h cap xs)) r = deep fuel h r.
Proof.
  intros C Hr. apply (deep_frame (List.length h)); auto. apply build_preserves.
Qed.

Theorem rebuild_preserves_args h arr cap f fuel r :
  closed (List.length h) h -> ref_below (List.length h) r ->
  deep fuel (fst (h_rebuild h arr cap f)) r = deep fuel h r.
Proof. intros C Hr. unfold h_rebuild. now apply build_preserves_args. Qed.

(* ---------- Set on an object allocated by the call *)
Lemma obj_set_fresh n h o k x : n <= o -> frame n h (h_obj_set h o k x) /\ List.length (h_obj_set h o k x) = List.length h.
Proof.
  intros H. unfold h_obj_set. destruct (cell_at h o) as [[s|b off len cap|m]|]; try (split; [apply frame_refl | reflexivity]).
  split; [now apply frame_upd | apply upd_length].
Qed.
Theorem build_object_preserves h kvs :
  frame (List.length h) h (fst (h_build_object h kvs)) /\ List.length h <= List.length (fst (h_build_object h kvs)).
Proof.
  unfold h_build_object, h_new_object, alloc. cbn [fst snd].
  assert (G : forall kvs hh, List.length h < List.length hh ->
            frame (List.length h) hh (fold_left (fun hh kv => h_obj_set hh (List.length h) (fst kv) (snd kv)) kvs hh) /\
            List.length (fold_left (fun hh kv => h_obj_set hh (List.length h) (fst kv) (snd kv)) kvs hh) = List.length hh).
  { induction kvs0 as [|kv r IH]; intros hh L; cbn [fold_left]; [split; [apply frame_refl | reflexivity]|].
    destruct (obj_set_fresh (List.length h) hh (List.length h) (fst kv) (snd kv)) as [F1 L1]; [lia|].
    destruct (IH (h_obj_set hh (List.length h) (fst kv) (snd kv))) as [F2 L2]; [lia|].
    split; [eapply frame_trans; eauto | lia]. }
  destruct (G kvs (h ++ [CObj []])) as [F L]; [rewrite app_length; cbn; lia|].
  split.
  - eapply frame_trans; [apply (frame_alloc (List.length h) h (CObj [])); lia | exact F].
  - rewrite L, app_length. cbn. lia.
Qed.

(* ---------- the named array functions *)
Theorem append_preserves_args h arr x push fuel r :
  closed (List.length h) h -> ref_below (List.length h) r ->
  deep fuel (fst (h_append h arr x push)) r = deep fuel h r.
Proof. apply rebuild_preserves_args. Qed.
Theorem unshift_preserves_args h arr x push fuel r :
  closed (List.length h) h -> ref_below (List.length h) r ->
  deep fuel (fst (h_unshift h arr x push)) r = deep fuel h r.
Proof. apply rebuild_preserves_args. Qed.
Theorem pop_shift_preserve_args h arr fuel r :
  closed (List.length h) h -> ref_below (List.length h) r ->
  deep fuel (fst (h_pop h arr)) r = deep fuel h r /\ deep fuel (fst (h_shift h arr)) r = deep fuel h r.
Proof. intros C Hr. split; now apply rebuild_preserves_args. Qed.
Theorem remove_nth_preserves_args h arr i fuel r :
  closed (List.length h) h -> ref_below (List.length h) r ->
  deep fuel (fst (h_remove_nth h arr i)) r = deep fuel h r.
Proof. apply rebuild_preserves_args. Qed.
Theorem reverse_preserves_args h arr fuel r :
  closed (List.length h) h -> ref_below (List.length h) r ->
  deep fuel (fst (h_reverse h arr)) r = deep fuel h r.
Proof. apply rebuild_preserves_args. Qed.
Theorem select_preserves_args h arr sel fuel r :
  closed (List.length h) h -> ref_below (List.length h) r ->
  deep fuel (fst (h_select h arr sel)) r = deep fuel h r.
Proof. apply rebuild_preserves_args. Qed.

(* ---------- the model does exhibit the hazards the property is about *)
(* pushing into the result of Slice overwrites an element of the sliced array *)
Theorem slice_then_push_mutates_refuted : exists h a x,
  let (h1, s) := h_slice h a 0 1 in
  deep 3 (h_push h1 s x) (HA a) <> deep 3 h (HA a).
Proof.
  exists [CBack [HS (VInt 1); HS (VInt 2)]; CArr 0 0 2 2], 1, (HS (VInt 9)).
  vm_compute. discriminate.
Qed.

(* MERGE_RECURSIVE({a:{x:1}}, {a:{y:2}}) rewrites the nested object of its first argument *)
Definition mr_heap : heap :=
  [CObj [(bs "x", HS (VInt 1))]; CObj [(bs "a", HO 0)];
   CObj [(bs "y", HS (VInt 2))]; CObj [(bs "a", HO 2)]].
Theorem merge_recursive_mutates_first_arg_refuted :
  deep 4 mr_heap (HO 1) = VObj [(bs "a", VObj [(bs "x", VInt 1)])] /\
  deep 4 (fst (h_merge_recursive 4 mr_heap [HO 1; HO 3])) (HO 1)
    = VObj [(bs "a", VObj [(bs "x", VInt 1); (bs "y", VInt 2)])].
Proof. split; vm_compute; reflexivity. Qed.
(* the repaired version leaves it alone on the same input *)
Example merge_recursive_fx_on_witness :
  deep 4 (fst (h_merge_recursive_fx 4 mr_heap [HO 1; HO 3])) (HO 1) = deep 4 mr_heap (HO 1) /\
  deep 4 (fst (h_merge_recursive_fx 4 mr_heap [HO 1; HO 3])) (snd (h_merge_recursive_fx 4 mr_heap [HO 1; HO 3]))
    = VObj [(bs "a", VObj [(bs "x", VInt 1); (bs "y", VInt 2)])].
Proof. split; vm_compute; reflexivity. Qed.

(* ================================================================== *)
(* the repaired MERGE_RECURSIVE: every object the call writes to was allocated
   by the call.  [fresh_objs n h]: objects at or above n only hold object
   references at or above n — the result tree never points into an argument. *)
Definition fresh_ref (n : nat) (r : hval) : Prop := match r with HO o => n <= o | _ => True end.
Definition fresh_objs (n : nat) (h : heap) : Prop :=
  forall l m, n <= l -> cell_at h l = Some (CObj m) -> Forall (fun kv => fresh_ref n (snd kv)) m.
Definition not_obj (c : cell) : Prop := match c with CObj _ => False | _ => True end.

(* what one step of the call may do to the heap *)
Definition step_ok (n : nat) (h h' : heap) : Prop :=
  frame n h h' /\ List.length h <= List.length h' /\ fresh_objs n h'.

Lemma step_trans n h1 h2 h3 : step_ok n h1 h2 -> step_ok n h2 h3 -> step_ok n h1 h3.
Proof.
  intros [F1 [L1 _]] [F2 [L2 G2]]. split; [eapply frame_trans; eauto|]. split; [lia | exact G2].
Qed.
Lemma step_refl n h : fresh_objs n h -> step_ok n h h.
Proof. intros G. split; [apply frame_refl|]. split; [lia | exact G]. Qed.

Lemma fresh_alloc n h c : fresh_objs n h ->
  (match c with CObj m => Forall (fun kv => fresh_ref n (snd kv)) m | _ => True end) ->
  fresh_objs n (h ++ [c]).
Proof.
  intros G Hc l m Hl E. unfold cell_at in E.
  destruct (Nat.lt_ge_cases l (List.length h)) as [L|L].
  - rewrite nth_error_app1 in E by exact L. exact (G l m Hl E).
  - rewrite nth_error_app2 in E by exact L. destruct (l - List.length h) as [|k]; cbn in E.
    + injection E as ->. exact Hc.
    + destruct k; discriminate.
Qed.
Lemma fresh_upd n h i c : fresh_objs n h ->
  (match c with CObj m => Forall (fun kv => fresh_ref n (snd kv)) m | _ => True end) ->
  fresh_objs n (upd h i c).
Proof.
  intros G Hc l m Hl E. unfold cell_at in E. destruct (Nat.eq_dec i l) as [->|Hne].
  - destruct (Nat.lt_ge_cases l (List.length h)) as [L|L].
    + rewrite nth_error_upd_same in E by exact L. injection E as ->. exact Hc.
    + assert (N : nth_error (upd h l c) l = None) by (apply nth_error_None; rewrite upd_length; exact L).
      congruence.
  - rewrite nth_error_upd_other in E by exact Hne. exact (G l m Hl E).
Qed.

Lemma push_fresh_objs n h a x : fresh_objs n h -> fresh_objs n (h_push h a x).
Proof.
  intros G. unfold h_push. destruct (cell_at h a) as [[s|b off len cap|m]|]; try exact G.
  destruct (len <? cap).
  - apply fresh_upd; [apply fresh_upd; [exact G | exact I] | exact I].
  - unfold alloc. apply fresh_upd; [apply fresh_alloc; [exact G | exact I] | exact I].
Qed.
Lemma build_step n h cap xs : n <= List.length h -> fresh_objs n h -> step_ok n h (fst (h_build h cap xs)).
Proof.
  intros L G. destruct (build_preserves h cap xs) as [F Ln]. split; [eapply frame_mono; eauto|].
  split; [exact Ln|]. clear F Ln. unfold h_build, h_new_array, alloc. cbn [fst].
  assert (G1 : fresh_objs n ((h ++ [CBack (repeat (HS VNone) cap)]) ++ [CArr (List.length h) 0 0 cap]))
    by (apply fresh_alloc; [apply fresh_alloc; [exact G | exact I] | exact I]).
  revert G1. generalize ((h ++ [CBack (repeat (HS VNone) cap)]) ++ [CArr (List.length h) 0 0 cap]).
  induction xs as [|x r IH]; intros hh Gh; cbn [fold_left]; [exact Gh|].
  apply IH. now apply push_fresh_objs.
Qed.

Lemma hset_Forall (P : hval -> Prop) k x m :
  P x -> Forall (fun kv => P (snd kv)) m -> Forall (fun kv => P (snd kv)) (hset k x m).
Proof.
  intros Hx. induction 1 as [|[k' v'] r Hv Hr IH]; cbn [hset]; [repeat constructor; exact Hx|].
  destruct (bytes_eqb k' k); constructor; auto.
Qed.
Lemma obj_set_step n h o k x : n <= o -> fresh_objs n h -> fresh_ref n x -> step_ok n h (h_obj_set h o k x).
Proof.
  intros Ho G Hx. destruct (obj_set_fresh n h o k x Ho) as [F L]. split; [exact F|]. split; [lia|].
  unfold h_obj_set. destruct (cell_at h o) as [[s|b off len cap|m]|] eqn:E; try exact G.
  apply fresh_upd; [exact G|]. apply hset_Forall; [exact Hx|]. exact (G o m Ho E).
Qed.
Lemma build_object_step n h kvs : n <= List.length h -> fresh_objs n h ->
  Forall (fun kv => fresh_ref n (snd kv)) kvs ->
  step_ok n h (fst (h_build_object h kvs)) /\ n <= snd (h_build_object h kvs).
Proof.
  intros L G Hk. unfold h_build_object, h_new_object, alloc. cbn [fst snd]. split; [|exact L].
  assert (S0 : step_ok n h (h ++ [CObj []])).
  { split; [apply (frame_alloc n h (CObj [])); exact L|]. split; [rewrite app_length; cbn; lia|].
    apply fresh_alloc; [exact G | constructor]. }
  eapply step_trans; [exact S0|]. destruct S0 as [_ [_ G0]]. revert G0.
  generalize (h ++ [CObj []]). induction Hk as [|kv r Hkv Hr IH]; intros hh Gh; cbn [fold_left].
  - now apply step_refl.
  - pose proof (obj_set_step n hh (List.length h) (fst kv) (snd kv) L Gh Hkv) as S1.
    eapply step_trans; [exact S1|]. apply IH. exact (proj2 (proj2 S1)).
Qed.

Lemma clone_step n : forall fuel h r, n <= List.length h -> fresh_objs n h ->
  step_ok n h (fst (h_clone fuel h r)) /\ fresh_ref n (snd (h_clone fuel h r)).
Proof.
  induction fuel as [|f IH]; intros h r L G; destruct r as [v|a|o]; cbn [h_clone fst snd];
    try (split; [now apply step_refl | exact I]).
  - (* array: clone the items, then build *)
    assert (A : forall xs hh out, n <= List.length hh -> fresh_objs n hh ->
              step_ok n hh (fst (fold_left (fun acc x => let c := h_clone f (fst acc) x in (fst c, snd acc ++ [snd c])) xs (hh, out)))).
    { induction xs as [|x r IHx]; intros hh out Lh Gh; cbn [fold_left]; [now apply step_refl|].
      destruct (IH hh x Lh Gh) as [S1 _]. cbn zeta. cbn [fst snd].
      eapply step_trans; [exact S1|]. destruct S1 as [_ [L1 G1]]. apply IHx; [lia | exact G1]. }
    specialize (A (arr_items h a) h [] L G).
    match goal with |- context [h_build (fst ?X) 0 (snd ?X)] => set (acc := X) in * end.
    destruct A as [FA [LA GA]]. split; [|exact I].
    eapply step_trans; [split; [exact FA | split; [exact LA | exact GA]]|].
    apply build_step; [eapply Nat.le_trans; [exact L | exact LA] | exact GA].
  - (* object: clone the members, then build *)
    assert (A : forall (ms : list (bytes * hval)) (hh : heap) (out : list (bytes * hval)),
              n <= List.length hh -> fresh_objs n hh ->
              Forall (fun kv => fresh_ref n (snd kv)) out ->
              let res := fold_left (fun acc kv => let c := h_clone f (fst acc) (snd kv) in
                                                  (fst c, snd acc ++ [(fst kv, snd c)])) ms (hh, out) in
              step_ok n hh (fst res) /\ Forall (fun kv => fresh_ref n (snd kv)) (snd res)).
    { induction ms as [|kv r IHm]; intros hh out Lh Gh Ho; cbn [fold_left]; [split; [now apply step_refl | exact Ho]|].
      destruct (IH hh (snd kv) Lh Gh) as [S1 R1]. cbn zeta. cbn [fst snd].
      destruct S1 as [F1 [L1 G1]].
      destruct (IHm (fst (h_clone f hh (snd kv))) (out ++ [(fst kv, snd (h_clone f hh (snd kv)))])) as [S2 R2];
        [lia | exact G1 | apply Forall_app; split; [exact Ho | repeat constructor; exact R1] |].
      split; [eapply step_trans; [split; [exact F1 | split; [exact L1 | exact G1]] | exact S2] | exact R2]. }
    destruct (A (obj_members h o) h [] L G (Forall_nil _)) as [SA RA].
    match goal with |- context [h_build_object (fst ?X) (snd ?X)] => set (acc := X) in * end.
    destruct SA as [FA [LA GA]].
    destruct (build_object_step n (fst acc) (snd acc)) as [SB LB]; [eapply Nat.le_trans; [exact L | exact LA] | exact GA | exact RA |].
    split; [eapply step_trans; [split; [exact FA | split; [exact LA | exact GA]] | exact SB] | exact LB].
Qed.

Lemma hget_In k m x : hget k m = Some x -> In x (map snd m).
Proof.
  induction m as [|[k' v] r IH]; cbn; [discriminate|]. destruct (bytes_eqb k' k); [intros [= ->]; now left | auto].
Qed.

Lemma merge_fx_step n : forall fuel h src dst, n <= List.length h -> fresh_objs n h -> fresh_ref n src ->
  step_ok n h (fst (h_merge_fx fuel h src dst)) /\ fresh_ref n (snd (h_merge_fx fuel h src dst)).
Proof.
  induction fuel as [|f IH]; intros h src dst L G Hs; cbn [h_merge_fx].
  - cbn. split; [now apply step_refl | exact I].
  - destruct src as [v|a|s]; try (apply clone_step; assumption).
    destruct dst as [v|a|d]; try (apply clone_step; assumption).
    destruct (obj_members h d) as [|kv0 dm0] eqn:Ed; [cbn; split; [now apply step_refl | exact Hs]|].
    cbn [fst snd]. split; [|exact Hs]. cbn in Hs.
    generalize (kv0 :: dm0) as dm. clear Ed kv0 dm0.
    intros dm. revert h L G. induction dm as [|kv r IHd]; intros h L G; cbn [fold_left]; [now apply step_refl|].
    assert (R : step_ok n h (fst (match hget (fst kv) (obj_members h s) with
                                  | Some sv => h_merge_fx f h sv (snd kv)
                                  | None => h_clone f h (snd kv) end)) /\
                fresh_ref n (snd (match hget (fst kv) (obj_members h s) with
                                  | Some sv => h_merge_fx f h sv (snd kv)
                                  | None => h_clone f h (snd kv) end))).
    { destruct (hget (fst kv) (obj_members h s)) as [sv|] eqn:Eg; [|now apply clone_step].
      apply IH; [exact L | exact G|].
      unfold obj_members in Eg. destruct (cell_at h s) as [[sl|b off len cap|m]|] eqn:Ec; try discriminate.
      pose proof (G s m Hs Ec) as Hm. apply hget_In in Eg. apply in_map_iff in Eg as [kv' [<- Hin]].
      rewrite Forall_forall in Hm. now apply Hm. }
    destruct R as [S1 R1]. set (r1 := match hget (fst kv) (obj_members h s) with
                                       | Some sv => h_merge_fx f h sv (snd kv)
                                       | None => h_clone f h (snd kv) end) in *.
    destruct S1 as [F1 [L1 G1]].
    pose proof (obj_set_step n (fst r1) s (fst kv) (snd r1) Hs G1 R1) as S2.
    eapply step_trans; [split; [exact F1 | split; [exact L1 | exact G1]]|].
    eapply step_trans; [exact S2|]. destruct S2 as [F2 [L2 G2]]. apply IHd; [lia | exact G2].
Qed.

Theorem merge_recursive_fx_frame fuel h args :
  frame (List.length h) h (fst (h_merge_recursive_fx fuel h args)).
Proof.
  unfold h_merge_recursive_fx, h_new_object, alloc. set (n := List.length h).
  assert (G0 : fresh_objs n (h ++ [CObj []])).
  { intros l m Hl E. unfold cell_at in E. rewrite nth_error_app2 in E by exact Hl.
    destruct (l - List.length h) as [|k]; cbn in E; [injection E as <-; constructor | destruct k; discriminate]. }
  assert (S0 : step_ok n h (h ++ [CObj []])).
  { split; [apply (frame_alloc n h (CObj [])); unfold n; lia|]. split; [rewrite app_length; cbn; lia | exact G0]. }
  assert (A : forall args hh m, n <= List.length hh -> fresh_objs n hh -> fresh_ref n m ->
            let acc := fold_left (fun acc a => h_merge_fx fuel (fst acc) (snd acc) a) args (hh, m) in
            step_ok n hh (fst acc) /\ fresh_ref n (snd acc)).
  { induction args0 as [|a r IHa]; intros hh m Lh Gh Hm; cbn [fold_left]; [split; [now apply step_refl | exact Hm]|].
    destruct (merge_fx_step n fuel hh m a Lh Gh Hm) as [S1 R1]. cbn [fst snd].
    destruct (h_merge_fx fuel hh m a) as [h1 m1]. cbn [fst snd] in *.
    destruct S1 as [F1 [L1 G1]].
    destruct (IHa h1 m1) as [S2 R2]; [lia | exact G1 | exact R1|].
    split; [eapply step_trans; [split; [exact F1 | split; [exact L1 | exact G1]] | exact S2] | exact R2]. }
  destruct (A args (h ++ [CObj []]) (HO (List.length h))) as [SA RA];
    [rewrite app_length; cbn; unfold n; lia | exact G0 | cbn; unfold n; lia |].
  set (acc := fold_left _ args _) in *.
  destruct SA as [FA [LA GA]].
  destruct (clone_step n fuel (fst acc) (snd acc)) as [SC _];
    [destruct S0 as [_ [L0 _]]; eapply Nat.le_trans; [|exact LA]; rewrite app_length; cbn; unfold n; apply Nat.le_add_r | exact GA |].
  destruct S0 as [F0 _]. destruct SC as [FC _].
  eapply frame_trans; [exact F0|]. eapply frame_trans; [exact FA | exact FC].
Qed.
Corollary merge_recursive_fx_preserves_args fuel h args k r :
  closed (List.length h) h -> ref_below (List.length h) r ->
  deep k (fst (h_merge_recursive_fx fuel h args)) r = deep k h r.
Proof.
  intros C Hr. apply (deep_frame (List.length h)); auto. apply merge_recursive_fx_frame.
Qed.
