(* Proofs/InterleaveProofs.v — C12: runs of one compiled program do not
   interfere, under EVERY schedule. *)
From Ferret Require Import Base Interleave.
From Coq Require Import Lia.

Section Interleave.
  Variables (Tree Local : Type).
  Variable step : Tree -> Local -> Local.

  Lemma nth_error_upd_at (f : Local -> Local) : forall (l : list Local) i j,
    nth_error (upd_at Local j f l) i =
    if Nat.eqb j i then option_map f (nth_error l i) else nth_error l i.
  Proof.
    induction l as [|x r IH]; intros i j.
    - destruct j, i; cbn; try reflexivity. destruct (Nat.eqb j i); reflexivity.
    - destruct j as [|j], i as [|i]; cbn; try reflexivity. apply IH.
  Qed.

  Lemma iter_succ_r (f : Local -> Local) n x : iter Local (S n) f x = f (iter Local n f x).
  Proof. revert x. induction n as [|n IH]; intros x; cbn; [reflexivity|]. apply (IH (f x)). Qed.

  Lemma option_map_iter (f : Local -> Local) n (o : option Local) :
    option_map (iter Local n f) (option_map f o) = option_map (iter Local (S n) f) o.
  Proof. destruct o; reflexivity. Qed.

  (* the i-th run after ANY schedule is the i-th run executed alone for as many
     steps as the schedule gave it: nobody else's steps are visible to it *)
  Theorem noninterference : forall tr sched s i,
    nth_error (run_sched Tree Local step tr sched s) i =
    option_map (solo Tree Local step tr (count i sched)) (nth_error s i).
  Proof.
    intros tr sched. unfold run_sched, solo.
    induction sched as [|j r IH]; intros s i; cbn [fold_left count].
    - destruct (nth_error s i); reflexivity.
    - rewrite IH, nth_error_upd_at. destruct (Nat.eqb j i); cbn [Nat.add].
      + apply option_map_iter.
      + reflexivity.
  Qed.

  Corollary noninterference_nth : forall tr sched s i d, (i < List.length s)%nat ->
    nth i (run_sched Tree Local step tr sched s) d =
    solo Tree Local step tr (count i sched) (nth i s d).
  Proof.
    intros tr sched s i d Hi.
    pose proof (noninterference tr sched s i) as H.
    destruct (nth_error s i) as [x|] eqn:E; [|apply nth_error_None in E; lia].
    cbn in H. rewrite (nth_error_nth _ _ d H), (nth_error_nth _ _ d E). reflexivity.
  Qed.

  (* what run i ends with does not depend on the other runs' states *)
  Corollary independent_of_others : forall tr sched s s' i,
    nth_error s i = nth_error s' i ->
    nth_error (run_sched Tree Local step tr sched s) i = nth_error (run_sched Tree Local step tr sched s') i.
  Proof. intros. rewrite !noninterference. congruence. Qed.
End Interleave.

Section Runs.
  Variables (Tree Local Params Bytes : Type).
  Variable step : Tree -> Local -> Local.
  Variable start : Params -> Local.
  Variable finished : Local -> bool.
  Variable result : Local -> Bytes.
  Variable params_of : Local -> Params.

  Hypothesis Hstut : stutters Tree Local step finished.

  Lemma finished_fix tr n x : finished (iter Local n (step tr) x) = true ->
    forall m, iter Local (m + n) (step tr) x = iter Local n (step tr) x.
  Proof.
    intros Hf m. induction m as [|m IH]; [reflexivity|].
    cbn [Nat.add]. rewrite iter_succ_r, IH. apply Hstut, Hf.
  Qed.

  Lemma finished_same tr n m x :
    finished (iter Local n (step tr) x) = true -> finished (iter Local m (step tr) x) = true ->
    iter Local n (step tr) x = iter Local m (step tr) x.
  Proof.
    intros Hn Hm. destruct (Nat.le_ge_cases n m) as [H|H].
    - replace m with ((m - n) + n)%nat by lia. symmetry. apply finished_fix, Hn.
    - replace n with ((n - m) + m)%nat by lia. apply finished_fix, Hm.
  Qed.

  (* a run that finished inside ANY interleaving returns the bytes of a run of
     the same program with the same parameters executed alone (its "first run") *)
  Theorem rerun_same_bytes : forall tr sched ps i p li n,
    nth_error ps i = Some p ->
    nth_error (run_sched Tree Local step tr sched (map start ps)) i = Some li ->
    finished li = true ->
    finished (solo Tree Local step tr n (start p)) = true ->
    result li = result (solo Tree Local step tr n (start p)).
  Proof.
    intros tr sched ps i p li n Hp Hl Hf Hs.
    rewrite noninterference, nth_error_map, Hp in Hl. cbn in Hl. injection Hl as <-.
    unfold solo in *. f_equal. apply finished_same; assumption.
  Qed.

  (* two finished runs with equal parameters, anywhere in one interleaving, agree *)
  Corollary equal_params_equal_bytes : forall tr sched ps i j p li lj,
    nth_error ps i = Some p -> nth_error ps j = Some p ->
    nth_error (run_sched Tree Local step tr sched (map start ps)) i = Some li ->
    nth_error (run_sched Tree Local step tr sched (map start ps)) j = Some lj ->
    finished li = true -> finished lj = true -> result li = result lj.
  Proof.
    intros tr sched ps i j p li lj Hi Hj Hli Hlj Hfi Hfj.
    rewrite noninterference, nth_error_map, Hi in Hli. rewrite noninterference, nth_error_map, Hj in Hlj.
    cbn in *. injection Hli as <-. injection Hlj as <-. unfold solo in *. f_equal.
    apply finished_same; assumption.
  Qed.

  Hypothesis Hkeep : keeps_params Tree Local Params step params_of.
  Hypothesis Hstart : start_params Local Params start params_of.

  Lemma iter_params tr n x : params_of (iter Local n (step tr) x) = params_of x.
  Proof. revert x. induction n as [|n IH]; intros x; cbn; [reflexivity|]. rewrite IH. apply Hkeep. Qed.

  (* each run sees only its own parameters, and what it computes does not
     depend on the parameters of the other runs *)
  Theorem params_isolated : forall tr sched ps i p li,
    nth_error ps i = Some p ->
    nth_error (run_sched Tree Local step tr sched (map start ps)) i = Some li ->
    params_of li = p /\
    forall ps', nth_error ps' i = Some p ->
      nth_error (run_sched Tree Local step tr sched (map start ps')) i = Some li.
  Proof.
    intros tr sched ps i p li Hp Hl. split.
    - rewrite noninterference, nth_error_map, Hp in Hl. cbn in Hl. injection Hl as <-.
      unfold solo. rewrite iter_params. apply Hstart.
    - intros ps' Hp'. rewrite <- Hl. apply independent_of_others. rewrite !nth_error_map, Hp, Hp'. reflexivity.
  Qed.
End Runs.

(* ---------- generated fact tables ---------- *)
Lemma tree_writes_ok_spec t :
  tree_writes_ok t = true -> t <> [] /\ forall r, In r t -> tw_writes r = false.
Proof.
  unfold tree_writes_ok. intros H. apply andb_prop in H. destruct H as [H1 H2]. split.
  - destruct t; [discriminate|discriminate].
  - rewrite forallb_forall in H2. intros r Hr. specialize (H2 r Hr). destruct (tw_writes r); [discriminate|reflexivity].
Qed.

Lemma globals_ok_spec g : globals_ok g = true -> forall r, In r g -> gv_unsync r = false.
Proof.
  unfold globals_ok. rewrite forallb_forall. intros H r Hr. specialize (H r Hr).
  destruct (gv_unsync r); [discriminate|reflexivity].
Qed.

(* ---------- the instance: hypotheses are satisfiable ---------- *)
Lemma mstep_stutters_prog prog l : mfinished prog l = true -> mstep prog l = l.
Proof.
  unfold mfinished, mstep. intros H. apply Nat.leb_le in H.
  destruct (nth_error prog (ml_pc l)) eqn:E; [|reflexivity].
  assert (nth_error prog (ml_pc l) <> None) by congruence. apply nth_error_Some in H0. lia.
Qed.

Lemma mstep_keeps_params prog l : ml_param (mstep prog l) = ml_param l.
Proof. unfold mstep. destruct (nth_error prog (ml_pc l)); reflexivity. Qed.

Example interleaved_runs :
  let prog := [IParam; IPush 2; IMul] in
  map mresult (run_sched (list instr) mlocal mstep prog [0;1;2;2;1;0;1;0;2;0;1;2]%nat (map mstart [5; 5; 7]))
  = [[10]; [10]; [14]].
Proof. vm_compute. reflexivity. Qed.
