(* Loop.v — model of pkg/drivers/cdp/events/loop.go (C20): the listener table,
   the lock-table vocabulary consumed by Generated/GenLoopLocks.v, and the
   event loop as a transition system over schedules.  Definitions only; the
   lemmas are in Proofs/LoopProofs.v.

   Granularity.  One step of a thread is ONE critical section of loop.mu (as
   delimited by the extracted lock table: the whole body of AddListener /
   RemoveListener / Listeners; in emit the snapshot section and, per one-shot
   handler, the delete section) or ONE observable action outside the lock (an
   instrumented tick of the harness: operation start / end, Ready(), Recv(),
   the handler call, cancel, Close()).  A context test is merged with the
   unconditional action that follows it.  Every effective step appends exactly
   one record, stamped with the logical clock, to the log.  The schedule (a list
   of thread ids, unbounded) carries all nondeterminism, including the order in
   which Go iterates the listener map when the snapshot is taken. *)
From Ferret Require Import Base.
Local Open Scope N_scope.

(* ---------- lock table (rows are generated from the source) ---------- *)

Inductive acc_kind := ARead | AWrite | ACall.
Inductive lock_mode := LNone | LR | LW | LUnknown.
Record lock_access := mkAccess {
  la_method : string; la_kind : acc_kind; la_lock : lock_mode; la_line : N }.

(* writes need Lock, reads need at least RLock, handlers are called with the
   mutex released (a handler may itself add or remove listeners) *)
Definition access_ok (a : lock_access) : bool :=
  match la_kind a, la_lock a with
  | AWrite, LW => true
  | ARead, LR | ARead, LW => true
  | ACall, LNone => true
  | _, _ => false
  end.
Definition has_kind (k : acc_kind) (t : list lock_access) : bool :=
  existsb (fun a => match la_kind a, k with
                    | ARead, ARead | AWrite, AWrite | ACall, ACall => true
                    | _, _ => false end) t.
(* the table must also be complete enough to delimit the model's steps *)
Definition check_locks (t : list lock_access) : bool :=
  forallb access_ok t && has_kind ARead t && has_kind AWrite t && has_kind ACall t.

(* can two goroutines be at these two points at the same time?  sync.RWMutex
   excludes W/W and W/R; nothing is known about LUnknown *)
Definition compat (a b : lock_mode) : bool :=
  match a, b with
  | LW, LW | LW, LR | LR, LW => false
  | _, _ => true
  end.
Definition conflict (a b : lock_access) : bool :=
  match la_kind a, la_kind b with
  | AWrite, AWrite | AWrite, ARead | ARead, AWrite => true
  | _, _ => false
  end.
Definition race (a b : lock_access) : bool :=
  compat (la_lock a) (la_lock b) && conflict a b.
Definition races (t : list lock_access) : list (lock_access * lock_access) :=
  filter (fun p => race (fst p) (snd p)) (list_prod t t).

(* ---------- the listener table ---------- *)

Definition event := N.
Definition lid := N.
Inductive hkind := Persistent | Once.          (* handler returns true | false *)
Record entry := mkE { e_id : lid; e_ev : event; e_kd : hkind }.
Definition table := list entry.

Definition hkind_eqb (a b : hkind) : bool :=
  match a, b with Persistent, Persistent | Once, Once => true | _, _ => false end.

Definition tbl_for (ev : event) (t : table) : table := filter (fun e => e_ev e =? ev) t.
Definition tbl_snapshot (ev : event) (t : table) : list (lid * hkind) :=
  map (fun e => (e_id e, e_kd e)) (tbl_for ev t).
Definition tbl_remove (ev : event) (l : lid) (t : table) : table :=
  filter (fun e => negb ((e_id e =? l) && (e_ev e =? ev))) t.
Definition tbl_count (ev : event) (t : table) : N := N.of_nat (List.length (tbl_for ev t)).

(* Go's map iteration order: any permutation, chosen by the schedule *)
Fixpoint insert_at {A} (n : nat) (x : A) (l : list A) : list A :=
  match n, l with
  | O, _ => x :: l
  | S _, [] => [x]
  | S k, y :: r => y :: insert_at k x r
  end.
Fixpoint permute {A} (n : nat) (l : list A) : list A :=
  match l with
  | [] => []
  | x :: r => insert_at (Nat.modulo n (S (List.length r))) x (permute (Nat.div n (S (List.length r))) r)
  end.

(* ---------- threads, records, state ---------- *)

Inductive op :=
| OAdd (ev : event) (kd : hkind)
| ORemove (ev : event) (l : lid)
| OCount (ev : event).

Inductive rec :=
| RStart (g : nat) (i : N) (o : op)                 (* observable: API call begins *)
| RAdded (l : lid) (ev : event) (kd : hkind)        (* internal: critical section of AddListener *)
| RRemoved (ev : event) (l : lid)                   (* internal: critical section of RemoveListener, or emit's delete *)
| RCounted (ev : event) (n : N)                     (* internal: critical section of Listeners *)
| REnd (g : nat) (i : N) (o : op) (res : N)         (* observable: API call returned (res: listener id | count | 0) *)
| RReady (c : nat) (k : N)                          (* observable: consumer c calls Ready() having received k events *)
| RRecv (c : nat) (k : N) (ev : event)              (* observable: consumer c receives its k-th event *)
| RSnap (c : nat) (k : N) (ev : event) (ls : list (lid * hkind))   (* internal: emit's snapshot section *)
| RDeliver (c : nat) (k : N) (ev : event) (l : lid) (kd : hkind)   (* observable: handler of l called for event k of c *)
| RCancel                                           (* observable: cancel is about to be called *)
| RCancelled                                        (* internal: the context is cancelled *)
| RClose (c : nat).                                 (* observable: Close() of source c *)

Definition observable (r : rec) : bool :=
  match r with
  | RAdded _ _ _ | RRemoved _ _ | RCounted _ _ | RSnap _ _ _ _ | RCancelled => false
  | _ => true
  end.

Inductive apc := AIdle | AStarted | ACommitted (res : N).
Record api := mkApi { a_idx : N; a_pc : apc; a_ops : list op }.

Inductive spc :=
| STop                                                       (* about to call Ready() *)
| SSel                                                       (* in select *)
| SGot (ev : event)                                          (* event received, emit not yet entered *)
| SCalling (ev : event) (todo : list (lid * hkind))          (* in emit's loop; todo is never empty *)
| SDeleting (ev : event) (l : lid) (todo : list (lid * hkind))
| SClosed.
Record src := mkSrc { s_cnt : N; s_pc : spc; s_evs : list event }.

Inductive cancel_state := CNone | CRequested | CEffective.

Record state := mkState {
  tbl : table; next_id : N; clock : N; cstate : cancel_state;
  apis : list api; srcs : list src; log : list (N * rec) }.

Definition cancelled (s : state) : bool :=
  match cstate s with CEffective => true | _ => false end.

Inductive tid := Api (g : nat) | Src (c : nat) (choice : nat) | Canc.

Fixpoint upd {A} (n : nat) (x : A) (l : list A) : list A :=
  match l, n with
  | [], _ => []
  | _ :: r, O => x :: r
  | y :: r, S k => y :: upd k x r
  end.

(* one step of API goroutine g: (thread', table', next id', record) *)
Definition api_step (g : nat) (t : table) (nid : N) (a : api) : option (api * table * N * rec) :=
  match a_ops a with
  | [] => None
  | o :: rest =>
      match a_pc a with
      | AIdle => Some (mkApi (a_idx a) AStarted (a_ops a), t, nid, RStart g (a_idx a) o)
      | AStarted =>
          match o with
          | OAdd ev kd =>
              Some (mkApi (a_idx a) (ACommitted nid) (a_ops a), t ++ [mkE nid ev kd], nid + 1, RAdded nid ev kd)
          | ORemove ev l =>
              Some (mkApi (a_idx a) (ACommitted 0) (a_ops a), tbl_remove ev l t, nid, RRemoved ev l)
          | OCount ev =>
              Some (mkApi (a_idx a) (ACommitted (tbl_count ev t)) (a_ops a), t, nid, RCounted ev (tbl_count ev t))
          end
      | ACommitted res => Some (mkApi (a_idx a + 1) AIdle rest, t, nid, REnd g (a_idx a) o res)
      end
  end.

(* where the consumer goes when the rest of the snapshot is [todo] *)
Definition after_todo (st : src) (ev : event) (todo : list (lid * hkind)) : src :=
  match todo with
  | [] => mkSrc (s_cnt st + 1) STop (s_evs st)
  | _ :: _ => mkSrc (s_cnt st) (SCalling ev todo) (s_evs st)
  end.

(* one step of the consumer goroutine of source c: (thread', table', record) *)
Definition src_step (c choice : nat) (t : table) (canc : bool) (st : src) : option (src * table * rec) :=
  match s_pc st with
  | STop => Some (mkSrc (s_cnt st) SSel (s_evs st), t, RReady c (s_cnt st))
  | SSel =>
      if canc then Some (mkSrc (s_cnt st) SClosed (s_evs st), t, RClose c)
      else match s_evs st with
           | [] => None                                       (* blocked in select *)
           | ev :: rest => Some (mkSrc (s_cnt st) (SGot ev) rest, t, RRecv c (s_cnt st) ev)
           end
  | SGot ev =>
      let ls := permute choice (tbl_snapshot ev t) in
      Some (after_todo st ev ls, t, RSnap c (s_cnt st) ev ls)
  | SCalling ev todo =>
      match todo with
      | [] => None                                            (* not a reachable state *)
      | (l, kd) :: rest =>
          if canc then                                        (* ctx.Err() != nil: return; loop; Ready() *)
            Some (mkSrc (s_cnt st + 1) SSel (s_evs st), t, RReady c (s_cnt st + 1))
          else
            Some (match kd with
                  | Once => mkSrc (s_cnt st) (SDeleting ev l rest) (s_evs st)
                  | Persistent => after_todo st ev rest
                  end, t, RDeliver c (s_cnt st) ev l kd)
      end
  | SDeleting ev l todo => Some (after_todo st ev todo, tbl_remove ev l t, RRemoved ev l)
  | SClosed => None
  end.

Definition step (s : state) (t : tid) : state :=
  match t with
  | Api g =>
      match nth_error (apis s) g with
      | None => s
      | Some a =>
          match api_step g (tbl s) (next_id s) a with
          | None => s
          | Some (a', t', n', r) =>
              mkState t' n' (clock s + 1) (cstate s) (upd g a' (apis s)) (srcs s) ((clock s, r) :: log s)
          end
      end
  | Src c choice =>
      match nth_error (srcs s) c with
      | None => s
      | Some st =>
          match src_step c choice (tbl s) (cancelled s) st with
          | None => s
          | Some (st', t', r) =>
              mkState t' (next_id s) (clock s + 1) (cstate s) (apis s) (upd c st' (srcs s)) ((clock s, r) :: log s)
          end
      end
  | Canc =>
      match cstate s with
      | CNone => mkState (tbl s) (next_id s) (clock s + 1) CRequested (apis s) (srcs s) ((clock s, RCancel) :: log s)
      | CRequested => mkState (tbl s) (next_id s) (clock s + 1) CEffective (apis s) (srcs s) ((clock s, RCancelled) :: log s)
      | CEffective => s
      end
  end.

Definition lrun (s : state) (sched : list tid) : state := fold_left step sched s.

(* initial states: empty table, every goroutine at its start *)
Definition init (ops : list (list op)) (evs : list (list event)) : state :=
  mkState [] 0 0 CNone (map (mkApi 0 AIdle) ops) (map (mkSrc 0 STop) evs) [].

(* what the harness can see *)
Definition history := list (N * rec).
Definition obs (h : history) : history := filter (fun tr => observable (snd tr)) h.

(* ---------- the delivery specification, on observable histories ---------- *)

Definition is_deliv (c : nat) (k : N) (l : lid) (r : rec) : bool :=
  match r with
  | RDeliver c' k' _ l' _ => Nat.eqb c' c && (k' =? k) && (l' =? l)
  | _ => false
  end.
(* number of calls of listener l in dispatch (c, k) *)
Definition ndeliv (h : history) (c : nat) (k : N) (l : lid) : nat :=
  List.length (filter (fun tr => is_deliv c k l (snd tr)) h).

Definition at_most_once (h : history) : Prop := forall c k l, (ndeliv h c k l <= 1)%nat.

(* dispatch (c,k) lies between Recv #k and the next Ready() of consumer c.
   A listener whose registration returned before the Recv, whose removal was
   not even requested before that Ready(), and (one-shot) that was not called
   by another dispatch before it, is called exactly once — unless the context
   was cancelled before the dispatch ended. *)
Definition must_deliver (h : history) : Prop :=
  forall g i ev kd l ta c k tr te,
    In (ta, REnd g i (OAdd ev kd) l) h ->
    In (tr, RRecv c k ev) h -> ta < tr ->
    In (te, RReady c (k + 1)) h ->
    (forall tc, In (tc, RCancel) h -> te < tc) ->
    (forall g' i' ts, In (ts, RStart g' i' (ORemove ev l)) h -> te < ts) ->
    (kd = Once -> forall c' k' ev' kd' td, In (td, RDeliver c' k' ev' l kd') h ->
                  (c' = c /\ k' = k) \/ te < td) ->
    ndeliv h c k l = 1%nat.

(* a listener whose removal returned before the event was received is not
   called by that dispatch (the removal was requested after the registration
   returned: the harness only removes ids it has obtained) *)
Definition must_not_deliver (h : history) : Prop :=
  forall ga ia ev kd l ta gr ir res tsr ter c k ev' tr,
    In (ta, REnd ga ia (OAdd ev kd) l) h ->
    In (tsr, RStart gr ir (ORemove ev l)) h -> ta < tsr ->
    In (ter, REnd gr ir (ORemove ev l) res) h ->
    In (tr, RRecv c k ev') h -> ter < tr ->
    ndeliv h c k l = 0%nat.

(* a handler that returned false is not called by a later dispatch of the same source *)
Definition once_not_again (h : history) : Prop :=
  forall t c k ev l k', In (t, RDeliver c k ev l Once) h -> k < k' -> ndeliv h c k' l = 0%nat.

(* source order: calls made for one source are in the order of its events, and
   each call carries the event that was received as number k *)
Definition source_order (h : history) : Prop :=
  (forall t c k ev l kd t' k' ev' l' kd',
      In (t, RDeliver c k ev l kd) h -> In (t', RDeliver c k' ev' l' kd') h -> t < t' -> k <= k') /\
  (forall t c k ev l kd, In (t, RDeliver c k ev l kd) h -> exists tr, In (tr, RRecv c k ev) h /\ tr < t).

(* a handler is called only for the event it was registered for, with its own kind *)
Definition right_listener (h : history) : Prop :=
  forall t c k ev l kd ta g i ev' kd',
    In (t, RDeliver c k ev l kd) h -> In (ta, REnd g i (OAdd ev' kd') l) h -> ev' = ev /\ kd' = kd.

Definition src_of (r : rec) : option nat :=
  match r with
  | RReady c _ | RRecv c _ _ | RDeliver c _ _ _ _ | RClose c => Some c
  | _ => None
  end.
(* a source is closed only after cancel was requested, once, and is silent afterwards *)
Definition closed_is_final (h : history) : Prop :=
  forall t c, In (t, RClose c) h ->
    (exists tc, In (tc, RCancel) h /\ tc < t) /\
    (forall t' r, In (t', r) h -> src_of r = Some c -> t' < t \/ (t' = t /\ r = RClose c)).

(* Listeners(ev) returns at least the number of persistent listeners of ev whose
   registration returned before the call began and whose removal was not even
   requested before it returned *)
Definition count_lower_bound (h : history) : Prop :=
  forall g i ev n ts te (ls : list lid),
    In (ts, RStart g i (OCount ev)) h -> In (te, REnd g i (OCount ev) n) h ->
    NoDup ls ->
    (forall l, In l ls -> exists ga ia ta, In (ta, REnd ga ia (OAdd ev Persistent) l) h /\ ta < ts /\
                          forall g' i' tr, In (tr, RStart g' i' (ORemove ev l)) h -> te < tr) ->
    N.of_nat (List.length ls) <= n.

Definition delivery_spec (h : history) : Prop :=
  at_most_once h /\ must_deliver h /\ must_not_deliver h /\ once_not_again h /\
  source_order h /\ right_listener h /\ closed_is_final h /\ count_lower_bound h.

(* The stronger, real-time readings of "never called again" — the two shapes
   the model refutes (see LoopProofs): a one-shot listener called by dispatches
   of two sources; a listener called after its removal returned, by a dispatch
   whose snapshot preceded the removal. *)
Definition once_total (h : history) : Prop :=
  forall t c k ev l t' c' k' ev' kd',
    In (t, RDeliver c k ev l Once) h -> In (t', RDeliver c' k' ev' l kd') h -> t = t'.
Definition never_after_removal (h : history) : Prop :=
  forall gr ir ev l res ter t c k ev' kd,
    In (ter, REnd gr ir (ORemove ev l) res) h -> In (t, RDeliver c k ev' l kd) h -> t < ter.

(* ---------- the same specification as a decision procedure ---------- *)
(* [ok_* h tr]: the clause instantiated at record tr of h; history_ok is their
   conjunction over all records.  LoopProofs: delivery_spec h -> history_ok h = true. *)

Definition op_is_remove (o : op) (ev : event) (l : lid) : bool :=
  match o with ORemove ev' l' => (ev' =? ev) && (l' =? l) | _ => false end.

Definition no_cancel_before (h : history) (te : N) : bool :=
  forallb (fun tr => match snd tr with RCancel => te <? fst tr | _ => true end) h.
Definition no_remove_before (h : history) (ev : event) (l : lid) (te : N) : bool :=
  forallb (fun tr => match snd tr with
                     | RStart _ _ o => negb (op_is_remove o ev l) || (te <? fst tr)
                     | _ => true end) h.
Definition once_elsewhere_later (h : history) (kd : hkind) (l : lid) (c : nat) (k te : N) : bool :=
  match kd with
  | Persistent => true
  | Once => forallb (fun tr => match snd tr with
                               | RDeliver c' k' _ l' _ =>
                                   negb (l' =? l) || (Nat.eqb c' c && (k' =? k)) || (te <? fst tr)
                               | _ => true end) h
  end.

Definition ok_amo (h : history) (tr : N * rec) : bool :=
  match snd tr with RDeliver c k _ l _ => Nat.leb (ndeliv h c k l) 1 | _ => true end.

Definition ok_must (h : history) (tr : N * rec) : bool :=
  match snd tr with
  | REnd _ _ (OAdd ev kd) l =>
      let ta := fst tr in
      forallb (fun tr2 => match snd tr2 with
        | RRecv c k ev' =>
            if (ev' =? ev) && (ta <? fst tr2) then
              forallb (fun tr3 => match snd tr3 with
                | RReady c' k' =>
                    let te := fst tr3 in
                    if Nat.eqb c' c && (k' =? k + 1) && no_cancel_before h te &&
                       no_remove_before h ev l te && once_elsewhere_later h kd l c k te
                    then Nat.eqb (ndeliv h c k l) 1 else true
                | _ => true end) h
            else true
        | _ => true end) h
  | _ => true
  end.

Definition ok_mustnot (h : history) (tr : N * rec) : bool :=
  match snd tr with
  | REnd _ _ (OAdd ev _) l =>
      let ta := fst tr in
      forallb (fun tr2 => match snd tr2 with
        | RStart gr ir o =>
            if op_is_remove o ev l && (ta <? fst tr2) then
              forallb (fun tr3 => match snd tr3 with
                | REnd gr' ir' o' _ =>
                    if Nat.eqb gr' gr && (ir' =? ir) && op_is_remove o' ev l then
                      forallb (fun tr4 => match snd tr4 with
                        | RRecv c k _ => if fst tr3 <? fst tr4 then Nat.eqb (ndeliv h c k l) 0 else true
                        | _ => true end) h
                    else true
                | _ => true end) h
            else true
        | _ => true end) h
  | _ => true
  end.

Definition ok_once (h : history) (tr : N * rec) : bool :=
  match snd tr with
  | RDeliver c k _ l Once =>
      forallb (fun tr2 => match snd tr2 with
        | RDeliver c' k' _ l' _ => negb (Nat.eqb c' c && (l' =? l) && (k <? k'))
        | _ => true end) h
  | _ => true
  end.

Definition ok_order (h : history) (tr : N * rec) : bool :=
  match snd tr with
  | RDeliver c k ev _ _ =>
      forallb (fun tr2 => match snd tr2 with
        | RDeliver c' k' _ _ _ => negb (Nat.eqb c' c && (fst tr <? fst tr2)) || (k <=? k')
        | _ => true end) h &&
      existsb (fun tr2 => match snd tr2 with
        | RRecv c' k' ev' => Nat.eqb c' c && (k' =? k) && (ev' =? ev) && (fst tr2 <? fst tr)
        | _ => false end) h
  | _ => true
  end.

Definition ok_right (h : history) (tr : N * rec) : bool :=
  match snd tr with
  | RDeliver _ _ ev l kd =>
      forallb (fun tr2 => match snd tr2 with
        | REnd _ _ (OAdd ev' kd') l' => negb (l' =? l) || ((ev' =? ev) && hkind_eqb kd' kd)
        | _ => true end) h
  | _ => true
  end.

Definition rec_is_close (r : rec) (c : nat) : bool :=
  match r with RClose c' => Nat.eqb c' c | _ => false end.
Definition ok_close (h : history) (tr : N * rec) : bool :=
  match snd tr with
  | RClose c =>
      existsb (fun tr2 => match snd tr2 with RCancel => fst tr2 <? fst tr | _ => false end) h &&
      forallb (fun tr2 => match src_of (snd tr2) with
                          | Some c' => negb (Nat.eqb c' c) || (fst tr2 <? fst tr) ||
                                       ((fst tr2 =? fst tr) && rec_is_close (snd tr2) c)
                          | None => true end) h
  | _ => true
  end.

Fixpoint dedup (l : list lid) : list lid :=
  match l with
  | [] => []
  | x :: r => if existsb (fun y => y =? x) r then dedup r else x :: dedup r
  end.
(* the persistent listeners of ev certainly registered throughout [ts, te] *)
Definition surely_registered (h : history) (ev : event) (ts te : N) : list lid :=
  dedup (flat_map (fun tr => match snd tr with
                             | REnd _ _ (OAdd ev' Persistent) l =>
                                 if (ev' =? ev) && (fst tr <? ts) && no_remove_before h ev l te then [l] else []
                             | _ => [] end) h).
Definition ok_count (h : history) (tr : N * rec) : bool :=
  match snd tr with
  | REnd g i (OCount ev) n =>
      forallb (fun tr2 => match snd tr2 with
        | RStart g' i' (OCount ev') =>
            if Nat.eqb g' g && (i' =? i) && (ev' =? ev)
            then N.of_nat (List.length (surely_registered h ev (fst tr2) (fst tr))) <=? n else true
        | _ => true end) h
  | _ => true
  end.

Definition history_ok (h : history) : bool :=
  forallb (ok_amo h) h && forallb (ok_must h) h && forallb (ok_mustnot h) h &&
  forallb (ok_once h) h && forallb (ok_order h) h && forallb (ok_right h) h && forallb (ok_close h) h &&
  forallb (ok_count h) h.

(* the two real-time readings, as decision procedures (known-finding classes) *)
Definition ok_once_total (h : history) (tr : N * rec) : bool :=
  match snd tr with
  | RDeliver _ _ _ l Once =>
      forallb (fun tr2 => match snd tr2 with
        | RDeliver _ _ _ l' _ => negb (l' =? l) || (fst tr2 =? fst tr)
        | _ => true end) h
  | _ => true
  end.
Definition ok_after_removal (h : history) (tr : N * rec) : bool :=
  match snd tr with
  | REnd _ _ (ORemove ev l) _ =>
      forallb (fun tr2 => match snd tr2 with
        | RDeliver _ _ ev' l' _ => negb ((l' =? l) && (ev' =? ev)) || (fst tr2 <? fst tr)
        | _ => true end) h
  | _ => true
  end.

(* the records at which a clause fails; the check file reports these *)
Definition bad (ok : N * rec -> bool) (h : history) : history := filter (fun tr => negb (ok tr)) h.
Definition verdict_bad (h : history) : history :=
  bad (ok_amo h) h ++ bad (ok_must h) h ++ bad (ok_mustnot h) h ++ bad (ok_once h) h ++
  bad (ok_order h) h ++ bad (ok_right h) h ++ bad (ok_close h) h ++ bad (ok_count h) h.
