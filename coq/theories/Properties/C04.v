(* Properties/C04.v — C04: the FOR pipeline obeys the relational laws of its
   clauses.  The iterator state machines of Iter.v (mirrors of
   collections/{filter,limit,sort,unique}.go and clauses/collect_iterator.go,
   over any lawful source iterator) refine the list-level specifications that
   the correspondence check evaluates.  Statements only. *)
From Ferret Require Import Iter Proofs.IterProofs.
From Coq Require Import Permutation.

Section C04.
  Context {A St : Type}.

  (* FILTER keeps exactly the elements whose predicate is true, in order, and
     is again a lawful iterator (so clauses compose) *)
  Theorem filter_refines : forall (src : @source A St) (p : A -> bool),
    lawful src ->
    lawful (filter_source src p) /\
    forall s, s_drain _ (filter_source src p) s = filter p (s_drain _ src s).
  Proof. exact (fun src p H => conj (filter_source_lawful src H p) (fun s => eq_refl)). Qed.

  (* LIMIT offset,count returns exactly that slice, for every source, offset
     and count (non-negative, as the property quantifies) *)
  Theorem limit_refines_slice : forall (src : @source A St), lawful src ->
    forall s o c, 0 <= o -> 0 <= c ->
    run_limit src o c s = firstn (Z.to_nat c) (skipn (Z.to_nat o) (s_drain _ src s)).
  Proof. exact (fun src H => limit_refines_slice_gen src H). Qed.

  (* clause chains: LIMIT over FILTER is the slice of the filtered sequence *)
  Theorem clause_chain_limit_filter : forall (src : @source A St) (p : A -> bool), lawful src ->
    forall s o c, 0 <= o -> 0 <= c ->
    run_limit (filter_source src p) o c s =
    firstn (Z.to_nat c) (skipn (Z.to_nat o) (filter p (s_drain _ src s))).
  Proof.
    exact (fun src p H s o c Ho Hc =>
             limit_refines_slice_gen (filter_source src p) (filter_source_lawful src H p) s o c Ho Hc).
  Qed.
End C04.

(* SORT: a permutation, ordered (no neighbour inversion) for any asymmetric
   less-than, and stable: the members of every class of mutually tied rows
   come out in source order *)
Theorem sort_stable_perm_sorted : forall (A : Type) (lt : A -> A -> bool) (l : list A),
  Permutation l (sort_by lt l) /\
  ((forall a b, lt a b = true -> lt b a = false) -> no_inversion lt (sort_by lt l) = true) /\
  (forall c : A -> bool, (forall a b, c a = true -> c b = true -> lt a b = false) ->
                         filter c (sort_by lt l) = filter c l).
Proof.
  exact (fun A lt l => conj (sort_by_perm lt l)
                            (conj (fun H => sort_by_sorted lt H l) (fun c H => sort_by_stable lt c l H))).
Qed.

(* RETURN DISTINCT: nothing invented, nothing lost, no two kept values equal,
   and the occurrence kept is the first *)
Theorem distinct_first_occurrence : forall (A : Type) (eqb : A -> A -> bool) (l : list A),
  (forall x, In x (dedup eqb l) -> In x l) /\
  (forall x, In x l -> exists y, In y (dedup eqb l) /\ (y = x \/ eqb x y = true)) /\
  ForallOrdPairs (fun a b => eqb b a = false) (dedup eqb l) /\
  (forall l1 x l2, l = l1 ++ x :: l2 -> (forall y, In y l1 -> eqb x y = false) -> In x (dedup eqb l)).
Proof.
  intros A eqb l. repeat split.
  - intros x H. exact (dedup_acc_incl eqb [] l x H).
  - intros x H. destruct (dedup_acc_complete eqb [] l x H) as [S|S]; [discriminate S|exact S].
  - exact (dedup_acc_nodup eqb [] l).
  - intros l1 x l2 -> H. exact (dedup_acc_first eqb [] l1 x l2 eq_refl H).
Qed.

(* COLLECT partitions the rows: keys pairwise distinct; each group holds
   exactly the rows with its key, in the order they arrive, and is non-empty;
   every row lands in a group (hence counts sum to the number of rows) *)
Theorem collect_partition : forall (A K : Type) (key : A -> K) (keqb : K -> K -> bool),
  (forall a b, keqb a b = true <-> a = b) ->
  forall l, let gs := collect_groups key keqb l in
  NoDup (map fst gs) /\
  (forall k m, In (k, m) gs -> m = filter (fun x => keqb (key x) k) l /\ m <> []) /\
  (forall x, In x l -> In (key x) (map fst gs)).
Proof. exact (fun A K key keqb H l => IterProofs.collect_partition key keqb H l). Qed.

Print Assumptions filter_refines.
Print Assumptions limit_refines_slice.
Print Assumptions clause_chain_limit_filter.
Print Assumptions sort_stable_perm_sorted.
Print Assumptions distinct_first_occurrence.
Print Assumptions collect_partition.

(* non-vacuity / sampling of the state machine against the Go behaviour *)
Example limit_instance : run_limit list_source 1 2 [10; 20; 30; 40] = [20; 30].
Proof. reflexivity. Qed.
Example limit_negative_offset_is_modelled : run_limit list_source (-1) 2 [1; 2; 3] = [1].
Proof. reflexivity. Qed.
