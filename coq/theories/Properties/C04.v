(* Properties/C04.v — C04: the FOR pipeline obeys the relational laws of its
   clauses.  The iterator state machines of Iter.v (mirrors of
   collections/{filter,limit,sort,unique}.go and clauses/collect_iterator.go,
   over any lawful source iterator) refine the list-level specifications that
   the correspondence check evaluates.  Statements only. *)
From Ferret Require Import Iter Proofs.IterProofs.
From Coq Require Import Permutation.

Section C04.
  Context {A St : Type}.

  (* FILTER keeps exactly the elements whose predicate is true, in order, and
     is again a lawful iterator (so clauses compose) *)
  Theorem filter_refines : forall (src : @source A St) (p : A -> bool),
    lawful src ->
    lawful (filter_source src p) /\
    forall s, s_drain _ (filter_source src p) s = filter p (s_drain _ src s).
  Proof. exact (fun src p H => conj (filter_source_lawful src H p) (fun s => eq_refl)). Qed.

  (* LIMIT offset,count returns exactly that slice, for every source, offset
     and count (non-negative, as the property quantifies) *)
  Theorem limit_refines_slice : forall (src : @source A St), lawful src ->
    forall s o c, 0 <= o -> 0 <= c ->
    run_limit src o c s = firstn (Z.to_nat c) (skipn (Z.to_nat o) (s_drain _ src s)).
  Proof. exact (fun src H => limit_refines_slice_gen src H). Qed.

  (* clause chains: LIMIT over FILTER is the slice of the filtered sequence *)
  Theorem clause_chain_limit_filter : forall (src : @source A St) (p : A -> bool), lawful src ->
    forall s o c, 0 <= o -> 0 <= c ->
    run_limit (filter_source src p) o c s =
    firstn (Z.to_nat c) (skipn (Z.to_nat o) (filter p (s_drain _ src s))).
  Proof.
    exact (fun src p H s o c Ho Hc =>
             limit_refines_slice_gen (filter_source src p) (filter_source_lawful src H p) s o c Ho Hc).
  Qed.
End C04.

(* SORT: a permutation, ordered (no neighbour inversion) for any asymmetric
   less-than, and stable: the members of every class of mutually tied rows
   come out in source order *)
Theorem sort_stable_perm_sorted : forall (A : Type) (lt : A -> A -> bool) (l : list A),
  Permutation l (sort_by lt l) /\
  ((forall a b, lt a b = true -> lt b a = false) -> no_inversion lt (sort_by lt l) = true) /\
  (forall c : A -> bool, (forall a b, c a = true -> c b = true -> lt a b = false) ->
                         filter c (sort_by lt l) = filter c l).
Proof.
  exact (fun A lt l => conj (sort_by_perm lt l)
                            (conj (fun H => sort_by_sorted lt H l) (fun c H => sort_by_stable lt c l H))).
Qed.

(* RETURN DISTINCT: nothing invented, nothing lost, no two kept values equal,
   and the occurrence kept is the first *)
Theorem distinct_first_occurrence : forall (A : Type) (eqb : A -> A -> bool) (l : list A),
  (forall x, In x (dedup eqb l) -> In x l) /\
  (forall x, In x l -> exists y, In y (dedup eqb l) /\ (y = x \/ eqb x y = true)) /\
  ForallOrdPairs (fun a b => eqb b a = false) (dedup eqb l) /\
  (forall l1 x l2, l = l1 ++ x :: l2 -> (forall y, In y l1 -> eqb x y = false) -> In x (dedup eqb l)).
Proof.
  intros A eqb l. repeat split.
  - intros x H. exact (dedup_acc_incl eqb [] l x H).
  - intros x H. destruct (dedup_acc_complete eqb [] l x H) as [S|S]; [discriminate S|exact S].
  - exact (dedup_acc_nodup eqb [] l).
  - intros l1 x l2 -> H. exact (dedup_acc_first eqb [] l1 x l2 eq_refl H).
Qed.

(* COLLECT partitions the rows: keys pairwise distinct; each group holds
   exactly the rows with its key, in the order they arrive, and is non-empty;
   every row lands in a group (hence counts sum to the number of rows) *)
Theorem collect_partition : forall (A K : Type) (key : A -> K) (keqb : K -> K -> bool),
  (forall a b, keqb a b = true <-> a = b) ->
  forall l, let gs := collect_groups key keqb l in
  NoDup (map fst gs) /\
  (forall k m, In (k, m) gs -> m = filter (fun x => keqb (key x) k) l /\ m <> []) /\
  (forall x, In x l -> In (key x) (map fst gs)).
Proof. exact (fun A K key keqb H l => IterProofs.collect_partition key keqb H l). Qed.

Print Assumptions filter_refines.
Print Assumptions limit_refines_slice.
Print Assumptions clause_chain_limit_filter.
Print Assumptions sort_stable_perm_sorted.
Print Assumptions distinct_first_occurrence.
Print Assumptions collect_partition.

(* non-vacuity / sampling of the state machine against the Go behaviour *)
Example limit_instance : run_limit list_source 1 2 [10; 20; 30; 40] = [20; 30].
Proof. reflexivity. Qed.
Example limit_negative_offset_is_modelled : run_limit list_source (-1) 2 [1; 2; 3] = [1].
Proof. reflexivity. Qed.

(* ================================================================ the same laws
   for the evaluator's own iterators (Proofs/PipelineLaws.v): statements about
   the [next] / [iterate] / [eval_for] of Eval.v.

   [yields n w P it fs]: pulled with fuel n in world w, each time with any scope
   s of the set P, the iterator state [it] returns the rows f1 s, f2 s, ... of
   fs, then reports the end, and never changes the world.  A row is a function
   of the scope of the pull because every clause derives the scope it pulls its
   source with from the one it was given ([forked P] = the forks of the scopes
   of P).  [yields_at n it s w rows] is the loop form: the evaluator's drain loop,
   always pulling with scope s, returns rows and ends in the world w it started
   from; for a single scope the two forms are equivalent. *)
From Ferret Require Import Eval Proofs.PipelineLaws.

Theorem eval_yields_forms_agree : forall (n : nat) (it : Eval.iter) (s : frames) (w : world) (rows : list frames),
  yields_at n it s w rows <-> yields n w (eq s) it (map const_row rows).
Proof. exact yields_at_iff. Qed.

(* FILTER keeps exactly the rows on which the expression is the boolean true
   ([vtrue], as ItFilter tests it), in order.  Fuel: the premises at fuel n, the
   conclusion at every fuel M >= n + (number of source rows) + 2. *)
Theorem eval_filter_law : forall (A : Type) (g : A -> rowf) (b : A -> bool) (e : expr)
    (n : nat) (w : world) (P : scopes) (src : Eval.iter) (l : list A),
  yields n w (forked P) src (map g l) ->
  (forall a, In a l -> forall s, P s ->
     exists v, eval n e (g a (fork s)) w = (Ok v, w) /\ vtrue v = b a) ->
  forall M : nat, (n + length l + 2 <= M)%nat ->
  yields M w P (ItFilter src e) (map (fun a s => g a (fork s)) (filter b l)).
Proof. exact filter_law. Qed.

Theorem eval_filter_law_loop : forall (e : expr) (b : frames -> bool) (n : nat) (src : Eval.iter)
    (sc : frames) (w : world) (rows : list frames),
  yields_at n src (fork sc) w rows ->
  (forall r, In r rows -> exists v, eval n e r w = (Ok v, w) /\ vtrue v = b r) ->
  forall M : nat, (n + length rows + 2 <= M)%nat ->
  yields_at M (ItFilter src e) sc w (filter b rows).
Proof. exact filter_law_at. Qed.

(* LIMIT o, c (the state [iterate] builds for literal integers, see
   eval_iterate_clauses) returns exactly that slice.  The rows it returns are
   pulled with the scope it was given, the rows it skips with a fork of it. *)
Theorem eval_limit_law : forall (n : nat) (w : world) (P Q : scopes) (src : Eval.iter) (fs : list rowf) (c o : Z),
  0 <= o ->
  (forall s, P s -> Q s) -> (o <> 0 -> forall s, P s -> Q (fork s)) ->
  yields n w Q src fs ->
  forall M : nat, (n + Nat.min (Z.to_nat o) (length fs) + 2 <= M)%nat ->
  yields M w P (ItLimit src c o 0) (firstn (Z.to_nat c) (skipn (Z.to_nat o) fs)).
Proof. exact limit_law. Qed.

(* ... and it never pulls more than o + c rows: only the first o + c pulls of the
   source are constrained ([pulls]: that many successful pulls, nothing said
   about the state src' they lead to) *)
Theorem eval_limit_pulls_at_most_offset_plus_count :
  forall (n : nat) (w : world) (P Q : scopes) (src src' : Eval.iter) (fs : list rowf) (c o : Z),
  0 <= o ->
  (forall s, P s -> Q s) -> (o <> 0 -> forall s, P s -> Q (fork s)) ->
  pulls n w Q src fs src' -> (Z.to_nat o + Z.to_nat c <= length fs)%nat ->
  forall M : nat, (n + Z.to_nat o + 2 <= M)%nat ->
  yields M w P (ItLimit src c o 0) (firstn (Z.to_nat c) (skipn (Z.to_nat o) fs)).
Proof. exact limit_law_prefix. Qed.

Theorem eval_limit_law_loop : forall (c : Z) (n : nat) (src : Eval.iter) (sc : frames) (w : world) (rows : list frames),
  yields_at n src sc w rows ->
  forall M : nat, (n + 2 <= M)%nat ->
  yields_at M (ItLimit src c 0 0) sc w (firstn (Z.to_nat c) rows).
Proof. exact limit_law_at. Qed.

(* with an offset the loop form is not enough: over a materialising source
   (SORT) the rows LIMIT 1, 1 returns differ from the source's own rows by one
   empty frame, because the source was first pulled with the forked scope *)
Theorem eval_limit_offset_needs_both_scopes :
  let rows := [[[(cex_x, VInt 1)]; []; []]; [[(cex_x, VInt 2)]; []; []]] in
  yields_at 10 cex_sort_src [[]] cex_world rows /\
  yields_at 10 (ItLimit cex_sort_src 1 1 0) [[]] cex_world [[[(cex_x, VInt 2)]; []; []; []]] /\
  forall n : nat, ~ yields_at n (ItLimit cex_sort_src 1 1 0) [[]] cex_world (firstn 1 (skipn 1 rows)).
Proof. exact limit_offset_single_scope_refuted. Qed.

(* SORT k1 [DESC], k2 [DESC], ...: every key expression evaluates purely on
   every row ([keyf a] = the key values of a); the rows come out in the order of
   the evaluator's stable sort with its multi-key less-than [keys_lt] *)
Theorem eval_sort_law : forall (A : Type) (g : A -> rowf) (keyf : A -> list value) (ks : list (expr * bool))
    (n : nat) (w : world) (sc : frames) (src : Eval.iter) (l : list A),
  yields n w (eq (fork sc)) src (map g l) ->
  (forall a, In a l ->
     Forall2 (fun (ke : expr * bool) v => eval n (fst ke) (g a (fork sc)) w = (Ok v, w)) ks (keyf a)) ->
  forall M : nat, (n + length l + 2 <= M)%nat ->
  yields M w (eq sc) (ItSort src ks None)
         (map const_row (map (fun a => g a (fork sc)) (sorted_by_keys A keyf ks l))).
Proof. exact sort_law. Qed.

Theorem eval_sort_law_loop : forall (keyf : frames -> list value) (ks : list (expr * bool)) (n : nat)
    (src : Eval.iter) (sc : frames) (w : world) (rows : list frames),
  yields_at n src (fork sc) w rows ->
  (forall r, In r rows ->
     Forall2 (fun (ke : expr * bool) v => eval n (fst ke) r w = (Ok v, w)) ks (keyf r)) ->
  forall M : nat, (n + length rows + 2 <= M)%nat ->
  yields_at M (ItSort src ks None) sc w (sorted_by_keys frames keyf ks rows).
Proof. exact sort_law_at. Qed.

(* ... which is a permutation, has no inversion between neighbours and keeps
   mutually tied rows in source order (the three laws of sort_stable_perm_sorted
   above, for the evaluator's sort and key order) *)
Theorem eval_sorted_is_stable_sort : forall (A : Type) (keyf : A -> list value) (ks : list (expr * bool)) (l : list A),
  let lt := fun a b => keys_lt (combine (keyf a) (map snd ks)) (combine (keyf b) (map snd ks)) in
  Permutation l (sorted_by_keys A keyf ks l) /\
  no_inversion lt (sorted_by_keys A keyf ks l) = true /\
  (forall c : A -> bool, (forall a b, c a = true -> c b = true -> lt a b = false) ->
     filter c (sorted_by_keys A keyf ks l) = filter c l).
Proof. exact sorted_by_keys_laws. Qed.

(* a single key: the order is the value order vcompare (reversed for DESC) *)
Theorem eval_sort_single_key_order : forall (x y : value) (desc : bool),
  keys_lt [(x, desc)] [(y, desc)] = ((if desc then - vcompare x y else vcompare x y) =? -1).
Proof. exact keys_lt_single. Qed.

(* RETURN [DISTINCT] e: the array of the values of e on the rows (DISTINCT: the
   first occurrences, [dedup_acc] of Iter.v with the structural equality the
   result table uses; RETURN NONE keeps nothing) *)
Theorem eval_return_law : forall (A : Type) (g : A -> rowf) (out : A -> value) (distinct : bool) (e : expr)
    (n : nat) (w : world) (sc : frames) (q : forq) (it : Eval.iter) (l : list A),
  w_cancelled w = false ->
  for_ret q = RReturn distinct e ->
  iterate n (for_ds q) sc w = (Ok it, w) ->
  yields n w (eq sc) it (map g l) ->
  (forall a, In a l -> eval n e (g a sc) w = (Ok (out a), w)) ->
  forall M : nat, (n + length l + 2 <= M)%nat ->
  eval_for M q sc w =
  (Ok (VArr (if is_none e then []
             else if distinct then dedup struct_eqb (map out l) else map out l)), w).
Proof. exact return_law. Qed.

(* COLLECT k = e INTO g = pe (one group key, projection given): one row per
   group of collect_groups -- the groups of the partition theorem above, keys
   compared with the structural equality of the group table -- binding k to the
   key and g to the array of the members' projections, in arrival order *)
Theorem eval_collect_law : forall (A : Type) (g0 : A -> rowf) (key pv : A -> value)
    (x gname vv : name) (e pe : expr) (n : nat) (w : world) (sc : frames) (src : Eval.iter) (l : list A),
  bytes_eqb x ignore_name = false -> bytes_eqb gname ignore_name = false -> bytes_eqb x gname = false ->
  yields n w (eq (fork sc)) src (map g0 l) ->
  (forall a, In a l ->
     eval n e (g0 a (fork sc)) w = (Ok (key a), w) /\ closer_id (key a) = None /\
     eval n pe (g0 a (fork sc)) w = (Ok (pv a), w)) ->
  forall M : nat, (n + length l + 2 <= M)%nat ->
  yields M w (eq sc) (ItCollect src [(x, e)] (CTInto gname (Some pe)) vv None)
         (map const_row (map (fun km => [(gname, VArr (map pv (snd km))); (x, fst km)] :: sc)
                             (collect_groups key struct_eqb l))).
Proof. exact collect_into_law. Qed.

(* the states [iterate] builds for the clauses *)
Theorem eval_iterate_clauses : forall (n : nat) (d : dsrc) (sc : frames) (w w' : world) (it : Eval.iter),
  iterate n d sc w = (Ok it, w') ->
  (forall e, iterate (S n) (DFilter d e) sc w = (Ok (ItFilter it e), w')) /\
  (forall ks, iterate (S n) (DSort d ks) sc w = (Ok (ItSort it ks None), w')) /\
  (forall c o, (1 <= n)%nat ->
     iterate (S n) (DLimit d (EInt c) (EInt o)) sc w = (Ok (ItLimit it c o 0), w')).
Proof.
  exact (fun n d sc w w' it H =>
           conj (fun e => iterate_filter n d e sc w it w' H)
                (conj (fun ks => iterate_sort n d ks sc w it w' H)
                      (fun c o L => iterate_limit n d c o sc w it w' L H))).
Qed.

(* the laws compose, end to end through eval_for:
   FOR x IN src FILTER e LIMIT o, c RETURN x  over a source array vs *)
Theorem eval_pipeline_example_law : forall (x : name) (src e : expr) (o c : Z) (b : value -> bool)
    (vs : list value) (n : nat) (w : world) (sc : frames),
  w_cancelled w = false ->
  bytes_eqb x [] = false -> bytes_eqb x ignore_name = false ->
  0 <= o ->
  eval n src sc w = (Ok (VArr vs), w) ->
  Forall (fun v => closer_id v = None) vs ->
  (forall v, In v vs -> forall s, s = sc \/ s = fork sc ->
     exists r, eval n e ([(x, v)] :: fork s) w = (Ok r, w) /\ vtrue r = b v) ->
  forall M : nat, (n + 3 * length vs + 8 <= M)%nat ->
  eval_for M (ForIn x None src [CFilter e; CLimit (Some (EInt o)) (EInt c)] (RReturn false (EVar x))) sc w =
  (Ok (VArr (firstn (Z.to_nat c) (skipn (Z.to_nat o) (filter b vs)))), w).
Proof. exact filter_limit_return_law. Qed.

(* FOR x IN src SORT k1 [DESC], ... RETURN x *)
Theorem eval_sort_pipeline_law : forall (x : name) (src : expr) (ks : list (expr * bool)) (keyf : value -> list value)
    (vs : list value) (n : nat) (w : world) (sc : frames),
  w_cancelled w = false ->
  bytes_eqb x [] = false -> bytes_eqb x ignore_name = false ->
  eval n src sc w = (Ok (VArr vs), w) ->
  Forall (fun v => closer_id v = None) vs ->
  (forall v, In v vs ->
     Forall2 (fun (ke : expr * bool) k => eval n (fst ke) ([(x, v)] :: fork sc) w = (Ok k, w)) ks (keyf v)) ->
  forall M : nat, (n + 2 * length vs + 8 <= M)%nat ->
  eval_for M (ForIn x None src [CSort ks] (RReturn false (EVar x))) sc w =
  (Ok (VArr (sorted_by_keys value keyf ks vs)), w).
Proof. exact sort_return_law. Qed.

(* FOR x IN src COLLECT k = e INTO g = pe RETURN [k, g]: iterate sorts the rows
   by the group key (stable) before grouping *)
Theorem eval_collect_pipeline_law : forall (x kname gname : name) (src e pe : expr) (keyf pvf : value -> value)
    (vs : list value) (n : nat) (w : world) (sc : frames),
  w_cancelled w = false ->
  bytes_eqb x [] = false -> bytes_eqb x ignore_name = false ->
  bytes_eqb kname ignore_name = false -> bytes_eqb gname ignore_name = false ->
  bytes_eqb kname gname = false ->
  eval n src sc w = (Ok (VArr vs), w) ->
  Forall (fun v => closer_id v = None) vs ->
  (forall v, In v vs ->
     eval n e ([(x, v)] :: fork (fork sc)) w = (Ok (keyf v), w) /\ closer_id (keyf v) = None /\
     eval n pe ([(x, v)] :: fork (fork sc)) w = (Ok (pvf v), w)) ->
  forall M : nat, (n + 3 * length vs + 12 <= M)%nat ->
  eval_for M (ForIn x None src [CCollect [(kname, e)] (CTInto gname (Some pe))]
                (RReturn false (EArr [EVar kname; EVar gname]))) sc w =
  (Ok (VArr (map (fun km => VArr [fst km; VArr (map pvf (snd km))])
                 (collect_groups keyf struct_eqb
                    (sorted_by_keys value (fun v => [keyf v]) [(e, false)] vs)))), w).
Proof. exact collect_return_law. Qed.

Print Assumptions eval_yields_forms_agree.
Print Assumptions eval_filter_law.
Print Assumptions eval_filter_law_loop.
Print Assumptions eval_limit_law.
Print Assumptions eval_limit_pulls_at_most_offset_plus_count.
Print Assumptions eval_limit_law_loop.
Print Assumptions eval_limit_offset_needs_both_scopes.
Print Assumptions eval_sort_law.
Print Assumptions eval_sort_law_loop.
Print Assumptions eval_sorted_is_stable_sort.
Print Assumptions eval_sort_single_key_order.
Print Assumptions eval_return_law.
Print Assumptions eval_collect_law.
Print Assumptions eval_collect_pipeline_law.
Print Assumptions eval_iterate_clauses.
Print Assumptions eval_pipeline_example_law.
Print Assumptions eval_sort_pipeline_law.

(* non-vacuity: the premises hold on a concrete source, FOR x IN [3, 1, 2] *)
Definition ex_x : name := bs "x".
Definition ex_w : world := init_world [] false None.
Definition ex_src : Eval.iter := ItIndexed ex_x None [VInt 3; VInt 1; VInt 2] 0.
Definition ex_row (z : Z) : frames := [[(ex_x, VInt z)]; []; []].
Definition ex_gt1 : expr := ECmp CGt (EVar ex_x) (EInt 1).              (* x > 1 *)
Definition ex_row_gt1 (r : frames) : bool :=
  match r with ((_, VInt z) :: _) :: _ => 1 <? z | _ => false end.
Definition ex_val_gt1 (v : value) : bool := match v with VInt z => 1 <? z | _ => false end.

Example ex_source_yields : yields_at 5 ex_src (fork [[]]) ex_w [ex_row 3; ex_row 1; ex_row 2].
Proof. exists 5%nat. vm_compute. reflexivity. Qed.

Example ex_filter_premise : forall r, In r [ex_row 3; ex_row 1; ex_row 2] ->
  exists v, eval 5 ex_gt1 r ex_w = (Ok v, ex_w) /\ vtrue v = ex_row_gt1 r.
Proof. intros r [<-|[<-|[<-|[]]]]; eexists; split; vm_compute; reflexivity. Qed.

Example ex_filter_instance : yields_at 10 (ItFilter ex_src ex_gt1) [[]] ex_w [ex_row 3; ex_row 2].
Proof. exact (eval_filter_law_loop ex_gt1 ex_row_gt1 5 ex_src [[]] ex_w _ ex_source_yields ex_filter_premise 10%nat ltac:(vm_compute; repeat constructor)). Qed.
Example ex_filter_computed : drain 10 10 (ItFilter ex_src ex_gt1) [[]] ex_w = (Ok [ex_row 3; ex_row 2], ex_w).
Proof. vm_compute. reflexivity. Qed.

Example ex_limit_instance : yields_at 12 (ItLimit (ItFilter ex_src ex_gt1) 1 0 0) [[]] ex_w [[[(ex_x, VInt 3)]; []; []]].
Proof. exists 12%nat. vm_compute. reflexivity. Qed.

Example ex_sort_premise : forall r, In r [ex_row 3; ex_row 1; ex_row 2] ->
  Forall2 (fun (ke : expr * bool) v => eval 5 (fst ke) r ex_w = (Ok v, ex_w)) [(EVar ex_x, false)]
          [match r with ((_, v) :: _) :: _ => v | _ => VNone end].
Proof. intros r [<-|[<-|[<-|[]]]]; repeat constructor. Qed.
Example ex_sort_computed :
  drain 10 10 (ItSort ex_src [(EVar ex_x, false)] None) [[]] ex_w = (Ok [ex_row 1; ex_row 2; ex_row 3], ex_w).
Proof. vm_compute. reflexivity. Qed.

(* FOR x IN [3, 1, 2] FILTER x > 1 LIMIT 1, 1 RETURN x  =  [2], by the law ... *)
Example ex_pipeline_by_law :
  eval_for 30 (ForIn ex_x None (EArr [EInt 3; EInt 1; EInt 2])
                 [CFilter ex_gt1; CLimit (Some (EInt 1)) (EInt 1)] (RReturn false (EVar ex_x))) [[]] ex_w =
  (Ok (VArr [VInt 2]), ex_w).
Proof.
  apply (eval_pipeline_example_law ex_x (EArr [EInt 3; EInt 1; EInt 2]) ex_gt1 1 1 ex_val_gt1
           [VInt 3; VInt 1; VInt 2] 5 ex_w [[]]); try reflexivity.
  - discriminate.
  - repeat constructor.
  - intros v [<-|[<-|[<-|[]]]] s [->| ->]; eexists; split; vm_compute; reflexivity.
  - vm_compute. repeat constructor.
Qed.
(* ... and by running the evaluator *)
Example ex_pipeline_computed :
  eval_for 30 (ForIn ex_x None (EArr [EInt 3; EInt 1; EInt 2])
                 [CFilter ex_gt1; CLimit (Some (EInt 1)) (EInt 1)] (RReturn false (EVar ex_x))) [[]] ex_w =
  (Ok (VArr [VInt 2]), ex_w).
Proof. vm_compute. reflexivity. Qed.

(* FOR x IN [3, 1, 2] SORT x RETURN x  =  [1, 2, 3] *)
Example ex_sort_pipeline_by_law :
  eval_for 30 (ForIn ex_x None (EArr [EInt 3; EInt 1; EInt 2]) [CSort [(EVar ex_x, false)]]
                 (RReturn false (EVar ex_x))) [[]] ex_w =
  (Ok (VArr [VInt 1; VInt 2; VInt 3]), ex_w).
Proof.
  apply (eval_sort_pipeline_law ex_x (EArr [EInt 3; EInt 1; EInt 2]) [(EVar ex_x, false)] (fun v => [v])
           [VInt 3; VInt 1; VInt 2] 5 ex_w [[]]); try reflexivity.
  - repeat constructor.
  - intros v [<-|[<-|[<-|[]]]]; repeat constructor.
  - vm_compute. repeat constructor.
Qed.

(* FOR x IN [3, 1, 2, 1] COLLECT k = x % 2 INTO g = x RETURN [k, g]
   =  [[0, [2]], [1, [3, 1, 1]]] *)
Definition ex_k : name := bs "k".
Definition ex_g : name := bs "g".
Definition ex_mod2 (v : value) : value := match v with VInt z => VInt (Z.rem z 2) | _ => VNone end.
Example ex_collect_pipeline_by_law :
  eval_for 40 (ForIn ex_x None (EArr [EInt 3; EInt 1; EInt 2; EInt 1])
                 [CCollect [(ex_k, EMath MMod (EVar ex_x) (EInt 2))] (CTInto ex_g (Some (EVar ex_x)))]
                 (RReturn false (EArr [EVar ex_k; EVar ex_g]))) [[]] ex_w =
  (Ok (VArr [VArr [VInt 0; VArr [VInt 2]]; VArr [VInt 1; VArr [VInt 3; VInt 1; VInt 1]]]), ex_w).
Proof.
  apply (eval_collect_pipeline_law ex_x ex_k ex_g (EArr [EInt 3; EInt 1; EInt 2; EInt 1])
           (EMath MMod (EVar ex_x) (EInt 2)) (EVar ex_x) ex_mod2 (fun v => v)
           [VInt 3; VInt 1; VInt 2; VInt 1] 5 ex_w [[]]); try reflexivity.
  - repeat constructor.
  - intros v [<-|[<-|[<-|[<-|[]]]]]; repeat split; vm_compute; reflexivity.
  - vm_compute. repeat constructor.
Qed.
Example ex_collect_pipeline_computed :
  eval_for 40 (ForIn ex_x None (EArr [EInt 3; EInt 1; EInt 2; EInt 1])
                 [CCollect [(ex_k, EMath MMod (EVar ex_x) (EInt 2))] (CTInto ex_g (Some (EVar ex_x)))]
                 (RReturn false (EArr [EVar ex_k; EVar ex_g]))) [[]] ex_w =
  (Ok (VArr [VArr [VInt 0; VArr [VInt 2]]; VArr [VInt 1; VArr [VInt 3; VInt 1; VInt 1]]]), ex_w).
Proof. vm_compute. reflexivity. Qed.
