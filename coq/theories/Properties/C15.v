(* Properties/C15.v — C15: library functions never modify their arguments.
   Statements only; proofs are in Proofs/HeapProofs.v.

   The heap model (Heap.v): cells = backing arrays, Array structs (slice
   headers), Objects (maps); [deep fuel h r] is the FQL value a reference
   stands for; [frame n h h'] : every cell below n is the same in h' as in h;
   [closed n h] : the first n cells only refer to cells below n (the heap that
   holds a call's arguments — they may alias each other in any way). *)
From Ferret Require Import Value Heap StdHeap Proofs.HeapProofs.
From Coq Require Import Lia.
Local Open Scope nat_scope.

(* a program of the DSL without in-place primitives changes no existing cell *)
Theorem readonly_fragment_preserves : forall p st,
  forallb (fun i => negb (is_mutator i)) p = true ->
  frame (List.length (fst st)) (fst st) (fst (run p st)) /\
  List.length (fst st) <= List.length (fst (run p st)).
Proof. exact HeapProofs.readonly_fragment_preserves. Qed.
Print Assumptions readonly_fragment_preserves.

(* unchanged cells give unchanged values, for every reference into the old heap *)
Theorem unchanged_cells_unchanged_values : forall n h h', closed n h -> frame n h h' ->
  forall fuel r, ref_below n r -> deep fuel h' r = deep fuel h r.
Proof. exact deep_frame. Qed.
Print Assumptions unchanged_cells_unchanged_values.

(* hence: values are immutable from the point of view of a mutator-free program *)
Theorem readonly_fragment_preserves_values : forall p h rs fuel r,
  forallb (fun i => negb (is_mutator i)) p = true ->
  closed (List.length h) h -> ref_below (List.length h) r ->
  deep fuel (fst (run p (h, rs))) r = deep fuel h r.
Proof. exact readonly_values. Qed.
Print Assumptions readonly_fragment_preserves_values.

(* every library function of the shape "allocate an array, Push the selected
   items into it" — whatever the arguments alias *)
Theorem copy_then_push_preserves_args : forall h arr cap f fuel r,
  closed (List.length h) h -> ref_below (List.length h) r ->
  deep fuel (fst (h_rebuild h arr cap f)) r = deep fuel h r.
Proof. exact rebuild_preserves_args. Qed.
Print Assumptions copy_then_push_preserves_args.

Theorem append_push_preserve_args : forall h arr x push fuel r,
  closed (List.length h) h -> ref_below (List.length h) r ->
  deep fuel (fst (h_append h arr x push)) r = deep fuel h r.
Proof. exact append_preserves_args. Qed.
Print Assumptions append_push_preserve_args.

Theorem unshift_preserves_args : forall h arr x push fuel r,
  closed (List.length h) h -> ref_below (List.length h) r ->
  deep fuel (fst (h_unshift h arr x push)) r = deep fuel h r.
Proof. exact HeapProofs.unshift_preserves_args. Qed.
Print Assumptions unshift_preserves_args.

Theorem pop_shift_preserve_args : forall h arr fuel r,
  closed (List.length h) h -> ref_below (List.length h) r ->
  deep fuel (fst (h_pop h arr)) r = deep fuel h r /\ deep fuel (fst (h_shift h arr)) r = deep fuel h r.
Proof. exact HeapProofs.pop_shift_preserve_args. Qed.
Print Assumptions pop_shift_preserve_args.

Theorem remove_nth_preserves_args : forall h arr i fuel r,
  closed (List.length h) h -> ref_below (List.length h) r ->
  deep fuel (fst (h_remove_nth h arr i)) r = deep fuel h r.
Proof. exact HeapProofs.remove_nth_preserves_args. Qed.
Print Assumptions remove_nth_preserves_args.

Theorem reverse_preserves_args : forall h arr fuel r,
  closed (List.length h) h -> ref_below (List.length h) r ->
  deep fuel (fst (h_reverse h arr)) r = deep fuel h r.
Proof. exact HeapProofs.reverse_preserves_args. Qed.
Print Assumptions reverse_preserves_args.

(* REMOVE_VALUE(S), UNIQUE, SORTED, SORTED_UNIQUE, UNION..., FLATTEN: any selection *)
Theorem select_sort_unique_preserve_args : forall h arr sel fuel r,
  closed (List.length h) h -> ref_below (List.length h) r ->
  deep fuel (fst (h_select h arr sel)) r = deep fuel h r.
Proof. exact select_preserves_args. Qed.
Print Assumptions select_sort_unique_preserve_args.

(* MERGE, VALUES, KEEP_KEYS, ZIP: Set on an object allocated by the call *)
Theorem build_object_preserves_args : forall h kvs,
  frame (List.length h) h (fst (h_build_object h kvs)) /\
  List.length h <= List.length (fst (h_build_object h kvs)).
Proof. exact build_object_preserves. Qed.
Print Assumptions build_object_preserves_args.

(* the model exhibits the hazards: append through a Slice overwrites the sliced array *)
Theorem slice_then_push_mutates_refuted : exists h a x,
  let (h1, s) := h_slice h a 0 1 in
  deep 3 (h_push h1 s x) (HA a) <> deep 3 h (HA a).
Proof. exact HeapProofs.slice_then_push_mutates_refuted. Qed.
Print Assumptions slice_then_push_mutates_refuted.

(* pinned tree: MERGE_RECURSIVE({a:{x:1}}, {a:{y:2}}) rewrites its first argument *)
Theorem merge_recursive_mutates_first_arg_refuted :
  deep 4 mr_heap (HO 1) = VObj [(bs "a", VObj [(bs "x", VInt 1)])] /\
  deep 4 (fst (h_merge_recursive 4 mr_heap [HO 1; HO 3])) (HO 1)
    = VObj [(bs "a", VObj [(bs "x", VInt 1); (bs "y", VInt 2)])].
Proof. exact HeapProofs.merge_recursive_mutates_first_arg_refuted. Qed.
Print Assumptions merge_recursive_mutates_first_arg_refuted.

(* the repaired MERGE_RECURSIVE (proposed_fixes/C15-merge-recursive-aliasing), for
   every heap, any number of arguments, aliased or not: no existing cell changes *)
Theorem merge_recursive_fx_preserves_args : forall fuel h args k r,
  closed (List.length h) h -> ref_below (List.length h) r ->
  deep k (fst (h_merge_recursive_fx fuel h args)) r = deep k h r.
Proof. exact HeapProofs.merge_recursive_fx_preserves_args. Qed.
Print Assumptions merge_recursive_fx_preserves_args.

(* ... and on the witness above it returns the merged value *)
Theorem merge_recursive_fx_on_witness :
  deep 4 (fst (h_merge_recursive_fx 4 mr_heap [HO 1; HO 3])) (HO 1) = deep 4 mr_heap (HO 1) /\
  deep 4 (fst (h_merge_recursive_fx 4 mr_heap [HO 1; HO 3])) (snd (h_merge_recursive_fx 4 mr_heap [HO 1; HO 3]))
    = VObj [(bs "a", VObj [(bs "x", VInt 1); (bs "y", VInt 2)])].
Proof. exact HeapProofs.merge_recursive_fx_on_witness. Qed.
Print Assumptions merge_recursive_fx_on_witness.

(* non-vacuity: a closed heap with aliased arguments (two arrays over one
   backing array, an object referring to one of them) *)
Example closed_aliased_heap :
  closed 4 [CBack [HS (VInt 1); HS (VInt 2)]; CArr 0 0 2 2; CArr 0 1 1 1; CObj [(bs "k", HA 1)]].
Proof.
  intros l c Hl E. do 4 (destruct l as [|l]; [cbn in E; injection E as <-; cbn; repeat constructor|]).
  lia.
Qed.
