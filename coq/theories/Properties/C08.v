(* Properties/C08.v — C08: hash identity equals structural identity, so
   de-duplication is exact.  Statements only; proofs are in Proofs/HashProofs.v.
   [hash] is the model of Value.Hash (FNV-1a 64 over the exact pre-image bytes),
   [struct_eq a b := norm a = norm b] is "same type and same content,
   recursively, regardless of the insertion order of object members". *)
From Ferret Require Import Value Compare Hash Proofs.HashProofs.
From Coq Require Import Permutation SetoidList.

(* the model's step function is FNV-1a 64: (h xor b) * 0x100000001b3 mod 2^64 *)
Theorem fnv_step_is_fnv1a : forall h b, fnv_step h b = ((N.lxor h b * fnv_prime) mod 2 ^ 64)%N.
Proof. exact fnv_step_mod. Qed.
Print Assumptions fnv_step_is_fnv1a.

(* no split: structurally identical values have the same hash — all values, no bound *)
Theorem hash_struct_eq_sound : forall a b, struct_eq a b -> hash a = hash b.
Proof. exact HashProofs.hash_struct_eq_sound. Qed.
Print Assumptions hash_struct_eq_sound.

(* any two insertion orders of the members of an object (a Go map: unique keys)
   give structurally identical values, hence the same hash *)
Theorem insertion_order_irrelevant : forall m m',
  NoDup (map fst m) -> Permutation m m' ->
  struct_eq (VObj m) (VObj m') /\ hash (VObj m) = hash (VObj m').
Proof. exact (fun m m' nd p => conj (struct_eq_perm m m' nd p) (hash_perm_invariant m m' nd p)). Qed.
Print Assumptions insertion_order_irrelevant.

(* Copy / Clone: [ord] is the (arbitrary) order in which Go ranges over the map *)
Theorem copy_identity : forall ord v, (forall m, Permutation m (ord m)) -> wfb v = true ->
  struct_eq v (vcopy ord v) /\ hash (vcopy ord v) = hash v /\ vcompare v (vcopy ord v) = 0.
Proof. exact HashProofs.copy_identity. Qed.
Print Assumptions copy_identity.

Theorem clone_identity : forall ord v, (forall m, Permutation m (ord m)) -> wfb v = true ->
  struct_eq v (vclone ord v) /\ hash (vclone ord v) = hash v /\ vcompare v (vclone ord v) = 0.
Proof. exact HashProofs.clone_identity. Qed.
Print Assumptions clone_identity.

(* no collision — BOUNDED: a 64-bit hash ([hash_is_64_bit]) cannot be injective on
   all values, so the converse is stated and proved (by evaluation of the model
   inside Coq) only for the enumerated universe [universe 1]: 47 scalars of all
   nine kinds, every array / object of width <= 2 over a 10-value pool (both
   insertion orders), and one more level of width-1 nesting: 1415 values. *)
Theorem hash_injective_on_universe : hash_injective_on (universe 1).
Proof. exact hash_injective_on_universe_1. Qed.
Print Assumptions hash_injective_on_universe.

Theorem hash_is_64_bit : forall v, (hash v < 2 ^ 64)%N.
Proof. exact hash_lt. Qed.
Print Assumptions hash_is_64_bit.

(* the byte string fed to FNV determines the value up to its children's hashes:
   same kind, same scalar content, same list of child hashes, same sorted list
   of (key, child hash) — for every well-formed value, whatever bytes its keys
   contain (each key is written behind its length).  [top_ok] only asks that the
   value is one a Go program can hold: a date's seconds / zone offset fit
   time.Time's binary form, a key is shorter than 2^64 bytes. *)
Theorem preimage_injective_modulo_children : forall a b sa sb,
  wfb a = true -> wfb b = true -> top_ok a -> top_ok b ->
  shallow_of a = Some sa -> shallow_of b = Some sb -> preimage sa = preimage sb -> sa = sb.
Proof. exact preimage_injective_values. Qed.
Print Assumptions preimage_injective_modulo_children.

(* the same for objects alone, with the only side condition spelled out: no
   condition on what the keys contain *)
Theorem object_preimage_injective : forall m m',
  Forall (fun kv => (N.of_nat (List.length (fst kv)) < 2 ^ 64)%N) m ->
  Forall (fun kv => (N.of_nat (List.length (fst kv)) < 2 ^ 64)%N) m' ->
  preimage (ShObj (sort_members (map (fun kv => (fst kv, hash (snd kv))) m))) =
  preimage (ShObj (sort_members (map (fun kv => (fst kv, hash (snd kv))) m'))) ->
  sort_members (map (fun kv => (fst kv, hash (snd kv))) m) =
  sort_members (map (fun kv => (fst kv, hash (snd kv))) m').
Proof. exact HashProofs.object_preimage_injective. Qed.
Print Assumptions object_preimage_injective.

(* the family that used to collide while keys were written without their length,
   {a: v, b: w} and {"a:" ++ le64 (hash v) ++ ",b": w}: two different values whose
   pre-images now differ, for all v and w *)
Theorem former_key_delim_family_separated : forall v w sa sb,
  shallow_of (collide_left v w) = Some sa -> shallow_of (collide_right v w) = Some sb ->
  ~ struct_eq (collide_left v w) (collide_right v w) /\ preimage sa <> preimage sb.
Proof. exact (fun v w sa sb ea eb => conj (collide_not_struct_eq v w) (collide_preimage_differs v w sa sb ea eb)). Qed.
Print Assumptions former_key_delim_family_separated.

(* ... and on the recorded witness (v = 5578, w = 2) the 64-bit values differ too:
   Value.Hash, the COLLECT group key, and MapHash of the two member maps *)
Theorem former_collision_witness_hashes_differ :
  hash (collide_left (VInt 5578) (VInt 2)) <> hash (collide_right (VInt 5578) (VInt 2)) /\
  collect_key (bs "k") (collide_left (VInt 5578) (VInt 2)) <> collect_key (bs "k") (collide_right (VInt 5578) (VInt 2)) /\
  map_hash [(bs "a", VInt 5578); (bs "b", VInt 2)] <> map_hash [(collide_key (hash (VInt 5578)), VInt 2)].
Proof. exact collide_witness_hash_differs. Qed.
Print Assumptions former_collision_witness_hashes_differ.

(* exact de-duplication under the no-collision hypothesis on the values that
   occur (P): the hash-table de-duplicator returns exactly the first occurrence
   of every structural-identity class *)
Theorem dedup_exact : forall (P : value -> Prop) l,
  (forall a b, P a -> P b -> hash a = hash b -> struct_eq a b) -> Forall P l ->
  distinct_model l = firsts l /\ unique_model l = firsts l.
Proof. exact (fun P l nc f => conj (dedup_hash_exact P l nc f) (dedup_hash_exact P l nc f)). Qed.
Print Assumptions dedup_exact.

Theorem union_distinct_exact : forall (P : value -> Prop) ls,
  (forall a b, P a -> P b -> hash a = hash b -> struct_eq a b) -> Forall P (concat ls) ->
  union_distinct_model ls = firsts (concat ls).
Proof. exact (fun P ls nc f => dedup_hash_exact P (concat ls) nc f). Qed.
Print Assumptions union_distinct_exact.

Theorem sorted_unique_exact : forall (P : value -> Prop) l,
  (forall a b, P a -> P b -> hash a = hash b -> struct_eq a b) -> Forall P (sort_values l) ->
  sorted_unique_model l = firsts (sort_values l).
Proof. exact (fun P l nc f => dedup_hash_exact P (sort_values l) nc f). Qed.
Print Assumptions sorted_unique_exact.

(* COLLECT groups by MapHash of the one-entry map {var: value} *)
Theorem collect_exact : forall var (P : value -> Prop) l,
  (forall a b, P a -> P b -> collect_key var a = collect_key var b -> struct_eq a b) ->
  Forall P (sort_values l) -> collect_model var l = firsts (sort_values l).
Proof. exact (fun var P l nc f => dedup_collect_exact var P (sort_values l) nc f). Qed.
Print Assumptions collect_exact.

(* what [firsts] means: nothing dropped, no two identical kept, first kept *)
Theorem dedup_no_value_dropped : forall l x, In x l -> exists y, In y (firsts l) /\ struct_eq x y.
Proof. exact firsts_complete. Qed.
Print Assumptions dedup_no_value_dropped.

Theorem dedup_no_two_identical_kept : forall l, NoDupA struct_eq (firsts l).
Proof. exact firsts_nodup. Qed.
Print Assumptions dedup_no_two_identical_kept.

Theorem dedup_keeps_first : forall l1 x l2,
  firsts (l1 ++ x :: l2) =
  firsts l1 ++ (if existsb (struct_eqb x) l1 then [] else [x]) ++ firsts_aux (x :: rev l1) l2.
Proof. exact firsts_first_occurrence. Qed.
Print Assumptions dedup_keeps_first.

(* non-vacuity: the universe is inhabited by well-formed values meeting the side
   conditions, and the no-collision hypothesis is met by P := In (universe 1) *)
Example universe_wf : forallb wfb (universe 1) = true /\ length (universe 1) = 1415%nat.
Proof. split; vm_compute; reflexivity. Qed.
Example top_ok_satisfiable :
  top_ok (VObj [(bs "a:b,c", VDate 1700000000 5 (-120))]) /\ top_ok (collide_right (VInt 5578) (VInt 2)) /\ top_ok (VDate 0 0 (-1)).
Proof.
  split; [constructor; [vm_compute; reflexivity|constructor]|].
  split; [constructor; [vm_compute; reflexivity|constructor]|].
  cbn; unfold unix_to_internal; split; split; discriminate || reflexivity.
Qed.
Example no_collision_satisfiable :
  forall a b, In a (universe 1) -> In b (universe 1) -> hash a = hash b -> struct_eq a b.
Proof. exact hash_injective_on_universe_1. Qed.
