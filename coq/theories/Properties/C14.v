(* Properties/C14.v — C14: closable values bound by a query are released on
   every exit path.  RunApi.run_api = evaluation, then serialisation of the
   result, then the deferred close.  Statements only. *)
From Ferret Require Import RunApi Proofs.RunApiProofs.

(* for every program, parameters, injection and every exit path (result, error,
   panic with a string / an error / anything else; cancellation is an error):
   the closables closed by the time Run returns are exactly those registered by
   a variable binding, once per binding, in binding order; and no event of
   evaluation or serialisation follows a close *)
Theorem all_bound_closed : forall wraps strict fuel p w,
  fst (run_api_g wraps strict fuel p w) <> AUndefined ->
  let h := snd (run_api_g wraps strict fuel p w) in
  close_ids h = rev (w_closers (snd (run_body_g strict fuel p w))) /\ closes_last h = true.
Proof. exact run_closes. Qed.
Print Assumptions all_bound_closed.

(* binding a closable — to a named variable or to the ignore variable _ —
   registers it *)
Theorem binding_registers : forall x v sc sc' w w' id,
  closer_id v = Some id -> set_var x v sc w = (Ok sc', w') ->
  w_closers w' = id :: w_closers w.
Proof.
  intros x v sc sc' w w' id Hc H. unfold set_var in H. destruct sc as [|f r]; [discriminate|].
  unfold bind in H. rewrite Hc in H.
  destruct (bytes_eqb x ignore_name).
  - cbn in H. inversion H; subst. reflexivity.
  - destruct (frame_get x f); cbn in H; [discriminate|]. inversion H; subst. reflexivity.
Qed.
Print Assumptions binding_registers.

(* nothing is closed before the result has been serialised *)
Theorem no_close_before_marshal : forall wraps v w,
  let h := snd (finish wraps (Ok v) w) in
  exists a b, h = a ++ RMarshal :: b /\
              forallb (fun e => negb (is_close e)) a = true /\ forallb is_close b = true.
Proof. exact marshal_before_close. Qed.
Print Assumptions no_close_before_marshal.

(* non-vacuity: a loop binds two closables, an error panic at the last call
   still closes both, after everything else *)
Example closes_on_panic_path :
  let p := {| p_stmts := [SLet (bs "_") (ECall (bs "CLOSER") [EInt 7])];
              p_ret := BFor (ForIn (bs "c") None (EArr [ECall (bs "CLOSER") [EInt 8]]) []
                              (RReturn false (ECall (bs "T") [EInt 1]))) |} in
  let '(r, h) := run_api 50 p (with_fail_at (init_world [] false None) 2 2) in
  r = AError /\ close_ids h = [7; 8] /\ closes_last h = true.
Proof. vm_compute. repeat split. Qed.

(* ---------------------------------------------------------------- whole-evaluator
   invariants (Proofs/WorldInv.v): for every program, fuel and start world *)
From Ferret Require Import Proofs.WorldInv.

(* a registered closable is never dropped from the list that Run closes *)
Theorem closers_only_grow : forall strict (f : nat) p w,
  exists suf, w_closers (snd (run_body_g strict f p w)) = suf ++ w_closers w.
Proof. exact WorldInv.closers_only_grow. Qed.
Print Assumptions closers_only_grow.

(* the registrations the trace shows (EvBind, newest first) are exactly the
   closer list, at the end of every run that starts from such a world (the
   initial world is one) *)
Theorem bind_events_match_closers : forall strict (f : nat) p w,
  binds (w_trace w) = w_closers w ->
  binds (w_trace (snd (run_body_g strict f p w))) = w_closers (snd (run_body_g strict f p w)).
Proof. exact WorldInv.bind_events_match_closers. Qed.
Print Assumptions bind_events_match_closers.

(* hence what Run closes is what the trace shows as bound, in binding order *)
Theorem closed_are_the_bind_events : forall wraps strict (fuel : nat) p w,
  binds (w_trace w) = w_closers w ->
  fst (run_api_g wraps strict fuel p w) <> AUndefined ->
  close_ids (snd (run_api_g wraps strict fuel p w)) =
  rev (binds (w_trace (snd (run_body_g strict fuel p w)))).
Proof. exact run_closes_bind_events. Qed.
Print Assumptions closed_are_the_bind_events.

(* non-vacuity: the start world of a run satisfies the premise; the program of
   the example above registers 7 then 8, and a start world that already holds a
   closer keeps it *)
Example bind_events_match_closers_nonvacuous :
  let p := {| p_stmts := [SLet (bs "_") (ECall (bs "CLOSER") [EInt 7])];
              p_ret := BFor (ForIn (bs "c") None (EArr [ECall (bs "CLOSER") [EInt 8]]) []
                              (RReturn false (ECall (bs "T") [EInt 1]))) |} in
  let w0 := init_world [] false None in
  let w := snd (run_body 50 p w0) in
  binds (w_trace w0) = w_closers w0 /\
  binds (w_trace w) = [8; 7] /\ w_closers w = [8; 7].
Proof. vm_compute. repeat split. Qed.

Example closers_only_grow_nonvacuous :
  let p := {| p_stmts := [SLet (bs "_") (ECall (bs "CLOSER") [EInt 7])];
              p_ret := BReturn (ECall (bs "FAIL") []) |} in
  let w0 := snd (eval 10 (ECall (bs "CLOSER") [EInt 5]) [[]] (init_world [] false None)) in
  let w1 := snd (set_var (bs "x") (VStr (closer_prefix ++ int_to_string 5)) [[]] w0) in
  w_closers w1 = [5] /\ fst (run_body 50 p w1) = Err EFunc /\ w_closers (snd (run_body 50 p w1)) = [7; 5].
Proof. vm_compute. repeat split. Qed.
