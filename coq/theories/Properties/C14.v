(* Properties/C14.v — C14: closable values bound by a query are released on
   every exit path.  RunApi.run_api = evaluation, then serialisation of the
   result, then the deferred close.  Statements only. *)
From Ferret Require Import RunApi Proofs.RunApiProofs.

(* for every program, parameters, injection and every exit path (result, error,
   panic with a string / an error / anything else; cancellation is an error):
   the closables closed by the time Run returns are exactly those registered by
   a variable binding, once per binding, in binding order; and no event of
   evaluation or serialisation follows a close *)
Theorem all_bound_closed : forall wraps strict fuel p w,
  fst (run_api_g wraps strict fuel p w) <> AUndefined ->
  let h := snd (run_api_g wraps strict fuel p w) in
  close_ids h = rev (w_closers (snd (run_body_g strict fuel p w))) /\ closes_last h = true.
Proof. exact run_closes. Qed.
Print Assumptions all_bound_closed.

(* binding a closable — to a named variable or to the ignore variable _ —
   registers it *)
Theorem binding_registers : forall x v sc sc' w w' id,
  closer_id v = Some id -> set_var x v sc w = (Ok sc', w') ->
  w_closers w' = id :: w_closers w.
Proof.
  intros x v sc sc' w w' id Hc H. unfold set_var in H. destruct sc as [|f r]; [discriminate|].
  unfold bind in H. rewrite Hc in H.
  destruct (bytes_eqb x ignore_name).
  - cbn in H. inversion H; subst. reflexivity.
  - destruct (frame_get x f); cbn in H; [discriminate|]. inversion H; subst. reflexivity.
Qed.
Print Assumptions binding_registers.

(* nothing is closed before the result has been serialised *)
Theorem no_close_before_marshal : forall wraps v w,
  let h := snd (finish wraps (Ok v) w) in
  exists a b, h = a ++ RMarshal :: b /\
              forallb (fun e => negb (is_close e)) a = true /\ forallb is_close b = true.
Proof. exact marshal_before_close. Qed.
Print Assumptions no_close_before_marshal.

(* non-vacuity: a loop binds two closables, an error panic at the last call
   still closes both, after everything else *)
Example closes_on_panic_path :
  let p := {| p_stmts := [SLet (bs "_") (ECall (bs "CLOSER") [EInt 7])];
              p_ret := BFor (ForIn (bs "c") None (EArr [ECall (bs "CLOSER") [EInt 8]]) []
                              (RReturn false (ECall (bs "T") [EInt 1]))) |} in
  let '(r, h) := run_api 50 p (with_fail_at (init_world [] false None) 2 2) in
  r = AError /\ close_ids h = [7; 8] /\ closes_last h = true.
Proof. vm_compute. repeat split. Qed.
