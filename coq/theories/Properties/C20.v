(* Properties/C20.v — C20: the browser event loop delivers every event to every
   listener, safely.  Statements only; proofs are in Proofs/LoopProofs.v.
   Model: Loop.v (transition system over schedules).  The atomicity of the
   model's steps is what Generated/GenLoopLocks.v (extracted from loop.go on
   every run) has to justify: see [loop_lock_table_ok]. *)
From Ferret Require Import Base Loop Proofs.LoopProofs Generated.GenLoopLocks.
Local Open Scope N_scope.

(* for ANY lock table passing check_locks, no two table accesses that two
   goroutines can be executing at the same time conflict *)
Theorem lock_discipline_race_free : forall t,
  check_locks t = true -> forall a b, In a t -> In b t -> race a b = false.
Proof. exact LoopProofs.lock_discipline_race_free. Qed.
Print Assumptions lock_discipline_race_free.

(* ... and handlers are called with the mutex released *)
Theorem handlers_called_unlocked : forall t,
  check_locks t = true -> forall a, In a t -> la_kind a = ACall -> la_lock a = LNone.
Proof. exact LoopProofs.handler_calls_unlocked. Qed.
Print Assumptions handlers_called_unlocked.

(* the instance: the table extracted from the current loop.go *)
Theorem loop_lock_table_ok : check_locks GenLoopLocks.table = true.
Proof. vm_compute. reflexivity. Qed.
Print Assumptions loop_lock_table_ok.

Theorem loop_is_race_free : races GenLoopLocks.table = [].
Proof. exact (races_nil _ loop_lock_table_ok). Qed.
Print Assumptions loop_is_race_free.

(* for EVERY schedule (any length, any interleaving of API goroutines, consumer
   goroutines and cancel, any map iteration order) from every initial
   configuration, the observable history satisfies the delivery specification:
   at most once per (dispatch, listener); must-deliver; must-not-deliver;
   a one-shot listener is not called by a later dispatch of the same source;
   source order; right listener; closed sources stay silent; Listeners() is at
   least the number of listeners certainly registered during the call *)
Theorem delivery_spec : forall ops evs sched,
  Loop.delivery_spec (obs (log (lrun (init ops evs) sched))).
Proof. exact delivery_spec_all_schedules. Qed.
Print Assumptions delivery_spec.

(* the decision procedure run on recorded histories accepts every history that
   satisfies the specification, hence every history the model can produce: a
   rejected history is a genuine violation *)
Theorem history_ok_sound : forall h, Loop.delivery_spec h -> history_ok h = true.
Proof. exact LoopProofs.history_ok_sound. Qed.
Print Assumptions history_ok_sound.

Theorem model_histories_accepted : forall ops evs sched,
  history_ok (obs (log (lrun (init ops evs) sched))) = true.
Proof. exact LoopProofs.model_histories_accepted. Qed.
Print Assumptions model_histories_accepted.

Theorem reported_rows_iff_history_ok : forall h, verdict_bad h = [] <-> history_ok h = true.
Proof. exact verdict_bad_iff. Qed.
Print Assumptions reported_rows_iff_history_ok.

(* the real-time reading "a listener that asked to be dropped is never called
   again" is FALSE for the faithful model: two sources dispatching the same
   event both take their snapshot before either deletes *)
Theorem once_may_repeat_across_sources_refuted :
  exists ops evs sched, ~ once_total (obs (log (lrun (init ops evs) sched))).
Proof. exact LoopProofs.once_may_repeat_across_sources_refuted. Qed.
Print Assumptions once_may_repeat_across_sources_refuted.

(* likewise "a listener whose removal completed is never called again": a
   dispatch whose snapshot preceded the removal still calls it *)
Theorem called_after_removal_returned_refuted :
  exists ops evs sched, ~ never_after_removal (obs (log (lrun (init ops evs) sched))).
Proof. exact LoopProofs.called_after_removal_returned_refuted. Qed.
Print Assumptions called_after_removal_returned_refuted.

(* after the context is cancelled every consumer that is scheduled three more
   times has closed its source, whatever is interleaved *)
Theorem cancel_closes_sources : forall ops evs sched1 sched2 c,
  let s := lrun (init ops evs) sched1 in
  cancelled s = true -> (c < List.length evs)%nat -> (3 <= count_src c sched2)%nat ->
  exists st', nth_error (srcs (lrun s sched2)) c = Some st' /\ s_pc st' = SClosed.
Proof. exact LoopProofs.cancel_closes_sources. Qed.
Print Assumptions cancel_closes_sources.

(* non-vacuity: a schedule on which every hypothesis of must_deliver holds and
   the listener is indeed called once; a table that passes the lock check *)
Example must_deliver_satisfiable :
  let h := obs (log (lrun (init [[OAdd 7 Persistent]] [[7]])
                          [Api 0; Api 0; Api 0; Src 0 0; Src 0 0; Src 0 0; Src 0 0; Src 0 0])) in
  In (2, REnd 0 0 (OAdd 7 Persistent) 0) h /\ In (4, RRecv 0 0 7) h /\ In (7, RReady 0 1) h /\
  ndeliv h 0 0 0 = 1%nat.
Proof. exact must_deliver_witness. Qed.

Example check_locks_satisfiable :
  check_locks [mkAccess "Add" AWrite LW 1; mkAccess "Count" ARead LR 2; mkAccess "emit" ACall LNone 3] = true.
Proof. reflexivity. Qed.
