(* Properties/C09.v — C09: results serialize to faithful, canonical JSON.
   Statements only; proofs are in Proofs/JsonProofs.v.
   [to_json ff v] is the model of Value.MarshalJSON (jettison with
   NoHTMLEscaping), [ff] the text printed for a float (oracle, see
   [float_text_ok] / [float_text_rounds]); [parse_json] is an RFC 8259 parser
   written in Coq that accepts only valid UTF-8: it is the specification of
   "valid UTF-8 JSON" and of "parses back"; [denotesb j v] decides that the parsed
   text j denotes the value v (numbers numerically equal, strings identical,
   nesting preserved, datetimes RFC 3339 text of the same instant and zone,
   binary base64 of the same bytes). *)
From Ferret Require Import Value Json Proofs.JsonProofs.
Open Scope Z_scope.

(* validity and read-back for ALL well-formed values the encoder accepts,
   including strings and keys with invalid UTF-8 (they come back with every
   offending byte replaced by U+FFFD: [jsonify] uses [coerce]) *)
Theorem json_parse_back : forall ff, float_text_ok ff -> forall v,
  wfb v = true -> marshal_ok v = true -> parse_json (to_json ff v) = Some (jsonify ff v).
Proof. exact JsonProofs.json_parse_back. Qed.
Print Assumptions json_parse_back.

Theorem json_valid : forall ff, float_text_ok ff -> forall v,
  wfb v = true -> marshal_ok v = true -> Json.json_valid (to_json ff v) = true.
Proof. exact json_valid_all. Qed.
Print Assumptions json_valid.

(* strings: identical after the round trip when they are valid UTF-8 (quotes,
   backslashes, every C0 control, DEL, U+2028/9, BOM, astral code points ...) *)
Theorem json_string_roundtrip : forall ff s, wf_bytesb s = true -> valid_utf8 s = true ->
  parse_json (to_json ff (VStr s)) = Some (JStr s).
Proof. exact json_string_roundtrip_valid. Qed.
Print Assumptions json_string_roundtrip.

(* integers: the literal is the integer *)
Theorem json_int_roundtrip : forall ff z, wfb (VInt z) = true ->
  parse_json (to_json ff (VInt z)) = Some (JNum z 0).
Proof. exact JsonProofs.json_int_roundtrip. Qed.
Print Assumptions json_int_roundtrip.

(* the whole value parses back to itself.  PARTIAL: (1) that the float text
   rounds back to the same double is the oracle hypothesis [float_text_rounds]
   (shortest round-trip printing is not modelled; checked on the implementation's
   text on every run); (2) that the RFC 3339 text of a date reads back is a
   decidable side condition [dates_read_back v] rather than a theorem for all
   dates (calendar inversion is not proved; see [date_text_reads_back_on_grid]) *)
Theorem json_roundtrip_partial : forall ff v, float_text_ok ff -> float_text_rounds ff ->
  wfb v = true -> marshal_ok v = true -> strings_valid v = true -> dates_read_back v = true ->
  exists j, parse_json (to_json ff v) = Some j /\ denotesb j v = true.
Proof. exact json_roundtrip. Qed.
Print Assumptions json_roundtrip_partial.

Theorem date_text_reads_back_on_grid : date_grid_ok = true.
Proof. exact dates_read_back_on_grid. Qed.
Print Assumptions date_text_reads_back_on_grid.

(* canonical: structurally identical values (any insertion order of members)
   give identical bytes — for valid UTF-8 strings and keys ... *)
Theorem json_canonical : forall ff a b, struct_eq a b -> wfb a = true -> wfb b = true ->
  strings_valid a = true -> strings_valid b = true -> to_json ff a = to_json ff b.
Proof. exact json_canonical_valid. Qed.
Print Assumptions json_canonical.

(* ... more generally whenever no two keys of an object share their escaped text *)
Theorem json_canonical_escaped_keys_distinct : forall ff a b, struct_eq a b ->
  esc_keys_unique a = true -> esc_keys_unique b = true -> to_json ff a = to_json ff b.
Proof. exact JsonProofs.json_canonical. Qed.
Print Assumptions json_canonical_escaped_keys_distinct.

(* ... and not otherwise: two invalid UTF-8 keys escape to the same text *)
Theorem json_noncanonical_invalid_keys_refuted :
  exists a b, wfb a = true /\ wfb b = true /\ struct_eq a b /\ forall ff, to_json ff a <> to_json ff b.
Proof. exact json_noncanonical_invalid_keys. Qed.
Print Assumptions json_noncanonical_invalid_keys_refuted.

(* members are written in strictly increasing order of the escaped key text *)
Theorem json_members_sorted : forall ff m, NoDup (map (fun kv => esc_string (fst kv)) m) ->
  strictly_sorted (map fst (isort mleb (map (fun kv => (esc_string (fst kv), to_json ff (snd kv))) m))) = true.
Proof. exact to_json_keys_sorted. Qed.
Print Assumptions json_members_sorted.

(* markup characters '<' '>' '&' are written as themselves *)
Theorem json_markup_unescaped : forall c, is_markup c = true -> esc_ascii c = [c].
Proof. exact esc_ascii_markup. Qed.
Print Assumptions json_markup_unescaped.

(* non-vacuity: the hypothesis on float text is satisfiable, and a nested value
   with adversarial strings, a date, a binary and an edge integer meets every
   side condition *)
Example float_text_ok_satisfiable : float_text_ok (fun _ => [48%N]).
Proof. exact float_text_ok_const0. Qed.
Example side_conditions_satisfiable :
  let v := VObj [(bs "a<", VArr [VStr [34; 92; 0; 127; 226; 128; 168; 240; 159; 152; 128]%N; VInt (- 2 ^ 63)]);
                 (bs "d", VDate 1700000000 5 (-120)); ([], VBin [0; 255]%N)] in
  wfb v = true /\ marshal_ok v = true /\ strings_valid v = true /\ dates_read_back v = true /\ esc_keys_unique v = true.
Proof. vm_compute. repeat split. Qed.
