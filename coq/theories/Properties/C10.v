(* Properties/C10.v — C10: parameters are all required and reach the query
   unchanged.  Statements only; proofs in Proofs/ParamsProofs.v. *)
From Ferret Require Import Params Proofs.ParamsProofs.

(* the parameter list a program reports is exactly the set it mentions *)
Theorem params_reported_exact : forall p,
  NoDup (params_of p) /\ forall n, In n (params_of p) <-> In n (mentions p).
Proof. exact ParamsProofs.params_reported_exact. Qed.
Print Assumptions params_reported_exact.

(* Run refuses to start exactly when some mentioned parameter is not supplied
   (extras never matter) ... *)
Theorem missing_exact : forall p supplied,
  (exists ms, validate p supplied = Refused ms) <-> exists n, is_missing p supplied n.
Proof. exact ParamsProofs.missing_exact. Qed.
Print Assumptions missing_exact.

(* ... and then names exactly the missing ones, each once *)
Theorem refusal_names_exact : forall p supplied ms,
  validate p supplied = Refused ms ->
  ms <> [] /\ NoDup ms /\ forall n, In n ms <-> is_missing p supplied n.
Proof. exact ParamsProofs.validate_refused. Qed.
Print Assumptions refusal_names_exact.

Theorem starts_iff_all_supplied : forall p supplied,
  validate p supplied = Started <-> forall n, In n (mentions p) -> In n supplied.
Proof. exact ParamsProofs.validate_started. Qed.
Print Assumptions starts_iff_all_supplied.

(* the repaired conversion gives every supported Go value its FQL counterpart *)
Theorem parse_go_faithful : forall g, supported g -> parse_go_spec g = POk (expected g).
Proof. exact ParamsProofs.parse_go_faithful. Qed.
Print Assumptions parse_go_faithful.

(* the mirror of the pinned conversion does not *)
Theorem parse_go_pinned_refuted : exists g, supported g /\ parse_go_pinned g <> POk (expected g).
Proof. exact ParamsProofs.parse_go_pinned_refuted. Qed.
Print Assumptions parse_go_pinned_refuted.

Theorem parse_go_pinned_refuted_named : exists g,
  supported g /\ parse_go_pinned g = POk VNone /\ expected g = VInt 3.
Proof. exact ParamsProofs.parse_go_pinned_refuted_named. Qed.
Print Assumptions parse_go_pinned_refuted_named.

Theorem parse_go_pinned_refuted_unexported : exists g,
  supported g /\ parse_go_pinned g = PPanic /\ expected g = VObj [(bs "A", VInt 1)].
Proof. exact ParamsProofs.parse_go_pinned_refuted_unexported. Qed.
Print Assumptions parse_go_pinned_refuted_unexported.

(* non-vacuity: a nested supported value with every interesting kind; a
   program with a parameter in several positions and a missing one *)
Example supported_satisfiable :
  supported (GStruct [(bs "A", true, GSlice [GUint false W8 255; GInt true W16 (-7); GPtr None]);
                      (bs "hidden", false, GOther 1);
                      (bs "M", true, GMap [(GInt false WInt 1, GTime 0 0 (-1)); (GInt false WInt 2, GBytes [1%N])]);
                      (bs "P", true, GPtr (Some (GIface (GFloat false true 4609434218613702656%N))))]).
Proof. reflexivity. Qed.
Example refusal_example :
  validate (SNode [SParam (bs "a"); SNode [SParam (bs "b"); SParam (bs "a")]; SLeaf]) [bs "a"; bs "zz"]
  = Refused [bs "b"].
Proof. reflexivity. Qed.
