(* Properties/C19.v — C19: the HTTP driver sends exactly what was configured
   and obeys status rules.  Statements only; proofs are in Proofs/HttpProofs.v.
   In-flight abort on cancellation is runtime behaviour: the model only states
   the expected latency bucket, the correspondence check observes it. *)
From Ferret Require Import Base Http Proofs.HttpProofs.

(* per-document parameters win over driver-level defaults *)
Theorem merge_params_win : forall d p name vs, ci_find name p = Some vs -> wire_spec d p name = vs.
Proof. exact HttpProofs.merge_params_win. Qed.
Print Assumptions merge_params_win.

Theorem merge_default_used : forall d p name vs,
  ci_find name p = None -> ci_find name d = Some vs -> wire_spec d p name = vs.
Proof. exact HttpProofs.merge_default_used. Qed.
Print Assumptions merge_default_used.

(* every configured header reaches the wire under a name equal up to letter case
   with its exact value list: the query's, and every default the query does not override *)
Theorem request_carries_exactly : forall d p, ci_distinct d -> ci_distinct p ->
  (forall k vs, In (k, vs) p -> ci_eqb (canon k) k = true /\ wire_spec d p (canon k) = vs) /\
  (forall k vs, In (k, vs) d -> ci_find k p = None -> ci_eqb (canon k) k = true /\ wire_spec d p (canon k) = vs).
Proof. exact HttpProofs.request_carries_exactly. Qed.
Print Assumptions request_carries_exactly.

(* nothing else is configured: other names carry what makeRequest always sets, or nothing *)
Theorem unconfigured_is_base : forall d p name,
  ci_find name p = None -> ci_find name d = None ->
  wire_spec d p name = match lookup (canon name) base_headers with Some vs => vs | None => [] end.
Proof. exact HttpProofs.unconfigured_is_base. Qed.
Print Assumptions unconfigured_is_base.

Theorem cookies_merge : forall d p n,
  cookie_find n (cookies_spec d p) = match cookie_find n p with Some v => Some v | None => cookie_find n d end.
Proof. exact HttpProofs.cookies_merge. Qed.
Print Assumptions cookies_merge.

Theorem ua_merge : forall d p, ua_spec d p = match p with [] => d | _ => p end.
Proof. exact HttpProofs.ua_merge. Qed.
Print Assumptions ua_merge.

(* accepted exactly when 2xx or matched by a rule of the query or of the driver *)
Theorem status_accept_iff : forall code qr dr url,
  accepted code qr dr url = true <->
  (200 <= code <= 299) \/ exists r, (In r qr \/ In r dr) /\ rule_matches code url r = true.
Proof. exact HttpProofs.status_accept_iff. Qed.
Print Assumptions status_accept_iff.

Theorem rule_matches_iff : forall code url r,
  rule_matches code url r = true <->
  fst r = code /\ (snd r = None \/ exists p, snd r = Some p /\ glob_match p url = true).
Proof. exact HttpProofs.rule_matches_iff. Qed.
Print Assumptions rule_matches_iff.

Theorem glob_literal_and_star : forall s s',
  glob_match [GStar] s = true /\ (glob_match (map GLit s) s' = true <-> s = s').
Proof. exact (fun s s' => conj (glob_star_all s) (glob_lit_exact s s')). Qed.
Print Assumptions glob_literal_and_star.

(* status, headers and cookies are reported as received *)
Theorem response_reported : forall r n vs,
  lookup n (r_headers r) = Some vs ->
  reported_header r n = (match vs with v :: _ => v | [] => [] end, join_comma vs).
Proof. exact HttpProofs.response_reported. Qed.
Print Assumptions response_reported.

(* the page's cookie collection reports every cookie the response sets, under
   its name and with its value, whatever the value -- "legacy=; Max-Age=0" is a
   cookie with the empty value -- and nothing else *)
Theorem cookies_reported : forall r n v, NoDup (map fst (r_cookies r)) -> In (n, v) (r_cookies r) ->
  cookie_find n (reported_cookies r) = Some v.
Proof. exact HttpProofs.cookies_reported. Qed.
Print Assumptions cookies_reported.

Theorem cookies_reported_only : forall r n, ~ In n (map fst (r_cookies r)) -> cookie_find n (reported_cookies r) = None.
Proof. exact HttpProofs.cookies_reported_only. Qed.
Print Assumptions cookies_reported_only.

(* histories through one driver instance: a request's headers, cookies and user
   agent depend only on the driver's defaults and that request's own parameters,
   not on the requests issued before it *)
Theorem history_independent : forall names d ps k p, nth_error ps k = Some p ->
  nth_error (history_spec names d ps) k = Some (snd (open_spec names d p)).
Proof. exact HttpProofs.history_nth. Qed.
Print Assumptions history_independent.

Theorem history_prefix_irrelevant : forall names d pre p,
  nth_error (history_spec names d (pre ++ [p])) (List.length pre) = nth_error (history_spec names d [p]) 0.
Proof. exact HttpProofs.history_prefix_irrelevant. Qed.
Print Assumptions history_prefix_irrelevant.

(* the pinned code *)
Theorem header_case_pinned_refuted :
  exists d q name,
    wire_pinned d q name = [[]] /\ wire_spec (cfg_of_dopts d) (cfg_of_query q) name = [bs "secret"].
Proof. exact HttpProofs.header_case_pinned_refuted. Qed.
Print Assumptions header_case_pinned_refuted.

Theorem multi_value_pinned_refuted :
  exists d q name,
    wire_pinned d q name = [bs "a"] /\ wire_spec (cfg_of_dopts d) (cfg_of_query q) name = [bs "a"; bs "b"].
Proof. exact HttpProofs.multi_value_pinned_refuted. Qed.
Print Assumptions multi_value_pinned_refuted.

Theorem cancel_pinned_refuted :
  exists c r, returns_early_spec c r = true /\ returns_early_pinned c r = false.
Proof. exact HttpProofs.cancel_pinned_refuted. Qed.
Print Assumptions cancel_pinned_refuted.

(* non-vacuity: two levels with an overlap in different letter case meet the
   hypotheses, the parameter wins and the other default survives *)
Example overlap_satisfiable :
  let d := [(bs "x-alpha", [bs "d1"; bs "d2"]); (bs "X-BETA", [bs "d3"])] in
  let p := [(bs "X-Alpha", [bs "mine"])] in
  ci_distinct d /\ ci_distinct p /\
  wire_spec d p (bs "X-Alpha") = [bs "mine"] /\ wire_spec d p (bs "X-Beta") = [bs "d3"] /\
  wire_spec d p (bs "Pragma") = [bs "no-cache"] /\ wire_spec d p (bs "X-None") = [].
Proof.
  cbv zeta. repeat split; try reflexivity.
  - intros k' vs' [H|[]]. inversion H. reflexivity.
  - intros k' vs' [].
  - intros k' vs' [].
Qed.

Example status_rule_satisfiable :
  accepted 404 [(404, Some [GLit 104; GStar])] [] (bs "http://x/") = true /\
  accepted 404 [(404, Some [GLit 102; GStar])] [] (bs "http://x/") = false /\
  accepted 503 [] [(503, None)] (bs "http://x/") = true /\ accepted 204 [] [] [] = true.
Proof. repeat split; reflexivity. Qed.

(* an empty-valued cookie among the cookies of a response is reported; a second
   request through the driver carries the defaults and nothing of the first *)
Example empty_cookie_and_history_satisfiable :
  let r := mkResp 200 [] [(bs "sid", bs "abc123"); (bs "legacy", []); (bs "flag", [])] in
  NoDup (map fst (r_cookies r)) /\ cookie_find (bs "legacy") (reported_cookies r) = Some [] /\
  cookie_find (bs "sid") (reported_cookies r) = Some (bs "abc123") /\
  let d := mkDrv [(bs "X-Tenant", [bs "default-tenant"])] [] [] in
  let p1 := mkPar [(bs "X-Doc-Token", [bs "secret"]); (bs "x-tenant", [bs "doc-1"])] [] [] in
  let p2 := mkPar [] [] [] in
  history_spec [bs "X-Tenant"; bs "X-Doc-Token"] d [p1; p2] =
  [([[bs "doc-1"]; [bs "secret"]], [], []); ([[bs "default-tenant"]; []], [], [])].
Proof.
  cbv zeta. split; [|repeat split; vm_compute; reflexivity].
  repeat constructor; cbn; intros H; repeat (destruct H as [H|H]; [discriminate H|]); exact H.
Qed.
