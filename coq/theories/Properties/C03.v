(* Properties/C03.v — C03: static name resolution is sound and complete.
   StaticScope.chk_program true is the specified resolution, Eval.v the
   run-time scope chain.  Proved here: the operation-level soundness lemmas
   (every static scope operation agrees with its run-time counterpart: lookup,
   declaration, fork) and the scoping rules the property names (shadowing,
   redeclaration, COLLECT hiding, a variable is not visible in its own
   initializer).  check_sound for whole programs — the induction stitching
   these lemmas along evaluation — is NOT proved (see check_sound_partial
   below for what is); it is tested on every generated program by the
   correspondence check (mismatch kind 5).  Statements only. *)
From Ferret Require Import Eval StaticScope Proofs.ScopeProofs.

(* soundness of lookups: statically visible => bound at run time, for every
   pair of scopes in agreement; and completeness: invisible => unbound *)
Theorem check_sound_partial_lookup : forall x ss ds w, agree ss ds ->
  (visible x ss = true -> exists v, get_var x ds w = (Ok v, w)) /\
  (visible x ss = false -> scope_get x ds = None).
Proof. exact (fun x ss ds w A => conj (visible_get_var x ss ds w A) (invisible_unbound x ss ds A)). Qed.
Print Assumptions check_sound_partial_lookup.

(* soundness of declarations: accepted statically => never "already declared"
   at run time, and agreement is preserved (also across Fork) *)
Theorem check_sound_partial_declare : forall x v ss ss' ds w,
  agree ss ds -> ds <> [] -> closer_id v = None -> declare x ss = (COk, ss') ->
  exists ds', set_var x v ds w = (Ok ds', w) /\ agree ss' ds'.
Proof. exact declare_set_var. Qed.
Print Assumptions check_sound_partial_declare.

Theorem fork_preserves_agreement : forall ss ds, agree ss ds -> agree (sfork ss) (fork ds).
Proof. exact agree_fork. Qed.
Print Assumptions fork_preserves_agreement.

(* no name is declared twice in one scope *)
Theorem redeclaration_rejected : forall x ss ss',
  bytes_eqb x ign = false -> declare x ss = (COk, ss') -> fst (declare x ss') = CNotUnique.
Proof. exact declare_rejects_redeclaration. Qed.
Print Assumptions redeclaration_rejected.

(* inner scopes may shadow outer names; a declared name is visible, also in
   nested scopes *)
Theorem shadowing_allowed : forall x ss,
  fst (declare x (sfork ss)) = COk /\ visible x (sfork ss) = visible x ss.
Proof. exact (fun x ss => conj (shadowing_ok x ss) (visible_fork x ss)). Qed.
Print Assumptions shadowing_allowed.

Theorem declared_visible : forall x ss ss',
  bytes_eqb x ign = false -> declare x ss = (COk, ss') -> visible x ss' = true.
Proof. exact declared_is_visible. Qed.
Print Assumptions declared_visible.

(* COLLECT hides everything declared earlier in its own loop *)
Theorem collect_hides_own_loop : forall x f r, visible x (clear_top (f :: r)) = visible x r.
Proof. exact collect_hides. Qed.
Print Assumptions collect_hides_own_loop.

(* the scoping rules on concrete programs (both directions), including the
   three places where the pinned visitor differed from the specification *)
Definition x_ := bs "x". Definition i_ := bs "i". Definition g_ := bs "g".
Example let_not_visible_in_own_initializer :
  chk_program true 50 {| p_stmts := [SLet x_ (EVar x_)]; p_ret := BReturn (EVar x_) |} = CNotFound /\
  chk_program false 50 {| p_stmts := [SLet x_ (EVar x_)]; p_ret := BReturn (EVar x_) |} = COk.
Proof. split; reflexivity. Qed.
Example limit_sees_enclosing_scope_only :
  let q := ForIn i_ None (EArr [EInt 1]) [CLimit None (EVar i_)] (RReturn false (EVar i_)) in
  chk_program true 50 {| p_stmts := []; p_ret := BFor q |} = CNotFound /\
  chk_program false 50 {| p_stmts := []; p_ret := BFor q |} = COk /\
  fst (run_body 50 {| p_stmts := []; p_ret := BFor q |} (init_world [] false None)) = Err EScopeNotFound.
Proof. repeat split; reflexivity. Qed.
Example collect_hides_loop_variable :
  let q := ForIn i_ None (EArr [EInt 1]) [CCollect [(g_, EVar i_)] CTNone] (RReturn false (EVar i_)) in
  chk_program true 50 {| p_stmts := []; p_ret := BFor q |} = CNotFound.
Proof. reflexivity. Qed.
Example shadowing_in_nested_loop_accepted :
  let q := ForIn i_ None (EArr [EInt 1]) [] (RFor (ForIn i_ None (EArr [EInt 2]) [] (RReturn false (EVar i_)))) in
  chk_program true 50 {| p_stmts := []; p_ret := BFor q |} = COk /\
  fst (run_body 50 {| p_stmts := []; p_ret := BFor q |} (init_world [] false None)) = Ok (VArr [VInt 2]).
Proof. split; reflexivity. Qed.
