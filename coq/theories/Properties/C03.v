(* Properties/C03.v — C03: static name resolution is sound and complete.
   StaticScope.chk_program true true is the specified resolution (COLLECT in all
   six forms included), Eval.v the run-time scope chain.  Proved here:
   WHOLE-PROGRAM SOUNDNESS (check_sound: a program the checker accepts never
   fails at run time because a variable is missing, already declared or unnamed,
   for every fuel, parameter set, cancellation point and injected failure — by
   simultaneous induction over the evaluator, every iterator state machine
   including the COLLECT group table, and the data-source chain, with a
   simulation between static and run-time scope chains, Proofs/ScopeSound.v);
   the operation-level lemmas; and the scoping rules the property names
   (shadowing, redeclaration, COLLECT hiding, a variable is not visible in its
   own initializer).  Statements only. *)
From Ferret Require Import Eval StaticScope Proofs.ScopeProofs Proofs.ScopeSound.

(* a program accepted by the specified checker never fails at run time because
   a variable is missing, already declared or unnamed — for every evaluation
   fuel and every world (parameters, cancellation point, injected failure) *)
Theorem check_sound : forall p cf, chk_program true true cf p = COk ->
  forall fuel w,
    match fst (run_body fuel p w) with
    | Err EScopeNotFound | Err EScopeNotUnique | Err EScopeUnnamed => False
    | _ => True
    end.
Proof.
  intros p cf C fuel w. pose proof (check_sound_full p cf C fuel w) as H.
  destruct (fst (run_body fuel p w)) as [v|e| | | | |]; try exact I.
  destruct e; try exact I; discriminate H.
Qed.
Print Assumptions check_sound.


(* soundness of lookups: statically visible => bound at run time, for every
   pair of scopes in agreement; and completeness: invisible => unbound *)
Theorem check_sound_partial_lookup : forall x ss ds w, agree ss ds ->
  (visible x ss = true -> exists v, get_var x ds w = (Ok v, w)) /\
  (visible x ss = false -> scope_get x ds = None).
Proof. exact (fun x ss ds w A => conj (visible_get_var x ss ds w A) (invisible_unbound x ss ds A)). Qed.
Print Assumptions check_sound_partial_lookup.

(* soundness of declarations: accepted statically => never "already declared"
   at run time, and agreement is preserved (also across Fork) *)
Theorem check_sound_partial_declare : forall x v ss ss' ds w,
  agree ss ds -> ds <> [] -> closer_id v = None -> declare x ss = (COk, ss') ->
  exists ds', set_var x v ds w = (Ok ds', w) /\ agree ss' ds'.
Proof. exact declare_set_var. Qed.
Print Assumptions check_sound_partial_declare.

Theorem fork_preserves_agreement : forall ss ds, agree ss ds -> agree (sfork ss) (fork ds).
Proof. exact agree_fork. Qed.
Print Assumptions fork_preserves_agreement.

(* no name is declared twice in one scope *)
Theorem redeclaration_rejected : forall x ss ss',
  bytes_eqb x ign = false -> declare x ss = (COk, ss') -> fst (declare x ss') = CNotUnique.
Proof. exact declare_rejects_redeclaration. Qed.
Print Assumptions redeclaration_rejected.

(* inner scopes may shadow outer names; a declared name is visible, also in
   nested scopes *)
Theorem shadowing_allowed : forall x ss,
  fst (declare x (sfork ss)) = COk /\ visible x (sfork ss) = visible x ss.
Proof. exact (fun x ss => conj (shadowing_ok x ss) (visible_fork x ss)). Qed.
Print Assumptions shadowing_allowed.

Theorem declared_visible : forall x ss ss',
  bytes_eqb x ign = false -> declare x ss = (COk, ss') -> visible x ss' = true.
Proof. exact declared_is_visible. Qed.
Print Assumptions declared_visible.

(* COLLECT hides everything declared earlier in its own loop *)
Theorem collect_hides_own_loop : forall x f r, visible x (clear_top (f :: r)) = visible x r.
Proof. exact collect_hides. Qed.
Print Assumptions collect_hides_own_loop.

(* the scoping rules on concrete programs (both directions), including the
   three places where the pinned visitor differed from the specification *)
Definition x_ := bs "x". Definition i_ := bs "i". Definition g_ := bs "g".
Example let_not_visible_in_own_initializer :
  chk_program true true 50 {| p_stmts := [SLet x_ (EVar x_)]; p_ret := BReturn (EVar x_) |} = CNotFound /\
  chk_program false true 50 {| p_stmts := [SLet x_ (EVar x_)]; p_ret := BReturn (EVar x_) |} = COk.
Proof. split; reflexivity. Qed.
Example limit_sees_enclosing_scope_only :
  let q := ForIn i_ None (EArr [EInt 1]) [CLimit None (EVar i_)] (RReturn false (EVar i_)) in
  chk_program true true 50 {| p_stmts := []; p_ret := BFor q |} = CNotFound /\
  chk_program false true 50 {| p_stmts := []; p_ret := BFor q |} = COk /\
  fst (run_body 50 {| p_stmts := []; p_ret := BFor q |} (init_world [] false None)) = Err EScopeNotFound.
Proof. repeat split; reflexivity. Qed.
Example collect_hides_loop_variable :
  let q := ForIn i_ None (EArr [EInt 1]) [CCollect [(g_, EVar i_)] CTNone] (RReturn false (EVar i_)) in
  chk_program true true 50 {| p_stmts := []; p_ret := BFor q |} = CNotFound.
Proof. reflexivity. Qed.
(* non-vacuity of check_sound: a nested, shadowing, filtering, sorting,
   grouping program with a sub-query is accepted by the checker *)
Example check_sound_applies :
  let q := ForIn i_ None (ERange (EInt 1) (EInt 3))
             [CLet x_ (EMath MMul (EVar i_) (EInt 2)); CFilter (ECmp CGt (EVar x_) (EInt 2));
              CSort [(EVar x_, true)]; CLimit None (EInt 5)]
             (RFor (ForIn i_ None (ESub (ForIn g_ None (EArr [EVar x_]) [] (RReturn false (EVar g_))))
                      [CCollect [(g_, EMath MMod (EVar i_) (EInt 2))] (CTAggr [(x_, bs "ARR", [EVar i_])])]
                      (RReturn false (EArr [EVar g_; EVar x_])))) in
  chk_program true true 50 {| p_stmts := [SLet g_ (EInt 0)]; p_ret := BFor q |} = COk.
Proof. reflexivity. Qed.

Example shadowing_in_nested_loop_accepted :
  let q := ForIn i_ None (EArr [EInt 1]) [] (RFor (ForIn i_ None (EArr [EInt 2]) [] (RReturn false (EVar i_)))) in
  chk_program true true 50 {| p_stmts := []; p_ret := BFor q |} = COk /\
  fst (run_body 50 {| p_stmts := []; p_ret := BFor q |} (init_world [] false None)) = Ok (VArr [VInt 2]).
Proof. split; reflexivity. Qed.

(* ---- WAITFOR EVENT name IN source [OPTIONS o] [FILTER f] [TIMEOUT t]: the
   pseudo variable CURRENT exists in the filter only *)
From Ferret Require Import WaitforScope Proofs.WaitforScopeProofs.

Theorem waitfor_scoping_exact : forall vis w,
  chk_waitfor vis w = true <->
  (forall x, In x (wf_name w ++ wf_src w ++ wf_opts w ++ wf_timeout w) -> mem x vis = true) /\
  (forall fs, wf_filter w = Some fs -> forall x, In x fs -> mem x (current_var :: vis) = true).
Proof. exact chk_waitfor_spec. Qed.
Print Assumptions waitfor_scoping_exact.

Theorem waitfor_current_outside_filter_rejected : forall vis w,
  mem current_var vis = false ->
  mem current_var (wf_name w ++ wf_src w ++ wf_opts w ++ wf_timeout w) = true ->
  chk_waitfor vis w = false.
Proof. exact current_outside_rejected. Qed.
Print Assumptions waitfor_current_outside_filter_rejected.

Theorem waitfor_filter_sees_current : forall vis w fs,
  outside_ok vis w = true -> wf_filter w = Some fs ->
  (forall x, In x fs -> bytes_eqb x current_var = true \/ mem x vis = true) ->
  chk_waitfor vis w = true.
Proof. exact filter_sees_current. Qed.
Print Assumptions waitfor_filter_sees_current.

Example waitfor_scoping_instances :
  let w f t := {| wf_name := [bs "ev"]; wf_src := [bs "obs"]; wf_opts := []; wf_filter := f; wf_timeout := t |} in
  chk_waitfor [bs "ev"; bs "obs"] (w (Some [current_var; bs "ev"]) []) = true /\
  chk_waitfor [bs "ev"; bs "obs"] (w (Some [current_var]) [current_var]) = false /\
  chk_waitfor [bs "ev"; bs "obs"; current_var] (w None [current_var]) = true.
Proof. repeat split; reflexivity. Qed.
