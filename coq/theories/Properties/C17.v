(* Properties/C17.v — C17: encoders, decoders and inverse operations round-trip.
   Statements only; proofs are in Proofs/Codec*Proofs.v and Proofs/DateProofs.v.
   JSON stringify/parse has no theorem here: it is covered by the
   correspondence check only (see manifest.d/C17.json). *)
From Ferret Require Import Codec.Base64 Codec.Uri Codec.Html Codec.SplitJoin Codec.Trim Codec.Case
  Date Generated.GenUnicodeCase.
From Ferret Require Import Proofs.CodecBase64Proofs Proofs.CodecUriProofs Proofs.CodecHtmlProofs
  Proofs.CodecSplitJoinProofs Proofs.CodecTrimProofs Proofs.CodecCaseProofs Proofs.DateProofs.

(* ---- base64: FROM_BASE64 (TO_BASE64 s) = s, every byte string *)
Theorem base64_roundtrip : forall s, wf_bytes s -> b64_decode (b64_encode s) = Some s.
Proof. exact b64_roundtrip. Qed.
Print Assumptions base64_roundtrip.

(* ---- URI component.  url.QueryUnescape (url.QueryEscape s) = s for every byte
   string (this is also DECODE_URI_COMPONENT o ENCODE_URI_COMPONENT once the
   strconv.Unquote step is removed: proposed_fixes/C17-uri-decode-unquote) *)
Theorem uri_query_roundtrip : forall s, wf_bytes s -> query_unescape (query_escape s) = Some s.
Proof. exact query_roundtrip. Qed.
Print Assumptions uri_query_roundtrip.

(* the pinned DECODE_URI_COMPONENT: only inside the guard (valid UTF-8 without
   double quote, backslash, newline) *)
Theorem uri_roundtrip : forall s, wf_bytes s -> uri_safe s = true ->
  fql_decode_uri (query_escape s) = Some s.
Proof. exact uri_roundtrip_guarded. Qed.
Print Assumptions uri_roundtrip.

Theorem uri_roundtrip_refuted : exists s, wf_bytes s /\ fql_decode_uri (query_escape s) <> Some s.
Proof. exact CodecUriProofs.uri_roundtrip_refuted. Qed.
Print Assumptions uri_roundtrip_refuted.

(* ---- HTML: UNESCAPE_HTML (ESCAPE_HTML s) = s; the decoder modelled knows the
   five entities of the encoder only (Codec/Html.v) *)
Theorem html_roundtrip : forall s, html_unescape (html_escape s) = s.
Proof. exact CodecHtmlProofs.html_roundtrip. Qed.
Print Assumptions html_roundtrip.

(* ---- CONCAT_SEPARATOR (sep, SPLIT (s, sep)) = s *)
Theorem split_join : forall sep s, sep <> [] ->
  exists l, str_split sep s = Some l /\ str_join sep l = s.
Proof. exact split_join_nonempty. Qed.
Print Assumptions split_join.

Theorem split_join_empty_separator : forall s,
  exists l, str_split [] s = Some l /\ str_join [] l = s.
Proof. exact split_join_empty. Qed.
Print Assumptions split_join_empty_separator.

(* ---- case conversion is idempotent, every byte string, the full case tables
   of Go's unicode package (Generated/GenUnicodeCase.v) *)
Theorem upper_idem : forall s,
  go_to_upper upper_table (go_to_upper upper_table s) = go_to_upper upper_table s.
Proof. exact CodecCaseProofs.upper_idem. Qed.
Print Assumptions upper_idem.

Theorem lower_idem : forall s,
  go_to_lower lower_table (go_to_lower lower_table s) = go_to_lower lower_table s.
Proof. exact CodecCaseProofs.lower_idem. Qed.
Print Assumptions lower_idem.

(* ---- trimming is idempotent: default cutset (chars = None) or any cutset *)
Theorem trim_idem : forall s chars, fql_trim (fql_trim s chars) chars = fql_trim s chars.
Proof. exact fql_trim_idem. Qed.
Print Assumptions trim_idem.

Theorem ltrim_idem : forall s chars, fql_ltrim (fql_ltrim s chars) chars = fql_ltrim s chars.
Proof. exact fql_ltrim_idem. Qed.
Print Assumptions ltrim_idem.

Theorem rtrim_idem : forall s chars, fql_rtrim (fql_rtrim s chars) chars = fql_rtrim s chars.
Proof. exact fql_rtrim_idem. Qed.
Print Assumptions rtrim_idem.

(* ---- dates.  amount_ok: the int64 product amount * unit of DATE_ADD does not
   overflow; diff_guard: amount_ok and |amount| <= 2^32.  DATE_DIFF is computed
   from Unix() seconds and Nanosecond() parts in integer arithmetic
   (proposed_fixes/C17-date-diff-exact), so there is no bound on amount * unit:
   the whole range of the property, amounts up to 10^6 of every unit, is
   covered (date_diff_amount_in_range). *)
Theorem date_add_sub : forall t n u, inst_norm t -> amount_ok n u ->
  date_sub (date_add t n u) n u = t.
Proof. exact DateProofs.date_add_sub. Qed.
Print Assumptions date_add_sub.

Theorem date_diff_amount : forall t n u, inst_norm t -> diff_guard n u -> 0 <= n ->
  date_diff t (date_add t n u) u = n.
Proof. exact DateProofs.date_diff_amount. Qed.
Print Assumptions date_diff_amount.

Theorem date_diff_amount_in_range : forall t n u, inst_norm t -> 0 <= n <= 1000000 ->
  date_diff t (date_add t n u) u = n.
Proof. exact DateProofs.date_diff_amount_in_range. Qed.
Print Assumptions date_diff_amount_in_range.

(* DATE_DIFF of any two instants is the whole number of units between them *)
Theorem date_diff_exact : forall a b u, inst_norm a -> inst_norm b ->
  Z.abs (fst a - fst b) <= 2 ^ 53 ->
  date_diff a b u = Z.abs (inst_ns a - inst_ns b) / unit_ns u.
Proof. exact DateProofs.date_diff_exact. Qed.
Print Assumptions date_diff_exact.

(* the sign convention of the code: the later minus the earlier instant *)
Theorem date_diff_is_absolute : forall t n u, inst_norm t -> diff_guard n u ->
  date_diff t (date_add t n u) u = Z.abs n.
Proof. exact date_diff_abs_amount. Qed.
Print Assumptions date_diff_is_absolute.

Theorem date_diff_negative_refuted : exists t n u,
  inst_norm t /\ diff_guard n u /\ date_diff t (date_add t n u) u <> n.
Proof. exact date_diff_refuted_sign. Qed.
Print Assumptions date_diff_negative_refuted.

(* ---- RFC 3339: rendering then parsing returns the instant (and the offset),
   local year 1..9999, whole-minute offsets within a day *)
Theorem rfc3339_roundtrip : forall t off, rfc3339_guard t off = true ->
  exists s, rfc3339_print t off = Some s /\ rfc3339_parse s = Some (t, off).
Proof. exact DateProofs.rfc3339_roundtrip. Qed.
Print Assumptions rfc3339_roundtrip.

(* the calendar underneath, for every day number of every era *)
Theorem calendar_roundtrip : forall z,
  let '(y, m, d) := civil_from_days z in
  days_from_civil y m d = z /\ 1 <= m <= 12 /\ 1 <= d <= days_in m y.
Proof. exact civil_roundtrip. Qed.
Print Assumptions calendar_roundtrip.

(* ---- non-vacuity: the guards are satisfiable on the inputs of the property *)
Example uri_guard_satisfiable : uri_safe (bs "a b&c=d%/?" ++ hx "c3a9f09f9880") = true.
Proof. reflexivity. Qed.

Example date_guards_satisfiable :
  inst_norm (253402300799, 999999999) /\ amount_ok (-1000000) UWeek /\ amount_ok 1000000 UHour
  /\ diff_guard 1000000 UHour /\ diff_guard 1000000 UDay /\ diff_guard (-1000000) UWeek
  /\ rfc3339_guard (253402300799, 999999999) 0 = true
  /\ rfc3339_guard (-62135596800, 1) 345 = true.
Proof.
  unfold diff_guard, inst_norm, amount_ok. cbn [snd unit_mult unit_ns].
  repeat split; try reflexivity; try (intro; discriminate).
Qed.
