(* Properties/C16.v — C16: collection and aggregate library functions match
   their mathematical definitions.  Statements only; proofs are in Proofs/.

   m_xxx     mirror of the Go function (what the pinned code does)
   m_xxx_fx  mirror of the same function after the repair in proposed_fixes/C16-*
   s_xxx     the specification;  [meets o s] : outcome o satisfies s
             (arrays up to permutation / as sets where the specification is a set,
              element identity = hash identity = structural identity)
   xxx_refuted: the pinned mirror misses the specification on this input. *)
From Ferret Require Import Value Compare StdArrays StdObjects StdMath.
From Ferret Require Import Proofs.CompareProofs Proofs.StdArraysProofs Proofs.StdObjectsProofs Proofs.StdMathProofs.
From Ferret Require Import Check.C16 Proofs.StdCheckProofs.
From Coq Require Import QArith.
Open Scope Z_scope.

(* ---------------- the verdict comparator of the correspondence check is sound:
   an observation accepted by Check/C16.v [agree] satisfies the specification *)
Theorem check_comparator_sound : forall o s, agree o s = true -> meets o s.
Proof. exact agree_sound. Qed.
Print Assumptions check_comparator_sound.

(* ---------------- set-valued array functions *)
Theorem union_meets_spec : forall args, meets (m_union args) (s_union args).
Proof. exact union_meets. Qed.
Print Assumptions union_meets_spec.

Theorem union_distinct_meets_spec : forall args, meets (m_union_distinct args) (s_union_distinct args).
Proof. exact union_distinct_meets. Qed.
Print Assumptions union_distinct_meets_spec.

Theorem minus_meets_spec : forall args, meets (m_minus args) (s_minus args).
Proof. exact minus_meets. Qed.
Print Assumptions minus_meets_spec.

Theorem unique_meets_spec : forall args, meets (m_unique args) (s_unique args).
Proof. exact unique_meets. Qed.
Print Assumptions unique_meets_spec.

(* INTERSECTION / OUTERSECTION: correct when no argument repeats a value ... *)
Theorem intersection_meets_spec_guarded : forall args,
  Forall (fun a => nodup_h (items a)) args -> meets (m_intersection args) (s_intersection args).
Proof. exact intersection_meets_guarded. Qed.
Print Assumptions intersection_meets_spec_guarded.

Theorem outersection_meets_spec_guarded : forall args,
  Forall (fun a => nodup_h (items a)) args -> meets (m_outersection args) (s_outersection args).
Proof. exact outersection_meets_guarded. Qed.
Print Assumptions outersection_meets_spec_guarded.

(* ... wrong otherwise: INTERSECTION([1,1],[2]) = [1], OUTERSECTION([1,1],[2]) = [2] *)
Theorem intersection_refuted : exists args,
  m_intersection args = Ok (VArr [VInt 1]) /\ s_intersection args = SSetNoDup [].
Proof. exact StdArraysProofs.intersection_refuted. Qed.
Print Assumptions intersection_refuted.

Theorem outersection_refuted : exists args,
  m_outersection args = Ok (VArr [VInt 2]) /\ s_outersection args = SSetNoDup [VInt 1; VInt 1; VInt 2].
Proof. exact StdArraysProofs.outersection_refuted. Qed.
Print Assumptions outersection_refuted.

(* ... and correct on every input after the repair *)
Theorem intersection_fx_meets_spec : forall args, meets (m_intersection_fx args) (s_intersection args).
Proof. exact intersection_fx_meets. Qed.
Print Assumptions intersection_fx_meets_spec.

Theorem outersection_fx_meets_spec : forall args, meets (m_outersection_fx args) (s_outersection args).
Proof. exact outersection_fx_meets. Qed.
Print Assumptions outersection_fx_meets_spec.

(* ---------------- sorting *)
Theorem sorted_meets_spec : forall args, meets (m_sorted args) (s_sorted args).
Proof. exact sorted_meets. Qed.
Print Assumptions sorted_meets_spec.

(* the guard is C07's: the order is transitive for ints within +-2^53 *)
Theorem sorted_unique_meets_spec : forall l, Forall G l ->
  meets (m_sorted_unique [VArr l]) (s_sorted_unique [VArr l]).
Proof. exact sorted_unique_meets_guarded. Qed.
Print Assumptions sorted_unique_meets_spec.

(* ---------------- FLATTEN *)
Theorem flatten_meets_spec : forall l d,
  m_flatten [VArr l; VInt d] = Ok (VArr (flatten_spec (Z.to_nat d) l)) /\
  m_flatten [VArr l] = Ok (VArr (flatten_spec 1 l)).
Proof. exact (fun l d => conj (flatten_spec_depth l d) (flatten_spec_default l)). Qed.
Print Assumptions flatten_meets_spec.

(* ---------------- positions *)
Theorem first_last_meet_spec : forall l,
  m_first [VArr l] = Ok (hd VNone l) /\ m_last [VArr l] = Ok (last l VNone).
Proof. exact (fun l => conj (first_spec l) (last_spec l)). Qed.
Print Assumptions first_last_meet_spec.

Theorem nth_meets_spec_guarded : forall l i, 0 <= i \/ l = [] ->
  m_nth [VArr l; VInt i] = Ok (s_nth_or_none l i).
Proof. exact nth_spec_guarded. Qed.
Print Assumptions nth_meets_spec_guarded.

Theorem nth_refuted : exists l i, m_nth [VArr l; VInt i] = Panic /\ s_nth [VArr l; VInt i] = SVal VNone.
Proof. exact StdArraysProofs.nth_refuted. Qed.
Print Assumptions nth_refuted.

Theorem nth_fx_meets_spec : forall l i, m_nth_fx [VArr l; VInt i] = Ok (s_nth_or_none l i).
Proof. exact nth_fx_spec. Qed.
Print Assumptions nth_fx_meets_spec.

Theorem slice_meets_spec_guarded : forall l s n, 0 <= s ->
  m_slice [VArr l; VInt s] = Ok (VArr (s_window l s None)) /\
  (0 < n -> m_slice [VArr l; VInt s; VInt n] = Ok (VArr (s_window l s (Some n)))).
Proof. exact (fun l s n H => conj (slice_spec_from l s H) (slice_spec_count l s n H)). Qed.
Print Assumptions slice_meets_spec_guarded.

Theorem slice_refuted : exists l s, m_slice [VArr l; VInt s] = Panic /\ s_slice [VArr l; VInt s] = SVal (VArr l).
Proof. exact StdArraysProofs.slice_refuted. Qed.
Print Assumptions slice_refuted.

Theorem slice_fx_negative_start_clips : forall l s n, s < 0 ->
  m_slice_fx [VArr l; VInt s] = Ok (VArr l) /\
  (0 < n -> m_slice_fx [VArr l; VInt s; VInt n] = Ok (VArr (firstn (Z.to_nat (s + n)) l))).
Proof. exact StdArraysProofs.slice_fx_negative_start. Qed.
Print Assumptions slice_fx_negative_start_clips.

Theorem slice_fx_meets_spec : forall l s n,
  (exists r, m_slice_fx [VArr l; VInt s] = Ok (VArr r)) /\
  (0 <= s -> m_slice_fx [VArr l; VInt s] = Ok (VArr (s_window l s None))) /\
  (0 < n -> m_slice_fx [VArr l; VInt s; VInt n] = Ok (VArr (s_window l s (Some n)))).
Proof.
  exact (fun l s n => conj (slice_fx_never_fails l s)
                           (conj (slice_fx_spec_from l s) (slice_fx_spec_count l s n))).
Qed.
Print Assumptions slice_fx_meets_spec.

Theorem remove_nth_meets_spec_guarded : forall l i, l <> [] ->
  m_remove_nth [VArr l; VInt i] = Ok (VArr (s_remove_at l i)).
Proof. exact remove_nth_spec_guarded. Qed.
Print Assumptions remove_nth_meets_spec_guarded.

Theorem remove_nth_refuted : exists i,
  m_remove_nth [VArr []; VInt i] = Panic /\ s_remove_nth [VArr []; VInt i] = SVal (VArr []).
Proof. exact StdArraysProofs.remove_nth_refuted. Qed.
Print Assumptions remove_nth_refuted.

Theorem remove_nth_fx_meets_spec : forall l i, m_remove_nth_fx [VArr l; VInt i] = Ok (VArr (s_remove_at l i)).
Proof. exact remove_nth_fx_spec. Qed.
Print Assumptions remove_nth_fx_meets_spec.

Theorem pop_shift_reverse_meet_spec : forall l,
  m_pop [VArr l] = Ok (VArr (removelast l)) /\ m_shift [VArr l] = Ok (VArr (tl l)) /\
  m_reverse [VArr l] = Ok (VArr (rev l)).
Proof. exact (fun l => conj (pop_spec l) (conj (shift_spec l) (reverse_spec l))). Qed.
Print Assumptions pop_shift_reverse_meet_spec.

Theorem append_push_unshift_meet_spec : forall l x u,
  m_append [VArr l; x] = Ok (VArr (l ++ [x])) /\
  m_push [VArr l; x; VBool u] = Ok (VArr (if u && cmemb x l then l else l ++ [x])) /\
  m_unshift [VArr l; x; VBool u] = Ok (VArr (if u && cmemb x l then l else x :: l)).
Proof.
  exact (fun l x u => conj (append_spec l x) (conj (append_unique_spec l x u) (unshift_unique_spec l x u))).
Qed.
Print Assumptions append_push_unshift_meet_spec.

(* REMOVE_VALUE: without a limit every occurrence goes; with a limit the pinned
   loop is right only when the value occurs at most limit+1 times *)
Theorem remove_value_meets_spec_guarded : forall l x lim,
  m_remove_value [VArr l; x] = Ok (VArr (remove_first_n l x None)) /\
  (0 <= lim -> occ x l <= lim + 1 ->
   m_remove_value [VArr l; x; VInt lim] = Ok (VArr (remove_first_n l x (Some (Z.to_nat lim))))).
Proof. exact (fun l x lim => conj (remove_value_spec_all l x) (remove_value_spec_guarded l x lim)). Qed.
Print Assumptions remove_value_meets_spec_guarded.

Theorem remove_value_refuted : exists l x lim,
  m_remove_value [VArr l; x; VInt lim] = Ok (VArr [VInt 1]) /\
  s_remove_value [VArr l; x; VInt lim] = SVal (VArr [VInt 1; VInt 1]).
Proof. exact StdArraysProofs.remove_value_refuted. Qed.
Print Assumptions remove_value_refuted.

Theorem remove_value_fx_meets_spec : forall l x lim,
  m_remove_value_fx [VArr l; x] = Ok (VArr (remove_first_n l x None)) /\
  (0 <= lim -> m_remove_value_fx [VArr l; x; VInt lim] = Ok (VArr (remove_first_n l x (Some (Z.to_nat lim))))).
Proof. exact (fun l x lim => conj (remove_value_fx_spec_all l x) (remove_value_fx_spec l x lim)). Qed.
Print Assumptions remove_value_fx_meets_spec.

Theorem includes_position_meet_spec : forall l x,
  m_includes [VArr l; x] = Ok (VBool (cmemb x l)) /\ m_position [VArr l; x] = Ok (VBool (cmemb x l)).
Proof. exact (fun l x => conj (includes_spec l x) (position_spec_bool l x)). Qed.
Print Assumptions includes_position_meet_spec.

(* ---------------- objects: a result is determined by its lookup function *)
Theorem keys_values_meet_spec : forall args,
  meets (m_keys args) (s_keys args) /\ meets (m_values args) (s_values args).
Proof. exact (fun args => conj (keys_meets args) (values_meets args)). Qed.
Print Assumptions keys_values_meet_spec.

Theorem has_meets_spec : forall m k, m_has [VObj m; VStr k] = Ok (VBool (existsb (bytes_eqb k) (map fst m))).
Proof. exact has_spec. Qed.
Print Assumptions has_meets_spec.

Theorem merge_meets_spec : forall objs k, Forall (fun o => keys_nodup (members o)) objs ->
  obj_get k (merge_all objs) = last_binding k (map members objs) /\ keys_nodup (merge_all objs).
Proof. exact (fun objs k H => conj (merge_lookup k objs H) (merge_keys_nodup objs)). Qed.
Print Assumptions merge_meets_spec.

Theorem merge_recursive_meets_spec : forall s d k, keys_nodup d ->
  obj_get k (members (mr_merge (VObj s) (VObj d))) =
  match obj_get k s, obj_get k d with
  | Some x, Some y => Some (mr_merge x y)
  | None, Some y => Some y
  | Some x, None => Some x
  | None, None => None
  end.
Proof. exact (fun s d k H => mr_merge_lookup k s d H). Qed.
Print Assumptions merge_recursive_meets_spec.

Theorem merge_recursive_later_wins : forall a b, is_obj a && is_obj b = false -> mr_merge a b = b.
Proof. exact mr_merge_non_object. Qed.
Print Assumptions merge_recursive_later_wins.

Theorem keep_keys_meets_spec : forall m keys k,
  obj_get k (keep_loop m keys) = (if existsb (bytes_eqb k) (map str_of keys) then obj_get k m else None).
Proof. exact (fun m keys k => keep_keys_lookup k m keys). Qed.
Print Assumptions keep_keys_meets_spec.

(* the ZIP reference used by the check assigns the first value of a key;
   the ZIP mirror itself is tied to it by the correspondence only *)
Theorem zip_reference_first_value_partial : forall ks vs k, obj_get k (zip_spec ks vs) = first_value k ks vs.
Proof. exact (fun ks vs k => zip_spec_lookup k ks vs). Qed.
Print Assumptions zip_reference_first_value_partial.

(* ---------------- aggregates over exact rationals *)
Theorem min_meets_spec : forall x t,
  (In (loop_min (x :: t) 0 0) (x :: t) /\ forall y, In y (x :: t) -> (loop_min (x :: t) 0 0 <= y)%Q) /\
  (loop_min (x :: t) 0 0 == q_min x t)%Q.
Proof. exact (fun x t => conj (min_loop_spec x t) (StdMathProofs.min_meets_spec x t)). Qed.
Print Assumptions min_meets_spec.

Theorem max_meets_spec_guarded : forall x t, (exists y, In y (x :: t) /\ (0 <= y)%Q) ->
  (loop_max (x :: t) 0 == q_max x t)%Q.
Proof. exact StdMathProofs.max_meets_spec_guarded. Qed.
Print Assumptions max_meets_spec_guarded.

Theorem max_refuted :
  m_max [VArr [VInt (-1); VInt (-2)]] = MQ 0 /\ s_max [VArr [VInt (-1); VInt (-2)]] = NSExact (-1).
Proof. exact StdMathProofs.max_refuted. Qed.
Print Assumptions max_refuted.

Theorem max_fx_meets_spec : forall x t,
  (In (loop_max_fx (x :: t) 0 0) (x :: t) /\ forall y, In y (x :: t) -> (y <= loop_max_fx (x :: t) 0 0)%Q) /\
  (loop_max_fx (x :: t) 0 0 == q_max x t)%Q.
Proof. exact (fun x t => conj (max_fx_loop_spec x t) (StdMathProofs.max_fx_meets_spec x t)). Qed.
Print Assumptions max_fx_meets_spec.

Theorem sum_average_meet_spec : forall l,
  (loop_sum l == q_sum l)%Q /\ (l <> [] -> (loop_sum l / qlen l * qlen l == q_sum l)%Q).
Proof. exact (fun l => conj (sum_meets_spec l) (average_meets_spec l)). Qed.
Print Assumptions sum_average_meet_spec.

Theorem variance_meets_spec : forall sample l, l <> [] -> ~ (qlen l - inject_Z sample == 0)%Q ->
  (loop_var l (loop_sum l / qlen l) / (qlen l - inject_Z sample) == q_variance sample l)%Q.
Proof. exact StdMathProofs.variance_meets_spec. Qed.
Print Assumptions variance_meets_spec.

(* non-vacuity: the guards are satisfiable and the specifications say something *)
Example intersection_guard_satisfiable :
  Forall (fun a => nodup_h (items a)) [VArr [VInt 1; VInt 2]; VArr [VInt 2; VInt 3]] /\
  s_intersection [VArr [VInt 1; VInt 2]; VArr [VInt 2; VInt 3]] = SSetNoDup [VInt 2].
Proof.
  split; [|reflexivity].
  repeat constructor; cbn; rewrite SetoidList.InA_alt; intros [y [E H]]; cbn in H;
    repeat (destruct H as [<-|H]; [discriminate E|]); exact H.
Qed.
Example aggregate_example :
  s_max [VArr [VInt (-2); VFloat 4609434218613702656%N]] = NSExact (3 # 2) /\
  m_median [VArr [VInt 3; VInt 1; VFloat 4612811918334230528%N]] = MQ (5 # 2).
Proof. split; vm_compute; reflexivity. Qed.
