(* Properties/C02.v — C02: query evaluation conforms to the FQL reference
   semantics.  The reference semantics IS coq/theories/Eval.v (run_body); the
   correspondence check compares it with the implementation program by
   program.  The theorems below are the laws of that definition the property
   names: short-circuiting, evaluation order, error suppression, nesting.
   Statements only. *)
From Ferret Require Import Eval Proofs.EvalProofs.

(* a AND b : b is not evaluated when a is falsy (the world, i.e. the call
   trace, is the one after a alone) *)
Theorem shortcircuit_and : forall f a b sc w l w',
  eval f a sc w = (Ok l, w') -> to_bool l = false ->
  eval (S f) (ELog LAnd a b) sc w = (Ok (and_short l), w').
Proof. exact eval_and_short. Qed.
Print Assumptions shortcircuit_and.

Theorem shortcircuit_or : forall f a b sc w l w',
  eval f a sc w = (Ok l, w') -> to_bool l = true ->
  eval (S f) (ELog LOr a b) sc w = (Ok l, w').
Proof. exact eval_or_short. Qed.
Print Assumptions shortcircuit_or.

Theorem logical_long_branch : forall f a b sc w l w',
  eval f a sc w = (Ok l, w') ->
  (to_bool l = true -> eval (S f) (ELog LAnd a b) sc w = eval f b sc w') /\
  (to_bool l = false -> eval (S f) (ELog LOr a b) sc w = eval f b sc w').
Proof. exact (fun f a b sc w l w' H => conj (eval_and_long f a b sc w l w' H) (eval_or_long f a b sc w l w' H)). Qed.
Print Assumptions logical_long_branch.

Theorem ternary_one_branch : forall f c t e sc w cv w',
  eval f c sc w = (Ok cv, w') ->
  (to_bool cv = true -> eval (S f) (ECond c (Some t) e) sc w = eval f t sc w') /\
  (to_bool cv = true -> eval (S f) (ECond c None e) sc w = (Ok cv, w')) /\
  (to_bool cv = false -> eval (S f) (ECond c (Some t) e) sc w = eval f e sc w').
Proof.
  exact (fun f c t e sc w cv w' H =>
           conj (eval_cond_true f c t e sc w cv w' H)
                (conj (eval_cond_true_short f c e sc w cv w' H)
                      (eval_cond_false f c (Some t) e sc w cv w' H))).
Qed.
Print Assumptions ternary_one_branch.

Theorem eval_order_binary : forall f o a b sc w l w1 r w2,
  eval f a sc w = (Ok l, w1) -> eval f b sc w1 = (Ok r, w2) ->
  eval (S f) (EMath o a b) sc w = (op_math o l r, w2).
Proof. exact eval_math_order. Qed.
Print Assumptions eval_order_binary.

Theorem eval_order_left_failure_stops : forall f o a b sc w r w',
  eval f a sc w = (r, w') -> (forall v, r <> Ok v) ->
  eval (S f) (EMath o a b) sc w = (recast r, w').
Proof. exact eval_math_left_fails. Qed.
Print Assumptions eval_order_left_failure_stops.

(* e? never yields an error, except that termination is never swallowed (C13) *)
Theorem suppress_total : forall f a sc w e w',
  eval (S f) (ESuppress a) sc w = (Err e, w') -> e = ETerminated.
Proof. exact eval_suppress_total. Qed.
Print Assumptions suppress_total.

Theorem optional_chaining_source : forall f src s rest sc w e w',
  eval f src sc w = (Err e, w') ->
  (e <> ETerminated -> eval (S f) (EMember src (Seg true s :: rest)) sc w = (Ok VNone, w')) /\
  eval (S f) (EMember src (Seg false s :: rest)) sc w = (Err e, w').
Proof.
  exact (fun f src s rest sc w e w' H =>
           conj (eval_member_optional_source f src s rest sc w e w' H)
                (eval_member_source_fails f src s rest sc w e w' H)).
Qed.
Print Assumptions optional_chaining_source.

(* a nested FOR returns the concatenation of the inner results, without
   looking inside the elements *)
Theorem for_nested_is_concat_map : forall ls,
  rev (fr_items (fold_left push_spread (map VArr ls) fres_empty)) = concat ls.
Proof. exact for_nested_is_concat. Qed.
Print Assumptions for_nested_is_concat_map.

Theorem int_arithmetic_wraps : forall z, - 2 ^ 63 <= wrap64 z < 2 ^ 63.
Proof. exact wrap64_range. Qed.
Print Assumptions int_arithmetic_wraps.

(* non-vacuity: the hypotheses above are met by concrete evaluations *)
Example shortcircuit_and_instance :
  let w := init_world [] false None in
  eval 5 (ELog LAnd (EInt 0) (ECall (bs "T") [EInt 1])) [[]] w = (Ok (VInt 0), w).
Proof. reflexivity. Qed.
Example nested_for_instance :
  fst (run_body 50 {| p_stmts := [];
        p_ret := BFor (ForIn (bs "i") None (ERange (EInt 1) (EInt 2)) []
                  (RFor (ForIn (bs "j") None (ERange (EInt 1) (EInt 2)) []
                    (RReturn false (EArr [EVar (bs "i"); EVar (bs "j")]))))) |}
       (init_world [] false None))
  = Ok (VArr [VArr [VInt 1; VInt 1]; VArr [VInt 1; VInt 2]; VArr [VInt 2; VInt 1]; VArr [VInt 2; VInt 2]]).
Proof. vm_compute. reflexivity. Qed.

(* ---- fuel independence (Proofs/FuelMono.v): once a computation has finished
   (its outcome is not OutOfFuel), every larger fuel gives the same outcome and
   the same final world; so "the" result of a program does not depend on the
   fuel the check happens to run it with *)
From Ferret Require Import Proofs.FuelMono.

Theorem eval_fuel_independent : forall (f f' : nat) e sc w, (f <= f')%nat ->
  finished (eval f e sc w) -> eval f' e sc w = eval f e sc w.
Proof. exact (eval_fuel_mono true). Qed.
Print Assumptions eval_fuel_independent.

Theorem run_body_fuel_independent : forall (f f' : nat) p w, (f <= f')%nat ->
  finished (run_body f p w) -> run_body f' p w = run_body f p w.
Proof. exact (run_body_fuel_mono true). Qed.
Print Assumptions run_body_fuel_independent.

Theorem run_body_deterministic_in_fuel : forall (f1 f2 : nat) p w,
  finished (run_body f1 p w) -> finished (run_body f2 p w) ->
  run_body f1 p w = run_body f2 p w.
Proof. exact (FuelMono.run_body_deterministic_in_fuel true). Qed.
Print Assumptions run_body_deterministic_in_fuel.

(* non-vacuity: a run that has finished *)
Example fuel_independent_instance :
  let p := {| p_stmts := [SLet (bs "a") (EInt 10)];
              p_ret := BFor (ForIn (bs "i") None (ERange (EInt 1) (EInt 4))
                        [CFilter (ECmp CNe (EVar (bs "i")) (EInt 2));
                         CSort [(EVar (bs "i"), true)]]
                        (RReturn false (EMath MAdd (EVar (bs "i")) (EVar (bs "a"))))) |} in
  let w := init_world [] false None in
  run_body 12 p w = (Ok (VArr [VInt 14; VInt 13; VInt 11]), w) /\ finished (run_body 12 p w).
Proof. split; [vm_compute; reflexivity|vm_compute; discriminate]. Qed.
(* regression: on this program (a deep second sort key) the first version of the
   model answered OutOfDomain with fuels 5..8 and Ok from 9 on, because the
   OutOfFuel of a non-first sort key was reported as OutOfDomain *)
Example sort_key_fuel_regression :
  let w := init_world [] false None in
  fst (run_body 5 cex_program w) = OutOfFuel /\
  fst (run_body 8 cex_program w) = OutOfFuel /\
  run_body 9 cex_program w = (Ok (VArr [VInt 1; VInt 2]), w).
Proof. repeat split; vm_compute; reflexivity. Qed.
