(* Properties/C06.v — C06: surface syntax never changes the meaning of a query.
   Statements only; proofs are in Proofs/{Lexer,Parser,Render}Proofs.v. *)
From Ferret Require Import Render Proofs.LexerProofs Proofs.ParserProofs Proofs.RenderProofs.
Local Open Scope N_scope.

(* white space, line terminators and comments yield no token and do not
   change what follows (over rune sequences; 42 = '*', 47 = '/') *)
Theorem layout_is_invisible : forall l s, hidden_str l -> lex_runes (l ++ s) = lex_runes s.
Proof. exact lex_hidden_str. Qed.
Print Assumptions layout_is_invisible.

(* a word in ANY letter case is one token; its kind is that of the
   upper-cased spelling (keywords are case-insensitive), its text is the
   spelling of the query (names are never folded) *)
Theorem keyword_case_irrelevant_names_exact : forall w w' s,
  map up w' = map up w -> word_ok w -> sep_start s ->
  lex_runes (w' ++ s) =
  match lex_runes s with Some ts => Some ((word_kind w, bytes_of w') :: ts) | None => None end.
Proof. exact word_any_case. Qed.
Print Assumptions keyword_case_irrelevant_names_exact.

(* a token list written with any layout between the tokens — empty at the
   ends, otherwise starting with a white-space character or line terminator and
   continuing with any white space / comments — lexes back to exactly that
   token list (kinds and texts).  _partial: stated over rune sequences, for
   layouts that start with a separator character; the token classes proved
   stable are words in any case, all punctuation and operators, integer
   literals and double-quoted strings without quote or backslash
   ([stable_word_case], [stable_fixed], [stable_int], [stable_dq]); floats, the
   other quote styles and separator-free adjacency are covered by the
   correspondence check only. *)
Theorem lex_render_partial : forall ts lay i,
  Forall stable ts ->
  (forall j, sep_layout (lay j)) ->
  (forall j, (i < j < i + List.length ts)%nat -> lay j <> []) ->
  lex_runes (rrender i lay ts) = Some (emitted ts).
Proof. exact lex_render_lemma. Qed.
Print Assumptions lex_render_partial.

Theorem stable_classes :
  (forall w w', map up w' = map up w -> word_ok w -> stable (word_kind w, w')) /\
  (forall k w, In (k, w) fixed_tokens -> stable (k, w)) /\
  (forall w, w <> [] -> forallb is_digit w = true -> stable (KInt, w)) /\
  (forall body, forallb (fun c => negb (c =? 34) && negb (c =? 92)) body = true ->
                stable (KString, 34 :: body ++ [34])).
Proof. exact stable_classes_lemma. Qed.
Print Assumptions stable_classes.

(* redundant parentheses around any sub-expression that stands in an
   expression position change nothing ([extra] chooses where).  (The name is
   kept; [printable] is now every expression the AST has except float
   literals, see C05.parse_print_program.) *)
Theorem parse_parens_partial : forall extra e,
  printable e = true -> parse_expr (pr extra 1 e) = parse_expr (print_expr e).
Proof. exact parse_parens_lemma. Qed.
Print Assumptions parse_parens_partial.

(* ... and for whole programs: redundant parentheses around any sub-expression
   in expression position, anywhere in a program of the printable class
   (C05.parse_print_program says what it covers), change nothing *)
Theorem parse_parens_program : forall extra p,
  printable_prog p = true -> parse_program (print_program extra p) = parse_program (print_min p).
Proof. exact parse_parens_program_lemma. Qed.
Print Assumptions parse_parens_program.

(* the value of a string literal is exactly its content, for every byte
   sequence without backslash (any Unicode text) and each of the four quote
   styles; with backslashes the value is [unesc] of the content, which
   rewrites \n and \t only *)
Theorem string_literal_exact : forall q s,
  In q quotes -> no_backslash s -> str_value (q ++ s ++ q) = s.
Proof. exact string_literal_exact_lemma. Qed.
Print Assumptions string_literal_exact.

Theorem escapes_are_n_and_t_only :
  (forall r, unesc (92 :: 110 :: r) = 10 :: unesc r) /\
  (forall r, unesc (92 :: 116 :: r) = 9 :: unesc r) /\
  (forall d r, d <> 110 -> d <> 116 -> unesc (92 :: d :: r) = 92 :: d :: unesc r) /\
  (forall c r, c <> 92 -> unesc (c :: r) = c :: unesc r) /\
  unesc [92] = [92].
Proof. exact unesc_equations. Qed.
Print Assumptions escapes_are_n_and_t_only.

(* a quoted property name is the raw content, whatever it contains *)
Theorem property_name_exact : forall q s, In q quotes -> str_inner (q ++ s ++ q) = s.
Proof. exact property_name_raw. Qed.
Print Assumptions property_name_exact.

(* non-vacuity *)
Example ex_same_program :
  parse_text (bs "return /* c */ (a)  aNd not(1 + (2)) // x") =
  parse_text (bs "RETURN a AND NOT (1 + 2)").
Proof. vm_compute. reflexivity. Qed.

Example ex_word_ok : word_ok (runes_of (bs "a_b1_c")) /\ word_ok (runes_of (bs "RETURN")).
Proof. split; (split; [reflexivity|discriminate]). Qed.

Example ex_string :
  str_value (bs "'it is \n not " ++ [195; 169] ++ bs "'") = bs "it is " ++ [10] ++ bs " not " ++ [195; 169].
Proof. vm_compute. reflexivity. Qed.
