(* Properties/C18.v — C18: static-page DOM queries are mutually consistent.
   Statements only; proofs are in Proofs/DomProofs.v.  Everything is stated for
   arbitrary trees, contexts (document or nested element) and selectors. *)
From Ferret Require Import Base Dom Proofs.DomProofs.

(* the count is the number of elements returned *)
Theorem count_is_length : forall c s, count c s = Z.of_nat (List.length (select_all c s)).
Proof. exact DomProofs.count_is_length. Qed.
Print Assumptions count_is_length.

(* existence holds exactly when the count is positive *)
Theorem exists_iff_count : forall c s, exists_ c s = true <-> 0 < count c s.
Proof. exact DomProofs.exists_iff_count. Qed.
Print Assumptions exists_iff_count.

(* the single-element query yields the first of the multi-element query, or not-found *)
Theorem first_of_all : forall c s,
  match select_all c s with m :: _ => first c s = Ok m | [] => first c s = NotFound end.
Proof. exact DomProofs.first_of_all. Qed.
Print Assumptions first_of_all.

Theorem first_found_iff_count : forall c s, (exists m, first c s = Ok m) <-> 0 < count c s.
Proof. exact DomProofs.first_found_iff. Qed.
Print Assumptions first_found_iff_count.

(* the _ALL functions are the single-element functions mapped over the elements *)
Theorem all_is_map : forall c s,
  inner_text_all c s = map inner_text (select_all c s) /\
  inner_html_all c s = map inner_html (select_all c s) /\
  List.length (inner_text_all c s) = List.length (select_all c s) /\
  List.length (inner_html_all c s) = List.length (select_all c s).
Proof. exact DomProofs.all_is_map. Qed.
Print Assumptions all_is_map.

Theorem single_is_head_of_all : forall c s,
  inner_text_sel c s = match inner_text_all c s with t :: _ => Ok t | [] => NotFound end /\
  inner_html_sel c s = match inner_html_all c s with t :: _ => Ok t | [] => NotFound end.
Proof. exact DomProofs.single_is_head_of_all. Qed.
Print Assumptions single_is_head_of_all.

(* the XPath translation answers like the CSS selector: always for simple
   selectors; for compound ones on every context no ancestor-or-self of which
   is matched by a component (CSS looks above the context, XPath does not) *)
Theorem xpath_css_agree : forall c s, clean s (l_h c :: anc c) ->
  xselect c (to_xpath s) = select_all c s.
Proof. exact DomProofs.xpath_css_agree. Qed.
Print Assumptions xpath_css_agree.

Theorem xpath_css_agree_simple : forall c b, xselect c (to_xpath (S1 b)) = select_all c (S1 b).
Proof. exact DomProofs.xpath_css_agree_simple. Qed.
Print Assumptions xpath_css_agree_simple.

(* child combinator selects a subset of the descendant combinator, both a
   subset of the last component, all of them descendants of the context *)
Theorem child_subset_desc : forall c a b, incl (select_all c (SChild a b)) (select_all c (SDesc a b)).
Proof. exact DomProofs.child_subset_desc. Qed.
Print Assumptions child_subset_desc.

Theorem compound_subset_last : forall c a b,
  incl (select_all c (SDesc a b)) (select_all c (S1 b)) /\ incl (select_all c (SChild a b)) (select_all c (S1 b)).
Proof. exact DomProofs.compound_subset_last. Qed.
Print Assumptions compound_subset_last.

(* a write through one accessor is seen by the matching read, and by no other *)
Theorem write_read : forall h d n n' v t f,
  (n <> style_name -> get_attr (set_attr h n v) n = Some v) /\
  (n' <> n -> get_attr (set_attr h n v) n' = get_attr h n') /\
  get_style (set_style h n v) n = Some v /\
  (n' <> n -> get_style (set_style h n v) n' = get_style h n') /\
  get_style (set_attr h n v) n' = get_style h n' /\
  (n' <> style_name -> get_attr (set_style h n v) n' = get_attr h n') /\
  inner_text (set_text d t) = t /\
  inner_html (set_html d f) = f.
Proof.
  intros h d n n' v t f.
  exact (conj (attr_write_read h n v) (conj (attr_write_other h n n' v) (conj (style_write_read h n v)
        (conj (style_write_other h n n' v) (conj (attr_write_keeps_style h n v n')
        (conj (style_write_keeps_attrs h n v n') (conj (text_write_read d t) (html_write_read d f)))))))).
Qed.
Print Assumptions write_read.

(* a write touches the located element only: plugging an unmodified located
   element back gives the document it was taken from *)
Theorem zipper_consistent : forall root d, In d (locs_of root []) -> plug (node_of d) (l_ctx d) = root.
Proof. exact DomProofs.zipper_consistent. Qed.
Print Assumptions zipper_consistent.

(* written text is text: whatever the string contains (markup, character
   references), the element then has exactly one text child carrying it, no
   element children, and reads back the string *)
Theorem text_write_is_leaf : forall d t,
  inner_html (set_text d t) = [T t] /\ children (set_text d t) = [] /\ inner_text (set_text d t) = t.
Proof. exact DomProofs.text_write_is_leaf. Qed.
Print Assumptions text_write_is_leaf.

(* histories on one element wrapper: element.go keeps an attribute cache and a
   parsed-style cache next to the node; for every sequence of reads and writes
   through STYLE_GET / STYLE_SET / STYLE_REMOVE / ATTR_GET / ATTR_SET (one
   attribute or an object) / ATTR_REMOVE / .style / .attributes, and reads
   through a second wrapper of the same node, every read returns what the
   cache-free meaning of the writes so far returns *)
Theorem wrapper_caches_invisible : forall ops n, w_run true ops (fresh n) = sp_run ops n.
Proof. exact DomProofs.wrapper_caches_invisible. Qed.
Print Assumptions wrapper_caches_invisible.

(* in particular, after any history (reads that filled the caches included) a
   style read sees a style attribute written by a bulk attribute write, a style
   written by STYLE_SET, and the removal of the style attribute *)
Theorem style_read_after_bulk_write : forall ops n l d names, style_after l None = Some d ->
  w_run true (ops ++ [WAttrs l; Rd (RStyle names)]) (fresh n) =
  w_run true ops (fresh n) ++ [RdOpt (map (fun x => assoc x d) names)].
Proof. exact DomProofs.style_read_after_bulk_write. Qed.
Print Assumptions style_read_after_bulk_write.

Theorem style_read_after_style_set : forall ops n k v,
  w_run true (ops ++ [WStyle k v; Rd (RStyle [k])]) (fresh n) = w_run true ops (fresh n) ++ [RdOpt [Some v]].
Proof. exact DomProofs.style_read_after_style_set. Qed.
Print Assumptions style_read_after_style_set.

Theorem style_read_after_attr_remove : forall ops n names,
  w_run true (ops ++ [RmAttr [style_name]; Rd (RStyle names)]) (fresh n) =
  w_run true ops (fresh n) ++ [RdOpt (map (fun _ => None) names)].
Proof. exact DomProofs.style_read_after_attr_remove. Qed.
Print Assumptions style_read_after_attr_remove.

(* RemoveAttribute without dropping the parsed styles (the tree before its
   repair): a style read after ATTR_REMOVE(e, "style") still returns the removed
   declarations *)
Theorem remove_style_pinned_refuted : exists ops n, w_run false ops (fresh n) <> sp_run ops n.
Proof. exact DomProofs.remove_style_pinned_refuted. Qed.
Print Assumptions remove_style_pinned_refuted.

(* reading attributes, styles, text, children, parents, siblings never fails *)
Theorem accessors_total : forall d n,
  (exists v, a_text d = Ok v) /\ (exists v, a_html d = Ok v) /\ (exists v, a_attrs d = Ok v) /\
  (exists v, a_attr d n = Ok v) /\ (exists v, a_styles d = Ok v) /\ (exists v, a_style d n = Ok v) /\
  (exists v, a_children d = Ok v) /\ (exists v, a_parent d = Ok v) /\
  (exists v, a_next d = Ok v) /\ (exists v, a_prev d = Ok v).
Proof. exact DomProofs.accessors_total. Qed.
Print Assumptions accessors_total.

(* the pinned tree: reading a style never returns, whatever the stack allows;
   the single-element text is the text of every match *)
Theorem style_get_pinned_refuted : forall fuel h n, get_style_pinned fuel h n = Crash.
Proof. exact get_style_pinned_crashes. Qed.
Print Assumptions style_get_pinned_refuted.

Theorem first_pinned_refuted : exists c s, inner_text_first_pinned c s <> inner_text_sel c s.
Proof. exact DomProofs.first_pinned_refuted. Qed.
Print Assumptions first_pinned_refuted.

(* the XPath engine as used by xpath.go: one-step paths give the node set, longer
   paths deliver duplicates below nested matches of an earlier step *)
Theorem xpath_engine_one_step : forall c b, xselect_dups c (to_xpath (S1 b)) = xselect c (to_xpath (S1 b)).
Proof. exact DomProofs.xselect_dups_one_step. Qed.
Print Assumptions xpath_engine_one_step.

Theorem xpath_engine_dups_refuted :
  exists c s, List.length (xselect_dups c (to_xpath s)) <> List.length (select_all c s) /\
              xselect c (to_xpath s) = select_all c s.
Proof. exact DomProofs.xselect_dups_refuted. Qed.
Print Assumptions xpath_engine_dups_refuted.

(* non-vacuity: the side condition of xpath_css_agree holds for a compound
   selector on a nested context, and the selection there is not empty *)
Definition ex_doc : node :=
  E (mkH (bs "#document") [] [])
    [E (mkH (bs "body") [] [])
       [E (mkH (bs "div") [(bs "id", bs "a")] [(bs "color", bs "red")])
          [E (mkH (bs "ul") [(bs "class", bs "k m")] []) [li "one"; li "two"]]]].
Definition ex_ctx : loc := nth 2 (locs_of ex_doc []) (to_loc ex_doc).   (* the div *)
Definition ex_sel : sel := SChild (S1 (SClass (bs "m"))) (STag (bs "li")).

Example side_condition_satisfiable :
  clean ex_sel (l_h ex_ctx :: anc ex_ctx) /\ count ex_ctx ex_sel = 2 /\
  xselect ex_ctx (to_xpath ex_sel) = select_all ex_ctx ex_sel.
Proof.
  split; [|split; reflexivity].
  intros p Hp b Hb. cbn in Hp, Hb.
  destruct Hp as [<-|[<-|[<-|[]]]]; destruct Hb as [<-|[<-|[]]]; reflexivity.
Qed.

(* ... and without it CSS and XPath do differ (the context itself is the "div") *)
Example side_condition_needed :
  select_all ex_ctx (SDesc (S1 (STag (bs "div"))) (STag (bs "li"))) <>
  xselect ex_ctx (to_xpath (SDesc (S1 (STag (bs "div"))) (STag (bs "li")))).
Proof. vm_compute. discriminate. Qed.

(* a history mixing the accessors: the style is read (cache filled), replaced by
   a bulk attribute write, read, changed by STYLE_SET, read through a second
   wrapper, the attribute removed, read again; text with markup is one text node *)
Example history_satisfiable :
  let n := est_of (mkH (bs "p") [(bs "class", bs "t")] [(bs "color", bs "red"); (bs "width", bs "10px")]) in
  w_run true [Rd (RStyle [bs "color"; bs "width"]);
              WAttrs [SetA (bs "title") (bs "q"); SetA style_name (bs "color: blue; ")];
              Rd (RStyle [bs "color"; bs "width"]);
              WStyle (bs "margin") (bs "auto");
              RdFresh RStyles;
              RmAttr [style_name];
              Rd (RAttrGet [bs "title"; style_name])] (fresh n) =
  [RdOpt [Some (bs "red"); Some (bs "10px")]; RdOpt [Some (bs "blue"); None];
   RdDecls [(bs "color", bs "blue"); (bs "margin", bs "auto")]; RdA [Some (AV (bs "q")); None]] /\
  style_after [SetA (bs "title") (bs "q"); SetA style_name (bs "color: blue; ")] None = Some [(bs "color", bs "blue")] /\
  inner_html (set_text ex_ctx (bs "use <b>bold</b> here")) = [T (bs "use <b>bold</b> here")].
Proof. repeat split; vm_compute; reflexivity. Qed.
