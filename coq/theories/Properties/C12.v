(* Properties/C12.v — C12: a compiled program is immutable, reusable and safe
   to run concurrently.  Statements only; proofs are in Proofs/InterleaveProofs.v.
   Model: Interleave.v.  The typing of [step] (a run reads the tree and its own
   state, and returns only its own new state) is justified for the real code by
   the fact tables regenerated from the source on every run: see
   [tree_is_not_written] and [library_state_is_synchronised]. *)
From Ferret Require Import Base Interleave Proofs.InterleaveProofs Generated.GenTreeWrites.

(* after EVERY schedule the i-th run is in the state it reaches when executed
   alone for the number of steps the schedule gave it *)
Theorem noninterference : forall (Tree Local : Type) (step : Tree -> Local -> Local) tr sched s i,
  nth_error (run_sched Tree Local step tr sched s) i =
  option_map (solo Tree Local step tr (count i sched)) (nth_error s i).
Proof. exact InterleaveProofs.noninterference. Qed.
Print Assumptions noninterference.

(* a run that finished inside any interleaving returns the bytes of the first
   (solo) run of the same program with the same parameters *)
Theorem rerun_same_bytes :
  forall (Tree Local Params Bytes : Type) (step : Tree -> Local -> Local) (start : Params -> Local)
         (finished : Local -> bool) (result : Local -> Bytes),
  stutters Tree Local step finished ->
  forall tr sched ps i p li n,
    nth_error ps i = Some p ->
    nth_error (run_sched Tree Local step tr sched (map start ps)) i = Some li ->
    finished li = true ->
    finished (solo Tree Local step tr n (start p)) = true ->
    result li = result (solo Tree Local step tr n (start p)).
Proof. exact InterleaveProofs.rerun_same_bytes. Qed.
Print Assumptions rerun_same_bytes.

Theorem equal_params_equal_bytes :
  forall (Tree Local Params Bytes : Type) (step : Tree -> Local -> Local) (start : Params -> Local)
         (finished : Local -> bool) (result : Local -> Bytes),
  stutters Tree Local step finished ->
  forall tr sched ps i j p li lj,
    nth_error ps i = Some p -> nth_error ps j = Some p ->
    nth_error (run_sched Tree Local step tr sched (map start ps)) i = Some li ->
    nth_error (run_sched Tree Local step tr sched (map start ps)) j = Some lj ->
    finished li = true -> finished lj = true -> result li = result lj.
Proof. exact InterleaveProofs.equal_params_equal_bytes. Qed.
Print Assumptions equal_params_equal_bytes.

(* each run sees its own parameters and is unaffected by the others' *)
Theorem params_isolated :
  forall (Tree Local Params : Type) (step : Tree -> Local -> Local) (start : Params -> Local)
         (params_of : Local -> Params),
  keeps_params Tree Local Params step params_of -> start_params Local Params start params_of ->
  forall tr sched ps i p li,
    nth_error ps i = Some p ->
    nth_error (run_sched Tree Local step tr sched (map start ps)) i = Some li ->
    params_of li = p /\
    forall ps', nth_error ps' i = Some p ->
      nth_error (run_sched Tree Local step tr sched (map start ps')) i = Some li.
Proof. exact InterleaveProofs.params_isolated. Qed.
Print Assumptions params_isolated.

(* the instances: no run-path method of a tree-attached type (and no per-run
   code) stores into the compiled tree; the library keeps no unsynchronised
   package-level state — on the tables extracted from the current source *)
Theorem tree_is_not_written : tree_writes_ok GenTreeWrites.table = true.
Proof. vm_compute. reflexivity. Qed.
Print Assumptions tree_is_not_written.

Theorem library_state_is_synchronised : globals_ok GenTreeWrites.globals = true.
Proof. vm_compute. reflexivity. Qed.
Print Assumptions library_state_is_synchronised.

Theorem no_run_path_method_writes_the_tree :
  forall r, In r GenTreeWrites.table -> tw_writes r = false.
Proof. exact (proj2 (tree_writes_ok_spec _ tree_is_not_written)). Qed.
Print Assumptions no_run_path_method_writes_the_tree.

(* non-vacuity: a concrete evaluator meets the hypotheses, and three
   interleaved runs with parameters 5, 5, 7 return 10, 10, 14 *)
Example evaluator_meets_hypotheses : forall prog,
  stutters (list instr) mlocal mstep (mfinished prog) \/
  (forall l, mfinished prog l = true -> mstep prog l = l).
Proof. intros prog. right. apply mstep_stutters_prog. Qed.

Example interleaved_runs_agree :
  let prog := [IParam; IPush 2; IMul] in
  map mresult (run_sched (list instr) mlocal mstep prog [0;1;2;2;1;0;1;0;2;0;1;2]%nat (map mstart [5; 5; 7]))
  = [[10]; [10]; [14]].
Proof. exact interleaved_runs. Qed.
