(* Properties/C01.v — C01: Compile and Run are total: a result or an error,
   never a crash.  RunApi.run_api is Program.Run as an outcome algebra over
   every outcome of the evaluator, including the three kinds of Go panic.
   Statements only. *)
From Ferret Require Import RunApi Proofs.RunApiProofs.

(* Run yields JSON with a nil error, or a non-nil error — never an empty result
   with a nil error, never an escaped panic — for every program, parameters and
   world, whatever evaluation does (value, error, panic with a string, an error
   value such as a Go run-time fault, or anything else) *)
Theorem run_total : forall strict fuel p w,
  match fst (run_api_g true strict fuel p w) with
  | ANilNil | AEscaped => False
  | _ => True
  end.
Proof. exact RunApiProofs.run_total. Qed.
Print Assumptions run_total.

(* exactly one of the two: a JSON result comes only from a completed evaluation *)
Theorem run_result_iff_value : forall strict fuel p w v,
  fst (run_api_g true strict fuel p w) = AJson v ->
  exists w1, run_body_g strict fuel p w = (Ok v, w1).
Proof. exact run_exactly_one. Qed.
Print Assumptions run_result_iff_value.

(* the pinned recover handler (wrapping the nil named result) was not total *)
Theorem run_total_pinned_refuted : exists o w, fst (finish false o w) = ANilNil.
Proof. exact RunApiProofs.run_total_pinned_refuted. Qed.
Print Assumptions run_total_pinned_refuted.

(* internal faults are reachable from plain queries: RETURN 1 % 0 reaches the
   recover handler as an error-typed panic, [1,2][-1] likewise *)
Example modulo_by_zero_reaches_recover :
  fst (run_body 20 {| p_stmts := []; p_ret := BReturn (EMath MMod (EInt 1) (EInt 0)) |}
                (init_world [] false None)) = PanicErr /\
  fst (run_api 20 {| p_stmts := []; p_ret := BReturn (EMath MMod (EInt 1) (EInt 0)) |}
               (init_world [] false None)) = AError.
Proof. split; reflexivity. Qed.
(* a string index outside the string is a Go run-time fault, reported as an error *)
Example string_index_fault_reaches_recover :
  fst (run_api 20 {| p_stmts := [];
                     p_ret := BReturn (EMember (EParam (bs "s")) [Seg false (EInt 5)]) |}
               (init_world [(bs "s", VStr (bs "k"))] false None)) = AError.
Proof. reflexivity. Qed.
