(* Properties/C13.v — C13: cancellation and timeouts are honoured.  The
   theorems are about the reference evaluator with the specified (strict)
   cancellation semantics and about the WAITFOR model; the correspondence check
   injects a cancellation inside every instrumented call of generated programs
   and compares outcome and call sequence with this evaluator.
   Statements only. *)
From Ferret Require Import Eval Waitfor Proofs.EvalProofs Proofs.CancelProofs.

(* a context that is already cancelled: Run returns an error and no function is
   invoked — for every program, every parameter set *)
Theorem precancel_no_calls : forall fuel p params,
  run_body fuel p (init_world params true None) = (Err ETerminated, init_world params true None) /\
  w_trace (snd (run_body fuel p (init_world params true None))) = [].
Proof. exact CancelProofs.precancel_no_calls. Qed.
Print Assumptions precancel_no_calls.

(* once the context is cancelled no function-call expression, loop, loop
   source, block of loop statements or body starts; each reports termination
   and leaves the world (hence the call trace) untouched *)
Theorem no_start_after_cancel : forall f sc w, w_cancelled w = true ->
  (forall g args, eval (S f) (ECall g args) sc w = (Err ETerminated, w)) /\
  (forall q, eval_for (S f) q sc w = (Err ETerminated, w)) /\
  (forall vv kv e, iterate (S f) (DIn vv kv e) sc w = (Err ETerminated, w)) /\
  (forall d ss, iterate (S f) (DBlock d ss) sc w = (Err ETerminated, w)) /\
  (forall p, run_body f p w = (Err ETerminated, w)).
Proof.
  exact (fun f sc w H =>
    conj (fun g args => eval_call_cancelled f g args sc w H)
   (conj (fun q => for_cancelled f q sc w H)
   (conj (fun vv kv e => for_in_source_cancelled f vv kv e sc w H)
   (conj (fun d ss => block_cancelled f d ss sc w H)
         (fun p => run_precancelled f p w H))))).
Qed.
Print Assumptions no_start_after_cancel.

(* a call whose context test preceded the cancellation completes: the k-th
   instrumented call cancels from inside and still returns *)
Theorem cancelling_call_completes : forall f args w,
  w_cancelled w = false -> w_cancel_at w = Some (w_ncalls w) -> w_fail_at w = None -> f = bs "T" ->
  let '(r, w') := call_fn f args w in
  r = Ok (last args VNone) /\ w_cancelled w' = true /\ w_ncalls w' = (w_ncalls w + 1)%N.
Proof. exact call_cancels_from_inside. Qed.
Print Assumptions cancelling_call_completes.

(* evaluation that was cut short is an error: termination is never turned into
   a value by error suppression or optional chaining *)
Theorem cut_short_is_error : forall f a src s rest sc w w',
  (eval f a sc w = (Err ETerminated, w') -> eval (S f) (ESuppress a) sc w = (Err ETerminated, w')) /\
  (eval f src sc w = (Err ETerminated, w') ->
   eval (S f) (EMember src (Seg true s :: rest)) sc w = (Err ETerminated, w')).
Proof.
  exact (fun f a src s rest sc w w' =>
           conj (eval_suppress_keeps_termination f a sc w w')
                (eval_member_optional_keeps_termination f src s rest sc w w')).
Qed.
Print Assumptions cut_short_is_error.

(* ... which the pinned tree did not guarantee *)
Theorem cut_short_is_error_pinned_refuted : forall f a sc w w',
  eval_g false f a sc w = (Err ETerminated, w') ->
  eval_g false (S f) (ESuppress a) sc w = (Ok VNone, w').
Proof. exact suppress_swallows_termination_pinned. Qed.
Print Assumptions cut_short_is_error_pinned_refuted.

(* WAITFOR EVENT: the value returned is the first event satisfying the filter;
   it arrived before the deadline; everything before it was a non-matching value *)
Theorem waitfor_first_match : forall s filter d v,
  consume s filter d = WROk v ->
  exists pre t post, s = pre ++ (t, WVal v) :: post /\ filter v = true /\ t < d /\
    forall t' m, In (t', m) pre -> exists u, m = WVal u /\ filter u = false /\ t' < d.
Proof. exact consume_first_match. Qed.
Print Assumptions waitfor_first_match.

Theorem waitfor_timeout : forall s filter d,
  (forall t m, In (t, m) s -> t < d -> exists u, m = WVal u /\ filter u = false) ->
  consume s filter d = WRTimeout.
Proof. exact consume_timeout. Qed.
Print Assumptions waitfor_timeout.

Theorem waitfor_closes_once : forall sub_fails s filter d,
  let o := waitfor sub_fails s filter d in
  w_subs o = 1%nat /\ w_closes o = (if sub_fails then 0 else 1)%nat.
Proof. exact CancelProofs.waitfor_closes_once. Qed.
Print Assumptions waitfor_closes_once.

(* non-vacuity: cancellation inside the first call of a loop body stops the
   loop; the error is reported; exactly one call was made *)
Example cancel_inside_first_call :
  let p := {| p_stmts := [];
              p_ret := BFor (ForIn (bs "i") None (EArr [EInt 1; EInt 2; EInt 3]) []
                              (RReturn false (ECall (bs "T") [EVar (bs "i")]))) |} in
  let '(r, w) := run_body 50 p (init_world [] false (Some 0%N)) in
  r = Err ETerminated /\ w_ncalls w = 1%N.
Proof. vm_compute. split; reflexivity. Qed.

(* ---------------------------------------------------------------- whole-evaluator
   invariants (Proofs/WorldInv.v): for every expression / loop / program, every
   fuel, every scope and every start world *)
From Ferret Require Import Proofs.WorldInv.

(* once the context is cancelled no construct of the language invokes a function
   any more: the sequence of calls in the trace and the call counter are those of
   the start world *)
Theorem no_call_after_cancel : forall (f : nat) e sc w, w_cancelled w = true ->
  calls (w_trace (snd (eval f e sc w))) = calls (w_trace w) /\
  w_ncalls (snd (eval f e sc w)) = w_ncalls w.
Proof. exact WorldInv.no_call_after_cancel. Qed.
Print Assumptions no_call_after_cancel.

Theorem no_call_after_cancel_for : forall (f : nat) q sc w, w_cancelled w = true ->
  calls (w_trace (snd (eval_for f q sc w))) = calls (w_trace w) /\
  w_ncalls (snd (eval_for f q sc w)) = w_ncalls w.
Proof. exact WorldInv.no_call_after_cancel_for. Qed.
Print Assumptions no_call_after_cancel_for.

Theorem no_call_after_cancel_body : forall (f : nat) p w, w_cancelled w = true ->
  calls (w_trace (snd (run_body f p w))) = calls (w_trace w) /\
  w_ncalls (snd (run_body f p w)) = w_ncalls w.
Proof. exact WorldInv.no_call_after_cancel_body. Qed.
Print Assumptions no_call_after_cancel_body.

(* ... which the pinned tree did not guarantee: an AGGREGATE reducer is invoked
   by an iterator that is pulled under a cancelled context *)
Theorem no_call_after_cancel_pinned_refuted :
  exists (f : nat) it sc w, w_cancelled w = true /\
    calls (w_trace (snd (next_g false f it sc w))) <> calls (w_trace w) /\
    w_ncalls (snd (next_g false f it sc w)) <> w_ncalls w.
Proof. exact WorldInv.no_call_after_cancel_pinned_refuted. Qed.
Print Assumptions no_call_after_cancel_pinned_refuted.

(* cancellation is permanent (both strictness settings) *)
Theorem cancellation_is_permanent : forall strict (f : nat) p w,
  w_cancelled w = true -> w_cancelled (snd (run_body_g strict f p w)) = true.
Proof. exact WorldInv.cancellation_is_permanent. Qed.
Print Assumptions cancellation_is_permanent.

(* ... and only ever arises inside an instrumented call *)
Theorem cancel_happens_inside_a_call : forall strict (f : nat) e sc w,
  w_cancelled w = false -> w_cancelled (snd (eval_g strict f e sc w)) = true ->
  (w_ncalls w < w_ncalls (snd (eval_g strict f e sc w)))%N.
Proof. exact WorldInv.cancel_happens_inside_a_call. Qed.
Print Assumptions cancel_happens_inside_a_call.

(* non-vacuity: CANCEL() leaves a cancelled world; a loop over T(1) started in
   it, and the whole program CANCEL() FOR i IN [1,2,3] RETURN T(1), add no call *)
Example no_call_after_cancel_nonvacuous :
  let q := ForIn (bs "i") None (EArr [EInt 1; EInt 2; EInt 3]) []
             (RReturn false (ECall (bs "T") [EInt 1])) in
  let w1 := snd (eval 10 (ECall (bs "CANCEL") []) [[]] (init_world [] false None)) in
  let p := {| p_stmts := [SCall (ECall (bs "CANCEL") [])]; p_ret := BFor q |} in
  w_cancelled w1 = true /\ calls (w_trace w1) = [(bs "CANCEL", [])] /\
  calls (w_trace (snd (eval_for 50 q [[]] w1))) = [(bs "CANCEL", [])] /\
  run_body 50 p (init_world [] false None) = (Err ETerminated, w1).
Proof. vm_compute. repeat split. Qed.

(* non-vacuity: the context is cancelled inside the second call of a loop and
   stays cancelled to the end of the run; two calls were counted *)
Example cancellation_is_permanent_nonvacuous :
  let p := {| p_stmts := [];
              p_ret := BFor (ForIn (bs "i") None (EArr [EInt 1; EInt 2; EInt 3]) []
                              (RReturn false (ECall (bs "T") [EVar (bs "i")]))) |} in
  let w := snd (run_body 50 p (init_world [] false (Some 1%N))) in
  w_cancelled w = true /\ w_ncalls w = 2%N.
Proof. vm_compute. split; reflexivity. Qed.
