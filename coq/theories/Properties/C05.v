(* Properties/C05.v — C05: only complete, well-formed query text is accepted.
   Statements only; proofs are in Proofs/ParserProofs.v and Proofs/LexerProofs.v.

   [parse_program] is the reference notion of "accepted". *)
From Ferret Require Import Render Proofs.LexerProofs Proofs.ParserProofs.

(* [parse_prefix_with ch ts] reads one program from the front of the token
   list under the reading [ch] of the '?' tokens that follow ')' (error operator
   or ternary, where the next tokens do not settle it) and returns what is left
   (this is all a start rule without EOF does); [parse_program] tries the
   readings in the generated parser's order of preference and accepts when one
   of them covers the whole list. *)

(* acceptance means the whole token list was the program, under some reading:
   nothing is left *)
Theorem parse_consumes_all : forall ts p,
  parse_program ts = Some p ->
  exists terns, parse_prefix_with (choice_of terns) ts = POk p [].
Proof. exact parse_consumes_all_lemma. Qed.
Print Assumptions parse_consumes_all.

(* if every reading leaves something over after the program it reads, the
   query is ill-formed *)
Theorem leftover_rejected : forall ts,
  (forall ch p r, parse_prefix_with ch ts = POk p r -> r <> []) ->
  parse_program ts = None.
Proof. exact leftover_is_rejected. Qed.
Print Assumptions leftover_rejected.

(* the lexer is total: every text has a token list (unknown characters are
   tokens of their own, which no grammar rule accepts) *)
Theorem lexer_total : forall q, exists ts, lex q = Some ts.
Proof. exact lex_total. Qed.
Print Assumptions lexer_total.

(* every expression of the printable class, printed with minimal parentheses,
   is read back as itself: the parser's precedence and associativity on all
   three operator tiers are what the printer assumes.  (The name is kept from
   the time when [printable] was the operator sub-language only; the class is
   now everything the AST has except float literals — see
   [parse_print_program] below for what [printable] admits.)  The printer
   parenthesises a then-branch unless it begins with a token that settles
   "cond ? ..." as a ternary (Render.then_safe); on printed text every reading
   of the '?' tokens gives the same tree (ParserProofs.parse_print_expr_any),
   so the search returns it. *)
Theorem parse_print_expr_partial : forall e,
  printable e = true -> parse_expr (print_expr e) = POk e [].
Proof. exact parse_print_expr_lemma. Qed.
Print Assumptions parse_print_expr_partial.

(* RETURN e followed by any tokens s that cannot continue e: under every
   reading the program read is RETURN e and s is left over — accepted iff s is
   empty.  Tokens after a complete program are never ignored. *)
Theorem no_silent_suffix_partial : forall extra e s,
  printable e = true -> hd_kind (pr extra 1 e ++ s) <> Some KDistinct ->
  ctx_ok false 0 1 s ->
  (forall ch, parse_prefix_with ch (ret_toks extra e ++ s) = POk (ret_prog e) s) /\
  parse_program (ret_toks extra e ++ s) = match s with [] => Some (ret_prog e) | _ => None end.
Proof. exact no_silent_suffix_both. Qed.
Print Assumptions no_silent_suffix_partial.

(* in particular a suffix starting with a token of any of these 42 classes
   (closing brackets, ';', '=', keywords, literals, identifiers, '@', unknown
   characters ...) is rejected *)
Theorem suffix_rejected_partial : forall extra e k t r,
  printable e = true -> hd_kind (pr extra 1 e ++ (k, t) :: r) <> Some KDistinct ->
  stopper k = true ->
  parse_program (ret_toks extra e ++ (k, t) :: r) = None.
Proof. exact suffix_rejected_lemma. Qed.
Print Assumptions suffix_rejected_partial.

(* THE round trip for whole programs: every program of the printable class —
   LET / call statements followed by RETURN e or a FOR loop; loops with FILTER,
   SORT (ASC / DESC), LIMIT (with offset), LET, call statements, COLLECT in all
   its forms (grouping, INTO with and without projection, WITH COUNT INTO,
   AGGREGATE), nested FOR, FOR ... WHILE / DO WHILE, sub-queries in
   parentheses; expressions with every operator, ternaries incl. shorthand,
   arrays, objects (named, quoted, computed, @parameter and shorthand
   properties), member paths (dotted, computed, optional), ranges, calls (also
   with namespaces), error suppression — printed with minimal parentheses is
   well-formed text that reads back as itself, under every reading of the
   undecided '?' tokens and with the fuel the model uses.
   Excluded from [printable_prog]: float literals (the printer's decimal
   expansion is not characterised), negative integer literals (the grammar has
   none: they print as unary minus), names / strings / integers the lexer
   would not read back (see var_ok, ident_ok, let_ok, call_ok, str_ok, int_ok),
   variables named DISTINCT, member paths on other sources than names, calls,
   array and object literals, an error-suppressed call as loop source or LIMIT
   value (the printer parenthesises it), COLLECT without grouping and without
   counter / aggregator, empty SORT / AGGREGATE lists. *)
Theorem parse_print_program : forall p,
  printable_prog p = true -> parse_program (print_min p) = Some p.
Proof. exact (parse_print_program_lemma no_extra). Qed.
Print Assumptions parse_print_program.

(* the same under every reading, as a statement about one parse: no reading
   of the undecided '?' tokens leaves a token over or runs out of fuel *)
Theorem parse_print_program_every_reading : forall ch p,
  printable_prog p = true -> parse_prefix_with ch (print_min p) = POk p [].
Proof. exact (fun ch => parse_print_program_any ch no_extra). Qed.
Print Assumptions parse_print_program_every_reading.

(* a loop on its own *)
Theorem parse_print_for : forall q,
  printable_for q = true -> parse_program (pr_for no_extra q) = Some (for_prog q).
Proof. exact (parse_print_for_lemma no_extra). Qed.
Print Assumptions parse_print_for.

(* non-vacuity *)
Example ex_printable :
  printable (ECond (ELog LOr (ECmp CLt (EVar (bs "a")) (EInt 3)) (EUn UNot (ECall (bs "F") [EStr (bs "x"); ENone])))
                   (Some (EMath MSub (EInt 1) (EMath MSub (EInt 2) (EInt 3))))
                   (ESuppress (ECall (bs "G") []))) = true.
Proof. vm_compute. reflexivity. Qed.

Example ex_text_roundtrip :
  parse_text (bs "RETURN a < 3 OR NOT F('x', NONE) ? 1 - (2 - 3) : (G()?)") =
  Some (ret_prog (ECond (ELog LOr (ECmp CLt (EVar (bs "a")) (EInt 3)) (EUn UNot (ECall (bs "F") [EStr (bs "x"); ENone])))
                        (Some (EMath MSub (EInt 1) (EMath MSub (EInt 2) (EInt 3))))
                        (ESuppress (ECall (bs "G") [])))).
Proof. vm_compute. reflexivity. Qed.

(* what a start rule without EOF does, and what the property demands *)
Example ex_second_return :
  (match lex (bs "RETURN 1 RETURN 2") with
   | Some ts => (match parse_prefix_with (fun _ => true) ts with POk p r => Some (p, List.length r) | _ => None end, parse_program ts)
   | None => (None, None)
   end) = (Some (ret_prog (EInt 1), 2%nat), None).
Proof. vm_compute. reflexivity. Qed.

Example ex_stopper_suffix :
  stopper KReturn = true /\ ctx_ok false 0 1 [] /\
  hd_kind (pr no_extra 1 (EInt 1) ++ [tk KReturn "RETURN"]) <> Some KDistinct.
Proof. split; [reflexivity|split; [apply ctx_nil|discriminate]]. Qed.

(* '?' after ')' : the reading is found by trying, not by a bounded look-ahead *)
Example ex_backtrack :
  parse_text (bs "RETURN (1) ? (2) ?: 3 : 4") =
  Some (ret_prog (ECond (EInt 1) (Some (ECond (EInt 2) None (EInt 3))) (EInt 4))).
Proof. vm_compute. reflexivity. Qed.

(* both readings parse: the error operator at the leftmost '?' is preferred,
   as the generated parser does (the query evaluates to -5) *)
Example ex_preference :
  parse_text (bs "RETURN (1) ? - (0) ? - 5 : 7") =
  Some (ret_prog (ECond (EMath MSub (ESuppress (EInt 1)) (EInt 0)) (Some (EUn UNeg (EInt 5))) (EInt 7))).
Proof. vm_compute. reflexivity. Qed.

(* a program with a loop, COLLECT, member paths, an object and a sub-query *)
Definition ex_prog : program :=
  {| p_stmts := [SLet (bs "xs") (EArr [EInt 1; EInt 2; EInt 3])];
     p_ret := BFor (ForIn (bs "i") (Some (bs "k")) (EVar (bs "xs"))
                [CFilter (ECmp CGt (EVar (bs "i")) (EInt 1));
                 CSort [(EMember (EVar (bs "i")) [Seg false (EStr (bs "a")); Seg true (EInt 0)], true)];
                 CLimit (Some (EInt 1)) (EParam (bs "n"));
                 CCollect [(bs "g", EMath MMod (EVar (bs "i")) (EInt 2))] (CTInto (bs "grp") None)]
                (RReturn true (EObj [PNamed (bs "g") (EVar (bs "g")); PShort (bs "grp");
                                     PComputed (EParam (bs "p")) (ERange (EInt 1) (EVar (bs "g")));
                                     PNamed (bs "sub q") (ESub (ForWhile (bs "j") true (EBool false) [] (RReturn false (EVar (bs "j")))))]))) |}.
Example ex_prog_printable : printable_prog ex_prog = true.
Proof. vm_compute. reflexivity. Qed.
Example ex_prog_roundtrip : parse_program (print_min ex_prog) = Some ex_prog.
Proof. vm_compute. reflexivity. Qed.
