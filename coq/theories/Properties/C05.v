(* Properties/C05.v — C05: only complete, well-formed query text is accepted.
   Statements only; proofs are in Proofs/ParserProofs.v and Proofs/LexerProofs.v.

   [parse_program] is the reference notion of "accepted". *)
From Ferret Require Import Render Proofs.LexerProofs Proofs.ParserProofs.

(* [parse_prefix_with ch ts] reads one program from the front of the token
   list under the reading [ch] of the '?' tokens that follow ')' (error operator
   or ternary, where the next tokens do not settle it) and returns what is left
   (this is all a start rule without EOF does); [parse_program] tries the
   readings in the generated parser's order of preference and accepts when one
   of them covers the whole list. *)

(* acceptance means the whole token list was the program, under some reading:
   nothing is left *)
Theorem parse_consumes_all : forall ts p,
  parse_program ts = Some p ->
  exists terns, parse_prefix_with (choice_of terns) ts = POk p [].
Proof. exact parse_consumes_all_lemma. Qed.
Print Assumptions parse_consumes_all.

(* if every reading leaves something over after the program it reads, the
   query is ill-formed *)
Theorem leftover_rejected : forall ts,
  (forall ch p r, parse_prefix_with ch ts = POk p r -> r <> []) ->
  parse_program ts = None.
Proof. exact leftover_is_rejected. Qed.
Print Assumptions leftover_rejected.

(* the lexer is total: every text has a token list (unknown characters are
   tokens of their own, which no grammar rule accepts) *)
Theorem lexer_total : forall q, exists ts, lex q = Some ts.
Proof. exact lex_total. Qed.
Print Assumptions lexer_total.

(* every well-formed expression, printed with minimal parentheses, is read back
   as itself: the parser's precedence and associativity on all three operator
   tiers are what the printer assumes.  _partial: the expression sub-language
   [printable] (literals other than floats, names, parameters, every unary /
   binary / ternary operator, arrays, calls, error suppression); objects,
   member paths, ranges, sub-queries and FOR clauses are covered by the
   correspondence check only.  The printer parenthesises a then-branch unless
   it begins with a token that settles "cond ? ..." as a ternary (Render.then_safe);
   on printed text every reading of the '?' tokens gives the same tree
   (ParserProofs.parse_print_expr_any), so the search returns it. *)
Theorem parse_print_expr_partial : forall e,
  printable e = true -> parse_expr (print_expr e) = POk e [].
Proof. exact parse_print_expr_lemma. Qed.
Print Assumptions parse_print_expr_partial.

(* RETURN e followed by any tokens s that cannot continue e: under every
   reading the program read is RETURN e and s is left over — accepted iff s is
   empty.  Tokens after a complete program are never ignored. *)
Theorem no_silent_suffix_partial : forall extra e s,
  printable e = true -> hd_kind (pr extra 1 e ++ s) <> Some KDistinct ->
  ctx_ok false 0 1 s ->
  (forall ch, parse_prefix_with ch (ret_toks extra e ++ s) = POk (ret_prog e) s) /\
  parse_program (ret_toks extra e ++ s) = match s with [] => Some (ret_prog e) | _ => None end.
Proof. exact no_silent_suffix_both. Qed.
Print Assumptions no_silent_suffix_partial.

(* in particular a suffix starting with a token of any of these 42 classes
   (closing brackets, ';', '=', keywords, literals, identifiers, '@', unknown
   characters ...) is rejected *)
Theorem suffix_rejected_partial : forall extra e k t r,
  printable e = true -> hd_kind (pr extra 1 e ++ (k, t) :: r) <> Some KDistinct ->
  stopper k = true ->
  parse_program (ret_toks extra e ++ (k, t) :: r) = None.
Proof. exact suffix_rejected_lemma. Qed.
Print Assumptions suffix_rejected_partial.

(* non-vacuity *)
Example ex_printable :
  printable (ECond (ELog LOr (ECmp CLt (EVar (bs "a")) (EInt 3)) (EUn UNot (ECall (bs "F") [EStr (bs "x"); ENone])))
                   (Some (EMath MSub (EInt 1) (EMath MSub (EInt 2) (EInt 3))))
                   (ESuppress (ECall (bs "G") []))) = true.
Proof. vm_compute. reflexivity. Qed.

Example ex_text_roundtrip :
  parse_text (bs "RETURN a < 3 OR NOT F('x', NONE) ? 1 - (2 - 3) : (G()?)") =
  Some (ret_prog (ECond (ELog LOr (ECmp CLt (EVar (bs "a")) (EInt 3)) (EUn UNot (ECall (bs "F") [EStr (bs "x"); ENone])))
                        (Some (EMath MSub (EInt 1) (EMath MSub (EInt 2) (EInt 3))))
                        (ESuppress (ECall (bs "G") [])))).
Proof. vm_compute. reflexivity. Qed.

(* what a start rule without EOF does, and what the property demands *)
Example ex_second_return :
  (match lex (bs "RETURN 1 RETURN 2") with
   | Some ts => (match parse_prefix_with (fun _ => true) ts with POk p r => Some (p, List.length r) | _ => None end, parse_program ts)
   | None => (None, None)
   end) = (Some (ret_prog (EInt 1), 2%nat), None).
Proof. vm_compute. reflexivity. Qed.

Example ex_stopper_suffix :
  stopper KReturn = true /\ ctx_ok false 0 1 [] /\
  hd_kind (pr no_extra 1 (EInt 1) ++ [tk KReturn "RETURN"]) <> Some KDistinct.
Proof. split; [reflexivity|split; [apply ctx_nil|discriminate]]. Qed.

(* '?' after ')' : the reading is found by trying, not by a bounded look-ahead *)
Example ex_backtrack :
  parse_text (bs "RETURN (1) ? (2) ?: 3 : 4") =
  Some (ret_prog (ECond (EInt 1) (Some (ECond (EInt 2) None (EInt 3))) (EInt 4))).
Proof. vm_compute. reflexivity. Qed.

(* both readings parse: the error operator at the leftmost '?' is preferred,
   as the generated parser does (the query evaluates to -5) *)
Example ex_preference :
  parse_text (bs "RETURN (1) ? - (0) ? - 5 : 7") =
  Some (ret_prog (ECond (EMath MSub (ESuppress (EInt 1)) (EInt 0)) (Some (EUn UNeg (EInt 5))) (EInt 7))).
Proof. vm_compute. reflexivity. Qed.
