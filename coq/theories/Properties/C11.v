(* Properties/C11.v — C11: compiling never changes the compiler; calls resolve
   by registered name; USE imports never leak.  Statements only; the proofs
   are in Proofs/RegistryProofs.v.  [compile_spec] is the specified behaviour
   (imports go into a per-compilation copy of the function table),
   [compile_pinned] mirrors the pinned tree (imports are written into the
   compiler's own table). *)
From Ferret Require Import Registry Proofs.RegistryProofs.

Theorem compile_pure : forall s q, snd (compile_spec s q) = s.
Proof. exact RegistryProofs.compile_pure. Qed.
Print Assumptions compile_pure.

Theorem history_independent : forall s0 h q,
  fst (compile_spec (after compile_spec s0 h) q) = fst (compile_spec s0 q).
Proof. exact RegistryProofs.history_independent. Qed.
Print Assumptions history_independent.

(* a call resolves to the function registered under its (upper-cased) name as
   written, or - only when nothing is registered under that name - to the one
   registered under that name inside namespaces this query imports *)
Theorem resolve_correct : forall s q ids, wf_table s ->
  fst (compile_spec s q) = Compiled ids ->
  Forall2 (resolves_to s (q_uses q)) (q_calls q) ids.
Proof. exact RegistryProofs.resolve_correct. Qed.
Print Assumptions resolve_correct.

(* a query without USE sees exactly the registered names, whatever was compiled before *)
Theorem import_no_leak : forall s0 h q, q_uses q = [] ->
  fst (compile_spec (after compile_spec s0 h) q) = resolve_plain s0 q.
Proof. exact RegistryProofs.import_no_leak. Qed.
Print Assumptions import_no_leak.

(* two imported namespaces that both define m, or an imported namespace that
   defines a name also registered unqualified: the compilation fails *)
Theorem ambiguous_import_error : forall s q l1 a l2 b l3 m,
  q_uses q = l1 ++ a :: l2 ++ b :: l3 ->
  has s (import_prefix a ++ m) = true -> has s (import_prefix b ++ m) = true ->
  fst (compile_spec s q) = CompileError.
Proof. exact RegistryProofs.ambiguous_import_error. Qed.
Print Assumptions ambiguous_import_error.

Theorem shadowing_import_error : forall s q a m,
  In a (q_uses q) -> has s (import_prefix a ++ m) = true -> has s m = true ->
  fst (compile_spec s q) = CompileError.
Proof. exact RegistryProofs.shadowing_import_error. Qed.
Print Assumptions shadowing_import_error.

Theorem unknown_function_error : forall s q c,
  q_uses q = [] -> In c (q_calls q) -> fget s c = None -> fst (compile_spec s q) = CompileError.
Proof. exact RegistryProofs.unknown_function_error. Qed.
Print Assumptions unknown_function_error.

(* every schedule of whole Compile calls of any number of threads on one
   compiler gives each thread what it gets running alone, and leaves the table alone *)
Theorem concurrent_compile_independent : forall s0 threads sched i,
  outs (run_sched compile_spec sched (start s0 threads)) i =
  run_alone compile_spec s0 (firstn (count_occ Nat.eq_dec sched i) (threads i)).
Proof. exact RegistryProofs.concurrent_compile_independent. Qed.
Print Assumptions concurrent_compile_independent.

Theorem concurrent_compile_state : forall s0 threads sched,
  shared (run_sched compile_spec sched (start s0 threads)) = s0.
Proof. exact RegistryProofs.concurrent_compile_state. Qed.
Print Assumptions concurrent_compile_state.

(* registration keeps the table a finite map with upper-cased keys, so the
   hypothesis of resolve_correct holds of every table a compiler can have *)
Theorem register_keeps_wf : forall t ns nm f t',
  wf_table t -> register t ns nm f = Some t' -> wf_table t'.
Proof. exact RegistryProofs.wf_register. Qed.
Print Assumptions register_keeps_wf.

(* the mirror of the pinned tree violates purity, history independence,
   no-leak and schedule independence *)
Theorem compile_pure_pinned_refuted : exists s q, snd (compile_pinned s q) <> s.
Proof. exact RegistryProofs.compile_pure_pinned_refuted. Qed.
Print Assumptions compile_pure_pinned_refuted.

Theorem history_independent_pinned_refuted : exists s0 h q,
  fst (compile_pinned (after compile_pinned s0 h) q) <> fst (compile_pinned s0 q).
Proof. exact RegistryProofs.history_independent_pinned_refuted. Qed.
Print Assumptions history_independent_pinned_refuted.

Theorem import_leak_pinned_refuted : exists s0 h q, q_uses q = [] /\
  fst (compile_pinned (after compile_pinned s0 h) q) <> resolve_plain s0 q.
Proof. exact RegistryProofs.import_leak_pinned_refuted. Qed.
Print Assumptions import_leak_pinned_refuted.

Theorem concurrent_pinned_refuted : exists s0 threads sched i,
  outs (run_sched compile_pinned sched (start s0 threads)) i <>
  run_alone compile_pinned s0 (firstn (count_occ Nat.eq_dec sched i) (threads i)).
Proof. exact RegistryProofs.concurrent_pinned_refuted. Qed.
Print Assumptions concurrent_pinned_refuted.

(* non-vacuity: a well-formed table on which a query importing X compiles and
   resolves F through the import; and an ambiguous import that meets the
   hypotheses of ambiguous_import_error *)
Example import_resolves :
  wf_table [(bs "X::F", 1%N); (bs "G", 2%N)] /\
  fst (compile_spec [(bs "X::F", 1%N); (bs "G", 2%N)] (Query true [bs "x"] [bs "f"; bs "g"; bs "X::f"]))
  = Compiled [1%N; 2%N; 1%N].
Proof. split; [repeat constructor; cbn; intuition discriminate|reflexivity]. Qed.
Example ambiguous_satisfiable :
  has [(bs "X::F", 1%N); (bs "Y::F", 2%N)] (import_prefix (bs "X") ++ bs "F") = true /\
  has [(bs "X::F", 1%N); (bs "Y::F", 2%N)] (import_prefix (bs "y") ++ bs "F") = true.
Proof. split; reflexivity. Qed.
