(* Properties/C07.v — C07: values are totally ordered and every comparison
   agrees with that order.  Statements only; proofs are in Proofs/. *)
From Ferret Require Import Value Compare Proofs.CompareProofs.
From Coq Require Import Permutation.

(* the guard of the property: integers within ±2^53 (anywhere inside the value) *)
Definition in_guard (v : value) : Prop := ints_within_2p53 v = true.

Theorem compare_sign_valued : forall a b,
  vcompare a b = -1 \/ vcompare a b = 0 \/ vcompare a b = 1.
Proof. exact vcompare_range. Qed.
Print Assumptions compare_sign_valued.

Theorem compare_refl : forall a, vcompare a a = 0.
Proof. exact vcompare_refl. Qed.
Print Assumptions compare_refl.

Theorem compare_antisym : forall a b, vcompare b a = - vcompare a b.
Proof. exact vcompare_antisym. Qed.
Print Assumptions compare_antisym.

Theorem compare_trans : forall a b c, in_guard a -> in_guard b -> in_guard c ->
  vcompare a b <= 0 -> vcompare b c <= 0 -> vcompare a c <= 0.
Proof. exact vcompare_trans. Qed.
Print Assumptions compare_trans.

(* equal-comparing values are interchangeable in every later comparison *)
Theorem compare_eq_congruence : forall a b c, in_guard a -> in_guard b -> in_guard c ->
  vcompare a b = 0 -> vcompare b c = vcompare a c.
Proof. exact vcompare_eq_trans. Qed.
Print Assumptions compare_eq_congruence.

(* none < boolean < number < string < datetime < array < object < binary *)
Theorem rank_order_is_spec : forall a b, cls a < cls b -> vcompare a b = -1.
Proof. exact vcompare_rank. Qed.
Print Assumptions rank_order_is_spec.

(* int and float are compared numerically: both embed into Z (scaled by 2^1074) *)
Theorem numeric_cross_type : forall a b, cls a = 2 -> cls b = 2 -> int_ok a -> int_ok b ->
  vcompare a b = zcmp (nkey a) (nkey b).
Proof. exact vcompare_numeric. Qed.
Print Assumptions numeric_cross_type.

Theorem array_len_then_elems : forall l l',
  vcompare (VArr l) (VArr l') =
  len_then (length l) (length l') (cmp_list (map norm l) (map norm l')).
Proof. exact vcompare_arr. Qed.
Print Assumptions array_len_then_elems.

(* structurally identical values (object members in any insertion order) compare equal *)
Theorem compare_respects_struct_eq : forall a b, struct_eq a b -> vcompare a b = 0.
Proof. exact vcompare_struct_eq. Qed.
Print Assumptions compare_respects_struct_eq.

Theorem sort_agrees : forall l, sortedb (sort_values l) = true /\ Permutation l (sort_values l).
Proof. exact (fun l => conj (sort_values_sorted l) (sort_values_perm l)). Qed.
Print Assumptions sort_agrees.

(* outside the guard transitivity fails (int -> float conversion rounds) *)
Theorem compare_trans_refuted_beyond_2p53 :
  exists a b c, vcompare a b <= 0 /\ vcompare b c <= 0 /\ vcompare a c > 0.
Proof. exact vcompare_trans_refuted_beyond_2p53. Qed.
Print Assumptions compare_trans_refuted_beyond_2p53.

(* non-vacuity: a nested value with an int at the edge of the guard meets it *)
Example guard_satisfiable :
  in_guard (VObj [(bs "k", VArr [VInt (2 ^ 53); VFloat 4607182418800017408%N; VStr (bs "x")])]).
Proof. reflexivity. Qed.
