(* StdArrays.v — value-level mirrors of pkg/stdlib/arrays/*.go and of the array
   part of pkg/stdlib/collections (LENGTH, INCLUDES, REVERSE), together with the
   reference specifications they are compared with (C16).  Definitions only.

   Mirrors (named m_xxx) follow the Go code: argument validation, the loops with their
   indices, the hash-bucket tables, and the run-time faults as explicit
   outcomes.  Specifications (named s_xxx) are the plain list / set definitions.

   Two notions of "same element" occur in the Go code and are kept apart:
     heq — hash identity (Value.Hash); modelled as structural identity
           (type + content, object members in any order), which is what C08
           states about Hash.  Used by the bucket / lookup-table functions.
     ceq — Value.Compare(..) == 0.  Used by the search / unique-flag functions. *)
From Ferret Require Export Value Compare.

Inductive res : Type :=
| Ok (v : value)      (* (value, nil) *)
| Err                 (* (_, error) *)
| Panic               (* Go run-time panic inside the function *)
| Unmodelled.         (* input outside the modelled part (e.g. string haystack) *)

Definition heq (a b : value) : bool := struct_eqb a b.
Definition ceq (a b : value) : bool := vcompare a b =? 0.
Definition hmemb (x : value) (l : list value) : bool := existsb (fun y => heq y x) l.
Definition cmemb (x : value) (l : list value) : bool := existsb (fun y => ceq y x) l.

Definition zlen {A : Type} (l : list A) : Z := Z.of_nat (List.length l).

Definition is_arr (v : value) : bool := match v with VArr _ => true | _ => false end.
Definition is_obj (v : value) : bool := match v with VObj _ => true | _ => false end.
Definition items (v : value) : list value := match v with VArr l => l | _ => [] end.

(* ------------------------------------------------------------------ *)
(* values.Array primitives                                              *)

(* Array.Get: l := len-1; l < 0 -> None; idx > l -> None; else items[idx]
   (a negative idx on a non-empty array is an index-out-of-range panic) *)
Definition arr_get (l : list value) (i : Z) : res :=
  let last := zlen l - 1 in
  if last <? 0 then Ok VNone
  else if i >? last then Ok VNone
  else if i <? 0 then Panic
  else match nth_error l (Z.to_nat i) with Some v => Ok v | None => Panic end.

(* Array.Slice(from, to): from >= len -> empty; to clipped to len;
   items[from:to] panics when from < 0 or to < from.  None = panic *)
Definition arr_slice (l : list value) (from to : Z) : option (list value) :=
  let len := zlen l in
  if from >=? len then Some []
  else
    let to' := if to >? len then len else to in
    if (from <? 0) || (to' <? from) then None
    else Some (firstn (Z.to_nat (to' - from)) (skipn (Z.to_nat from) l)).

(* ToUniqueArray / the [hashes] table of UNION_DISTINCT: keep an element when
   its hash has not been seen *)
Fixpoint uniq_loop (l : list value) (seen : list value) : list value :=
  match l with
  | [] => []
  | x :: r => if hmemb x seen then uniq_loop r seen else x :: uniq_loop r (x :: seen)
  end.
Definition to_unique (l : list value) : list value := uniq_loop l [].

(* ------------------------------------------------------------------ *)
(* positional functions                                                 *)

Definition m_first (args : list value) : res :=
  match args with
  | [VArr l] => arr_get l 0
  | [_] => Ok VNone                  (* first.go: type error -> (None, nil) *)
  | _ => Err
  end.

Definition m_last (args : list value) : res :=
  match args with
  | [VArr l] => arr_get l (zlen l - 1)
  | [_] => Ok VNone
  | _ => Err
  end.

Definition m_nth (args : list value) : res :=
  match args with
  | [VArr l; VInt i] => arr_get l i
  | _ => Err
  end.

Definition slice_res (l : list value) (from to : Z) : res :=
  match arr_slice l from to with Some r => Ok (VArr r) | None => Panic end.

Definition m_slice (args : list value) : res :=
  match args with
  | [VArr l; VInt s] => slice_res l s (zlen l)
  | [VArr l; VInt s; a2] =>
      let to := match a2 with
                | VInt n => if n >? 0 then s + n else zlen l
                | _ => zlen l
                end in
      slice_res l s to
  | _ => Err
  end.

(* REMOVE_NTH: NewArray(len-1) (panics for len = 0), then ForEach with idx *)
Fixpoint loop_remove_nth (l : list value) (idx index : Z) : list value :=
  match l with
  | [] => []
  | x :: r => if idx =? index then loop_remove_nth r (idx + 1) index
              else x :: loop_remove_nth r (idx + 1) index
  end.
Definition m_remove_nth (args : list value) : res :=
  match args with
  | [VArr l; VInt i] =>
      if zlen l - 1 <? 0 then Panic else Ok (VArr (loop_remove_nth l 0 i))
  | _ => Err
  end.

(* POP: ForEach stops at idx == len-1 *)
Fixpoint loop_pop (l : list value) (idx lastIdx : Z) : list value :=
  match l with
  | [] => []
  | x :: r => if idx =? lastIdx then [] else x :: loop_pop r (idx + 1) lastIdx
  end.
Definition m_pop (args : list value) : res :=
  match args with
  | [VArr l] => Ok (VArr (loop_pop l 0 (zlen l - 1)))
  | _ => Err
  end.

(* SHIFT: ForEach pushes when idx != 0 *)
Fixpoint loop_shift (l : list value) (idx : Z) : list value :=
  match l with
  | [] => []
  | x :: r => if idx =? 0 then loop_shift r (idx + 1) else x :: loop_shift r (idx + 1)
  end.
Definition m_shift (args : list value) : res :=
  match args with
  | [VArr l] => Ok (VArr (loop_shift l 0))
  | _ => Err
  end.

(* APPEND / PUSH: copy, then push unless (unique and some item compares equal) *)
Definition push_unique (l : list value) (x : value) (uniq : bool) : list value :=
  if uniq && cmemb x l then l else l ++ [x].
Definition m_append (args : list value) : res :=
  match args with
  | [VArr l; x] => Ok (VArr (push_unique l x false))
  | [VArr l; x; VBool u] => Ok (VArr (push_unique l x u))
  | _ => Err
  end.
Definition m_push := m_append.    (* push.go computes the same thing *)

(* UNSHIFT: value first; with unique, on the first equal element the loop is
   abandoned and a copy of the array is returned *)
Definition m_unshift (args : list value) : res :=
  match args with
  | [VArr l; x] => Ok (VArr (x :: l))
  | [VArr l; x; VBool u] => Ok (VArr (if u && cmemb x l then l else x :: l))
  | _ => Err
  end.

(* REMOVE_VALUE: counter counts the equal items seen so far; an equal item is
   kept exactly when counter == limit (limit = -1 when absent) *)
Fixpoint loop_remove_value (l : list value) (x : value) (counter limit : Z) : list value :=
  match l with
  | [] => []
  | it :: r =>
      if ceq it x then
        if counter =? limit then it :: loop_remove_value r x (counter + 1) limit
        else loop_remove_value r x (counter + 1) limit
      else it :: loop_remove_value r x counter limit
  end.
Definition m_remove_value (args : list value) : res :=
  match args with
  | [VArr l; x] => Ok (VArr (loop_remove_value l x 0 (-1)))
  | [VArr l; x; VInt lim] => Ok (VArr (loop_remove_value l x 0 lim))
  | _ => Err
  end.

(* REMOVE_VALUES: lookup table of the hashes of the second array *)
Definition m_remove_values (args : list value) : res :=
  match args with
  | [VArr l; VArr vs] => Ok (VArr (filter (fun x => negb (hmemb x vs)) l))
  | _ => Err
  end.

(* REVERSE (collections/reverse.go, array branch): i from len-1 down to 0, Get(i) *)
Fixpoint loop_reverse (l : list value) (n : nat) : option (list value) :=
  match n with
  | O => Some []
  | S k => match arr_get l (Z.of_nat k) with
           | Ok v => match loop_reverse l k with Some r => Some (v :: r) | None => None end
           | _ => None
           end
  end.
Definition ascii_only (s : bytes) : bool := forallb (fun b => (b <? 128)%N) s.
Definition m_reverse (args : list value) : res :=
  match args with
  | [VArr l] => match loop_reverse l (List.length l) with Some r => Ok (VArr r) | None => Panic end
  | [VStr s] => if ascii_only s then Ok (VStr (rev s)) else Unmodelled   (* rune-wise; ASCII only here *)
  | [_] => Err
  | _ => Err
  end.

(* LENGTH: collections.Measurable = string (runes), array, object, binary *)
Definition m_length (args : list value) : res :=
  match args with
  | [VArr l] => Ok (VInt (zlen l))
  | [VObj m] => Ok (VInt (zlen m))
  | [VBin b] => Ok (VInt (zlen b))
  | [VStr s] => if ascii_only s then Ok (VInt (zlen s)) else Unmodelled
  | [_] => Err
  | _ => Err
  end.

(* INCLUDES: needle.Compare(value) == 0 for some element / member value *)
Definition m_includes (args : list value) : res :=
  match args with
  | [VArr l; x] => Ok (VBool (existsb (fun v => vcompare x v =? 0) l))
  | [VObj m; x] => Ok (VBool (existsb (fun kv => vcompare x (snd kv) =? 0) m))
  | [VStr _; _] => Unmodelled          (* substring search on the rendered needle *)
  | [_; _] => Err
  | _ => Err
  end.

(* POSITION *)
Definition m_position (args : list value) : res :=
  match args with
  | [VArr l; x] => Ok (VBool (position l x >? -1))
  | [VArr l; x; VBool p] => if p then Ok (VInt (position l x)) else Ok (VBool (position l x >? -1))
  | _ => Err
  end.

(* ------------------------------------------------------------------ *)
(* sorting                                                              *)

Definition m_sorted (args : list value) : res :=
  match args with
  | [VArr l] => Ok (VArr (sort_values l))      (* sort.SliceStable by Compare == -1 *)
  | _ => Err
  end.
Definition m_sorted_unique (args : list value) : res :=
  match args with
  | [VArr l] => Ok (VArr (to_unique (sort_values l)))
  | _ => Err
  end.
Definition m_unique (args : list value) : res :=
  match args with
  | [VArr l] => Ok (VArr (to_unique l))
  | _ => Err
  end.

(* ------------------------------------------------------------------ *)
(* set functions over hash buckets.  A Go map is modelled as an association
   list in first-insertion order; the order in which Go ranges over the map is
   arbitrary, so results of these functions are only ever compared as sets. *)

Definition all_arrays (args : list value) : bool := forallb is_arr args.
Definition arity_ge (n : nat) (args : list value) : bool := (n <=? List.length args)%nat.

Definition m_union (args : list value) : res :=
  if arity_ge 2 args && all_arrays args then Ok (VArr (concat (map items args))) else Err.

Definition m_union_distinct (args : list value) : res :=
  if arity_ge 2 args && all_arrays args then Ok (VArr (to_unique (concat (map items args)))) else Err.

(* sections(): intersections[h] = append(bucket, value); one bucket per hash,
   remembered as (first value, number of values appended) *)
Fixpoint bucket_add (x : value) (b : list (value * nat)) : list (value * nat) :=
  match b with
  | [] => [(x, 1%nat)]
  | (y, n) :: r => if heq y x then (y, S n) :: r else (y, n) :: bucket_add x r
  end.
Definition buckets_of (l : list value) : list (value * nat) :=
  fold_left (fun b x => bucket_add x b) l [].
Definition sections (args : list value) (required : nat) : res :=
  if arity_ge 2 args && all_arrays args then
    Ok (VArr (map fst (filter (fun p => Nat.eqb (snd p) required)
                               (buckets_of (concat (map items args))))))
  else Err.
Definition m_intersection (args : list value) : res := sections args (List.length args).
Definition m_outersection (args : list value) : res := sections args 1.

(* MINUS: table filled from the first array (a later duplicate overwrites the
   stored value), entries deleted for every element of the other arrays *)
Fixpoint tbl_set (x : value) (t : list value) : list value :=
  match t with
  | [] => [x]
  | y :: r => if heq y x then x :: r else y :: tbl_set x r
  end.
Definition tbl_del (x : value) (t : list value) : list value :=
  filter (fun y => negb (heq y x)) t.
Definition m_minus (args : list value) : res :=
  if arity_ge 2 args && all_arrays args then
    match args with
    | a :: others =>
        let t0 := fold_left (fun t x => tbl_set x t) (items a) [] in
        Ok (VArr (fold_left (fun t x => tbl_del x t) (concat (map items others)) t0))
    | [] => Err
    end
  else Err.

(* ------------------------------------------------------------------ *)
(* FLATTEN: [currentLevel] is a variable shared by the recursive closure;
   unwrap increments it on entry and the caller decrements it after a nested
   unwrap returns.  unwrap_val is the ForEach callback for one element, given
   the current value of currentLevel; it returns the values pushed and the new
   currentLevel. *)
Fixpoint unwrap_val (level : Z) (v : value) (cl : Z) {struct v} : list value * Z :=
  match v with
  | VArr inner =>
      if cl >? level then ([v], cl)
      else
        let r :=
          (fix go (l : list value) (c : Z) {struct l} : list value * Z :=
             match l with
             | [] => ([], c)
             | x :: rest =>
                 let r1 := unwrap_val level x c in
                 let r2 := go rest (snd r1) in
                 (fst r1 ++ fst r2, snd r2)
             end) inner (cl + 1) in
        (fst r, snd r - 1)
  | _ => ([v], cl)
  end.
Fixpoint unwrap_list (level : Z) (l : list value) (c : Z) : list value * Z :=
  match l with
  | [] => ([], c)
  | x :: rest =>
      let r1 := unwrap_val level x c in
      let r2 := unwrap_list level rest (snd r1) in
      (fst r1 ++ fst r2, snd r2)
  end.
Definition m_flatten (args : list value) : res :=
  match args with
  | [VArr l] => Ok (VArr (fst (unwrap_list 1 l 1)))
  | [VArr l; VInt d] => Ok (VArr (fst (unwrap_list d l 1)))
  | _ => Err
  end.

(* ------------------------------------------------------------------ *)
(* The same functions after the repairs proposed in proposed_fixes/C16-*:
   the correspondence check accepts either variant as "the mirror", and the
   theorems state for the pinned variants where they miss the specification
   and for the repaired variants that they meet it. *)

(* Array.Get with "idx < 0 ||" added to the bound test *)
Definition arr_get_fx (l : list value) (i : Z) : res :=
  let last := zlen l - 1 in
  if last <? 0 then Ok VNone
  else if (i <? 0) || (i >? last) then Ok VNone
  else match nth_error l (Z.to_nat i) with Some v => Ok v | None => Panic end.
Definition m_nth_fx (args : list value) : res :=
  match args with
  | [VArr l; VInt i] => arr_get_fx l i
  | _ => Err
  end.

(* Array.Slice with from clamped to 0 and to clamped to from *)
Definition arr_slice_fx (l : list value) (from to : Z) : list value :=
  let len := zlen l in
  if from >=? len then []
  else
    let to1 := if to >? len then len else to in
    let from1 := if from <? 0 then 0 else from in
    let to2 := if to1 <? from1 then from1 else to1 in
    firstn (Z.to_nat (to2 - from1)) (skipn (Z.to_nat from1) l).
Definition m_slice_fx (args : list value) : res :=
  match args with
  | [VArr l; VInt s] => Ok (VArr (arr_slice_fx l s (zlen l)))
  | [VArr l; VInt s; a2] =>
      let to := match a2 with
                | VInt n => if n >? 0 then s + n else zlen l
                | _ => zlen l
                end in
      Ok (VArr (arr_slice_fx l s to))
  | _ => Err
  end.

(* REMOVE_NTH with the capacity clamped at 0 *)
Definition m_remove_nth_fx (args : list value) : res :=
  match args with
  | [VArr l; VInt i] => Ok (VArr (loop_remove_nth l 0 i))
  | _ => Err
  end.

(* REMOVE_VALUE keeping an equal item when limit > -1 && counter >= limit *)
Fixpoint loop_remove_value_fx (l : list value) (x : value) (counter limit : Z) : list value :=
  match l with
  | [] => []
  | it :: r =>
      if ceq it x then
        if (limit >? -1) && (counter >=? limit) then it :: loop_remove_value_fx r x (counter + 1) limit
        else loop_remove_value_fx r x (counter + 1) limit
      else it :: loop_remove_value_fx r x counter limit
  end.
Definition m_remove_value_fx (args : list value) : res :=
  match args with
  | [VArr l; x] => Ok (VArr (loop_remove_value_fx l x 0 (-1)))
  | [VArr l; x; VInt lim] => Ok (VArr (loop_remove_value_fx l x 0 lim))
  | _ => Err
  end.

(* sections() with a per-array table of seen hashes: a value is added to its
   bucket once per array *)
Definition sections_fx (args : list value) (required : nat) : res :=
  if arity_ge 2 args && all_arrays args then
    Ok (VArr (map fst (filter (fun p => Nat.eqb (snd p) required)
                               (buckets_of (concat (map (fun a => to_unique (items a)) args))))))
  else Err.
Definition m_intersection_fx (args : list value) : res := sections_fx args (List.length args).
Definition m_outersection_fx (args : list value) : res := sections_fx args 1.

(* ================================================================== *)
(* Specifications                                                      *)

(* what a specification says about one call *)
Inductive sres : Type :=
| SVal (v : value)          (* the result, exactly (objects up to member order) *)
| SPerm (l : list value)    (* an array that is a permutation of l *)
| SSet (l : list value)     (* an array with the same set of elements as l *)
| SSetNoDup (l : list value)(* same set as l and no element twice *)
| SSortedPerm (l : list value) (* sorted by the total order, permutation of l *)
| SSortedSet (l : list value)  (* sorted, no element twice, same set as l *)
| SOkArray                  (* some array, no failure (position outside the collection,
                               behaviour not documented further) *)
| SErr                      (* documented failure *)
| SUnspec.                  (* outside the specified domain *)

Definition s_nth_or_none (l : list value) (i : Z) : value :=
  if (0 <=? i) && (i <? zlen l) then nth (Z.to_nat i) l VNone else VNone.

Definition s_first (args : list value) : sres :=
  match args with [VArr l] => SVal (hd VNone l) | _ => SUnspec end.
Definition s_last (args : list value) : sres :=
  match args with [VArr l] => SVal (last l VNone) | _ => SUnspec end.
Definition s_nth (args : list value) : sres :=
  match args with [VArr l; VInt i] => SVal (s_nth_or_none l i) | _ => SUnspec end.

(* the elements at positions p with from <= p < from+count that exist *)
Definition s_window (l : list value) (from : Z) (count : option Z) : list value :=
  let lo := Z.max from 0 in
  let hi := match count with Some c => Z.min (from + c) (zlen l) | None => zlen l end in
  firstn (Z.to_nat (hi - lo)) (skipn (Z.to_nat lo) l).
Definition s_slice (args : list value) : sres :=
  match args with
  (* positions before the first element select nothing (fix a52babe): the window
     [s, s + n) is clipped to the array, it is not shifted *)
  | [VArr l; VInt s] => if s <? 0 then SVal (VArr l) else SVal (VArr (s_window l s None))
  | [VArr l; VInt s; VInt n] =>
      if n >? 0 then (if s <? 0 then SVal (VArr (firstn (Z.to_nat (s + n)) l)) else SVal (VArr (s_window l s (Some n)))) else SUnspec
  | _ => SUnspec
  end.

Definition s_remove_at (l : list value) (i : Z) : list value :=
  if (0 <=? i) && (i <? zlen l) then firstn (Z.to_nat i) l ++ skipn (S (Z.to_nat i)) l else l.
Definition s_remove_nth (args : list value) : sres :=
  match args with [VArr l; VInt i] => SVal (VArr (s_remove_at l i)) | _ => SUnspec end.

Definition s_pop (args : list value) : sres :=
  match args with [VArr l] => SVal (VArr (removelast l)) | _ => SUnspec end.
Definition s_shift (args : list value) : sres :=
  match args with [VArr l] => SVal (VArr (tl l)) | _ => SUnspec end.

Definition s_append (args : list value) : sres :=
  match args with
  | [VArr l; x] => SVal (VArr (l ++ [x]))
  | [VArr l; x; VBool u] => SVal (VArr (if u && cmemb x l then l else l ++ [x]))
  | _ => SUnspec
  end.
Definition s_unshift (args : list value) : sres :=
  match args with
  | [VArr l; x] => SVal (VArr (x :: l))
  | [VArr l; x; VBool u] => SVal (VArr (if u && cmemb x l then l else x :: l))
  | _ => SUnspec
  end.

(* remove the first n occurrences (all of them when n is None) *)
Fixpoint remove_first_n (l : list value) (x : value) (n : option nat) : list value :=
  match l with
  | [] => []
  | it :: r =>
      if ceq it x then
        match n with
        | None => remove_first_n r x None
        | Some O => it :: r
        | Some (S k) => remove_first_n r x (Some k)
        end
      else it :: remove_first_n r x n
  end.
Definition s_remove_value (args : list value) : sres :=
  match args with
  | [VArr l; x] => SVal (VArr (remove_first_n l x None))
  | [VArr l; x; VInt lim] =>
      if lim <? 0 then SUnspec else SVal (VArr (remove_first_n l x (Some (Z.to_nat lim))))
  | _ => SUnspec
  end.
Definition s_remove_values (args : list value) : sres :=
  match args with
  | [VArr l; VArr vs] => SVal (VArr (filter (fun x => negb (hmemb x vs)) l))
  | _ => SUnspec
  end.
Definition s_reverse (args : list value) : sres :=
  match args with [VArr l] => SVal (VArr (rev l)) | _ => SUnspec end.
Definition s_length (args : list value) : sres :=
  match args with
  | [VArr l] => SVal (VInt (zlen l))
  | [VObj m] => SVal (VInt (zlen m))
  | _ => SUnspec
  end.
Definition s_includes (args : list value) : sres :=
  match args with
  | [VArr l; x] => SVal (VBool (cmemb x l))
  | [VObj m; x] => SVal (VBool (cmemb x (map snd m)))
  | _ => SUnspec
  end.
Definition s_position (args : list value) : sres :=
  match args with
  | [VArr l; x] => SVal (VBool (cmemb x l))
  | [VArr l; x; VBool p] => if p then SVal (VInt (position l x)) else SVal (VBool (cmemb x l))
  | _ => SUnspec
  end.

Definition s_sorted (args : list value) : sres :=
  match args with [VArr l] => SSortedPerm l | _ => SUnspec end.
Definition s_sorted_unique (args : list value) : sres :=
  match args with [VArr l] => SSortedSet l | _ => SUnspec end.
Definition s_unique (args : list value) : sres :=
  match args with [VArr l] => SSetNoDup l | _ => SUnspec end.

Definition arrays_of (args : list value) : option (list (list value)) :=
  if arity_ge 2 args && all_arrays args then Some (map items args) else None.

Definition s_union (args : list value) : sres :=
  match arrays_of args with Some ls => SPerm (concat ls) | None => SUnspec end.
Definition s_union_distinct (args : list value) : sres :=
  match arrays_of args with Some ls => SSetNoDup (concat ls) | None => SUnspec end.

(* elements of the first array that occur in every other one *)
Definition inter_list (ls : list (list value)) : list value :=
  match ls with
  | [] => []
  | a :: r => filter (fun x => forallb (fun b => hmemb x b) r) a
  end.
(* elements that occur in exactly one of the arrays (as sets) *)
Definition occurs_in (x : value) (ls : list (list value)) : nat :=
  List.length (filter (fun b => hmemb x b) ls).
Definition outer_list (ls : list (list value)) : list value :=
  filter (fun x => Nat.eqb (occurs_in x ls) 1) (concat ls).
(* elements of the first array that occur in none of the others *)
Definition minus_list (ls : list (list value)) : list value :=
  match ls with
  | [] => []
  | a :: r => filter (fun x => negb (hmemb x (concat r))) a
  end.
Definition s_intersection (args : list value) : sres :=
  match arrays_of args with Some ls => SSetNoDup (inter_list ls) | None => SUnspec end.
Definition s_outersection (args : list value) : sres :=
  match arrays_of args with Some ls => SSetNoDup (outer_list ls) | None => SUnspec end.
Definition s_minus (args : list value) : sres :=
  match arrays_of args with Some ls => SSetNoDup (minus_list ls) | None => SUnspec end.

Fixpoint flatten_spec (d : nat) (l : list value) : list value :=
  match d with
  | O => l
  | S d' => flat_map (fun x => match x with VArr i => flatten_spec d' i | _ => [x] end) l
  end.
Definition s_flatten (args : list value) : sres :=
  match args with
  | [VArr l] => SVal (VArr (flatten_spec 1 l))
  | [VArr l; VInt d] => SVal (VArr (flatten_spec (Z.to_nat d) l))
  | _ => SUnspec
  end.
