(* Match.v — the pattern operators on the subsets the generators emit.
   LIKE (gobwas/glob without separators): '*' any sequence, '?' any one
   character, everything else literal; patterns containing [ ] { } \ ! and
   non-ASCII text are outside the model (None).
   =~ / !~ (Go regexp, unanchored search): a sequence of atoms — a literal
   alphanumeric / space character or '.', each optionally followed by * + ? —
   with optional leading ^ and trailing $; anything else is outside the model.
   Definitions only. *)
From Ferret Require Export Base.

Definition ascii_only (s : bytes) : bool := forallb (fun c => (c <? 128)%N) s.

Definition glob_special (c : N) : bool :=
  existsb (N.eqb c) [91; 93; 123; 125; 92; 33]%N.     (* [ ] { } \ ! *)

Fixpoint glob_go (fuel : nat) (p s : bytes) : bool :=
  match fuel with
  | O => false
  | S k =>
      match p with
      | [] => match s with [] => true | _ => false end
      | 42%N :: p' =>                                   (* '*' *)
          glob_go k p' s || match s with [] => false | _ :: s' => glob_go k p s' end
      | 63%N :: p' => match s with [] => false | _ :: s' => glob_go k p' s' end   (* '?' *)
      | c :: p' => match s with
                   | d :: s' => (c =? d)%N && glob_go k p' s'
                   | [] => false
                   end
      end
  end.
Definition glob_match (p s : bytes) : option bool :=
  if ascii_only p && ascii_only s && negb (existsb glob_special p)
  then Some (glob_go (S (2 * (length p + length s))) p s) else None.

(* ---- regular expressions *)
Inductive ratom := RChr (c : N) | RAny.
Inductive rquant := Q1 | QStar | QPlus | QOpt.

Definition is_plain (c : N) : bool :=
  ((48 <=? c) && (c <=? 57) || (65 <=? c) && (c <=? 90) || (97 <=? c) && (c <=? 122) || (c =? 32))%N.

(* parse the body (no anchors) *)
Fixpoint rparse (fuel : nat) (p : bytes) : option (list (ratom * rquant)) :=
  match fuel with
  | O => None
  | S k =>
      match p with
      | [] => Some []
      | c :: r =>
          let atom := if (c =? 46)%N then Some RAny else if is_plain c then Some (RChr c) else None in
          match atom with
          | None => None
          | Some a =>
              let '(q, rest) := match r with
                                | 42%N :: r' => (QStar, r')
                                | 43%N :: r' => (QPlus, r')
                                | 63%N :: r' => (QOpt, r')
                                | _ => (Q1, r)
                                end in
              match rparse k rest with Some l => Some ((a, q) :: l) | None => None end
          end
      end
  end.

Definition atom_ok (a : ratom) (c : N) : bool :=
  match a with RChr d => (c =? d)%N | RAny => negb (c =? 10)%N end.

(* match atoms at the start of s; [to_end]: the match must consume all of s *)
Fixpoint rgo (fuel : nat) (l : list (ratom * rquant)) (s : bytes) (to_end : bool) : bool :=
  match fuel with
  | O => false
  | S k =>
      match l with
      | [] => if to_end then match s with [] => true | _ => false end else true
      | (a, q) :: l' =>
          let one := match s with c :: s' => if atom_ok a c then Some s' else None | [] => None end in
          match q with
          | Q1 => match one with Some s' => rgo k l' s' to_end | None => false end
          | QOpt => rgo k l' s to_end || match one with Some s' => rgo k l' s' to_end | None => false end
          | QStar => rgo k l' s to_end || match one with Some s' => rgo k l s' to_end | None => false end
          | QPlus => match one with Some s' => rgo k ((a, QStar) :: l') s' to_end | None => false end
          end
      end
  end.

Fixpoint rsearch (fuel : nat) (l : list (ratom * rquant)) (s : bytes) (to_end : bool) (n : nat) : bool :=
  rgo fuel l s to_end ||
  match n, s with
  | S n', _ :: s' => rsearch fuel l s' to_end n'
  | _, _ => false
  end.

Definition regex_match (p s : bytes) : option bool :=
  if negb (ascii_only p && ascii_only s) then None else
  let '(anch_start, p1) := match p with 94%N :: r => (true, r) | _ => (false, p) end in
  let '(anch_end, p2) := match rev p1 with 36%N :: r => (true, rev r) | _ => (false, p1) end in
  match rparse (S (length p2)) p2 with
  | None => None
  | Some l =>
      let fuel := S (4 * (length p2 + 1) * (length s + 1)) in
      Some (if anch_start then rgo fuel l s anch_end else rsearch fuel l s anch_end (length s))
  end.
