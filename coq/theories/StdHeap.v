(* StdHeap.v — heap-level models of the library functions that reach an in-place
   primitive of values.Array / values.Object (C15).  Definitions only.

   Every array function of pkg/stdlib/arrays that builds its result with
   Array.Push does so on an array it has just allocated (values.NewArray), and
   pushes items it read from its arguments: h_rebuild.  The object functions
   MERGE, VALUES, KEEP_KEYS, ZIP Set / Push clones into a container they have just
   allocated.  MERGE_RECURSIVE is the exception on the pinned tree: merge(src,
   dst) stores into src, and src may be an object reachable from an argument. *)
From Ferret Require Export Heap.
Local Open Scope nat_scope.

(* result = a fresh array holding (f items-of-arr) *)
Definition h_rebuild (h : heap) (arr : loc) (cap : nat) (f : list hval -> list hval) : heap * loc :=
  h_build h cap (f (arr_items h arr)).

Definition remove_nth_items (i : nat) (l : list hval) : list hval := firstn i l ++ skipn (S i) l.

(* the items selected are a pure function of the argument's items (and, for
   the unique / remove-by-value variants, of their deep values) *)
Definition h_append (h : heap) (arr : loc) (x : hval) (push : bool) : heap * loc :=
  h_rebuild h arr (S (List.length (arr_items h arr))) (fun l => if push then l ++ [x] else l).
Definition h_unshift (h : heap) (arr : loc) (x : hval) (push : bool) : heap * loc :=
  h_rebuild h arr (S (List.length (arr_items h arr))) (fun l => if push then x :: l else l).
Definition h_pop (h : heap) (arr : loc) : heap * loc :=
  h_rebuild h arr (List.length (arr_items h arr)) (@removelast hval).
Definition h_shift (h : heap) (arr : loc) : heap * loc :=
  h_rebuild h arr (List.length (arr_items h arr)) (@tl hval).
Definition h_remove_nth (h : heap) (arr : loc) (i : nat) : heap * loc :=
  h_rebuild h arr (List.length (arr_items h arr) - 1) (remove_nth_items i).
Definition h_reverse (h : heap) (arr : loc) : heap * loc :=
  h_rebuild h arr (List.length (arr_items h arr)) (@rev hval).
(* REMOVE_VALUE, REMOVE_VALUES, UNIQUE, SORTED (copy + sort.SliceStable on the
   copy), SORTED_UNIQUE, UNION, FLATTEN, ...: some selection / rearrangement *)
Definition h_select (h : heap) (arr : loc) (sel : list hval -> list hval) : heap * loc :=
  h_rebuild h arr (List.length (arr_items h arr)) sel.

(* a fresh object receiving Set calls *)
Definition h_build_object (h : heap) (kvs : list (bytes * hval)) : heap * loc :=
  let (h1, o) := h_new_object h in
  (fold_left (fun hh kv => h_obj_set hh o (fst kv) (snd kv)) kvs h1, o).

(* Clone(): a deep copy into fresh cells.  Out of fuel the copy is cut (never
   shared), so that every statement below holds for every fuel. *)
Fixpoint h_clone (fuel : nat) (h : heap) (r : hval) : heap * hval :=
  match r with
  | HS _ => (h, r)
  | HA a =>
      match fuel with
      | O => (h, HS VNone)
      | S f =>
          let acc := fold_left (fun acc x => let c := h_clone f (fst acc) x in (fst c, snd acc ++ [snd c]))
                               (arr_items h a) (h, []) in
          let b := h_build (fst acc) 0 (snd acc) in
          (fst b, HA (snd b))
      end
  | HO o =>
      match fuel with
      | O => (h, HS VNone)
      | S f =>
          let acc := fold_left (fun acc kv => let c := h_clone f (fst acc) (snd kv) in
                                              (fst c, snd acc ++ [(fst kv, snd c)]))
                               (obj_members h o) (h, []) in
          let b := h_build_object (fst acc) (snd acc) in
          (fst b, HO (snd b))
      end
  end.

(* ---- MERGE_RECURSIVE as pinned: merge(src, dst) *)
Definition same_kind (a b : hval) : bool :=
  match a, b with
  | HO _, HO _ => true
  | _, _ => false
  end.
Fixpoint h_merge (fuel : nat) (h : heap) (src dst : hval) : heap * hval :=
  match fuel with
  | O => (h, dst)
  | S f =>
      match src, dst with
      | HO s, HO d =>
          match obj_members h d with
          | [] => (h, src)
          | dm =>
              (fold_left (fun hh kv =>
                  let r := match hget (fst kv) (obj_members hh s) with
                           | Some sv => h_merge f hh sv (snd kv)     (* val = merge(srcVal, val) *)
                           | None => (hh, snd kv)
                           end in
                  h_obj_set (fst r) s (fst kv) (snd r))                (* srcObj.Set(key, val) *)
                dm h, src)
          end
      | _, _ => (h, dst)
      end
  end.
(* merged := NewObject(); for each arg: merged = merge(merged, arg); return merged.Clone() *)
Definition h_merge_recursive (fuel : nat) (h : heap) (args : list hval) : heap * hval :=
  let (h0, m) := h_new_object h in
  let acc := fold_left (fun acc a => h_merge fuel (fst acc) (snd acc) a) args (h0, HO m) in
  h_clone fuel (fst acc) (snd acc).

(* ---- MERGE_RECURSIVE after proposed_fixes/C15-merge-recursive-aliasing:
   whatever is stored into the result is a clone *)
Fixpoint h_merge_fx (fuel : nat) (h : heap) (src dst : hval) : heap * hval :=
  match fuel with
  | O => (h, HS VNone)
  | S f =>
      match src, dst with
      | HO s, HO d =>
          match obj_members h d with
          | [] => (h, src)
          | dm =>
              (fold_left (fun hh kv =>
                  let r := match hget (fst kv) (obj_members hh s) with
                           | Some sv => h_merge_fx f hh sv (snd kv)
                           | None => h_clone f hh (snd kv)
                           end in
                  h_obj_set (fst r) s (fst kv) (snd r))
                dm h, src)
          end
      | _, _ => h_clone f h dst
      end
  end.
Definition h_merge_recursive_fx (fuel : nat) (h : heap) (args : list hval) : heap * hval :=
  let (h0, m) := h_new_object h in
  let acc := fold_left (fun acc a => h_merge_fx fuel (fst acc) (snd acc) a) args (h0, HO m) in
  h_clone fuel (fst acc) (snd acc).

(* ---- what the model claims about every registered function (the table the
   correspondence check compares the observations with) *)
Inductive fclass : Type :=
| ReadOnly          (* no in-place primitive reachable *)
| CopyThenMutate    (* in-place primitives only on containers allocated by the call *)
| MutatesArgument.  (* an in-place primitive applied to (part of) an argument *)

Definition mutates_args (c : fclass) : bool :=
  match c with MutatesArgument => true | _ => false end.
